(* C02: bounding boxes enclose the curve and are tight; path boxes are joins.
   C03 (first sentence): findExtremes returns exactly the sign changes of x' / y' inside [0.01, 0.99]. *)
From Coq Require Import PrimFloat.
From Coq Require Import ZArith List Bool Reals Lra Lia Psatz.
From Coquelicot Require Import Coquelicot.
From BZ Require Import Base.Ops Proofs.Tactics Gen.Point Gen.Utils Gen.BBox Gen.Line Gen.Quad Gen.Cubic Hand.Bounds.
Import ListNotations.
Open Scope R_scope.

(* ================================================================================================ *)
(* Part A.  Real analysis on one coordinate polynomial  p(t) = cpoly A B C D t = A t^3 + B t^2 + C t + D *)
(* ================================================================================================ *)

Definition cpoly (A B C D t : R) := A*t*t*t + B*t*t + C*t + D.
Definition dcpoly (A B C t : R) := 3*A*t*t + 2*B*t + C.

Lemma cpoly_derivable A B C D t : derivable_pt_lim (cpoly A B C D) t (dcpoly A B C t).
Proof. apply is_derive_Reals. unfold cpoly, dcpoly. auto_derive; [exact I|ring]. Qed.

Lemma cpoly_neg A B C D t : cpoly (-A) (-B) (-C) (-D) t = - cpoly A B C D t.
Proof. unfold cpoly; ring. Qed.
Lemma dcpoly_neg A B C t : dcpoly (-A) (-B) (-C) t = - dcpoly A B C t.
Proof. unfold dcpoly; ring. Qed.

(* on [0,1], p is bounded by its values at 0, 1 and at interior critical points *)
Lemma cubic_max_at_crit A B C D M :
  cpoly A B C D 0 <= M -> cpoly A B C D 1 <= M ->
  (forall r, 0 < r < 1 -> dcpoly A B C r = 0 -> cpoly A B C D r <= M) ->
  forall t, 0 <= t <= 1 -> cpoly A B C D t <= M.
Proof.
  intros H0 H1 Hc t Ht.
  destruct (continuity_ab_maj (cpoly A B C D) 0 1) as [Mx [Hmax HMx]]; [lra| |].
  { intros x _. apply derivable_continuous_pt. exists (dcpoly A B C x). apply cpoly_derivable. }
  apply Rle_trans with (cpoly A B C D Mx); [apply Hmax; exact Ht|].
  destruct (Req_dec Mx 0) as [->|N0]; [exact H0|].
  destruct (Req_dec Mx 1) as [->|N1]; [exact H1|].
  apply Hc; [lra|].
  assert (pr : derivable_pt (cpoly A B C D) Mx) by (exists (dcpoly A B C Mx); apply cpoly_derivable).
  rewrite <- (deriv_maximum (cpoly A B C D) 0 1 Mx pr); [| lra | lra | intros x Hx0 Hx1; apply Hmax; lra].
  symmetry. apply derive_pt_eq_0. apply cpoly_derivable.
Qed.

(* at a double zero r of p' (p'(r) = 0 and p''(r) = 0) p is monotone: p(t) - p(r) = A (t - r)^3 *)
Lemma double_zero_monotone A B C D r t :
  dcpoly A B C r = 0 -> 6*A*r + 2*B = 0 -> cpoly A B C D t - cpoly A B C D r = A * (t - r) * (t - r) * (t - r).
Proof.
  unfold cpoly, dcpoly. intros H1 H2.
  assert (HB : B = - 3*A*r) by lra. assert (HC : C = 3*A*r*r) by (subst B; lra).
  subst B C. ring.
Qed.

Lemma double_zero_le_ends A B C D r :
  0 <= r <= 1 -> dcpoly A B C r = 0 -> 6*A*r + 2*B = 0 ->
  cpoly A B C D r <= cpoly A B C D 0 \/ cpoly A B C D r <= cpoly A B C D 1.
Proof.
  intros Hr H1 H2.
  pose proof (double_zero_monotone A B C D r 0 H1 H2) as E0.
  pose proof (double_zero_monotone A B C D r 1 H1 H2) as E1.
  destruct (Rle_dec 0 A) as [HA|HA].
  - right. assert (0 <= A * (1 - r) * (1 - r) * (1 - r)); [|lra].
    assert (0 <= (1-r)*(1-r)*(1-r)) by (apply Rmult_le_pos; [apply Rmult_le_pos|]; lra). nra.
  - left. assert (0 <= A * (0 - r) * (0 - r) * (0 - r)); [|lra].
    assert (0 <= r*r*r) by (apply Rmult_le_pos; [apply Rmult_le_pos|]; lra). nra.
Qed.

(* the master upper bound: simple interior zeros in the window are covered by M, zeros in the end slivers by sx *)
Lemma cubic_upper A B C D M sx :
  0 <= sx ->
  cpoly A B C D 0 <= M -> cpoly A B C D 1 <= M ->
  (forall r, 1/100 <= r <= 99/100 -> dcpoly A B C r = 0 -> 6*A*r + 2*B <> 0 -> cpoly A B C D r <= M) ->
  (forall r, 0 < r < 1/100 -> dcpoly A B C r = 0 -> cpoly A B C D r <= cpoly A B C D 0 + sx) ->
  (forall r, 99/100 < r < 1 -> dcpoly A B C r = 0 -> cpoly A B C D r <= cpoly A B C D 1 + sx) ->
  forall t, 0 <= t <= 1 -> cpoly A B C D t <= M + sx.
Proof.
  intros Hs H0 H1 Hwin Hlo Hhi. apply cubic_max_at_crit; try lra.
  intros r Hr Hd.
  destruct (Req_dec (6*A*r + 2*B) 0) as [Hdd|Hdd].
  - destruct (double_zero_le_ends A B C D r) as [H|H]; try lra.
  - destruct (Rlt_dec r (1/100)) as [Hl|Hl]; [specialize (Hlo r); lra|].
    destruct (Rlt_dec (99/100) r) as [Hh|Hh]; [specialize (Hhi r); lra|].
    specialize (Hwin r); lra.
Qed.

(* the sliver bounds: p'(r) = 0 turns p(r) - p(end) into a second-order quantity *)
Lemma sliver_lo_identity A B C D r :
  dcpoly A B C r = 0 -> cpoly A B C D r - cpoly A B C D 0 = - (r * r) * (2*A*r + B).
Proof. unfold cpoly, dcpoly. intros H. assert (HC : C = - 3*A*r*r - 2*B*r) by lra. subst C. ring. Qed.
Lemma sliver_hi_identity A B C D r :
  dcpoly A B C r = 0 -> cpoly A B C D r - cpoly A B C D 1 = - ((1 - r) * (1 - r)) * (2*A*r + A + B).
Proof. unfold cpoly, dcpoly. intros H. assert (HC : C = - 3*A*r*r - 2*B*r) by lra. subst C. ring. Qed.

(* K bounds |B| and |3A + B| (= half of p'' at 0 and at 1) *)
Lemma sliver_lo_bound A B C D r K :
  Rabs B <= K -> Rabs (3*A + B) <= K -> 0 < r < 1/100 -> dcpoly A B C r = 0 ->
  Rabs (cpoly A B C D r - cpoly A B C D 0) <= K / 10000.
Proof.
  intros HB HA Hr Hd. rewrite (sliver_lo_identity A B C D r Hd).
  apply Rabs_le_between in HB. apply Rabs_le_between in HA.
  assert (HK : - K <= 2*A*r + B <= K).
  { set (s := 2*r/3). assert (Hs : 0 <= s <= 1) by (unfold s; lra).
    replace (2*A*r + B) with ((1-s)*B + s*(3*A+B)) by (unfold s; field). nra. }
  assert (Hrr : 0 <= r*r <= 1/10000) by nra.
  apply Rabs_le_between. nra.
Qed.
Lemma sliver_hi_bound A B C D r K :
  Rabs B <= K -> Rabs (3*A + B) <= K -> 99/100 < r < 1 -> dcpoly A B C r = 0 ->
  Rabs (cpoly A B C D r - cpoly A B C D 1) <= K / 10000.
Proof.
  intros HB HA Hr Hd. rewrite (sliver_hi_identity A B C D r Hd).
  apply Rabs_le_between in HB. apply Rabs_le_between in HA.
  assert (HK : - K <= 2*A*r + A + B <= K).
  { set (s := (2*r+1)/3). assert (Hs : 0 <= s <= 1) by (unfold s; lra).
    replace (2*A*r + A + B) with ((1-s)*B + s*(3*A+B)) by (unfold s; field). nra. }
  assert (Hrr : 0 <= (1-r)*(1-r) <= 1/10000) by nra.
  apply Rabs_le_between. nra.
Qed.

(* ---- sign changes ---- *)
Definition sign_change (f : R -> R) (t : R) : Prop :=
  exists eps, eps > 0 /\ forall u v, t - eps < u < t -> t < v < t + eps -> f u * f v < 0.

Lemma sign_change_ext f g t : (forall u, f u = g u) -> sign_change f t <-> sign_change g t.
Proof.
  intros E; split; intros [eps [He H]]; exists eps; split; auto; intros u v Hu Hv.
  - rewrite <- !E; auto.
  - rewrite !E; auto.
Qed.

Lemma sign_change_zero f t : continuity_pt f t -> sign_change f t -> f t = 0.
Proof.
  intros Hc [eps [He H]].
  destruct (Req_dec (f t) 0) as [|Hn]; [assumption|exfalso].
  destruct (Hc (Rabs (f t))) as [alp [Ha Hal]]; [apply Rabs_pos_lt; exact Hn|].
  set (d := Rmin eps alp / 2).
  assert (Hd : 0 < d /\ d < eps /\ d < alp).
  { unfold d. pose proof (Rmin_l eps alp). pose proof (Rmin_r eps alp).
    assert (0 < Rmin eps alp) by (apply Rmin_glb_lt; lra). lra. }
  assert (Hnear : forall x, x <> t -> Rabs (x - t) < alp -> f x * f t > 0).
  { intros x Hx Hxa.
    assert (Hdist : Rabs (f x - f t) < Rabs (f t)).
    { apply Hal. split; [split; [exact I| congruence]|exact Hxa]. }
    revert Hdist. unfold Rabs. destruct (Rcase_abs (f x - f t)), (Rcase_abs (f t)); intros; nra. }
  assert (Hu : f (t - d) * f t > 0).
  { apply Hnear; [lra|]. replace (t - d - t) with (- d) by ring. rewrite Rabs_Ropp, Rabs_pos_eq; lra. }
  assert (Hv : f (t + d) * f t > 0).
  { apply Hnear; [lra|]. replace (t + d - t) with d by ring. rewrite Rabs_pos_eq; lra. }
  specialize (H (t - d) (t + d)).
  assert (f (t - d) * f (t + d) < 0) by (apply H; lra).
  nra.
Qed.

Definition quadf (a b c t : R) := a*t*t + b*t + c.

Lemma quadf_continuity a b c t : continuity_pt (quadf a b c) t.
Proof.
  apply derivable_continuous_pt. exists (2*a*t + b). apply is_derive_Reals.
  unfold quadf. auto_derive; [exact I|ring].
Qed.

(* a quadratic (or linear, a = 0) function changes sign at t exactly at its simple zeros *)
Lemma quadf_sign_change a b c t :
  sign_change (quadf a b c) t <-> quadf a b c t = 0 /\ 2*a*t + b <> 0.
Proof.
  assert (Hexp : forall u, quadf a b c u = quadf a b c t + (u - t) * ((2*a*t + b) + a * (u - t)))
    by (intros; unfold quadf; ring).
  split.
  - intros Hsc. pose proof (sign_change_zero _ _ (quadf_continuity a b c t) Hsc) as Hz.
    split; [exact Hz|]. intros Hs. destruct Hsc as [eps [He H]].
    specialize (H (t - eps/2) (t + eps/2)).
    assert (Hneg : quadf a b c (t - eps/2) * quadf a b c (t + eps/2) < 0) by (apply H; lra).
    rewrite (Hexp (t - eps/2)), (Hexp (t + eps/2)), Hz, Hs in Hneg.
    assert (0 <= (a * (eps/2) * (eps/2)) * (a * (eps/2) * (eps/2))) by nra.
    nra.
  - intros [Hz Hs]. set (s := 2*a*t + b) in *.
    set (AA := Rabs a + 1). assert (HAA : 0 < AA) by (unfold AA; pose proof (Rabs_pos a); lra).
    exists (Rabs s / AA). split.
    { apply Rlt_gt, Rdiv_lt_0_compat; [apply Rabs_pos_lt; exact Hs|exact HAA]. }
    assert (Hsame : forall h, Rabs h < Rabs s / AA -> (s + a * h) * s > 0).
    { intros h Hh.
      assert (Hah : Rabs (a * h) < Rabs s).
      { rewrite Rabs_mult.
        assert (Rabs h * AA < Rabs s).
        { apply (Rmult_lt_compat_r AA) in Hh; [|exact HAA]. unfold Rdiv in Hh.
          rewrite Rmult_assoc, Rinv_l, Rmult_1_r in Hh; lra. }
        pose proof (Rabs_pos h). pose proof (Rabs_pos a). unfold AA in *. nra. }
      revert Hah. unfold Rabs. destruct (Rcase_abs (a*h)), (Rcase_abs s); intros; nra. }
    intros u v Hu Hv.
    assert (H1 : (s + a * (u - t)) * s > 0).
    { apply Hsame. rewrite Rabs_left; lra. }
    assert (H2 : (s + a * (v - t)) * s > 0).
    { apply Hsame. rewrite Rabs_right; lra. }
    rewrite (Hexp u), (Hexp v), Hz.
    assert (H3 : (s + a * (u - t)) * (s + a * (v - t)) > 0).
    { assert (0 < s * s) by nra.
      assert (((s + a * (u - t)) * (s + a * (v - t))) * (s * s) > 0) by nra. nra. }
    assert (H4 : (u - t) * (v - t) < 0) by nra.
    fold s. nra.
Qed.

(* ================================================================================================ *)
(* Part B.  utils.quadraticRoots                                                                     *)
(* ================================================================================================ *)

Definition tiny : R := 1/1000000000.

Ltac dec_all :=
  repeat match goal with
  | |- context [Rle_dec ?x ?y] => destruct (Rle_dec x y)
  | |- context [Rlt_dec ?x ?y] => destruct (Rlt_dec x y)
  | |- context [Req_EM_T ?x ?y] => destruct (Req_EM_T x y)
  end.

Lemma quad_factor a b c t :
  a <> 0 -> 0 <= b*b - 4*a*c ->
  a*t*t + b*t + c =
  a * (t - (- b / (2*a) - sqrt (b*b - 4*a*c) / (2*a))) * (t - (- b / (2*a) + sqrt (b*b - 4*a*c) / (2*a))).
Proof.
  intros Ha HD. pose proof (sqrt_sqrt _ HD) as Hs. set (s := sqrt (b*b - 4*a*c)) in *.
  assert (Hc : c = (b*b - s*s) / (4*a)) by (rewrite Hs; field; exact Ha).
  rewrite Hc at 1. field. exact Ha.
Qed.

Lemma tiny_branch_nonzero a b : Rabs a > tiny * Rabs b -> a <> 0.
Proof.
  intros H Ha. subst a. rewrite Rabs_R0 in H. pose proof (Rabs_pos b). unfold tiny in H. lra.
Qed.

(* genuinely quadratic branch, positive discriminant: exactly the roots in [0,1] *)
Lemma quadraticRoots_quadratic_pos a b c t :
  Rabs a > tiny * Rabs b -> 0 < b*b - 4*a*c ->
  (In t (utils_quadraticRoots ROps a b c) <-> 0 <= t <= 1 /\ a*t*t + b*t + c = 0).
Proof.
  intros Hq HD. pose proof (tiny_branch_nonzero a b Hq) as Ha. unfold tiny in Hq.
  pose proof (quad_factor a b c t Ha (Rlt_le _ _ HD)) as HF.
  rcbv.
  set (t1 := - b / (2*a) - sqrt (b*b - 4*a*c) / (2*a)) in *.
  set (t2 := - b / (2*a) + sqrt (b*b - 4*a*c) / (2*a)) in *.
  clearbody t1 t2.
  assert (Hroot : a*t*t + b*t + c = 0 <-> t = t1 \/ t = t2).
  { rewrite HF. split.
    - intros H. apply Rmult_integral in H. destruct H as [H|H].
      + apply Rmult_integral in H. destruct H; [contradiction|left; lra].
      + right; lra.
    - intros [->| ->]; ring. }
  rewrite Hroot. clear HF Hroot.
  dec_all; rcbv; try lra; intuition (try lra; try congruence).
Qed.

(* genuinely quadratic branch, discriminant <= 0: nothing (a double root is deliberately not reported) *)
Lemma quadraticRoots_quadratic_nonpos a b c :
  Rabs a > tiny * Rabs b -> b*b - 4*a*c <= 0 -> utils_quadraticRoots ROps a b c = [].
Proof.
  intros Hq HD. unfold tiny in Hq. rcbv. dec_all; try reflexivity; exfalso; lra.
Qed.

(* "numerically linear" branch: the root of the truncated polynomial b t + c *)
Lemma quadraticRoots_linear_branch a b c t :
  Rabs a <= tiny * Rabs b ->
  (In t (utils_quadraticRoots ROps a b c) <-> b <> 0 /\ 0 <= t <= 1 /\ b*t + c = 0).
Proof.
  intros Hq. unfold tiny in Hq. rcbv.
  assert (Hr : b <> 0 -> (b*t + c = 0 <-> - c / b = t)).
  { intros Hb. split; intros H.
    - assert (Hc : c = - (b*t)) by lra. rewrite Hc. field. exact Hb.
    - rewrite <- H. field. exact Hb. }
  dec_all; rcbv; try (exfalso; lra); intuition (try lra; try congruence).
Qed.

Lemma quadraticRoots_linear b c t :
  In t (utils_quadraticRoots ROps 0 b c) <-> b <> 0 /\ 0 <= t <= 1 /\ b*t + c = 0.
Proof.
  apply quadraticRoots_linear_branch. rewrite Rabs_R0. unfold tiny. pose proof (Rabs_pos b). lra.
Qed.

(* in the band 0 < |a| <= 1e-9 |b| the reported root is that of b t + c; its residual in the full
   polynomial is a t^2, at most |a| <= 1e-9 |b| *)
Lemma quadraticRoots_near_linear a b c t :
  Rabs a <= tiny * Rabs b -> In t (utils_quadraticRoots ROps a b c) ->
  b <> 0 /\ 0 <= t <= 1 /\ b*t + c = 0 /\
  Rabs (a*t*t + b*t + c) <= Rabs a /\ Rabs a <= tiny * Rabs b.
Proof.
  intros Hq Hin. apply (quadraticRoots_linear_branch a b c t Hq) in Hin.
  destruct Hin as [Hb [Ht Hz]]. repeat split; try tauto; try lra.
  replace (a*t*t + b*t + c) with (a * (t*t)) by lra.
  rewrite Rabs_mult. rewrite (Rabs_pos_eq (t*t)) by nra.
  assert (Htt : 0 <= t*t <= 1) by nra.
  pose proof (Rmult_le_compat_l (Rabs a) (t*t) 1 (Rabs_pos a) (proj2 Htt)). lra.
Qed.

Definition genuine1 (a b : R) : Prop := a = 0 \/ Rabs a > tiny * Rabs b.

Theorem quadraticRoots_spec a b c t :
  (Rabs a > tiny * Rabs b -> 0 < b*b - 4*a*c ->
     (In t (utils_quadraticRoots ROps a b c) <-> 0 <= t <= 1 /\ a*t*t + b*t + c = 0)) /\
  (Rabs a > tiny * Rabs b -> b*b - 4*a*c <= 0 -> utils_quadraticRoots ROps a b c = []) /\
  (a = 0 -> (In t (utils_quadraticRoots ROps a b c) <-> b <> 0 /\ 0 <= t <= 1 /\ b*t + c = 0)) /\
  (Rabs a <= tiny * Rabs b ->
     (In t (utils_quadraticRoots ROps a b c) <-> b <> 0 /\ 0 <= t <= 1 /\ b*t + c = 0)).
Proof.
  split; [|split; [|split]].
  - apply quadraticRoots_quadratic_pos.
  - apply quadraticRoots_quadratic_nonpos.
  - intros ->. apply quadraticRoots_linear.
  - apply quadraticRoots_linear_branch.
Qed.

(* outside the near-linear band the result is exactly the set of simple zeros in [0,1] *)
Lemma quadraticRoots_simple_zeros a b c t :
  genuine1 a b ->
  (In t (utils_quadraticRoots ROps a b c) <-> 0 <= t <= 1 /\ quadf a b c t = 0 /\ 2*a*t + b <> 0).
Proof.
  unfold quadf. intros [Ha|Hq].
  - subst a. rewrite quadraticRoots_linear. split.
    + intros [Hb [Ht Hz]]. repeat split; lra.
    + intros [Ht [Hz Hb]]. repeat split; lra.
  - assert (HD : b*b - 4*a*c = (2*a*t+b)*(2*a*t+b) - 4*a*(a*t*t+b*t+c)) by ring.
    destruct (Rlt_dec 0 (b*b - 4*a*c)) as [Hp|Hn].
    + rewrite (quadraticRoots_quadratic_pos a b c t Hq Hp). split.
      * intros [Ht Hz]. repeat split; try lra. intros Hs. rewrite Hz, Hs in HD. lra.
      * tauto.
    + rewrite (quadraticRoots_quadratic_nonpos a b c Hq) by lra. split; [intros []|].
      intros [Ht [Hz Hs]]. rewrite Hz in HD. assert (0 < (2*a*t+b)*(2*a*t+b)) by nra. simpl. lra.
Qed.

(* ================================================================================================ *)
(* Part C.  findExtremes = sign changes of the derivative coordinates inside [0.01, 0.99]  (C03)     *)
(* ================================================================================================ *)

Lemma insert_sorted_in {T} (O : Ops T) (x y : T) l : In x (insert_sorted O y l) <-> x = y \/ In x l.
Proof.
  induction l as [|z l IH]; simpl.
  - intuition.
  - destruct (ltb O y z); simpl; [intuition|]. rewrite IH. intuition.
Qed.
Lemma sort_fold_in {T} (O : Ops T) (x : T) l : forall acc,
  In x (fold_left (fun acc y => insert_sorted O y acc) l acc) <-> In x l \/ In x acc.
Proof.
  induction l as [|y l IH]; intros acc; simpl; [intuition|].
  rewrite IH, insert_sorted_in. intuition.
Qed.
Lemma sort_in {T} (O : Ops T) (x : T) l : In x (sort_ O l) <-> In x l.
Proof. unfold sort_. rewrite sort_fold_in. simpl. intuition. Qed.

(* the window test used by both findExtremes *)
Lemma window_true t :
  andb (leb ROps (lit ROps 1 100 0x1.47ae147ae147bp-7%float) t) (leb ROps t (lit ROps 99 100 0x1.fae147ae147aep-1%float)) = true
  <-> 1/100 <= t <= 99/100.
Proof. rewrite andb_true_iff, !Rleb_true. cbn [lit ROps]. tauto. Qed.

(* power-basis coefficients of one coordinate (selected by s = px or py) of a cubic / quadratic segment *)
Definition cfA (s : pt R -> R) (c : seg4 R) := s (c3 c) - 3 * s (c2 c) + 3 * s (c1 c) - s (c0 c).
Definition cfB (s : pt R -> R) (c : seg4 R) := 3 * (s (c2 c) - 2 * s (c1 c) + s (c0 c)).
Definition cfC (s : pt R -> R) (c : seg4 R) := 3 * (s (c1 c) - s (c0 c)).
Definition qfB (s : pt R -> R) (q : seg3 R) := s (q0 q) - 2 * s (q1 q) + s (q2 q).
Definition qfC (s : pt R -> R) (q : seg3 R) := 2 * (s (q1 q) - s (q0 q)).

Lemma cubic_px_poly c t : px (Cubic_pointAtTime ROps c t) = cpoly (cfA px c) (cfB px c) (cfC px c) (px (c0 c)) t.
Proof. destruct_pts. rcbv. ring. Qed.
Lemma cubic_py_poly c t : py (Cubic_pointAtTime ROps c t) = cpoly (cfA py c) (cfB py c) (cfC py c) (py (c0 c)) t.
Proof. destruct_pts. rcbv. ring. Qed.
Lemma cubic_dx_poly c t :
  px (Quad_pointAtTime ROps (Cubic_derivative ROps c) t) = quadf (3 * cfA px c) (2 * cfB px c) (cfC px c) t.
Proof. destruct_pts. rcbv. ring. Qed.
Lemma cubic_dy_poly c t :
  py (Quad_pointAtTime ROps (Cubic_derivative ROps c) t) = quadf (3 * cfA py c) (2 * cfB py c) (cfC py c) t.
Proof. destruct_pts. rcbv. ring. Qed.
Lemma quad_px_poly q t : px (Quad_pointAtTime ROps q t) = cpoly 0 (qfB px q) (qfC px q) (px (q0 q)) t.
Proof. destruct_pts. rcbv. ring. Qed.
Lemma quad_py_poly q t : py (Quad_pointAtTime ROps q t) = cpoly 0 (qfB py q) (qfC py q) (py (q0 q)) t.
Proof. destruct_pts. rcbv. ring. Qed.
Lemma quad_dx_poly q t :
  px (Line_pointAtTime ROps (Quad_derivative ROps q) t) = quadf 0 (2 * qfB px q) (qfC px q) t.
Proof. destruct_pts. rcbv. ring. Qed.
Lemma quad_dy_poly q t :
  py (Line_pointAtTime ROps (Quad_derivative ROps q) t) = quadf 0 (2 * qfB py q) (qfC py q) t.
Proof. destruct_pts. rcbv. ring. Qed.
Lemma dcpoly_quadf A B C t : dcpoly A B C t = quadf (3*A) (2*B) C t.
Proof. unfold dcpoly, quadf. ring. Qed.

Lemma Cubic__findDRoots_eq c :
  Cubic__findDRoots ROps c =
  utils_quadraticRoots ROps (3 * cfA px c) (2 * cfB px c) (cfC px c) ++
  utils_quadraticRoots ROps (3 * cfA py c) (2 * cfB py c) (cfC py c).
Proof.
  destruct_pts. unfold Cubic__findDRoots. cbn [app]. f_equal; f_equal; rcbv; ring.
Qed.

(* a cubic is "genuine" when neither derivative coordinate falls into the near-linear band 0 < |a| <= 1e-9 |b| *)
Definition genuine (c : seg4 R) : Prop :=
  genuine1 (3 * cfA px c) (2 * cfB px c) /\ genuine1 (3 * cfA py c) (2 * cfB py c).

Lemma cubic_findExtremes_in c t :
  In t (Cubic_findExtremes_False ROps c) <->
  1/100 <= t <= 99/100 /\
  (In t (utils_quadraticRoots ROps (3 * cfA px c) (2 * cfB px c) (cfC px c)) \/
   In t (utils_quadraticRoots ROps (3 * cfA py c) (2 * cfB py c) (cfC py c))).
Proof.
  unfold Cubic_findExtremes_False. rewrite filter_In, sort_in, Cubic__findDRoots_eq, in_app_iff, window_true.
  tauto.
Qed.

Lemma cubic_findExtremes_simple_zeros c t :
  genuine c ->
  (In t (Cubic_findExtremes_False ROps c) <->
   1/100 <= t <= 99/100 /\
   ((dcpoly (cfA px c) (cfB px c) (cfC px c) t = 0 /\ 6 * cfA px c * t + 2 * cfB px c <> 0) \/
    (dcpoly (cfA py c) (cfB py c) (cfC py c) t = 0 /\ 6 * cfA py c * t + 2 * cfB py c <> 0))).
Proof.
  intros [Gx Gy]. rewrite cubic_findExtremes_in.
  rewrite (quadraticRoots_simple_zeros _ _ _ t Gx), (quadraticRoots_simple_zeros _ _ _ t Gy), !dcpoly_quadf.
  replace (2 * (3 * cfA px c) * t) with (6 * cfA px c * t) by ring.
  replace (2 * (3 * cfA py c) * t) with (6 * cfA py c * t) by ring.
  split; [tauto|]. intros [Hw H]. split; [exact Hw|]. assert (0 <= t <= 1) by lra. tauto.
Qed.

Theorem cubic_findExtremes_exact c t :
  genuine c ->
  (In t (Cubic_findExtremes_False ROps c) <->
   1/100 <= t <= 99/100 /\
   (sign_change (fun u => px (Quad_pointAtTime ROps (Cubic_derivative ROps c) u)) t \/
    sign_change (fun u => py (Quad_pointAtTime ROps (Cubic_derivative ROps c) u)) t)).
Proof.
  intros G. rewrite (cubic_findExtremes_simple_zeros c t G).
  rewrite (sign_change_ext _ _ t (cubic_dx_poly c)), (sign_change_ext _ _ t (cubic_dy_poly c)).
  rewrite !quadf_sign_change, !dcpoly_quadf.
  replace (2 * (3 * cfA px c) * t) with (6 * cfA px c * t) by ring.
  replace (2 * (3 * cfA py c) * t) with (6 * cfA py c * t) by ring.
  tauto.
Qed.

Lemma quad_findExtremes_in q t :
  In t (Quad_findExtremes ROps q) <->
  1/100 <= t <= 99/100 /\
  ((qfB px q <> 0 /\ (px (q0 q) - px (q1 q)) / qfB px q = t) \/
   (qfB py q <> 0 /\ (py (q0 q) - py (q1 q)) / qfB py q = t)).
Proof.
  unfold Quad_findExtremes, Quad__findDRoots. rewrite filter_In, window_true.
  destruct_pts. rcbv.
  dec_all; rcbv; intuition (try lra; try congruence).
Qed.

Lemma quad_findExtremes_simple_zeros q t :
  In t (Quad_findExtremes ROps q) <->
  1/100 <= t <= 99/100 /\
  ((dcpoly 0 (qfB px q) (qfC px q) t = 0 /\ 6 * 0 * t + 2 * qfB px q <> 0) \/
   (dcpoly 0 (qfB py q) (qfC py q) t = 0 /\ 6 * 0 * t + 2 * qfB py q <> 0)).
Proof.
  rewrite quad_findExtremes_in.
  assert (Hx : forall s : pt R -> R,
            (qfB s q <> 0 /\ (s (q0 q) - s (q1 q)) / qfB s q = t) <->
            (dcpoly 0 (qfB s q) (qfC s q) t = 0 /\ 6 * 0 * t + 2 * qfB s q <> 0)).
  { intros s. unfold dcpoly, qfC. set (d := qfB s q). split.
    - intros [Hd <-]. split; [field; exact Hd|lra].
    - intros [Hz Hd]. assert (Hd' : d <> 0) by lra. split; [exact Hd'|].
      assert (Hn : s (q0 q) - s (q1 q) = d * t) by lra. rewrite Hn. field. exact Hd'. }
  rewrite (Hx px), (Hx py). tauto.
Qed.

Theorem quad_findExtremes_exact q t :
  In t (Quad_findExtremes ROps q) <->
  1/100 <= t <= 99/100 /\
  (sign_change (fun u => px (Line_pointAtTime ROps (Quad_derivative ROps q) u)) t \/
   sign_change (fun u => py (Line_pointAtTime ROps (Quad_derivative ROps q) u)) t).
Proof.
  rewrite quad_findExtremes_simple_zeros.
  rewrite (sign_change_ext _ _ t (quad_dx_poly q)), (sign_change_ext _ _ t (quad_dy_poly q)).
  rewrite !quadf_sign_change, !dcpoly_quadf.
  replace (3 * 0) with 0 by ring.
  replace (6 * 0 * t) with (2 * 0 * t) by ring.
  tauto.
Qed.

Theorem line_no_extremes (l : seg2 R) : Line_findExtremes ROps l = [].
Proof. reflexivity. Qed.

(* ================================================================================================ *)
(* Part D.  The extend loop computes the componentwise min / max of the sample points               *)
(* ================================================================================================ *)

Definition in_box (b : bbox R) (q : pt R) : Prop :=
  px (bl b) <= px q <= px (tr b) /\ py (bl b) <= py q <= py (tr b).

Lemma in_box_includes b q : in_box b q <-> BBox_includes ROps b q = true.
Proof. unfold in_box, BBox_includes. rewrite !andb_true_iff, !Rleb_true. tauto. Qed.

(* b encloses all the points and each of its four sides is touched by one of them *)
Definition box_of (pts : list (pt R)) (b : bbox R) : Prop :=
  (forall q, In q pts -> in_box b q) /\
  (exists q, In q pts /\ px (bl b) = px q) /\ (exists q, In q pts /\ py (bl b) = py q) /\
  (exists q, In q pts /\ px (tr b) = px q) /\ (exists q, In q pts /\ py (tr b) = py q).

Lemma min_step x m : let m' := (if ltb ROps x m then x else m) in m' <= m /\ m' <= x /\ (m' = m \/ m' = x).
Proof. cbn. destruct (Rlt_dec x m); lra. Qed.
Lemma max_step x m : let m' := (if ltb ROps m x then x else m) in m <= m' /\ x <= m' /\ (m' = m \/ m' = x).
Proof. cbn. destruct (Rlt_dec m x); lra. Qed.

Lemma bounds_of_snoc pts q : bounds_of ROps (pts ++ [q]) = extend_pt ROps (bounds_of ROps pts) q.
Proof. unfold bounds_of. rewrite fold_left_app. reflexivity. Qed.

Lemma extend_pt_box pts b q :
  box_of pts b -> exists b', extend_pt ROps (Some b) q = Some b' /\ box_of (pts ++ [q]) b'.
Proof.
  intros [Hall [[qa [Ia Ea]] [[qb [Ib Eb]] [[qc [Ic Ec]] [qd [Id Ed]]]]]].
  unfold extend_pt. eexists; split; [reflexivity|].
  pose proof (min_step (px q) (px (bl b))) as H1. pose proof (min_step (py q) (py (bl b))) as H2.
  pose proof (max_step (px q) (px (tr b))) as H3. pose proof (max_step (py q) (py (tr b))) as H4.
  cbv zeta in H1, H2, H3, H4.
  set (m1 := if ltb ROps (px q) (px (bl b)) then px q else px (bl b)) in *.
  set (m2 := if ltb ROps (py q) (py (bl b)) then py q else py (bl b)) in *.
  set (m3 := if ltb ROps (px (tr b)) (px q) then px q else px (tr b)) in *.
  set (m4 := if ltb ROps (py (tr b)) (py q) then py q else py (tr b)) in *.
  clearbody m1 m2 m3 m4.
  assert (Hq : In q (pts ++ [q])) by (apply in_or_app; right; left; reflexivity).
  assert (Hinc : forall z, In z pts -> In z (pts ++ [q])) by (intros; apply in_or_app; left; assumption).
  unfold box_of, in_box. cbn [bl tr px py]. split; [|split; [|split; [|split]]].
  - intros z Hz. apply in_app_or in Hz.
    destruct Hz as [Hz|[<-|[]]]; [destruct (Hall _ Hz) as [Hx Hy]|]; lra.
  - destruct H1 as [_ [_ [E| E]]]; [exists qa|exists q]; split; auto; congruence.
  - destruct H2 as [_ [_ [E| E]]]; [exists qb|exists q]; split; auto; congruence.
  - destruct H3 as [_ [_ [E| E]]]; [exists qc|exists q]; split; auto; congruence.
  - destruct H4 as [_ [_ [E| E]]]; [exists qd|exists q]; split; auto; congruence.
Qed.

Lemma bounds_of_box pts : pts <> [] -> exists b, bounds_of ROps pts = Some b /\ box_of pts b.
Proof.
  induction pts as [|q pts IH] using rev_ind; [congruence|]. intros _.
  rewrite bounds_of_snoc. destruct pts as [|q' pts'].
  - exists (BB q q). split; [reflexivity|]. unfold box_of, in_box. cbn [bl tr px py app].
    split; [|repeat split; exists q; (split; [left|]; reflexivity)].
    intros z [<-|[]]; lra.
  - destruct IH as [b [E Hb]]; [discriminate|]. rewrite E. apply extend_pt_box. exact Hb.
Qed.

Lemma bounds_of_some pts b : bounds_of ROps pts = Some b -> box_of pts b.
Proof.
  intros E. destruct pts as [|q pts]; [discriminate|].
  destruct (bounds_of_box (q :: pts)) as [b' [E' Hb]]; [discriminate|]. congruence.
Qed.

(* ================================================================================================ *)
(* Part E.  Enclosure (C02)                                                                          *)
(* ================================================================================================ *)

(* one coordinate, abstractly: ts are the sampled parameters (extremes ++ [0;1]), M bounds the samples *)
Lemma coord_upper A B C D K (ts : list R) M :
  Rabs B <= K -> Rabs (3*A + B) <= K ->
  In 0 ts -> In 1 ts ->
  (forall r, 1/100 <= r <= 99/100 -> dcpoly A B C r = 0 -> 6*A*r + 2*B <> 0 -> In r ts) ->
  (forall tau, In tau ts -> cpoly A B C D tau <= M) ->
  forall t, 0 <= t <= 1 -> cpoly A B C D t <= M + K / 10000.
Proof.
  intros HB HA I0 I1 Hwin HM.
  assert (HK : 0 <= K) by (pose proof (Rabs_pos B); lra).
  apply cubic_upper; try (apply HM; assumption); try lra.
  - intros r Hr Hd Hs. apply HM, Hwin; assumption.
  - intros r Hr Hd. pose proof (sliver_lo_bound A B C D r K HB HA Hr Hd) as Hb.
    apply Rabs_le_between in Hb. lra.
  - intros r Hr Hd. pose proof (sliver_hi_bound A B C D r K HB HA Hr Hd) as Hb.
    apply Rabs_le_between in Hb. lra.
Qed.

Lemma coord_lower A B C D K (ts : list R) m :
  Rabs B <= K -> Rabs (3*A + B) <= K ->
  In 0 ts -> In 1 ts ->
  (forall r, 1/100 <= r <= 99/100 -> dcpoly A B C r = 0 -> 6*A*r + 2*B <> 0 -> In r ts) ->
  (forall tau, In tau ts -> m <= cpoly A B C D tau) ->
  forall t, 0 <= t <= 1 -> m - K / 10000 <= cpoly A B C D t.
Proof.
  intros HB HA I0 I1 Hwin Hm t Ht.
  assert (H : cpoly (-A) (-B) (-C) (-D) t <= - m + K / 10000).
  { apply (coord_upper (-A) (-B) (-C) (-D) K ts (-m)); try assumption.
    - rewrite Rabs_Ropp. exact HB.
    - replace (3 * - A + - B) with (- (3*A + B)) by ring. rewrite Rabs_Ropp. exact HA.
    - intros r Hr Hd Hs. rewrite dcpoly_neg in Hd. apply Hwin; [exact Hr|lra|lra].
    - intros tau Htau. rewrite cpoly_neg. specialize (Hm tau Htau). lra. }
  rewrite cpoly_neg in H. lra.
Qed.

(* the exact versions: no zero of the derivative in the two end slivers *)
Lemma coord_upper_exact A B C D (ts : list R) M :
  (forall r, 0 < r < 1/100 \/ 99/100 < r < 1 -> dcpoly A B C r <> 0) ->
  In 0 ts -> In 1 ts ->
  (forall r, 1/100 <= r <= 99/100 -> dcpoly A B C r = 0 -> 6*A*r + 2*B <> 0 -> In r ts) ->
  (forall tau, In tau ts -> cpoly A B C D tau <= M) ->
  forall t, 0 <= t <= 1 -> cpoly A B C D t <= M.
Proof.
  intros Hns I0 I1 Hwin HM t Ht.
  replace M with (M + 0) by ring.
  apply cubic_upper; try (apply HM; assumption); try lra.
  - intros r Hr Hd Hs. apply HM, Hwin; assumption.
  - intros r Hr Hd. exfalso. apply (Hns r); [left; exact Hr|exact Hd].
  - intros r Hr Hd. exfalso. apply (Hns r); [right; exact Hr|exact Hd].
Qed.

Lemma coord_lower_exact A B C D (ts : list R) m :
  (forall r, 0 < r < 1/100 \/ 99/100 < r < 1 -> dcpoly A B C r <> 0) ->
  In 0 ts -> In 1 ts ->
  (forall r, 1/100 <= r <= 99/100 -> dcpoly A B C r = 0 -> 6*A*r + 2*B <> 0 -> In r ts) ->
  (forall tau, In tau ts -> m <= cpoly A B C D tau) ->
  forall t, 0 <= t <= 1 -> m <= cpoly A B C D t.
Proof.
  intros Hns I0 I1 Hwin Hm t Ht.
  assert (H : cpoly (-A) (-B) (-C) (-D) t <= - m).
  { apply (coord_upper_exact (-A) (-B) (-C) (-D) ts (-m)); try assumption.
    - intros r Hr. rewrite dcpoly_neg. specialize (Hns r Hr). lra.
    - intros r Hr Hd Hs. rewrite dcpoly_neg in Hd. apply Hwin; [exact Hr|lra|lra].
    - intros tau Htau. rewrite cpoly_neg. specialize (Hm tau Htau). lra. }
  rewrite cpoly_neg in H. lra.
Qed.

(* ---- control-polygon extent of one coordinate: max - min of the control values ---- *)
Definition ext4 (v0 v1 v2 v3 : R) := Rmax (Rmax v0 v1) (Rmax v2 v3) - Rmin (Rmin v0 v1) (Rmin v2 v3).
Definition ext3 (v0 v1 v2 : R) := Rmax (Rmax v0 v1) v2 - Rmin (Rmin v0 v1) v2.
Definition cubic_ext (s : pt R -> R) (c : seg4 R) := ext4 (s (c0 c)) (s (c1 c)) (s (c2 c)) (s (c3 c)).
Definition quad_ext (s : pt R -> R) (q : seg3 R) := ext3 (s (q0 q)) (s (q1 q)) (s (q2 q)).
(* the permitted protrusion: 0.06 % of the extent *)
Definition sigma (e : R) := 6 / 10000 * e.

Lemma ext4_spec v0 v1 v2 v3 : exists lo hi, ext4 v0 v1 v2 v3 = hi - lo /\
  lo <= v0 <= hi /\ lo <= v1 <= hi /\ lo <= v2 <= hi /\ lo <= v3 <= hi.
Proof.
  exists (Rmin (Rmin v0 v1) (Rmin v2 v3)), (Rmax (Rmax v0 v1) (Rmax v2 v3)). split; [reflexivity|].
  unfold Rmax, Rmin.
  destruct (Rle_dec v0 v1), (Rle_dec v2 v3); repeat match goal with |- context [Rle_dec ?x ?y] => destruct (Rle_dec x y) end; lra.
Qed.
Lemma ext3_spec v0 v1 v2 : exists lo hi, ext3 v0 v1 v2 = hi - lo /\
  lo <= v0 <= hi /\ lo <= v1 <= hi /\ lo <= v2 <= hi.
Proof.
  exists (Rmin (Rmin v0 v1) v2), (Rmax (Rmax v0 v1) v2). split; [reflexivity|].
  unfold Rmax, Rmin.
  destruct (Rle_dec v0 v1); repeat match goal with |- context [Rle_dec ?x ?y] => destruct (Rle_dec x y) end; lra.
Qed.

Lemma cubic_K_bounds s c :
  Rabs (cfB s c) <= 6 * cubic_ext s c /\ Rabs (3 * cfA s c + cfB s c) <= 6 * cubic_ext s c.
Proof.
  unfold cfA, cfB, cubic_ext.
  destruct (ext4_spec (s (c0 c)) (s (c1 c)) (s (c2 c)) (s (c3 c))) as [lo [hi [-> H]]].
  split; apply Rabs_le_between; lra.
Qed.
Lemma quad_K_bounds s q :
  Rabs (qfB s q) <= 6 * quad_ext s q /\ Rabs (3 * 0 + qfB s q) <= 6 * quad_ext s q.
Proof.
  unfold qfB, quad_ext.
  destruct (ext3_spec (s (q0 q)) (s (q1 q)) (s (q2 q))) as [lo [hi [-> H]]].
  split; apply Rabs_le_between; lra.
Qed.

(* ---- the sampled parameters of Segment.bounds() ---- *)
Lemma with_ends_R ex : with_ends ROps ex = ex ++ [0; 1].
Proof. reflexivity. Qed.
Lemma ends_in ex : In 0 (ex ++ [0; 1]) /\ In 1 (ex ++ [0; 1]).
Proof. split; apply in_or_app; right; simpl; auto. Qed.

Lemma cubic_samples_in_box c b :
  Cubic_bounds ROps c = Some b ->
  forall tau, In tau (Cubic_findExtremes_False ROps c ++ [0; 1]) -> in_box b (Cubic_pointAtTime ROps c tau).
Proof.
  intros E tau Htau. apply bounds_of_some in E. destruct E as [Hall _].
  apply Hall. rewrite with_ends_R. apply in_map. exact Htau.
Qed.
Lemma quad_samples_in_box q b :
  Quad_bounds ROps q = Some b ->
  forall tau, In tau (Quad_findExtremes ROps q ++ [0; 1]) -> in_box b (Quad_pointAtTime ROps q tau).
Proof.
  intros E tau Htau. apply bounds_of_some in E. destruct E as [Hall _].
  apply Hall. rewrite with_ends_R. apply in_map. exact Htau.
Qed.

(* simple zeros in the window are sampled *)
Lemma cubic_simple_zero_sampled_x c r :
  genuine1 (3 * cfA px c) (2 * cfB px c) -> 1/100 <= r <= 99/100 ->
  dcpoly (cfA px c) (cfB px c) (cfC px c) r = 0 -> 6 * cfA px c * r + 2 * cfB px c <> 0 ->
  In r (Cubic_findExtremes_False ROps c ++ [0; 1]).
Proof.
  intros G Hr Hd Hs. apply in_or_app; left. rewrite cubic_findExtremes_in. split; [exact Hr|left].
  rewrite (quadraticRoots_simple_zeros _ _ _ r G), <- dcpoly_quadf. repeat split; try lra.
Qed.
Lemma cubic_simple_zero_sampled_y c r :
  genuine1 (3 * cfA py c) (2 * cfB py c) -> 1/100 <= r <= 99/100 ->
  dcpoly (cfA py c) (cfB py c) (cfC py c) r = 0 -> 6 * cfA py c * r + 2 * cfB py c <> 0 ->
  In r (Cubic_findExtremes_False ROps c ++ [0; 1]).
Proof.
  intros G Hr Hd Hs. apply in_or_app; left. rewrite cubic_findExtremes_in. split; [exact Hr|right].
  rewrite (quadraticRoots_simple_zeros _ _ _ r G), <- dcpoly_quadf. repeat split; try lra.
Qed.
Lemma quad_simple_zero_sampled_x q r :
  1/100 <= r <= 99/100 ->
  dcpoly 0 (qfB px q) (qfC px q) r = 0 -> 6 * 0 * r + 2 * qfB px q <> 0 ->
  In r (Quad_findExtremes ROps q ++ [0; 1]).
Proof.
  intros Hr Hd Hs. apply in_or_app; left. rewrite quad_findExtremes_simple_zeros. tauto.
Qed.
Lemma quad_simple_zero_sampled_y q r :
  1/100 <= r <= 99/100 ->
  dcpoly 0 (qfB py q) (qfC py q) r = 0 -> 6 * 0 * r + 2 * qfB py q <> 0 ->
  In r (Quad_findExtremes ROps q ++ [0; 1]).
Proof.
  intros Hr Hd Hs. apply in_or_app; left. rewrite quad_findExtremes_simple_zeros. tauto.
Qed.

Lemma sigma_K e : 6 * e / 10000 = sigma e.
Proof. unfold sigma. field. Qed.

(* ---- cubics ---- *)
Theorem cubic_bounds_enclose_x c b :
  genuine1 (3 * cfA px c) (2 * cfB px c) -> Cubic_bounds ROps c = Some b ->
  forall t, 0 <= t <= 1 ->
  px (bl b) - sigma (cubic_ext px c) <= px (Cubic_pointAtTime ROps c t) <= px (tr b) + sigma (cubic_ext px c).
Proof.
  intros G E t Ht. pose proof (cubic_samples_in_box c b E) as HS.
  destruct (cubic_K_bounds px c) as [KB KA]. destruct (ends_in (Cubic_findExtremes_False ROps c)) as [I0 I1].
  rewrite cubic_px_poly, <- sigma_K. split.
  - apply (coord_lower _ _ _ _ _ (Cubic_findExtremes_False ROps c ++ [0; 1])); try assumption.
    + intros r. apply cubic_simple_zero_sampled_x. exact G.
    + intros tau Htau. rewrite <- cubic_px_poly. apply (HS tau Htau).
  - apply (coord_upper _ _ _ _ _ (Cubic_findExtremes_False ROps c ++ [0; 1])); try assumption.
    + intros r. apply cubic_simple_zero_sampled_x. exact G.
    + intros tau Htau. rewrite <- cubic_px_poly. apply (HS tau Htau).
Qed.
Theorem cubic_bounds_enclose_y c b :
  genuine1 (3 * cfA py c) (2 * cfB py c) -> Cubic_bounds ROps c = Some b ->
  forall t, 0 <= t <= 1 ->
  py (bl b) - sigma (cubic_ext py c) <= py (Cubic_pointAtTime ROps c t) <= py (tr b) + sigma (cubic_ext py c).
Proof.
  intros G E t Ht. pose proof (cubic_samples_in_box c b E) as HS.
  destruct (cubic_K_bounds py c) as [KB KA]. destruct (ends_in (Cubic_findExtremes_False ROps c)) as [I0 I1].
  rewrite cubic_py_poly, <- sigma_K. split.
  - apply (coord_lower _ _ _ _ _ (Cubic_findExtremes_False ROps c ++ [0; 1])); try assumption.
    + intros r. apply cubic_simple_zero_sampled_y. exact G.
    + intros tau Htau. rewrite <- cubic_py_poly. apply (HS tau Htau).
  - apply (coord_upper _ _ _ _ _ (Cubic_findExtremes_False ROps c ++ [0; 1])); try assumption.
    + intros r. apply cubic_simple_zero_sampled_y. exact G.
    + intros tau Htau. rewrite <- cubic_py_poly. apply (HS tau Htau).
Qed.
Theorem cubic_bounds_enclose c b :
  genuine c -> Cubic_bounds ROps c = Some b ->
  forall t, 0 <= t <= 1 ->
  px (bl b) - sigma (cubic_ext px c) <= px (Cubic_pointAtTime ROps c t) <= px (tr b) + sigma (cubic_ext px c) /\
  py (bl b) - sigma (cubic_ext py c) <= py (Cubic_pointAtTime ROps c t) <= py (tr b) + sigma (cubic_ext py c).
Proof.
  intros [Gx Gy] E t Ht. split; [apply cubic_bounds_enclose_x|apply cubic_bounds_enclose_y]; assumption.
Qed.

(* exact enclosure when the derivative coordinate has no zero in the two end slivers *)
Definition no_sliver_zero (f' : R -> R) : Prop := forall r, 0 < r < 1/100 \/ 99/100 < r < 1 -> f' r <> 0.

Theorem cubic_bounds_enclose_exact_x c b :
  genuine1 (3 * cfA px c) (2 * cfB px c) ->
  no_sliver_zero (fun u => px (Quad_pointAtTime ROps (Cubic_derivative ROps c) u)) ->
  Cubic_bounds ROps c = Some b ->
  forall t, 0 <= t <= 1 -> px (bl b) <= px (Cubic_pointAtTime ROps c t) <= px (tr b).
Proof.
  intros G Hns E t Ht. pose proof (cubic_samples_in_box c b E) as HS.
  destruct (ends_in (Cubic_findExtremes_False ROps c)) as [I0 I1].
  assert (Hns' : forall r, 0 < r < 1/100 \/ 99/100 < r < 1 -> dcpoly (cfA px c) (cfB px c) (cfC px c) r <> 0).
  { intros r Hr. rewrite dcpoly_quadf, <- cubic_dx_poly. apply (Hns r Hr). }
  rewrite cubic_px_poly. split.
  - apply (coord_lower_exact _ _ _ _ (Cubic_findExtremes_False ROps c ++ [0; 1])); try assumption.
    + intros r. apply cubic_simple_zero_sampled_x. exact G.
    + intros tau Htau. rewrite <- cubic_px_poly. apply (HS tau Htau).
  - apply (coord_upper_exact _ _ _ _ (Cubic_findExtremes_False ROps c ++ [0; 1])); try assumption.
    + intros r. apply cubic_simple_zero_sampled_x. exact G.
    + intros tau Htau. rewrite <- cubic_px_poly. apply (HS tau Htau).
Qed.
Theorem cubic_bounds_enclose_exact_y c b :
  genuine1 (3 * cfA py c) (2 * cfB py c) ->
  no_sliver_zero (fun u => py (Quad_pointAtTime ROps (Cubic_derivative ROps c) u)) ->
  Cubic_bounds ROps c = Some b ->
  forall t, 0 <= t <= 1 -> py (bl b) <= py (Cubic_pointAtTime ROps c t) <= py (tr b).
Proof.
  intros G Hns E t Ht. pose proof (cubic_samples_in_box c b E) as HS.
  destruct (ends_in (Cubic_findExtremes_False ROps c)) as [I0 I1].
  assert (Hns' : forall r, 0 < r < 1/100 \/ 99/100 < r < 1 -> dcpoly (cfA py c) (cfB py c) (cfC py c) r <> 0).
  { intros r Hr. rewrite dcpoly_quadf, <- cubic_dy_poly. apply (Hns r Hr). }
  rewrite cubic_py_poly. split.
  - apply (coord_lower_exact _ _ _ _ (Cubic_findExtremes_False ROps c ++ [0; 1])); try assumption.
    + intros r. apply cubic_simple_zero_sampled_y. exact G.
    + intros tau Htau. rewrite <- cubic_py_poly. apply (HS tau Htau).
  - apply (coord_upper_exact _ _ _ _ (Cubic_findExtremes_False ROps c ++ [0; 1])); try assumption.
    + intros r. apply cubic_simple_zero_sampled_y. exact G.
    + intros tau Htau. rewrite <- cubic_py_poly. apply (HS tau Htau).
Qed.
Theorem cubic_bounds_enclose_exact c b :
  genuine c ->
  no_sliver_zero (fun u => px (Quad_pointAtTime ROps (Cubic_derivative ROps c) u)) ->
  no_sliver_zero (fun u => py (Quad_pointAtTime ROps (Cubic_derivative ROps c) u)) ->
  Cubic_bounds ROps c = Some b ->
  forall t, 0 <= t <= 1 -> BBox_includes ROps b (Cubic_pointAtTime ROps c t) = true.
Proof.
  intros [Gx Gy] Hx Hy E t Ht. apply in_box_includes. split.
  - apply cubic_bounds_enclose_exact_x; assumption.
  - apply cubic_bounds_enclose_exact_y; assumption.
Qed.

(* ---- quadratics (no genuineness hypothesis: Quad._findDRoots divides directly) ---- *)
Theorem quad_bounds_enclose q b :
  Quad_bounds ROps q = Some b ->
  forall t, 0 <= t <= 1 ->
  px (bl b) - sigma (quad_ext px q) <= px (Quad_pointAtTime ROps q t) <= px (tr b) + sigma (quad_ext px q) /\
  py (bl b) - sigma (quad_ext py q) <= py (Quad_pointAtTime ROps q t) <= py (tr b) + sigma (quad_ext py q).
Proof.
  intros E t Ht. pose proof (quad_samples_in_box q b E) as HS.
  destruct (quad_K_bounds px q) as [KBx KAx]. destruct (quad_K_bounds py q) as [KBy KAy].
  destruct (ends_in (Quad_findExtremes ROps q)) as [I0 I1].
  rewrite quad_px_poly, quad_py_poly, <- !sigma_K. repeat split.
  - apply (coord_lower _ _ _ _ _ (Quad_findExtremes ROps q ++ [0; 1])); try assumption.
    + intros r. apply quad_simple_zero_sampled_x.
    + intros tau Htau. rewrite <- quad_px_poly. apply (HS tau Htau).
  - apply (coord_upper _ _ _ _ _ (Quad_findExtremes ROps q ++ [0; 1])); try assumption.
    + intros r. apply quad_simple_zero_sampled_x.
    + intros tau Htau. rewrite <- quad_px_poly. apply (HS tau Htau).
  - apply (coord_lower _ _ _ _ _ (Quad_findExtremes ROps q ++ [0; 1])); try assumption.
    + intros r. apply quad_simple_zero_sampled_y.
    + intros tau Htau. rewrite <- quad_py_poly. apply (HS tau Htau).
  - apply (coord_upper _ _ _ _ _ (Quad_findExtremes ROps q ++ [0; 1])); try assumption.
    + intros r. apply quad_simple_zero_sampled_y.
    + intros tau Htau. rewrite <- quad_py_poly. apply (HS tau Htau).
Qed.

Theorem quad_bounds_enclose_exact_x q b :
  no_sliver_zero (fun u => px (Line_pointAtTime ROps (Quad_derivative ROps q) u)) ->
  Quad_bounds ROps q = Some b ->
  forall t, 0 <= t <= 1 -> px (bl b) <= px (Quad_pointAtTime ROps q t) <= px (tr b).
Proof.
  intros Hns E t Ht. pose proof (quad_samples_in_box q b E) as HS.
  destruct (ends_in (Quad_findExtremes ROps q)) as [I0 I1].
  assert (Hns' : forall r, 0 < r < 1/100 \/ 99/100 < r < 1 -> dcpoly 0 (qfB px q) (qfC px q) r <> 0).
  { intros r Hr. rewrite dcpoly_quadf. replace (3 * 0) with 0 by ring. rewrite <- quad_dx_poly. apply (Hns r Hr). }
  rewrite quad_px_poly. split.
  - apply (coord_lower_exact _ _ _ _ (Quad_findExtremes ROps q ++ [0; 1])); try assumption.
    + intros r. apply quad_simple_zero_sampled_x.
    + intros tau Htau. rewrite <- quad_px_poly. apply (HS tau Htau).
  - apply (coord_upper_exact _ _ _ _ (Quad_findExtremes ROps q ++ [0; 1])); try assumption.
    + intros r. apply quad_simple_zero_sampled_x.
    + intros tau Htau. rewrite <- quad_px_poly. apply (HS tau Htau).
Qed.
Theorem quad_bounds_enclose_exact_y q b :
  no_sliver_zero (fun u => py (Line_pointAtTime ROps (Quad_derivative ROps q) u)) ->
  Quad_bounds ROps q = Some b ->
  forall t, 0 <= t <= 1 -> py (bl b) <= py (Quad_pointAtTime ROps q t) <= py (tr b).
Proof.
  intros Hns E t Ht. pose proof (quad_samples_in_box q b E) as HS.
  destruct (ends_in (Quad_findExtremes ROps q)) as [I0 I1].
  assert (Hns' : forall r, 0 < r < 1/100 \/ 99/100 < r < 1 -> dcpoly 0 (qfB py q) (qfC py q) r <> 0).
  { intros r Hr. rewrite dcpoly_quadf. replace (3 * 0) with 0 by ring. rewrite <- quad_dy_poly. apply (Hns r Hr). }
  rewrite quad_py_poly. split.
  - apply (coord_lower_exact _ _ _ _ (Quad_findExtremes ROps q ++ [0; 1])); try assumption.
    + intros r. apply quad_simple_zero_sampled_y.
    + intros tau Htau. rewrite <- quad_py_poly. apply (HS tau Htau).
  - apply (coord_upper_exact _ _ _ _ (Quad_findExtremes ROps q ++ [0; 1])); try assumption.
    + intros r. apply quad_simple_zero_sampled_y.
    + intros tau Htau. rewrite <- quad_py_poly. apply (HS tau Htau).
Qed.
Theorem quad_bounds_enclose_exact q b :
  no_sliver_zero (fun u => px (Line_pointAtTime ROps (Quad_derivative ROps q) u)) ->
  no_sliver_zero (fun u => py (Line_pointAtTime ROps (Quad_derivative ROps q) u)) ->
  Quad_bounds ROps q = Some b ->
  forall t, 0 <= t <= 1 -> BBox_includes ROps b (Quad_pointAtTime ROps q t) = true.
Proof.
  intros Hx Hy E t Ht. apply in_box_includes. split.
  - apply quad_bounds_enclose_exact_x; assumption.
  - apply quad_bounds_enclose_exact_y; assumption.
Qed.

(* ---- lines: exact ---- *)
Theorem line_bounds_enclose l b :
  Line_bounds ROps l = Some b ->
  forall t, 0 <= t <= 1 -> BBox_includes ROps b (Line_pointAtTime ROps l t) = true.
Proof.
  intros E t Ht. apply in_box_includes. apply bounds_of_some in E. destruct E as [Hall _].
  assert (H0 : in_box b (Line_pointAtTime ROps l 0)) by (apply Hall; simpl; auto).
  assert (H1 : in_box b (Line_pointAtTime ROps l 1)) by (apply Hall; simpl; auto).
  revert H0 H1. unfold in_box. generalize (bl b) (tr b). intros lo hi. destruct_pts. rcbv. intros H0 H1.
  repeat split; nra.
Qed.

(* ================================================================================================ *)
(* Part F.  Tightness, totality, well-formedness                                                     *)
(* ================================================================================================ *)

(* each of the four sides of b is the coordinate of f at a sampled parameter tau in [0,1] *)
Definition tight (f : R -> pt R) (ts : list R) (b : bbox R) : Prop :=
  (exists tau, In tau ts /\ 0 <= tau <= 1 /\ px (bl b) = px (f tau)) /\
  (exists tau, In tau ts /\ 0 <= tau <= 1 /\ py (bl b) = py (f tau)) /\
  (exists tau, In tau ts /\ 0 <= tau <= 1 /\ px (tr b) = px (f tau)) /\
  (exists tau, In tau ts /\ 0 <= tau <= 1 /\ py (tr b) = py (f tau)).

Lemma box_of_tight f ts b :
  (forall tau, In tau ts -> 0 <= tau <= 1) -> box_of (map f ts) b -> tight f ts b.
Proof.
  intros Hr [_ [[qa [Ia Ea]] [[qb [Ib Eb]] [[qc [Ic Ec]] [qd [Id Ed]]]]]].
  apply in_map_iff in Ia, Ib, Ic, Id.
  destruct Ia as [ta [<- Ia]], Ib as [tb [<- Ib]], Ic as [tc [<- Ic]], Id as [td [<- Id]].
  split; [|split; [|split]]; [exists ta|exists tb|exists tc|exists td]; auto.
Qed.

Lemma cubic_samples_unit c tau : In tau (Cubic_findExtremes_False ROps c ++ [0; 1]) -> 0 <= tau <= 1.
Proof.
  intros H. apply in_app_or in H. destruct H as [H|[<-|[<-|[]]]]; try lra.
  apply cubic_findExtremes_in in H. lra.
Qed.
Lemma quad_samples_unit q tau : In tau (Quad_findExtremes ROps q ++ [0; 1]) -> 0 <= tau <= 1.
Proof.
  intros H. apply in_app_or in H. destruct H as [H|[<-|[<-|[]]]]; try lra.
  apply quad_findExtremes_in in H. lra.
Qed.
Lemma line_samples_unit (l : seg2 R) tau : In tau (Line_findExtremes ROps l ++ [0; 1]) -> 0 <= tau <= 1.
Proof. intros [<-|[<-|[]]]; lra. Qed.

Theorem bounds_tight_cubic c b :
  Cubic_bounds ROps c = Some b ->
  tight (Cubic_pointAtTime ROps c) (Cubic_findExtremes_False ROps c ++ [0; 1]) b.
Proof. intros E. apply box_of_tight; [apply cubic_samples_unit|]. apply bounds_of_some in E. exact E. Qed.
Theorem bounds_tight_quad q b :
  Quad_bounds ROps q = Some b ->
  tight (Quad_pointAtTime ROps q) (Quad_findExtremes ROps q ++ [0; 1]) b.
Proof. intros E. apply box_of_tight; [apply quad_samples_unit|]. apply bounds_of_some in E. exact E. Qed.
Theorem bounds_tight_line l b :
  Line_bounds ROps l = Some b ->
  tight (Line_pointAtTime ROps l) (Line_findExtremes ROps l ++ [0; 1]) b.
Proof. intros E. apply box_of_tight; [apply line_samples_unit|]. apply bounds_of_some in E. exact E. Qed.

(* bounds() never returns an empty box, and the box has bl <= tr *)
Definition wf_box (x : bbox R) : Prop := px (bl x) <= px (tr x) /\ py (bl x) <= py (tr x).

Lemma box_of_wf pts b : pts <> [] -> box_of pts b -> wf_box b.
Proof.
  intros Hne [Hall _]. destruct pts as [|q pts]; [congruence|].
  destruct (Hall q (or_introl eq_refl)) as [Hx Hy]. unfold wf_box. lra.
Qed.

Theorem segment_bounds_some (s : segment R) : exists b, segment_bounds ROps s = Some b /\ wf_box b.
Proof.
  assert (H : forall (f : R -> pt R) ex, exists b, bounds_of ROps (map f (with_ends ROps ex)) = Some b /\ wf_box b).
  { intros f ex. assert (Hne : map f (with_ends ROps ex) <> []).
    { rewrite with_ends_R. destruct ex; discriminate. }
    destruct (bounds_of_box _ Hne) as [b [E Hb]]. exists b. split; [exact E|].
    apply (box_of_wf _ _ Hne Hb). }
  destruct s as [l|q|c]; apply H.
Qed.
Corollary cubic_bounds_some c : exists b, Cubic_bounds ROps c = Some b /\ wf_box b.
Proof. apply (segment_bounds_some (SCubic c)). Qed.
Corollary quad_bounds_some q : exists b, Quad_bounds ROps q = Some b /\ wf_box b.
Proof. apply (segment_bounds_some (SQuad q)). Qed.
Corollary line_bounds_some l : exists b, Line_bounds ROps l = Some b /\ wf_box b.
Proof. apply (segment_bounds_some (SLine l)). Qed.

(* ================================================================================================ *)
(* Part G.  The bounding box of a path is the join of its segments' boxes                            *)
(* ================================================================================================ *)

(* b contains x *)
Definition contains (b x : bbox R) : Prop :=
  px (bl b) <= px (bl x) /\ py (bl b) <= py (bl x) /\ px (tr x) <= px (tr b) /\ py (tr x) <= py (tr b).

Definition corners (boxes : list (bbox R)) : list (pt R) := flat_map (fun x => [bl x; tr x]) boxes.

Lemma path_bounds_fold boxes : forall acc,
  fold_left (extend_box ROps) boxes acc = fold_left (extend_pt ROps) (corners boxes) acc.
Proof. induction boxes as [|x boxes IH]; intros acc; [reflexivity|]. simpl. rewrite IH. reflexivity. Qed.
Lemma path_bounds_corners boxes : path_bounds ROps boxes = bounds_of ROps (corners boxes).
Proof. apply path_bounds_fold. Qed.

Lemma path_bounds_nil : path_bounds ROps (@nil (bbox R)) = None.
Proof. reflexivity. Qed.
Lemma path_bounds_some boxes : boxes <> [] -> exists b, path_bounds ROps boxes = Some b.
Proof.
  intros Hne. rewrite path_bounds_corners. destruct boxes as [|x boxes]; [congruence|].
  destruct (bounds_of_box (corners (x :: boxes))) as [b [E _]]; [discriminate|]. exists b. exact E.
Qed.

Theorem path_bounds_is_join boxes b :
  path_bounds ROps boxes = Some b ->
  (forall x, In x boxes -> wf_box x) ->
  (forall x, In x boxes -> contains b x) /\
  (forall b', (forall x, In x boxes -> contains b' x) -> contains b' b).
Proof.
  rewrite path_bounds_corners. intros E Hwf. apply bounds_of_some in E.
  destruct E as [Hall [[qa [Ia Ea]] [[qb [Ib Eb]] [[qc [Ic Ec]] [qd [Id Ed]]]]]].
  assert (Hcorner : forall q, In q (corners boxes) -> exists x, In x boxes /\ (q = bl x \/ q = tr x)).
  { intros q Hq. apply in_flat_map in Hq. destruct Hq as [x [Hx [<-|[<-|[]]]]]; exists x; auto. }
  split.
  - intros x Hx.
    assert (Hbl : In (bl x) (corners boxes)) by (apply in_flat_map; exists x; simpl; auto).
    assert (Htr : In (tr x) (corners boxes)) by (apply in_flat_map; exists x; simpl; auto).
    destruct (Hall _ Hbl) as [H1 H2], (Hall _ Htr) as [H3 H4]. unfold contains. lra.
  - intros b' Hb'. unfold contains.
    destruct (Hcorner _ Ia) as [xa [Hxa Ca]], (Hcorner _ Ib) as [xb [Hxb Cb]],
             (Hcorner _ Ic) as [xc [Hxc Cc]], (Hcorner _ Id) as [xd [Hxd Cd]].
    pose proof (Hb' _ Hxa) as [Pa _]. pose proof (Hwf _ Hxa) as [Wa _].
    pose proof (Hb' _ Hxb) as [_ [Pb _]]. pose proof (Hwf _ Hxb) as [_ Wb].
    pose proof (Hb' _ Hxc) as [_ [_ [Pc _]]]. pose proof (Hwf _ Hxc) as [Wc _].
    pose proof (Hb' _ Hxd) as [_ [_ [_ Pd]]]. pose proof (Hwf _ Hxd) as [_ Wd].
    rewrite Ea, Eb, Ec, Ed.
    repeat split.
    + destruct Ca as [->| ->]; lra.
    + destruct Cb as [->| ->]; lra.
    + destruct Cc as [->| ->]; lra.
    + destruct Cd as [->| ->]; lra.
Qed.

(* ================================================================================================ *)
(* Part H.  Sensitivity: the arch (0,0) (0,100) (100,100) (100,0) needs the linear branch            *)
(* ================================================================================================ *)
(* Its y-derivative is the LINEAR function 300 - 600 t (the t^2 coefficient cancels exactly), so the only
   y-extreme, at t = 1/2, is found by the "numerically linear" branch of quadraticRoots; with the old
   behaviour (no roots when a = 0) the box top would be 0 while the curve reaches y = 75. *)
Definition arch : seg4 R := C4 (P 0 0) (P 0 100) (P 100 100) (P 100 0).

Lemma arch_genuine : genuine arch.
Proof.
  unfold genuine, genuine1, cfA, cfB, arch, tiny. cbn [c0 c1 c2 c3 px py]. split.
  - right. rewrite Rabs_left by lra. rewrite Rabs_right by lra. lra.
  - left. ring.
Qed.

Lemma arch_extremes t : In t (Cubic_findExtremes_False ROps arch) <-> t = 1/2.
Proof.
  rewrite (cubic_findExtremes_simple_zeros arch t arch_genuine).
  unfold dcpoly, cfA, cfB, cfC, arch. cbn [c0 c1 c2 c3 px py]. split.
  - intros [Hw [[Hz _]|[Hz _]]]; [exfalso; nra|lra].
  - intros ->. split; [lra|right]. split; lra.
Qed.

Example arch_needs_linear_branch :
  In (1/2) (Cubic_findExtremes_False ROps arch) /\
  cfA py arch = 0 /\
  exists b, Cubic_bounds ROps arch = Some b /\ py (tr b) = 75.
Proof.
  split; [apply arch_extremes; reflexivity|]. split; [unfold cfA, arch; cbn [c0 c1 c2 c3 px py]; ring|].
  destruct (cubic_bounds_some arch) as [b [E _]]. exists b. split; [exact E|].
  assert (Hhalf : In (1/2) (Cubic_findExtremes_False ROps arch ++ [0; 1])).
  { apply in_or_app; left. apply arch_extremes. reflexivity. }
  destruct (cubic_samples_in_box arch b E (1/2) Hhalf) as [_ [_ Hge]].
  destruct (bounds_tight_cubic arch b E) as [_ [_ [_ [tau [Htau [_ Etau]]]]]].
  assert (Hy : forall u, py (Cubic_pointAtTime ROps arch u) = 300 * u * (1 - u)).
  { intros u. rcbv. ring. }
  rewrite Hy in Hge, Etau.
  apply in_app_or in Htau. destruct Htau as [Htau|[<-|[<-|[]]]].
  - apply arch_extremes in Htau. subst tau. lra.
  - lra.
  - lra.
Qed.

(* The genuineness hypothesis of [cubic_findExtremes_exact] cannot be dropped: in the band 0 < |a| <= 1e-9 |b| the
   reported parameter is the root of the truncated polynomial b t + c, which is (slightly) off the true zero.
   Witness: x-coordinates 0, -1, -1, 1e-9 give x'(t) = 3e-9 t^2 + 6 t - 3; 1/2 is reported but x'(1/2) = 7.5e-10. *)
Definition band_cubic : seg4 R := C4 (P 0 0) (P (-1) 0) (P (-1) 0) (P (1/1000000000) 0).

Lemma cubic_findExtremes_exact_needs_genuine :
  exists c t, In t (Cubic_findExtremes_False ROps c) /\
    ~ sign_change (fun u => px (Quad_pointAtTime ROps (Cubic_derivative ROps c) u)) t /\
    ~ sign_change (fun u => py (Quad_pointAtTime ROps (Cubic_derivative ROps c) u)) t.
Proof.
  exists band_cubic, (1/2).
  assert (Ea : 3 * cfA px band_cubic = 3/1000000000) by (unfold cfA, band_cubic; cbn [c0 c1 c2 c3 px py]; field).
  assert (Eb : 2 * cfB px band_cubic = 6) by (unfold cfB, band_cubic; cbn [c0 c1 c2 c3 px py]; field).
  assert (Ec : cfC px band_cubic = -3) by (unfold cfC, band_cubic; cbn [c0 c1 c2 c3 px py]; field).
  assert (Eay : 3 * cfA py band_cubic = 0) by (unfold cfA, band_cubic; cbn [c0 c1 c2 c3 px py]; field).
  assert (Eby : 2 * cfB py band_cubic = 0) by (unfold cfB, band_cubic; cbn [c0 c1 c2 c3 px py]; field).
  assert (Ecy : cfC py band_cubic = 0) by (unfold cfC, band_cubic; cbn [c0 c1 c2 c3 px py]; field).
  split; [|split].
  - rewrite cubic_findExtremes_in. split; [lra|left]. rewrite Ea, Eb, Ec.
    apply quadraticRoots_linear_branch.
    + unfold tiny. rewrite !Rabs_right by lra. lra.
    + repeat split; lra.
  - rewrite (sign_change_ext _ _ _ (cubic_dx_poly band_cubic)), quadf_sign_change, Ea, Eb, Ec.
    unfold quadf. intros [Hz _]. lra.
  - rewrite (sign_change_ext _ _ _ (cubic_dy_poly band_cubic)), quadf_sign_change, Eay, Eby, Ecy.
    unfold quadf. intros [_ Hs]. lra.
Qed.

(* ================================================================================================ *)
(* Part I.  Enclosure without the genuineness hypothesis                                             *)
(* ================================================================================================ *)
(* In the band 0 < |a| <= 1e-9 |b| the sampled parameter u = -c/b is within 1e-9 of the true critical point r,
   so p(r) exceeds the sampled value by at most 1e-18 * 7 ext; a critical point within 1e-9 of the window ends
   is treated like a sliver zero, and there |B| <= 4 ext + |A| keeps the bound below 0.06 % of ext. *)

Lemma taylor_at_crit A B C D r u :
  dcpoly A B C r = 0 ->
  cpoly A B C D u - cpoly A B C D r = (u - r) * (u - r) * (3*A*r + B + A*(u - r)).
Proof. unfold cpoly, dcpoly. intros H. assert (HC : C = - 3*A*r*r - 2*B*r) by lra. subst C. ring. Qed.

Definition in_band (a b : R) : Prop := a <> 0 /\ Rabs a <= tiny * Rabs b.

Lemma genuine1_or_band a b : genuine1 a b \/ in_band a b.
Proof.
  unfold genuine1, in_band. destruct (Req_dec a 0) as [H0|H0]; [left; left; exact H0|].
  destruct (Rle_dec (Rabs a) (tiny * Rabs b)) as [H|H]; [right; split; assumption|left; right; lra].
Qed.

Lemma band_root_close A B C r :
  in_band (3*A) (2*B) -> 0 <= r <= 1 -> dcpoly A B C r = 0 ->
  exists u, 2*B*u + C = 0 /\ Rabs (u - r) <= tiny.
Proof.
  intros [Ha Hb] Hr Hd.
  assert (HB : 2*B <> 0).
  { intros HB. rewrite HB, Rabs_R0, Rmult_0_r in Hb. apply Rabs_pos_lt in Ha. lra. }
  exists (- C / (2*B)). split; [field; lra|].
  assert (HE : (2*B) * (- C / (2*B) - r) = 3*A * (r*r)).
  { unfold dcpoly in Hd. replace (3*A*(r*r)) with (- C - 2*B*r) by lra. field. lra. }
  assert (Hs : 0 <= r*r <= 1) by nra.
  assert (HE2 : Rabs (2*B) * Rabs (- C / (2*B) - r) = Rabs (3*A) * (r*r)).
  { rewrite <- Rabs_mult, HE, Rabs_mult, (Rabs_pos_eq (r*r)); [reflexivity|lra]. }
  apply Rmult_le_reg_l with (Rabs (2*B)); [apply Rabs_pos_lt; exact HB|].
  rewrite HE2. pose proof (Rabs_pos (3*A)) as HP. nra.
Qed.

Lemma prod_bound s s0 Q W : 0 <= s <= s0 -> - W <= Q <= W -> - (s0 * W) <= s * Q <= s0 * W.
Proof. intros Hs HQ. assert (0 <= W) by lra. split; nra. Qed.

Lemma coord_upper_band A B C D E (ts : list R) M :
  Rabs B <= 6 * E -> Rabs B <= 4 * E + Rabs A ->
  in_band (3*A) (2*B) ->
  In 0 ts -> In 1 ts ->
  (forall u, 1/100 <= u <= 99/100 -> 2*B*u + C = 0 -> In u ts) ->
  (forall tau, In tau ts -> cpoly A B C D tau <= M) ->
  forall t, 0 <= t <= 1 -> cpoly A B C D t <= M + 6 / 10000 * E.
Proof.
  intros HB6 HB4 Hband I0 I1 Hwin HM.
  assert (HE : 0 <= E) by (pose proof (Rabs_pos B); lra).
  assert (Hb' : 3 * Rabs A <= tiny * (2 * Rabs B)).
  { destruct Hband as [_ Hb]. rewrite !Rabs_mult in Hb.
    rewrite (Rabs_pos_eq 3), (Rabs_pos_eq 2) in Hb by lra. exact Hb. }
  pose proof (Rabs_pos A) as HA0. pose proof (Rabs_pos B) as HB0.
  assert (HAb : - Rabs A <= A <= Rabs A) by (apply Rabs_le_between; lra).
  assert (HBb : - Rabs B <= B <= Rabs B) by (apply Rabs_le_between; lra).
  set (aA := Rabs A) in *. set (aB := Rabs B) in *. clearbody aA aB. unfold tiny in Hb'.
  assert (HaA : aA <= 4/1000000000 * E) by lra.
  assert (HaB : aB <= (4 + 4/1000000000) * E) by lra.
  apply cubic_max_at_crit; [specialize (HM 0 I0); lra|specialize (HM 1 I1); lra|].
  intros r Hr Hd.
  destruct (band_root_close A B C r Hband) as [u [Hu Hclose]]; [lra|exact Hd|].
  apply Rabs_le_between in Hclose. unfold tiny in Hclose.
  destruct (Rlt_dec r (1/100 + 1/1000000000)) as [Hlo|Hlo]; [|destruct (Rlt_dec (99/100 - 1/1000000000) r) as [Hhi|Hhi]].
  - (* near the start: like a sliver zero *)
    pose proof (sliver_lo_identity A B C D r Hd) as Hid.
    assert (Hs : 0 <= r*r <= 10001/100000000) by nra.
    assert (HQ : - (2*aA + aB) <= 2*A*r + B <= 2*aA + aB).
    { assert (- aA <= A*r <= aA) by nra. lra. }
    pose proof (prod_bound _ _ _ _ Hs HQ) as HP. specialize (HM 0 I0). nra.
  - (* near the end *)
    pose proof (sliver_hi_identity A B C D r Hd) as Hid.
    assert (Hs : 0 <= (1-r)*(1-r) <= 10001/100000000) by nra.
    assert (HQ : - (3*aA + aB) <= 2*A*r + A + B <= 3*aA + aB).
    { assert (- aA <= A*r <= aA) by nra. lra. }
    pose proof (prod_bound _ _ _ _ Hs HQ) as HP. specialize (HM 1 I1). nra.
  - (* well inside the window: u is sampled and within 1e-9 of r *)
    assert (Hin : In u ts) by (apply Hwin; [lra|exact Hu]).
    pose proof (taylor_at_crit A B C D r u Hd) as Hid.
    assert (Hs : 0 <= (u-r)*(u-r) <= 1/1000000000).
    { assert (0 <= (1/1000000000 - (u-r)) * (1/1000000000 + (u-r))) by (apply Rmult_le_pos; lra).
      split; [apply Rle_0_sqr|lra]. }
    assert (HQ : - (4*aA + aB) <= 3*A*r + B + A*(u-r) <= 4*aA + aB).
    { assert (- aA <= A*r <= aA) by nra. assert (- aA <= A*(u-r) <= aA) by nra. lra. }
    pose proof (prod_bound _ _ _ _ Hs HQ) as HP. specialize (HM u Hin). nra.
Qed.

Lemma in_band_neg a b : in_band a b -> in_band (- a) (- b).
Proof. intros [Ha Hb]. split; [lra|]. rewrite !Rabs_Ropp. exact Hb. Qed.

Lemma coord_lower_band A B C D E (ts : list R) m :
  Rabs B <= 6 * E -> Rabs B <= 4 * E + Rabs A ->
  in_band (3*A) (2*B) ->
  In 0 ts -> In 1 ts ->
  (forall u, 1/100 <= u <= 99/100 -> 2*B*u + C = 0 -> In u ts) ->
  (forall tau, In tau ts -> m <= cpoly A B C D tau) ->
  forall t, 0 <= t <= 1 -> m - 6 / 10000 * E <= cpoly A B C D t.
Proof.
  intros HB6 HB4 Hband I0 I1 Hwin Hm t Ht.
  assert (H : cpoly (-A) (-B) (-C) (-D) t <= - m + 6 / 10000 * E).
  { apply (coord_upper_band (-A) (-B) (-C) (-D) E ts (-m)); try assumption.
    - rewrite Rabs_Ropp. exact HB6.
    - rewrite !Rabs_Ropp. exact HB4.
    - replace (3 * - A) with (- (3*A)) by ring. replace (2 * - B) with (- (2*B)) by ring.
      apply in_band_neg. exact Hband.
    - intros u Hu Hz. apply Hwin; [exact Hu|lra].
    - intros tau Htau. rewrite cpoly_neg. specialize (Hm tau Htau). lra. }
  rewrite cpoly_neg in H. lra.
Qed.

Lemma cubic_band_polygon s c : Rabs (cfB s c) <= 4 * cubic_ext s c + Rabs (cfA s c).
Proof.
  unfold cfA, cfB, cubic_ext.
  destruct (ext4_spec (s (c0 c)) (s (c1 c)) (s (c2 c)) (s (c3 c))) as [lo [hi [-> H]]].
  unfold Rabs. repeat destruct Rcase_abs; lra.
Qed.

(* in the band, the root of the truncated polynomial is sampled whenever it lies in the window *)
Lemma cubic_band_sampled_x c u :
  in_band (3 * cfA px c) (2 * cfB px c) -> 1/100 <= u <= 99/100 ->
  2 * cfB px c * u + cfC px c = 0 -> In u (Cubic_findExtremes_False ROps c ++ [0; 1]).
Proof.
  intros [Ha Hb] Hu Hz. apply in_or_app; left. rewrite cubic_findExtremes_in. split; [exact Hu|left].
  apply quadraticRoots_linear_branch; [exact Hb|]. repeat split; try lra.
  intros H0. rewrite H0, Rabs_R0, Rmult_0_r in Hb. apply Rabs_pos_lt in Ha. lra.
Qed.
Lemma cubic_band_sampled_y c u :
  in_band (3 * cfA py c) (2 * cfB py c) -> 1/100 <= u <= 99/100 ->
  2 * cfB py c * u + cfC py c = 0 -> In u (Cubic_findExtremes_False ROps c ++ [0; 1]).
Proof.
  intros [Ha Hb] Hu Hz. apply in_or_app; left. rewrite cubic_findExtremes_in. split; [exact Hu|right].
  apply quadraticRoots_linear_branch; [exact Hb|]. repeat split; try lra.
  intros H0. rewrite H0, Rabs_R0, Rmult_0_r in Hb. apply Rabs_pos_lt in Ha. lra.
Qed.

(* C02 for every cubic: no hypothesis on the coefficients *)
Theorem cubic_bounds_enclose_total c b :
  Cubic_bounds ROps c = Some b ->
  forall t, 0 <= t <= 1 ->
  px (bl b) - sigma (cubic_ext px c) <= px (Cubic_pointAtTime ROps c t) <= px (tr b) + sigma (cubic_ext px c) /\
  py (bl b) - sigma (cubic_ext py c) <= py (Cubic_pointAtTime ROps c t) <= py (tr b) + sigma (cubic_ext py c).
Proof.
  intros E t Ht. pose proof (cubic_samples_in_box c b E) as HS.
  destruct (ends_in (Cubic_findExtremes_False ROps c)) as [I0 I1].
  split.
  - destruct (genuine1_or_band (3 * cfA px c) (2 * cfB px c)) as [G|Hband].
    + apply cubic_bounds_enclose_x; assumption.
    + destruct (cubic_K_bounds px c) as [KB _]. pose proof (cubic_band_polygon px c) as KP.
      rewrite cubic_px_poly. unfold sigma. split.
      * apply (coord_lower_band _ _ _ _ _ (Cubic_findExtremes_False ROps c ++ [0; 1])); try assumption.
        -- intros u. apply cubic_band_sampled_x. exact Hband.
        -- intros tau Htau. rewrite <- cubic_px_poly. apply (HS tau Htau).
      * apply (coord_upper_band _ _ _ _ _ (Cubic_findExtremes_False ROps c ++ [0; 1])); try assumption.
        -- intros u. apply cubic_band_sampled_x. exact Hband.
        -- intros tau Htau. rewrite <- cubic_px_poly. apply (HS tau Htau).
  - destruct (genuine1_or_band (3 * cfA py c) (2 * cfB py c)) as [G|Hband].
    + apply cubic_bounds_enclose_y; assumption.
    + destruct (cubic_K_bounds py c) as [KB _]. pose proof (cubic_band_polygon py c) as KP.
      rewrite cubic_py_poly. unfold sigma. split.
      * apply (coord_lower_band _ _ _ _ _ (Cubic_findExtremes_False ROps c ++ [0; 1])); try assumption.
        -- intros u. apply cubic_band_sampled_y. exact Hband.
        -- intros tau Htau. rewrite <- cubic_py_poly. apply (HS tau Htau).
      * apply (coord_upper_band _ _ _ _ _ (Cubic_findExtremes_False ROps c ++ [0; 1])); try assumption.
        -- intros u. apply cubic_band_sampled_y. exact Hband.
        -- intros tau Htau. rewrite <- cubic_py_poly. apply (HS tau Htau).
Qed.
