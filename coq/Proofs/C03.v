(* C03 (second and third sentence): splitting a path at parameter lists retraces it; after addExtremes every piece is
   monotone in x and y up to the sliver back-track.  The first sentence (findExtremes = sign changes of x'/y' inside
   [0.01,0.99]) is Part C of Proofs/C02.v. *)
From Coq Require Import PrimFloat.
From Coq Require Import ZArith List Bool Reals Lra Lia Psatz.
From Coq Require Import Classical_Prop.
From Coquelicot Require Import Coquelicot.
From BZ Require Import Base.Ops Proofs.Tactics Gen.Point Gen.Utils Gen.BBox Gen.Line Gen.Quad Gen.Cubic Hand.Bounds Hand.Split.
From BZ Require Import Proofs.C01 Proofs.C02.
Import ListNotations.
Open Scope R_scope.

(* ================================================================================================ *)
(* Part A.  Segments as values: evaluation, ends, kind; the split identities of C01 by kind          *)
(* ================================================================================================ *)

Definition seg_eval (s : segment R) (u : R) : pt R :=
  match s with
  | SLine l => Line_pointAtTime ROps l u
  | SQuad q => Quad_pointAtTime ROps q u
  | SCubic c => Cubic_pointAtTime ROps c u
  end.
Definition seg_start (s : segment R) : pt R :=
  match s with SLine l => l0 l | SQuad q => q0 q | SCubic c => c0 c end.
Definition seg_end (s : segment R) : pt R :=
  match s with SLine l => l1 l | SQuad q => q2 q | SCubic c => c3 c end.
Definition same_kind (a b : segment R) : Prop :=
  match a, b with
  | SLine _, SLine _ => True
  | SQuad _, SQuad _ => True
  | SCubic _, SCubic _ => True
  | _, _ => False
  end.

Lemma same_kind_refl s : same_kind s s.
Proof. destruct s; exact I. Qed.
Lemma same_kind_trans a b c : same_kind a b -> same_kind b c -> same_kind a c.
Proof. destruct a, b, c; simpl; tauto. Qed.

Lemma seg_eval_0 s : seg_eval s 0 = seg_start s.
Proof. destruct s; simpl; [apply line_eval_0|apply quad_eval_0|apply cubic_eval_0]. Qed.
Lemma seg_eval_1 s : seg_eval s 1 = seg_end s.
Proof. destruct s; simpl; [apply line_eval_1|apply quad_eval_1|apply cubic_eval_1]. Qed.

Lemma seg_split_left s t u : seg_eval (fst (seg_split ROps s t)) u = seg_eval s (u * t).
Proof.
  destruct s as [l|q|c]; unfold seg_split.
  - pose proof (line_split_left l t u) as H. destruct (Line_splitAtTime ROps l t); exact H.
  - pose proof (quad_split_left q t u) as H. destruct (Quad_splitAtTime ROps q t); exact H.
  - pose proof (cubic_split_left c t u) as H. destruct (Cubic_splitAtTime ROps c t); exact H.
Qed.
Lemma seg_split_right s t u : seg_eval (snd (seg_split ROps s t)) u = seg_eval s (t + u * (1 - t)).
Proof.
  destruct s as [l|q|c]; unfold seg_split.
  - pose proof (line_split_right l t u) as H. destruct (Line_splitAtTime ROps l t); exact H.
  - pose proof (quad_split_right q t u) as H. destruct (Quad_splitAtTime ROps q t); exact H.
  - pose proof (cubic_split_right c t u) as H. destruct (Cubic_splitAtTime ROps c t); exact H.
Qed.
Lemma seg_split_kind s t : same_kind s (fst (seg_split ROps s t)) /\ same_kind s (snd (seg_split ROps s t)).
Proof.
  destruct s as [l|q|c]; unfold seg_split.
  - destruct (Line_splitAtTime ROps l t); simpl; tauto.
  - destruct (Quad_splitAtTime ROps q t); simpl; tauto.
  - destruct (Cubic_splitAtTime ROps c t); simpl; tauto.
Qed.

(* mapx over the reals *)
Lemma mapx_R v ds : mapx ROps v ds = (v - ds) / (1 - ds).
Proof. reflexivity. Qed.

(* the remapped parameter addresses, on the right piece, the point the original has at t2 *)
Theorem mapx_correct s t1 t2 :
  t1 <> 1 -> seg_eval (snd (seg_split ROps s t1)) (mapx ROps t2 t1) = seg_eval s t2.
Proof.
  intros H. rewrite seg_split_right, mapx_R. f_equal. field. lra.
Qed.
(* ... and it stays inside the parameter range, in order *)
Lemma mapx_range t1 t2 : 0 <= t1 < t2 -> t2 <= 1 -> 0 < mapx ROps t2 t1 <= 1.
Proof.
  intros H1 H2. rewrite mapx_R. split.
  - apply Rdiv_lt_0_compat; lra.
  - apply Rmult_le_reg_r with (1 - t1); [lra|]. unfold Rdiv. rewrite Rmult_assoc, Rinv_l; lra.
Qed.
Lemma mapx_mono t1 t2 t3 : t1 < 1 -> t2 <= t3 -> mapx ROps t2 t1 <= mapx ROps t3 t1.
Proof.
  intros H1 H2. rewrite !mapx_R. unfold Rdiv. apply Rmult_le_compat_r; [|lra].
  apply Rlt_le, Rinv_0_lt_compat. lra.
Qed.

(* ================================================================================================ *)
(* Part B.  The pop / split / remap loop retraces the segment                                         *)
(* ================================================================================================ *)

Definition eps8 : R := 1 / 100000000.

(* consecutive parameter windows (c0,c1), (c1,c2), ... of a list of cut positions *)
Fixpoint windows (c0 : R) (cs : list R) : list (R * R) :=
  match cs with [] => [] | c :: r => (c0, c) :: windows c r end.

(* piece p is the restriction of s to the window w, re-parametrised to [0,1]; same kind *)
Definition retrace (s p : segment R) (w : R * R) : Prop :=
  same_kind s p /\ forall u, seg_eval p u = seg_eval s (fst w + u * (snd w - fst w)).

Lemma retrace_start s p w : retrace s p w -> seg_start p = seg_eval s (fst w).
Proof. intros [_ H]. rewrite <- seg_eval_0, H. f_equal. ring. Qed.
Lemma retrace_end s p w : retrace s p w -> seg_end p = seg_eval s (snd w).
Proof. intros [_ H]. rewrite <- seg_eval_1, H. f_equal. ring. Qed.
Lemma retrace_self s : retrace s s (0, 1).
Proof. split; [apply same_kind_refl|]. intros u. simpl. f_equal. ring. Qed.

(* B.1  any list of parameters: whenever the loop does not raise, its output retraces the segment over consecutive
   windows 0 = c0, c1, ..., ck, 1 (no ordering claimed here: a request outside [0,1] extrapolates) *)
Lemma windows_map (phi : R -> R) c0 cs :
  windows (phi c0) (map phi cs) = map (fun w => (phi (fst w), phi (snd w))) (windows c0 cs).
Proof. revert c0. induction cs as [|c r IH]; intros c0; simpl; [reflexivity|]. rewrite IH. reflexivity. Qed.

Lemma res_map_ok {A B} (f : A -> B) r y : res_map f r = Ok y -> exists x, r = Ok x /\ y = f x.
Proof. destruct r; simpl; intros H; try discriminate. inversion H. eauto. Qed.

Lemma split_walk_fuel_retraces_any : forall n cur ts pieces,
  split_walk_fuel ROps n cur ts = Ok pieces ->
  exists cs, Forall2 (retrace cur) pieces (windows 0 (cs ++ [1])).
Proof.
  induction n as [|n IH]; intros cur ts pieces H.
  - destruct ts; simpl in H; [|discriminate]. inversion H. exists []. simpl. constructor; [apply retrace_self|constructor].
  - destruct ts as [|t rest]; cbn [split_walk_fuel] in H.
    + inversion H. exists []. simpl. constructor; [apply retrace_self|constructor].
    + match type of H with (if ?b then _ else _) = _ => destruct b end; [apply IH in H; exact H|].
      destruct (seg_split ROps cur t) as [s1 s2] eqn:Es.
      destruct (remap ROps t rest) as [rest'| |] eqn:Er; try discriminate.
      apply res_map_ok in H. destruct H as [ps [Hps ->]].
      apply IH in Hps. destruct Hps as [cs Hcs].
      set (phi := fun c => t + c * (1 - t)).
      exists (t :: map phi cs). simpl. constructor.
      * split.
        -- replace s1 with (fst (seg_split ROps cur t)) by (rewrite Es; reflexivity). apply seg_split_kind.
        -- intros u. replace s1 with (fst (seg_split ROps cur t)) by (rewrite Es; reflexivity).
           rewrite seg_split_left. simpl. f_equal. ring.
      * replace (map phi cs ++ [1]) with (map phi (cs ++ [1])) by (rewrite map_app; simpl; f_equal; unfold phi; f_equal; ring).
        replace t with (phi 0) at 1 by (unfold phi; ring).
        rewrite windows_map.
        clear -Hcs Es. induction Hcs as [|p w ps ws Hp _ IHf]; simpl; constructor; [|exact IHf].
        destruct Hp as [Hk He]. split.
        -- apply same_kind_trans with s2; [|exact Hk].
           replace s2 with (snd (seg_split ROps cur t)) by (rewrite Es; reflexivity). apply seg_split_kind.
        -- intros u. rewrite He. replace s2 with (snd (seg_split ROps cur t)) by (rewrite Es; reflexivity).
           rewrite seg_split_right. simpl. f_equal. unfold phi. ring.
Qed.

Theorem split_walk_retraces_any cur ts pieces :
  split_walk ROps cur ts = Ok pieces -> exists cs, Forall2 (retrace cur) pieces (windows 0 (cs ++ [1])).
Proof. apply split_walk_fuel_retraces_any. Qed.

(* B.2  the cuts actually made, in the parameter of the original segment.  [kept a taus]: the current piece starts at a;
   a request tau is skipped when its local parameter (tau - a)/(1 - a) is below 1e-8, otherwise the segment is cut there
   and the walk continues from tau. *)
Definition loc (a tau : R) : R := (tau - a) / (1 - a).
Fixpoint kept (a : R) (taus : list R) : list R :=
  match taus with
  | [] => []
  | tau :: r => if Rlt_dec (loc a tau) eps8 then kept a r else tau :: kept tau r
  end.

Lemma loc_one_minus a tau : a < 1 -> 1 - loc a tau = (1 - tau) / (1 - a).
Proof. intros Ha. unfold loc. field. lra. Qed.
Lemma mapx_loc a tau v : a < 1 -> tau < 1 -> mapx ROps (loc a v) (loc a tau) = loc tau v.
Proof.
  intros Ha Ht. rewrite mapx_R, loc_one_minus by exact Ha. unfold loc. field. lra.
Qed.
Lemma remap_loc a tau r : a < 1 -> tau < 1 ->
  remap ROps (loc a tau) (map (loc a) r) = Ok (map (loc tau) r).
Proof.
  intros Ha Ht. destruct r as [|x r]; [reflexivity|].
  unfold remap. cbn [map].
  assert (Hne : 1 - loc a tau <> 0).
  { rewrite loc_one_minus by exact Ha. intros H. apply Rmult_integral in H. destruct H as [H|H]; [lra|].
    assert (0 < / (1 - a)) by (apply Rinv_0_lt_compat; lra). lra. }
  replace (eqb ROps (sub ROps (ofZ ROps 1) (loc a tau)) (ofZ ROps 0)) with false.
  2:{ symmetry. apply Reqb_false. exact Hne. }
  f_equal. f_equal; [apply mapx_loc; assumption|].
  rewrite map_map. apply map_ext. intros v. apply mapx_loc; assumption.
Qed.

Lemma split_walk_fuel_spec s : forall taus n a cur,
  a < 1 -> List.Forall (fun tau => tau < 1) taus -> le (length taus) n -> retrace s cur (a, 1) ->
  exists pieces, split_walk_fuel ROps n cur (map (loc a) taus) = Ok pieces /\
                 Forall2 (retrace s) pieces (windows a (kept a taus ++ [1])).
Proof.
  induction taus as [|tau r IH]; intros n a cur Ha Hall Hn Hcur.
  - exists [cur]. split; [destruct n; reflexivity|]. simpl. constructor; [exact Hcur|constructor].
  - destruct n as [|n]; [simpl in Hn; lia|]. simpl in Hn. inversion Hall as [|x l Htau Hr]; subst.
    cbn [map split_walk_fuel kept].
    replace (ltb ROps (loc a tau) (lit ROps 1 100000000 0x1.5798ee2308c3ap-27%float))
      with (if Rlt_dec (loc a tau) eps8 then true else false) by reflexivity.
    destruct (Rlt_dec (loc a tau) eps8) as [Hs|Hs].
    + apply IH; try assumption. lia.
    + destruct (seg_split ROps cur (loc a tau)) as [s1 s2] eqn:Es.
      rewrite (remap_loc a tau r Ha Htau).
      destruct (IH n tau s2) as [ps [Hps Hf]]; try assumption; try lia.
      { destruct Hcur as [Hk He]. split.
        - apply same_kind_trans with cur; [exact Hk|].
          replace s2 with (snd (seg_split ROps cur (loc a tau))) by (rewrite Es; reflexivity). apply seg_split_kind.
        - intros u. replace s2 with (snd (seg_split ROps cur (loc a tau))) by (rewrite Es; reflexivity).
          rewrite seg_split_right, He. simpl. f_equal. unfold loc. field. lra. }
      exists (s1 :: ps). rewrite Hps. split; [reflexivity|]. simpl. constructor; [|exact Hf].
      destruct Hcur as [Hk He]. split.
      * apply same_kind_trans with cur; [exact Hk|].
        replace s1 with (fst (seg_split ROps cur (loc a tau))) by (rewrite Es; reflexivity). apply seg_split_kind.
      * intros u. replace s1 with (fst (seg_split ROps cur (loc a tau))) by (rewrite Es; reflexivity).
        rewrite seg_split_left, He. simpl. f_equal. unfold loc. field. lra.
Qed.

Lemma map_loc_0 ts : map (loc 0) ts = ts.
Proof. rewrite <- (map_id ts) at 2. apply map_ext. intros t. unfold loc. field. Qed.

(* the loop on parameters below 1: never raises, never runs out of fuel, and returns one piece per window between the
   cuts kept, each of the kind of s, piece_i(u) = s(c_(i-1) + u (c_i - c_(i-1))) for all real u *)
Theorem split_walk_retraces s ts :
  List.Forall (fun t => t < 1) ts ->
  exists pieces, split_walk ROps s ts = Ok pieces /\
                 Forall2 (retrace s) pieces (windows 0 (kept 0 ts ++ [1])).
Proof.
  intros H. unfold split_walk.
  destruct (split_walk_fuel_spec s ts (length ts) 0 s) as [ps [H1 H2]]; try assumption; try lra; try lia.
  - apply retrace_self.
  - rewrite map_loc_0 in H1. exists ps. split; assumption.
Qed.

(* when every request is at least 1e-8 (in the local parameter) after the previous one, every request is a cut: k
   requests give k + 1 pieces *)
Fixpoint well_separated (a : R) (ts : list R) : Prop :=
  match ts with [] => True | t :: r => eps8 <= loc a t /\ well_separated t r end.
Lemma kept_all a ts : well_separated a ts -> kept a ts = ts.
Proof.
  revert a. induction ts as [|t r IH]; intros a H; [reflexivity|]. destruct H as [H1 H2]. simpl.
  destruct (Rlt_dec (loc a t) eps8); [lra|]. f_equal. apply IH. exact H2.
Qed.
Lemma Forall2_length {A B} (P : A -> B -> Prop) l1 l2 : Forall2 P l1 l2 -> length l1 = length l2.
Proof. induction 1; simpl; congruence. Qed.
Lemma windows_length c0 cs : length (windows c0 cs) = length cs.
Proof. revert c0. induction cs; intros; simpl; congruence. Qed.

Corollary split_walk_count s ts :
  List.Forall (fun t => t < 1) ts -> well_separated 0 ts ->
  exists pieces, split_walk ROps s ts = Ok pieces /\ length pieces = S (length ts) /\
                 Forall2 (retrace s) pieces (windows 0 (ts ++ [1])).
Proof.
  intros H1 H2. destruct (split_walk_retraces s ts H1) as [ps [Hp Hf]]. rewrite (kept_all 0 ts H2) in Hf.
  exists ps. split; [exact Hp|]. split; [|exact Hf].
  rewrite (Forall2_length _ _ _ Hf), windows_length, app_length. simpl. lia.
Qed.

(* ---- the cuts kept are strictly increasing inside (a, 1) ---- *)
Fixpoint increasing (c0 : R) (cs : list R) : Prop :=
  match cs with [] => True | c :: r => c0 < c /\ increasing c r end.

Lemma loc_pos a tau : a < 1 -> ~ loc a tau < eps8 -> a < tau.
Proof.
  intros Ha H. unfold loc, eps8 in H.
  destruct (Rlt_dec a tau) as [|N]; [assumption|exfalso]. apply H.
  apply Rle_lt_trans with 0; [|lra].
  assert (0 < / (1 - a)) by (apply Rinv_0_lt_compat; lra). unfold Rdiv. nra.
Qed.

Lemma kept_increasing : forall taus a, a < 1 -> List.Forall (fun tau => tau < 1) taus -> increasing a (kept a taus ++ [1]).
Proof.
  induction taus as [|tau r IH]; intros a Ha Hall; simpl.
  - split; [lra|exact I].
  - inversion Hall as [|x l Htau Hr]; subst. destruct (Rlt_dec (loc a tau) eps8) as [Hs|Hs].
    + apply IH; assumption.
    + simpl. split; [apply loc_pos; assumption|]. apply IH; assumption.
Qed.

Lemma kept_subset : forall taus a x, In x (kept a taus) -> In x taus.
Proof.
  induction taus as [|tau r IH]; intros a x H; simpl in *; [exact H|].
  destruct (Rlt_dec (loc a tau) eps8); [right; eapply IH; exact H|].
  destruct H as [->|H]; [left; reflexivity|right; eapply IH; exact H].
Qed.

(* every window of an increasing chain from a to 1 lies inside [a, 1] and is non-empty *)
Lemma windows_increasing : forall cs c0 w, increasing c0 cs -> In w (windows c0 cs) ->
  c0 <= fst w /\ fst w < snd w /\ (forall c, In c cs -> snd w <= c \/ c <= fst w).
Proof.
  induction cs as [|c r IH]; intros c0 w Hi Hw; simpl in *; [contradiction|].
  destruct Hi as [H0 Hr]. destruct Hw as [<-|Hw]; simpl.
  - split; [lra|]. split; [exact H0|]. intros c' [<-|Hc]; [left; lra|].
    left. clear -Hr Hc. revert c Hr Hc. induction r as [|d r IHr]; intros c Hr Hc; simpl in *; [contradiction|].
    destruct Hr as [Hcd Hr]. destruct Hc as [<-|Hc]; [lra|]. specialize (IHr d Hr Hc). lra.
  - destruct (IH c w Hr Hw) as [H1 [H2 H3]]. split; [lra|]. split; [exact H2|].
    intros c' [<-|Hc]; [right; exact H1|apply H3; exact Hc].
Qed.
Lemma windows_last_le : forall cs c0 w, increasing c0 (cs ++ [1]) -> In w (windows c0 (cs ++ [1])) -> snd w <= 1.
Proof.
  intros cs c0 w Hi Hw. destruct (windows_increasing _ _ _ Hi Hw) as [_ [H2 H3]].
  destruct (H3 1) as [H|H]; [apply in_or_app; right; left; reflexivity|exact H|].
  (* 1 <= fst w < snd w: but snd w is itself a cut, hence <= 1 or ... use the chain: snd w is in cs ++ [1] *)
  exfalso.
  assert (Hin : In (snd w) (cs ++ [1])).
  { clear -Hw. revert c0 Hw. induction (cs ++ [1]) as [|c r IH]; intros c0 Hw; simpl in *; [contradiction|].
    destruct Hw as [<-|Hw]; [left; reflexivity|right; eapply IH; exact Hw]. }
  (* every cut is <= 1: the last element bounds the increasing chain *)
  assert (Hle : forall l c0', increasing c0' (l ++ [1]) -> forall c, In c (l ++ [1]) -> c <= 1).
  { clear. induction l as [|d l IHl]; intros c0' Hi c Hc; simpl in *.
    - destruct Hc as [<-|[]]; lra.
    - destruct Hi as [_ Hi]. destruct Hc as [<-|Hc].
      + destruct l as [|e l]; simpl in *; [lra|]. destruct Hi as [Hde Hi]. specialize (IHl d (conj Hde Hi) e (or_introl eq_refl)). lra.
      + eapply IHl; eassumption. }
  specialize (Hle cs c0 Hi (snd w) Hin). lra.
Qed.

(* ---- consequences of a retrace over consecutive windows: the pieces form a chain from s(c0) to s(last cut) ---- *)
Fixpoint chained (l : list (segment R)) : Prop :=
  match l with
  | a :: ((b :: _) as r) => seg_end a = seg_start b /\ chained r
  | _ => True
  end.

Fixpoint last_seg (p : segment R) (ps : list (segment R)) : segment R :=
  match ps with [] => p | q :: r => last_seg q r end.
Fixpoint last_cut (c : R) (cs : list R) : R :=
  match cs with [] => c | d :: r => last_cut d r end.
Lemma last_cut_app c cs x : last_cut c (cs ++ [x]) = x.
Proof. revert c. induction cs as [|d r IH]; intros c; simpl; [reflexivity|apply IH]. Qed.

Lemma retrace_windows_chain s : forall ps p c0 c cs,
  Forall2 (retrace s) (p :: ps) (windows c0 (c :: cs)) ->
  chained (p :: ps) /\ seg_start p = seg_eval s c0 /\ seg_end (last_seg p ps) = seg_eval s (last_cut c cs).
Proof.
  induction ps as [|q ps IH]; intros p c0 c cs H; simpl in H; inversion H as [|x w l lw Hp Hf]; subst.
  - destruct cs; simpl in Hf; [|inversion Hf]. simpl. split; [exact I|].
    split; [apply (retrace_start _ _ _ Hp)|apply (retrace_end _ _ _ Hp)].
  - destruct cs as [|c' cs]; simpl in Hf; [inversion Hf|].
    destruct (IH q c c' cs Hf) as [Hc [Hs He]]. split; [|split].
    + split; [|exact Hc]. rewrite (retrace_end _ _ _ Hp), Hs. reflexivity.
    + apply (retrace_start _ _ _ Hp).
    + exact He.
Qed.

(* consecutive pieces of one walk meet exactly (over R), the first starts where s starts, the last ends where s ends *)
Lemma retrace_nonempty s pieces c0 cs : Forall2 (retrace s) pieces (windows c0 (cs ++ [1])) ->
  exists p ps c cs', pieces = p :: ps /\ cs ++ [1] = c :: cs'.
Proof.
  intros H. destruct pieces as [|p ps].
  - apply Forall2_length in H. rewrite windows_length, app_length in H. simpl in H. lia.
  - destruct (cs ++ [1]) as [|c cs'] eqn:E; [destruct cs; discriminate|]. exists p, ps, c, cs'. split; reflexivity.
Qed.

Theorem split_walk_chain s ts pieces :
  List.Forall (fun t => t < 1) ts -> split_walk ROps s ts = Ok pieces -> chained pieces.
Proof.
  intros H E. destruct (split_walk_retraces s ts H) as [ps [Hp Hf]]. rewrite E in Hp. inversion Hp; subst.
  destruct (retrace_nonempty _ _ _ _ Hf) as [p [ps' [c [cs' [-> Ec]]]]]. rewrite Ec in Hf.
  apply (retrace_windows_chain s _ _ _ _ _ Hf).
Qed.
Theorem split_walk_ends s ts pieces :
  List.Forall (fun t => t < 1) ts -> split_walk ROps s ts = Ok pieces ->
  exists p ps, pieces = p :: ps /\ seg_start p = seg_start s /\ seg_end (last_seg p ps) = seg_end s.
Proof.
  intros H E. destruct (split_walk_retraces s ts H) as [ps [Hp Hf]]. rewrite E in Hp. inversion Hp; subst.
  destruct (retrace_nonempty _ _ _ _ Hf) as [p [ps' [c [cs' [-> Ec]]]]]. rewrite Ec in Hf.
  destruct (retrace_windows_chain s _ _ _ _ _ Hf) as [_ [Hs He]].
  exists p, ps'. split; [reflexivity|]. split.
  - rewrite Hs. apply seg_eval_0.
  - rewrite He. replace (last_cut c cs') with 1; [apply seg_eval_1|].
    destruct (kept 0 ts) as [|k ks] eqn:Ek; simpl in Ec; inversion Ec; subst; [reflexivity|].
    symmetry. apply last_cut_app.
Qed.

(* ================================================================================================ *)
(* Part C.  The value-keyed dictionary over the reals, and the walk along the path                    *)
(* ================================================================================================ *)

Lemma pt_keyeq_true (a b : pt R) : pt_keyeq ROps a b = true <-> a = b.
Proof.
  destruct a as [ax ay], b as [bx by_]. unfold pt_keyeq. cbn [px py]. rewrite andb_true_iff, !Reqb_true.
  split; [intros [-> ->]; reflexivity|intros H; inversion H; auto].
Qed.
Lemma seg_keyeq_true (a b : segment R) : seg_keyeq ROps a b = true <-> a = b.
Proof.
  destruct a as [[a0 a1]|[a0 a1 a2]|[a0 a1 a2 a3]], b as [[b0 b1]|[b0 b1 b2]|[b0 b1 b2 b3]]; cbn [seg_keyeq l0 l1 q0 q1 q2 c0 c1 c2 c3];
    try (split; [discriminate|intros H; discriminate H]).
  - rewrite andb_true_iff, !pt_keyeq_true. split; [intros [-> ->]; reflexivity|intros H; inversion H; auto].
  - rewrite !andb_true_iff, !pt_keyeq_true. split; [intros [[-> ->] ->]; reflexivity|intros H; inversion H; auto].
  - rewrite !andb_true_iff, !pt_keyeq_true. split; [intros [[[-> ->] ->] ->]; reflexivity|intros H; inversion H; auto].
Qed.
Lemma seg_keyeq_refl (a : segment R) : seg_keyeq ROps a a = true.
Proof. apply seg_keyeq_true. reflexivity. Qed.
Lemma seg_keyeq_false (a b : segment R) : seg_keyeq ROps a b = false <-> a <> b.
Proof.
  split.
  - intros H E. apply seg_keyeq_true in E. congruence.
  - intros N. destruct (seg_keyeq ROps a b) eqn:E; [apply seg_keyeq_true in E; contradiction|reflexivity].
Qed.

(* what a dictionary holds under a key ([] when the key is absent: the walk treats both alike) *)
Fixpoint dict_get (d : @dict R) (k : segment R) : option (list R) :=
  match d with
  | [] => None
  | (k', l) :: r => if seg_keyeq ROps k' k then Some l else dict_get r k
  end.
Definition avail (d : @dict R) (k : segment R) : list R :=
  match dict_get d k with Some l => l | None => [] end.

Lemma avail_append d k t k' :
  avail (dict_append ROps d k t) k' = if seg_keyeq ROps k k' then avail d k' ++ [t] else avail d k'.
Proof.
  unfold avail. induction d as [|[k0 l] r IH]; cbn [dict_append dict_get].
  - destruct (seg_keyeq ROps k k'); reflexivity.
  - destruct (seg_keyeq ROps k0 k) eqn:E0; cbn [dict_get].
    + apply seg_keyeq_true in E0. subst k0. destruct (seg_keyeq ROps k k'); reflexivity.
    + destruct (seg_keyeq ROps k0 k') eqn:E1.
      * apply seg_keyeq_true in E1. subst k'. apply seg_keyeq_false in E0.
        replace (seg_keyeq ROps k k0) with false; [reflexivity|].
        symmetry. apply seg_keyeq_false. congruence.
      * exact IH.
Qed.

(* the parameters requested for the value k, in request order *)
Definition requests (k : segment R) (sl : list (segment R * R)) : list R :=
  map snd (filter (fun p => seg_keyeq ROps (fst p) k) sl).

Lemma avail_fold sl : forall d k,
  avail (fold_left (fun d p => dict_append ROps d (fst p) (snd p)) sl d) k = avail d k ++ requests k sl.
Proof.
  induction sl as [|[s t] sl IH]; intros d k; cbn [fold_left].
  - unfold requests. simpl. rewrite app_nil_r. reflexivity.
  - rewrite IH, avail_append. unfold requests. cbn [filter fst snd].
    destruct (seg_keyeq ROps s k); cbn [map snd]; [rewrite <- app_assoc; reflexivity|reflexivity].
Qed.
Lemma avail_group sl k : avail (group ROps sl) k = requests k sl.
Proof. unfold group. rewrite avail_fold. reflexivity. Qed.
Lemma avail_sort_values d k : avail (sort_values ROps d) k = sort_ ROps (avail d k).
Proof.
  unfold avail. induction d as [|[k0 l] r IH]; cbn [sort_values map dict_get fst snd]; [reflexivity|].
  destruct (seg_keyeq ROps k0 k); [reflexivity|exact IH].
Qed.

Lemma dict_take_spec d k :
  match dict_take ROps d k with
  | None => avail d k = []
  | Some (l, d') => l = avail d k /\ forall k', avail d' k' = if seg_keyeq ROps k k' then [] else avail d k'
  end.
Proof.
  unfold avail. induction d as [|[k0 l] r IH]; cbn [dict_take dict_get]; [reflexivity|].
  destruct (seg_keyeq ROps k0 k) eqn:E0.
  - apply seg_keyeq_true in E0. subst k0. split; [reflexivity|]. intros k'. cbn [dict_get].
    destruct (seg_keyeq ROps k k'); reflexivity.
  - destruct (dict_take ROps r k) as [[l' r']|].
    + destruct IH as [-> IH]. split; [reflexivity|]. intros k'. cbn [dict_get].
      destruct (seg_keyeq ROps k0 k') eqn:E1; [|apply IH].
      apply seg_keyeq_true in E1. subst k'. apply seg_keyeq_false in E0.
      replace (seg_keyeq ROps k k0) with false; [reflexivity|]. symmetry. apply seg_keyeq_false. congruence.
    + exact IH.
Qed.

(* the walk, with the dictionary abstracted to "what is still available under each value" *)
Fixpoint walk_abs (av : segment R -> list R) (segs : list (segment R)) : res (list (segment R)) :=
  match segs with
  | [] => Ok []
  | s :: r =>
      match split_walk ROps s (av s) with
      | Ok ps => res_map (app ps) (walk_abs (fun k => if seg_keyeq ROps s k then [] else av k) r)
      | ZeroDiv => ZeroDiv
      | OutOfFuel => OutOfFuel
      end
  end.

Lemma walk_abs_ext segs : forall av av', (forall k, av k = av' k) -> walk_abs av segs = walk_abs av' segs.
Proof.
  induction segs as [|s r IH]; intros av av' H; [reflexivity|]. cbn [walk_abs]. rewrite (H s).
  destruct (split_walk ROps s (av' s)); try reflexivity. f_equal. apply IH. intros k. rewrite (H k). reflexivity.
Qed.

Lemma walk_path_abs segs : forall d, walk_path ROps d segs = walk_abs (avail d) segs.
Proof.
  induction segs as [|s r IH]; intros d; [reflexivity|]. cbn [walk_path walk_abs].
  pose proof (dict_take_spec d s) as Hs. destruct (dict_take ROps d s) as [[l d']|].
  - destruct Hs as [-> Hd']. destruct (split_walk ROps s (avail d s)); try reflexivity.
    f_equal. rewrite IH. apply walk_abs_ext. exact Hd'.
  - rewrite Hs. change (split_walk ROps s []) with (Ok [s]). cbn [res_map].
    rewrite IH. f_equal. apply walk_abs_ext. intros k.
    destruct (seg_keyeq ROps s k) eqn:E; [|reflexivity]. apply seg_keyeq_true in E. subst k. exact Hs.
Qed.

Theorem splitAtPoints_abs segs sl :
  splitAtPoints ROps segs sl = walk_abs (fun k => sort_ ROps (requests k sl)) segs.
Proof.
  unfold splitAtPoints. rewrite walk_path_abs. apply walk_abs_ext. intros k.
  rewrite avail_sort_values, avail_group. reflexivity.
Qed.

(* the list each segment of the path actually consumes: what is available under its value when the walk reaches it *)
Fixpoint consumed (av : segment R -> list R) (segs : list (segment R)) : list (list R) :=
  match segs with
  | [] => []
  | s :: r => av s :: consumed (fun k => if seg_keyeq ROps s k then [] else av k) r
  end.

Lemma consumed_ext segs : forall av av', (forall k, In k segs -> av k = av' k) -> consumed av segs = consumed av' segs.
Proof.
  induction segs as [|s r IH]; intros av av' H; [reflexivity|]. cbn [consumed]. f_equal; [apply H; left; reflexivity|].
  apply IH. intros k Hk. rewrite (H k) by (right; exact Hk). reflexivity.
Qed.
(* no repeated value: every segment gets the list requested for it *)
Lemma consumed_nodup segs : forall av, NoDup segs -> consumed av segs = map av segs.
Proof.
  induction segs as [|s r IH]; intros av H; [reflexivity|]. inversion H as [|x l Hn Hr]; subst. cbn [consumed map]. f_equal.
  rewrite IH by exact Hr. apply map_ext_in. intros k Hk.
  replace (seg_keyeq ROps s k) with false; [reflexivity|]. symmetry. apply seg_keyeq_false. intros ->. contradiction.
Qed.
Lemma Forall2_imp {A B} (P Q : A -> B -> Prop) l1 l2 : (forall a b, P a b -> Q a b) -> Forall2 P l1 l2 -> Forall2 Q l1 l2.
Proof. intros H. induction 1; constructor; auto. Qed.
(* in general: its own list the first time a value is met, nothing afterwards *)
Lemma consumed_cases segs : forall av, Forall2 (fun s L => L = av s \/ L = []) segs (consumed av segs).
Proof.
  induction segs as [|s r IH]; intros av; cbn [consumed]; constructor; [left; reflexivity|].
  eapply Forall2_imp; [|apply IH]. intros k L [->| ->]; [|right; reflexivity]. cbn beta.
  destruct (seg_keyeq ROps s k); [right|left]; reflexivity.
Qed.

Theorem walk_abs_groups segs : forall av,
  (forall k, List.Forall (fun t => t < 1) (av k)) ->
  exists groups, walk_abs av segs = Ok (concat groups) /\
                 Forall2 (fun sL g => split_walk ROps (fst sL) (snd sL) = Ok g) (combine segs (consumed av segs)) groups.
Proof.
  induction segs as [|s r IH]; intros av Hav.
  - exists []. split; [reflexivity|constructor].
  - destruct (split_walk_retraces s (av s) (Hav s)) as [g [Hg _]].
    destruct (IH (fun k => if seg_keyeq ROps s k then [] else av k)) as [groups [Hw Hf]].
    { intros k. destruct (seg_keyeq ROps s k); [constructor|apply Hav]. }
    exists (g :: groups). cbn [walk_abs consumed combine concat]. rewrite Hg, Hw. split; [reflexivity|].
    constructor; [exact Hg|exact Hf].
Qed.

(* ================================================================================================ *)
(* Part D.  One coordinate of a piece: monotone up to the sliver back-track                           *)
(* ================================================================================================ *)

Definition inc_on (f : R -> R) (x y : R) : Prop := forall u v, x <= u -> u <= v -> v <= y -> f u <= f v.
Definition dec_on (f : R -> R) (x y : R) : Prop := forall u v, x <= u -> u <= v -> v <= y -> f v <= f u.
(* monotone on [x,y] up to a back-track of s, in one direction for the whole interval *)
Definition mono_up_to (s : R) (f : R -> R) (x y : R) : Prop :=
  (forall u v, x <= u -> u <= v -> v <= y -> f v - f u >= - s) \/
  (forall u v, x <= u -> u <= v -> v <= y -> f v - f u <= s).

(* Simpson's rule is exact for cubics *)
Lemma simpson A B C D u v :
  cpoly A B C D v - cpoly A B C D u = (v - u) / 6 * (dcpoly A B C u + 4 * dcpoly A B C ((u + v) / 2) + dcpoly A B C v).
Proof. unfold cpoly, dcpoly. field. Qed.

Lemma inc_of_nonneg A B C D x y :
  (forall t, x <= t <= y -> 0 <= dcpoly A B C t) -> inc_on (cpoly A B C D) x y.
Proof.
  intros H u v Hu Huv Hv. 
  pose proof (H u ltac:(lra)). pose proof (H v ltac:(lra)). pose proof (H ((u+v)/2) ltac:(lra)).
  pose proof (simpson A B C D u v) as S. 
  assert (0 <= (v - u) / 6 * (dcpoly A B C u + 4 * dcpoly A B C ((u + v) / 2) + dcpoly A B C v)).
  { apply Rmult_le_pos; lra. }
  lra.
Qed.
Lemma dec_of_nonpos A B C D x y :
  (forall t, x <= t <= y -> dcpoly A B C t <= 0) -> dec_on (cpoly A B C D) x y.
Proof.
  intros H u v Hu Huv Hv.
  assert (I : inc_on (cpoly (-A) (-B) (-C) (-D)) x y).
  { apply inc_of_nonneg. intros t Ht. rewrite dcpoly_neg. specialize (H t Ht). lra. }
  specialize (I u v Hu Huv Hv). rewrite !cpoly_neg in I. lra.
Qed.

(* a quadratic without simple zero strictly inside [x,y] keeps one sign there *)
Lemma quadf_neg a b c t : quadf (-a) (-b) (-c) t = - quadf a b c t.
Proof. unfold quadf. ring. Qed.
Lemma quadf_continuous a b c : continuity (quadf a b c).
Proof. intros t. apply quadf_continuity. Qed.

Lemma quadf_zero_between a b c x y :
  x < y -> quadf a b c x < 0 -> 0 < quadf a b c y -> exists z, x < z < y /\ quadf a b c z = 0.
Proof.
  intros Hxy Hx Hy. destruct (IVT (quadf a b c) x y (quadf_continuous a b c) Hxy Hx Hy) as [z [Hz Hq]].
  exists z. split; [|exact Hq].
  destruct Hz as [[Hz1|Hz1] [Hz2|Hz2]]; subst; lra.
Qed.

Lemma quadf_opposite_signs_zero a b c x y :
  quadf a b c x * quadf a b c y < 0 -> exists z, Rmin x y < z < Rmax x y /\ quadf a b c z = 0.
Proof.
  intros H.
  assert (Hne : x <> y) by (intros ->; nra).
  assert (Hs : (quadf a b c x < 0 /\ 0 < quadf a b c y) \/ (0 < quadf a b c x /\ quadf a b c y < 0)).
  { destruct (Rtotal_order (quadf a b c x) 0) as [Hx|[Hx|Hx]].
    - left. split; [exact Hx|]. destruct (Rlt_dec 0 (quadf a b c y)); [assumption|nra].
    - rewrite Hx in H. lra.
    - right. split; [exact Hx|]. destruct (Rlt_dec (quadf a b c y) 0); [assumption|nra]. }
  destruct (Rlt_dec x y) as [Hxy|Hxy].
  - rewrite Rmin_left, Rmax_right by lra.
    destruct Hs as [[Hx Hy]|[Hx Hy]].
    + apply quadf_zero_between; assumption.
    + destruct (quadf_zero_between (-a) (-b) (-c) x y) as [z [Hz Hq]]; [lra|rewrite quadf_neg; lra|rewrite quadf_neg; lra|].
      exists z. split; [exact Hz|]. rewrite quadf_neg in Hq. lra.
  - assert (Hyx : y < x) by (destruct (Rtotal_order x y) as [|[|]]; [lra|contradiction|assumption]).
    rewrite Rmin_right, Rmax_left by lra.
    destruct Hs as [[Hx Hy]|[Hx Hy]].
    + destruct (quadf_zero_between (-a) (-b) (-c) y x) as [z [Hz Hq]]; [lra|rewrite quadf_neg; lra|rewrite quadf_neg; lra|].
      exists z. split; [exact Hz|]. rewrite quadf_neg in Hq. lra.
    + apply quadf_zero_between; assumption.
Qed.

Lemma quadf_const_sign a b c x y :
  (forall r, x < r < y -> quadf a b c r = 0 -> 2*a*r + b = 0) ->
  (forall t, x <= t <= y -> 0 <= quadf a b c t) \/ (forall t, x <= t <= y -> quadf a b c t <= 0).
Proof.
  intros H.
  destruct (classic (exists t, x <= t <= y /\ quadf a b c t < 0)) as [[t1 [Ht1 Hn]]|Hnn].
  - right. intros t2 Ht2. destruct (Rle_dec (quadf a b c t2) 0) as [|Hp]; [assumption|exfalso].
    destruct (quadf_opposite_signs_zero a b c t1 t2) as [z [Hz Hq]]; [nra|].
    assert (Hzin : x < z < y).
    { unfold Rmin, Rmax in Hz. destruct (Rle_dec t1 t2); lra. }
    pose proof (H z Hzin Hq) as Hd.
    assert (E : forall t, quadf a b c t = a * ((t - z) * (t - z))).
    { intros t. unfold quadf in *. replace b with (- 2 * a * z) by lra. replace c with (a * z * z) by nra. ring. }
    rewrite (E t1) in Hn. rewrite (E t2) in Hp.
    pose proof (Rle_0_sqr (t1 - z)) as S1. pose proof (Rle_0_sqr (t2 - z)) as S2. unfold Rsqr in S1, S2.
    clear -Hn Hp S1 S2. apply Hp. clear Hp.
    set (s1 := (t1 - z) * (t1 - z)) in *. set (s2 := (t2 - z) * (t2 - z)) in *. clearbody s1 s2.
    assert (Ha : a < 0) by nra. nra.
  - left. intros t Ht. destruct (Rle_dec 0 (quadf a b c t)) as [|Hp]; [assumption|exfalso].
    apply Hnn. exists t. split; [exact Ht|lra].
Qed.

Definition simple_zero (A B C r : R) : Prop := dcpoly A B C r = 0 /\ 6*A*r + 2*B <> 0.

Lemma cpoly_mono_no_simple_zero A B C D x y :
  (forall r, x < r < y -> ~ simple_zero A B C r) ->
  inc_on (cpoly A B C D) x y \/ dec_on (cpoly A B C D) x y.
Proof.
  intros H.
  destruct (quadf_const_sign (3*A) (2*B) C x y) as [Hs|Hs].
  - intros r Hr Hq. rewrite <- dcpoly_quadf in Hq.
    destruct (Req_dec (6*A*r + 2*B) 0) as [E|N]; [lra|]. exfalso. apply (H r Hr). split; assumption.
  - left. apply inc_of_nonneg. intros t Ht. rewrite dcpoly_quadf. apply Hs. exact Ht.
  - right. apply dec_of_nonpos. intros t Ht. rewrite dcpoly_quadf. apply Hs. exact Ht.
Qed.

(* a zero r of p' turns p(r) - p(e) into a second-order quantity, for any reference point e (C02 has e = 0 and e = 1) *)
Lemma zero_identity A B C D r e :
  dcpoly A B C r = 0 -> cpoly A B C D r - cpoly A B C D e = - ((r - e) * (r - e)) * (2*A*r + A*e + B).
Proof. unfold cpoly, dcpoly. intros H. assert (HC : C = - 3*A*r*r - 2*B*r) by lra. subst C. ring. Qed.

Lemma zero_bound A B C D r e K :
  Rabs B <= K -> Rabs (3*A + B) <= K -> 0 <= r <= 1 -> 0 <= e <= 1 -> dcpoly A B C r = 0 ->
  Rabs (cpoly A B C D r - cpoly A B C D e) <= (r - e) * (r - e) * K.
Proof.
  intros HB HA Hr He Hd. rewrite (zero_identity A B C D r e Hd).
  apply Rabs_le_between in HB. apply Rabs_le_between in HA.
  assert (HK : - K <= 2*A*r + A*e + B <= K).
  { set (s := (2*r + e)/3). assert (Hs : 0 <= s <= 1) by (unfold s; lra).
    replace (2*A*r + A*e + B) with ((1-s)*B + s*(3*A+B)) by (unfold s; field). nra. }
  pose proof (Rle_0_sqr (r - e)) as Hrr. unfold Rsqr in Hrr.
  apply Rabs_le_between. set (w := (r - e) * (r - e)) in *. set (z := 2*A*r + A*e + B) in *. clearbody w z. nra.
Qed.
Lemma zero_bound_near A B C D r e K :
  Rabs B <= K -> Rabs (3*A + B) <= K -> 0 <= r <= 1 -> 0 <= e <= 1 -> dcpoly A B C r = 0 ->
  Rabs (r - e) < 1/100 -> Rabs (cpoly A B C D r - cpoly A B C D e) <= K / 10000.
Proof.
  intros HB HA Hr He Hd Hn. eapply Rle_trans; [apply zero_bound; eassumption|].
  assert (HK : 0 <= K) by (pose proof (Rabs_pos B); lra).
  assert ((r - e) * (r - e) <= 1/10000).
  { apply Rabs_def2 in Hn. nra. }
  set (w := (r - e) * (r - e)) in *. clearbody w. nra.
Qed.

Lemma mono_bounded f x y : inc_on f x y \/ dec_on f x y ->
  forall u v, x <= u -> u <= v -> v <= y -> Rabs (f v - f u) <= Rabs (f y - f x).
Proof.
  intros [H|H] u v Hu Huv Hv.
  - pose proof (H x u ltac:(lra) Hu ltac:(lra)). pose proof (H u v Hu Huv Hv). pose proof (H v y ltac:(lra) Hv ltac:(lra)).
    rewrite !Rabs_pos_eq by lra. lra.
  - pose proof (H x u ltac:(lra) Hu ltac:(lra)). pose proof (H u v Hu Huv Hv). pose proof (H v y ltac:(lra) Hv ltac:(lra)).
    rewrite !Rabs_left1 by lra. lra.
Qed.

Lemma mono_exact s f x y : 0 <= s -> inc_on f x y \/ dec_on f x y -> mono_up_to s f x y.
Proof.
  intros Hs [H|H]; [left|right]; intros u v Hu Huv Hv; specialize (H u v Hu Huv Hv); lra.
Qed.

(* one turning point r, close (in value) to the lower end: the direction is that of [r,y] *)
Lemma one_turn_lo s f x r y :
  x <= r <= y -> inc_on f x r \/ dec_on f x r -> inc_on f r y \/ dec_on f r y ->
  Rabs (f r - f x) <= s -> mono_up_to s f x y.
Proof.
  intros Hr H1 H2 Hs. pose proof (mono_bounded f x r H1) as Hb.
  assert (Hs0 : 0 <= s) by (pose proof (Rabs_pos (f r - f x)); lra).
  destruct H2 as [H2|H2]; [left|right]; intros u v Hu Huv Hv.
  - destruct (Rle_dec r u) as [Hru|Hru]; [specialize (H2 u v Hru Huv Hv); lra|].
    destruct (Rle_dec v r) as [Hvr|Hvr].
    + specialize (Hb u v Hu Huv Hvr). apply Rabs_le_between in Hb. lra.
    + specialize (Hb u r Hu ltac:(lra) ltac:(lra)). specialize (H2 r v ltac:(lra) ltac:(lra) Hv).
      apply Rabs_le_between in Hb. lra.
  - destruct (Rle_dec r u) as [Hru|Hru]; [specialize (H2 u v Hru Huv Hv); lra|].
    destruct (Rle_dec v r) as [Hvr|Hvr].
    + specialize (Hb u v Hu Huv Hvr). apply Rabs_le_between in Hb. lra.
    + specialize (Hb u r Hu ltac:(lra) ltac:(lra)). specialize (H2 r v ltac:(lra) ltac:(lra) Hv).
      apply Rabs_le_between in Hb. lra.
Qed.
Lemma one_turn_hi s f x r y :
  x <= r <= y -> inc_on f x r \/ dec_on f x r -> inc_on f r y \/ dec_on f r y ->
  Rabs (f y - f r) <= s -> mono_up_to s f x y.
Proof.
  intros Hr H1 H2 Hs. pose proof (mono_bounded f r y H2) as Hb.
  assert (Hs0 : 0 <= s) by (pose proof (Rabs_pos (f y - f r)); lra).
  destruct H1 as [H1|H1]; [left|right]; intros u v Hu Huv Hv.
  - destruct (Rle_dec v r) as [Hvr|Hvr]; [specialize (H1 u v Hu Huv Hvr); lra|].
    destruct (Rle_dec r u) as [Hru|Hru].
    + specialize (Hb u v Hru Huv Hv). apply Rabs_le_between in Hb. lra.
    + specialize (Hb r v ltac:(lra) ltac:(lra) Hv). specialize (H1 u r Hu ltac:(lra) ltac:(lra)).
      apply Rabs_le_between in Hb. lra.
  - destruct (Rle_dec v r) as [Hvr|Hvr]; [specialize (H1 u v Hu Huv Hvr); lra|].
    destruct (Rle_dec r u) as [Hru|Hru].
    + specialize (Hb u v Hru Huv Hv). apply Rabs_le_between in Hb. lra.
    + specialize (Hb r v ltac:(lra) ltac:(lra) Hv). specialize (H1 u r Hu ltac:(lra) ltac:(lra)).
      apply Rabs_le_between in Hb. lra.
Qed.

(* two simple zeros r1 < r2 determine the derivative: p'(t) = 3A (t - r1)(t - r2), A <> 0 *)
Lemma two_zeros_factor A B C r1 r2 :
  r1 < r2 -> dcpoly A B C r1 = 0 -> dcpoly A B C r2 = 0 -> 6*A*r1 + 2*B <> 0 ->
  A <> 0 /\ B = - 3*A*(r1 + r2)/2 /\ C = 3*A*r1*r2.
Proof.
  unfold dcpoly. intros Hlt H1 H2 Hs.
  assert (HB : 2*B = - 3*A*(r1 + r2)).
  { assert (E : (r2 - r1) * (3*A*(r1 + r2) + 2*B) = 0) by (ring_simplify; lra).
    apply Rmult_integral in E. destruct E as [E|E]; lra. }
  assert (HC : C = 3*A*r1*r2).
  { assert (E : C = - 3*A*r1*r1 - 2*B*r1) by lra. rewrite E, HB. ring. }
  split; [|split; [lra|exact HC]].
  intros ->. apply Hs. lra.
Qed.

Lemma two_zeros_pos A B C D K a b r1 r2 :
  0 < A -> 0 <= a -> b <= 1 -> a < r1 -> r1 < r2 -> r2 < b ->
  B = - 3*A*(r1 + r2)/2 -> C = 3*A*r1*r2 ->
  Rabs B <= K -> Rabs (3*A + B) <= K ->
  (r1 - a < 1/100 \/ b - r1 < 1/100) -> (r2 - a < 1/100 \/ b - r2 < 1/100) ->
  mono_up_to (K / 10000) (cpoly A B C D) a b.
Proof.
  intros HA Ha Hb H1 H12 H2 EB EC KB KA N1 N2.
  set (p := cpoly A B C D).
  assert (Q : forall t, dcpoly A B C t = 3*A*((t - r1)*(t - r2))) by (intros t; unfold dcpoly; subst B C; field).
  assert (I1 : inc_on p a r1).
  { apply inc_of_nonneg. intros t Ht. rewrite Q. assert (0 <= (t - r1)*(t - r2)) by nra. nra. }
  assert (D2 : dec_on p r1 r2).
  { apply dec_of_nonpos. intros t Ht. rewrite Q. assert ((t - r1)*(t - r2) <= 0) by nra. nra. }
  assert (I3 : inc_on p r2 b).
  { apply inc_of_nonneg. intros t Ht. rewrite Q. assert (0 <= (t - r1)*(t - r2)) by nra. nra. }
  set (d := r2 - r1). assert (Hd : 0 < d) by (unfold d; lra).
  assert (EM : p r1 - p r2 = A * (d*d*d) / 2) by (unfold p, cpoly, d; subst B C; field).
  assert (HK : 0 <= K) by (pose proof (Rabs_pos B); lra).
  assert (HA3 : 3*A <= 2*K).
  { apply Rabs_le_between in KB. apply Rabs_le_between in KA. lra. }
  destruct (Rlt_dec d (2/100)) as [Hsmall|Hbig].
  - (* the two turning points are close: the outer direction wins, the dip between them is tiny *)
    left.
    assert (HM : p r1 - p r2 <= K / 10000).
    { rewrite EM. assert (d*d <= 4/10000) by nra. assert (d*d*d <= 8/1000000) by nra.
      set (w := d*d*d) in *. assert (0 <= w) by (unfold w; assert (0 <= d*d) by nra; nra). clearbody w. nra. }
    intros u v Hu Huv Hv.
    destruct (Rle_dec v r1) as [Hv1|Hv1]; [specialize (I1 u v Hu Huv Hv1); lra|].
    destruct (Rle_dec r2 u) as [Hu2|Hu2]; [specialize (I3 u v Hu2 Huv Hv); lra|].
    assert (Pu : p u <= p r1).
    { destruct (Rle_dec u r1) as [Hu1|Hu1]; [apply (I1 u r1); lra|apply (D2 r1 u); lra]. }
    assert (Pv : p r2 <= p v).
    { destruct (Rle_dec r2 v) as [Hv2|Hv2]; [apply (I3 r2 v); lra|apply (D2 v r2); lra]. }
    lra.
  - (* far apart: both sit in the end zones, the middle direction wins *)
    right.
    assert (Z1 : r1 - a < 1/100) by (destruct N1; [assumption|unfold d in Hbig; lra]).
    assert (Z2 : b - r2 < 1/100) by (destruct N2; [unfold d in Hbig; lra|assumption]).
    assert (Hal : p r1 - p a <= K / 10000).
    { pose proof (zero_bound_near A B C D r1 a K KB KA ltac:(lra) ltac:(lra)) as Hz.
      rewrite Q in Hz. specialize (Hz ltac:(ring) ltac:(rewrite Rabs_pos_eq; lra)).
      apply Rabs_le_between in Hz. fold p in Hz. lra. }
    assert (Hbe : p b - p r2 <= K / 10000).
    { pose proof (zero_bound_near A B C D r2 b K KB KA ltac:(lra) ltac:(lra)) as Hz.
      rewrite Q in Hz. specialize (Hz ltac:(ring) ltac:(rewrite Rabs_left; lra)).
      apply Rabs_le_between in Hz. fold p in Hz. lra. }
    assert (HalM : p r1 - p a <= p r1 - p r2).
    { rewrite EM. set (h := r1 - a). assert (Hh : 0 < h < 1/100) by (unfold h; lra).
      assert (Ea : p r1 - p a = A * (h*h*h + 3/2 * d * (h*h))) by (unfold p, cpoly, h, d; subst B C; field).
      rewrite Ea. assert (Hhd : h <= d/2) by lra.
      assert (h*h <= d*d/4) by nra.
      assert (h*h*h + 3/2 * d * (h*h) <= d*d*d/2).
      { assert (h*h*h <= d/2*(h*h)) by nra. assert (0 <= h*h) by nra. nra. }
      nra. }
    intros u v Hu Huv Hv.
    destruct (Rle_dec v r1) as [Hv1|Hv1].
    { pose proof (I1 a u ltac:(lra) Hu ltac:(lra)). pose proof (I1 v r1 ltac:(lra) Hv1 ltac:(lra)). lra. }
    destruct (Rle_dec r2 u) as [Hu2|Hu2].
    { pose proof (I3 r2 u ltac:(lra) Hu2 ltac:(lra)). pose proof (I3 v b ltac:(lra) Hv ltac:(lra)). lra. }
    destruct (Rle_dec u r1) as [Hu1|Hu1]; destruct (Rle_dec r2 v) as [Hv2|Hv2].
    + pose proof (I1 a u ltac:(lra) Hu Hu1). pose proof (I3 v b ltac:(lra) Hv ltac:(lra)). lra.
    + pose proof (I1 a u ltac:(lra) Hu Hu1). pose proof (D2 r1 v ltac:(lra) ltac:(lra) ltac:(lra)). lra.
    + pose proof (D2 u r2 ltac:(lra) ltac:(lra) ltac:(lra)). pose proof (I3 v b ltac:(lra) Hv ltac:(lra)). lra.
    + pose proof (D2 u v ltac:(lra) Huv ltac:(lra)). lra.
Qed.

Lemma mono_up_to_neg s A B C D x y :
  mono_up_to s (cpoly (-A) (-B) (-C) (-D)) x y -> mono_up_to s (cpoly A B C D) x y.
Proof.
  intros [H|H]; [right|left]; intros u v Hu Huv Hv; specialize (H u v Hu Huv Hv); rewrite !cpoly_neg in H; lra.
Qed.

Lemma two_zeros A B C D K a b r1 r2 :
  0 <= a -> b <= 1 -> a < r1 -> r1 < r2 -> r2 < b ->
  simple_zero A B C r1 -> simple_zero A B C r2 ->
  Rabs B <= K -> Rabs (3*A + B) <= K ->
  (r1 - a < 1/100 \/ b - r1 < 1/100) -> (r2 - a < 1/100 \/ b - r2 < 1/100) ->
  mono_up_to (K / 10000) (cpoly A B C D) a b.
Proof.
  intros Ha Hb H1 H12 H2 [Z1 S1] [Z2 S2] KB KA N1 N2.
  destruct (two_zeros_factor A B C r1 r2 H12 Z1 Z2 S1) as [HA [EB EC]].
  destruct (Rlt_dec 0 A) as [Hp|Hn].
  - eapply two_zeros_pos; eassumption.
  - apply mono_up_to_neg. apply (two_zeros_pos (-A) (-B) (-C) (-D) K a b r1 r2); try assumption.
    + destruct (Rtotal_order A 0) as [|[|]]; [lra|contradiction|lra].
    + rewrite EB. field.
    + rewrite EC. ring.
    + rewrite Rabs_Ropp. exact KB.
    + replace (3 * - A + - B) with (- (3*A + B)) by ring. rewrite Rabs_Ropp. exact KA.
Qed.

(* the master statement for one coordinate polynomial on a parameter window [a,b] inside [0,1]:  if every simple zero
   of p' strictly inside the window lies within 1% (of the ORIGINAL parameter range) of one of the window's ends,
   then p is monotone on the window up to a back-track of K/10000, K bounding |p''|/2 at both ends of [0,1] *)
Theorem cpoly_piece_monotone A B C D K a b :
  0 <= a -> a <= b -> b <= 1 -> Rabs B <= K -> Rabs (3*A + B) <= K ->
  (forall r, a < r < b -> simple_zero A B C r -> r - a < 1/100 \/ b - r < 1/100) ->
  mono_up_to (K / 10000) (cpoly A B C D) a b.
Proof.
  intros Ha Hab Hb KB KA H.
  assert (HK : 0 <= K / 10000) by (pose proof (Rabs_pos B); lra).
  destruct (classic (exists r1, a < r1 < b /\ simple_zero A B C r1)) as [[r1 [Hr1 Hz1]]|Hnone].
  - destruct (classic (exists r2, a < r2 < b /\ simple_zero A B C r2 /\ r2 <> r1)) as [[r2 [Hr2 [Hz2 Hne]]]|Hone].
    + destruct (Rtotal_order r1 r2) as [Hlt|[E|Hgt]]; [|congruence|].
      * apply (two_zeros A B C D K a b r1 r2); try assumption; try lra; apply H; assumption.
      * apply (two_zeros A B C D K a b r2 r1); try assumption; try lra; apply H; assumption.
    + assert (M1 : inc_on (cpoly A B C D) a r1 \/ dec_on (cpoly A B C D) a r1).
      { apply cpoly_mono_no_simple_zero. intros r Hr Hz. apply Hone. exists r. split; [lra|]. split; [exact Hz|lra]. }
      assert (M2 : inc_on (cpoly A B C D) r1 b \/ dec_on (cpoly A B C D) r1 b).
      { apply cpoly_mono_no_simple_zero. intros r Hr Hz. apply Hone. exists r. split; [lra|]. split; [exact Hz|lra]. }
      destruct (H r1 Hr1 Hz1) as [Hlo|Hhi].
      * apply (one_turn_lo _ _ a r1 b); try assumption; try lra.
        apply zero_bound_near; try assumption; try lra; [exact (proj1 Hz1)|rewrite Rabs_pos_eq; lra].
      * apply (one_turn_hi _ _ a r1 b); try assumption; try lra.
        rewrite <- Rabs_Ropp. replace (- (cpoly A B C D b - cpoly A B C D r1)) with (cpoly A B C D r1 - cpoly A B C D b) by ring.
        apply zero_bound_near; try assumption; try lra; [exact (proj1 Hz1)|rewrite Rabs_left; lra].
  - apply mono_exact; [exact HK|]. apply cpoly_mono_no_simple_zero. intros r Hr Hz. apply Hnone. exists r. split; assumption.
Qed.

(* the exact case: no simple zero of p' inside the window at all *)
Theorem cpoly_piece_monotone_exact A B C D a b :
  (forall r, a < r < b -> ~ simple_zero A B C r) ->
  inc_on (cpoly A B C D) a b \/ dec_on (cpoly A B C D) a b.
Proof. apply cpoly_mono_no_simple_zero. Qed.

(* ================================================================================================ *)
(* Part E.  Whole paths                                                                               *)
(* ================================================================================================ *)

(* ---- E.1  any split list: whenever splitAtPoints does not raise, every segment is replaced, in place, by pieces of
   its own kind that retrace it over consecutive parameter windows from 0 to 1 ---- *)
Definition retraces_seg (s : segment R) (g : list (segment R)) : Prop :=
  exists cs, Forall2 (retrace s) g (windows 0 (cs ++ [1])).

Lemma walk_abs_retraces segs : forall av out,
  walk_abs av segs = Ok out -> exists groups, out = concat groups /\ Forall2 retraces_seg segs groups.
Proof.
  induction segs as [|s r IH]; intros av out H; cbn [walk_abs] in H.
  - inversion H. exists []. split; [reflexivity|constructor].
  - destruct (split_walk ROps s (av s)) as [g| |] eqn:Eg; try discriminate.
    apply res_map_ok in H. destruct H as [o [Ho ->]]. apply IH in Ho. destruct Ho as [groups [-> Hf]].
    exists (g :: groups). split; [reflexivity|]. constructor; [|exact Hf].
    apply split_walk_retraces_any in Eg. exact Eg.
Qed.

Theorem splitAtPoints_retraces segs sl out :
  splitAtPoints ROps segs sl = Ok out -> exists groups, out = concat groups /\ Forall2 retraces_seg segs groups.
Proof. rewrite splitAtPoints_abs. apply walk_abs_retraces. Qed.

(* ---- E.2  the lists addExtremes requests ---- *)
Lemma requests_app k l1 l2 : requests k (l1 ++ l2) = requests k l1 ++ requests k l2.
Proof. unfold requests. rewrite filter_app, map_app. reflexivity. Qed.
Lemma requests_pairs k s (E : list R) :
  requests k (map (fun t => (s, t)) E) = if seg_keyeq ROps s k then E else [].
Proof.
  unfold requests. induction E as [|t E IH]; cbn [map filter fst].
  - destruct (seg_keyeq ROps s k); reflexivity.
  - destruct (seg_keyeq ROps s k); cbn [map snd]; [f_equal|]; exact IH.
Qed.
Lemma requests_extremes k segs :
  requests k (extremes_splitlist ROps segs) =
  flat_map (fun s => if seg_keyeq ROps s k then seg_extremes ROps s else []) segs.
Proof.
  unfold extremes_splitlist. induction segs as [|s r IH]; cbn [flat_map]; [reflexivity|].
  rewrite requests_app, requests_pairs, IH. reflexivity.
Qed.
Lemma requests_extremes_nodup k segs : NoDup segs -> In k segs ->
  requests k (extremes_splitlist ROps segs) = seg_extremes ROps k.
Proof.
  rewrite requests_extremes. induction segs as [|s r IH]; intros Hn Hk; [contradiction|].
  inversion Hn as [|x l Hnot Hr]; subst. cbn [flat_map]. destruct Hk as [->|Hk].
  - rewrite seg_keyeq_refl. replace (flat_map _ r) with (@nil R); [apply app_nil_r|].
    symmetry. clear -Hnot. induction r as [|x r IH]; [reflexivity|]. cbn [flat_map].
    replace (seg_keyeq ROps x k) with false.
    2:{ symmetry. apply seg_keyeq_false. intros ->. apply Hnot. left. reflexivity. }
    apply IH. intros H. apply Hnot. right. exact H.
  - replace (seg_keyeq ROps s k) with false.
    2:{ symmetry. apply seg_keyeq_false. intros ->. contradiction. }
    apply IH; assumption.
Qed.

Lemma seg_extremes_window s t : In t (seg_extremes ROps s) -> 1/100 <= t <= 99/100.
Proof.
  destruct s as [l|q|c]; cbn [seg_extremes].
  - intros [].
  - intros H. apply quad_findExtremes_in in H. tauto.
  - intros H. apply cubic_findExtremes_in in H. tauto.
Qed.

Definition extreme_requests (segs : list (segment R)) (k : segment R) : list R :=
  sort_ ROps (requests k (extremes_splitlist ROps segs)).

Lemma extreme_requests_window segs k t : In t (extreme_requests segs k) -> 1/100 <= t <= 99/100.
Proof.
  unfold extreme_requests. rewrite sort_in, requests_extremes, in_flat_map. intros [s [_ H]].
  destruct (seg_keyeq ROps s k); [|contradiction]. eapply seg_extremes_window. exact H.
Qed.

Theorem addExtremes_abs segs : addExtremes ROps segs = walk_abs (extreme_requests segs) segs.
Proof. unfold addExtremes. apply splitAtPoints_abs. Qed.

(* ---- E.3  sorted lists and the cuts kept ---- *)
Fixpoint sortedR (l : list R) : Prop :=
  match l with [] => True | x :: r => (forall y, In y r -> x <= y) /\ sortedR r end.

Lemma insert_sorted_sortedR x l : sortedR l -> sortedR (insert_sorted ROps x l).
Proof.
  induction l as [|y r IH]; intros H; cbn [insert_sorted].
  - split; [intros z []|exact I].
  - destruct H as [Hy Hr]. destruct (ltb ROps x y) eqn:E.
    + apply Rltb_true in E. split; [|split; assumption].
      intros z [<-|Hz]; [lra|]. specialize (Hy z Hz). lra.
    + apply Rltb_false in E. split; [|apply IH; exact Hr].
      intros z Hz. apply insert_sorted_in in Hz. destruct Hz as [->|Hz]; [exact E|apply Hy; exact Hz].
Qed.
Lemma sort_sortedR l : sortedR (sort_ ROps l).
Proof.
  unfold sort_. assert (G : forall acc, sortedR acc -> sortedR (fold_left (fun acc x => insert_sorted ROps x acc) l acc)).
  { induction l as [|x l IH]; intros acc Ha; [exact Ha|]. cbn [fold_left]. apply IH. apply insert_sorted_sortedR. exact Ha. }
  apply G. exact I.
Qed.

Lemma windows_fst : forall cs c0 w, In w (windows c0 cs) -> fst w = c0 \/ In (fst w) cs.
Proof.
  induction cs as [|c r IH]; intros c0 w H; simpl in H; [contradiction|].
  destruct H as [<-|H]; [left; reflexivity|]. right. destruct (IH c w H) as [->|Hin]; [left; reflexivity|right; exact Hin].
Qed.

(* a requested parameter that lies strictly inside a window of the final cut list was skipped: it is within 1e-8 of
   the window's start *)
Lemma kept_windows_cover : forall taus a,
  0 <= a < 1 -> sortedR taus -> (forall tau, In tau taus -> a <= tau < 1) ->
  forall tau w, In tau taus -> In w (windows a (kept a taus ++ [1])) -> fst w < tau < snd w -> tau - fst w < eps8.
Proof.
  induction taus as [|t r IH]; intros a Ha Hs Hr tau w Htau Hw Hin; [contradiction|].
  destruct Hs as [Ht Hs]. cbn [kept] in Hw.
  assert (Hfst : forall a' w', 0 <= a' -> In w' (windows a' (kept a' r ++ [1])) -> fst w' = a' \/ t <= fst w').
  { intros a' w' Ha' Hw'. apply windows_fst in Hw'. destruct Hw' as [E|Hi]; [left; exact E|right].
    apply in_app_or in Hi. destruct Hi as [Hi|[<-|[]]].
    - apply kept_subset in Hi. apply Ht. exact Hi.
    - specialize (Hr t (or_introl eq_refl)). lra. }
  destruct (Rlt_dec (loc a t) eps8) as [Hskip|Hkeep].
  - destruct Htau as [<-|Htau].
    + destruct (Hfst a w (proj1 Ha) Hw) as [E|E]; [|lra]. rewrite E.
      unfold loc in Hskip. assert (H1a : 0 < 1 - a <= 1) by lra.
      assert (t - a < eps8 * (1 - a)).
      { apply Rmult_lt_reg_r with (/ (1 - a)); [apply Rinv_0_lt_compat; lra|].
        replace (eps8 * (1 - a) * / (1 - a)) with eps8 by (field; lra). exact Hskip. }
      unfold eps8 in *. nra.
    + apply (IH a Ha Hs) with (w := w); try assumption. intros x Hx. apply Hr. right. exact Hx.
  - assert (Hat : a < t) by (apply loc_pos; [lra|exact Hkeep]).
    pose proof (Hr t (or_introl eq_refl)) as Ht1.
    cbn [app windows] in Hw. destruct Hw as [<-|Hw].
    + simpl in Hin. destruct Htau as [<-|Htau]; [lra|]. specialize (Ht tau Htau). lra.
    + destruct Htau as [<-|Htau].
      * destruct (Hfst t w ltac:(lra) Hw) as [E|E]; lra.
      * apply (IH t ltac:(lra) Hs) with (w := w); try assumption.
        intros x Hx. specialize (Ht x Hx). specialize (Hr x (or_intror Hx)). lra.
Qed.

(* ---- E.4  structure of the result of addExtremes, for every path ---- *)
Definition refines_seg (s : segment R) (g : list (segment R)) : Prop :=
  exists cs, increasing 0 (cs ++ [1]) /\ Forall2 (retrace s) g (windows 0 (cs ++ [1])).

Lemma Forall2_combine3 {A B C} (P : A -> B -> Prop) (Q : A * B -> C -> Prop) (S : A -> C -> Prop) :
  (forall a b c, P a b -> Q (a, b) c -> S a c) ->
  forall l1 l2 l3, Forall2 P l1 l2 -> Forall2 Q (combine l1 l2) l3 -> Forall2 S l1 l3.
Proof.
  intros H l1 l2 l3 HP. revert l3. induction HP as [|a b l1 l2 Hab _ IH]; intros l3 HQ; simpl in HQ.
  - inversion HQ. constructor.
  - inversion HQ as [|x c lx l3' Hc Hrest]; subst. constructor; [eapply H; eassumption|apply IH; exact Hrest].
Qed.

Lemma split_walk_refines s L g :
  List.Forall (fun t => t < 1) L -> split_walk ROps s L = Ok g ->
  increasing 0 (kept 0 L ++ [1]) /\ Forall2 (retrace s) g (windows 0 (kept 0 L ++ [1])).
Proof.
  intros HL Hg. destruct (split_walk_retraces s L HL) as [ps [Hps Hf]]. rewrite Hg in Hps. inversion Hps; subst.
  split; [apply kept_increasing; [lra|exact HL]|exact Hf].
Qed.

Lemma extreme_requests_lt1 segs k : List.Forall (fun t => t < 1) (extreme_requests segs k).
Proof. apply Forall_forall. intros t Ht. apply extreme_requests_window in Ht. lra. Qed.

(* same trace, same order: the result is the concatenation of one group of pieces per original segment, each group
   retracing its segment over an increasing chain of windows 0 = c0 < c1 < ... < ck = 1.  Holds for EVERY path (also
   with repeated segment values), and addExtremes never raises. *)
Theorem addExtremes_same_trace segs :
  exists out groups, addExtremes ROps segs = Ok out /\ out = concat groups /\ Forall2 refines_seg segs groups.
Proof.
  rewrite addExtremes_abs.
  destruct (walk_abs_groups segs (extreme_requests segs) (extreme_requests_lt1 segs)) as [groups [Hw Hf]].
  exists (concat groups), groups. split; [exact Hw|]. split; [reflexivity|].
  apply (Forall2_combine3 (fun s L => L = extreme_requests segs s \/ L = [])
           (fun sL g => split_walk ROps (fst sL) (snd sL) = Ok g) refines_seg) with (l2 := consumed (extreme_requests segs) segs);
    [|apply consumed_cases|exact Hf].
  intros s L g HL Hg. cbn [fst snd] in Hg. exists (kept 0 L). apply split_walk_refines; [|exact Hg].
  destruct HL as [->| ->]; [apply extreme_requests_lt1|constructor].
Qed.

(* ---- E.5  nodes, connectedness, start and end ---- *)
Definition covers_seg (s : segment R) (g : list (segment R)) : Prop :=
  exists p ps, g = p :: ps /\ chained g /\ seg_start p = seg_start s /\ seg_end (last_seg p ps) = seg_end s.

Lemma refines_covers s g : refines_seg s g -> covers_seg s g.
Proof.
  intros [cs [_ Hf]]. destruct (retrace_nonempty _ _ _ _ Hf) as [p [ps [c [cs' [-> Ec]]]]]. rewrite Ec in Hf.
  destruct (retrace_windows_chain s _ _ _ _ _ Hf) as [Hc [Hs He]].
  exists p, ps. split; [reflexivity|]. split; [exact Hc|]. split.
  - rewrite Hs. apply seg_eval_0.
  - rewrite He. replace (last_cut c cs') with 1; [apply seg_eval_1|].
    destruct cs as [|k ks]; simpl in Ec; inversion Ec; subst; [reflexivity|]. symmetry. apply last_cut_app.
Qed.

Lemma last_seg_in p ps : In (last_seg p ps) (p :: ps).
Proof. revert p. induction ps as [|q ps IH]; intros p; [left; reflexivity|]. right. apply IH. Qed.
Lemma last_seg_app p ps q qs : last_seg p (ps ++ q :: qs) = last_seg q qs.
Proof. revert p. induction ps as [|x ps IH]; intros p; [reflexivity|]. apply IH. Qed.
Lemma chained_app p ps q qs :
  chained (p :: ps) -> chained (q :: qs) -> seg_end (last_seg p ps) = seg_start q -> chained ((p :: ps) ++ q :: qs).
Proof.
  revert p. induction ps as [|x ps IH]; intros p H1 H2 He.
  - simpl in *. split; assumption.
  - destruct H1 as [Hpx H1]. change ((p :: x :: ps) ++ q :: qs) with (p :: ((x :: ps) ++ q :: qs)).
    cbn [app]. split; [exact Hpx|]. apply (IH x H1 H2 He).
Qed.

Lemma Forall2_in_l {A B} (P : A -> B -> Prop) l1 l2 a : Forall2 P l1 l2 -> In a l1 -> exists b, In b l2 /\ P a b.
Proof.
  induction 1 as [|x y l1 l2 Hxy _ IH]; intros Hin; [contradiction|]. destruct Hin as [<-|Hin].
  - exists y. split; [left; reflexivity|exact Hxy].
  - destruct (IH Hin) as [b [Hb Hp]]. exists b. split; [right; exact Hb|exact Hp].
Qed.
Lemma Forall2_in_r {A B} (P : A -> B -> Prop) l1 l2 b : Forall2 P l1 l2 -> In b l2 -> exists a, In a l1 /\ P a b.
Proof.
  induction 1 as [|x y l1 l2 Hxy _ IH]; intros Hin; [contradiction|]. destruct Hin as [<-|Hin].
  - exists x. split; [left; reflexivity|exact Hxy].
  - destruct (IH Hin) as [a [Ha Hp]]. exists a. split; [right; exact Ha|exact Hp].
Qed.

(* a connected chain stays connected, and keeps its first start point and its last end point *)
Lemma covers_concat : forall segs groups, Forall2 covers_seg segs groups -> chained segs ->
  match segs with
  | [] => concat groups = []
  | s0 :: rest => exists p ps, concat groups = p :: ps /\ chained (p :: ps) /\
                               seg_start p = seg_start s0 /\ seg_end (last_seg p ps) = seg_end (last_seg s0 rest)
  end.
Proof.
  induction 1 as [|s g segs groups Hsg Hrest IH]; intros Hch; [reflexivity|].
  destruct Hsg as [p [ps [-> [Hc [Hs He]]]]]. cbn [concat].
  destruct segs as [|s1 rest].
  - inversion Hrest; subst. cbn [concat]. rewrite app_nil_r. exists p, ps. repeat split; assumption.
  - destruct Hch as [Hjoin Hch]. destruct (IH Hch) as [q [qs [Eq [Hcq [Hsq Heq]]]]]. rewrite Eq.
    exists p, (ps ++ q :: qs). split; [reflexivity|]. split; [|split].
    + apply (chained_app p ps q qs Hc Hcq). rewrite He, Hsq. exact Hjoin.
    + exact Hs.
    + rewrite last_seg_app. exact Heq.
Qed.

Theorem addExtremes_wf segs out :
  addExtremes ROps segs = Ok out -> chained segs ->
  match segs with
  | [] => out = []
  | s0 :: rest => exists p ps, out = p :: ps /\ chained out /\
                               seg_start p = seg_start s0 /\ seg_end (last_seg p ps) = seg_end (last_seg s0 rest)
  end.
Proof.
  intros H Hch. destruct (addExtremes_same_trace segs) as [out' [groups [H' [-> Hf]]]]. rewrite H in H'. inversion H'; subst.
  pose proof (covers_concat segs groups (Forall2_imp _ _ _ _ refines_covers Hf) Hch) as Hc.
  destruct segs as [|s0 rest]; [exact Hc|]. destruct Hc as [p [ps [E [H1 [H2 H3]]]]].
  exists p, ps. rewrite E. repeat split; assumption.
Qed.

(* every original node (start or end point of an original segment) is still the start / end point of a piece *)
Theorem addExtremes_keeps_nodes segs out :
  addExtremes ROps segs = Ok out ->
  forall s, In s segs -> (exists p, In p out /\ seg_start p = seg_start s) /\ (exists p, In p out /\ seg_end p = seg_end s).
Proof.
  intros H s Hs. destruct (addExtremes_same_trace segs) as [out' [groups [H' [-> Hf]]]]. rewrite H in H'. inversion H'; subst.
  destruct (Forall2_in_l _ _ _ s Hf Hs) as [g [Hg Hr]]. apply refines_covers in Hr.
  destruct Hr as [p [ps [-> [_ [H1 H2]]]]]. split.
  - exists p. split; [|exact H1]. apply in_concat. exists (p :: ps). split; [exact Hg|left; reflexivity].
  - exists (last_seg p ps). split; [|exact H2]. apply in_concat. exists (p :: ps). split; [exact Hg|apply last_seg_in].
Qed.

(* ---- E.6  every piece is monotone in x and in y up to the sliver back-track ---- *)
Lemma mono_transport s f a b :
  a <= b -> mono_up_to s f a b -> mono_up_to s (fun u => f (a + u * (b - a))) 0 1.
Proof. intros Hab [H|H]; [left|right]; intros u v Hu Huv Hv; apply H; nra. Qed.
Lemma mono_dir_transport f a b :
  a <= b -> inc_on f a b \/ dec_on f a b ->
  inc_on (fun u => f (a + u * (b - a))) 0 1 \/ dec_on (fun u => f (a + u * (b - a))) 0 1.
Proof. intros Hab [H|H]; [left|right]; intros u v Hu Huv Hv; apply H; nra. Qed.
Lemma mono_up_to_ext s f g x y : (forall u, f u = g u) -> mono_up_to s f x y -> mono_up_to s g x y.
Proof. intros E [H|H]; [left|right]; intros u v Hu Huv Hv; rewrite <- !E; apply H; assumption. Qed.
Lemma mono_dir_ext f g x y : (forall u, f u = g u) -> inc_on f x y \/ dec_on f x y -> inc_on g x y \/ dec_on g x y.
Proof. intros E [H|H]; [left|right]; intros u v Hu Huv Hv; rewrite <- !E; apply H; assumption. Qed.

Lemma window_facts L w :
  (forall t, In t L -> 1/100 <= t <= 99/100) -> In w (windows 0 (kept 0 L ++ [1])) ->
  0 <= fst w /\ fst w < snd w /\ snd w <= 1 /\ (forall c, In c (kept 0 L) -> snd w <= c \/ c <= fst w).
Proof.
  intros HL Hw.
  assert (Hi : increasing 0 (kept 0 L ++ [1])).
  { apply kept_increasing; [lra|]. apply Forall_forall. intros t Ht. specialize (HL t Ht). lra. }
  destruct (windows_increasing _ _ _ Hi Hw) as [H1 [H2 H3]].
  split; [exact H1|]. split; [exact H2|]. split; [apply (windows_last_le _ _ _ Hi Hw)|].
  intros c Hc. apply H3. apply in_or_app. left. exact Hc.
Qed.

(* one coordinate polynomial of a segment, on one window of the cut list made from the sorted list L of extremes *)
Lemma coord_piece_mono A B C D K L w :
  Rabs B <= K -> Rabs (3*A + B) <= K ->
  sortedR L -> (forall t, In t L -> 1/100 <= t <= 99/100) ->
  (forall r, 1/100 <= r <= 99/100 -> simple_zero A B C r -> In r L) ->
  In w (windows 0 (kept 0 L ++ [1])) ->
  mono_up_to (K / 10000) (fun u => cpoly A B C D (fst w + u * (snd w - fst w))) 0 1.
Proof.
  intros KB KA Hs HL Hin Hw. destruct (window_facts L w HL Hw) as [W0 [W1 [W2 _]]].
  apply mono_transport; [lra|]. apply cpoly_piece_monotone; try assumption; try lra.
  intros r Hr Hz. destruct (Rlt_dec r (1/100)) as [|Hlo]; [left; lra|].
  destruct (Rlt_dec (99/100) r) as [|Hhi]; [right; lra|]. left.
  assert (HrL : In r L) by (apply Hin; [lra|exact Hz]).
  pose proof (kept_windows_cover L 0 ltac:(lra) Hs) as Hc.
  assert (r - fst w < eps8).
  { apply Hc; try assumption. intros tau Ht. specialize (HL tau Ht). lra. }
  unfold eps8 in *. lra.
Qed.

(* the exact case: no simple zero of the coordinate's derivative in the end slivers, and no extreme was skipped *)
Lemma coord_piece_mono_exact A B C D L w :
  (forall t, In t L -> 1/100 <= t <= 99/100) ->
  (forall r, 1/100 <= r <= 99/100 -> simple_zero A B C r -> In r L) ->
  (forall r, 0 < r < 1/100 \/ 99/100 < r < 1 -> ~ simple_zero A B C r) ->
  (forall r, In r L -> In r (kept 0 L)) ->
  In w (windows 0 (kept 0 L ++ [1])) ->
  inc_on (fun u => cpoly A B C D (fst w + u * (snd w - fst w))) 0 1 \/
  dec_on (fun u => cpoly A B C D (fst w + u * (snd w - fst w))) 0 1.
Proof.
  intros HL Hin Hsl Hk Hw. destruct (window_facts L w HL Hw) as [W0 [W1 [W2 W3]]].
  apply mono_dir_transport; [lra|]. apply cpoly_piece_monotone_exact.
  intros r Hr Hz.
  destruct (Rlt_dec r (1/100)) as [|Hlo]; [apply (Hsl r); [left; lra|exact Hz]|].
  destruct (Rlt_dec (99/100) r) as [|Hhi]; [apply (Hsl r); [right; lra|exact Hz]|].
  assert (HrL : In r L) by (apply Hin; [lra|exact Hz]).
  destruct (W3 r (Hk r HrL)); lra.
Qed.

(* control-polygon extent of a coordinate of the ORIGINAL segment; the allowance is sigma = 0.06% of it *)
Definition seg_ext (sel : pt R -> R) (s : segment R) : R :=
  match s with
  | SLine l => Rabs (sel (l1 l) - sel (l0 l))
  | SQuad q => quad_ext sel q
  | SCubic c => cubic_ext sel c
  end.
Definition piece_mono (s p : segment R) : Prop :=
  mono_up_to (sigma (seg_ext px s)) (fun u => px (seg_eval p u)) 0 1 /\
  mono_up_to (sigma (seg_ext py s)) (fun u => py (seg_eval p u)) 0 1.
Definition piece_mono_exact (p : segment R) : Prop :=
  (inc_on (fun u => px (seg_eval p u)) 0 1 \/ dec_on (fun u => px (seg_eval p u)) 0 1) /\
  (inc_on (fun u => py (seg_eval p u)) 0 1 \/ dec_on (fun u => py (seg_eval p u)) 0 1).
Definition genuine_seg (s : segment R) : Prop := match s with SCubic c => genuine c | _ => True end.

Lemma line_px_poly (l : seg2 R) t : px (Line_pointAtTime ROps l t) = cpoly 0 0 (px (l1 l) - px (l0 l)) (px (l0 l)) t.
Proof. destruct_pts. rcbv. unfold cpoly. ring. Qed.
Lemma line_py_poly (l : seg2 R) t : py (Line_pointAtTime ROps l t) = cpoly 0 0 (py (l1 l) - py (l0 l)) (py (l0 l)) t.
Proof. destruct_pts. rcbv. unfold cpoly. ring. Qed.

Lemma sigma_nonneg_ext4 sel c : 0 <= sigma (cubic_ext sel c).
Proof.
  unfold sigma, cubic_ext. destruct (ext4_spec (sel (c0 c)) (sel (c1 c)) (sel (c2 c)) (sel (c3 c))) as [lo [hi [-> H]]]. lra.
Qed.

(* the coordinate polynomials of a segment and the facts the generic lemma needs, by kind *)
Definition coordA (sel : pt R -> R) (s : segment R) : R := match s with SLine _ => 0 | SQuad _ => 0 | SCubic c => cfA sel c end.
Definition coordB (sel : pt R -> R) (s : segment R) : R := match s with SLine _ => 0 | SQuad q => qfB sel q | SCubic c => cfB sel c end.
Definition coordC (sel : pt R -> R) (s : segment R) : R :=
  match s with SLine l => sel (l1 l) - sel (l0 l) | SQuad q => qfC sel q | SCubic c => cfC sel c end.

Lemma seg_px_poly s t : px (seg_eval s t) = cpoly (coordA px s) (coordB px s) (coordC px s) (px (seg_start s)) t.
Proof. destruct s; cbn [seg_eval coordA coordB coordC seg_start]; [apply line_px_poly|apply quad_px_poly|apply cubic_px_poly]. Qed.
Lemma seg_py_poly s t : py (seg_eval s t) = cpoly (coordA py s) (coordB py s) (coordC py s) (py (seg_start s)) t.
Proof. destruct s; cbn [seg_eval coordA coordB coordC seg_start]; [apply line_py_poly|apply quad_py_poly|apply cubic_py_poly]. Qed.

Lemma seg_K_bounds sel s :
  Rabs (coordB sel s) <= 6 * seg_ext sel s /\ Rabs (3 * coordA sel s + coordB sel s) <= 6 * seg_ext sel s.
Proof.
  destruct s as [l|q|c]; cbn [coordA coordB seg_ext].
  - replace (3 * 0 + 0) with 0 by ring. rewrite Rabs_R0. pose proof (Rabs_pos (sel (l1 l) - sel (l0 l))). lra.
  - apply quad_K_bounds.
  - apply cubic_K_bounds.
Qed.

(* simple zeros of x' or y' inside the window [0.01,0.99] are reported extremes (C02, Part C) *)
Lemma seg_simple_zero_reported s r :
  genuine_seg s -> 1/100 <= r <= 99/100 ->
  simple_zero (coordA px s) (coordB px s) (coordC px s) r \/ simple_zero (coordA py s) (coordB py s) (coordC py s) r ->
  In r (seg_extremes ROps s).
Proof.
  intros G Hr Hz. destruct s as [l|q|c]; cbn [coordA coordB coordC seg_extremes genuine_seg] in *.
  - unfold simple_zero in Hz. exfalso. destruct Hz as [[_ H]|[_ H]]; apply H; ring.
  - apply quad_findExtremes_simple_zeros. split; [exact Hr|]. exact Hz.
  - apply (cubic_findExtremes_simple_zeros c r G). split; [exact Hr|]. exact Hz.
Qed.

Theorem piece_monotone s g :
  genuine_seg s -> split_walk ROps s (sort_ ROps (seg_extremes ROps s)) = Ok g ->
  forall p, In p g -> piece_mono s p.
Proof.
  intros G Hg p Hp. set (L := sort_ ROps (seg_extremes ROps s)) in *.
  assert (HL : forall t, In t L -> 1/100 <= t <= 99/100).
  { intros t Ht. unfold L in Ht. rewrite sort_in in Ht. apply (seg_extremes_window s t Ht). }
  assert (HL1 : List.Forall (fun t => t < 1) L) by (apply Forall_forall; intros t Ht; specialize (HL t Ht); lra).
  destruct (split_walk_refines s L g HL1 Hg) as [_ Hf].
  destruct (Forall2_in_l _ _ _ p Hf Hp) as [w [Hw [_ He]]].
  assert (HS : sortedR L) by apply sort_sortedR.
  split.
  - destruct (seg_K_bounds px s) as [KB KA].
    pose proof (coord_piece_mono (coordA px s) (coordB px s) (coordC px s) (px (seg_start s)) (6 * seg_ext px s) L w KB KA HS HL) as H.
    rewrite sigma_K in H. eapply mono_up_to_ext; [|apply H; [|exact Hw]].
    + intros u. cbn beta. rewrite He, seg_px_poly. reflexivity.
    + intros r Hr Hz. unfold L. rewrite sort_in. apply seg_simple_zero_reported; [exact G|exact Hr|left; exact Hz].
  - destruct (seg_K_bounds py s) as [KB KA].
    pose proof (coord_piece_mono (coordA py s) (coordB py s) (coordC py s) (py (seg_start s)) (6 * seg_ext py s) L w KB KA HS HL) as H.
    rewrite sigma_K in H. eapply mono_up_to_ext; [|apply H; [|exact Hw]].
    + intros u. cbn beta. rewrite He, seg_py_poly. reflexivity.
    + intros r Hr Hz. unfold L. rewrite sort_in. apply seg_simple_zero_reported; [exact G|exact Hr|right; exact Hz].
Qed.

(* exactly monotone pieces: neither x' nor y' has a simple zero in the end slivers, and no extreme was skipped *)
Definition no_sliver_turn (s : segment R) : Prop :=
  forall r, 0 < r < 1/100 \/ 99/100 < r < 1 ->
  ~ simple_zero (coordA px s) (coordB px s) (coordC px s) r /\ ~ simple_zero (coordA py s) (coordB py s) (coordC py s) r.

Theorem piece_monotone_exact s g :
  genuine_seg s -> no_sliver_turn s ->
  (forall r, In r (seg_extremes ROps s) -> In r (kept 0 (sort_ ROps (seg_extremes ROps s)))) ->
  split_walk ROps s (sort_ ROps (seg_extremes ROps s)) = Ok g ->
  forall p, In p g -> piece_mono_exact p.
Proof.
  intros G Hns Hk Hg p Hp. set (L := sort_ ROps (seg_extremes ROps s)) in *.
  assert (HL : forall t, In t L -> 1/100 <= t <= 99/100).
  { intros t Ht. unfold L in Ht. rewrite sort_in in Ht. apply (seg_extremes_window s t Ht). }
  assert (HL1 : List.Forall (fun t => t < 1) L) by (apply Forall_forall; intros t Ht; specialize (HL t Ht); lra).
  assert (Hk' : forall r, In r L -> In r (kept 0 L)) by (intros r Hr; apply Hk; unfold L in Hr; rewrite sort_in in Hr; exact Hr).
  destruct (split_walk_refines s L g HL1 Hg) as [_ Hf].
  destruct (Forall2_in_l _ _ _ p Hf Hp) as [w [Hw [_ He]]].
  split.
  - eapply mono_dir_ext; [|apply (coord_piece_mono_exact (coordA px s) (coordB px s) (coordC px s) (px (seg_start s)) L w HL); [| |exact Hk'|exact Hw]].
    + intros u. cbn beta. rewrite He, seg_px_poly. reflexivity.
    + intros r Hr Hz. unfold L. rewrite sort_in. apply seg_simple_zero_reported; [exact G|exact Hr|left; exact Hz].
    + intros r Hr. apply (Hns r Hr).
  - eapply mono_dir_ext; [|apply (coord_piece_mono_exact (coordA py s) (coordB py s) (coordC py s) (py (seg_start s)) L w HL); [| |exact Hk'|exact Hw]].
    + intros u. cbn beta. rewrite He, seg_py_poly. reflexivity.
    + intros r Hr Hz. unfold L. rewrite sort_in. apply seg_simple_zero_reported; [exact G|exact Hr|right; exact Hz].
    + intros r Hr. apply (Hns r Hr).
Qed.

(* ---- E.7  the path-level statement: no repeated segment value, genuine cubics ---- *)
Lemma Forall2_map_sub {A B} (f : A -> B) (l0 l : list A) :
  (forall a, In a l -> In a l0) -> Forall2 (fun a b => In a l0 /\ b = f a) l (map f l).
Proof.
  induction l as [|x l IH]; intros H; cbn [map]; constructor.
  - split; [apply H; left; reflexivity|reflexivity].
  - apply IH. intros a Ha. apply H. right. exact Ha.
Qed.

Theorem addExtremes_monotone segs :
  NoDup segs -> (forall s, In s segs -> genuine_seg s) ->
  exists out groups, addExtremes ROps segs = Ok out /\ out = concat groups /\
    Forall2 (fun s g => refines_seg s g /\ forall p, In p g -> piece_mono s p) segs groups.
Proof.
  intros Hnd HG. rewrite addExtremes_abs.
  destruct (walk_abs_groups segs (extreme_requests segs) (extreme_requests_lt1 segs)) as [groups [Hw Hf]].
  exists (concat groups), groups. split; [exact Hw|]. split; [reflexivity|].
  rewrite (consumed_nodup segs _ Hnd) in Hf.
  apply (Forall2_combine3 (fun s L => In s segs /\ L = extreme_requests segs s)
           (fun sL g => split_walk ROps (fst sL) (snd sL) = Ok g)
           (fun s g => refines_seg s g /\ forall p, In p g -> piece_mono s p)) with (l2 := map (extreme_requests segs) segs);
    [|apply Forall2_map_sub; auto|exact Hf].
  intros s L g [Hs ->] Hg. cbn [fst snd] in Hg. split.
  - exists (kept 0 (extreme_requests segs s)). apply split_walk_refines; [apply extreme_requests_lt1|exact Hg].
  - unfold extreme_requests in Hg. rewrite (requests_extremes_nodup s segs Hnd Hs) in Hg.
    apply (piece_monotone s g (HG s Hs) Hg).
Qed.

Corollary addExtremes_monotone_pieces segs out :
  NoDup segs -> (forall s, In s segs -> genuine_seg s) -> addExtremes ROps segs = Ok out ->
  forall p, In p out -> exists s, In s segs /\ piece_mono s p.
Proof.
  intros Hnd HG H p Hp. destruct (addExtremes_monotone segs Hnd HG) as [out' [groups [H' [-> Hf]]]].
  rewrite H in H'. inversion H'; subst. apply in_concat in Hp. destruct Hp as [g [Hg Hpg]].
  destruct (Forall2_in_r _ _ _ g Hf Hg) as [s [Hs [_ Hm]]]. exists s. split; [exact Hs|apply Hm; exact Hpg].
Qed.

(* ================================================================================================ *)
(* Part F.  The same segment value twice: only the first occurrence is split (defect D14)             *)
(* ================================================================================================ *)

(* in the abstract walk, the second time a value is met nothing is available any more *)
Lemma walk_abs_second_unsplit l1 : forall av s l2 l3 out,
  walk_abs av (l1 ++ s :: l2 ++ s :: l3) = Ok out -> exists o1 o2, out = o1 ++ s :: o2.
Proof.
  assert (Hcleared : forall l2 av s l3 out, av s = [] -> walk_abs av (l2 ++ s :: l3) = Ok out -> exists o1 o2, out = o1 ++ s :: o2).
  { induction l2 as [|x l2 IH]; intros av s l3 out Hav H; cbn [app walk_abs] in H.
    - rewrite Hav in H. change (split_walk ROps s []) with (Ok [s]) in H.
      apply res_map_ok in H. destruct H as [o [_ ->]]. exists [], o. reflexivity.
    - destruct (split_walk ROps x (av x)) as [g| |]; try discriminate.
      apply res_map_ok in H. destruct H as [o [Ho ->]].
      apply IH in Ho; [|destruct (seg_keyeq ROps x s); [reflexivity|exact Hav]].
      destruct Ho as [o1 [o2 ->]]. exists (g ++ o1), o2. rewrite app_assoc. reflexivity. }
  induction l1 as [|x l1 IH]; intros av s l2 l3 out H; cbn [app walk_abs] in H.
  - destruct (split_walk ROps s (av s)) as [g| |]; try discriminate.
    apply res_map_ok in H. destruct H as [o [Ho ->]].
    apply Hcleared in Ho; [|rewrite seg_keyeq_refl; reflexivity].
    destruct Ho as [o1 [o2 ->]]. exists (g ++ o1), o2. rewrite app_assoc. reflexivity.
  - destruct (split_walk ROps x (av x)) as [g| |]; try discriminate.
    apply res_map_ok in H. destruct H as [o [Ho ->]]. apply IH in Ho.
    destruct Ho as [o1 [o2 ->]]. exists (g ++ o1), o2. rewrite app_assoc. reflexivity.
Qed.

(* whatever is requested: a path that contains the value s twice returns s itself, unsplit, among the result *)
Theorem splitAtPoints_duplicate_unsplit l1 s l2 l3 sl out :
  splitAtPoints ROps (l1 ++ s :: l2 ++ s :: l3) sl = Ok out -> In s out.
Proof.
  rewrite splitAtPoints_abs. intros H. apply walk_abs_second_unsplit in H. destruct H as [o1 [o2 ->]].
  apply in_or_app. right. left. reflexivity.
Qed.

(* the witness: the parabola arch (0,0) (50,100) (100,0), a line back, and the same arch again *)
Definition arch_q : segment R := SQuad (Q3 (P 0 0) (P 50 100) (P 100 0)).
Definition back_l : segment R := SLine (L2 (P 100 0) (P 0 0)).

Lemma arch_q_not_monotone : ~ piece_mono arch_q arch_q.
Proof.
  intros [_ Hy].
  assert (E : forall u, py (seg_eval arch_q u) = 200 * u * (1 - u)) by (intros u; rcbv; ring).
  assert (Hs : sigma (seg_ext py arch_q) = 6/100).
  { unfold sigma, seg_ext, arch_q, quad_ext, ext3. cbn [q0 q1 q2 py]. unfold Rmax, Rmin.
    destruct (Rle_dec 0 100); [|lra]. destruct (Rle_dec 100 0); [lra|]. destruct (Rle_dec 0 0); lra. }
  rewrite Hs in Hy. destruct Hy as [H|H].
  - specialize (H (1/2) 1 ltac:(lra) ltac:(lra) ltac:(lra)). rewrite !E in H. lra.
  - specialize (H 0 (1/2) ltac:(lra) ltac:(lra) ltac:(lra)). rewrite !E in H. lra.
Qed.

(* C03's second sentence fails on the faithful model as soon as a segment value repeats *)
Theorem addExtremes_duplicate_refuted :
  exists segs out p, chained segs /\ addExtremes ROps segs = Ok out /\ In p out /\
                     forall s, In s segs -> same_kind s p -> ~ piece_mono s p.
Proof.
  exists [arch_q; back_l; arch_q].
  destruct (addExtremes_same_trace [arch_q; back_l; arch_q]) as [out [groups [H _]]].
  exists out, arch_q. split; [|split; [exact H|split]].
  - simpl. split; [reflexivity|split; [reflexivity|exact I]].
  - unfold addExtremes in H. apply (splitAtPoints_duplicate_unsplit [] arch_q [back_l] [] _ out H).
  - intros s [<-|[<-|[<-|[]]]] Hk; try apply arch_q_not_monotone. simpl in Hk. contradiction.
Qed.

(* concrete, over the reals: a request for the arch at 1/2 cuts the first arch only; and the reason addExtremes still
   cuts the FIRST occurrence correctly: both occurrences request 1/2, the list under the one key is [1/2; 1/2], the second
   entry is remapped to mapx(1/2, 1/2) = 0 < 1e-8 and skipped *)
Lemma split_arch_half : split_walk ROps arch_q [1/2] =
  Ok [SQuad (Q3 (P 0 0) (P 25 50) (P 50 50)); SQuad (Q3 (P 50 50) (P 75 50) (P 100 0))].
Proof.
  unfold split_walk, arch_q. cbn [length split_walk_fuel].
  replace (ltb ROps (1/2) (lit ROps 1 100000000 0x1.5798ee2308c3ap-27%float)) with false.
  2:{ symmetry. apply Rltb_false. cbn. lra. }
  cbn [seg_split remap res_map split_walk_fuel].
  unfold Quad_splitAtTime. cbn [q0 q1 q2].
  repeat f_equal; rcbv; apply pt_eq; lra.
Qed.

Example splitAtPoints_duplicate_refuted :
  splitAtPoints ROps [arch_q; back_l; arch_q] [(arch_q, 1/2)] =
  Ok [SQuad (Q3 (P 0 0) (P 25 50) (P 50 50)); SQuad (Q3 (P 50 50) (P 75 50) (P 100 0)); back_l; arch_q].
Proof.
  assert (K1 : seg_keyeq ROps arch_q arch_q = true) by apply seg_keyeq_refl.
  assert (K2 : seg_keyeq ROps arch_q back_l = false) by (apply seg_keyeq_false; discriminate).
  assert (K3 : seg_keyeq ROps back_l arch_q = false) by (apply seg_keyeq_false; discriminate).
  rewrite splitAtPoints_abs. unfold requests. cbn [walk_abs filter map fst snd].
  rewrite K1. cbn [map snd]. change (sort_ ROps [1/2]) with [1/2]. rewrite split_arch_half.
  rewrite K2. cbn [filter map]. change (sort_ ROps []) with (@nil R). change (split_walk ROps back_l []) with (Ok [back_l]).
  rewrite K3. change (split_walk ROps arch_q []) with (Ok [arch_q]). reflexivity.
Qed.

Example duplicate_requests_collapse : split_walk ROps arch_q [1/2; 1/2] =
  Ok [SQuad (Q3 (P 0 0) (P 25 50) (P 50 50)); SQuad (Q3 (P 50 50) (P 75 50) (P 100 0))].
Proof.
  unfold split_walk, arch_q. cbn [length split_walk_fuel].
  replace (ltb ROps (1/2) (lit ROps 1 100000000 0x1.5798ee2308c3ap-27%float)) with false.
  2:{ symmetry. apply Rltb_false. cbn. lra. }
  cbn [seg_split remap].
  replace (eqb ROps (sub ROps (ofZ ROps 1) (1/2)) (ofZ ROps 0)) with false.
  2:{ symmetry. apply Reqb_false. cbn. lra. }
  cbn [map split_walk_fuel].
  replace (ltb ROps (mapx ROps (1/2) (1/2)) (lit ROps 1 100000000 0x1.5798ee2308c3ap-27%float)) with true.
  2:{ symmetry. apply Rltb_true. rewrite mapx_R. cbn. lra. }
  cbn [res_map]. unfold Quad_splitAtTime. cbn [q0 q1 q2].
  repeat f_equal; rcbv; apply pt_eq; lra.
Qed.

(* the same on the float instance, evaluated: what CPython returns for this path (bit for bit, by the correspondence) *)
Definition arch_qf : segment float := SQuad (Q3 (P 0 0) (P 50 100) (P 100 0))%float.
Definition back_lf : segment float := SLine (L2 (P 100 0) (P 0 0))%float.
Example splitAtPoints_duplicate_float :
  splitAtPoints FOps [arch_qf; back_lf; arch_qf] [(arch_qf, 0.5%float)] =
  Ok [SQuad (Q3 (P 0 0) (P 25 50) (P 50 50))%float; SQuad (Q3 (P 50 50) (P 75 50) (P 100 0))%float; back_lf; arch_qf].
Proof. vm_compute. reflexivity. Qed.
Example addExtremes_duplicate_float :
  addExtremes FOps [arch_qf; back_lf; arch_qf] =
  Ok [SQuad (Q3 (P 0 0) (P 25 50) (P 50 50))%float; SQuad (Q3 (P 50 50) (P 75 50) (P 100 0))%float; back_lf; arch_qf].
Proof. vm_compute. reflexivity. Qed.
(* the two requests [0.5; 0.5] collected under the one key: the second is remapped to mapx(0.5, 0.5) = 0 < 1e-8 and skipped *)
Example duplicate_requests_collapse_float : split_walk FOps arch_qf [0.5; 0.5]%float =
  Ok [SQuad (Q3 (P 0 0) (P 25 50) (P 50 50))%float; SQuad (Q3 (P 50 50) (P 75 50) (P 100 0))%float].
Proof. vm_compute. reflexivity. Qed.

(* ================================================================================================ *)
(* Part G.  The hypotheses are satisfiable                                                           *)
(* ================================================================================================ *)

Example well_separated_example : well_separated 0 [1/4; 1/2] /\ List.Forall (fun t => t < 1) [1/4; 1/2].
Proof.
  split; [|repeat constructor; lra]. simpl. unfold loc, eps8. repeat split; lra.
Qed.

(* the suite's arch cubic (0,0) (0,100) (100,100) (100,0) followed by a line back: no repeated value, genuine *)
Example monotone_hyps_example :
  let segs := [SCubic arch; SLine (L2 (P 100 0) (P 0 0))] in
  NoDup segs /\ (forall s, In s segs -> genuine_seg s) /\ chained segs.
Proof.
  cbn zeta. split; [|split].
  - constructor; [intros [H|[]]; discriminate H|]. constructor; [intros []|constructor].
  - intros s [<-|[<-|[]]]; [exact arch_genuine|exact I].
  - simpl. split; [reflexivity|exact I].
Qed.

Lemma kept_constant c : forall L, eps8 <= loc 0 c -> L <> [] -> (forall t, In t L -> t = c) -> In c (kept 0 L).
Proof.
  intros L Hc Hne Hall. destruct L as [|t r]; [contradiction|]. rewrite (Hall t (or_introl eq_refl)). cbn [kept].
  destruct (Rlt_dec (loc 0 c) eps8); [lra|left; reflexivity].
Qed.

(* ... and it satisfies the hypotheses of the exact theorem: its only extreme is t = 1/2 and x', y' do not vanish in
   the open end slivers, so both pieces of the arch are exactly monotone in x and y *)
Example arch_pieces_exactly_monotone :
  exists g, split_walk ROps (SCubic arch) (sort_ ROps (seg_extremes ROps (SCubic arch))) = Ok g /\
            forall p, In p g -> piece_mono_exact p.
Proof.
  set (L := sort_ ROps (seg_extremes ROps (SCubic arch))).
  assert (HL : forall t, In t L -> t = 1/2).
  { intros t Ht. unfold L in Ht. rewrite sort_in in Ht. apply arch_extremes. exact Ht. }
  destruct (split_walk_retraces (SCubic arch) L) as [g [Hg _]].
  { apply Forall_forall. intros t Ht. rewrite (HL t Ht). lra. }
  exists g. split; [exact Hg|]. apply (piece_monotone_exact (SCubic arch) g arch_genuine); [| |exact Hg].
  - intros r Hr. unfold simple_zero, dcpoly, coordA, coordB, coordC, cfA, cfB, cfC, arch. cbn [c0 c1 c2 c3 px py].
    split; intros [Hz _]; nra.
  - intros r Hr. fold L. apply arch_extremes in Hr. subst r. apply kept_constant.
    + unfold loc, eps8. lra.
    + intros E. assert (Hin : In (1/2) L) by (unfold L; rewrite sort_in; apply arch_extremes; reflexivity).
      rewrite E in Hin. exact Hin.
    + exact HL.
Qed.

(* ================================================================================================ *)
(* Part H.  The fuel of the model is never exhausted (any carrier, any request list)                  *)
(* ================================================================================================ *)
Lemma remap_length {T} (O : Ops T) ds l l' : remap O ds l = Ok l' -> length l' = length l.
Proof.
  destruct l as [|x l]; simpl.
  - intros H. inversion H. reflexivity.
  - destruct (eqb O (sub O (ofZ O 1) ds) (ofZ O 0)); intros H; inversion H. simpl. rewrite map_length. reflexivity.
Qed.
Lemma remap_not_fuel {T} (O : Ops T) ds l : remap O ds l <> OutOfFuel.
Proof. destruct l; simpl; [discriminate|]. destruct (eqb O _ _); discriminate. Qed.

Theorem split_walk_never_out_of_fuel :
  forall (T : Type) (O : Ops T) n seg ts, le (length ts) n -> split_walk_fuel O n seg ts <> OutOfFuel.
Proof.
  intros T O. induction n as [|n IH]; intros seg ts Hn.
  - destruct ts; [discriminate|simpl in Hn; lia].
  - destruct ts as [|t rest]; [discriminate|]. simpl in Hn. cbn [split_walk_fuel].
    destruct (ltb O t _); [apply IH; lia|].
    destruct (seg_split O seg t) as [s1 s2].
    destruct (remap O t rest) as [rest'| |] eqn:Er; [|discriminate|exfalso; apply (remap_not_fuel O t rest Er)].
    apply remap_length in Er.
    intros H. destruct (split_walk_fuel O n s2 rest') eqn:E; try discriminate.
    apply (IH s2 rest'); [lia|exact E].
Qed.
Corollary split_walk_fuel_enough {T} (O : Ops T) seg ts : split_walk O seg ts <> OutOfFuel.
Proof. apply split_walk_never_out_of_fuel. lia. Qed.
Theorem splitAtPoints_never_out_of_fuel :
  forall (T : Type) (O : Ops T) segs sl, splitAtPoints O segs sl <> OutOfFuel.
Proof.
  intros T O segs sl. unfold splitAtPoints. generalize (sort_values O (group O sl)). induction segs as [|s r IH]; intros d; cbn [walk_path]; [discriminate|].
  destruct (dict_take O d s) as [[tl d']|].
  - destruct (split_walk O s tl) eqn:E; [|discriminate|exfalso; apply (split_walk_fuel_enough O s tl E)].
    specialize (IH d'). destruct (walk_path O d' r); simpl; try discriminate. contradiction.
  - specialize (IH d). destruct (walk_path O d r); simpl; try discriminate. contradiction.
Qed.
