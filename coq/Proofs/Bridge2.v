(* Bridge, second part: the data-dependent `while` loops and the path-level list code (properties C16/C17 rest on them).

   Hand/Sample.v models   SampleMixin.sample / regularSampleTValue / regularSample   by structurally different fixpoints
   (results built with cons on the way back, exceptions as values of [res], one fuel per loop, the inner `pop` loop
   structural); Gen/Sample.v is REGENERATED from the Python text by tools/py2v.py: one fuelled Fixpoint per `while`
   (accumulators appended with ++, None = out of fuel, a single fuel budget handed to every loop invocation) and
   [option (outcome _)] results.  The lemmas below state, for EVERY scalar carrier [O : Ops T], that the two agree:

       res_of (Gen.X_f O fuel s args) = Hand.f O <receiver X> fuel fuel args

   -- the same value, the same exception, and out of fuel on one side iff on the other.  The loops are structured
   differently, so the relation is proved by induction on the fuel (generalised over the accumulator).

   Two facts about the carrier are needed, because the Python text writes `1.0` / `0.0` (a [lit]) where the hand model
   writes the integers 1 / 0 ([ofZ]):  lit O 1 1 _ = ofZ O 1  and  lit O 0 1 _ = ofZ O 0.  They hold for both carriers in
   use ([lit_ok_R], [lit_ok_F]) and are hypotheses of the section, not axioms.  ZeroDivisionError (`1.0 / float(samples)`,
   `length / samples` with samples == 0) is a value of the hand model only (everywhere in Gen `/` is the total [dvd]),
   so the statements carry  eqb O samples 0 = false. *)
From Coq Require Import PrimFloat.
From Coq Require Import ZArith List Bool Lia Reals.
Import ListNotations.
From BZ Require Import Base.Ops Gen.Point Gen.Line Gen.Quad Gen.Cubic Gen.Sample.
From BZ Require Import Hand.Sample.

(* ---------- results: generated (option / outcome) -> hand (res) ---------- *)
(* [PyAssertionError] / [PyNoneError] (added to [pyexc] for the recursive drivers of Gen/CurveCurve.v, Proofs/Bridge4.v) and
   [PyUnboundLocalError] (added for BezierPath.distanceToPath, Gen/PathOps.v, Proofs/Bridge5.v), [PyZeroDivisionError] /
   [PyTypeError] (added for the curve fitter, Gen/Fit.v, Proofs/Bridge6.v), [PyConvertError] / [PyClipperError] (pyclipper, Gen/Clip.v) are raised by no
   definition of Gen/Sample.v; Hand/Sample.v has no counterpart, any value will do here *)
Definition exc_of (e : pyexc) : exc :=
  match e with PyIndexError => IndexError | PyValueError => ValueError | PyOverflowError => OverflowError
             | PyAssertionError | PyNoneError | PyUnboundLocalError | PyZeroDivisionError | PyTypeError | PyConvertError | PyClipperError => ValueError end.
Definition res_of_fuel {A : Type} (r : option A) : res A :=
  match r with None => Raise OutOfFuel | Some a => Ok a end.
Definition res_of_outcome {A : Type} (r : outcome A) : res A :=
  match r with Returns a => Ok a | Raises e => Raise (exc_of e) end.
Definition res_of {A : Type} (r : option (outcome A)) : res A :=
  match r with None => Raise OutOfFuel | Some o => res_of_outcome o end.

Lemma last_error_opt {A : Type} (l : list A) : last_error l = last_opt l.
Proof. induction l as [|a [|b r] IH]; [reflexivity|reflexivity|]. exact IH. Qed.

Lemma mapM_total {A B : Type} (f : A -> B) (l : list A) : mapM (fun a => Ok (f a)) l = Ok (map f l).
Proof. induction l as [|a l IH]; [reflexivity|]. cbn [mapM map bind]. rewrite IH. reflexivity. Qed.

(* the literals of the two carriers *)
Definition lit_ok {T : Type} (O : Ops T) : Prop :=
  lit O 1 1 0x1p+0%float = ofZ O 1 /\ lit O 0 1 0x0p+0%float = ofZ O 0.
Lemma lit_ok_R : lit_ok ROps.
Proof. split; cbn; [field|unfold Rdiv; ring]. Qed.
Lemma lit_ok_F : lit_ok FOps.
Proof. split; reflexivity. Qed.

(* ====================================================================================================== *)
(* 1. The three loops, generically: any functions satisfying the unfolding equations of the generated      *)
(*    Fixpoints (each instance below discharges them by computation) agree with the hand loops.            *)
Section Loops.
Context {T : Type} (O : Ops T).
Hypothesis lits : lit_ok O.
Let l1 : T := lit O 1 1 0x1p+0%float.
Let l0 : T := lit O 0 1 0x0p+0%float.
Lemma l1_one : l1 = one O. Proof. exact (proj1 lits). Qed.
Lemma l0_zero : l0 = zero O. Proof. exact (proj2 lits). Qed.

(* ---------------- sample ---------------- *)
Section SampleLoop.
Variable pa : T -> pt T.                                                   (* self.pointAtTime, total *)
Variable loop : nat -> T -> list (pt T) -> T -> option (list (pt T) * T).  (* X_sample_loop1 O ^~ self *)
Hypothesis loop_eq : forall fuel step acc t,
  loop fuel step acc t =
  match fuel with
  | 0%nat => None
  | S f => if leb O t l1 then loop f step (acc ++ [pa t]) (add O t step) else Some (acc, t)
  end.
Variable gsample : nat -> T -> option (list (pt T)).                      (* X_sample O ^~ self *)
Hypothesis gsample_eq : forall fuel samples,
  gsample fuel samples =
  match loop fuel (dvd O l1 samples) [] l0 with
  | None => None
  | Some (l, t) => Some (if neqb O t l1 then l ++ [pa (ofZ O 1)] else l)
  end.

Lemma sample_loop_spec : forall fuel step acc t,
  match loop fuel step acc t with
  | None => sample_loop O (fun t => Ok (pa t)) fuel step t = Raise OutOfFuel
  | Some (acc', t') => exists mid, acc' = acc ++ mid /\
      sample_loop O (fun t => Ok (pa t)) fuel step t = Ok (mid ++ (if neqb O t' (one O) then [pa (one O)] else []))
  end.
Proof.
  induction fuel as [|f IH]; intros step acc t; rewrite loop_eq; cbn [sample_loop]; [reflexivity|].
  rewrite l1_one. destruct (leb O t (one O)).
  - specialize (IH step (acc ++ [pa t]) (add O t step)).
    destruct (loop f step (acc ++ [pa t]) (add O t step)) as [[acc' t']|]; cbn [bind].
    + destruct IH as [mid [-> H]]. exists (pa t :: mid). split; [rewrite <- app_assoc; reflexivity|].
      rewrite H. reflexivity.
    + rewrite IH. reflexivity.
  - exists []. rewrite app_nil_r. split; [reflexivity|]. destruct (neqb O t (one O)); reflexivity.
Qed.

Theorem sample_generic fuel samples : eqb O samples (zero O) = false ->
  res_of_fuel (gsample fuel samples) = Hand.Sample.sample O (fun t => Ok (pa t)) fuel samples.
Proof.
  intro Hs. unfold Hand.Sample.sample. rewrite Hs, gsample_eq.
  pose proof (sample_loop_spec fuel (dvd O l1 samples) [] l0) as H.
  rewrite l1_one, l0_zero in *.
  destruct (loop fuel (dvd O (one O) samples) [] (zero O)) as [[l t]|]; cbn [res_of_fuel].
  - destruct H as [mid [-> H]]. rewrite H. cbn [app]. unfold one at 3. destruct (neqb O t (one O)); [reflexivity|rewrite app_nil_r; reflexivity].
  - symmetry; exact H.
Qed.
End SampleLoop.

(* ---------------- regularSampleTValue / regularSample ---------------- *)
Section RegularLoops.
Variable pa : T -> pt T.                   (* self.pointAtTime *)
Variable la : T -> T.                      (* self.lengthAtTime *)
Variable len : T.                          (* self.length *)
Variable loop1 : nat -> T -> list (T * T) -> T -> option (list (T * T) * T).
Variable loop3 : nat -> T -> list (T * T) -> option (list (T * T)).
Variable loop2 : nat -> nat -> T -> list (T * T) -> list T -> T -> option (list (T * T) * list T * T).
Hypothesis loop1_eq : forall fuel step lut t,
  loop1 fuel step lut t =
  match fuel with
  | 0%nat => None
  | S f => if leb O t l1 then loop1 f step (lut ++ [(t, la t)]) (add O t step) else Some (lut, t)
  end.
Hypothesis loop3_eq : forall fuel d lut,
  loop3 fuel d lut =
  match fuel with
  | 0%nat => None
  | S f => match lut with
           | [] => Some lut
           | h :: tl => if ltb O (snd h) d then loop3 f d tl else Some (h :: tl)
           end
  end.
Hypothesis loop2_eq : forall fuel0 fuel samples lut rs d,
  loop2 fuel0 fuel samples lut rs d =
  match fuel with
  | 0%nat => None
  | S f => if ltb O d len then
             match loop3 fuel0 d lut with
             | None => None
             | Some lut' => match lut' with
                            | [] => Some ([], rs, d)
                            | h :: tl => loop2 fuel0 f samples (h :: tl) (rs ++ [fst h]) (add O d (dvd O len samples))
                            end
             end
           else Some (lut, rs, d)
  end.
Variable greg : nat -> T -> option (outcome (list T)).
Hypothesis greg_eq : forall fuel samples,
  greg fuel samples =
  if eqb O len (ofZ O 0) then Some (Returns [])
  else match loop1 fuel (dvd O l1 len) [] (ofZ O 0) with
       | None => None
       | Some (lut, _) =>
           match loop2 fuel fuel samples lut [] l0 with
           | None => None
           | Some (_, rs, _) =>
               match last_error rs with
               | None => Some (Raises PyIndexError)
               | Some x => Some (Returns (if neqb O x l1 then rs ++ [l1] else rs))
               end
           end
       end.
Variable gregS : nat -> T -> option (outcome (list (pt T))).
Hypothesis gregS_eq : forall fuel samples,
  gregS fuel samples =
  match greg fuel samples with
  | None => None
  | Some (Raises e) => Some (Raises e)
  | Some (Returns r) => Some (Returns (map pa r))
  end.

Let la' : T -> res T := fun t => Ok (la t).

Lemma lut_loop_spec : forall fuel step acc t,
  match loop1 fuel step acc t with
  | None => lut_loop O la' fuel step t = Raise OutOfFuel
  | Some (acc', _) => exists mid, acc' = acc ++ mid /\ lut_loop O la' fuel step t = Ok mid /\ (length mid < fuel)%nat
  end.
Proof.
  induction fuel as [|f IH]; intros step acc t; rewrite loop1_eq; cbn [lut_loop]; [reflexivity|].
  rewrite l1_one. destruct (leb O t (one O)).
  - specialize (IH step (acc ++ [(t, la t)]) (add O t step)). unfold la' at 1. cbn [bind].
    destruct (loop1 f step (acc ++ [(t, la t)]) (add O t step)) as [[acc' t']|].
    + destruct IH as [mid [-> [H Hl]]]. exists ((t, la t) :: mid). split; [rewrite <- app_assoc; reflexivity|].
      rewrite H. split; [reflexivity|]. cbn [length]. lia.
    + rewrite IH. reflexivity.
  - exists []. rewrite app_nil_r. repeat split. cbn [length]. lia.
Qed.

Lemma pop_while_length (lut : list (T * T)) (d : T) : (length (pop_while O lut d) <= length lut)%nat.
Proof.
  induction lut as [|[t v] r IH]; [apply le_n|]. cbn [pop_while]. destruct (ltb O v d); cbn [length] in *; lia.
Qed.

Lemma pop_spec : forall fuel d lut, (length lut < fuel)%nat -> loop3 fuel d lut = Some (pop_while O lut d).
Proof.
  induction fuel as [|f IH]; intros d lut Hl; [lia|]. rewrite loop3_eq.
  destruct lut as [|[t v] r]; [reflexivity|]. cbn [snd pop_while]. cbn [length] in Hl.
  destruct (ltb O v d); [apply IH; lia|reflexivity].
Qed.

Lemma walk_spec : forall fuel fuel0 samples lut rs d, eqb O samples (zero O) = false -> (length lut < fuel0)%nat ->
  match loop2 fuel0 fuel samples lut rs d with
  | None => walk O len fuel samples lut d = Raise OutOfFuel
  | Some (_, rs', _) => exists mid, rs' = rs ++ mid /\ walk O len fuel samples lut d = Ok mid
  end.
Proof.
  induction fuel as [|f IH]; intros fuel0 samples lut rs d Hs Hl; rewrite loop2_eq; cbn [walk]; [reflexivity|].
  destruct (ltb O d len).
  - rewrite (pop_spec fuel0 d lut Hl). pose proof (pop_while_length lut d) as Hp.
    destruct (pop_while O lut d) as [|[t v] r] eqn:E.
    + exists []. rewrite app_nil_r. split; reflexivity.
    + rewrite Hs. cbn [fst].
      specialize (IH fuel0 samples ((t, v) :: r) (rs ++ [t]) (add O d (dvd O len samples)) Hs ltac:(lia)).
      destruct (loop2 fuel0 f samples ((t, v) :: r) (rs ++ [t]) (add O d (dvd O len samples))) as [[[lut' rs'] d']|]; cbn [bind].
      * destruct IH as [mid [-> H]]. exists (t :: mid). split; [rewrite <- app_assoc; reflexivity|]. rewrite H. reflexivity.
      * rewrite IH. reflexivity.
  - exists []. rewrite app_nil_r. split; reflexivity.
Qed.

Theorem regularSampleTValue_generic fuel samples : eqb O samples (zero O) = false ->
  res_of (greg fuel samples) = regularSampleTValue O la' len fuel fuel samples.
Proof.
  intro Hs. unfold regularSampleTValue. rewrite greg_eq. fold (zero O).
  destruct (eqb O len (zero O)); [reflexivity|].
  pose proof (lut_loop_spec fuel (dvd O l1 len) [] (zero O)) as H1. rewrite l1_one in H1.
  rewrite l1_one, l0_zero.
  destruct (loop1 fuel (dvd O (one O) len) [] (zero O)) as [[lut t]|]; [|rewrite H1; reflexivity].
  destruct H1 as [mid [-> [H1 Hl]]]. cbn [app]. rewrite H1. cbn [bind].
  pose proof (walk_spec fuel fuel samples mid [] (zero O) Hs Hl) as H2.
  destruct (loop2 fuel fuel samples mid [] (zero O)) as [[[lut' rs] d']|]; [|rewrite H2; reflexivity].
  destruct H2 as [mid2 [-> H2]]. cbn [app]. rewrite H2. cbn [bind]. rewrite last_error_opt.
  destruct (last_opt mid2) as [x|]; [|reflexivity]. cbn [res_of res_of_outcome].
  destruct (neqb O x (one O)); reflexivity.
Qed.

Theorem regularSample_generic fuel samples : eqb O samples (zero O) = false ->
  res_of (gregS fuel samples) = regularSample O (fun t => Ok (pa t)) la' len fuel fuel samples.
Proof.
  intro Hs. unfold regularSample. rewrite <- (regularSampleTValue_generic fuel samples Hs), gregS_eq.
  destruct (greg fuel samples) as [[r|e]|]; cbn [res_of res_of_outcome bind]; [|reflexivity|reflexivity].
  rewrite mapM_total. reflexivity.
Qed.
End RegularLoops.
End Loops.

(* ====================================================================================================== *)
(* 2. utils/samplemixin.py for the three classes of segment: the regenerated definitions of Gen/Sample.v    *)
Section SegmentSampling.
Context {T : Type} (O : Ops T).
Hypothesis lits : lit_ok O.

Ltac by_sample_generic pa loop g :=
  let Hs := fresh in intro Hs;
  apply (sample_generic O lits pa loop ltac:(intros [|?] ? ? ?; reflexivity) g ltac:(intros; reflexivity) _ _ Hs).

Theorem Line_sample_gen fuel (s : seg2 T) samples : eqb O samples (zero O) = false ->
  res_of_fuel (Line_sample O fuel s samples) = Hand.Sample.sample O (fun t => Ok (Line_pointAtTime O s t)) fuel samples.
Proof.
  by_sample_generic (Line_pointAtTime O s) (fun fuel step acc t => Line_sample_loop1 O fuel s step acc t)
                    (fun fuel samples => Line_sample O fuel s samples).
Qed.
Theorem Quad_sample_gen fuel (s : seg3 T) samples : eqb O samples (zero O) = false ->
  res_of_fuel (Quad_sample O fuel s samples) = Hand.Sample.sample O (fun t => Ok (Quad_pointAtTime O s t)) fuel samples.
Proof.
  by_sample_generic (Quad_pointAtTime O s) (fun fuel step acc t => Quad_sample_loop1 O fuel s step acc t)
                    (fun fuel samples => Quad_sample O fuel s samples).
Qed.
Theorem Cubic_sample_gen fuel (s : seg4 T) samples : eqb O samples (zero O) = false ->
  res_of_fuel (Cubic_sample O fuel s samples) = Hand.Sample.sample O (fun t => Ok (Cubic_pointAtTime O s t)) fuel samples.
Proof.
  by_sample_generic (Cubic_pointAtTime O s) (fun fuel step acc t => Cubic_sample_loop1 O fuel s step acc t)
                    (fun fuel samples => Cubic_sample O fuel s samples).
Qed.

Theorem Line_regularSampleTValue_gen fuel (s : seg2 T) samples : eqb O samples (zero O) = false ->
  res_of (Line_regularSampleTValue O fuel s samples)
  = regularSampleTValue O (fun t => Ok (Line_lengthAtTime O s t)) (Line_length O s) fuel fuel samples.
Proof.
  intro Hs.
  exact (regularSampleTValue_generic O lits (Line_lengthAtTime O s) (Line_length O s)
    (fun fuel step lut t => Line_regularSampleTValue_loop1 O fuel s step lut t)
    (fun fuel d lut => Line_regularSampleTValue_loop3 O fuel d lut)
    (fun fuel0 fuel samples lut rs d => Line_regularSampleTValue_loop2 O fuel0 fuel (Line_length O s) samples lut rs d)
    ltac:(intros [|?] ? ? ?; reflexivity) ltac:(intros [|?] ? ?; reflexivity) ltac:(intros ? [|?] ? ? ? ?; reflexivity)
    (fun fuel samples => Line_regularSampleTValue O fuel s samples) ltac:(intros; reflexivity) fuel samples Hs).
Qed.
Theorem Line_regularSample_gen fuel (s : seg2 T) samples : eqb O samples (zero O) = false ->
  res_of (Line_regularSample O fuel s samples)
  = regularSample O (fun t => Ok (Line_pointAtTime O s t)) (fun t => Ok (Line_lengthAtTime O s t)) (Line_length O s) fuel fuel samples.
Proof.
  intro Hs.
  exact (regularSample_generic O lits (Line_pointAtTime O s) (Line_lengthAtTime O s) (Line_length O s)
    (fun fuel step lut t => Line_regularSampleTValue_loop1 O fuel s step lut t)
    (fun fuel d lut => Line_regularSampleTValue_loop3 O fuel d lut)
    (fun fuel0 fuel samples lut rs d => Line_regularSampleTValue_loop2 O fuel0 fuel (Line_length O s) samples lut rs d)
    ltac:(intros [|?] ? ? ?; reflexivity) ltac:(intros [|?] ? ?; reflexivity) ltac:(intros ? [|?] ? ? ? ?; reflexivity)
    (fun fuel samples => Line_regularSampleTValue O fuel s samples) ltac:(intros; reflexivity)
    (fun fuel samples => Line_regularSample O fuel s samples) ltac:(intros; reflexivity) fuel samples Hs).
Qed.
Theorem Quad_regularSampleTValue_gen fuel (s : seg3 T) samples : eqb O samples (zero O) = false ->
  res_of (Quad_regularSampleTValue O fuel s samples)
  = regularSampleTValue O (fun t => Ok (Quad_lengthAtTime O s t)) (Quad_length O s) fuel fuel samples.
Proof.
  intro Hs.
  exact (regularSampleTValue_generic O lits (Quad_lengthAtTime O s) (Quad_length O s)
    (fun fuel step lut t => Quad_regularSampleTValue_loop1 O fuel s step lut t)
    (fun fuel d lut => Quad_regularSampleTValue_loop3 O fuel d lut)
    (fun fuel0 fuel samples lut rs d => Quad_regularSampleTValue_loop2 O fuel0 fuel (Quad_length O s) samples lut rs d)
    ltac:(intros [|?] ? ? ?; reflexivity) ltac:(intros [|?] ? ?; reflexivity) ltac:(intros ? [|?] ? ? ? ?; reflexivity)
    (fun fuel samples => Quad_regularSampleTValue O fuel s samples) ltac:(intros; reflexivity) fuel samples Hs).
Qed.
Theorem Quad_regularSample_gen fuel (s : seg3 T) samples : eqb O samples (zero O) = false ->
  res_of (Quad_regularSample O fuel s samples)
  = regularSample O (fun t => Ok (Quad_pointAtTime O s t)) (fun t => Ok (Quad_lengthAtTime O s t)) (Quad_length O s) fuel fuel samples.
Proof.
  intro Hs.
  exact (regularSample_generic O lits (Quad_pointAtTime O s) (Quad_lengthAtTime O s) (Quad_length O s)
    (fun fuel step lut t => Quad_regularSampleTValue_loop1 O fuel s step lut t)
    (fun fuel d lut => Quad_regularSampleTValue_loop3 O fuel d lut)
    (fun fuel0 fuel samples lut rs d => Quad_regularSampleTValue_loop2 O fuel0 fuel (Quad_length O s) samples lut rs d)
    ltac:(intros [|?] ? ? ?; reflexivity) ltac:(intros [|?] ? ?; reflexivity) ltac:(intros ? [|?] ? ? ? ?; reflexivity)
    (fun fuel samples => Quad_regularSampleTValue O fuel s samples) ltac:(intros; reflexivity)
    (fun fuel samples => Quad_regularSample O fuel s samples) ltac:(intros; reflexivity) fuel samples Hs).
Qed.
Theorem Cubic_regularSampleTValue_gen fuel (s : seg4 T) samples : eqb O samples (zero O) = false ->
  res_of (Cubic_regularSampleTValue O fuel s samples)
  = regularSampleTValue O (fun t => Ok (Cubic_lengthAtTime O s t)) (Cubic_length O s) fuel fuel samples.
Proof.
  intro Hs.
  exact (regularSampleTValue_generic O lits (Cubic_lengthAtTime O s) (Cubic_length O s)
    (fun fuel step lut t => Cubic_regularSampleTValue_loop1 O fuel s step lut t)
    (fun fuel d lut => Cubic_regularSampleTValue_loop3 O fuel d lut)
    (fun fuel0 fuel samples lut rs d => Cubic_regularSampleTValue_loop2 O fuel0 fuel (Cubic_length O s) samples lut rs d)
    ltac:(intros [|?] ? ? ?; reflexivity) ltac:(intros [|?] ? ?; reflexivity) ltac:(intros ? [|?] ? ? ? ?; reflexivity)
    (fun fuel samples => Cubic_regularSampleTValue O fuel s samples) ltac:(intros; reflexivity) fuel samples Hs).
Qed.
Theorem Cubic_regularSample_gen fuel (s : seg4 T) samples : eqb O samples (zero O) = false ->
  res_of (Cubic_regularSample O fuel s samples)
  = regularSample O (fun t => Ok (Cubic_pointAtTime O s t)) (fun t => Ok (Cubic_lengthAtTime O s t)) (Cubic_length O s) fuel fuel samples.
Proof.
  intro Hs.
  exact (regularSample_generic O lits (Cubic_pointAtTime O s) (Cubic_lengthAtTime O s) (Cubic_length O s)
    (fun fuel step lut t => Cubic_regularSampleTValue_loop1 O fuel s step lut t)
    (fun fuel d lut => Cubic_regularSampleTValue_loop3 O fuel d lut)
    (fun fuel0 fuel samples lut rs d => Cubic_regularSampleTValue_loop2 O fuel0 fuel (Cubic_length O s) samples lut rs d)
    ltac:(intros [|?] ? ? ?; reflexivity) ltac:(intros [|?] ? ?; reflexivity) ltac:(intros ? [|?] ? ? ? ?; reflexivity)
    (fun fuel samples => Cubic_regularSampleTValue O fuel s samples) ltac:(intros; reflexivity)
    (fun fuel samples => Cubic_regularSample O fuel s samples) ltac:(intros; reflexivity) fuel samples Hs).
Qed.

(* dispatch on the class of the segment, as Hand/Sample.v does *)
Definition gen_seg_sample (fuel : nat) (s : segment T) (samples : T) : option (list (pt T)) :=
  match s with SLine l => Line_sample O fuel l samples | SQuad q => Quad_sample O fuel q samples | SCubic c => Cubic_sample O fuel c samples end.
Definition gen_seg_regularSampleTValue (fuel : nat) (s : segment T) (samples : T) : option (outcome (list T)) :=
  match s with SLine l => Line_regularSampleTValue O fuel l samples | SQuad q => Quad_regularSampleTValue O fuel q samples
             | SCubic c => Cubic_regularSampleTValue O fuel c samples end.
Definition gen_seg_regularSample (fuel : nat) (s : segment T) (samples : T) : option (outcome (list (pt T))) :=
  match s with SLine l => Line_regularSample O fuel l samples | SQuad q => Quad_regularSample O fuel q samples
             | SCubic c => Cubic_regularSample O fuel c samples end.

Theorem seg_sample_fuel_gen fuel (s : segment T) samples : eqb O samples (zero O) = false ->
  res_of_fuel (gen_seg_sample fuel s samples) = Hand.Sample.sample O (fun t => Ok (seg_pointAt O s t)) fuel samples.
Proof. destruct s; [apply Line_sample_gen|apply Quad_sample_gen|apply Cubic_sample_gen]. Qed.
Theorem seg_regularSampleTValue_fuel_gen fuel (s : segment T) samples : eqb O samples (zero O) = false ->
  res_of (gen_seg_regularSampleTValue fuel s samples)
  = regularSampleTValue O (fun t => Ok (seg_lengthAt O s t)) (seg_length O s) fuel fuel samples.
Proof. destruct s; [apply Line_regularSampleTValue_gen|apply Quad_regularSampleTValue_gen|apply Cubic_regularSampleTValue_gen]. Qed.
Theorem seg_regularSample_fuel_gen fuel (s : segment T) samples : eqb O samples (zero O) = false ->
  res_of (gen_seg_regularSample fuel s samples)
  = regularSample O (fun t => Ok (seg_pointAt O s t)) (fun t => Ok (seg_lengthAt O s t)) (seg_length O s) fuel fuel samples.
Proof. destruct s; [apply Line_regularSample_gen|apply Quad_regularSample_gen|apply Cubic_regularSample_gen]. Qed.

(* Hand/Sample.v's seg_sample computes its own fuel from the arguments: the same number given to the generated definition *)
Theorem seg_sample_gen cap (s : segment T) samples : eqb O samples (zero O) = false ->
  seg_sample O cap s samples = res_of_fuel (gen_seg_sample (fuel_of O cap samples + 3) s samples).
Proof. intro Hs. unfold seg_sample, sample_auto. symmetry. apply seg_sample_fuel_gen, Hs. Qed.
End SegmentSampling.

(* ====================================================================================================== *)
(* 3. Fuel is only fuel: a hand loop that finished (did not run out of fuel) gives the same result with     *)
(*    more.  Hand/Sample.v's *_auto functions hand DIFFERENT fuels to the two loops of regularSampleTValue  *)
(*    (computed from length and samples); the generated definition has one budget: any budget at least as   *)
(*    large as both gives the result of the hand model whenever the hand model finished.                    *)
Section Monotone.
Context {T : Type} (O : Ops T).
Definition finished {A : Type} (r : res A) : Prop := r <> Raise OutOfFuel.

Lemma finished_bind {A B : Type} (r : res A) (k : A -> res B) : finished (bind r k) -> finished r.
Proof. unfold finished. destruct r as [a|e]; intro H; [discriminate|]. intro E. apply H. injection E as ->. reflexivity. Qed.

Lemma sample_loop_mono (pa : T -> res (pt T)) : forall f f' step t, (f <= f')%nat ->
  finished (sample_loop O pa f step t) -> sample_loop O pa f' step t = sample_loop O pa f step t.
Proof.
  induction f as [|f IH]; intros f' step t Hle Hf; [exfalso; apply Hf; reflexivity|].
  destruct f' as [|f']; [lia|]. cbn [sample_loop] in *. destruct (leb O t (one O)); [|reflexivity].
  destruct (pa t) as [p|e]; cbn [bind] in *; [|reflexivity].
  rewrite (IH f' step (add O t step) ltac:(lia) (finished_bind _ _ Hf)). reflexivity.
Qed.

Lemma lut_loop_mono (la : T -> res T) : forall f f' step t, (f <= f')%nat ->
  finished (lut_loop O la f step t) -> lut_loop O la f' step t = lut_loop O la f step t.
Proof.
  induction f as [|f IH]; intros f' step t Hle Hf; [exfalso; apply Hf; reflexivity|].
  destruct f' as [|f']; [lia|]. cbn [lut_loop] in *. destruct (leb O t (one O)); [|reflexivity].
  destruct (la t) as [v|e]; cbn [bind] in *; [|reflexivity].
  rewrite (IH f' step (add O t step) ltac:(lia) (finished_bind _ _ Hf)). reflexivity.
Qed.

Lemma walk_mono (len : T) : forall f f' samples lut d, (f <= f')%nat ->
  finished (walk O len f samples lut d) -> walk O len f' samples lut d = walk O len f samples lut d.
Proof.
  induction f as [|f IH]; intros f' samples lut d Hle Hf; [exfalso; apply Hf; reflexivity|].
  destruct f' as [|f']; [lia|]. cbn [walk] in *. destruct (ltb O d len); [|reflexivity].
  destruct (pop_while O lut d) as [|[t v] r]; [reflexivity|].
  destruct (eqb O samples (zero O)); [reflexivity|].
  rewrite (IH f' samples ((t, v) :: r) _ ltac:(lia) (finished_bind _ _ Hf)). reflexivity.
Qed.

Lemma sample_mono (pa : T -> res (pt T)) f f' samples : (f <= f')%nat ->
  finished (Hand.Sample.sample O pa f samples) -> Hand.Sample.sample O pa f' samples = Hand.Sample.sample O pa f samples.
Proof. unfold Hand.Sample.sample. destruct (eqb O samples (zero O)); [reflexivity|]. apply sample_loop_mono. Qed.

Lemma regularSampleTValue_mono (la : T -> res T) (len : T) f1 f2 f1' f2' samples : (f1 <= f1')%nat -> (f2 <= f2')%nat ->
  finished (regularSampleTValue O la len f1 f2 samples) ->
  regularSampleTValue O la len f1' f2' samples = regularSampleTValue O la len f1 f2 samples.
Proof.
  intros H1 H2. unfold regularSampleTValue. destruct (eqb O len (zero O)); [reflexivity|]. intro Hf.
  rewrite (lut_loop_mono la f1 f1' _ _ H1 (finished_bind _ _ Hf)).
  destruct (lut_loop O la f1 (dvd O (one O) len) (zero O)) as [lut|e]; cbn [bind] in *; [|reflexivity].
  rewrite (walk_mono len f2 f2' samples lut (zero O) H2 (finished_bind _ _ Hf)). reflexivity.
Qed.

Lemma regularSample_mono (pa : T -> res (pt T)) (la : T -> res T) (len : T) f1 f2 f1' f2' samples : (f1 <= f1')%nat -> (f2 <= f2')%nat ->
  finished (regularSampleTValue O la len f1 f2 samples) ->
  regularSample O pa la len f1' f2' samples = regularSample O pa la len f1 f2 samples.
Proof. intros H1 H2 Hf. unfold regularSample. rewrite (regularSampleTValue_mono la len f1 f2 f1' f2' samples H1 H2 Hf). reflexivity. Qed.

Hypothesis lits : lit_ok O.

Theorem seg_regularSampleTValue_gen cap (s : segment T) samples fuel : eqb O samples (zero O) = false ->
  (fuel_of O cap (seg_length O s) + 3 <= fuel)%nat -> (fuel_of O cap samples + 3 <= fuel)%nat ->
  finished (seg_regularSampleTValue O cap s samples) ->
  seg_regularSampleTValue O cap s samples = res_of (gen_seg_regularSampleTValue O fuel s samples).
Proof.
  intros Hs H1 H2 Hf. rewrite (seg_regularSampleTValue_fuel_gen O lits fuel s samples Hs).
  unfold seg_regularSampleTValue, regularSampleTValue_auto in *. symmetry. apply regularSampleTValue_mono; assumption.
Qed.

Theorem seg_regularSample_gen cap (s : segment T) samples fuel : eqb O samples (zero O) = false ->
  (fuel_of O cap (seg_length O s) + 3 <= fuel)%nat -> (fuel_of O cap samples + 3 <= fuel)%nat ->
  finished (seg_regularSampleTValue O cap s samples) ->
  seg_regularSample O cap s samples = res_of (gen_seg_regularSample O fuel s samples).
Proof.
  intros Hs H1 H2 Hf. rewrite (seg_regularSample_fuel_gen O lits fuel s samples Hs).
  unfold seg_regularSample, regularSample_auto, seg_regularSampleTValue, regularSampleTValue_auto in *. symmetry.
  apply regularSample_mono; assumption.
Qed.
End Monotone.

(* ====================================================================================================== *)
(* 4. path/__init__.py: BezierPath.length, pointAtTime, lengthAtTime over [list (segment T)].               *)
(*    The generated definitions re-evaluate math.floor(t) at each of its occurrences in the Python text     *)
(*    (each with its ValueError / OverflowError test), the hand model binds it once; the list helpers of    *)
(*    the generated prelude are the ones of the hand model.                                                 *)
Section PathBridge.
Context {T : Type} (O : Ops T).

Lemma nth_T_gen {A : Type} (l : list A) : forall k, Gen.Sample.nth_T O l k = Hand.Sample.nth_T O l k.
Proof. induction l as [|a l IH]; intro k; [reflexivity|]. cbn [Gen.Sample.nth_T Hand.Sample.nth_T]. rewrite IH. reflexivity. Qed.
Lemma take_T_gen {A : Type} (l : list A) : forall k, Gen.Sample.take_T O l k = Hand.Sample.take_T O l k.
Proof. induction l as [|a l IH]; intro k; [reflexivity|]. cbn [Gen.Sample.take_T Hand.Sample.take_T]. rewrite IH. reflexivity. Qed.
Lemma drop_T_gen {A : Type} (l : list A) : forall k, Gen.Sample.drop_T O l k = Hand.Sample.drop_T O l k.
Proof. induction l as [|a l IH]; intro k; [reflexivity|]. cbn [Gen.Sample.drop_T Hand.Sample.drop_T]. rewrite IH. reflexivity. Qed.
Lemma py_index_gen {A : Type} (l : list A) k : Gen.Sample.py_index O l k = Hand.Sample.py_index O l k.
Proof. unfold Gen.Sample.py_index, Hand.Sample.py_index. rewrite !nth_T_gen. reflexivity. Qed.
Lemma py_slice_to_gen {A : Type} (l : list A) k : Gen.Sample.py_slice_to O l k = Hand.Sample.py_slice_to O l k.
Proof. unfold Gen.Sample.py_slice_to, Hand.Sample.py_slice_to. rewrite drop_T_gen, take_T_gen. reflexivity. Qed.

Theorem Path_length_gen (segs : list (segment T)) : Path_length O segs = path_length O segs.
Proof. reflexivity. Qed.

Hypothesis lits : lit_ok O.

Theorem Path_pointAtTime_gen (segs : list (segment T)) (t : T) :
  res_of_outcome (Path_pointAtTime O segs t) = path_pointAtTime O segs t.
Proof.
  unfold Path_pointAtTime, path_pointAtTime. rewrite (proj1 lits). fold (one O).
  destruct (eqb O t (one O)).
  - rewrite last_error_opt. destruct (last_opt segs) as [s|]; [|reflexivity]. destruct s; reflexivity.
  - cbv zeta. unfold py_floor.
    destruct (negb (eqb O _ _)); [reflexivity|]. destruct (isinf_ O _); [reflexivity|]. cbn [bind].
    rewrite py_index_gen. destruct (Hand.Sample.py_index O segs _) as [s|]; [|reflexivity]. destruct s; reflexivity.
Qed.

Theorem Path_lengthAtTime_gen (segs : list (segment T)) (t : T) :
  res_of_outcome (Path_lengthAtTime O segs t) = path_lengthAtTime O segs t.
Proof.
  unfold Path_lengthAtTime, path_lengthAtTime. rewrite (proj1 lits). fold (one O).
  destruct (eqb O t (one O)); [reflexivity|].
  cbv zeta. unfold py_floor.
  destruct (negb (eqb O _ _)); [reflexivity|]. destruct (isinf_ O _); [reflexivity|]. cbn [bind].
  rewrite py_index_gen, py_slice_to_gen. destruct (Hand.Sample.py_index O segs _) as [s|]; [|reflexivity].
  destruct s as [l|q|c]; cbn [seg_lengthAt res_of_outcome].
  - unfold Line_lengthAtTime. destruct (Line_splitAtTime O l _); reflexivity.
  - unfold Quad_lengthAtTime. destruct (Quad_splitAtTime O q _); reflexivity.
  - unfold Cubic_lengthAtTime. destruct (Cubic_splitAtTime O c _); reflexivity.
Qed.
End PathBridge.

(* ====================================================================================================== *)
(* 5. The flatteners: Line.flatten, QuadraticBezier.flatten (via sample), CubicBezier.flatten (via          *)
(*    regularSample).  An edge is a Line with its `_orig` attribute in both models.  The generated loop     *)
(*    `for i in range(1, len(samples))` is a fold over combine (tl samples) samples that appends; the hand  *)
(*    model maps over join_pts.                                                                             *)
Section FlattenBridge.
Context {T : Type} (O : Ops T).

Lemma join_fold (c : segment T) : forall (r : list (pt T)) (a : pt T) (acc : list (seg2 T * option (segment T))),
  fold_left (fun acc '(cur, prev) => acc ++ [(L2 prev cur, Some c)]) (combine r (a :: r)) acc
  = acc ++ tag_all c (join_pts (a :: r)).
Proof.
  induction r as [|b r IH]; intros a acc.
  - cbn. rewrite app_nil_r. reflexivity.
  - cbn [combine fold_left]. rewrite IH. cbn [join_pts tag_all map]. rewrite <- app_assoc. reflexivity.
Qed.
Lemma flat_fold (c : segment T) (pts : list (pt T)) :
  fold_left (fun acc '(cur, prev) => acc ++ [(L2 prev cur, Some c)]) (combine (tl pts) pts) [] = tag_all c (join_pts pts).
Proof. destruct pts as [|a r]; [reflexivity|]. cbn [tl]. rewrite join_fold. reflexivity. Qed.

Theorem Line_flatten_gen (l : seg2 T) (orig : option (segment T)) (degree : T) :
  Hand.Sample.Line_flatten l orig degree = Ok (Gen.Sample.Line_flatten O (l, orig) degree).
Proof. reflexivity. Qed.

Hypothesis lits : lit_ok O.

(* with the fuel explicit *)
Theorem Quad_flatten_fuel_gen fuel (q : seg3 T) (degree : T) :
  eqb O (dvd O (Quad_length O q) degree) (zero O) = false ->
  res_of_fuel (Gen.Sample.Quad_flatten O fuel q degree)
  = if ltb O (Quad_length O q) degree then Ok [(L2 (q0 q) (q2 q), Some (SQuad q))]
    else bind (Hand.Sample.sample O (fun t => Ok (Quad_pointAtTime O q t)) fuel (dvd O (Quad_length O q) degree))
              (fun pts => Ok (tag_all (SQuad q) (join_pts pts))).
Proof.
  intro Hs. unfold Gen.Sample.Quad_flatten. destruct (ltb O (Quad_length O q) degree); [reflexivity|].
  rewrite <- (Quad_sample_gen O lits fuel q _ Hs).
  destruct (Quad_sample O fuel q (dvd O (Quad_length O q) degree)) as [pts|]; [|reflexivity].
  cbn [res_of_fuel bind]. cbv zeta. f_equal. apply (flat_fold (SQuad q)).
Qed.
Theorem Cubic_flatten_fuel_gen fuel (c : seg4 T) (degree : T) :
  eqb O (dvd O (Cubic_length O c) degree) (zero O) = false ->
  res_of (Gen.Sample.Cubic_flatten O fuel c degree)
  = if ltb O (Cubic_length O c) degree then Ok [(L2 (c0 c) (c3 c), Some (SCubic c))]
    else bind (regularSample O (fun t => Ok (Cubic_pointAtTime O c t)) (fun t => Ok (Cubic_lengthAtTime O c t)) (Cubic_length O c)
                             fuel fuel (dvd O (Cubic_length O c) degree))
              (fun pts => Ok (tag_all (SCubic c) (join_pts pts))).
Proof.
  intro Hs. unfold Gen.Sample.Cubic_flatten. destruct (ltb O (Cubic_length O c) degree); [reflexivity|].
  rewrite <- (Cubic_regularSample_gen O lits fuel c _ Hs).
  destruct (Cubic_regularSample O fuel c (dvd O (Cubic_length O c) degree)) as [[pts|e]|]; [|reflexivity|reflexivity].
  cbn [res_of res_of_outcome bind]. cbv zeta. f_equal. apply (flat_fold (SCubic c)).
Qed.

(* against Hand/Sample.v's flatteners, which compute their fuel from the arguments *)
Theorem Quad_flatten_gen cap (q : seg3 T) (degree : T) :
  eqb O degree (zero O) = false -> eqb O (dvd O (Quad_length O q) degree) (zero O) = false ->
  Hand.Sample.Quad_flatten O cap q degree
  = res_of_fuel (Gen.Sample.Quad_flatten O (fuel_of O cap (dvd O (Quad_length O q) degree) + 3) q degree).
Proof.
  intros Hd Hs. rewrite (Quad_flatten_fuel_gen _ q degree Hs). unfold Hand.Sample.Quad_flatten. cbv zeta.
  destruct (ltb O (Quad_length O q) degree); [reflexivity|]. rewrite Hd. reflexivity.
Qed.
Theorem Cubic_flatten_gen cap (c : seg4 T) (degree : T) fuel :
  eqb O degree (zero O) = false -> eqb O (dvd O (Cubic_length O c) degree) (zero O) = false ->
  (fuel_of O cap (Cubic_length O c) + 3 <= fuel)%nat -> (fuel_of O cap (dvd O (Cubic_length O c) degree) + 3 <= fuel)%nat ->
  finished (seg_regularSampleTValue O cap (SCubic c) (dvd O (Cubic_length O c) degree)) ->
  Hand.Sample.Cubic_flatten O cap c degree = res_of (Gen.Sample.Cubic_flatten O fuel c degree).
Proof.
  intros Hd Hs H1 H2 Hf. rewrite (Cubic_flatten_fuel_gen fuel c degree Hs). unfold Hand.Sample.Cubic_flatten. cbv zeta.
  destruct (ltb O (Cubic_length O c) degree); [reflexivity|]. rewrite Hd.
  rewrite (seg_regularSample_gen O lits cap (SCubic c) _ fuel Hs H1 H2 Hf).
  rewrite (seg_regularSample_fuel_gen O lits fuel (SCubic c) _ Hs). reflexivity.
Qed.
End FlattenBridge.

(* the two carriers in use satisfy the hypothesis on literals: e.g. *)
Definition Cubic_flatten_gen_R := @Cubic_flatten_gen R ROps lit_ok_R.
Definition Cubic_flatten_gen_F := @Cubic_flatten_gen float FOps lit_ok_F.
Definition seg_sample_gen_R := @seg_sample_gen R ROps lit_ok_R.
Definition seg_sample_gen_F := @seg_sample_gen float FOps lit_ok_F.
Definition Path_pointAtTime_gen_R := @Path_pointAtTime_gen R ROps lit_ok_R.
Definition Path_pointAtTime_gen_F := @Path_pointAtTime_gen float FOps lit_ok_F.

(* ====================================================================================================== *)
(* 6. SampleMixin on a whole path: the receiver's pointAtTime / lengthAtTime can raise (IndexError,         *)
(*    ValueError, OverflowError), inside the loops too; the generated loop Fixpoints then return            *)
(*    option (outcome _).  Same development as section 1 with partial receivers:                            *)
(*    pa' / la' are the hand model's receivers, pa / la the generated ones, related by res_of_outcome.      *)
Lemma map_outcome_mapM {A B : Type} (f : A -> outcome B) (l : list A) :
  res_of_outcome (map_outcome f l) = mapM (fun a => res_of_outcome (f a)) l.
Proof.
  induction l as [|a l IH]; [reflexivity|]. cbn [map_outcome mapM]. destruct (f a) as [b|e]; [|reflexivity].
  cbn [res_of_outcome bind]. rewrite <- IH. destruct (map_outcome f l); reflexivity.
Qed.
Lemma map_outcome_eta {A B : Type} (f : A -> outcome B) (l : list A) :
  map_outcome (fun a => match f a with Raises e => Raises e | Returns b => Returns b end) l = map_outcome f l.
Proof. induction l as [|a l IH]; [reflexivity|]. cbn [map_outcome]. rewrite IH. destruct (f a); reflexivity. Qed.
Lemma mapM_ext {A B : Type} (f g : A -> res B) (l : list A) : (forall a, f a = g a) -> mapM f l = mapM g l.
Proof. intro H. induction l as [|a l IH]; [reflexivity|]. cbn [mapM]. rewrite H, IH. reflexivity. Qed.

Section PartialLoops.
Context {T : Type} (O : Ops T).
Hypothesis lits : lit_ok O.
Let l1 : T := lit O 1 1 0x1p+0%float.
Let l0 : T := lit O 0 1 0x0p+0%float.
Variable pa : T -> outcome (pt T).
Variable pa' : T -> res (pt T).
Hypothesis pa_ok : forall t, res_of_outcome (pa t) = pa' t.
Variable la : T -> outcome T.
Variable la' : T -> res T.
Hypothesis la_ok : forall t, res_of_outcome (la t) = la' t.
Variable len : T.

(* ---------------- sample ---------------- *)
Variable loop : nat -> T -> list (pt T) -> T -> option (outcome (list (pt T) * T)).
Hypothesis loop_eq : forall fuel step acc t,
  loop fuel step acc t =
  match fuel with
  | 0%nat => None
  | S f => if leb O t l1 then
             match pa t with Raises e => Some (Raises e) | Returns p => loop f step (acc ++ [p]) (add O t step) end
           else Some (Returns (acc, t))
  end.
Variable gsample : nat -> T -> option (outcome (list (pt T))).
Hypothesis gsample_eq : forall fuel samples,
  gsample fuel samples =
  match loop fuel (dvd O l1 samples) [] l0 with
  | None => None
  | Some (Raises e) => Some (Raises e)
  | Some (Returns (l, t)) =>
      if neqb O t l1 then match pa (ofZ O 1) with Raises e => Some (Raises e) | Returns p => Some (Returns (l ++ [p])) end
      else Some (Returns l)
  end.

Lemma psample_loop_spec : forall fuel step acc t,
  match loop fuel step acc t with
  | None => sample_loop O pa' fuel step t = Raise OutOfFuel
  | Some (Raises e) => sample_loop O pa' fuel step t = Raise (exc_of e)
  | Some (Returns (acc', t')) => exists mid, acc' = acc ++ mid /\
      sample_loop O pa' fuel step t
      = bind (if neqb O t' (one O) then bind (pa' (one O)) (fun p => Ok [p]) else Ok []) (fun tl => Ok (mid ++ tl))
  end.
Proof.
  induction fuel as [|f IH]; intros step acc t; rewrite loop_eq; cbn [sample_loop]; [reflexivity|].
  unfold l1. rewrite (proj1 lits). fold (one O). destruct (leb O t (one O)).
  - rewrite <- (pa_ok t). destruct (pa t) as [p|e]; cbn [res_of_outcome bind]; [|reflexivity].
    specialize (IH step (acc ++ [p]) (add O t step)).
    destruct (loop f step (acc ++ [p]) (add O t step)) as [[[acc' t']|e]|].
    + destruct IH as [mid [-> H]]. exists (p :: mid). split; [rewrite <- app_assoc; reflexivity|]. rewrite H.
      destruct (if neqb O t' (one O) then _ else _); reflexivity.
    + rewrite IH. reflexivity.
    + rewrite IH. reflexivity.
  - exists []. rewrite app_nil_r. split; [reflexivity|].
    destruct (neqb O t (one O)); [|reflexivity]. destruct (pa' (one O)); reflexivity.
Qed.

Theorem psample_generic fuel samples : eqb O samples (zero O) = false ->
  res_of (gsample fuel samples) = Hand.Sample.sample O pa' fuel samples.
Proof.
  intro Hs. unfold Hand.Sample.sample. rewrite Hs, gsample_eq.
  pose proof (psample_loop_spec fuel (dvd O l1 samples) [] l0) as H.
  unfold l1, l0 in H |- *. rewrite (proj1 lits), (proj2 lits) in H |- *. fold (one O) (zero O) in H |- *.
  destruct (loop fuel (dvd O (one O) samples) [] (zero O)) as [[[l t]|e]|]; cbn [res_of res_of_outcome]; [|symmetry; exact H|symmetry; exact H].
  destruct H as [mid [-> H]]. rewrite H. cbn [app].
  destruct (neqb O t (one O)); cbn [bind]; [|rewrite app_nil_r; reflexivity].
  change (ofZ O 1) with (one O). rewrite <- (pa_ok (one O)). destruct (pa (one O)); reflexivity.
Qed.

(* ---------------- regularSampleTValue / regularSample ---------------- *)
Variable loop1 : nat -> T -> list (T * T) -> T -> option (outcome (list (T * T) * T)).
Variable loop3 : nat -> T -> list (T * T) -> option (list (T * T)).
Variable loop2 : nat -> nat -> T -> list (T * T) -> list T -> T -> option (list (T * T) * list T * T).
Hypothesis loop1_eq : forall fuel step lut t,
  loop1 fuel step lut t =
  match fuel with
  | 0%nat => None
  | S f => if leb O t l1 then
             match la t with Raises e => Some (Raises e) | Returns v => loop1 f step (lut ++ [(t, v)]) (add O t step) end
           else Some (Returns (lut, t))
  end.
Hypothesis loop3_eq : forall fuel d lut,
  loop3 fuel d lut =
  match fuel with
  | 0%nat => None
  | S f => match lut with
           | [] => Some lut
           | h :: tl => if ltb O (snd h) d then loop3 f d tl else Some (h :: tl)
           end
  end.
Hypothesis loop2_eq : forall fuel0 fuel samples lut rs d,
  loop2 fuel0 fuel samples lut rs d =
  match fuel with
  | 0%nat => None
  | S f => if ltb O d len then
             match loop3 fuel0 d lut with
             | None => None
             | Some lut' => match lut' with
                            | [] => Some ([], rs, d)
                            | h :: tl => loop2 fuel0 f samples (h :: tl) (rs ++ [fst h]) (add O d (dvd O len samples))
                            end
             end
           else Some (lut, rs, d)
  end.
Variable greg : nat -> T -> option (outcome (list T)).
Hypothesis greg_eq : forall fuel samples,
  greg fuel samples =
  if eqb O len (ofZ O 0) then Some (Returns [])
  else match loop1 fuel (dvd O l1 len) [] (ofZ O 0) with
       | None => None
       | Some (Raises e) => Some (Raises e)
       | Some (Returns (lut, _)) =>
           match loop2 fuel fuel samples lut [] l0 with
           | None => None
           | Some (_, rs, _) =>
               match last_error rs with
               | None => Some (Raises PyIndexError)
               | Some x => Some (Returns (if neqb O x l1 then rs ++ [l1] else rs))
               end
           end
       end.
Variable gregS : nat -> T -> option (outcome (list (pt T))).
Hypothesis gregS_eq : forall fuel samples,
  gregS fuel samples =
  match greg fuel samples with
  | None => None
  | Some (Raises e) => Some (Raises e)
  | Some (Returns r) =>
      match map_outcome (fun t => match pa t with Raises e => Raises e | Returns p => Returns p end) r with
      | Raises e => Some (Raises e)
      | Returns ps => Some (Returns ps)
      end
  end.

Lemma plut_loop_spec : forall fuel step acc t,
  match loop1 fuel step acc t with
  | None => lut_loop O la' fuel step t = Raise OutOfFuel
  | Some (Raises e) => lut_loop O la' fuel step t = Raise (exc_of e)
  | Some (Returns (acc', _)) => exists mid, acc' = acc ++ mid /\ lut_loop O la' fuel step t = Ok mid /\ (length mid < fuel)%nat
  end.
Proof.
  induction fuel as [|f IH]; intros step acc t; rewrite loop1_eq; cbn [lut_loop]; [reflexivity|].
  unfold l1. rewrite (proj1 lits). fold (one O). destruct (leb O t (one O)).
  - rewrite <- (la_ok t). destruct (la t) as [v|e]; cbn [res_of_outcome bind]; [|reflexivity].
    specialize (IH step (acc ++ [(t, v)]) (add O t step)).
    destruct (loop1 f step (acc ++ [(t, v)]) (add O t step)) as [[[acc' t']|e]|].
    + destruct IH as [mid [-> [H Hl]]]. exists ((t, v) :: mid). split; [rewrite <- app_assoc; reflexivity|].
      rewrite H. split; [reflexivity|]. cbn [length]. lia.
    + rewrite IH. reflexivity.
    + rewrite IH. reflexivity.
  - exists []. rewrite app_nil_r. repeat split. cbn [length]. lia.
Qed.

Theorem pregularSampleTValue_generic fuel samples : eqb O samples (zero O) = false ->
  res_of (greg fuel samples) = regularSampleTValue O la' len fuel fuel samples.
Proof.
  intro Hs. unfold regularSampleTValue. rewrite greg_eq. fold (zero O).
  destruct (eqb O len (zero O)); [reflexivity|].
  pose proof (plut_loop_spec fuel (dvd O l1 len) [] (zero O)) as H1.
  unfold l1, l0 in H1 |- *. rewrite (proj1 lits) in H1 |- *. rewrite (proj2 lits). fold (one O) (zero O) in H1 |- *.
  destruct (loop1 fuel (dvd O (one O) len) [] (zero O)) as [[[lut t]|e]|]; [|rewrite H1; reflexivity|rewrite H1; reflexivity].
  destruct H1 as [mid [-> [H1 Hl]]]. cbn [app]. rewrite H1. cbn [bind].
  pose proof (walk_spec O len loop3 loop2 loop3_eq loop2_eq fuel fuel samples mid [] (zero O) Hs Hl) as H2.
  destruct (loop2 fuel fuel samples mid [] (zero O)) as [[[lut' rs] d']|]; [|rewrite H2; reflexivity].
  destruct H2 as [mid2 [-> H2]]. cbn [app]. rewrite H2. cbn [bind]. rewrite last_error_opt.
  destruct (last_opt mid2) as [x|]; [|reflexivity]. cbn [res_of res_of_outcome].
  destruct (neqb O x (one O)); reflexivity.
Qed.

Theorem pregularSample_generic fuel samples : eqb O samples (zero O) = false ->
  res_of (gregS fuel samples) = regularSample O pa' la' len fuel fuel samples.
Proof.
  intro Hs. unfold regularSample. rewrite <- (pregularSampleTValue_generic fuel samples Hs), gregS_eq.
  destruct (greg fuel samples) as [[r|e]|]; cbn [res_of res_of_outcome bind]; [|reflexivity|reflexivity].
  rewrite map_outcome_eta. rewrite <- (mapM_ext _ _ r pa_ok), <- map_outcome_mapM.
  destruct (map_outcome pa r); reflexivity.
Qed.
End PartialLoops.

Section PathSampling.
Context {T : Type} (O : Ops T).
Hypothesis lits : lit_ok O.

Theorem Path_sample_gen fuel (segs : list (segment T)) samples : eqb O samples (zero O) = false ->
  res_of (Path_sample O fuel segs samples) = Hand.Sample.sample O (path_pointAtTime O segs) fuel samples.
Proof.
  intro Hs.
  exact (psample_generic O lits (Path_pointAtTime O segs) (path_pointAtTime O segs) (Path_pointAtTime_gen O lits segs)
    (fun fuel step acc t => Path_sample_loop1 O fuel segs step acc t) ltac:(intros [|?] ? ? ?; reflexivity)
    (fun fuel samples => Path_sample O fuel segs samples) ltac:(intros; reflexivity) fuel samples Hs).
Qed.
Theorem Path_regularSampleTValue_gen fuel (segs : list (segment T)) samples : eqb O samples (zero O) = false ->
  res_of (Path_regularSampleTValue O fuel segs samples)
  = regularSampleTValue O (path_lengthAtTime O segs) (path_length O segs) fuel fuel samples.
Proof.
  intro Hs.
  exact (pregularSampleTValue_generic O lits (Path_lengthAtTime O segs) (path_lengthAtTime O segs) (Path_lengthAtTime_gen O lits segs)
    (Path_length O segs)
    (fun fuel step lut t => Path_regularSampleTValue_loop1 O fuel segs step lut t)
    (fun fuel d lut => Path_regularSampleTValue_loop3 O fuel d lut)
    (fun fuel0 fuel samples lut rs d => Path_regularSampleTValue_loop2 O fuel0 fuel (Path_length O segs) samples lut rs d)
    ltac:(intros [|?] ? ? ?; reflexivity) ltac:(intros [|?] ? ?; reflexivity) ltac:(intros ? [|?] ? ? ? ?; reflexivity)
    (fun fuel samples => Path_regularSampleTValue O fuel segs samples) ltac:(intros; reflexivity) fuel samples Hs).
Qed.
Theorem Path_regularSample_gen fuel (segs : list (segment T)) samples : eqb O samples (zero O) = false ->
  res_of (Path_regularSample O fuel segs samples)
  = regularSample O (path_pointAtTime O segs) (path_lengthAtTime O segs) (path_length O segs) fuel fuel samples.
Proof.
  intro Hs.
  exact (pregularSample_generic O lits (Path_pointAtTime O segs) (path_pointAtTime O segs) (Path_pointAtTime_gen O lits segs)
    (Path_lengthAtTime O segs) (path_lengthAtTime O segs) (Path_lengthAtTime_gen O lits segs) (Path_length O segs)
    (fun fuel step lut t => Path_regularSampleTValue_loop1 O fuel segs step lut t)
    (fun fuel d lut => Path_regularSampleTValue_loop3 O fuel d lut)
    (fun fuel0 fuel samples lut rs d => Path_regularSampleTValue_loop2 O fuel0 fuel (Path_length O segs) samples lut rs d)
    ltac:(intros [|?] ? ? ?; reflexivity) ltac:(intros [|?] ? ?; reflexivity) ltac:(intros ? [|?] ? ? ? ?; reflexivity)
    (fun fuel samples => Path_regularSampleTValue O fuel segs samples) ltac:(intros; reflexivity)
    (fun fuel samples => Path_regularSample O fuel segs samples) ltac:(intros; reflexivity) fuel samples Hs).
Qed.

(* against the *_auto functions of Hand/Sample.v, which compute the fuel(s) from the arguments *)
Theorem path_sample_gen cap (segs : list (segment T)) samples : eqb O samples (zero O) = false ->
  path_sample O cap segs samples = res_of (Path_sample O (fuel_of O cap samples + 3) segs samples).
Proof. intro Hs. unfold path_sample, sample_auto. symmetry. apply Path_sample_gen, Hs. Qed.
Theorem path_regularSampleTValue_gen cap (segs : list (segment T)) samples fuel : eqb O samples (zero O) = false ->
  (fuel_of O cap (path_length O segs) + 3 <= fuel)%nat -> (fuel_of O cap samples + 3 <= fuel)%nat ->
  finished (path_regularSampleTValue O cap segs samples) ->
  path_regularSampleTValue O cap segs samples = res_of (Path_regularSampleTValue O fuel segs samples).
Proof.
  intros Hs H1 H2 Hf. rewrite (Path_regularSampleTValue_gen fuel segs samples Hs).
  unfold path_regularSampleTValue, regularSampleTValue_auto in *. symmetry. apply regularSampleTValue_mono; assumption.
Qed.
Theorem path_regularSample_gen cap (segs : list (segment T)) samples fuel : eqb O samples (zero O) = false ->
  (fuel_of O cap (path_length O segs) + 3 <= fuel)%nat -> (fuel_of O cap samples + 3 <= fuel)%nat ->
  finished (path_regularSampleTValue O cap segs samples) ->
  path_regularSample O cap segs samples = res_of (Path_regularSample O fuel segs samples).
Proof.
  intros Hs H1 H2 Hf. rewrite (Path_regularSample_gen fuel segs samples Hs).
  unfold path_regularSample, regularSample_auto, path_regularSampleTValue, regularSampleTValue_auto in *. symmetry.
  apply regularSample_mono; assumption.
Qed.
End PathSampling.

(* ====================================================================================================== *)
(* 7. Segment.flatten as Hand/Sample.v's path flattener calls it: dispatch on the class of a tagged segment. *)
(*    (BezierPath.flatten itself -- a loop over effectful, class-dependent calls building a new path with    *)
(*    its `closed` flag -- is not generated; Hand.Sample.path_flatten is mapM seg_flatten.)                 *)
Section SegFlatten.
Context {T : Type} (O : Ops T).
Hypothesis lits : lit_ok O.

Definition gen_seg_flatten (fuel : nat) (s : segment T * option (segment T)) (degree : T)
  : option (outcome (list (seg2 T * option (segment T)))) :=
  match fst s with
  | SLine l => Some (Returns (Gen.Sample.Line_flatten O (l, snd s) degree))
  | SQuad q => option_map Returns (Gen.Sample.Quad_flatten O fuel q degree)
  | SCubic c => Gen.Sample.Cubic_flatten O fuel c degree
  end.

Lemma res_of_map_Returns {A : Type} (x : option A) : res_of (option_map Returns x) = res_of_fuel x.
Proof. destruct x; reflexivity. Qed.

Theorem seg_flatten_gen cap (s : segment T * option (segment T)) (degree : T) fuel :
  eqb O degree (zero O) = false -> eqb O (dvd O (seg_length O (fst s)) degree) (zero O) = false ->
  (fuel_of O cap (seg_length O (fst s)) + 3 <= fuel)%nat -> (fuel_of O cap (dvd O (seg_length O (fst s)) degree) + 3 <= fuel)%nat ->
  finished (seg_flatten O cap s degree) ->
  seg_flatten O cap s degree = res_of (gen_seg_flatten fuel s degree).
Proof.
  destruct s as [[l|q|c] orig]; unfold seg_flatten, gen_seg_flatten; cbn [fst snd seg_length]; intros Hd Hs H1 H2 Hf.
  - reflexivity.
  - rewrite res_of_map_Returns, (Quad_flatten_fuel_gen O lits fuel q degree Hs).
    unfold Hand.Sample.Quad_flatten in *. cbv zeta in *. destruct (ltb O (Quad_length O q) degree); [reflexivity|].
    rewrite Hd in *. unfold seg_sample, sample_auto in *. cbn [seg_pointAt] in *.
    rewrite (sample_mono O _ _ fuel _ H2 (finished_bind _ _ Hf)). reflexivity.
  - rewrite (Cubic_flatten_fuel_gen O lits fuel c degree Hs).
    unfold Hand.Sample.Cubic_flatten in *. cbv zeta in *. destruct (ltb O (Cubic_length O c) degree); [reflexivity|].
    rewrite Hd in *.
    assert (Hf' : finished (seg_regularSampleTValue O cap (SCubic c) (dvd O (Cubic_length O c) degree)))
      by exact (finished_bind _ _ (finished_bind _ _ Hf)).
    rewrite (seg_regularSample_gen O lits cap (SCubic c) _ fuel Hs H1 H2 Hf').
    rewrite (seg_regularSample_fuel_gen O lits fuel (SCubic c) _ Hs). reflexivity.
Qed.
End SegFlatten.
