(* C15: parameter lookup inverts evaluation (lines and quadratics), over the reals.
   Everything is stated about the GENERATED definitions at the real carrier [ROps]. *)
From Coq Require Import PrimFloat.
From Coq Require Import ZArith List Bool Reals Lra Lia Psatz.
From BZ Require Import Base.Ops Proofs.Tactics Gen.Utils Gen.Point Gen.Line Gen.Quad.
Import ListNotations.
Open Scope R_scope.

(* ------------------------------------------------------------------------------------------------ *)
(* 0. math.isclose at the real carrier                                                                *)
(* ------------------------------------------------------------------------------------------------ *)

Lemma isclose_refl a : isclose ROps a a = true.
Proof. unfold isclose. rewrite (proj2 (Reqb_true a a) eq_refl). reflexivity. Qed.

Lemma isclose_false_implies_neq a b : isclose ROps a b = false -> a <> b.
Proof. intros H E. subst b. rewrite isclose_refl in H. discriminate. Qed.

(* full reading of isclose (rel_tol = 1e-9, abs_tol = 0) *)
Lemma isclose_true_iff a b :
  isclose ROps a b = true <->
  (a = b \/ Rabs (b - a) <= 1 / 1000000000 * Rabs b \/ Rabs (b - a) <= 1 / 1000000000 * Rabs a).
Proof.
  assert (Hm : forall z, Rabs (1 / 1000000000 * z) = 1 / 1000000000 * Rabs z)
    by (intros z; rewrite Rabs_mult, (Rabs_pos_eq (1 / 1000000000)) by lra; reflexivity).
  rcbv. rewrite !Hm.
  destruct (Req_EM_T a b) as [E|N].
  - split; [intros _; left; exact E|reflexivity].
  - assert (Hp : 0 < Rabs (b - a)) by (apply Rabs_pos_lt; lra).
    destruct (Rle_dec (Rabs (b - a)) (1 / 1000000000 * Rabs b)) as [H1|H1];
    destruct (Rle_dec (Rabs (b - a)) (1 / 1000000000 * Rabs a)) as [H2|H2];
    destruct (Rle_dec (Rabs (b - a)) 0) as [H3|H3]; cbn [orb];
    try (split; [intros _; tauto|reflexivity]); try lra;
    try (split; [discriminate|]; intros [E|[H|H]]; [contradiction|contradiction|contradiction]).
Qed.

Lemma isclose_false_iff a b :
  isclose ROps a b = false <->
  (a <> b /\ 1 / 1000000000 * Rabs b < Rabs (b - a) /\ 1 / 1000000000 * Rabs a < Rabs (b - a)).
Proof.
  split.
  - intros H. pose proof (isclose_true_iff a b) as I.
    assert (N : ~ (a = b \/ Rabs (b - a) <= 1 / 1000000000 * Rabs b \/ Rabs (b - a) <= 1 / 1000000000 * Rabs a))
      by (intros K; apply I in K; congruence).
    repeat split.
    + intros E. apply N. left. exact E.
    + apply Rnot_le_lt. intros K. apply N. right. left. exact K.
    + apply Rnot_le_lt. intros K. apply N. right. right. exact K.
  - intros (N & H1 & H2). destruct (isclose ROps a b) eqn:E; [|reflexivity].
    apply isclose_true_iff in E. destruct E as [E|[E|E]]; [contradiction|lra|lra].
Qed.

(* ------------------------------------------------------------------------------------------------ *)
(* 1. Line.tOfPoint                                                                                   *)
(* ------------------------------------------------------------------------------------------------ *)

(* the parameter the generated code solves for (None: the line is numerically a point, the code returns -1) *)
Definition line_solve (l : seg2 R) (p : pt R) : option R :=
  let dx := px (l1 l) - px (l0 l) in let dy := py (l1 l) - py (l0 l) in
  let xok := negb (isclose ROps (px (l1 l)) (px (l0 l))) in
  let yok := negb (isclose ROps (py (l1 l)) (py (l0 l))) in
  if xok && (leb ROps (Rabs dy) (Rabs dx) || negb yok) then Some ((px p - px (l0 l)) / dx)
  else if yok then Some ((py p - py (l0 l)) / dy) else None.

(* reading of the generated Line.tOfPoint: solve in the dominant well-conditioned coordinate, then (unless the
   caller swears the point is on the line) accept the parameter only if the point it evaluates to is within 2e-7 *)
Lemma line_tOfPoint_spec (l : seg2 R) (p : pt R) (sw : bool) :
  Line_tOfPoint ROps l p sw =
  match line_solve l p with
  | None => -1
  | Some t => if sw || ltb ROps (Point_distanceFrom ROps (Line_pointAtTime ROps l t) p) (1 / 5000000) then t else -1
  end.
Proof.
  unfold Line_tOfPoint, line_solve. cbv zeta.
  change (sub ROps) with Rminus. change (dvd ROps) with Rdiv. change (abs_ ROps) with Rabs.
  destruct (negb (isclose ROps (px (l1 l)) (px (l0 l))) &&
            (leb ROps (Rabs (py (l1 l) - py (l0 l))) (Rabs (px (l1 l) - px (l0 l)))
             || negb (negb (isclose ROps (py (l1 l)) (py (l0 l)))))); [reflexivity|].
  destruct (negb (isclose ROps (py (l1 l)) (py (l0 l)))); reflexivity.
Qed.

(* when a coordinate is well conditioned the code does solve, and in a coordinate whose extent is non-zero *)
Lemma line_solve_some (l : seg2 R) (p : pt R) :
  isclose ROps (px (l1 l)) (px (l0 l)) = false \/ isclose ROps (py (l1 l)) (py (l0 l)) = false ->
  (px (l1 l) <> px (l0 l) /\ line_solve l p = Some ((px p - px (l0 l)) / (px (l1 l) - px (l0 l)))) \/
  (py (l1 l) <> py (l0 l) /\ line_solve l p = Some ((py p - py (l0 l)) / (py (l1 l) - py (l0 l)))).
Proof.
  intros H. unfold line_solve. cbv zeta.
  destruct (isclose ROps (px (l1 l)) (px (l0 l))) eqn:Ex; destruct (isclose ROps (py (l1 l)) (py (l0 l))) eqn:Ey;
    cbn [negb andb orb].
  - destruct H; discriminate.
  - right. split; [apply isclose_false_implies_neq; exact Ey|reflexivity].
  - left. split; [apply isclose_false_implies_neq; exact Ex|]. rewrite orb_true_r. reflexivity.
  - destruct (leb ROps (Rabs (py (l1 l) - py (l0 l))) (Rabs (px (l1 l) - px (l0 l)))); cbn [orb].
    + left. split; [apply isclose_false_implies_neq; exact Ex|reflexivity].
    + right. split; [apply isclose_false_implies_neq; exact Ey|reflexivity].
Qed.

Lemma line_solve_none (l : seg2 R) (p : pt R) :
  line_solve l p = None <->
  (isclose ROps (px (l1 l)) (px (l0 l)) = true /\ isclose ROps (py (l1 l)) (py (l0 l)) = true).
Proof.
  unfold line_solve. cbv zeta.
  destruct (isclose ROps (px (l1 l)) (px (l0 l))); destruct (isclose ROps (py (l1 l)) (py (l0 l)));
    cbn [negb andb orb]; try rewrite orb_true_r;
    try destruct (leb ROps (Rabs (py (l1 l) - py (l0 l))) (Rabs (px (l1 l) - px (l0 l))));
    split; try discriminate; try tauto; intros [? ?]; discriminate.
Qed.

Lemma distanceFrom_self (p : pt R) : Point_distanceFrom ROps p p = 0.
Proof. destruct p as [x y]. rcbv. replace ((x - x) * (x - x) + (y - y) * (y - y)) with 0 by ring. apply sqrt_0. Qed.

Lemma line_eval_coords (l : seg2 R) t :
  Line_pointAtTime ROps l t =
  P (px (l0 l) + t * (px (l1 l) - px (l0 l))) (py (l0 l) + t * (py (l1 l) - py (l0 l))).
Proof. destruct l as [[x0 y0] [x1 y1]]. rcbv. apply pt_eq; ring. Qed.

(* 7. tOfPoint inverts pointAtTime, for every real parameter (not only [0,1]), with or without the re-check *)
Theorem line_tOfPoint_inverse (l : seg2 R) (t : R) (sw : bool) :
  isclose ROps (px (l1 l)) (px (l0 l)) = false \/ isclose ROps (py (l1 l)) (py (l0 l)) = false ->
  Line_tOfPoint ROps l (Line_pointAtTime ROps l t) sw = t.
Proof.
  intros H. rewrite line_tOfPoint_spec.
  assert (S : line_solve l (Line_pointAtTime ROps l t) = Some t).
  { destruct (line_solve_some l (Line_pointAtTime ROps l t) H) as [[N ->]|[N ->]];
      rewrite line_eval_coords; cbn [px py]; f_equal; field; lra. }
  rewrite S, distanceFrom_self.
  assert (Hc : ltb ROps 0 (1 / 5000000) = true) by (apply Rltb_true; lra).
  rewrite Hc, orb_true_r. reflexivity.
Qed.

Corollary line_tOfPoint_inverse_checked (l : seg2 R) t :
  isclose ROps (px (l1 l)) (px (l0 l)) = false \/ isclose ROps (py (l1 l)) (py (l0 l)) = false ->
  Line_tOfPoint ROps l (Line_pointAtTime ROps l t) false = t.
Proof. apply line_tOfPoint_inverse. Qed.

Corollary line_tOfPoint_inverse_sworn (l : seg2 R) t :
  isclose ROps (px (l1 l)) (px (l0 l)) = false \/ isclose ROps (py (l1 l)) (py (l0 l)) = false ->
  Line_tOfPoint ROps l (Line_pointAtTime ROps l t) true = t.
Proof. apply line_tOfPoint_inverse. Qed.

(* a numerically degenerate line (both extents isclose to nothing) has no parameters at all *)
Lemma line_tOfPoint_degenerate (l : seg2 R) p sw :
  isclose ROps (px (l1 l)) (px (l0 l)) = true -> isclose ROps (py (l1 l)) (py (l0 l)) = true ->
  Line_tOfPoint ROps l p sw = -1.
Proof.
  intros Hx Hy. rewrite line_tOfPoint_spec.
  rewrite (proj2 (line_solve_none l p) (conj Hx Hy)). reflexivity.
Qed.

(* 8. a point that is not within 2e-7 of the point the solved parameter evaluates to is rejected ... *)
Lemma line_off_solved_point (l : seg2 R) (p : pt R) :
  (forall t0, line_solve l p = Some t0 ->
              1 / 5000000 <= Point_distanceFrom ROps (Line_pointAtTime ROps l t0) p) ->
  Line_tOfPoint ROps l p false = -1.
Proof.
  intros H. rewrite line_tOfPoint_spec. destruct (line_solve l p) as [t0|]; [|reflexivity].
  rewrite (proj2 (Rltb_false _ _) (H t0 eq_refl)). reflexivity.
Qed.

(* ... in particular a point at distance >= 2e-7 from every point of the carrier line *)
Theorem line_off_carrier (l : seg2 R) (p : pt R) :
  (forall u, 1 / 5000000 <= Point_distanceFrom ROps (Line_pointAtTime ROps l u) p) ->
  Line_tOfPoint ROps l p false = -1.
Proof. intros H. apply line_off_solved_point. intros t0 _. apply H. Qed.

(* the same through the usual point-line distance |cross(p - start, d)| / |d| >= 2e-7 *)
Lemma cross_le_dist (l : seg2 R) (p : pt R) u :
  let dx := px (l1 l) - px (l0 l) in let dy := py (l1 l) - py (l0 l) in
  Rabs ((px p - px (l0 l)) * dy - (py p - py (l0 l)) * dx) <=
  Point_distanceFrom ROps (Line_pointAtTime ROps l u) p * sqrt (dx * dx + dy * dy).
Proof.
  cbv zeta. rewrite line_eval_coords.
  destruct l as [[x0 y0] [x1 y1]]. destruct p as [a b]. cbn [px py l0 l1].
  unfold Point_distanceFrom, Point_squareDistanceFrom. cbn [sqrt_ add mul sub ROps px py].
  set (dx := x1 - x0). set (dy := y1 - y0).
  set (ex := x0 + u * dx - a). set (ey := y0 + u * dy - b).
  rewrite <- sqrt_mult by nra.
  rewrite <- sqrt_Rsqr_abs. apply sqrt_le_1; [apply Rle_0_sqr|apply Rmult_le_pos; nra|]. unfold Rsqr.
  replace ((a - x0) * dy - (b - y0) * dx) with (- (ex * dy - ey * dx)) by (subst ex ey; ring).
  clearbody ex ey. clearbody dx dy.
  assert (E : (ex * ex + ey * ey) * (dx * dx + dy * dy) =
              - (ex * dy - ey * dx) * - (ex * dy - ey * dx) + (ex * dx + ey * dy) * (ex * dx + ey * dy)) by ring.
  rewrite E. pose proof (Rle_0_sqr (ex * dx + ey * dy)) as K. unfold Rsqr in K. lra.
Qed.

Theorem line_off_carrier_cross (l : seg2 R) (p : pt R) :
  let dx := px (l1 l) - px (l0 l) in let dy := py (l1 l) - py (l0 l) in
  1 / 5000000 * sqrt (dx * dx + dy * dy) <= Rabs ((px p - px (l0 l)) * dy - (py p - py (l0 l)) * dx) ->
  Line_tOfPoint ROps l p false = -1.
Proof.
  cbv zeta. intros H.
  remember (px (l1 l) - px (l0 l)) as dx eqn:Edx. remember (py (l1 l) - py (l0 l)) as dy eqn:Edy.
  pose proof (sqrt_pos (dx * dx + dy * dy)) as Hm0.
  destruct (Req_dec (sqrt (dx * dx + dy * dy)) 0) as [Z|N].
  - apply sqrt_eq_0 in Z; [|nra].
    assert (Zx : dx = 0) by nra. assert (Zy : dy = 0) by nra.
    apply line_tOfPoint_degenerate.
    + replace (px (l1 l)) with (px (l0 l)) by lra. apply isclose_refl.
    + replace (py (l1 l)) with (py (l0 l)) by lra. apply isclose_refl.
  - apply line_off_carrier. intros u. pose proof (cross_le_dist l p u) as K. cbv zeta in K.
    rewrite <- Edx, <- Edy in K.
    set (m := sqrt (dx * dx + dy * dy)) in *.
    apply Rmult_le_reg_r with m; [lra|]. lra.
Qed.

(* ------------------------------------------------------------------------------------------------ *)
(* 2. utils.quadraticRoots                                                                            *)
(* ------------------------------------------------------------------------------------------------ *)

(* exact reading of the generated root finder: membership in the returned list *)
Lemma In_quadraticRoots a b c r :
  In r (utils_quadraticRoots ROps a b c) <->
  (Rabs a <= 1 / 1000000000 * Rabs b /\ b <> 0 /\ r = - c / b /\ 0 <= r <= 1) \/
  (1 / 1000000000 * Rabs b < Rabs a /\ 0 < b * b - 4 * a * c /\
   (r = - b / (2 * a) - sqrt (b * b - 4 * a * c) / (2 * a) \/
    r = - b / (2 * a) + sqrt (b * b - 4 * a * c) / (2 * a)) /\ 0 <= r <= 1).
Proof.
  rcbv. replace (0 / 1) with 0 by field. replace (1 / 1) with 1 by field.
  set (t1 := - b / (2 * a) - sqrt (b * b - 4 * a * c) / (2 * a)).
  set (t2 := - b / (2 * a) + sqrt (b * b - 4 * a * c) / (2 * a)).
  set (r0 := - c / b).
  destruct (Rle_dec (Rabs a) (1 / 1000000000 * Rabs b)) as [Hl|Hl].
  - destruct (Req_EM_T b 0) as [Hb|Hb].
    + cbn [In]. split; [contradiction|]. intros [(_ & N & _)|(K & _)]; [contradiction|lra].
    + destruct (Rle_dec 0 r0) as [H0|H0]; [destruct (Rle_dec r0 1) as [H1|H1]|]; cbn [In].
      * split.
        -- intros [E|[]]. left. repeat split; try assumption; lra.
        -- intros [(_ & _ & E & _)|(K & _)]; [left; symmetry; exact E|lra].
      * split; [contradiction|]. intros [(_ & _ & E & K)|(K & _)]; lra.
      * split; [contradiction|]. intros [(_ & _ & E & K)|(K & _)]; lra.
  - apply Rnot_le_lt in Hl.
    destruct (Rlt_dec 0 (b * b - 4 * a * c)) as [Hd|Hd].
    + destruct (Rle_dec 0 t2) as [A2|A2]; [destruct (Rle_dec t2 1) as [B2|B2]|];
      (destruct (Rle_dec 0 t1) as [A1|A1]; [destruct (Rle_dec t1 1) as [B1|B1]|]); cbn [In];
      (split;
       [ intros K; right; repeat match type of K with _ \/ _ => destruct K as [K|K] end;
         try contradiction; subst r; repeat split; try assumption; tauto
       | intros [(K & _)|(_ & _ & [E|E] & K1 & K2)]; [lra|subst r; try tauto; try lra|subst r; try tauto; try lra] ]).
    + cbn [In]. split; [contradiction|]. intros [(K & _)|(_ & K & _)]; lra.
Qed.

(* when the coefficients are either exactly linear or genuinely quadratic with positive discriminant, the list is
   exactly the set of roots in [0,1] *)
Definition root_cond (a b c : R) : Prop :=
  (a = 0 /\ b <> 0) \/ (1 / 1000000000 * Rabs b < Rabs a /\ 0 < b * b - 4 * a * c).

Lemma quadraticRoots_exact a b c : root_cond a b c ->
  forall r, In r (utils_quadraticRoots ROps a b c) <-> (0 <= r <= 1 /\ a * r * r + b * r + c = 0).
Proof.
  intros Hc r. rewrite In_quadraticRoots.
  destruct Hc as [[Ha Hb]|[Ha Hd]].
  - subst a. assert (Hbp : 0 < Rabs b) by (apply Rabs_pos_lt; exact Hb). rewrite Rabs_R0. split.
    + intros [(_ & _ & E & K)|(K & _)]; [|lra]. split; [exact K|]. subst r. field. exact Hb.
    + intros (K & E). left. repeat split; try lra. apply Rmult_eq_reg_r with b; [|exact Hb].
      unfold Rdiv. rewrite Rmult_assoc, Rinv_l by exact Hb. lra.
  - assert (Hbn : 0 <= Rabs b) by apply Rabs_pos.
    assert (Ha0 : a <> 0) by (intros Z; subst a; rewrite Rabs_R0 in Ha; lra).
    set (d := b * b - 4 * a * c) in *.
    assert (Hs : sqrt d * sqrt d = d) by (apply sqrt_sqrt; lra).
    split.
    + intros [(K & _)|(_ & _ & E & K)]; [lra|]. split; [exact K|].
      destruct E as [E|E]; subst r.
      * transitivity ((sqrt d * sqrt d - d) / (4 * a)); [unfold d; field; exact Ha0|]. rewrite Hs. field. exact Ha0.
      * transitivity ((sqrt d * sqrt d - d) / (4 * a)); [unfold d; field; exact Ha0|]. rewrite Hs. field. exact Ha0.
    + intros (K & E). right. repeat split; try lra.
      assert (Hq : (2 * a * r + b) * (2 * a * r + b) = sqrt d * sqrt d) by (rewrite Hs; unfold d; nra).
      assert (Hcase : 2 * a * r + b = sqrt d \/ 2 * a * r + b = - sqrt d).
      { assert (Hz : (2 * a * r + b - sqrt d) * (2 * a * r + b + sqrt d) = 0) by nra.
        apply Rmult_integral in Hz. destruct Hz; [left|right]; lra. }
      destruct Hcase as [Hp|Hm].
      * right. rewrite <- Hp. field. exact Ha0.
      * left. replace (sqrt d) with (- (2 * a * r + b)) by lra. field. exact Ha0.
Qed.

(* ------------------------------------------------------------------------------------------------ *)
(* 3. the nested search of QuadraticBezier.tOfPoint                                                   *)
(* ------------------------------------------------------------------------------------------------ *)

(* -2e-7 < x - y < 2e-7, exactly as generated *)
Definition close_b (x y : R) : bool :=
  andb (ltb ROps (neg ROps (lit ROps 1 5000000 0x1.ad7f29abcaf48p-23%float)) (sub ROps x y))
       (ltb ROps (sub ROps x y) (lit ROps 1 5000000 0x1.ad7f29abcaf48p-23%float)).

Lemma close_b_spec x y : close_b x y = true <-> Rabs (x - y) < 1 / 5000000.
Proof.
  unfold close_b. rewrite andb_true_iff, !Rltb_true. cbn [neg sub lit ROps].
  split.
  - intros [H1 H2]. apply Rabs_def1; lra.
  - intros H. apply Rabs_def2 in H. lra.
Qed.

Definition pair_search (xs ys : list R) : option R :=
  find_first (fun v_x => match find_first (fun v_y => if close_b v_x v_y then Some (Some v_x) else None) ys with
                         | Some r => r | None => None end) xs.

Lemma quad_tOfPoint_unfold (q : seg3 R) (p : pt R) :
  Quad_tOfPoint ROps q p =
  let xr := utils_quadraticRoots ROps (px (q0 q) - 2 * px (q1 q) + px (q2 q)) (2 * (px (q1 q) - px (q0 q))) (px (q0 q) - px p) in
  let yr := utils_quadraticRoots ROps (py (q0 q) - 2 * py (q1 q) + py (q2 q)) (2 * (py (q1 q) - py (q0 q))) (py (q0 q) - py p) in
  if isnil xr || isnil yr then -1 else match pair_search xr yr with Some r => r | None => -1 end.
Proof. reflexivity. Qed.

Lemma inner_search x ys :
  find_first (fun v_y => if close_b x v_y then Some (Some x) else None) ys =
  if existsb (close_b x) ys then Some (Some x) else None.
Proof.
  induction ys as [|y ys IH]; cbn [find_first existsb]; [reflexivity|].
  destruct (close_b x y); cbn [orb]; [reflexivity|exact IH].
Qed.

Lemma pair_search_find xs ys : pair_search xs ys = find (fun x => existsb (close_b x) ys) xs.
Proof.
  unfold pair_search. induction xs as [|x xs IH]; cbn [find_first find]; [reflexivity|].
  rewrite inner_search. destruct (existsb (close_b x) ys); [reflexivity|exact IH].
Qed.

Lemma pair_search_sound xs ys r : pair_search xs ys = Some r ->
  In r xs /\ exists y, In y ys /\ Rabs (r - y) < 1 / 5000000.
Proof.
  rewrite pair_search_find. intros H. apply find_some in H. destruct H as [H1 H2].
  split; [exact H1|]. apply existsb_exists in H2. destruct H2 as (y & Hy & Hc).
  exists y. split; [exact Hy|]. apply close_b_spec. exact Hc.
Qed.

Lemma pair_search_complete xs ys x y : In x xs -> In y ys -> Rabs (x - y) < 1 / 5000000 ->
  exists r, pair_search xs ys = Some r.
Proof.
  intros Hx Hy Hc. rewrite pair_search_find.
  destruct (find (fun x0 => existsb (close_b x0) ys) xs) as [r|] eqn:E; [exists r; reflexivity|exfalso].
  pose proof (find_none _ _ E x Hx) as K. cbv beta in K.
  assert (T : existsb (close_b x) ys = true) by (apply existsb_exists; exists y; split; [exact Hy|apply close_b_spec; exact Hc]).
  congruence.
Qed.

(* the earliest-listed x-root is preferred: if the first x-root has a close y-root it is the answer *)
Lemma pair_search_head x xs ys y : In y ys -> Rabs (x - y) < 1 / 5000000 -> pair_search (x :: xs) ys = Some x.
Proof.
  intros Hy Hc. rewrite pair_search_find. cbn [find].
  assert (T : existsb (close_b x) ys = true) by (apply existsb_exists; exists y; split; [exact Hy|apply close_b_spec; exact Hc]).
  rewrite T. reflexivity.
Qed.

(* ------------------------------------------------------------------------------------------------ *)
(* 4. QuadraticBezier.tOfPoint inverts pointAtTime                                                    *)
(* ------------------------------------------------------------------------------------------------ *)

(* coordinate polynomial  p(s) = a s^2 + b s + p0  with  a = p0 - 2 p1 + p2,  b = 2 (p1 - p0) *)
Lemma quad_eval_coords (q : seg3 R) s :
  Quad_pointAtTime ROps q s =
  P ((px (q0 q) - 2 * px (q1 q) + px (q2 q)) * s * s + 2 * (px (q1 q) - px (q0 q)) * s + px (q0 q))
    ((py (q0 q) - 2 * py (q1 q) + py (q2 q)) * s * s + 2 * (py (q1 q) - py (q0 q)) * s + py (q0 q)).
Proof. destruct q as [[x0 y0] [x1 y1] [x2 y2]]. rcbv. apply pt_eq; ring. Qed.

(* the hypothesis on one coordinate: exactly linear with non-zero slope, or genuinely quadratic (beyond the
   "numerically linear" threshold |a| <= 1e-9 |b| of quadraticRoots) with t not the stationary parameter *)
Definition coord_ok (p0 p1 p2 t : R) : Prop :=
  let a := p0 - 2 * p1 + p2 in let b := 2 * (p1 - p0) in
  (a = 0 /\ b <> 0) \/ (1 / 1000000000 * Rabs b < Rabs a /\ 2 * a * t + b <> 0).

Lemma coord_ok_root_cond p0 p1 p2 t :
  coord_ok p0 p1 p2 t ->
  let a := p0 - 2 * p1 + p2 in let b := 2 * (p1 - p0) in
  root_cond a b (p0 - (a * t * t + b * t + p0)).
Proof.
  unfold coord_ok, root_cond. cbv zeta. intros [H|[H1 H2]]; [left; exact H|right]. split; [exact H1|].
  set (a := p0 - 2 * p1 + p2) in *. set (b := 2 * (p1 - p0)) in *.
  replace (b * b - 4 * a * (p0 - (a * t * t + b * t + p0))) with ((2 * a * t + b) * (2 * a * t + b)) by ring.
  nra.
Qed.

(* the discriminant of x(s) - x(t) is the squared derivative at t: positive exactly off the stationary parameter *)
Lemma quad_discriminant a b p0 t :
  b * b - 4 * a * (p0 - (a * t * t + b * t + p0)) = (2 * a * t + b) * (2 * a * t + b).
Proof. ring. Qed.

Section QuadInverse.
Variable q : seg3 R.
Variable t : R.
Hypothesis Ht : 0 <= t <= 1.
Hypothesis Hx : coord_ok (px (q0 q)) (px (q1 q)) (px (q2 q)) t.
Hypothesis Hy : coord_ok (py (q0 q)) (py (q1 q)) (py (q2 q)) t.

Let xr := utils_quadraticRoots ROps (px (q0 q) - 2 * px (q1 q) + px (q2 q)) (2 * (px (q1 q) - px (q0 q)))
            (px (q0 q) - px (Quad_pointAtTime ROps q t)).
Let yr := utils_quadraticRoots ROps (py (q0 q) - 2 * py (q1 q) + py (q2 q)) (2 * (py (q1 q) - py (q0 q)))
            (py (q0 q) - py (Quad_pointAtTime ROps q t)).

(* the x-root list is exactly the set of parameters in [0,1] with the same abscissa; likewise in y *)
Lemma xroots_exact r : In r xr <-> (0 <= r <= 1 /\ px (Quad_pointAtTime ROps q r) = px (Quad_pointAtTime ROps q t)).
Proof.
  unfold xr. rewrite !quad_eval_coords. cbn [px py].
  rewrite (quadraticRoots_exact _ _ _ (coord_ok_root_cond _ _ _ _ Hx)).
  split; intros [K E]; (split; [exact K|lra]).
Qed.
Lemma yroots_exact r : In r yr <-> (0 <= r <= 1 /\ py (Quad_pointAtTime ROps q r) = py (Quad_pointAtTime ROps q t)).
Proof.
  unfold yr. rewrite !quad_eval_coords. cbn [px py].
  rewrite (quadraticRoots_exact _ _ _ (coord_ok_root_cond _ _ _ _ Hy)).
  split; intros [K E]; (split; [exact K|lra]).
Qed.

Lemma t_in_xroots : In t xr. Proof. apply xroots_exact. split; [exact Ht|reflexivity]. Qed.
Lemma t_in_yroots : In t yr. Proof. apply yroots_exact. split; [exact Ht|reflexivity]. Qed.

Theorem quad_tOfPoint_inverse_sec :
  let tau := Quad_tOfPoint ROps q (Quad_pointAtTime ROps q t) in
  tau <> -1 /\ 0 <= tau <= 1 /\
  exists rx ry,
    0 <= rx <= 1 /\ 0 <= ry <= 1 /\
    px (Quad_pointAtTime ROps q rx) = px (Quad_pointAtTime ROps q t) /\
    py (Quad_pointAtTime ROps q ry) = py (Quad_pointAtTime ROps q t) /\
    Rabs (rx - ry) < 1 / 5000000 /\ tau = rx.
Proof.
  cbv zeta. rewrite quad_tOfPoint_unfold. cbv zeta. fold xr yr.
  pose proof t_in_xroots as Tx. pose proof t_in_yroots as Ty.
  assert (Nx : isnil xr = false) by (destruct xr; [destruct Tx|reflexivity]).
  assert (Ny : isnil yr = false) by (destruct yr; [destruct Ty|reflexivity]).
  rewrite Nx, Ny. cbn [orb].
  assert (Hc : Rabs (t - t) < 1 / 5000000) by (replace (t - t) with 0 by ring; rewrite Rabs_R0; lra).
  destruct (pair_search_complete xr yr t t Tx Ty Hc) as [rx E]. rewrite E.
  destruct (pair_search_sound xr yr rx E) as (Ix & ry & Iy & Hxy).
  apply xroots_exact in Ix. apply yroots_exact in Iy.
  destruct Ix as [Bx Ex]. destruct Iy as [By Ey].
  split; [lra|]. split; [exact Bx|].
  exists rx, ry. repeat split; try assumption; lra.
Qed.

(* if t is the only parameter in [0,1] with that abscissa, the lookup returns t itself *)
Theorem quad_tOfPoint_inverse_unique_sec :
  (forall s, 0 <= s <= 1 -> px (Quad_pointAtTime ROps q s) = px (Quad_pointAtTime ROps q t) -> s = t) ->
  Quad_tOfPoint ROps q (Quad_pointAtTime ROps q t) = t.
Proof.
  intros U. destruct quad_tOfPoint_inverse_sec as (_ & _ & rx & ry & Bx & _ & Ex & _ & _ & ->).
  apply U; assumption.
Qed.

(* in general: the answer is a parameter of a curve point that has the same abscissa as the query and whose ordinate
   is matched by a parameter less than 2e-7 away *)
End QuadInverse.

(* 9. the closed statements *)
Theorem quad_tOfPoint_inverse (q : seg3 R) (t : R) :
  0 <= t <= 1 ->
  coord_ok (px (q0 q)) (px (q1 q)) (px (q2 q)) t ->
  coord_ok (py (q0 q)) (py (q1 q)) (py (q2 q)) t ->
  let tau := Quad_tOfPoint ROps q (Quad_pointAtTime ROps q t) in
  tau <> -1 /\ 0 <= tau <= 1 /\
  exists rx ry,
    0 <= rx <= 1 /\ 0 <= ry <= 1 /\
    px (Quad_pointAtTime ROps q rx) = px (Quad_pointAtTime ROps q t) /\
    py (Quad_pointAtTime ROps q ry) = py (Quad_pointAtTime ROps q t) /\
    Rabs (rx - ry) < 1 / 5000000 /\ tau = rx.
Proof. intros Ht Hx Hy. exact (quad_tOfPoint_inverse_sec q t Ht Hx Hy). Qed.

Theorem quad_tOfPoint_inverse_unique (q : seg3 R) (t : R) :
  0 <= t <= 1 ->
  coord_ok (px (q0 q)) (px (q1 q)) (px (q2 q)) t ->
  coord_ok (py (q0 q)) (py (q1 q)) (py (q2 q)) t ->
  (forall s, 0 <= s <= 1 -> px (Quad_pointAtTime ROps q s) = px (Quad_pointAtTime ROps q t) -> s = t) ->
  Quad_tOfPoint ROps q (Quad_pointAtTime ROps q t) = t.
Proof. intros Ht Hx Hy U. exact (quad_tOfPoint_inverse_unique_sec q t Ht Hx Hy U). Qed.

(* x strictly increasing along the control polygon: x is injective on [0,1] and never stationary *)
Lemma quad_x_monotone_injective (q : seg3 R) s t :
  px (q0 q) < px (q1 q) -> px (q1 q) < px (q2 q) -> 0 <= s <= 1 -> 0 <= t <= 1 ->
  px (Quad_pointAtTime ROps q s) = px (Quad_pointAtTime ROps q t) -> s = t.
Proof.
  intros H01 H12 Hs Ht. rewrite !quad_eval_coords. cbn [px].
  set (x0 := px (q0 q)) in *. set (x1 := px (q1 q)) in *. set (x2 := px (q2 q)) in *.
  intros E.
  assert (F : (s - t) * ((x0 - 2 * x1 + x2) * (s + t) + 2 * (x1 - x0)) = 0) by lra.
  apply Rmult_integral in F. destruct F as [F|F]; [lra|exfalso].
  (* (x0 - 2x1 + x2)(s+t) + 2(x1-x0) = (2 - (s+t)) (x1 - x0) + (s+t) (x2 - x1) > 0 *)
  assert (G : 0 < (2 - (s + t)) * (x1 - x0) + (s + t) * (x2 - x1)).
  { destruct (Rle_dec (s + t) 1) as [L|L].
    - assert (0 < (2 - (s + t)) * (x1 - x0)) by (apply Rmult_lt_0_compat; lra).
      assert (0 <= (s + t) * (x2 - x1)) by (apply Rmult_le_pos; lra). lra.
    - assert (0 <= (2 - (s + t)) * (x1 - x0)) by (apply Rmult_le_pos; lra).
      assert (0 < (s + t) * (x2 - x1)) by (apply Rmult_lt_0_compat; lra). lra. }
  lra.
Qed.

Lemma quad_x_monotone_coord_ok (q : seg3 R) t :
  px (q0 q) < px (q1 q) -> px (q1 q) < px (q2 q) -> 0 <= t <= 1 ->
  (let a := px (q0 q) - 2 * px (q1 q) + px (q2 q) in let b := 2 * (px (q1 q) - px (q0 q)) in
   a = 0 \/ 1 / 1000000000 * Rabs b < Rabs a) ->
  coord_ok (px (q0 q)) (px (q1 q)) (px (q2 q)) t.
Proof.
  cbv zeta. intros H01 H12 Ht [Ha|Ha]; [left; split; [exact Ha|lra]|right; split; [exact Ha|]].
  set (x0 := px (q0 q)) in *. set (x1 := px (q1 q)) in *. set (x2 := px (q2 q)) in *.
  assert (G : 0 < (1 - t) * (x1 - x0) + t * (x2 - x1)).
  { destruct (Rle_dec t (1 / 2)) as [L|L].
    - assert (0 < (1 - t) * (x1 - x0)) by (apply Rmult_lt_0_compat; lra).
      assert (0 <= t * (x2 - x1)) by (apply Rmult_le_pos; lra). lra.
    - assert (0 <= (1 - t) * (x1 - x0)) by (apply Rmult_le_pos; lra).
      assert (0 < t * (x2 - x1)) by (apply Rmult_lt_0_compat; lra). lra. }
  lra.
Qed.

(* exact inversion for a quadratic whose abscissae increase along the control polygon *)
Corollary quad_tOfPoint_inverse_monotone_x (q : seg3 R) (t : R) :
  0 <= t <= 1 ->
  px (q0 q) < px (q1 q) -> px (q1 q) < px (q2 q) ->
  (let a := px (q0 q) - 2 * px (q1 q) + px (q2 q) in let b := 2 * (px (q1 q) - px (q0 q)) in
   a = 0 \/ 1 / 1000000000 * Rabs b < Rabs a) ->
  coord_ok (py (q0 q)) (py (q1 q)) (py (q2 q)) t ->
  Quad_tOfPoint ROps q (Quad_pointAtTime ROps q t) = t.
Proof.
  intros Ht H01 H12 Ha Hy. apply quad_tOfPoint_inverse_unique; try assumption.
  - apply quad_x_monotone_coord_ok; assumption.
  - intros s Hs E. apply (quad_x_monotone_injective q s t); assumption.
Qed.

(* ------------------------------------------------------------------------------------------------ *)
(* examples: the statements are not vacuous, and the hypotheses are needed                            *)
(* ------------------------------------------------------------------------------------------------ *)

Lemma Rabs_lt_isclose_false a b : a <> b -> 1 / 1000000000 * Rabs b < Rabs (b - a) ->
  1 / 1000000000 * Rabs a < Rabs (b - a) -> isclose ROps a b = false.
Proof. intros. apply isclose_false_iff. tauto. Qed.

Ltac solve_abs := unfold Rabs; repeat match goal with |- context [Rcase_abs ?x] => destruct (Rcase_abs x) end; lra.

(* the line (1,1)-(4,5): both coordinates are well conditioned *)
Example line_inverse_example t : Line_tOfPoint ROps (L2 (P 1 1) (P 4 5)) (Line_pointAtTime ROps (L2 (P 1 1) (P 4 5)) t) false = t.
Proof.
  apply line_tOfPoint_inverse. left. cbn [l0 l1 px py].
  apply Rabs_lt_isclose_false; [lra|solve_abs|solve_abs].
Qed.

(* a vertical line is solved in y *)
Example line_inverse_vertical t : Line_tOfPoint ROps (L2 (P 2 0) (P 2 10)) (Line_pointAtTime ROps (L2 (P 2 0) (P 2 10)) t) false = t.
Proof.
  apply line_tOfPoint_inverse. right. cbn [l0 l1 px py].
  apply Rabs_lt_isclose_false; [lra|solve_abs|solve_abs].
Qed.

(* the point (0,1) is at distance 1 from the x axis: rejected *)
Example line_off_carrier_example : Line_tOfPoint ROps (L2 (P 0 0) (P 10 0)) (P 0 1) false = -1.
Proof.
  apply line_off_carrier_cross. cbn [l0 l1 px py].
  replace ((10 - 0) * (10 - 0) + (0 - 0) * (0 - 0)) with (10 * 10) by ring. rewrite sqrt_square by lra.
  solve_abs.
Qed.

(* ... but accepted when the caller swears (no re-check): the flag really switches the check off *)
Example line_sworn_example : Line_tOfPoint ROps (L2 (P 0 0) (P 10 0)) (P 5 1) true = 1 / 2.
Proof.
  rewrite line_tOfPoint_spec.
  assert (S : line_solve (L2 (P 0 0) (P 10 0)) (P 5 1) = Some ((5 - 0) / (10 - 0))).
  { destruct (line_solve_some (L2 (P 0 0) (P 10 0)) (P 5 1)) as [[_ E]|[N _]].
    - left. cbn [l0 l1 px py]. apply Rabs_lt_isclose_false; [lra|solve_abs|solve_abs].
    - exact E.
    - cbn [l0 l1 px py] in N. contradiction. }
  rewrite S. cbn [orb]. field.
Qed.

(* the same point with the check on is rejected: it is 1 away from the point at the solved parameter *)
Example line_checked_example : Line_tOfPoint ROps (L2 (P 0 0) (P 10 0)) (P 5 1) false = -1.
Proof.
  apply line_off_carrier_cross. cbn [l0 l1 px py].
  replace ((10 - 0) * (10 - 0) + (0 - 0) * (0 - 0)) with (10 * 10) by ring. rewrite sqrt_square by lra.
  solve_abs.
Qed.

(* the parabola (0,0) (1,2) (2,0): x is linear with slope 2, y is genuinely quadratic; every t other than the apex
   parameter 1/2 is recovered exactly *)
Example quad_inverse_example t : 0 <= t <= 1 -> t <> 1 / 2 ->
  Quad_tOfPoint ROps (Q3 (P 0 0) (P 1 2) (P 2 0)) (Quad_pointAtTime ROps (Q3 (P 0 0) (P 1 2) (P 2 0)) t) = t.
Proof.
  intros Ht Hn. apply quad_tOfPoint_inverse_monotone_x; cbn [q0 q1 q2 px py]; try lra.
  right. cbv zeta. split; [solve_abs|].
  intros E. apply Hn. lra.
Qed.

(* ---- the hypotheses of quad_tOfPoint_inverse are needed ---- *)

(* (a) the stationary parameter: at the apex of the parabola the discriminant of y(s) - y(1/2) is 0, the double root
   is not reported, and the lookup fails although the point is on the curve *)
Example quad_tOfPoint_apex_not_found :
  Quad_tOfPoint ROps (Q3 (P 0 0) (P 1 2) (P 2 0)) (Quad_pointAtTime ROps (Q3 (P 0 0) (P 1 2) (P 2 0)) (1 / 2)) = -1.
Proof.
  rewrite quad_tOfPoint_unfold. cbv zeta.
  match goal with |- context [isnil ?xr || isnil ?yr] => set (xs := xr); set (ys := yr) end.
  assert (Y : ys = []).
  { destruct ys as [|r0 rest] eqn:E; [reflexivity|exfalso].
    assert (I : In r0 ys) by (rewrite E; left; reflexivity).
    unfold ys in I. apply In_quadraticRoots in I. rewrite quad_eval_coords in I. cbn [px py q0 q1 q2] in I.
    destruct I as [(K & _)|(_ & K & _)].
    - revert K. solve_abs.
    - lra. }
  rewrite Y. cbn [isnil]. rewrite orb_true_r. reflexivity.
Qed.

Lemma quadraticRoots_linear_branch a b c :
  Rabs a <= 1 / 1000000000 * Rabs b -> b <> 0 -> 0 <= - c / b <= 1 ->
  utils_quadraticRoots ROps a b c = [- c / b].
Proof.
  intros Ha Hb [H0 H1]. rcbv. replace (0 / 1) with 0 by field. replace (1 / 1) with 1 by field.
  destruct (Rle_dec (Rabs a) (1 / 1000000000 * Rabs b)) as [_|N]; [|contradiction].
  destruct (Req_EM_T b 0) as [E|_]; [contradiction|].
  destruct (Rle_dec 0 (- c / b)) as [_|N]; [|contradiction].
  destruct (Rle_dec (- c / b) 1) as [_|N]; [|contradiction].
  reflexivity.
Qed.

(* (b) the in-between regime 0 < |a| <= 1e-9 |b|: quadraticRoots treats x(s) as linear and drops the a s^2 term, so
   the returned parameter is only close to t (here off by 2.5e-11), not equal to it *)
Example quad_tOfPoint_near_linear_inexact :
  let q := Q3 (P 0 0) (P (1 / 2) (1 / 2)) (P (1 + 1 / 10000000000) 1) in
  Quad_tOfPoint ROps q (Quad_pointAtTime ROps q (1 / 2)) = 1 / 2 + 1 / 40000000000.
Proof.
  cbv zeta. rewrite quad_tOfPoint_unfold. cbv zeta. rewrite quad_eval_coords. cbn [px py q0 q1 q2].
  rewrite (quadraticRoots_linear_branch (0 - 2 * (1 / 2) + (1 + 1 / 10000000000))); [|solve_abs|lra|split; lra].
  rewrite (quadraticRoots_linear_branch (0 - 2 * (1 / 2) + 1)); [|solve_abs|lra|split; lra].
  cbn [isnil orb].
  erewrite pair_search_head; [|left; reflexivity|].
  - field.
  - match goal with |- Rabs ?z < _ => replace z with (1 / 40000000000) by field end. solve_abs.
Qed.

(* (c) floating point: on a line ~4e8 units from the origin, the point at t = 1e-12 rounds to one ulp (6e-8) BEFORE the
   start point, and the lookup (a correctly rounded affine inverse) returns -1.1e-10, a parameter outside [0,1].  Over R
   the lookup returns t itself (line_tOfPoint_inverse); this is the binary64 instance of the same regenerated text,
   bit-identical to CPython (recorded as known finding C15-line-end-rounding) *)
Definition line_end_rounding_witness : seg2 float :=
  L2 (P 0x1.72ef14beb63fap+28%float (-0x1.f9d2cc8fd4537p+27)%float) (P 0x1.72eef2f4fba79p+28%float (-0x1.f9d2c4518effep+27)%float).
Example line_end_rounding_float_refuted :
  let l := line_end_rounding_witness in
  PrimFloat.ltb (Line_tOfPoint FOps l (Line_pointAtTime FOps l 0x1.19799812dea11p-40%float) false) 0%float = true.
Proof. vm_compute. reflexivity. Qed.
