(* C16 -- arc-length parametrisation and sampling: lemmas about the generated X_lengthAtTime / X_pointAtTime and the
   hand model Hand/Sample.v (sample, regularSampleTValue, regularSample, path_pointAtTime, path_lengthAtTime). *)
From Coq Require Import PrimFloat.
From Coq Require Import ZArith List Bool Reals Lra Lia Psatz Sorted.
From BZ Require Import Base.Ops Proofs.Tactics Gen.Point Gen.Line Gen.Quad Gen.Cubic Hand.Sample Proofs.C01 Proofs.C04.
Import ListNotations.
Open Scope R_scope.

(* ------------------------------------------------------------------------------------------------ *)
(* 1. Segments: the length up to t is 0 at t = 0 and the full length at t = 1 (exactly, over R)       *)
(* ------------------------------------------------------------------------------------------------ *)
Lemma line_lengthAt_0 (s : seg2 R) : Line_lengthAtTime ROps s 0 = 0.
Proof. rewrite line_lengthAtTime_spec by lra. ring. Qed.
Lemma line_lengthAt_1 (s : seg2 R) : Line_lengthAtTime ROps s 1 = Line_length ROps s.
Proof. rewrite line_lengthAtTime_spec by lra. ring. Qed.

Lemma quad_split_at_1 (s : seg3 R) : fst (Quad_splitAtTime ROps s 1) = s.
Proof. destruct_pts. rcbv. f_equal; apply pt_eq; ring. Qed.
Lemma cubic_split_at_1 (s : seg4 R) : fst (Cubic_splitAtTime ROps s 1) = s.
Proof. destruct_pts. rcbv. f_equal; apply pt_eq; ring. Qed.
Lemma quad_lengthAt_fst (s : seg3 R) t : Quad_lengthAtTime ROps s t = Quad_length ROps (fst (Quad_splitAtTime ROps s t)).
Proof. unfold Quad_lengthAtTime. destruct (Quad_splitAtTime ROps s t). reflexivity. Qed.
Lemma cubic_lengthAt_fst (s : seg4 R) t : Cubic_lengthAtTime ROps s t = Cubic_length ROps (fst (Cubic_splitAtTime ROps s t)).
Proof. unfold Cubic_lengthAtTime. destruct (Cubic_splitAtTime ROps s t). reflexivity. Qed.
Lemma quad_lengthAt_1 (s : seg3 R) : Quad_lengthAtTime ROps s 1 = Quad_length ROps s.
Proof. rewrite quad_lengthAt_fst, quad_split_at_1. reflexivity. Qed.
Lemma cubic_lengthAt_1 (s : seg4 R) : Cubic_lengthAtTime ROps s 1 = Cubic_length ROps s.
Proof. rewrite cubic_lengthAt_fst, cubic_split_at_1. reflexivity. Qed.

(* at t = 0 the left piece is the start point repeated: its speed vanishes identically, so does the quadrature *)
Lemma gl_length_zero : gl_length (fun _ => 0) = 0.
Proof.
  replace (gl_length (fun _ : R => 0)) with (gl_length (fun t => 0 * (fun _ => 0) t)).
  - rewrite gl_length_scal. ring.
  - apply gl_length_ext. intros. ring.
Qed.
Lemma quad_split_at_0 (s : seg3 R) : fst (Quad_splitAtTime ROps s 0) = Q3 (q0 s) (q0 s) (q0 s).
Proof. destruct_pts. rcbv. f_equal; apply pt_eq; ring. Qed.
Lemma cubic_split_at_0 (s : seg4 R) : fst (Cubic_splitAtTime ROps s 0) = C4 (c0 s) (c0 s) (c0 s) (c0 s).
Proof. destruct_pts. rcbv. f_equal; apply pt_eq; ring. Qed.
Lemma quad_point_length (p : pt R) : Quad_length ROps (Q3 p p p) = 0.
Proof.
  rewrite quad_length_speed. rewrite <- gl_length_zero. apply gl_length_ext. intro t.
  unfold quad_speed, norm2, quad_dx, quad_dy. destruct p as [x y].
  replace (_ * _ + _ * _) with 0 by (rcbv; ring). apply sqrt_0.
Qed.
Lemma cubic_point_length (p : pt R) : Cubic_length ROps (C4 p p p p) = 0.
Proof.
  rewrite cubic_length_speed. rewrite <- gl_length_zero. apply gl_length_ext. intro t.
  unfold cubic_speed, norm2, cubic_dx, cubic_dy. destruct p as [x y].
  replace (_ * _ + _ * _) with 0 by (rcbv; ring). apply sqrt_0.
Qed.
Lemma quad_lengthAt_0 (s : seg3 R) : Quad_lengthAtTime ROps s 0 = 0.
Proof. rewrite quad_lengthAt_fst, quad_split_at_0. apply quad_point_length. Qed.
Lemma cubic_lengthAt_0 (s : seg4 R) : Cubic_lengthAtTime ROps s 0 = 0.
Proof. rewrite cubic_lengthAt_fst, cubic_split_at_0. apply cubic_point_length. Qed.

(* the same for the tagged union used by paths *)
Lemma seg_lengthAt_0 (s : segment R) : seg_lengthAt ROps s 0 = 0.
Proof. destruct s; cbn [seg_lengthAt]; [apply line_lengthAt_0 | apply quad_lengthAt_0 | apply cubic_lengthAt_0]. Qed.
Lemma seg_lengthAt_1 (s : segment R) : seg_lengthAt ROps s 1 = seg_length ROps s.
Proof. destruct s; cbn [seg_lengthAt seg_length]; [apply line_lengthAt_1 | apply quad_lengthAt_1 | apply cubic_lengthAt_1]. Qed.
Lemma seg_pointAt_0 (s : segment R) : seg_pointAt ROps s 0 = seg_start s.
Proof. destruct s; cbn [seg_pointAt seg_start]; [apply line_eval_0 | apply quad_eval_0 | apply cubic_eval_0]. Qed.
Lemma seg_pointAt_1 (s : segment R) : seg_pointAt ROps s 1 = seg_end s.
Proof. destruct s; cbn [seg_pointAt seg_end]; [apply line_eval_1 | apply quad_eval_1 | apply cubic_eval_1]. Qed.
Lemma line_length_nonneg (s : seg2 R) : 0 <= Line_length ROps s.
Proof. unfold Line_length. rewrite distanceFrom_norm2. apply norm2_nonneg. Qed.
Lemma seg_length_nonneg (s : segment R) : 0 <= seg_length ROps s.
Proof. destruct s; cbn [seg_length]; [apply line_length_nonneg | apply quad_length_nonneg | apply cubic_length_nonneg]. Qed.
Lemma seg_lengthAt_nonneg (s : segment R) t : 0 <= seg_lengthAt ROps s t.
Proof.
  destruct s; cbn [seg_lengthAt].
  - unfold Line_lengthAtTime. destruct (Line_splitAtTime ROps s t). apply line_length_nonneg.
  - rewrite quad_lengthAt_fst. apply quad_length_nonneg.
  - rewrite cubic_lengthAt_fst. apply cubic_length_nonneg.
Qed.

(* ------------------------------------------------------------------------------------------------ *)
(* 2. Paths: list access by a real counter, floor, evaluation formula, joints, end values             *)
(* ------------------------------------------------------------------------------------------------ *)
Ltac rconst := change (one ROps) with 1 in *; change (zero ROps) with 0 in *.

Lemma nth_T_INR {A} (l : list A) : forall k : nat, nth_T ROps l (INR k) = nth_error l k.
Proof.
  induction l as [|a l IH]; intros [|k]; cbn [nth_T nth_error]; try reflexivity; rconst.
  - rewrite (proj2 (Rltb_true (INR 0) 1)) by (cbn; lra). reflexivity.
  - rewrite (proj2 (Rltb_false (INR (S k)) 1)) by (rewrite S_INR; pose proof (pos_INR k); lra).
    replace (sub ROps (INR (S k)) 1) with (INR k) by (rewrite S_INR; cbn; ring). apply IH.
Qed.
Lemma take_T_INR {A} (l : list A) : forall k : nat, take_T ROps l (INR k) = firstn k l.
Proof.
  induction l as [|a l IH]; intros [|k]; cbn [take_T firstn]; try reflexivity; rconst.
  - rewrite (proj2 (Rltb_true (INR 0) 1)) by (cbn; lra). reflexivity.
  - rewrite (proj2 (Rltb_false (INR (S k)) 1)) by (rewrite S_INR; pose proof (pos_INR k); lra).
    replace (sub ROps (INR (S k)) 1) with (INR k) by (rewrite S_INR; cbn; ring). now rewrite IH.
Qed.
Lemma py_index_INR {A} (l : list A) (k : nat) : py_index ROps l (INR k) = nth_error l k.
Proof.
  unfold py_index. rconst. rewrite (proj2 (Rltb_false (INR k) 0)) by apply pos_INR. apply nth_T_INR.
Qed.
Lemma py_slice_to_INR {A} (l : list A) (k : nat) : py_slice_to ROps l (INR k) = firstn k l.
Proof.
  unfold py_slice_to. rconst. rewrite (proj2 (Rltb_false (INR k) 0)) by apply pos_INR. apply take_T_INR.
Qed.
Lemma py_floor_R x : py_floor ROps x = Ok (IZR (Int_part x)).
Proof. unfold py_floor. cbn. destruct (Req_EM_T x x); [reflexivity | contradiction]. Qed.
Lemma Int_part_nat x (k : nat) : INR k <= x < INR k + 1 -> IZR (Int_part x) = INR k.
Proof.
  intros [H1 H2]. destruct (base_Int_part x) as [B1 B2]. rewrite INR_IZR_INZ in *.
  f_equal. apply Z.le_antisymm.
  - apply Z.lt_succ_r. apply lt_IZR. rewrite succ_IZR. lra.
  - apply Z.lt_succ_r. apply lt_IZR. rewrite succ_IZR. lra.
Qed.
Lemma ofZ_length {A} (l : list A) : ofZ ROps (Z.of_nat (length l)) = INR (length l).
Proof. cbn. now rewrite INR_IZR_INZ. Qed.

(* consecutive segments share their joint: the form every constructor of the library produces *)
Fixpoint connected (segs : list (segment R)) : Prop :=
  match segs with
  | a :: ((b :: _) as r) => seg_end a = seg_start b /\ connected r
  | _ => True
  end.
Lemma connected_nth segs : forall k a b, connected segs ->
  nth_error segs k = Some a -> nth_error segs (S k) = Some b -> seg_end a = seg_start b.
Proof.
  induction segs as [|x [|y r] IH]; intros k a b Hc Ha Hb.
  - destruct k; discriminate.
  - destruct k; cbn in Hb; try discriminate; destruct k; discriminate.
  - destruct Hc as [Hj Hc]. destruct k.
    + cbn in Ha, Hb. inversion Ha; inversion Hb; subst. exact Hj.
    + apply (IH k a b Hc); assumption.
Qed.
Lemma last_opt_nth {A} (l : list A) : forall k s, nth_error l k = Some s -> S k = length l -> last_opt l = Some s.
Proof.
  induction l as [|x [|y r] IH]; intros k s Hn Hl.
  - discriminate.
  - destruct k; cbn in *; [congruence | lia].
  - destruct k; [cbn in Hl; lia|]. change (last_opt (x :: y :: r)) with (last_opt (y :: r)).
    apply (IH k); [exact Hn | cbn in *; lia].
Qed.
Lemma last_opt_nonempty {A} (l : list A) : l <> [] -> exists s, last_opt l = Some s.
Proof.
  induction l as [|x [|y r] IH]; intro H; [contradiction | eexists; reflexivity |].
  destruct IH as [s Hs]; [discriminate|]. exists s. exact Hs.
Qed.

(* a path evaluated at t in [0,1) is its segment number floor(t*n) at the fractional parameter *)
Lemma path_eval_index segs t (k : nat) s : t <> 1 ->
  INR k <= t * INR (length segs) < INR k + 1 -> nth_error segs k = Some s ->
  path_pointAtTime ROps segs t = Ok (seg_pointAt ROps s (t * INR (length segs) - INR k)).
Proof.
  intros Ht Hk Hs. unfold path_pointAtTime. rconst.
  rewrite (proj2 (Reqb_false t 1)) by exact Ht.
  rewrite ofZ_length. change (mul ROps t (INR (length segs))) with (t * INR (length segs)).
  rewrite py_floor_R. cbn [bind]. rewrite (Int_part_nat _ k Hk), py_index_INR, Hs. reflexivity.
Qed.
(* ... and at t = 1 it is the end of the last segment *)
Lemma path_eval_at_1 segs s : last_opt segs = Some s -> path_pointAtTime ROps segs 1 = Ok (seg_end s).
Proof.
  intro H. unfold path_pointAtTime. rconst. rewrite (proj2 (Reqb_true 1 1)) by reflexivity.
  rewrite H. now rewrite seg_pointAt_1.
Qed.
(* on the CLOSED parameter interval of segment k the path is that segment, right end included: at a joint k/n the
   value (start of segment k) equals the left limit (end of segment k-1), and t = 1 gives the path's end *)
Lemma path_eval_closed_piece segs t (k : nat) s : connected segs ->
  nth_error segs k = Some s -> INR k <= t * INR (length segs) <= INR k + 1 ->
  path_pointAtTime ROps segs t = Ok (seg_pointAt ROps s (t * INR (length segs) - INR k)).
Proof.
  intros Hc Hs [H1 H2].
  assert (Hkn : (k < length segs)%nat) by (apply nth_error_Some; congruence).
  assert (Hn : 0 < INR (length segs)) by (apply lt_0_INR; lia).
  destruct (Rle_lt_or_eq_dec _ _ H2) as [Hlt | Heq].
  - apply path_eval_index; [|lra|exact Hs].
    intro E. subst t. rewrite Rmult_1_l in Hlt.
    assert (INR k + 1 <= INR (length segs)) by (rewrite <- S_INR; apply le_INR; lia). lra.
  - replace (t * INR (length segs) - INR k) with 1 by lra. rewrite seg_pointAt_1.
    destruct (Nat.eq_dec (S k) (length segs)) as [E | NE].
    + assert (t = 1). { rewrite <- S_INR, E in Heq. apply (Rmult_eq_reg_r (INR (length segs))); lra. }
      subst t. apply path_eval_at_1. apply (last_opt_nth _ k); assumption.
    + assert (Hk1 : (S k < length segs)%nat) by lia.
      destruct (nth_error segs (S k)) as [s'|] eqn:Hs'; [|apply nth_error_None in Hs'; lia].
      rewrite (path_eval_index segs t (S k) s'); [| |rewrite S_INR; lra|exact Hs'].
      * replace (t * INR (length segs) - INR (S k)) with 0 by (rewrite S_INR; lra).
        rewrite seg_pointAt_0. f_equal. symmetry. apply (connected_nth segs k); assumption.
      * intro E. subst t. apply lt_INR in Hk1. rewrite S_INR in Hk1. lra.
Qed.
Lemma path_eval_continuous_at_joints segs (k : nat) a b : connected segs ->
  nth_error segs k = Some a -> nth_error segs (S k) = Some b ->
  let t := INR (S k) / INR (length segs) in
  path_pointAtTime ROps segs t = Ok (seg_start b) /\          (* the value at the joint *)
  seg_pointAt ROps a 1 = seg_start b /\                       (* = the left limit: segment k at its end *)
  seg_pointAt ROps b 0 = seg_start b.                         (* = the right limit: segment k+1 at its start *)
Proof.
  intros Hc Ha Hb t.
  assert (Hkn : (S k < length segs)%nat) by (apply nth_error_Some; congruence).
  assert (Hn : 0 < INR (length segs)) by (apply lt_0_INR; lia).
  assert (Ht : t * INR (length segs) = INR (S k)) by (unfold t; field; lra).
  repeat split.
  - rewrite (path_eval_closed_piece segs t (S k) b Hc Hb) by lra.
    rewrite Ht, Rminus_diag_eq by reflexivity. now rewrite seg_pointAt_0.
  - rewrite seg_pointAt_1. apply (connected_nth segs k); assumption.
  - apply seg_pointAt_0.
Qed.

(* the length up to t: complete at t = 1, zero at t = 0 *)
Lemma path_lengthAt_1 segs : path_lengthAtTime ROps segs 1 = Ok (path_length ROps segs).
Proof. unfold path_lengthAtTime. rconst. now rewrite (proj2 (Reqb_true 1 1)). Qed.
Lemma path_lengthAt_0 segs : segs <> [] -> path_lengthAtTime ROps segs 0 = Ok 0.
Proof.
  intro Hne. destruct segs as [|s r]; [contradiction|].
  unfold path_lengthAtTime. rconst. rewrite (proj2 (Reqb_false 0 1)) by lra.
  rewrite ofZ_length. change (mul ROps 0 ?x) with (0 * x). rewrite Rmult_0_l, py_floor_R. cbn [bind].
  rewrite (Int_part_nat 0 0) by (cbn; lra). rewrite py_slice_to_INR, py_index_INR. cbn [firstn nth_error].
  change (sub ROps 0 (INR 0)) with (0 - 0). rewrite Rminus_0_r, seg_lengthAt_0. f_equal. cbn. ring.
Qed.

(* no query fails on a non-empty path for any t in [0,1], 1.0 included *)
Lemma path_index_exists (segs : list (segment R)) t : segs <> [] -> 0 <= t < 1 ->
  exists k s, INR k <= t * INR (length segs) < INR k + 1 /\ nth_error segs k = Some s.
Proof.
  intros Hne [H0 H1]. set (n := length segs).
  assert (Hn : 0 < INR n) by (apply lt_0_INR; destruct segs; [contradiction | cbn; lia]).
  set (x := t * INR n). assert (Hx : 0 <= x < INR n) by (unfold x; nra).
  destruct (base_Int_part x) as [B1 B2].
  assert (Hz : (0 <= Int_part x)%Z).
  { apply Z.lt_succ_r. apply lt_IZR. rewrite succ_IZR. lra. }
  exists (Z.to_nat (Int_part x)).
  assert (EI : INR (Z.to_nat (Int_part x)) = IZR (Int_part x)) by (rewrite INR_IZR_INZ, Z2Nat.id; auto).
  assert (Hk : (Z.to_nat (Int_part x) < n)%nat).
  { apply INR_lt. rewrite EI. lra. }
  destruct (nth_error segs (Z.to_nat (Int_part x))) as [s|] eqn:E; [|apply nth_error_None in E; fold n in E; lia].
  exists s. split; [rewrite EI; fold x; lra | reflexivity].
Qed.
Lemma path_pointAt_ok segs t : segs <> [] -> 0 <= t <= 1 -> exists p, path_pointAtTime ROps segs t = Ok p.
Proof.
  intros Hne [H0 H1]. destruct (Req_dec t 1) as [E | NE].
  - subst. destruct (last_opt_nonempty segs Hne) as [s Hs]. eexists. apply (path_eval_at_1 _ _ Hs).
  - destruct (path_index_exists segs t Hne) as (k & s & Hk & Hs); [lra|].
    eexists. apply (path_eval_index segs t k s NE Hk Hs).
Qed.
Lemma path_lengthAt_index segs t (k : nat) s : t <> 1 ->
  INR k <= t * INR (length segs) < INR k + 1 -> nth_error segs k = Some s ->
  path_lengthAtTime ROps segs t =
  Ok (sum_lengths ROps (firstn k segs) + seg_lengthAt ROps s (t * INR (length segs) - INR k)).
Proof.
  intros Ht Hk Hs. unfold path_lengthAtTime. rconst.
  rewrite (proj2 (Reqb_false t 1)) by exact Ht.
  rewrite ofZ_length. change (mul ROps t (INR (length segs))) with (t * INR (length segs)).
  rewrite py_floor_R. cbn [bind]. rewrite (Int_part_nat _ k Hk), py_index_INR, py_slice_to_INR, Hs. reflexivity.
Qed.
Lemma path_lengthAt_ok segs t : segs <> [] -> 0 <= t <= 1 -> exists v, path_lengthAtTime ROps segs t = Ok v.
Proof.
  intros Hne [H0 H1]. destruct (Req_dec t 1) as [E | NE].
  - subst. eexists. apply path_lengthAt_1.
  - destruct (path_index_exists segs t Hne) as (k & s & Hk & Hs); [lra|].
    eexists. apply (path_lengthAt_index segs t k s NE Hk Hs).
Qed.
Lemma sum_lengths_nonneg segs : 0 <= sum_lengths ROps segs.
Proof.
  unfold sum_lengths. change (ofZ ROps 0) with 0.
  assert (G : forall l a, 0 <= a -> 0 <= fold_left (fun acc s => add ROps acc (seg_length ROps s)) l a).
  { induction l as [|s l IH]; intros a Ha; cbn [fold_left]; [exact Ha|].
    apply IH. change (add ROps a ?y) with (a + y). pose proof (seg_length_nonneg s). lra. }
  apply G. lra.
Qed.
Lemma path_length_nonneg segs : 0 <= path_length ROps segs.
Proof. apply sum_lengths_nonneg. Qed.

(* ------------------------------------------------------------------------------------------------ *)
(* 3. The sampling loops over R, for an arbitrary receiver and an arbitrary positive step             *)
(* ------------------------------------------------------------------------------------------------ *)
(* adjacent-pairs order *)
Fixpoint nondecr (l : list R) : Prop :=
  match l with
  | a :: ((b :: _) as r) => a <= b /\ nondecr r
  | _ => True
  end.
Definition in01 (x : R) : Prop := 0 <= x <= 1.
(* the arithmetic progression t, t + step, ..., t + (m-1) step -- what `t += step` produces over R *)
Definition prog (t step : R) (m : nat) : list R := map (fun i => t + INR i * step) (seq 0 m).

Lemma prog_S t step m : prog t step (S m) = t :: prog (t + step) step m.
Proof.
  unfold prog. cbn [seq map]. f_equal; [cbn; ring|].
  rewrite <- seq_shift, map_map. apply map_ext. intro i. rewrite S_INR. ring.
Qed.
Lemma prog_In t step m x : In x (prog t step m) -> exists i, (i < m)%nat /\ x = t + INR i * step.
Proof.
  unfold prog. intro H. apply in_map_iff in H. destruct H as (i & E & Hi). apply in_seq in Hi.
  exists i. split; [lia | now symmetry].
Qed.
Lemma prog_length t step m : length (prog t step m) = m.
Proof. unfold prog. now rewrite map_length, seq_length. Qed.
Lemma prog_nth step : forall m t i, (i < m)%nat -> nth i (prog t step m) 0 = t + INR i * step.
Proof.
  induction m as [|m IH]; intros t i Hi; [lia|]. rewrite prog_S. destruct i as [|i]; cbn [nth].
  - cbn. ring.
  - rewrite IH by lia. rewrite S_INR. ring.
Qed.
Lemma prog_sorted step : 0 <= step -> forall m t, StronglySorted Rle (prog t step m).
Proof.
  intros Hs. induction m as [|m IH]; intro t; [constructor|].
  rewrite prog_S. constructor; [apply IH|].
  apply Forall_forall. intros x Hx. apply prog_In in Hx. destruct Hx as (i & _ & ->).
  pose proof (pos_INR i). nra.
Qed.
Lemma last_opt_app {A} (l : list A) a : last_opt (l ++ [a]) = Some a.
Proof.
  induction l as [|x [|y r] IH]; [reflexivity | reflexivity |].
  change ((x :: y :: r) ++ [a]) with (x :: (y :: r) ++ [a]).
  change (last_opt (x :: (y :: r) ++ [a])) with (last_opt ((y :: r) ++ [a])). exact IH.
Qed.
Lemma last_opt_In {A} (l : list A) a : last_opt l = Some a -> In a l.
Proof.
  induction l as [|x [|y r] IH]; intro H; [discriminate | inversion H; now left |].
  right. apply IH. exact H.
Qed.
Lemma nondecr_cons a l : (forall b, hd_error l = Some b -> a <= b) -> nondecr l -> nondecr (a :: l).
Proof. destruct l as [|b r]; intros H1 H2; [exact I|]. split; [apply H1; reflexivity | exact H2]. Qed.
Lemma nondecr_tail a l : nondecr (a :: l) -> nondecr l.
Proof. destruct l; intro H; [exact I | apply H]. Qed.
Lemma nondecr_app_last l : forall x a, nondecr l -> last_opt l = Some x -> x <= a -> nondecr (l ++ [a]).
Proof.
  induction l as [|y [|z r] IH]; intros x a Hn Hl Hx; [discriminate | |].
  - inversion Hl; subst. cbn. auto.
  - destruct Hn as [Hyz Hn]. change ((y :: z :: r) ++ [a]) with (y :: z :: (r ++ [a])).
    split; [exact Hyz|]. apply (IH x a Hn); [exact Hl | exact Hx].
Qed.
Lemma sorted_nondecr l : StronglySorted Rle l -> nondecr l.
Proof.
  induction l as [|a l IH]; intro H; [exact I|]. apply StronglySorted_inv in H. destruct H as [Hs Hf].
  apply nondecr_cons; [|apply IH; exact Hs].
  intros b Hb. destruct l; [discriminate|]. inversion Hb; subst. now inversion Hf.
Qed.
Lemma nondecr_hd_le_last l : forall a x, nondecr (a :: l) -> last_opt (a :: l) = Some x -> a <= x.
Proof.
  induction l as [|b r IH]; intros a x Hn Hl.
  - inversion Hl. lra.
  - destruct Hn as [Hab Hn]. change (last_opt (a :: b :: r)) with (last_opt (b :: r)) in Hl.
    pose proof (IH b x Hn Hl). lra.
Qed.

(* mapM: a successful comprehension pairs every argument with its value, in order *)
Lemma mapM_cons {A B} (f : A -> res B) a l r : mapM f (a :: l) = Ok r ->
  exists b r', r = b :: r' /\ f a = Ok b /\ mapM f l = Ok r'.
Proof.
  cbn [mapM]. destruct (f a) as [b|e]; cbn [bind]; [|discriminate].
  destruct (mapM f l) as [r'|e]; cbn [bind]; [|discriminate]. intro H. inversion H. eauto.
Qed.
Lemma mapM_Forall2 {A B} (f : A -> res B) l : forall r, mapM f l = Ok r -> Forall2 (fun a b => f a = Ok b) l r.
Proof.
  induction l as [|a l IH]; intros r H.
  - inversion H. constructor.
  - apply mapM_cons in H. destruct H as (b & r' & -> & Hb & Hr). constructor; [exact Hb | apply IH; exact Hr].
Qed.
Lemma mapM_ok {A B} (f : A -> res B) l : (forall a, In a l -> exists b, f a = Ok b) -> exists r, mapM f l = Ok r.
Proof.
  induction l as [|a l IH]; intro H; [eexists; reflexivity|].
  destruct (H a (or_introl eq_refl)) as [b Hb]. destruct IH as [r Hr]; [intros; apply H; now right|].
  exists (b :: r). cbn [mapM]. now rewrite Hb, Hr.
Qed.
Lemma mapM_app1 {A B} (f : A -> res B) l a : forall r, mapM f (l ++ [a]) = Ok r ->
  exists r' b, r = r' ++ [b] /\ f a = Ok b /\ mapM f l = Ok r'.
Proof.
  induction l as [|x l IH]; intros r H.
  - cbn [app] in H. apply mapM_cons in H. destruct H as (b & r' & -> & Hb & Hr). inversion Hr; subst.
    exists [], b. auto.
  - change ((x :: l) ++ [a]) with (x :: (l ++ [a])) in H. apply mapM_cons in H.
    destruct H as (y & r0 & -> & Hy & Hr). destruct (IH _ Hr) as (r' & b & -> & Hb & Hr').
    exists (y :: r'), b. repeat split; [exact Hb|]. cbn [mapM]. now rewrite Hy, Hr'.
Qed.

Section Generic.
Variable pointAt : R -> res (pt R).
Variable lengthAt : R -> res R.
Variable len : R.

(* ---- sample ---- *)
(* the loop visits t, t+step, ... while <= 1 and then appends 1: the list is [prog t step m ++ [1]] with m minimal *)
Lemma sample_ts_spec step : 0 < step -> forall fuel t l, sample_ts ROps fuel step t = Ok l ->
  exists m, l = prog t step m ++ [1] /\ (forall i, (i < m)%nat -> t + INR i * step <= 1) /\ 1 < t + INR m * step.
Proof.
  intros Hs. induction fuel as [|f IH]; intros t l H; [discriminate|].
  cbn [sample_ts] in H. rconst. destruct (leb ROps t 1) eqn:E.
  - apply Rleb_true in E. change (add ROps t step) with (t + step) in H.
    destruct (sample_ts ROps f step (t + step)) as [r|e] eqn:Er; cbn [bind] in H; [|discriminate].
    inversion H; subst l. destruct (IH _ _ Er) as (m & -> & Hle & Hgt).
    exists (S m). rewrite prog_S. repeat split.
    + intros [|i] Hi; [cbn; lra|]. specialize (Hle i ltac:(lia)). rewrite S_INR. lra.
    + rewrite S_INR. lra.
  - apply Rleb_false in E. unfold neqb in H. rewrite (proj2 (Reqb_false t 1)) in H by lra. cbn [negb] in H.
    inversion H. exists 0%nat. repeat split; [intros; lia | cbn; lra].
Qed.
(* the points are the receiver's pointAtTime at those parameters, called in that order *)
Lemma sample_loop_ts step : forall fuel t pts, sample_loop ROps pointAt fuel step t = Ok pts ->
  exists ts, sample_ts ROps fuel step t = Ok ts /\ mapM pointAt ts = Ok pts.
Proof.
  induction fuel as [|f IH]; intros t pts H; [discriminate|].
  cbn [sample_loop sample_ts] in *. rconst. destruct (leb ROps t 1).
  - destruct (pointAt t) as [p|e] eqn:Ep; cbn [bind] in H; [|discriminate].
    destruct (sample_loop ROps pointAt f step (add ROps t step)) as [r|e] eqn:Er; cbn [bind] in H; [|discriminate].
    inversion H; subst. destruct (IH _ _ Er) as (ts & Hts & Hm). rewrite Hts. cbn [bind].
    eexists; split; [reflexivity|]. cbn [mapM]. now rewrite Ep, Hm.
  - destruct (neqb ROps t 1).
    + destruct (pointAt 1) as [p|e] eqn:Ep; cbn [bind] in H; [|discriminate]. inversion H; subst.
      eexists; split; [reflexivity|]. cbn [mapM]. now rewrite Ep.
    + inversion H; subst. eexists; split; reflexivity.
Qed.
Lemma sample_loop_of_ts step : forall fuel t ts pts, sample_ts ROps fuel step t = Ok ts -> mapM pointAt ts = Ok pts ->
  sample_loop ROps pointAt fuel step t = Ok pts.
Proof.
  induction fuel as [|f IH]; intros t ts pts H Hm; [discriminate|].
  cbn [sample_loop sample_ts] in *. rconst. destruct (leb ROps t 1).
  - destruct (sample_ts ROps f step (add ROps t step)) as [r|e] eqn:Er; cbn [bind] in H; [|discriminate].
    inversion H; subst. apply mapM_cons in Hm. destruct Hm as (b & r' & -> & Hb & Hr).
    rewrite Hb. cbn [bind]. now rewrite (IH _ _ _ Er Hr).
  - destruct (neqb ROps t 1); inversion H; subst.
    + apply mapM_cons in Hm. destruct Hm as (b & r' & -> & Hb & Hr). inversion Hr. now rewrite Hb.
    + inversion Hm. reflexivity.
Qed.
Lemma sample_ts_ok step : 0 < step -> forall f t, 1 - t < INR f * step -> exists l, sample_ts ROps (S f) step t = Ok l.
Proof.
  intros Hs. induction f as [|f IH]; intros t Ht.
  - cbn in Ht. cbn [sample_ts]. rconst. rewrite (proj2 (Rleb_false t 1)) by lra.
    unfold neqb. rewrite (proj2 (Reqb_false t 1)) by lra. eexists; reflexivity.
  - remember (S f) as f'. cbn [sample_ts]. rconst. destruct (leb ROps t 1) eqn:E.
    + subst f'. destruct (IH (add ROps t step)) as [l Hl].
      { change (add ROps t step) with (t + step). rewrite S_INR in Ht. lra. }
      rewrite Hl. eexists; reflexivity.
    + apply Rleb_false in E. unfold neqb. rewrite (proj2 (Reqb_false t 1)) by lra. eexists; reflexivity.
Qed.

(* C16: plain sampling.  For samples > 0 a successful call returns pointAtTime at 0, step, 2 step, ... (all <= 1) and then at 1 *)
Theorem sample_params fuel samples pts : 0 < samples -> sample ROps pointAt fuel samples = Ok pts ->
  exists m, (1 <= m)%nat /\ mapM pointAt (prog 0 (1 / samples) m ++ [1]) = Ok pts /\
            (forall i, (i < m)%nat -> INR i * (1 / samples) <= 1) /\ 1 < INR m * (1 / samples).
Proof.
  intros Hn H. unfold sample in H. rconst. rewrite (proj2 (Reqb_false samples 0)) in H by lra.
  change (dvd ROps 1 samples) with (1 / samples) in H.
  assert (Hs : 0 < 1 / samples) by (apply Rdiv_lt_0_compat; lra).
  destruct (sample_loop_ts _ _ _ _ H) as (ts & Hts & Hm).
  destruct (sample_ts_spec _ Hs _ _ _ Hts) as (m & -> & Hle & Hgt).
  exists m. repeat split; [| exact Hm | intros i Hi; specialize (Hle i Hi); lra | lra].
  destruct m; [cbn in Hgt; lra | lia].
Qed.
Theorem sample_first_last fuel samples pts : 0 < samples -> sample ROps pointAt fuel samples = Ok pts ->
  exists p0 p1, pointAt 0 = Ok p0 /\ pointAt 1 = Ok p1 /\ hd_error pts = Some p0 /\ last_opt pts = Some p1.
Proof.
  intros Hn H. destruct (sample_params _ _ _ Hn H) as (m & Hm1 & Hm & _ & _).
  destruct m as [|m]; [lia|]. rewrite prog_S in Hm.
  apply mapM_app1 in Hm. destruct Hm as (r' & p1 & -> & Hp1 & Hr).
  apply mapM_cons in Hr. destruct Hr as (p0 & r'' & -> & Hp0 & _).
  exists p0, p1. repeat split; [exact Hp0 | exact Hp1 | apply last_opt_app].
Qed.
Lemma prog_app_1_order t step m : 0 <= t -> 0 < step -> (forall i, (i < m)%nat -> t + INR i * step <= 1) ->
  nondecr (prog t step m ++ [1]) /\ Forall in01 (prog t step m ++ [1]).
Proof.
  intros Ht Hs Hle. split.
  - destruct m as [|m]; [exact I|].
    destruct (last_opt_nonempty (prog t step (S m))) as [x El]; [rewrite prog_S; discriminate|].
    apply (nondecr_app_last _ x); [apply sorted_nondecr, prog_sorted; lra | exact El |].
    apply last_opt_In, prog_In in El. destruct El as (i & Hi & ->). apply Hle, Hi.
  - apply Forall_app. split; [|constructor; [unfold in01; lra | constructor]].
    apply Forall_forall. intros x Hx. apply prog_In in Hx. destruct Hx as (i & Hi & ->).
    specialize (Hle i Hi). pose proof (pos_INR i). unfold in01. nra.
Qed.
Theorem sample_param_order fuel samples pts : 0 < samples -> sample ROps pointAt fuel samples = Ok pts ->
  exists ts, mapM pointAt ts = Ok pts /\ nondecr ts /\ Forall in01 ts /\ hd_error ts = Some 0 /\ last_opt ts = Some 1 /\
             forall i, (S i < length ts)%nat -> nth i ts 0 = INR i * (1 / samples).
Proof.
  intros Hn H. destruct (sample_params _ _ _ Hn H) as (m & Hm1 & Hm & Hle & _).
  assert (Hs : 0 < 1 / samples) by (apply Rdiv_lt_0_compat; lra).
  exists (prog 0 (1 / samples) m ++ [1]). split; [exact Hm|].
  destruct (prog_app_1_order 0 (1 / samples) m) as [O1 O2]; [lra | exact Hs | intros i Hi; specialize (Hle i Hi); lra|].
  repeat split; [exact O1 | exact O2 | | apply last_opt_app |].
  - destruct m; [lia|]. rewrite prog_S. reflexivity.
  - intros i Hi. rewrite app_length, prog_length in Hi. cbn in Hi.
    rewrite app_nth1 by (rewrite prog_length; lia). rewrite prog_nth by lia. ring.
Qed.
(* no exception: enough fuel is floor(samples) + 2 *)
Theorem sample_no_raise f samples : 0 < samples -> samples < INR f ->
  (forall t, 0 <= t <= 1 -> exists p, pointAt t = Ok p) ->
  exists pts, sample ROps pointAt (S f) samples = Ok pts.
Proof.
  intros Hn Hf Hp. unfold sample. rconst. rewrite (proj2 (Reqb_false samples 0)) by lra.
  change (dvd ROps 1 samples) with (1 / samples).
  assert (Hs : 0 < 1 / samples) by (apply Rdiv_lt_0_compat; lra).
  destruct (sample_ts_ok _ Hs f 0) as [ts Hts].
  { unfold Rdiv. rewrite Rmult_1_l, Rminus_0_r. apply (Rmult_lt_reg_r samples); [lra|].
    rewrite Rmult_assoc, Rinv_l by lra. lra. }
  destruct (sample_ts_spec _ Hs _ _ _ Hts) as (m & -> & Hle & _).
  destruct (prog_app_1_order 0 (1 / samples) m) as [_ O2]; [lra | exact Hs | exact Hle|].
  destruct (mapM_ok pointAt (prog 0 (1 / samples) m ++ [1])) as [pts Hpts].
  { intros a Ha. apply Hp. rewrite Forall_forall in O2. apply O2, Ha. }
  exists pts. apply (sample_loop_of_ts _ _ _ _ _ Hts Hpts).
Qed.
End Generic.

(* ---- regularSampleTValue / regularSample ---- *)
Section Regular.
Variable pointAt : R -> res (pt R).
Variable lengthAt : R -> res R.
Variable len : R.

(* the look-up table: parameters t, t+step, ... (all <= 1), each paired with lengthAtTime of it *)
Lemma lut_loop_spec step : 0 < step -> forall fuel t lut, lut_loop ROps lengthAt fuel step t = Ok lut ->
  exists m, map fst lut = prog t step m /\ Forall (fun e => lengthAt (fst e) = Ok (snd e)) lut /\
            (forall i, (i < m)%nat -> t + INR i * step <= 1) /\ 1 < t + INR m * step.
Proof.
  intros Hs. induction fuel as [|f IH]; intros t lut H; [discriminate|].
  cbn [lut_loop] in H. rconst. destruct (leb ROps t 1) eqn:E.
  - apply Rleb_true in E. change (add ROps t step) with (t + step) in H.
    destruct (lengthAt t) as [v|e] eqn:Ev; cbn [bind] in H; [|discriminate].
    destruct (lut_loop ROps lengthAt f step (t + step)) as [r|e] eqn:Er; cbn [bind] in H; [|discriminate].
    inversion H; subst lut. destruct (IH _ _ Er) as (m & Hm & Hv & Hle & Hgt).
    exists (S m). rewrite prog_S. cbn [map fst]. rewrite Hm. repeat split.
    + constructor; [exact Ev | exact Hv].
    + intros [|i] Hi; [cbn; lra|]. specialize (Hle i ltac:(lia)). rewrite S_INR. lra.
    + rewrite S_INR. lra.
  - apply Rleb_false in E. inversion H. exists 0%nat. repeat split; [constructor | intros; lia | cbn; lra].
Qed.
Lemma lut_loop_ok step : 0 < step -> (forall t, 0 <= t <= 1 -> exists v, lengthAt t = Ok v) ->
  forall f t, 0 <= t -> 1 - t < INR f * step -> exists lut, lut_loop ROps lengthAt (S f) step t = Ok lut.
Proof.
  intros Hs Hl. induction f as [|f IH]; intros t H0 Ht.
  - cbn in Ht. cbn [lut_loop]. rconst. rewrite (proj2 (Rleb_false t 1)) by lra. eexists; reflexivity.
  - remember (S f) as f'. cbn [lut_loop]. rconst. destruct (leb ROps t 1) eqn:E; [|eexists; reflexivity].
    apply Rleb_true in E. subst f'. destruct (Hl t) as [v Hv]; [lra|]. rewrite Hv. cbn [bind].
    destruct (IH (add ROps t step)) as [l Hl'].
    { change (add ROps t step) with (t + step). lra. }
    { change (add ROps t step) with (t + step). rewrite S_INR in Ht. lra. }
    rewrite Hl'. eexists; reflexivity.
Qed.

(* popping from the front leaves a suffix *)
Lemma pop_while_sorted lut d : StronglySorted Rle (map fst lut) -> StronglySorted Rle (map fst (pop_while ROps lut d)).
Proof.
  induction lut as [|[t v] r IH]; intro H; [exact H|]. cbn [pop_while].
  destruct (ltb ROps v d); [|exact H]. apply IH. cbn [map] in H. now apply StronglySorted_inv in H.
Qed.
Lemma pop_while_incl lut d e : In e (pop_while ROps lut d) -> In e lut.
Proof.
  induction lut as [|[t v] r IH]; intro H; [exact H|]. cbn [pop_while] in H.
  destruct (ltb ROps v d); [right; apply IH; exact H | exact H].
Qed.
(* every parameter the walk emits is the head of a suffix of the table: members of the table, in table order *)
Lemma walk_spec samples : forall fuel lut d rs, StronglySorted Rle (map fst lut) ->
  walk ROps len fuel samples lut d = Ok rs ->
  nondecr rs /\ Forall (fun x => In x (map fst lut)) rs.
Proof.
  induction fuel as [|f IH]; intros lut d rs Hs H; [discriminate|].
  cbn [walk] in H. destruct (ltb ROps d len); [|inversion H; split; [exact I | constructor]].
  destruct (pop_while ROps lut d) as [|[t v] rest] eqn:Ep; [inversion H; split; [exact I | constructor]|].
  destruct (eqb ROps samples (zero ROps)); [discriminate|].
  destruct (walk ROps len f samples ((t, v) :: rest) _) as [rs'|e] eqn:Ew; cbn [bind] in H; [|discriminate].
  inversion H; subst rs.
  assert (Hs' : StronglySorted Rle (map fst ((t, v) :: rest))) by (rewrite <- Ep; apply pop_while_sorted, Hs).
  destruct (IH _ _ _ Hs' Ew) as [Hn Hin].
  assert (Hsub : forall x, In x (map fst ((t, v) :: rest)) -> In x (map fst lut)).
  { intros x Hx. apply in_map_iff in Hx. destruct Hx as (e & <- & He). apply in_map.
    apply (pop_while_incl lut d). rewrite Ep. exact He. }
  split.
  - apply nondecr_cons; [|exact Hn]. intros b Hb. destruct rs' as [|b' r']; [discriminate|]. inversion Hb; subst b'.
    inversion Hin as [|? ? Hb' _]; subst. cbn [map fst] in Hb', Hs'. destruct Hb' as [<- | Hb']; [lra|].
    apply StronglySorted_inv in Hs'. destruct Hs' as [_ Hf]. rewrite Forall_forall in Hf. apply Hf, Hb'.
  - constructor; [apply Hsub; now left|].
    rewrite Forall_forall in *. intros x Hx. apply Hsub, Hin, Hx.
Qed.
Lemma walk_ok samples inc : inc = len / samples -> 0 < inc -> samples <> 0 ->
  forall f lut d, len - d <= INR f * inc -> exists rs, walk ROps len (S f) samples lut d = Ok rs.
Proof.
  intros Einc Hinc Hs. induction f as [|f IH]; intros lut d Hd.
  - cbn in Hd. cbn [walk]. rewrite (proj2 (Rltb_false d len)) by lra. eexists; reflexivity.
  - remember (S f) as f'. cbn [walk]. destruct (ltb ROps d len); [|eexists; reflexivity].
    destruct (pop_while ROps lut d) as [|[t v] rest]; [eexists; reflexivity|].
    rconst. rewrite (proj2 (Reqb_false samples 0)) by exact Hs. subst f'.
    destruct (IH ((t, v) :: rest) (add ROps d (dvd ROps len samples))) as [rs Hrs].
    { change (add ROps d (dvd ROps len samples)) with (d + len / samples). rewrite <- Einc. rewrite S_INR in Hd. lra. }
    rewrite Hrs. eexists; reflexivity.
Qed.
(* the first emitted parameter is the head of the table when the length up to its parameter is not negative *)
Lemma walk_first samples f t0 v0 rest : 0 < len -> ~ v0 < 0 ->
  forall rs, walk ROps len (S f) samples ((t0, v0) :: rest) 0 = Ok rs -> hd_error rs = Some t0.
Proof.
  intros Hl Hv rs H. cbn [walk pop_while] in H. rewrite (proj2 (Rltb_true 0 len)) in H by exact Hl.
  rewrite (proj2 (Rltb_false v0 0)) in H by lra.
  destruct (eqb ROps samples (zero ROps)); [discriminate|].
  destruct (walk ROps len f samples _ _) as [rs'|e]; cbn [bind] in H; [|discriminate]. inversion H. reflexivity.
Qed.

(* decomposition of a successful regularSampleTValue call *)
Lemma regular_decompose fuel1 fuel2 samples l : 0 < len ->
  regularSampleTValue ROps lengthAt len fuel1 fuel2 samples = Ok l ->
  exists lut rs x m, lut_loop ROps lengthAt fuel1 (1 / len) 0 = Ok lut /\ map fst lut = prog 0 (1 / len) m /\
    Forall (fun e => lengthAt (fst e) = Ok (snd e)) lut /\ (forall i, (i < m)%nat -> INR i * (1 / len) <= 1) /\
    walk ROps len fuel2 samples lut 0 = Ok rs /\ last_opt rs = Some x /\ l = (if Req_EM_T x 1 then rs else rs ++ [1]).
Proof.
  intros Hl H. unfold regularSampleTValue in H. rconst. rewrite (proj2 (Reqb_false len 0)) in H by lra.
  change (dvd ROps 1 len) with (1 / len) in H.
  destruct (lut_loop ROps lengthAt fuel1 (1 / len) 0) as [lut|e] eqn:El; cbn [bind] in H; [|discriminate].
  destruct (walk ROps len fuel2 samples lut 0) as [rs|e] eqn:Ew; cbn [bind] in H; [|discriminate].
  destruct (last_opt rs) as [x|] eqn:Ex; [|discriminate].
  assert (Hs : 0 < 1 / len) by (apply Rdiv_lt_0_compat; lra).
  destruct (lut_loop_spec _ Hs _ _ _ El) as (m & Hm & Hv & Hle & _).
  exists lut, rs, x, m. repeat split; try assumption.
  - intros i Hi. specialize (Hle i Hi). lra.
  - unfold neqb in H. cbn [eqb ROps] in H. destruct (Req_EM_T x 1); cbn [negb] in H; now inversion H.
Qed.

(* C16: regular sampling.  Whenever the call succeeds on a receiver of positive length ... *)
(* ... its last element is exactly 1 *)
Theorem regular_last_is_1 fuel1 fuel2 samples l : 0 < len ->
  regularSampleTValue ROps lengthAt len fuel1 fuel2 samples = Ok l -> last_opt l = Some 1.
Proof.
  intros Hl H. destruct (regular_decompose _ _ _ _ Hl H) as (lut & rs & x & m & _ & _ & _ & _ & _ & Hx & ->).
  destruct (Req_EM_T x 1) as [->|_]; [exact Hx | apply last_opt_app].
Qed.
(* ... its first element is exactly 0 (the length up to 0 is 0, in particular not negative) *)
Theorem regular_first_is_0 fuel1 fuel2 samples l : 0 < len -> (forall v, lengthAt 0 = Ok v -> ~ v < 0) ->
  regularSampleTValue ROps lengthAt len fuel1 fuel2 samples = Ok l -> hd_error l = Some 0.
Proof.
  intros Hl H0 H. destruct (regular_decompose _ _ _ _ Hl H) as (lut & rs & x & m & El & Hm & Hv & Hle & Hw & Hx & ->).
  assert (Hrs : hd_error rs = Some 0).
  { destruct fuel2 as [|f2]; [discriminate|]. destruct m as [|m].
    - destruct lut; [|discriminate]. cbn [walk pop_while] in Hw. destruct (ltb ROps 0 len); inversion Hw; subst; discriminate.
    - rewrite prog_S in Hm. destruct lut as [|[t0 v0] rest]; [discriminate|]. cbn [map fst] in Hm. inversion Hm; subst t0.
      apply (walk_first samples f2 0 v0 rest Hl); [|exact Hw]. apply H0. inversion Hv; subst. assumption. }
  destruct (Req_EM_T x 1); [exact Hrs|]. destruct rs; [discriminate | exact Hrs].
Qed.
(* ... its elements are parameters of the table or the final 1: all in [0,1], in non-decreasing order *)
Theorem regular_in_range_ordered fuel1 fuel2 samples l : 0 < len ->
  regularSampleTValue ROps lengthAt len fuel1 fuel2 samples = Ok l -> Forall in01 l /\ nondecr l.
Proof.
  intros Hl H. destruct (regular_decompose _ _ _ _ Hl H) as (lut & rs & x & m & El & Hm & Hv & Hle & Hw & Hx & ->).
  assert (Hs : 0 < 1 / len) by (apply Rdiv_lt_0_compat; lra).
  assert (Hsort : StronglySorted Rle (map fst lut)) by (rewrite Hm; apply prog_sorted; lra).
  destruct (walk_spec _ _ _ _ _ Hsort Hw) as [Hn Hin].
  assert (Hr : Forall in01 rs).
  { rewrite Forall_forall in *. intros y Hy. specialize (Hin y Hy). rewrite Hm in Hin. apply prog_In in Hin.
    destruct Hin as (i & Hi & ->). specialize (Hle i Hi). pose proof (pos_INR i). unfold in01. nra. }
  destruct (Req_EM_T x 1); [split; assumption|]. split.
  - apply Forall_app. split; [exact Hr | constructor; [unfold in01; lra | constructor]].
  - apply (nondecr_app_last _ x); [exact Hn | exact Hx|]. rewrite Forall_forall in Hr. apply (Hr x), last_opt_In, Hx.
Qed.
(* no exception: fuel floor(len) + 2 for the table and ceil(samples) + 1 for the walk suffice *)
Theorem regular_no_raise f1 f2 samples : 0 < len -> 0 < samples -> len < INR f1 -> samples <= INR f2 ->
  (forall t, 0 <= t <= 1 -> exists v, lengthAt t = Ok v) -> (forall v, lengthAt 0 = Ok v -> ~ v < 0) ->
  exists l, regularSampleTValue ROps lengthAt len (S f1) (S f2) samples = Ok l /\ l <> [].
Proof.
  intros Hl Hn Hf1 Hf2 Hok H0. unfold regularSampleTValue. rconst. rewrite (proj2 (Reqb_false len 0)) by lra.
  change (dvd ROps 1 len) with (1 / len).
  assert (Hs : 0 < 1 / len) by (apply Rdiv_lt_0_compat; lra).
  destruct (lut_loop_ok _ Hs Hok f1 0) as [lut Hlut]; [lra | |].
  { unfold Rdiv. rewrite Rmult_1_l, Rminus_0_r. apply (Rmult_lt_reg_r len); [lra|]. rewrite Rmult_assoc, Rinv_l by lra. lra. }
  rewrite Hlut. cbn [bind].
  assert (Hinc : 0 < len / samples) by (apply Rdiv_lt_0_compat; lra).
  destruct (walk_ok samples (len / samples) eq_refl Hinc ltac:(lra) f2 lut 0) as [rs Hrs].
  { rewrite Rminus_0_r. unfold Rdiv. apply (Rmult_le_reg_r samples); [lra|].
    rewrite !Rmult_assoc, Rinv_l by lra. nra. }
  rewrite Hrs. cbn [bind].
  destruct (lut_loop_spec _ Hs _ _ _ Hlut) as (m & Hm & Hv & Hle & Hgt).
  assert (Hrs0 : hd_error rs = Some 0).
  { destruct m as [|m]; [cbn in Hgt; lra|]. rewrite prog_S in Hm.
    destruct lut as [|[t0 v0] rest]; [discriminate|]. cbn [map fst] in Hm. inversion Hm; subst t0.
    apply (walk_first samples f2 0 v0 rest Hl); [|exact Hrs]. apply H0. inversion Hv; subst. assumption. }
  destruct rs as [|r0 rs]; [discriminate|].
  destruct (last_opt_nonempty (r0 :: rs)) as [x Hx]; [discriminate|]. rewrite Hx.
  destruct (neqb ROps x 1); eexists; (split; [reflexivity|]); [destruct rs|]; discriminate.
Qed.

(* regularSample: the points at those parameters, first = pointAtTime(0), last = pointAtTime(1) *)
Theorem regularSample_first_last fuel1 fuel2 samples pts : 0 < len -> (forall v, lengthAt 0 = Ok v -> ~ v < 0) ->
  regularSample ROps pointAt lengthAt len fuel1 fuel2 samples = Ok pts ->
  exists ts p0 p1, regularSampleTValue ROps lengthAt len fuel1 fuel2 samples = Ok ts /\ mapM pointAt ts = Ok pts /\
    pointAt 0 = Ok p0 /\ pointAt 1 = Ok p1 /\ hd_error pts = Some p0 /\ last_opt pts = Some p1.
Proof.
  intros Hl H0 H. unfold regularSample in H.
  destruct (regularSampleTValue ROps lengthAt len fuel1 fuel2 samples) as [ts|e] eqn:Et; cbn [bind] in H; [|discriminate].
  pose proof (regular_first_is_0 _ _ _ _ Hl H0 Et) as Hf. pose proof (regular_last_is_1 _ _ _ _ Hl Et) as Hla.
  pose proof (mapM_Forall2 _ _ _ H) as HF.
  destruct ts as [|t0 ts]; [discriminate|]. inversion Hf; subst t0.
  inversion HF as [|? p0 ? r' Hp0 HF']; subst.
  assert (G : forall l1 l2 a, Forall2 (fun a b => pointAt a = Ok b) l1 l2 -> last_opt l1 = Some a ->
              exists b, pointAt a = Ok b /\ last_opt l2 = Some b).
  { induction l1 as [|y [|z r] IH]; intros l2 a HH Ha; [discriminate | |].
    - inversion Ha; subst. inversion HH as [|? b ? ? Hb HH']; subst. inversion HH'; subst. exists b. auto.
    - inversion HH as [|? b ? l2' Hb HH']; subst. destruct (IH l2' a HH' Ha) as (b' & Hb' & Hl2).
      exists b'. split; [exact Hb'|]. inversion HH'; subst. exact Hl2. }
  destruct (G _ _ _ HF Hla) as (p1 & Hp1 & Hl2).
  exists (0 :: ts), p0, p1. repeat split; assumption.
Qed.
Theorem regularSample_no_raise f1 f2 samples : 0 < len -> 0 < samples -> len < INR f1 -> samples <= INR f2 ->
  (forall t, 0 <= t <= 1 -> exists v, lengthAt t = Ok v) -> (forall v, lengthAt 0 = Ok v -> ~ v < 0) ->
  (forall t, 0 <= t <= 1 -> exists p, pointAt t = Ok p) ->
  exists pts, regularSample ROps pointAt lengthAt len (S f1) (S f2) samples = Ok pts.
Proof.
  intros Hl Hn Hf1 Hf2 Hok H0 Hp. destruct (regular_no_raise f1 f2 samples Hl Hn Hf1 Hf2 Hok H0) as (ts & Hts & _).
  unfold regularSample. rewrite Hts. cbn [bind]. apply mapM_ok. intros a Ha. apply Hp.
  destruct (regular_in_range_ordered _ _ _ _ Hl Hts) as [Hr _]. rewrite Forall_forall in Hr. apply Hr, Ha.
Qed.
End Regular.

(* ------------------------------------------------------------------------------------------------ *)
(* 4. Fuel computed from the inputs, and the four receivers                                           *)
(* ------------------------------------------------------------------------------------------------ *)
Lemma fuel_of_ge : forall cap x, x <= INR cap -> x <= INR (fuel_of ROps cap x).
Proof.
  induction cap as [|c IH]; intros x Hx; [exact Hx|].
  cbn [fuel_of]. rconst. destruct (leb ROps x 0) eqn:E.
  - apply Rleb_true in E. cbn. exact E.
  - rewrite S_INR in *. specialize (IH (sub ROps x 1)). change (sub ROps x 1) with (x - 1) in *. lra.
Qed.
Lemma plus3 n : (n + 3 = S (n + 2))%nat. Proof. lia. Qed.
Lemma INR_plus2 n x : x <= INR n -> x < INR (n + 2).
Proof. intro H. rewrite plus_INR. cbn. lra. Qed.

Section Auto.
Variable pointAt : R -> res (pt R).
Variable lengthAt : R -> res R.
Variable len : R.
Hypothesis Hlen : 0 < len.
Hypothesis HlengthAt : forall t, 0 <= t <= 1 -> exists v, lengthAt t = Ok v.
Hypothesis HlengthAt0 : forall v, lengthAt 0 = Ok v -> ~ v < 0.
Hypothesis HpointAt : forall t, 0 <= t <= 1 -> exists p, pointAt t = Ok p.

Lemma auto_no_raise cap samples : len <= INR cap -> 0 < samples <= INR cap ->
  (exists pts, sample_auto ROps pointAt cap samples = Ok pts) /\
  (exists ts, regularSampleTValue_auto ROps lengthAt len cap samples = Ok ts /\ ts <> []) /\
  (exists pts, regularSample_auto ROps pointAt lengthAt len cap samples = Ok pts).
Proof.
  intros Hc [Hn Hnc].
  pose proof (INR_plus2 _ _ (fuel_of_ge cap len Hc)) as F1.
  pose proof (INR_plus2 _ _ (fuel_of_ge cap samples Hnc)) as F2.
  unfold sample_auto, regularSampleTValue_auto, regularSample_auto. rewrite !plus3. repeat split.
  - apply sample_no_raise; assumption.
  - apply regular_no_raise; try assumption. lra.
  - apply regularSample_no_raise; try assumption. lra.
Qed.
Lemma auto_regular_spec cap samples ts : regularSampleTValue_auto ROps lengthAt len cap samples = Ok ts ->
  hd_error ts = Some 0 /\ last_opt ts = Some 1 /\ Forall in01 ts /\ nondecr ts.
Proof.
  intro H. unfold regularSampleTValue_auto in H.
  split; [apply (regular_first_is_0 _ _ _ _ _ _ Hlen HlengthAt0 H)|].
  split; [apply (regular_last_is_1 _ _ _ _ _ _ Hlen H)|].
  apply (regular_in_range_ordered _ _ _ _ _ _ Hlen H).
Qed.
End Auto.

(* segments *)
Lemma seg_receiver (s : segment R) :
  (forall t, 0 <= t <= 1 -> exists v, (fun t => Ok (seg_lengthAt ROps s t)) t = Ok v) /\
  (forall v, (fun t => Ok (seg_lengthAt ROps s t)) 0 = Ok v -> ~ v < 0) /\
  (forall t, 0 <= t <= 1 -> exists p, (fun t => Ok (seg_pointAt ROps s t)) t = Ok p).
Proof.
  repeat split; intros; try (eexists; reflexivity).
  inversion H. rewrite seg_lengthAt_0. lra.
Qed.
Theorem seg_no_raise cap (s : segment R) samples :
  0 < seg_length ROps s <= INR cap -> 0 < samples <= INR cap ->
  (exists pts, seg_sample ROps cap s samples = Ok pts) /\
  (exists ts, seg_regularSampleTValue ROps cap s samples = Ok ts /\ ts <> []) /\
  (exists pts, seg_regularSample ROps cap s samples = Ok pts).
Proof.
  intros [Hl Hc] Hn. destruct (seg_receiver s) as (A & B & C).
  apply (auto_no_raise _ _ _ Hl A B C cap samples Hc Hn).
Qed.
Theorem seg_regular_spec cap (s : segment R) samples ts : 0 < seg_length ROps s ->
  seg_regularSampleTValue ROps cap s samples = Ok ts ->
  hd_error ts = Some 0 /\ last_opt ts = Some 1 /\ Forall in01 ts /\ nondecr ts.
Proof.
  intros Hl H. destruct (seg_receiver s) as (A & B & C). apply (auto_regular_spec _ _ Hl B cap samples ts H).
Qed.
Theorem seg_sample_first_last cap (s : segment R) samples pts : 0 < samples ->
  seg_sample ROps cap s samples = Ok pts -> hd_error pts = Some (seg_start s) /\ last_opt pts = Some (seg_end s).
Proof.
  intros Hn H. destruct (sample_first_last _ _ _ _ Hn H) as (p0 & p1 & E0 & E1 & H0 & H1).
  inversion E0. inversion E1. rewrite seg_pointAt_0 in *. rewrite seg_pointAt_1 in *. subst. auto.
Qed.
Theorem seg_regularSample_first_last cap (s : segment R) samples pts : 0 < seg_length ROps s ->
  seg_regularSample ROps cap s samples = Ok pts -> hd_error pts = Some (seg_start s) /\ last_opt pts = Some (seg_end s).
Proof.
  intros Hl H. destruct (seg_receiver s) as (A & B & C).
  destruct (regularSample_first_last _ _ _ _ _ _ _ Hl B H) as (ts & p0 & p1 & _ & _ & E0 & E1 & H0 & H1).
  inversion E0. inversion E1. rewrite seg_pointAt_0 in *. rewrite seg_pointAt_1 in *. subst. auto.
Qed.

(* paths *)
Lemma path_length_pos_nonempty (segs : list (segment R)) : 0 < path_length ROps segs -> segs <> [].
Proof. intros H E. subst. cbn in H. lra. Qed.
Lemma path_receiver (segs : list (segment R)) : segs <> [] ->
  (forall t, 0 <= t <= 1 -> exists v, path_lengthAtTime ROps segs t = Ok v) /\
  (forall v, path_lengthAtTime ROps segs 0 = Ok v -> ~ v < 0) /\
  (forall t, 0 <= t <= 1 -> exists p, path_pointAtTime ROps segs t = Ok p).
Proof.
  intro Hne. repeat split.
  - intros. now apply path_lengthAt_ok.
  - intros v Hv. rewrite (path_lengthAt_0 _ Hne) in Hv. inversion Hv. lra.
  - intros. now apply path_pointAt_ok.
Qed.
Theorem path_no_raise cap (segs : list (segment R)) samples :
  0 < path_length ROps segs <= INR cap -> 0 < samples <= INR cap ->
  (forall t, 0 <= t <= 1 -> (exists p, path_pointAtTime ROps segs t = Ok p) /\ (exists v, path_lengthAtTime ROps segs t = Ok v)) /\
  (exists pts, path_sample ROps cap segs samples = Ok pts) /\
  (exists ts, path_regularSampleTValue ROps cap segs samples = Ok ts /\ ts <> []) /\
  (exists pts, path_regularSample ROps cap segs samples = Ok pts).
Proof.
  intros [Hl Hc] Hn. destruct (path_receiver segs (path_length_pos_nonempty _ Hl)) as (A & B & C).
  split; [intros t Ht; split; [apply C | apply A]; exact Ht|].
  apply (auto_no_raise _ _ _ Hl A B C cap samples Hc Hn).
Qed.
Theorem path_regular_spec cap (segs : list (segment R)) samples ts : 0 < path_length ROps segs ->
  path_regularSampleTValue ROps cap segs samples = Ok ts ->
  hd_error ts = Some 0 /\ last_opt ts = Some 1 /\ Forall in01 ts /\ nondecr ts.
Proof.
  intros Hl H. destruct (path_receiver segs (path_length_pos_nonempty _ Hl)) as (A & B & C).
  apply (auto_regular_spec _ _ Hl B cap samples ts H).
Qed.
Theorem path_sample_first_last cap (segs : list (segment R)) samples pts s0 s1 : 0 < samples ->
  hd_error segs = Some s0 -> last_opt segs = Some s1 ->
  path_sample ROps cap segs samples = Ok pts -> hd_error pts = Some (seg_start s0) /\ last_opt pts = Some (seg_end s1).
Proof.
  intros Hn Hs0 Hs1 H. destruct (sample_first_last _ _ _ _ Hn H) as (p0 & p1 & E0 & E1 & H0 & H1).
  rewrite (path_eval_at_1 _ _ Hs1) in E1. inversion E1; subst p1.
  destruct segs as [|s r]; [discriminate|]. inversion Hs0; subst s0.
  rewrite (path_eval_index (s :: r) 0 0 s) in E0; [| lra | cbn [INR]; rewrite Rmult_0_l; lra | reflexivity].
  inversion E0; subst p0. rewrite Rmult_0_l in H0. cbn [INR] in H0. rewrite Rminus_0_r, seg_pointAt_0 in H0. auto.
Qed.
Theorem path_regularSample_first_last cap (segs : list (segment R)) samples pts s0 s1 : 0 < path_length ROps segs ->
  hd_error segs = Some s0 -> last_opt segs = Some s1 ->
  path_regularSample ROps cap segs samples = Ok pts -> hd_error pts = Some (seg_start s0) /\ last_opt pts = Some (seg_end s1).
Proof.
  intros Hl Hs0 Hs1 H. destruct (path_receiver segs (path_length_pos_nonempty _ Hl)) as (A & B & C).
  destruct (regularSample_first_last _ _ _ _ _ _ _ Hl B H) as (ts & p0 & p1 & _ & _ & E0 & E1 & H0 & H1).
  rewrite (path_eval_at_1 _ _ Hs1) in E1. inversion E1; subst p1.
  destruct segs as [|s r]; [discriminate|]. inversion Hs0; subst s0.
  rewrite (path_eval_index (s :: r) 0 0 s) in E0; [| lra | cbn [INR]; rewrite Rmult_0_l; lra | reflexivity].
  inversion E0; subst p0. rewrite Rmult_0_l in H0. cbn [INR] in H0. rewrite Rminus_0_r, seg_pointAt_0 in H0. auto.
Qed.

(* ------------------------------------------------------------------------------------------------ *)
(* 5. Strict increase is FALSE of the faithful model (float instance, evaluated): a path with one     *)
(*    dominant segment -- lengths 46,1,1,1,1, total 50, n = 12 <= 50/4 -- returns the same parameter  *)
(*    twice, because one look-up step (1/50 of the path parameter = 1/10 of the long segment = 4.6     *)
(*    units) is longer than the spacing 50/12.                                                         *)
(* ------------------------------------------------------------------------------------------------ *)
Fixpoint has_adjacent_equal (l : list float) : bool :=
  match l with
  | a :: ((b :: _) as r) => PrimFloat.eqb a b || has_adjacent_equal r
  | _ => false
  end.
Definition dominant_path : list (segment float) :=
  [SLine (L2 (P 0 0) (P 46 0)); SLine (L2 (P 46 0) (P 47 0)); SLine (L2 (P 47 0) (P 48 0));
   SLine (L2 (P 48 0) (P 49 0)); SLine (L2 (P 49 0) (P 50 0))]%float.
Theorem regular_not_strict_refuted :
  path_length FOps dominant_path = 50%float /\
  exists ts, path_regularSampleTValue FOps 4096 dominant_path 12%float = Ok ts /\ has_adjacent_equal ts = true.
Proof.
  split; [vm_compute; reflexivity|]. eexists. split; [vm_compute; reflexivity|]. vm_compute. reflexivity.
Qed.

(* ------------------------------------------------------------------------------------------------ *)
(* 6. Non-vacuity: the hypotheses are satisfiable, and the float model on the D8 trigger               *)
(* ------------------------------------------------------------------------------------------------ *)
Definition rect4 : list (segment R) :=
  [SLine (L2 (P (-2) 2) (P 2 2)); SLine (L2 (P 2 2) (P 2 (-2))); SLine (L2 (P 2 (-2)) (P (-2) (-2))); SLine (L2 (P (-2) (-2)) (P (-2) 2))].
Lemma sqrt_16 : sqrt 16 = 4.
Proof. replace 16 with (4 * 4) by ring. apply sqrt_square. lra. Qed.
Example rect4_connected : connected rect4.
Proof. cbn. repeat split. Qed.
Example rect4_length : path_length ROps rect4 = 16.
Proof.
  unfold rect4. rcbv.
  repeat match goal with |- context [sqrt ?x] => progress (replace x with 16 by ring) end. rewrite !sqrt_16. ring.
Qed.
Example rect4_no_raise : exists ts, path_regularSampleTValue ROps 32 rect4 4 = Ok ts /\ ts <> [].
Proof.
  refine (proj1 (proj2 (proj2 (path_no_raise 32 rect4 4 _ _)))).
  - rewrite rect4_length. cbn [INR]. lra.
  - cbn [INR]. lra.
Qed.
(* Rectangle(4,4): 1/16 steps land exactly on 1.0 -- the case that raised IndexError before ac9900f *)
Example rect4_float_regular :
  path_regularSampleTValue FOps 4096
    [SLine (L2 (P (-2) 2) (P 2 2)); SLine (L2 (P 2 2) (P 2 (-2))); SLine (L2 (P 2 (-2)) (P (-2) (-2))); SLine (L2 (P (-2) (-2)) (P (-2) 2))]%float 4%float
  = Ok [0; 0.25; 0.5; 0.75; 1]%float.
Proof. vm_compute. reflexivity. Qed.
Example empty_path_raises : path_pointAtTime ROps [] 1 = Raise IndexError /\ path_lengthAtTime ROps [] (1/2) = Raise IndexError.
Proof.
  split.
  - unfold path_pointAtTime. rconst. now rewrite (proj2 (Reqb_true 1 1)).
  - unfold path_lengthAtTime. rconst. rewrite (proj2 (Reqb_false (1/2) 1)) by lra. rewrite py_floor_R. cbn [bind].
    unfold py_index. cbn [rev nth_T]. destruct (ltb ROps _ _); reflexivity.
Qed.

(* ------------------------------------------------------------------------------------------------ *)
(* 7. Statements of record (bundles exported by Props/C16.v)                                          *)
(* ------------------------------------------------------------------------------------------------ *)
Theorem segment_lengthAt_ends :
  (forall s : seg2 R, Line_lengthAtTime ROps s 0 = 0 /\ Line_lengthAtTime ROps s 1 = Line_length ROps s) /\
  (forall s : seg3 R, Quad_lengthAtTime ROps s 0 = 0 /\ Quad_lengthAtTime ROps s 1 = Quad_length ROps s) /\
  (forall s : seg4 R, Cubic_lengthAtTime ROps s 0 = 0 /\ Cubic_lengthAtTime ROps s 1 = Cubic_length ROps s).
Proof.
  repeat split; [apply line_lengthAt_0 | apply line_lengthAt_1 | apply quad_lengthAt_0 | apply quad_lengthAt_1 |
                 apply cubic_lengthAt_0 | apply cubic_lengthAt_1].
Qed.
Theorem path_lengthAt_ends (segs : list (segment R)) :
  path_lengthAtTime ROps segs 1 = Ok (path_length ROps segs) /\ (segs <> [] -> path_lengthAtTime ROps segs 0 = Ok 0).
Proof. split; [apply path_lengthAt_1 | apply path_lengthAt_0]. Qed.
Theorem path_eval_formula (segs : list (segment R)) :
  (forall t (k : nat) s, t <> 1 -> INR k <= t * INR (length segs) < INR k + 1 -> nth_error segs k = Some s ->
     path_pointAtTime ROps segs t = Ok (seg_pointAt ROps s (t * INR (length segs) - INR k))) /\
  (forall s, last_opt segs = Some s -> path_pointAtTime ROps segs 1 = Ok (seg_end s)) /\
  (segs <> [] -> forall t, 0 <= t <= 1 ->
     (exists p, path_pointAtTime ROps segs t = Ok p) /\ (exists v, path_lengthAtTime ROps segs t = Ok v)).
Proof.
  split; [intros; now apply path_eval_index|]. split; [apply path_eval_at_1|].
  intros Hne t Ht. split; [now apply path_pointAt_ok | now apply path_lengthAt_ok].
Qed.
Theorem path_eval_joints (segs : list (segment R)) : connected segs ->
  (forall t (k : nat) s, nth_error segs k = Some s -> INR k <= t * INR (length segs) <= INR k + 1 ->
     path_pointAtTime ROps segs t = Ok (seg_pointAt ROps s (t * INR (length segs) - INR k))) /\
  (forall (k : nat) a b, nth_error segs k = Some a -> nth_error segs (S k) = Some b ->
     path_pointAtTime ROps segs (INR (S k) / INR (length segs)) = Ok (seg_start b) /\
     seg_pointAt ROps a 1 = seg_start b /\ seg_pointAt ROps b 0 = seg_start b).
Proof.
  intro Hc. split; [intros; now apply path_eval_closed_piece|].
  intros k a b Ha Hb. apply (path_eval_continuous_at_joints segs k a b Hc Ha Hb).
Qed.
Theorem sample_spec (pointAt : R -> res (pt R)) fuel samples pts : 0 < samples -> sample ROps pointAt fuel samples = Ok pts ->
  (exists ts, mapM pointAt ts = Ok pts /\ nondecr ts /\ Forall in01 ts /\ hd_error ts = Some 0 /\ last_opt ts = Some 1 /\
              forall i, (S i < length ts)%nat -> nth i ts 0 = INR i * (1 / samples)) /\
  (exists p0 p1, pointAt 0 = Ok p0 /\ pointAt 1 = Ok p1 /\ hd_error pts = Some p0 /\ last_opt pts = Some p1).
Proof. intros Hn H. split; [apply (sample_param_order _ _ _ _ Hn H) | apply (sample_first_last _ _ _ _ Hn H)]. Qed.
Theorem regular_spec (lengthAt : R -> res R) (len : R) fuel1 fuel2 samples l : 0 < len ->
  regularSampleTValue ROps lengthAt len fuel1 fuel2 samples = Ok l ->
  last_opt l = Some 1 /\ Forall in01 l /\ nondecr l /\ ((forall v, lengthAt 0 = Ok v -> ~ v < 0) -> hd_error l = Some 0).
Proof.
  intros Hl H. split; [apply (regular_last_is_1 _ _ _ _ _ _ Hl H)|].
  destruct (regular_in_range_ordered _ _ _ _ _ _ Hl H) as [A B]. repeat split; try assumption.
  intro H0. apply (regular_first_is_0 _ _ _ _ _ _ Hl H0 H).
Qed.
Theorem regular_no_raise_all (pointAt : R -> res (pt R)) (lengthAt : R -> res R) (len : R) f1 f2 samples :
  0 < len -> 0 < samples -> len < INR f1 -> samples <= INR f2 ->
  (forall t, 0 <= t <= 1 -> exists v, lengthAt t = Ok v) -> (forall v, lengthAt 0 = Ok v -> ~ v < 0) ->
  (exists l, regularSampleTValue ROps lengthAt len (S f1) (S f2) samples = Ok l /\ l <> []) /\
  ((forall t, 0 <= t <= 1 -> exists p, pointAt t = Ok p) ->
   exists pts, regularSample ROps pointAt lengthAt len (S f1) (S f2) samples = Ok pts).
Proof.
  intros. split; [now apply regular_no_raise | intro; now apply regularSample_no_raise].
Qed.
Theorem seg_sampling cap (s : segment R) samples :
  (0 < seg_length ROps s <= INR cap -> 0 < samples <= INR cap ->
     (exists pts, seg_sample ROps cap s samples = Ok pts) /\
     (exists ts, seg_regularSampleTValue ROps cap s samples = Ok ts /\ ts <> []) /\
     (exists pts, seg_regularSample ROps cap s samples = Ok pts)) /\
  (forall ts, 0 < seg_length ROps s -> seg_regularSampleTValue ROps cap s samples = Ok ts ->
     hd_error ts = Some 0 /\ last_opt ts = Some 1 /\ Forall in01 ts /\ nondecr ts) /\
  (forall pts, 0 < samples -> seg_sample ROps cap s samples = Ok pts ->
     hd_error pts = Some (seg_start s) /\ last_opt pts = Some (seg_end s)) /\
  (forall pts, 0 < seg_length ROps s -> seg_regularSample ROps cap s samples = Ok pts ->
     hd_error pts = Some (seg_start s) /\ last_opt pts = Some (seg_end s)).
Proof.
  split; [apply seg_no_raise|]. split; [intros; now apply (seg_regular_spec cap s samples)|].
  split; [intros; now apply (seg_sample_first_last cap s samples) | intros; now apply (seg_regularSample_first_last cap s samples)].
Qed.
Theorem path_sampling cap (segs : list (segment R)) samples :
  (0 < path_length ROps segs <= INR cap -> 0 < samples <= INR cap ->
     (forall t, 0 <= t <= 1 -> (exists p, path_pointAtTime ROps segs t = Ok p) /\ (exists v, path_lengthAtTime ROps segs t = Ok v)) /\
     (exists pts, path_sample ROps cap segs samples = Ok pts) /\
     (exists ts, path_regularSampleTValue ROps cap segs samples = Ok ts /\ ts <> []) /\
     (exists pts, path_regularSample ROps cap segs samples = Ok pts)) /\
  (forall ts, 0 < path_length ROps segs -> path_regularSampleTValue ROps cap segs samples = Ok ts ->
     hd_error ts = Some 0 /\ last_opt ts = Some 1 /\ Forall in01 ts /\ nondecr ts) /\
  (forall pts s0 s1, 0 < samples -> hd_error segs = Some s0 -> last_opt segs = Some s1 ->
     path_sample ROps cap segs samples = Ok pts -> hd_error pts = Some (seg_start s0) /\ last_opt pts = Some (seg_end s1)) /\
  (forall pts s0 s1, 0 < path_length ROps segs -> hd_error segs = Some s0 -> last_opt segs = Some s1 ->
     path_regularSample ROps cap segs samples = Ok pts -> hd_error pts = Some (seg_start s0) /\ last_opt pts = Some (seg_end s1)).
Proof.
  split; [apply path_no_raise|]. split; [intros; now apply (path_regular_spec cap segs samples)|].
  split; [intros; now apply (path_sample_first_last cap segs samples pts s0 s1) |
          intros; now apply (path_regularSample_first_last cap segs samples pts s0 s1)].
Qed.
Example nonvacuous :
  connected rect4 /\ path_length ROps rect4 = 16 /\
  (exists ts, path_regularSampleTValue ROps 32 rect4 4 = Ok ts /\ ts <> []) /\
  path_regularSampleTValue FOps 4096
    [SLine (L2 (P (-2) 2) (P 2 2)); SLine (L2 (P 2 2) (P 2 (-2))); SLine (L2 (P 2 (-2)) (P (-2) (-2))); SLine (L2 (P (-2) (-2)) (P (-2) 2))]%float 4%float
  = Ok [0; 0.25; 0.5; 0.75; 1]%float /\
  path_pointAtTime ROps [] 1 = Raise IndexError /\ path_lengthAtTime ROps [] (1/2) = Raise IndexError.
Proof.
  split; [exact rect4_connected|]. split; [exact rect4_length|]. split; [exact rect4_no_raise|].
  split; [exact rect4_float_regular | exact empty_path_raises].
Qed.
