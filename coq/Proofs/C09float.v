(* C09, floating-point clause: transforming / translating / scaling a segment and then evaluating it, and evaluating it
   and then transforming / translating / scaling the point, computed in binary64 by the generated kernels, are both
   within a few units of roundoff of "transform the real evaluation" -- hence within the sum of the two bounds of each
   other.  The real-number commutation theorems of Proofs/C09.v (transformed_, translated_, scaled_commutes_eval_line,
   _quad, _cubic) turn the real image of the first computation into the real image of the second.  Proved with Flocq
   through Base/FloatErr.v and Proofs/FloatProd.v.

   What the code reads.  Point.transformed reads the first two rows of the 3x3 matrix only:
       x' = (m00 * x + m01 * y) + m02,   y' = (m10 * x + m11 * y) + m12;
   there is NO division by a homogeneous coordinate and the third row is never read, so there is no hypothesis on it
   ([mat_ok] below does not mention m20 m21 m22; they may even be NaN).

   Hypotheses: control coordinates finite with |.| <= M; the linear part m00 m01 m10 m11 finite with |.| <= A; the
   translation part m02 m12 (or the translation vector) finite with |.| <= B; the scale factor finite with |.| <= A;
   t finite in [0,1]; and the magnitude N of the statement at most Mcap = 2^1000 (no overflow).
   Two independent magnitudes A and M are multiplied.  The reflective bound procedure is linear in ONE parameter, so
   the parameter is changed at the products (Proofs/FloatProd.v): a product entry * coordinate of two exact leaves is a
   leaf of the procedure run in the parameter N = A*M + B (error u*N + eta, magnitude N); in the other order of
   computation the entry multiplies an already rounded evaluation whose error  k1 u M + k2 eta  has a constant
   (underflow) part, which is multiplied by A: there the parameter is N = A*M + A + B.  No bound on A or M other than
   N <= 2^1000 is assumed, and no "cap" appears in the bounds.

   Results ([pt_close p q E]: p finite and coordinatewise within E of the real point q; eta = 2^-1075):
                          transform-then-evaluate            evaluate-then-transform
                          [X_transformed_eval_float_close]   [X_eval_transformed_float_close]
                          N = A*M + B                        N' = A*M + A + B
     Line   transformed    33 u N + 12 eta                    22 u N' + 5 eta
     Quad   transformed   104 u N + 22 eta                    60 u N' + 5 eta
     Cubic  transformed   276 u N + 40 eta                   156 u N' + 5 eta
                          [X_translated_eval_float_close]    [X_eval_translated_float_close]
                          N = M + B                          N = M + B
     Line   translated     17 u N +  6 eta                    10 u N + 5 eta
     Quad   translated     59 u N + 10 eta                    31 u N + 7 eta
     Cubic  translated    163 u N + 16 eta                    83 u N + 9 eta
                          [X_scaled_eval_float_close]        [X_eval_scaled_float_close]
                          N = A*M                            N' = A*M + A
     Line   scaled          9 u N +  6 eta                     9 u N' + 1 eta
     Quad   scaled         30 u N + 10 eta                    28 u N' + 1 eta
     Cubic  scaled         82 u N + 16 eta                    76 u N' + 1 eta
   In every row the real point is "transform the real evaluation":  Point_transformed ROps (X_pointAtTime ROps (segR s)
   (FR t)) (matR m),  resp. Point___add__ / Point___mul__.  The evaluate-then-transform column reuses the C01float
   evaluation bounds (7,4) (26,6) (74,8) and the fact that the real Bezier point is a convex combination of the
   control points ([X_eval_mag]); the transform-then-evaluate constants are larger because magnitude tracking bounds
   each transformed control coordinate by 3 N and each Bernstein weight separately.
   Float commutation proper [X_transformed_commutes_float, X_translated_commutes_float, X_scaled_commutes_float]: both
   float results are finite and coordinatewise within E_te + E_et of each other ([pt_near]).
   The generated definitions are only unfolded by the name-agnostic [fcbv]; the products are found by scanning the
   unfolded term ([prod_leaves], [scaled_leaves]); hypotheses are found by their shape, never by a generated name. *)
From Coq Require Import ZArith Reals Lra Lia List QArith Qreals.
From Flocq Require Import Core.
From Coq Require Import Floats.
From BZ Require Import Base.Ops Base.FloatErr Gen.Point Gen.Affine Gen.Line Gen.Quad Gen.Cubic Proofs.C01float Proofs.FloatProd.
From BZ Require Proofs.C09.
Open Scope R_scope.

(* ---- float matrices seen as real matrices; hypotheses on the entries the code reads ---- *)
Definition matR (m : mat3 float) : mat3 R :=
  M3 (FR (m00 m)) (FR (m01 m)) (FR (m02 m)) (FR (m10 m)) (FR (m11 m)) (FR (m12 m)) (FR (m20 m)) (FR (m21 m)) (FR (m22 m)).
Definition ent_ok (A : R) (x : float) : Prop := ffinite x /\ Rabs (FR x) <= A.
(* linear part bounded by A, translation part bounded by B; nothing about the third row *)
Definition mat_ok (A B : R) (m : mat3 float) : Prop :=
  (ent_ok A (m00 m) /\ ent_ok A (m01 m) /\ ent_ok A (m10 m) /\ ent_ok A (m11 m)) /\ (ent_ok B (m02 m) /\ ent_ok B (m12 m)).
Lemma ent_ok_nonneg A x : ent_ok A x -> 0 <= A.
Proof. intros (_ & H). eapply Rle_trans; [apply Rabs_pos | exact H]. Qed.
Lemma mat_ok_nonneg A B m : mat_ok A B m -> 0 <= A /\ 0 <= B.
Proof. intros ((H & _) & (H' & _)). split; eapply ent_ok_nonneg; eassumption. Qed.

(* two float points, both finite and coordinatewise within e of each other *)
Definition pt_near (p q : pt float) (e : R) : Prop :=
  (ffinite (px p) /\ ffinite (py p)) /\ (ffinite (px q) /\ ffinite (py q)) /\
  Rabs (FR (px p) - FR (px q)) <= e /\ Rabs (FR (py p) - FR (py q)) <= e.
Lemma pt_close_near p q r e1 e2 : pt_close p r e1 -> pt_close q r e2 -> pt_near p q (e1 + e2).
Proof.
  intros (A1 & B1 & C1 & D1) (A2 & B2 & C2 & D2). repeat split; try assumption.
  - replace (FR (px p) - FR (px q)) with ((FR (px p) - px r) + - (FR (px q) - px r)) by ring.
    eapply Rle_trans; [apply Rabs_triang|]. rewrite Rabs_Ropp. lra.
  - replace (FR (py p) - FR (py q)) with ((FR (py p) - py r) + - (FR (py q) - py r)) by ring.
    eapply Rle_trans; [apply Rabs_triang|]. rewrite Rabs_Ropp. lra.
Qed.

(* ---- the real evaluation stays within the magnitude of the control points (convex combination) ---- *)
Definition pt_mag (M : R) (q : pt R) : Prop := Rabs (px q) <= M /\ Rabs (py q) <= M.
Lemma convex2 M w0 w1 x0 x1 : 0 <= w0 -> 0 <= w1 -> w0 + w1 = 1 -> Rabs x0 <= M -> Rabs x1 <= M ->
  Rabs (w0 * x0 + w1 * x1) <= M.
Proof.
  intros W0 W1 S H0 H1. apply Rabs_le_inv in H0, H1. apply Rabs_le.
  assert (0 <= w0 * (M - x0)) by (apply Rmult_le_pos; lra). assert (0 <= w0 * (M + x0)) by (apply Rmult_le_pos; lra).
  assert (0 <= w1 * (M - x1)) by (apply Rmult_le_pos; lra). assert (0 <= w1 * (M + x1)) by (apply Rmult_le_pos; lra).
  assert (E : (w0 + w1) * M = M) by (rewrite S; ring). split; lra.
Qed.
Lemma convex3 M w0 w1 w2 x0 x1 x2 : 0 <= w0 -> 0 <= w1 -> 0 <= w2 -> w0 + w1 + w2 = 1 ->
  Rabs x0 <= M -> Rabs x1 <= M -> Rabs x2 <= M -> Rabs (w0 * x0 + w1 * x1 + w2 * x2) <= M.
Proof.
  intros W0 W1 W2 S H0 H1 H2. apply Rabs_le_inv in H0, H1, H2. apply Rabs_le.
  assert (0 <= w0 * (M - x0)) by (apply Rmult_le_pos; lra). assert (0 <= w0 * (M + x0)) by (apply Rmult_le_pos; lra).
  assert (0 <= w1 * (M - x1)) by (apply Rmult_le_pos; lra). assert (0 <= w1 * (M + x1)) by (apply Rmult_le_pos; lra).
  assert (0 <= w2 * (M - x2)) by (apply Rmult_le_pos; lra). assert (0 <= w2 * (M + x2)) by (apply Rmult_le_pos; lra).
  assert (E : (w0 + w1 + w2) * M = M) by (rewrite S; ring). split; lra.
Qed.
Lemma convex4 M w0 w1 w2 w3 x0 x1 x2 x3 : 0 <= w0 -> 0 <= w1 -> 0 <= w2 -> 0 <= w3 -> w0 + w1 + w2 + w3 = 1 ->
  Rabs x0 <= M -> Rabs x1 <= M -> Rabs x2 <= M -> Rabs x3 <= M -> Rabs (w0 * x0 + w1 * x1 + w2 * x2 + w3 * x3) <= M.
Proof.
  intros W0 W1 W2 W3 S H0 H1 H2 H3. apply Rabs_le_inv in H0, H1, H2, H3. apply Rabs_le.
  assert (0 <= w0 * (M - x0)) by (apply Rmult_le_pos; lra). assert (0 <= w0 * (M + x0)) by (apply Rmult_le_pos; lra).
  assert (0 <= w1 * (M - x1)) by (apply Rmult_le_pos; lra). assert (0 <= w1 * (M + x1)) by (apply Rmult_le_pos; lra).
  assert (0 <= w2 * (M - x2)) by (apply Rmult_le_pos; lra). assert (0 <= w2 * (M + x2)) by (apply Rmult_le_pos; lra).
  assert (0 <= w3 * (M - x3)) by (apply Rmult_le_pos; lra). assert (0 <= w3 * (M + x3)) by (apply Rmult_le_pos; lra).
  assert (E : (w0 + w1 + w2 + w3) * M = M) by (rewrite S; ring). split; lra.
Qed.
(* the goal  Rabs e <= M  where e is a Bernstein combination of the given values, whatever its syntactic shape *)
Ltac bern2 t a b :=
  lazymatch goal with |- Rabs ?e <= ?M =>
    replace e with ((1 - t) * a + t * b) by ring; apply convex2; first [assumption | lra | ring] end.
Ltac bern3 t a b c :=
  lazymatch goal with |- Rabs ?e <= ?M =>
    replace e with ((1 - t) * (1 - t) * a + 2 * (1 - t) * t * b + t * t * c) by ring;
    apply convex3; first [assumption | ring | repeat apply Rmult_le_pos; lra] end.
Ltac bern4 t a b c d :=
  lazymatch goal with |- Rabs ?e <= ?M =>
    replace e with ((1 - t) * (1 - t) * (1 - t) * a + 3 * (1 - t) * (1 - t) * t * b + 3 * (1 - t) * t * t * c + t * t * t * d) by ring;
    apply convex4; first [assumption | ring | repeat apply Rmult_le_pos; lra] end.
Lemma line_eval_mag M (s : seg2 float) t : seg2_ok M s -> t_ok t -> pt_mag M (Line_pointAtTime ROps (seg2R s) (FR t)).
Proof.
  intros Hs (_ & Ht). destruct s as [[x0 y0] [x1 y1]].
  destruct Hs as ((Fx0 & Fy0 & Mx0 & My0) & (Fx1 & Fy1 & Mx1 & My1)). cbn [px py l0 l1] in *.
  split; fcbv; [bern2 (FR t) (FR x0) (FR x1) | bern2 (FR t) (FR y0) (FR y1)].
Qed.
Lemma quad_eval_mag M (s : seg3 float) t : seg3_ok M s -> t_ok t -> pt_mag M (Quad_pointAtTime ROps (seg3R s) (FR t)).
Proof.
  intros Hs (_ & Ht). destruct s as [[x0 y0] [x1 y1] [x2 y2]].
  destruct Hs as ((Fx0 & Fy0 & Mx0 & My0) & (Fx1 & Fy1 & Mx1 & My1) & (Fx2 & Fy2 & Mx2 & My2)). cbn [px py q0 q1 q2] in *.
  split; fcbv; [bern3 (FR t) (FR x0) (FR x1) (FR x2) | bern3 (FR t) (FR y0) (FR y1) (FR y2)].
Qed.
Lemma cubic_eval_mag M (s : seg4 float) t : seg4_ok M s -> t_ok t -> pt_mag M (Cubic_pointAtTime ROps (seg4R s) (FR t)).
Proof.
  intros Hs (_ & Ht). destruct s as [[x0 y0] [x1 y1] [x2 y2] [x3 y3]].
  destruct Hs as ((Fx0 & Fy0 & Mx0 & My0) & (Fx1 & Fy1 & Mx1 & My1) & (Fx2 & Fy2 & Mx2 & My2) & (Fx3 & Fy3 & Mx3 & My3)).
  cbn [px py c0 c1 c2 c3] in *.
  split; fcbv; [bern4 (FR t) (FR x0) (FR x1) (FR x2) (FR x3) | bern4 (FR t) (FR y0) (FR y1) (FR y2) (FR y3)].
Qed.

(* ---- proof machinery ---- *)
Lemma N_cap N : 0 <= N -> N <= Mcap -> 0 <= N <= Q2R capQ /\ N <= fmax.
Proof.
  intros H0 H. rewrite Q2R_capQ. repeat split; try assumption.
  eapply Rle_trans; [exact H|]. unfold Mcap, fmax. apply bpow_le. lia.
Qed.
Lemma le_trans_abs x B N : Rabs (FR x) <= B -> B <= N -> Rabs (FR x) <= N.
Proof. intros; lra. Qed.
(* split segments, points, matrices and their hypotheses into coordinates; no generated name is ever mentioned:
   the later tactics find what they need by the shape of the hypotheses *)
Ltac unpack :=
  repeat match goal with
  | s : seg4 float |- _ => destruct s as [[? ?] [? ?] [? ?] [? ?]]
  | s : seg3 float |- _ => destruct s as [[? ?] [? ?] [? ?]]
  | s : seg2 float |- _ => destruct s as [[? ?] [? ?]]
  | m : mat3 float |- _ => destruct m
  | p : pt float |- _ => destruct p
  | H : seg4_ok _ _ |- _ => destruct H as (? & ? & ? & ?)
  | H : seg3_ok _ _ |- _ => destruct H as (? & ? & ?)
  | H : seg2_ok _ _ |- _ => destruct H as (? & ?)
  | H : pt_ok _ _ |- _ => destruct H as (? & ? & ? & ?)
  | H : mat_ok _ _ _ |- _ => destruct H as ((? & ? & ? & ?) & (? & ?))
  | H : ent_ok _ _ |- _ => destruct H as (? & ?)
  end;
  cbn [px py l0 l1 q0 q1 q2 c0 c1 c2 c3 m00 m01 m02 m10 m11 m12 m20 m21 m22] in *.
(* every leaf bounded by B is also bounded by N >= B *)
Ltac lift_leaves B N HB :=
  repeat match goal with
  | H : Rabs (FR ?x) <= B |- _ =>
    lazymatch goal with
    | _ : Rabs (FR x) <= N |- _ => fail
    | _ => pose proof (le_trans_abs x B N H HB)
    end
  end.
Ltac coords N HNq := apply pt_close_intro; coord_close N HNq.

(* ================================================================================================ *)
(* 1. Segment.transformed                                                                           *)
(* ================================================================================================ *)
(* ---- transform the control points, then evaluate: in the parameter N >= A*M, N >= B ---- *)
Lemma line_te_core A B M N (s : seg2 float) (m : mat3 float) t :
  seg2_ok M s -> mat_ok A B m -> t_ok t -> 0 <= N -> A * M <= N -> B <= N -> N <= Mcap ->
  pt_close (Line_pointAtTime FOps (Line_transformed FOps s m) t)
           (Line_pointAtTime ROps (Line_transformed ROps (seg2R s) (matR m)) (FR t)) (33 * u * N + 12 * eta).
Proof.
  intros Hs Hm Ht H0 HN HB Hc. destruct (N_cap N H0 Hc) as (HNq & Hf).
  unpack. lift_leaves B N HB. t_hyps N t Ht. leaf_hyps N.
  fcbv. prod_leaves A M N HN Hf. coords N HNq.
Qed.
Lemma quad_te_core A B M N (s : seg3 float) (m : mat3 float) t :
  seg3_ok M s -> mat_ok A B m -> t_ok t -> 0 <= N -> A * M <= N -> B <= N -> N <= Mcap ->
  pt_close (Quad_pointAtTime FOps (Quad_transformed FOps s m) t)
           (Quad_pointAtTime ROps (Quad_transformed ROps (seg3R s) (matR m)) (FR t)) (104 * u * N + 22 * eta).
Proof.
  intros Hs Hm Ht H0 HN HB Hc. destruct (N_cap N H0 Hc) as (HNq & Hf).
  unpack. lift_leaves B N HB. t_hyps N t Ht. leaf_hyps N.
  fcbv. prod_leaves A M N HN Hf. coords N HNq.
Qed.
Lemma cubic_te_core A B M N (s : seg4 float) (m : mat3 float) t :
  seg4_ok M s -> mat_ok A B m -> t_ok t -> 0 <= N -> A * M <= N -> B <= N -> N <= Mcap ->
  pt_close (Cubic_pointAtTime FOps (Cubic_transformed FOps s m) t)
           (Cubic_pointAtTime ROps (Cubic_transformed ROps (seg4R s) (matR m)) (FR t)) (276 * u * N + 40 * eta).
Proof.
  intros Hs Hm Ht H0 HN HB Hc. destruct (N_cap N H0 Hc) as (HNq & Hf).
  unpack. lift_leaves B N HB. t_hyps N t Ht. leaf_hyps N.
  fcbv. prod_leaves A M N HN Hf. coords N HNq.
Qed.

(* ---- transform a point p that is already within  k1 u M + k2 eta  of a real point q with |q| <= M:
        in the parameter N >= A*M, N >= A, N >= B ---- *)
Ltac after_setup p q k1 k2 M :=
  destruct p as [X Y], q as [rx ry];
  match goal with Hc : pt_close _ _ _ |- _ => destruct Hc as (FX & FY & EX & EY) end;
  match goal with Hq : pt_mag _ _ |- _ => destruct Hq as (MX & MY) end;
  cbn [px py] in *;
  assert (AX : approx X rx (leval M (lin_u_eta k1 k2)) (leval M (1%Q, 0%Q)))
    by (rewrite leval_u_eta, leval_id; split; [|split]; assumption);
  assert (AY : approx Y ry (leval M (lin_u_eta k1 k2)) (leval M (1%Q, 0%Q)))
    by (rewrite leval_u_eta, leval_id; split; [|split]; assumption).
Lemma ptrans_after_line A B M N (p : pt float) (q : pt R) (m : mat3 float) :
  pt_close p q (7 * u * M + 4 * eta) -> pt_mag M q -> mat_ok A B m ->
  0 <= M -> A * M <= N -> A <= N -> B <= N -> N <= Mcap ->
  pt_close (Point_transformed FOps p m) (Point_transformed ROps q (matR m)) (22 * u * N + 5 * eta).
Proof.
  intros Hc Hq Hm HM H1 H2 HB Hcap.
  assert (H0 : 0 <= N) by (destruct (mat_ok_nonneg _ _ _ Hm); lra).
  destruct (N_cap N H0 Hcap) as (HNq & Hf).
  after_setup p q 7%Z 4%Z M. unpack. lift_leaves B N HB. leaf_hyps N.
  fcbv. scaled_leaves capQ A M N HM H1 H2 (proj2 HNq). coords N HNq.
Qed.
Lemma ptrans_after_quad A B M N (p : pt float) (q : pt R) (m : mat3 float) :
  pt_close p q (26 * u * M + 6 * eta) -> pt_mag M q -> mat_ok A B m ->
  0 <= M -> A * M <= N -> A <= N -> B <= N -> N <= Mcap ->
  pt_close (Point_transformed FOps p m) (Point_transformed ROps q (matR m)) (60 * u * N + 5 * eta).
Proof.
  intros Hc Hq Hm HM H1 H2 HB Hcap.
  assert (H0 : 0 <= N) by (destruct (mat_ok_nonneg _ _ _ Hm); lra).
  destruct (N_cap N H0 Hcap) as (HNq & Hf).
  after_setup p q 26%Z 6%Z M. unpack. lift_leaves B N HB. leaf_hyps N.
  fcbv. scaled_leaves capQ A M N HM H1 H2 (proj2 HNq). coords N HNq.
Qed.
Lemma ptrans_after_cubic A B M N (p : pt float) (q : pt R) (m : mat3 float) :
  pt_close p q (74 * u * M + 8 * eta) -> pt_mag M q -> mat_ok A B m ->
  0 <= M -> A * M <= N -> A <= N -> B <= N -> N <= Mcap ->
  pt_close (Point_transformed FOps p m) (Point_transformed ROps q (matR m)) (156 * u * N + 5 * eta).
Proof.
  intros Hc Hq Hm HM H1 H2 HB Hcap.
  assert (H0 : 0 <= N) by (destruct (mat_ok_nonneg _ _ _ Hm); lra).
  destruct (N_cap N H0 Hcap) as (HNq & Hf).
  after_setup p q 74%Z 8%Z M. unpack. lift_leaves B N HB. leaf_hyps N.
  fcbv. scaled_leaves capQ A M N HM H1 H2 (proj2 HNq). coords N HNq.
Qed.

(* ---- the statements: N = A*M + B  resp.  N' = A*M + A + B ---- *)
Lemma N_te_facts A B M : 0 <= A -> 0 <= B -> 0 <= M -> 0 <= A * M + B /\ A * M <= A * M + B /\ B <= A * M + B.
Proof. intros HA HB HM. assert (0 <= A * M) by (apply Rmult_le_pos; assumption). lra. Qed.
Lemma N_et_facts A B M : 0 <= A -> 0 <= B -> 0 <= M ->
  A * M <= A * M + A + B /\ A <= A * M + A + B /\ B <= A * M + A + B.
Proof. intros HA HB HM. assert (0 <= A * M) by (apply Rmult_le_pos; assumption). lra. Qed.

Theorem line_transformed_eval_float_close A B M (s : seg2 float) (m : mat3 float) t :
  A * M + B <= Mcap -> seg2_ok M s -> mat_ok A B m -> t_ok t ->
  pt_close (Line_pointAtTime FOps (Line_transformed FOps s m) t)
           (Point_transformed ROps (Line_pointAtTime ROps (seg2R s) (FR t)) (matR m)) (33 * u * (A * M + B) + 12 * eta).
Proof.
  intros Hc Hs Hm Ht. rewrite <- C09.transformed_commutes_eval_line.
  destruct (mat_ok_nonneg _ _ _ Hm) as (HA & HB).
  destruct (N_te_facts A B M HA HB (pt_ok_nonneg M _ (proj1 Hs))) as (H0 & H1 & H2).
  now apply (line_te_core A B M).
Qed.
Theorem quad_transformed_eval_float_close A B M (s : seg3 float) (m : mat3 float) t :
  A * M + B <= Mcap -> seg3_ok M s -> mat_ok A B m -> t_ok t ->
  pt_close (Quad_pointAtTime FOps (Quad_transformed FOps s m) t)
           (Point_transformed ROps (Quad_pointAtTime ROps (seg3R s) (FR t)) (matR m)) (104 * u * (A * M + B) + 22 * eta).
Proof.
  intros Hc Hs Hm Ht. rewrite <- C09.transformed_commutes_eval_quad.
  destruct (mat_ok_nonneg _ _ _ Hm) as (HA & HB).
  destruct (N_te_facts A B M HA HB (pt_ok_nonneg M _ (proj1 Hs))) as (H0 & H1 & H2).
  now apply (quad_te_core A B M).
Qed.
Theorem cubic_transformed_eval_float_close A B M (s : seg4 float) (m : mat3 float) t :
  A * M + B <= Mcap -> seg4_ok M s -> mat_ok A B m -> t_ok t ->
  pt_close (Cubic_pointAtTime FOps (Cubic_transformed FOps s m) t)
           (Point_transformed ROps (Cubic_pointAtTime ROps (seg4R s) (FR t)) (matR m)) (276 * u * (A * M + B) + 40 * eta).
Proof.
  intros Hc Hs Hm Ht. rewrite <- C09.transformed_commutes_eval_cubic.
  destruct (mat_ok_nonneg _ _ _ Hm) as (HA & HB).
  destruct (N_te_facts A B M HA HB (pt_ok_nonneg M _ (proj1 Hs))) as (H0 & H1 & H2).
  now apply (cubic_te_core A B M).
Qed.

(* evaluate in binary64 (C01float), then transform the rounded point *)
Theorem line_eval_transformed_float_close A B M (s : seg2 float) (m : mat3 float) t :
  M <= Mcap -> A * M + A + B <= Mcap -> seg2_ok M s -> mat_ok A B m -> t_ok t ->
  pt_close (Point_transformed FOps (Line_pointAtTime FOps s t) m)
           (Point_transformed ROps (Line_pointAtTime ROps (seg2R s) (FR t)) (matR m)) (22 * u * (A * M + A + B) + 5 * eta).
Proof.
  intros HM Hc Hs Hm Ht. destruct (mat_ok_nonneg _ _ _ Hm) as (HA & HB).
  assert (HM0 := pt_ok_nonneg M _ (proj1 Hs)). destruct (N_et_facts A B M HA HB HM0) as (H1 & H2 & H3).
  apply (ptrans_after_line A B M); try assumption; [now apply line_eval_float_close | now apply line_eval_mag].
Qed.
Theorem quad_eval_transformed_float_close A B M (s : seg3 float) (m : mat3 float) t :
  M <= Mcap -> A * M + A + B <= Mcap -> seg3_ok M s -> mat_ok A B m -> t_ok t ->
  pt_close (Point_transformed FOps (Quad_pointAtTime FOps s t) m)
           (Point_transformed ROps (Quad_pointAtTime ROps (seg3R s) (FR t)) (matR m)) (60 * u * (A * M + A + B) + 5 * eta).
Proof.
  intros HM Hc Hs Hm Ht. destruct (mat_ok_nonneg _ _ _ Hm) as (HA & HB).
  assert (HM0 := pt_ok_nonneg M _ (proj1 Hs)). destruct (N_et_facts A B M HA HB HM0) as (H1 & H2 & H3).
  apply (ptrans_after_quad A B M); try assumption; [now apply quad_eval_float_close | now apply quad_eval_mag].
Qed.
Theorem cubic_eval_transformed_float_close A B M (s : seg4 float) (m : mat3 float) t :
  M <= Mcap -> A * M + A + B <= Mcap -> seg4_ok M s -> mat_ok A B m -> t_ok t ->
  pt_close (Point_transformed FOps (Cubic_pointAtTime FOps s t) m)
           (Point_transformed ROps (Cubic_pointAtTime ROps (seg4R s) (FR t)) (matR m)) (156 * u * (A * M + A + B) + 5 * eta).
Proof.
  intros HM Hc Hs Hm Ht. destruct (mat_ok_nonneg _ _ _ Hm) as (HA & HB).
  assert (HM0 := pt_ok_nonneg M _ (proj1 Hs)). destruct (N_et_facts A B M HA HB HM0) as (H1 & H2 & H3).
  apply (ptrans_after_cubic A B M); try assumption; [now apply cubic_eval_float_close | now apply cubic_eval_mag].
Qed.

(* the float commutation proper: the two binary64 computations agree up to the sum of the two bounds *)
Lemma te_cap A B M : 0 <= A -> A * M + A + B <= Mcap -> A * M + B <= Mcap.
Proof. intros; lra. Qed.
Theorem line_transformed_commutes_float A B M (s : seg2 float) (m : mat3 float) t :
  M <= Mcap -> A * M + A + B <= Mcap -> seg2_ok M s -> mat_ok A B m -> t_ok t ->
  pt_near (Line_pointAtTime FOps (Line_transformed FOps s m) t) (Point_transformed FOps (Line_pointAtTime FOps s t) m)
          ((33 * u * (A * M + B) + 12 * eta) + (22 * u * (A * M + A + B) + 5 * eta)).
Proof.
  intros HM Hc Hs Hm Ht. destruct (mat_ok_nonneg _ _ _ Hm) as (HA & HB).
  eapply pt_close_near; [apply line_transformed_eval_float_close | apply line_eval_transformed_float_close];
    try assumption; now apply te_cap.
Qed.
Theorem quad_transformed_commutes_float A B M (s : seg3 float) (m : mat3 float) t :
  M <= Mcap -> A * M + A + B <= Mcap -> seg3_ok M s -> mat_ok A B m -> t_ok t ->
  pt_near (Quad_pointAtTime FOps (Quad_transformed FOps s m) t) (Point_transformed FOps (Quad_pointAtTime FOps s t) m)
          ((104 * u * (A * M + B) + 22 * eta) + (60 * u * (A * M + A + B) + 5 * eta)).
Proof.
  intros HM Hc Hs Hm Ht. destruct (mat_ok_nonneg _ _ _ Hm) as (HA & HB).
  eapply pt_close_near; [apply quad_transformed_eval_float_close | apply quad_eval_transformed_float_close];
    try assumption; now apply te_cap.
Qed.
Theorem cubic_transformed_commutes_float A B M (s : seg4 float) (m : mat3 float) t :
  M <= Mcap -> A * M + A + B <= Mcap -> seg4_ok M s -> mat_ok A B m -> t_ok t ->
  pt_near (Cubic_pointAtTime FOps (Cubic_transformed FOps s m) t) (Point_transformed FOps (Cubic_pointAtTime FOps s t) m)
          ((276 * u * (A * M + B) + 40 * eta) + (156 * u * (A * M + A + B) + 5 * eta)).
Proof.
  intros HM Hc Hs Hm Ht. destruct (mat_ok_nonneg _ _ _ Hm) as (HA & HB).
  eapply pt_close_near; [apply cubic_transformed_eval_float_close | apply cubic_eval_transformed_float_close];
    try assumption; now apply te_cap.
Qed.

(* ================================================================================================ *)
(* 2. Segment.translated: only additions; one magnitude N >= M (coordinates), N >= B (the vector)   *)
(* ================================================================================================ *)
Lemma line_tr_te_core B M N (s : seg2 float) (v : pt float) t :
  seg2_ok M s -> pt_ok B v -> t_ok t -> 0 <= N -> M <= N -> B <= N -> N <= Mcap ->
  pt_close (Line_pointAtTime FOps (Line_translated FOps s v) t)
           (Line_pointAtTime ROps (Line_translated ROps (seg2R s) (ptR v)) (FR t)) (17 * u * N + 6 * eta).
Proof.
  intros Hs Hv Ht H0 HMN HB Hc. destruct (N_cap N H0 Hc) as (HNq & Hf).
  unpack. lift_leaves M N HMN. lift_leaves B N HB. t_hyps N t Ht. leaf_hyps N. fcbv. coords N HNq.
Qed.
Lemma quad_tr_te_core B M N (s : seg3 float) (v : pt float) t :
  seg3_ok M s -> pt_ok B v -> t_ok t -> 0 <= N -> M <= N -> B <= N -> N <= Mcap ->
  pt_close (Quad_pointAtTime FOps (Quad_translated FOps s v) t)
           (Quad_pointAtTime ROps (Quad_translated ROps (seg3R s) (ptR v)) (FR t)) (59 * u * N + 10 * eta).
Proof.
  intros Hs Hv Ht H0 HMN HB Hc. destruct (N_cap N H0 Hc) as (HNq & Hf).
  unpack. lift_leaves M N HMN. lift_leaves B N HB. t_hyps N t Ht. leaf_hyps N. fcbv. coords N HNq.
Qed.
Lemma cubic_tr_te_core B M N (s : seg4 float) (v : pt float) t :
  seg4_ok M s -> pt_ok B v -> t_ok t -> 0 <= N -> M <= N -> B <= N -> N <= Mcap ->
  pt_close (Cubic_pointAtTime FOps (Cubic_translated FOps s v) t)
           (Cubic_pointAtTime ROps (Cubic_translated ROps (seg4R s) (ptR v)) (FR t)) (163 * u * N + 16 * eta).
Proof.
  intros Hs Hv Ht H0 HMN HB Hc. destruct (N_cap N H0 Hc) as (HNq & Hf).
  unpack. lift_leaves M N HMN. lift_leaves B N HB. t_hyps N t Ht. leaf_hyps N. fcbv. coords N HNq.
Qed.
Lemma line_tr_et_core B M N (s : seg2 float) (v : pt float) t :
  seg2_ok M s -> pt_ok B v -> t_ok t -> 0 <= N -> M <= N -> B <= N -> N <= Mcap ->
  pt_close (Point___add__ FOps (Line_pointAtTime FOps s t) v)
           (Point___add__ ROps (Line_pointAtTime ROps (seg2R s) (FR t)) (ptR v)) (10 * u * N + 5 * eta).
Proof.
  intros Hs Hv Ht H0 HMN HB Hc. destruct (N_cap N H0 Hc) as (HNq & Hf).
  unpack. lift_leaves M N HMN. lift_leaves B N HB. t_hyps N t Ht. leaf_hyps N. fcbv. coords N HNq.
Qed.
Lemma quad_tr_et_core B M N (s : seg3 float) (v : pt float) t :
  seg3_ok M s -> pt_ok B v -> t_ok t -> 0 <= N -> M <= N -> B <= N -> N <= Mcap ->
  pt_close (Point___add__ FOps (Quad_pointAtTime FOps s t) v)
           (Point___add__ ROps (Quad_pointAtTime ROps (seg3R s) (FR t)) (ptR v)) (31 * u * N + 7 * eta).
Proof.
  intros Hs Hv Ht H0 HMN HB Hc. destruct (N_cap N H0 Hc) as (HNq & Hf).
  unpack. lift_leaves M N HMN. lift_leaves B N HB. t_hyps N t Ht. leaf_hyps N. fcbv. coords N HNq.
Qed.
Lemma cubic_tr_et_core B M N (s : seg4 float) (v : pt float) t :
  seg4_ok M s -> pt_ok B v -> t_ok t -> 0 <= N -> M <= N -> B <= N -> N <= Mcap ->
  pt_close (Point___add__ FOps (Cubic_pointAtTime FOps s t) v)
           (Point___add__ ROps (Cubic_pointAtTime ROps (seg4R s) (FR t)) (ptR v)) (83 * u * N + 9 * eta).
Proof.
  intros Hs Hv Ht H0 HMN HB Hc. destruct (N_cap N H0 Hc) as (HNq & Hf).
  unpack. lift_leaves M N HMN. lift_leaves B N HB. t_hyps N t Ht. leaf_hyps N. fcbv. coords N HNq.
Qed.

(* ================================================================================================ *)
(* 3. Segment.scaled (one factor k for both axes, as the generated code does): N >= A*M             *)
(* ================================================================================================ *)
Lemma line_sc_te_core A M N (s : seg2 float) (k : float) t :
  seg2_ok M s -> ent_ok A k -> t_ok t -> 0 <= N -> A * M <= N -> N <= Mcap ->
  pt_close (Line_pointAtTime FOps (Line_scaled FOps s k) t)
           (Line_pointAtTime ROps (Line_scaled ROps (seg2R s) (FR k)) (FR t)) (9 * u * N + 6 * eta).
Proof.
  intros Hs Hk Ht H0 HN Hc. destruct (N_cap N H0 Hc) as (HNq & Hf).
  unpack. t_hyps N t Ht. fcbv. prod_leaves A M N HN Hf. coords N HNq.
Qed.
Lemma quad_sc_te_core A M N (s : seg3 float) (k : float) t :
  seg3_ok M s -> ent_ok A k -> t_ok t -> 0 <= N -> A * M <= N -> N <= Mcap ->
  pt_close (Quad_pointAtTime FOps (Quad_scaled FOps s k) t)
           (Quad_pointAtTime ROps (Quad_scaled ROps (seg3R s) (FR k)) (FR t)) (30 * u * N + 10 * eta).
Proof.
  intros Hs Hk Ht H0 HN Hc. destruct (N_cap N H0 Hc) as (HNq & Hf).
  unpack. t_hyps N t Ht. fcbv. prod_leaves A M N HN Hf. coords N HNq.
Qed.
Lemma cubic_sc_te_core A M N (s : seg4 float) (k : float) t :
  seg4_ok M s -> ent_ok A k -> t_ok t -> 0 <= N -> A * M <= N -> N <= Mcap ->
  pt_close (Cubic_pointAtTime FOps (Cubic_scaled FOps s k) t)
           (Cubic_pointAtTime ROps (Cubic_scaled ROps (seg4R s) (FR k)) (FR t)) (82 * u * N + 16 * eta).
Proof.
  intros Hs Hk Ht H0 HN Hc. destruct (N_cap N H0 Hc) as (HNq & Hf).
  unpack. t_hyps N t Ht. fcbv. prod_leaves A M N HN Hf. coords N HNq.
Qed.
(* scale a point that is already within  k1 u M + k2 eta  of a real point q with |q| <= M: N >= A*M, N >= A *)
Lemma pmul_after_line A M N (p : pt float) (q : pt R) (k : float) :
  pt_close p q (7 * u * M + 4 * eta) -> pt_mag M q -> ent_ok A k -> 0 <= M -> A * M <= N -> A <= N -> N <= Mcap ->
  pt_close (Point___mul__ FOps p k) (Point___mul__ ROps q (FR k)) (9 * u * N + 1 * eta).
Proof.
  intros Hc Hq Hk HM H1 H2 Hcap.
  assert (H0 : 0 <= N) by (pose proof (ent_ok_nonneg _ _ Hk); lra).
  destruct (N_cap N H0 Hcap) as (HNq & Hf).
  after_setup p q 7%Z 4%Z M. unpack.
  fcbv. scaled_leaves capQ A M N HM H1 H2 (proj2 HNq). coords N HNq.
Qed.
Lemma pmul_after_quad A M N (p : pt float) (q : pt R) (k : float) :
  pt_close p q (26 * u * M + 6 * eta) -> pt_mag M q -> ent_ok A k -> 0 <= M -> A * M <= N -> A <= N -> N <= Mcap ->
  pt_close (Point___mul__ FOps p k) (Point___mul__ ROps q (FR k)) (28 * u * N + 1 * eta).
Proof.
  intros Hc Hq Hk HM H1 H2 Hcap.
  assert (H0 : 0 <= N) by (pose proof (ent_ok_nonneg _ _ Hk); lra).
  destruct (N_cap N H0 Hcap) as (HNq & Hf).
  after_setup p q 26%Z 6%Z M. unpack.
  fcbv. scaled_leaves capQ A M N HM H1 H2 (proj2 HNq). coords N HNq.
Qed.
Lemma pmul_after_cubic A M N (p : pt float) (q : pt R) (k : float) :
  pt_close p q (74 * u * M + 8 * eta) -> pt_mag M q -> ent_ok A k -> 0 <= M -> A * M <= N -> A <= N -> N <= Mcap ->
  pt_close (Point___mul__ FOps p k) (Point___mul__ ROps q (FR k)) (76 * u * N + 1 * eta).
Proof.
  intros Hc Hq Hk HM H1 H2 Hcap.
  assert (H0 : 0 <= N) by (pose proof (ent_ok_nonneg _ _ Hk); lra).
  destruct (N_cap N H0 Hcap) as (HNq & Hf).
  after_setup p q 74%Z 8%Z M. unpack.
  fcbv. scaled_leaves capQ A M N HM H1 H2 (proj2 HNq). coords N HNq.
Qed.

(* ---- the statements for translated: N = M + B ---- *)
Lemma N_tr_facts B M : 0 <= B -> 0 <= M -> 0 <= M + B /\ M <= M + B /\ B <= M + B.
Proof. intros; lra. Qed.
Theorem line_translated_eval_float_close B M (s : seg2 float) (v : pt float) t :
  M + B <= Mcap -> seg2_ok M s -> pt_ok B v -> t_ok t ->
  pt_close (Line_pointAtTime FOps (Line_translated FOps s v) t)
           (Point___add__ ROps (Line_pointAtTime ROps (seg2R s) (FR t)) (ptR v)) (17 * u * (M + B) + 6 * eta).
Proof.
  intros Hc Hs Hv Ht. rewrite <- C09.translated_commutes_eval_line.
  destruct (N_tr_facts B M (pt_ok_nonneg B v Hv) (pt_ok_nonneg M _ (proj1 Hs))) as (H0 & H1 & H2).
  now apply (line_tr_te_core B M).
Qed.
Theorem quad_translated_eval_float_close B M (s : seg3 float) (v : pt float) t :
  M + B <= Mcap -> seg3_ok M s -> pt_ok B v -> t_ok t ->
  pt_close (Quad_pointAtTime FOps (Quad_translated FOps s v) t)
           (Point___add__ ROps (Quad_pointAtTime ROps (seg3R s) (FR t)) (ptR v)) (59 * u * (M + B) + 10 * eta).
Proof.
  intros Hc Hs Hv Ht. rewrite <- C09.translated_commutes_eval_quad.
  destruct (N_tr_facts B M (pt_ok_nonneg B v Hv) (pt_ok_nonneg M _ (proj1 Hs))) as (H0 & H1 & H2).
  now apply (quad_tr_te_core B M).
Qed.
Theorem cubic_translated_eval_float_close B M (s : seg4 float) (v : pt float) t :
  M + B <= Mcap -> seg4_ok M s -> pt_ok B v -> t_ok t ->
  pt_close (Cubic_pointAtTime FOps (Cubic_translated FOps s v) t)
           (Point___add__ ROps (Cubic_pointAtTime ROps (seg4R s) (FR t)) (ptR v)) (163 * u * (M + B) + 16 * eta).
Proof.
  intros Hc Hs Hv Ht. rewrite <- C09.translated_commutes_eval_cubic.
  destruct (N_tr_facts B M (pt_ok_nonneg B v Hv) (pt_ok_nonneg M _ (proj1 Hs))) as (H0 & H1 & H2).
  now apply (cubic_tr_te_core B M).
Qed.
Theorem line_eval_translated_float_close B M (s : seg2 float) (v : pt float) t :
  M + B <= Mcap -> seg2_ok M s -> pt_ok B v -> t_ok t ->
  pt_close (Point___add__ FOps (Line_pointAtTime FOps s t) v)
           (Point___add__ ROps (Line_pointAtTime ROps (seg2R s) (FR t)) (ptR v)) (10 * u * (M + B) + 5 * eta).
Proof.
  intros Hc Hs Hv Ht.
  destruct (N_tr_facts B M (pt_ok_nonneg B v Hv) (pt_ok_nonneg M _ (proj1 Hs))) as (H0 & H1 & H2).
  now apply (line_tr_et_core B M).
Qed.
Theorem quad_eval_translated_float_close B M (s : seg3 float) (v : pt float) t :
  M + B <= Mcap -> seg3_ok M s -> pt_ok B v -> t_ok t ->
  pt_close (Point___add__ FOps (Quad_pointAtTime FOps s t) v)
           (Point___add__ ROps (Quad_pointAtTime ROps (seg3R s) (FR t)) (ptR v)) (31 * u * (M + B) + 7 * eta).
Proof.
  intros Hc Hs Hv Ht.
  destruct (N_tr_facts B M (pt_ok_nonneg B v Hv) (pt_ok_nonneg M _ (proj1 Hs))) as (H0 & H1 & H2).
  now apply (quad_tr_et_core B M).
Qed.
Theorem cubic_eval_translated_float_close B M (s : seg4 float) (v : pt float) t :
  M + B <= Mcap -> seg4_ok M s -> pt_ok B v -> t_ok t ->
  pt_close (Point___add__ FOps (Cubic_pointAtTime FOps s t) v)
           (Point___add__ ROps (Cubic_pointAtTime ROps (seg4R s) (FR t)) (ptR v)) (83 * u * (M + B) + 9 * eta).
Proof.
  intros Hc Hs Hv Ht.
  destruct (N_tr_facts B M (pt_ok_nonneg B v Hv) (pt_ok_nonneg M _ (proj1 Hs))) as (H0 & H1 & H2).
  now apply (cubic_tr_et_core B M).
Qed.
Theorem line_translated_commutes_float B M (s : seg2 float) (v : pt float) t :
  M + B <= Mcap -> seg2_ok M s -> pt_ok B v -> t_ok t ->
  pt_near (Line_pointAtTime FOps (Line_translated FOps s v) t) (Point___add__ FOps (Line_pointAtTime FOps s t) v)
          ((17 * u * (M + B) + 6 * eta) + (10 * u * (M + B) + 5 * eta)).
Proof.
  intros. eapply pt_close_near; [now apply line_translated_eval_float_close | now apply line_eval_translated_float_close].
Qed.
Theorem quad_translated_commutes_float B M (s : seg3 float) (v : pt float) t :
  M + B <= Mcap -> seg3_ok M s -> pt_ok B v -> t_ok t ->
  pt_near (Quad_pointAtTime FOps (Quad_translated FOps s v) t) (Point___add__ FOps (Quad_pointAtTime FOps s t) v)
          ((59 * u * (M + B) + 10 * eta) + (31 * u * (M + B) + 7 * eta)).
Proof.
  intros. eapply pt_close_near; [now apply quad_translated_eval_float_close | now apply quad_eval_translated_float_close].
Qed.
Theorem cubic_translated_commutes_float B M (s : seg4 float) (v : pt float) t :
  M + B <= Mcap -> seg4_ok M s -> pt_ok B v -> t_ok t ->
  pt_near (Cubic_pointAtTime FOps (Cubic_translated FOps s v) t) (Point___add__ FOps (Cubic_pointAtTime FOps s t) v)
          ((163 * u * (M + B) + 16 * eta) + (83 * u * (M + B) + 9 * eta)).
Proof.
  intros. eapply pt_close_near; [now apply cubic_translated_eval_float_close | now apply cubic_eval_translated_float_close].
Qed.

(* ---- the statements for scaled: N = A*M  resp.  N' = A*M + A ---- *)
Lemma N_sc_facts A M : 0 <= A -> 0 <= M -> 0 <= A * M /\ A * M <= A * M + A /\ A <= A * M + A.
Proof. intros HA HM. assert (0 <= A * M) by (apply Rmult_le_pos; assumption). lra. Qed.
Theorem line_scaled_eval_float_close A M (s : seg2 float) (k : float) t :
  A * M <= Mcap -> seg2_ok M s -> ent_ok A k -> t_ok t ->
  pt_close (Line_pointAtTime FOps (Line_scaled FOps s k) t)
           (Point___mul__ ROps (Line_pointAtTime ROps (seg2R s) (FR t)) (FR k)) (9 * u * (A * M) + 6 * eta).
Proof.
  intros Hc Hs Hk Ht. rewrite <- C09.scaled_commutes_eval_line.
  destruct (N_sc_facts A M (ent_ok_nonneg A k Hk) (pt_ok_nonneg M _ (proj1 Hs))) as (H0 & _).
  apply (line_sc_te_core A M); try assumption. apply Rle_refl.
Qed.
Theorem quad_scaled_eval_float_close A M (s : seg3 float) (k : float) t :
  A * M <= Mcap -> seg3_ok M s -> ent_ok A k -> t_ok t ->
  pt_close (Quad_pointAtTime FOps (Quad_scaled FOps s k) t)
           (Point___mul__ ROps (Quad_pointAtTime ROps (seg3R s) (FR t)) (FR k)) (30 * u * (A * M) + 10 * eta).
Proof.
  intros Hc Hs Hk Ht. rewrite <- C09.scaled_commutes_eval_quad.
  destruct (N_sc_facts A M (ent_ok_nonneg A k Hk) (pt_ok_nonneg M _ (proj1 Hs))) as (H0 & _).
  apply (quad_sc_te_core A M); try assumption. apply Rle_refl.
Qed.
Theorem cubic_scaled_eval_float_close A M (s : seg4 float) (k : float) t :
  A * M <= Mcap -> seg4_ok M s -> ent_ok A k -> t_ok t ->
  pt_close (Cubic_pointAtTime FOps (Cubic_scaled FOps s k) t)
           (Point___mul__ ROps (Cubic_pointAtTime ROps (seg4R s) (FR t)) (FR k)) (82 * u * (A * M) + 16 * eta).
Proof.
  intros Hc Hs Hk Ht. rewrite <- C09.scaled_commutes_eval_cubic.
  destruct (N_sc_facts A M (ent_ok_nonneg A k Hk) (pt_ok_nonneg M _ (proj1 Hs))) as (H0 & _).
  apply (cubic_sc_te_core A M); try assumption. apply Rle_refl.
Qed.
Theorem line_eval_scaled_float_close A M (s : seg2 float) (k : float) t :
  M <= Mcap -> A * M + A <= Mcap -> seg2_ok M s -> ent_ok A k -> t_ok t ->
  pt_close (Point___mul__ FOps (Line_pointAtTime FOps s t) k)
           (Point___mul__ ROps (Line_pointAtTime ROps (seg2R s) (FR t)) (FR k)) (9 * u * (A * M + A) + 1 * eta).
Proof.
  intros HM Hc Hs Hk Ht. assert (HM0 := pt_ok_nonneg M _ (proj1 Hs)).
  destruct (N_sc_facts A M (ent_ok_nonneg A k Hk) HM0) as (_ & H1 & H2).
  apply (pmul_after_line A M); try assumption; [now apply line_eval_float_close | now apply line_eval_mag].
Qed.
Theorem quad_eval_scaled_float_close A M (s : seg3 float) (k : float) t :
  M <= Mcap -> A * M + A <= Mcap -> seg3_ok M s -> ent_ok A k -> t_ok t ->
  pt_close (Point___mul__ FOps (Quad_pointAtTime FOps s t) k)
           (Point___mul__ ROps (Quad_pointAtTime ROps (seg3R s) (FR t)) (FR k)) (28 * u * (A * M + A) + 1 * eta).
Proof.
  intros HM Hc Hs Hk Ht. assert (HM0 := pt_ok_nonneg M _ (proj1 Hs)).
  destruct (N_sc_facts A M (ent_ok_nonneg A k Hk) HM0) as (_ & H1 & H2).
  apply (pmul_after_quad A M); try assumption; [now apply quad_eval_float_close | now apply quad_eval_mag].
Qed.
Theorem cubic_eval_scaled_float_close A M (s : seg4 float) (k : float) t :
  M <= Mcap -> A * M + A <= Mcap -> seg4_ok M s -> ent_ok A k -> t_ok t ->
  pt_close (Point___mul__ FOps (Cubic_pointAtTime FOps s t) k)
           (Point___mul__ ROps (Cubic_pointAtTime ROps (seg4R s) (FR t)) (FR k)) (76 * u * (A * M + A) + 1 * eta).
Proof.
  intros HM Hc Hs Hk Ht. assert (HM0 := pt_ok_nonneg M _ (proj1 Hs)).
  destruct (N_sc_facts A M (ent_ok_nonneg A k Hk) HM0) as (_ & H1 & H2).
  apply (pmul_after_cubic A M); try assumption; [now apply cubic_eval_float_close | now apply cubic_eval_mag].
Qed.
Lemma sc_cap A M : 0 <= A -> A * M + A <= Mcap -> A * M <= Mcap.
Proof. intros; lra. Qed.
Theorem line_scaled_commutes_float A M (s : seg2 float) (k : float) t :
  M <= Mcap -> A * M + A <= Mcap -> seg2_ok M s -> ent_ok A k -> t_ok t ->
  pt_near (Line_pointAtTime FOps (Line_scaled FOps s k) t) (Point___mul__ FOps (Line_pointAtTime FOps s t) k)
          ((9 * u * (A * M) + 6 * eta) + (9 * u * (A * M + A) + 1 * eta)).
Proof.
  intros HM Hc Hs Hk Ht. assert (HA := ent_ok_nonneg A k Hk).
  eapply pt_close_near; [apply line_scaled_eval_float_close | apply line_eval_scaled_float_close];
    try assumption; now apply sc_cap.
Qed.
Theorem quad_scaled_commutes_float A M (s : seg3 float) (k : float) t :
  M <= Mcap -> A * M + A <= Mcap -> seg3_ok M s -> ent_ok A k -> t_ok t ->
  pt_near (Quad_pointAtTime FOps (Quad_scaled FOps s k) t) (Point___mul__ FOps (Quad_pointAtTime FOps s t) k)
          ((30 * u * (A * M) + 10 * eta) + (28 * u * (A * M + A) + 1 * eta)).
Proof.
  intros HM Hc Hs Hk Ht. assert (HA := ent_ok_nonneg A k Hk).
  eapply pt_close_near; [apply quad_scaled_eval_float_close | apply quad_eval_scaled_float_close];
    try assumption; now apply sc_cap.
Qed.
Theorem cubic_scaled_commutes_float A M (s : seg4 float) (k : float) t :
  M <= Mcap -> A * M + A <= Mcap -> seg4_ok M s -> ent_ok A k -> t_ok t ->
  pt_near (Cubic_pointAtTime FOps (Cubic_scaled FOps s k) t) (Point___mul__ FOps (Cubic_pointAtTime FOps s t) k)
          ((82 * u * (A * M) + 16 * eta) + (76 * u * (A * M + A) + 1 * eta)).
Proof.
  intros HM Hc Hs Hk Ht. assert (HA := ent_ok_nonneg A k Hk).
  eapply pt_close_near; [apply cubic_scaled_eval_float_close | apply cubic_eval_scaled_float_close];
    try assumption; now apply sc_cap.
Qed.

(* ================================================================================================ *)
(* 4. non-vacuity: the suite's quadratic (150,40)(80,30)(105,150) at t = 0.2 (C01float.ex_quad, ex_t)   *)
(*    with a rotation-and-scale matrix with dyadic entries plus a shift, a pure translation, a scale    *)
(* ================================================================================================ *)
Ltac lit_abs :=   (* |FR c| <= bound for a closed float c of either sign *)
  apply Rabs_le; match goal with |- context [FR ?c] => FR_compute c end; lra.
(* x' = 0.5 x - 0.75 y + 10,  y' = 0.75 x + 0.5 y - 20;  third row as AffineTransformation keeps it *)
Definition ex_mat : mat3 float := (M3 0.5 (-0.75) 10 0.75 0.5 (-20) 0 0 1)%float.
(* the matrix of AffineTransformation.translation((12.5, -7)) *)
Definition ex_shift : mat3 float := (M3 1 0 12.5 0 1 (-7) 0 0 1)%float.
Definition ex_vec : pt float := (P 12.5 (-7))%float.
Definition ex_k : float := (-2.5)%float.
Lemma ex_mat_ok : mat_ok 1 20 ex_mat.
Proof. unfold mat_ok, ent_ok, ex_mat; cbn [m00 m01 m02 m10 m11 m12]. repeat split; first [lit_finite | lit_abs]. Qed.
Lemma ex_shift_ok : mat_ok 1 (25 / 2) ex_shift.
Proof. unfold mat_ok, ent_ok, ex_shift; cbn [m00 m01 m02 m10 m11 m12]. repeat split; first [lit_finite | lit_abs]. Qed.
Lemma ex_vec_ok : pt_ok (25 / 2) ex_vec.
Proof. unfold pt_ok, ex_vec; cbn [px py]. repeat split; first [lit_finite | lit_abs]. Qed.
Lemma ex_k_ok : ent_ok (5 / 2) ex_k.
Proof. unfold ent_ok, ex_k. split; [lit_finite | lit_abs]. Qed.
(* the third row is not read: the hypotheses hold with NaN there, and every theorem above applies *)
Definition ex_mat_nan : mat3 float := (M3 0.5 (-0.75) 10 0.75 0.5 (-20) nan nan nan)%float.
Lemma ex_mat_nan_ok : mat_ok 1 20 ex_mat_nan.
Proof. exact ex_mat_ok. Qed.
Lemma small_le_Mcap x : x <= 1000 -> x <= Mcap.
Proof. intros H. unfold Mcap. bpow_lit. lra. Qed.

Example quad_transformed_example :
  pt_close (Quad_pointAtTime FOps (Quad_transformed FOps ex_quad ex_mat) ex_t)
           (Point_transformed ROps (Quad_pointAtTime ROps (seg3R ex_quad) (FR ex_t)) (matR ex_mat))
           (104 * u * (1 * 150 + 20) + 22 * eta).
Proof.
  apply quad_transformed_eval_float_close;
    [apply small_le_Mcap; lra | exact ex_quad_ok | exact ex_mat_ok | exact ex_t_ok].
Qed.
Example quad_transformed_commutes_example :
  pt_near (Quad_pointAtTime FOps (Quad_transformed FOps ex_quad ex_mat) ex_t)
          (Point_transformed FOps (Quad_pointAtTime FOps ex_quad ex_t) ex_mat)
          ((104 * u * (1 * 150 + 20) + 22 * eta) + (60 * u * (1 * 150 + 1 + 20) + 5 * eta)).
Proof.
  apply quad_transformed_commutes_float;
    [apply small_le_Mcap; lra | apply small_le_Mcap; lra | exact ex_quad_ok | exact ex_mat_ok | exact ex_t_ok].
Qed.
(* the translation as a matrix and as Segment.translated *)
Example quad_shift_matrix_example :
  pt_near (Quad_pointAtTime FOps (Quad_transformed FOps ex_quad ex_shift) ex_t)
          (Point_transformed FOps (Quad_pointAtTime FOps ex_quad ex_t) ex_shift)
          ((104 * u * (1 * 150 + 25 / 2) + 22 * eta) + (60 * u * (1 * 150 + 1 + 25 / 2) + 5 * eta)).
Proof.
  apply quad_transformed_commutes_float;
    [apply small_le_Mcap; lra | apply small_le_Mcap; lra | exact ex_quad_ok | exact ex_shift_ok | exact ex_t_ok].
Qed.
Example quad_translated_commutes_example :
  pt_near (Quad_pointAtTime FOps (Quad_translated FOps ex_quad ex_vec) ex_t)
          (Point___add__ FOps (Quad_pointAtTime FOps ex_quad ex_t) ex_vec)
          ((59 * u * (150 + 25 / 2) + 10 * eta) + (31 * u * (150 + 25 / 2) + 7 * eta)).
Proof.
  apply quad_translated_commutes_float; [apply small_le_Mcap; lra | exact ex_quad_ok | exact ex_vec_ok | exact ex_t_ok].
Qed.
Example quad_scaled_commutes_example :
  pt_near (Quad_pointAtTime FOps (Quad_scaled FOps ex_quad ex_k) ex_t)
          (Point___mul__ FOps (Quad_pointAtTime FOps ex_quad ex_t) ex_k)
          ((30 * u * (5 / 2 * 150) + 10 * eta) + (28 * u * (5 / 2 * 150 + 5 / 2) + 1 * eta)).
Proof.
  apply quad_scaled_commutes_float;
    [apply small_le_Mcap; lra | apply small_le_Mcap; lra | exact ex_quad_ok | exact ex_k_ok | exact ex_t_ok].
Qed.
(* in round numbers: the two orders of computation agree to 1e-11 on this example *)
Example quad_transformed_commutes_example_1e11 :
  pt_near (Quad_pointAtTime FOps (Quad_transformed FOps ex_quad ex_mat) ex_t)
          (Point_transformed FOps (Quad_pointAtTime FOps ex_quad ex_t) ex_mat) 1e-11.
Proof.
  destruct quad_transformed_commutes_example as (A & B & C & D).
  assert (H : (104 * u * (1 * 150 + 20) + 22 * eta) + (60 * u * (1 * 150 + 1 + 20) + 5 * eta) <= 1e-11) by (fp_consts; lra).
  repeat split; try apply A; try apply B; lra.
Qed.
