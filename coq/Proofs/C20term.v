(* C20term -- the recursion of MinimumCurveDistanceFinder.minDist (Hand/MinDist.v) ends within the fuel, over the reals.

   The D table is the table of the WHOLE curves: it does not depend on the current sub-rectangle.  Hence the index pair
   minIJ chosen by the "Property 1" loop (p1_step; including the quirk that a running minimum 0.0 counts as unset) is
   the same at every recursion level (part 1); only alpha, and with it isOutside, change.  A level recurses only if
   isOutside is false, i.e. some D(r,k) (r < 2n, k < 2m) is < alpha <= S(umin,vmin).  At the top level ([0,1]^2)
   S(0,0) = D(0,0) (seg_D00), so if the top level recurses some entry is below D(0,0) and the selected pair is not (0,0)
   (part 2): (0,0) comes first in the row-major order and is replaced as soon as a strictly smaller entry (or, if
   D(0,0) = 0.0, any entry) is met, and it is never selected again.  With (i,j) <> (0,0), i < 2n, j < 2m, 1 <= n,m <= 3,
   each of the four sub-rectangles has both widths <= the parent's and area <= 5/6 of the parent's (part 3); a level
   recurses only if both widths exceed epsilon = 1/1000, so the area stays > 1e-6: at most 76 nested levels.
   Fuel 77 (a fortiori 80) always suffices: no RecursionError-like outcome, and by C20.curveDistance_outcomes no error
   outcome at all (part 4).  Fuel is semantically transparent on every carrier (minDist_fuel_irrelevant): a run that
   did not run out returns the same result and final state with any larger fuel, so over the reals every fuel >= 80
   gives the run with fuel 80.  Part 5: a float run, and a counterexample showing that the hypothesis relating D(0,0)
   and S(0,0) cannot be dropped for arbitrary (S, D). *)
From Coq Require Import PrimFloat.
From Coq Require Import ZArith List Bool Reals Lra Lia Psatz.
From BZ Require Import Base.Ops Proofs.Tactics Gen.Point Gen.Line Gen.Quad Gen.Cubic Gen.CurveDist Hand.MinDist Proofs.C20.
Import ListNotations.
Open Scope R_scope.

(* lazy normalisation at the real instance: only the parts of the generated tables that are read get evaluated *)
Ltac rlazy := lazy -[Rplus Rminus Rmult Rdiv Ropp Rinv IZR Rabs sqrt cos sin acos Rpower PI
                   Rlt_dec Rle_dec Req_EM_T R_atan2 R_trunc Int_part Rlt Rle Rgt Rge].

(* ---------------------------------------------------------------------------------------------------------- *)
(* part 0: the top-left Bernstein coefficient is the value at the corner: D(0,0) = S(0,0), all nine kind pairs  *)
(* ---------------------------------------------------------------------------------------------------------- *)
Lemma seg_D00 s1 s2 : Dtab (seg_Dtable ROps s1 s2) 0 0 = Some (seg_S ROps s1 s2 0 0).
Proof. destruct s1 as [a | a | a]; destruct s2 as [b | b | b]; destruct_pts; rlazy; f_equal; field. Qed.

(* ---------------------------------------------------------------------------------------------------------- *)
(* parts 1 and 2: the "Property 1" loop                                                                          *)
(* ---------------------------------------------------------------------------------------------------------- *)
Section P1.
Variable D : nat -> nat -> option R.

(* the update test `not minDRK or drk < minDRK` *)
Definition p1_upd (md : option R) (drk : R) : bool :=
  negb (truthy ROps md) || (match md with Some mv => ltb ROps drk mv | None => false end).

Lemma p1_step_Some alpha io md mij rk drk :
  D (fst rk) (snd rk) = Some drk ->
  p1_step ROps D alpha (Ok (io, md, mij)) rk =
  if p1_upd md drk then Ok (if ltb ROps drk alpha then false else io, Some drk, Some rk)
  else Ok (if ltb ROps drk alpha then false else io, md, mij).
Proof. intros E. unfold p1_step, p1_upd. rewrite E. reflexivity. Qed.

Lemma p1_step_None alpha io md mij rk :
  D (fst rk) (snd rk) = None -> p1_step ROps D alpha (Ok (io, md, mij)) rk = IndexErr.
Proof. intros E. unfold p1_step. rewrite E. reflexivity. Qed.

Lemma p1_fold_IndexErr alpha l : fold_left (p1_step ROps D alpha) l IndexErr = IndexErr.
Proof. apply p1_fold_err. intros x Hx. discriminate. Qed.

(* the loop produces a state or an IndexErr, nothing else *)
Lemma p1_fold_shape alpha l : forall st, (exists x, st = Ok x) \/ st = IndexErr ->
  (exists x, fold_left (p1_step ROps D alpha) l st = Ok x) \/ fold_left (p1_step ROps D alpha) l st = IndexErr.
Proof.
  induction l as [| rk l IH]; intros st Hst; [exact Hst |].
  cbn [fold_left]. apply IH. destruct Hst as [[[[io md] mij] ->] | ->]; [| right; reflexivity].
  destruct (D (fst rk) (snd rk)) as [drk |] eqn:ED.
  - rewrite (p1_step_Some _ _ _ _ _ _ ED). destruct (p1_upd md drk); left; eexists; reflexivity.
  - rewrite (p1_step_None _ _ _ _ _ ED). right; reflexivity.
Qed.

(* the part of the loop state that does not involve alpha *)
Definition p1_sel (r : res (@p1_state R)) : res (option R * option (nat * nat)) :=
  match r with
  | Ok (_, md, mij) => Ok (md, mij)
  | OutOfFuel => OutOfFuel | IndexErr => IndexErr | NoneErr => NoneErr | EmptyErr => EmptyErr | UnboundErr => UnboundErr
  end.

Lemma p1_step_sel_indep a1 a2 st1 st2 rk :
  p1_sel st1 = p1_sel st2 -> p1_sel (p1_step ROps D a1 st1 rk) = p1_sel (p1_step ROps D a2 st2 rk).
Proof.
  intros H.
  destruct st1 as [[[io1 md1] mij1] | | | | |]; destruct st2 as [[[io2 md2] mij2] | | | | |];
    cbn [p1_sel] in H; try discriminate; try reflexivity.
  inversion H; subst.
  destruct (D (fst rk) (snd rk)) as [drk |] eqn:ED.
  - rewrite !(p1_step_Some _ _ _ _ _ _ ED). destruct (p1_upd md2 drk); reflexivity.
  - rewrite !(p1_step_None _ _ _ _ _ ED). reflexivity.
Qed.

Lemma p1_fold_sel_indep a1 a2 l : forall st1 st2,
  p1_sel st1 = p1_sel st2 ->
  p1_sel (fold_left (p1_step ROps D a1) l st1) = p1_sel (fold_left (p1_step ROps D a2) l st2).
Proof.
  induction l as [| rk l IH]; intros st1 st2 H; [exact H |].
  cbn [fold_left]. apply IH. apply p1_step_sel_indep. exact H.
Qed.

(* PART 1: minDRK and minIJ are level independent: an Ok run for one alpha is an Ok run for every alpha, with the same
   minDRK and minIJ (only isOutside may differ) *)
Theorem minIJ_level_independent n m alpha1 alpha2 io1 md mij :
  fold_left (p1_step ROps D alpha1) (index_pairs n m) (Ok (true, None, None)) = Ok (io1, md, mij) ->
  exists io2, fold_left (p1_step ROps D alpha2) (index_pairs n m) (Ok (true, None, None)) = Ok (io2, md, mij).
Proof.
  intros H.
  pose proof (p1_fold_sel_indep alpha1 alpha2 (index_pairs n m) (Ok (true, None, None)) (Ok (true, None, None)) eq_refl) as E.
  rewrite H in E. cbn [p1_sel] in E.
  destruct (fold_left (p1_step ROps D alpha2) (index_pairs n m) (Ok (true, None, None))) as [[[io2 md2] mij2] | | | | |];
    cbn [p1_sel] in E; try discriminate.
  inversion E; subst. exists io2. reflexivity.
Qed.

(* isOutside can only become false through an entry below alpha *)
Lemma p1_fold_isOut alpha l : forall io md mij md' mij',
  fold_left (p1_step ROps D alpha) l (Ok (io, md, mij)) = Ok (false, md', mij') ->
  io = false \/ exists rk d, In rk l /\ D (fst rk) (snd rk) = Some d /\ d < alpha.
Proof.
  induction l as [| rk l IH]; intros io md mij md' mij' H.
  - cbn [fold_left] in H. inversion H; subst. left; reflexivity.
  - cbn [fold_left] in H. destruct (D (fst rk) (snd rk)) as [drk |] eqn:ED.
    + rewrite (p1_step_Some _ _ _ _ _ _ ED) in H.
      assert (Hio : (if ltb ROps drk alpha then false else io) = false ->
                    io = false \/ exists rk0 d, In rk0 (rk :: l) /\ D (fst rk0) (snd rk0) = Some d /\ d < alpha).
      { destruct (ltb ROps drk alpha) eqn:El; intros Hc; [| left; exact Hc].
        right. exists rk, drk. split; [left; reflexivity |]. split; [exact ED | apply Rltb_true; exact El]. }
      destruct (p1_upd md drk); apply IH in H;
        (destruct H as [H | (rk0 & d & Hin & Hd & Hlt)];
         [apply Hio; exact H | right; exists rk0, d; split; [right; exact Hin | split; assumption]]).
    + rewrite (p1_step_None _ _ _ _ _ ED), p1_fold_IndexErr in H. discriminate.
Qed.

(* as long as (0,0) stays selected, no later entry was below D(0,0) *)
Lemma p1_fold_keep00 alpha l : ~ In (0%nat, 0%nat) l -> forall io d00 io' md',
  fold_left (p1_step ROps D alpha) l (Ok (io, Some d00, Some (0%nat, 0%nat))) = Ok (io', md', Some (0%nat, 0%nat)) ->
  forall rk d, In rk l -> D (fst rk) (snd rk) = Some d -> d00 <= d.
Proof.
  induction l as [| rk0 l IH]; intros Hnin io d00 io' md' H rk d Hin Hd; [destruct Hin |].
  cbn [fold_left] in H. destruct (D (fst rk0) (snd rk0)) as [drk |] eqn:ED.
  - rewrite (p1_step_Some _ _ _ _ _ _ ED) in H. destruct (p1_upd (Some d00) drk) eqn:U.
    + exfalso. apply p1_fold_minIJ in H. destruct H as [H | H].
      * inversion H; subst. apply Hnin. left; reflexivity.
      * apply Hnin. right; exact H.
    + unfold p1_upd in U. apply orb_false_elim in U. destruct U as [_ U]. apply Rltb_false in U.
      destruct Hin as [-> | Hin].
      * rewrite ED in Hd. inversion Hd; subst. exact U.
      * eapply IH; [intros Hc; apply Hnin; right; exact Hc | exact H | exact Hin | exact Hd].
  - rewrite (p1_step_None _ _ _ _ _ ED), p1_fold_IndexErr in H. discriminate.
Qed.

(* row-major order: (0,0) comes first, and only once *)
Lemma index_pairs_head n m : (1 <= n)%nat -> (1 <= m)%nat ->
  exists tl, index_pairs n m = (0%nat, 0%nat) :: tl /\ ~ In (0%nat, 0%nat) tl.
Proof.
  intros Hn Hm. unfold index_pairs.
  destruct (2 * n)%nat as [| a] eqn:En; [lia |]. destruct (2 * m)%nat as [| b] eqn:Em; [lia |].
  cbn [seq flat_map map app].
  eexists. split; [reflexivity |].
  rewrite in_app_iff, in_map_iff, in_flat_map.
  intros [[k [E Hk]] | [r [Hr Hin]]].
  - inversion E; subst. apply in_seq in Hk. lia.
  - apply in_seq in Hr. destruct Hin as [E | Hin]; [inversion E; subst; lia |].
    apply in_map_iff in Hin. destruct Hin as [k [E _]]. inversion E; subst. lia.
Qed.

(* an Ok run has read D(0,0) *)
Lemma p1_fold_Ok_D00 n m alpha x : (1 <= n)%nat -> (1 <= m)%nat ->
  fold_left (p1_step ROps D alpha) (index_pairs n m) (Ok (true, None, None)) = Ok x -> exists d00, D 0%nat 0%nat = Some d00.
Proof.
  intros Hn Hm H. destruct (index_pairs_head n m Hn Hm) as (tl & E & _). rewrite E in H. cbn [fold_left] in H.
  destruct (D 0%nat 0%nat) as [d00 |] eqn:ED; [exists d00; reflexivity |].
  rewrite (p1_step_None alpha true None None (0%nat, 0%nat) ED), p1_fold_IndexErr in H. discriminate.
Qed.

(* PART 2: when isOutside is false at a level whose alpha is <= D(0,0), the selected pair is not (0,0) *)
Theorem minIJ_not_origin n m alpha d00 md i j : (1 <= n)%nat -> (1 <= m)%nat ->
  D 0%nat 0%nat = Some d00 -> alpha <= d00 ->
  fold_left (p1_step ROps D alpha) (index_pairs n m) (Ok (true, None, None)) = Ok (false, md, Some (i, j)) ->
  (i, j) <> (0%nat, 0%nat) /\ (i < 2 * n)%nat /\ (j < 2 * m)%nat.
Proof.
  intros Hn Hm ED Ha H. split.
  - destruct (index_pairs_head n m Hn Hm) as (tl & E & Hnin). rewrite E in H. cbn [fold_left] in H.
    rewrite (p1_step_Some alpha true None None (0%nat, 0%nat) d00 ED) in H.
    change (p1_upd None d00) with true in H. cbv iota in H.
    assert (El : ltb ROps d00 alpha = false) by (apply Rltb_false; exact Ha).
    rewrite El in H.
    intros Hij. inversion Hij; subst.
    pose proof (p1_fold_isOut _ _ _ _ _ _ _ H) as [Hc | (rk & d & Hin & Hd & Hlt)]; [discriminate |].
    pose proof (p1_fold_keep00 alpha tl Hnin _ _ _ _ H rk d Hin Hd). lra.
  - apply p1_fold_minIJ in H. destruct H as [H | H]; [discriminate |]. apply in_index_pairs in H. exact H.
Qed.
End P1.

(* the "Property 2" loop produces a state or an IndexErr, nothing else *)
Lemma p2_fold_shape n (D : nat -> nat -> option R) l : forall st, (exists x, st = Ok x) \/ st = IndexErr ->
  (exists x, fold_left (p2_step ROps n D) l st = Ok x) \/ fold_left (p2_step ROps n D) l st = IndexErr.
Proof.
  induction l as [| ij l IH]; intros st Hst; [exact Hst |].
  cbn [fold_left]. apply IH. destruct Hst as [[[[[f01 f11] f02] f12] ->] | ->]; [| right; reflexivity].
  unfold p2_step.
  destruct (D (fst ij) (snd ij)); [| right; reflexivity]. destruct (D 0%nat (snd ij)); [| right; reflexivity].
  destruct (D (2 * n)%nat (snd ij)); [| right; reflexivity]. destruct (D (fst ij) 0%nat); [| right; reflexivity].
  destruct (D (fst ij) (2 * n)%nat); [| right; reflexivity]. left; eexists; reflexivity.
Qed.

(* ---------------------------------------------------------------------------------------------------------- *)
(* part 3: termination within the fuel                                                                          *)
(* ---------------------------------------------------------------------------------------------------------- *)
Lemma min2_le_l (a b : R) : min2 ROps a b <= a.
Proof. unfold min2. destruct (ltb ROps b a) eqn:E; [apply Rltb_true in E; lra | lra]. Qed.

(* the split fraction i/(2n): in [0, 5/6], and >= 1/6 unless i = 0 *)
Lemma frac_bounds (i N : nat) : (i < N)%nat -> (N <= 6)%nat ->
  0 <= IZR (Z.of_nat i) / IZR (Z.of_nat N) <= 5 / 6 /\ ((1 <= i)%nat -> 1 / 6 <= IZR (Z.of_nat i) / IZR (Z.of_nat N)).
Proof.
  intros Hi HN.
  assert (H0 : 0 <= IZR (Z.of_nat i)) by (apply IZR_le; lia).
  assert (H1 : IZR (Z.of_nat i) + 1 <= IZR (Z.of_nat N)) by (rewrite <- plus_IZR; apply IZR_le; lia).
  assert (H6 : IZR (Z.of_nat N) <= 6) by (apply IZR_le; lia).
  assert (Hi1 : (1 <= i)%nat -> 1 <= IZR (Z.of_nat i)) by (intros H; apply IZR_le; lia).
  set (I := IZR (Z.of_nat i)) in *. set (M := IZR (Z.of_nat N)) in *.
  assert (HM : 0 < M) by lra.
  assert (Hc : I / M * M = I) by (field; lra).
  set (c := I / M) in *.
  assert (Hc0 : 0 <= c) by (unfold c, Rdiv; apply Rmult_le_pos; [lra | left; apply Rinv_0_lt_compat; lra]).
  split; [split; [exact Hc0 | nra] |].
  intros H. specialize (Hi1 H). nra.
Qed.

(* each of the four sub-rectangles: inside the parent, area <= 5/6 of the parent's *)
Lemma subcell_area (wu wv a b : R) : 0 <= wu -> 0 <= wv -> 0 <= a <= 1 -> 0 <= b <= 1 -> (a <= 5 / 6 \/ b <= 5 / 6) ->
  (wu * a) * (wv * b) <= 5 / 6 * (wu * wv).
Proof.
  intros Hwu Hwv Ha Hb Hab.
  assert (Hp : a * b <= 5 / 6) by (destruct Hab; nra).
  assert (HW : 0 <= wu * wv) by (apply Rmult_le_pos; assumption).
  replace (wu * a * (wv * b)) with ((wu * wv) * (a * b)) by ring. nra.
Qed.

Lemma subcells (umin umax vmin vmax cu cv : R) :
  umin <= umax -> vmin <= vmax -> 0 <= cu <= 5 / 6 -> 0 <= cv <= 5 / 6 -> (1 / 6 <= cu \/ 1 / 6 <= cv) ->
  let newu := umin + (umax - umin) * cu in
  let newv := vmin + (vmax - vmin) * cv in
  let W := (umax - umin) * (vmax - vmin) in
  umin <= newu <= umax /\ vmin <= newv <= vmax /\
  (newu - umin) * (newv - vmin) <= 5 / 6 * W /\ (newu - umin) * (vmax - newv) <= 5 / 6 * W /\
  (umax - newu) * (newv - vmin) <= 5 / 6 * W /\ (umax - newu) * (vmax - newv) <= 5 / 6 * W.
Proof.
  intros Hu Hv Hcu Hcv Hc newu newv W.
  assert (Hwu : 0 <= umax - umin) by lra. assert (Hwv : 0 <= vmax - vmin) by lra.
  split; [unfold newu; apply lerp_between; [assumption | lra] |].
  split; [unfold newv; apply lerp_between; [assumption | lra] |].
  replace (newu - umin) with ((umax - umin) * cu) by (unfold newu; ring).
  replace (umax - newu) with ((umax - umin) * (1 - cu)) by (unfold newu; ring).
  replace (newv - vmin) with ((vmax - vmin) * cv) by (unfold newv; ring).
  replace (vmax - newv) with ((vmax - vmin) * (1 - cv)) by (unfold newv; ring).
  unfold W.
  repeat split; apply subcell_area; try assumption; try lra; destruct Hc; lra.
Qed.

Section Term.
Variables (n m : nat) (S : R -> R -> option R) (D : nat -> nat -> option R).
Hypothesis Hn : (1 <= n <= 3)%nat.
Hypothesis Hm : (1 <= m <= 3)%nat.

Lemma minDist_S fuel st umin umax vmin vmax :
  minDist ROps n m S D (Datatypes.S fuel) st umin umax vmin vmax =
  minDist_body ROps n m S D (minDist ROps n m S D fuel) st umin umax vmin vmax.
Proof. reflexivity. Qed.

(* a level whose result is OutOfFuel has passed every early return, and one of its four recursive calls ran out *)
Lemma body_inv rec st umin umax vmin vmax :
  fst (minDist_body ROps n m S D rec st umin umax vmin vmax) = OutOfFuel ->
  exists s00 alpha md i j,
    S umin vmin = Some s00 /\ alpha <= s00 /\
    1 / 1000 < Rabs (umax - umin) /\ 1 / 1000 < Rabs (vmax - vmin) /\
    fold_left (p1_step ROps D alpha) (index_pairs n m) (Ok (true, None, None)) = Ok (false, md, Some (i, j)) /\
    let newu := umin + (umax - umin) * (IZR (Z.of_nat i) / IZR (Z.of_nat (2 * n))) in
    let newv := vmin + (vmax - vmin) * (IZR (Z.of_nat j) / IZR (Z.of_nat (2 * m))) in
    exists st', fst (rec st' umin newu vmin newv) = OutOfFuel \/ fst (rec st' umin newu newv vmax) = OutOfFuel \/
                fst (rec st' newu umax vmin newv) = OutOfFuel \/ fst (rec st' newu umax newv vmax) = OutOfFuel.
Proof.
  intros H. unfold minDist_body in H.
  destruct (S umin vmin) as [s00 |] eqn:E00; [| cbn [fst] in H; discriminate].
  destruct (S umin vmax) as [s01 |] eqn:E01; [| cbn [fst] in H; discriminate].
  destruct (S umax vmin) as [s10 |] eqn:E10; [| cbn [fst] in H; discriminate].
  destruct (S umax vmax) as [s11 |] eqn:E11; [| cbn [fst] in H; discriminate].
  set (alpha := min2 ROps (min2 ROps (min2 ROps s00 s01) s10) s11) in *.
  cbn [fst snd] in H.
  match type of H with context [if ?c then _ else _] => destruct c end; [cbn [fst] in H; discriminate |].
  destruct (leb ROps (abs_ ROps (sub ROps umax umin)) (eps_default ROps)) eqn:Eu; [cbn [orb fst] in H; discriminate |].
  destruct (leb ROps (abs_ ROps (sub ROps vmax vmin)) (eps_default ROps)) eqn:Ev; [cbn [orb fst] in H; discriminate |].
  cbn [orb] in H.
  pose proof (p1_fold_shape D alpha (index_pairs n m) (Ok (true, None, None)) (or_introl (ex_intro _ _ eq_refl))) as Sh1.
  destruct (fold_left (p1_step ROps D alpha) (index_pairs n m) (Ok (true, None, None))) as [[[isOut md] minIJ] | | | | |] eqn:E1;
    try (cbn [fst] in H; discriminate); try (exfalso; destruct Sh1 as [[? Hx] | Hx]; discriminate).
  destruct isOut; [cbn [fst] in H; discriminate |].
  pose proof (p2_fold_shape n D (index_pairs n m) (Ok (true, true, true, true)) (or_introl (ex_intro _ _ eq_refl))) as Sh2.
  destruct (fold_left (p2_step ROps n D) (index_pairs n m) (Ok (true, true, true, true))) as [[[[f01 f11] f02] f12] | | | | |] eqn:E2;
    try (cbn [fst] in H; discriminate); try (exfalso; destruct Sh2 as [[? Hx] | Hx]; discriminate).
  destruct (f01 && f02); [cbn [fst] in H; discriminate |]. destruct (f01 && f12); [cbn [fst] in H; discriminate |].
  destruct (f11 && f02); [cbn [fst] in H; discriminate |]. destruct (f11 && f12); [cbn [fst] in H; discriminate |].
  destruct minIJ as [[i j] |]; [| cbn [fst] in H; discriminate].
  exists s00, alpha, md, i, j.
  split; [reflexivity |].
  split; [unfold alpha; eapply Rle_trans; [apply min2_le_l |]; eapply Rle_trans; [apply min2_le_l |]; apply min2_le_l |].
  apply Rleb_false in Eu. apply Rleb_false in Ev. unfold eps_default in Eu, Ev. cbn [lit abs_ sub ROps] in Eu, Ev.
  split; [lra |]. split; [lra |]. split; [exact E1 |].
  cbn [add sub mul dvd ofZ ROps] in H. cbv zeta.
  set (newu := umin + (umax - umin) * (IZR (Z.of_nat i) / IZR (Z.of_nat (2 * n)))) in *.
  set (newv := vmin + (vmax - vmin) * (IZR (Z.of_nat j) / IZR (Z.of_nat (2 * m)))) in *.
  destruct (rec (Some alpha, Datatypes.S (snd st)) umin newu vmin newv) as [r1 st2] eqn:R1.
  destruct r1 as [x1 | | | | |]; try (cbn [fst] in H; discriminate).
  2:{ eexists. left. rewrite R1. reflexivity. }
  destruct (rec st2 umin newu newv vmax) as [r2 st3] eqn:R2.
  destruct r2 as [x2 | | | | |]; try (cbn [fst] in H; discriminate).
  2:{ eexists. right; left. rewrite R2. reflexivity. }
  destruct (rec st3 newu umax vmin newv) as [r3 st4] eqn:R3.
  destruct r3 as [x3 | | | | |]; try (cbn [fst] in H; discriminate).
  2:{ eexists. right; right; left. rewrite R3. reflexivity. }
  destruct (rec st4 newu umax newv vmax) as [r4 st5] eqn:R4.
  destruct r4 as [x4 | | | | |]; try (cbn [fst] in H; discriminate).
  eexists. right; right; right. rewrite R4. reflexivity.
Qed.

(* the level-independent selection *)
Definition sel : option (nat * nat) :=
  match fold_left (p1_step ROps D 0) (index_pairs n m) (Ok (true, None, None)) with Ok (_, _, mij) => mij | _ => None end.

Lemma sel_spec alpha io md mij :
  fold_left (p1_step ROps D alpha) (index_pairs n m) (Ok (true, None, None)) = Ok (io, md, mij) -> sel = mij.
Proof.
  intros H. destruct (minIJ_level_independent D n m alpha 0 io md mij H) as [io2 H2]. unfold sel. rewrite H2. reflexivity.
Qed.

(* THE BOUND.  If the selected pair is not (0,0), a call on a rectangle that runs out of fuel f+1 has area
   > 1e-6 * (6/5)^f: every nested level multiplies the area by <= 5/6, and the innermost level that still recurses
   has both widths > 1/1000. *)
Lemma oof_bound :
  (forall i j, sel = Some (i, j) -> (i, j) <> (0%nat, 0%nat)) ->
  forall f st umin umax vmin vmax, umin <= umax -> vmin <= vmax ->
    fst (minDist ROps n m S D (Datatypes.S f) st umin umax vmin vmax) = OutOfFuel ->
    / 1000000 * (6 / 5) ^ f < (umax - umin) * (vmax - vmin).
Proof.
  intros Hsel. induction f as [| f IH]; intros st umin umax vmin vmax Hu Hv H; rewrite minDist_S in H;
    apply body_inv in H; destruct H as (s00 & alpha & md & i & j & _ & _ & Hwu & Hwv & E1 & H); cbv zeta in H;
    rewrite Rabs_pos_eq in Hwu by lra; rewrite Rabs_pos_eq in Hwv by lra.
  - rewrite pow_O. nra.
  - destruct H as [st' H].
    pose proof (Hsel i j (sel_spec _ _ _ _ E1)) as Hne.
    apply p1_fold_minIJ in E1. destruct E1 as [E1 | E1]; [discriminate |]. apply in_index_pairs in E1. destruct E1 as [Hi Hj].
    destruct (frac_bounds i (2 * n) Hi ltac:(lia)) as [Hcu Hcu1].
    destruct (frac_bounds j (2 * m) Hj ltac:(lia)) as [Hcv Hcv1].
    assert (Hc : 1 / 6 <= IZR (Z.of_nat i) / IZR (Z.of_nat (2 * n)) \/ 1 / 6 <= IZR (Z.of_nat j) / IZR (Z.of_nat (2 * m))).
    { destruct i as [| i']; [| left; apply Hcu1; lia]. destruct j as [| j']; [| right; apply Hcv1; lia].
      exfalso. apply Hne. reflexivity. }
    pose proof (subcells umin umax vmin vmax _ _ Hu Hv Hcu Hcv Hc) as Hs. cbv zeta in Hs.
    set (newu := umin + (umax - umin) * (IZR (Z.of_nat i) / IZR (Z.of_nat (2 * n)))) in *.
    set (newv := vmin + (vmax - vmin) * (IZR (Z.of_nat j) / IZR (Z.of_nat (2 * m)))) in *.
    destruct Hs as (Hnu & Hnv & B1 & B2 & B3 & B4).
    change ((6 / 5) ^ Datatypes.S f) with (6 / 5 * (6 / 5) ^ f).
    destruct H as [H | [H | [H | H]]]; apply IH in H; try lra.
Qed.

(* THE ABSTRACT TERMINATION THEOREM: if D(0,0) is not below S(0,0) (for the finder's own S and D: they are equal),
   a run started on the unit square never runs out of fuel >= 77 (at most 76 nested levels: (6/5)^76 > 1e6) *)
Theorem minDist_terminates_weak :
  (forall d s, D 0%nat 0%nat = Some d -> S 0 0 = Some s -> s <= d) ->
  forall fuel st, (77 <= fuel)%nat -> fst (minDist ROps n m S D fuel st 0 1 0 1) <> OutOfFuel.
Proof.
  intros H00 fuel st Hf H. destruct fuel as [| f]; [lia |].
  pose proof H as H'. rewrite minDist_S in H'. apply body_inv in H'.
  destruct H' as (s00 & alpha & md & i & j & ES & Ha & _ & _ & E1 & _).
  destruct (p1_fold_Ok_D00 D n m alpha _ ltac:(lia) ltac:(lia) E1) as [d00 ED].
  pose proof (H00 d00 s00 ED ES) as Hsd.
  destruct (minIJ_not_origin D n m alpha d00 md i j ltac:(lia) ltac:(lia) ED ltac:(lra) E1) as [Hne _].
  assert (Hsel : forall i' j', sel = Some (i', j') -> (i', j') <> (0%nat, 0%nat)).
  { intros i' j' Hs. rewrite (sel_spec _ _ _ _ E1) in Hs. inversion Hs; subst. exact Hne. }
  pose proof (oof_bound Hsel f st 0 1 0 1 ltac:(lra) ltac:(lra) H) as B.
  assert (Hp : (6 / 5) ^ 76 <= (6 / 5) ^ f) by (apply Rle_pow; [lra | lia]).
  assert (Hq : 1000000 < (6 / 5) ^ 76) by lra.
  lra.
Qed.

(* the same under the hypothesis "D(0,0) and S(0,0) are available and equal" *)
Theorem minDist_terminates_abstract :
  (exists d00, D 0%nat 0%nat = Some d00 /\ S 0 0 = Some d00) ->
  forall fuel st, (80 <= fuel)%nat -> fst (minDist ROps n m S D fuel st 0 1 0 1) <> OutOfFuel.
Proof.
  intros (d00 & ED & ES) fuel st Hf. apply minDist_terminates_weak; [| lia].
  intros d s Hd Hs. rewrite ED in Hd. rewrite ES in Hs. inversion Hd; inversion Hs; subst. lra.
Qed.
End Term.

(* ---------- concrete segments ---------- *)
Lemma seg_order_bounds (s : segment R) : (1 <= seg_order s <= 3)%nat.
Proof. destruct s; cbn [seg_order]; lia. Qed.

Theorem seg_minDist_terminates fuel s1 s2 st : (80 <= fuel)%nat ->
  fst (minDist ROps (seg_order s1) (seg_order s2) (fun u v => Some (seg_S ROps s1 s2 u v)) (Dtab (seg_Dtable ROps s1 s2))
         fuel st 0 1 0 1) <> OutOfFuel.
Proof.
  intros Hf. apply minDist_terminates_abstract; [apply seg_order_bounds | apply seg_order_bounds | | exact Hf].
  exists (seg_S ROps s1 s2 0 0). split; [apply seg_D00 | reflexivity].
Qed.

Theorem curveDistance_state_terminates fuel s1 s2 : (80 <= fuel)%nat ->
  fst (curveDistance_state ROps (seg_order s1) (seg_order s2) (fun u v => Some (seg_S ROps s1 s2 u v))
         (Dtab (seg_Dtable ROps s1 s2)) fuel) <> OutOfFuel.
Proof.
  intros Hf. unfold curveDistance_state. cbn [ofZ ROps].
  pose proof (seg_minDist_terminates fuel s1 s2 (None, 0%nat) Hf) as H.
  destruct (minDist ROps (seg_order s1) (seg_order s2) (fun u v => Some (seg_S ROps s1 s2 u v)) (Dtab (seg_Dtable ROps s1 s2))
              fuel (None, 0%nat) 0 1 0 1) as [r st].
  cbn [fst] in *. destruct r as [[[alpha u] v] | | | | |]; cbn [res_map]; try discriminate. exact H.
Qed.

(* PART 3, main statement *)
Theorem curveDistance_terminates fuel s1 s2 : (80 <= fuel)%nat -> curveDistance ROps fuel s1 s2 <> OutOfFuel.
Proof. intros Hf. unfold curveDistance, curveDistance_with. apply curveDistance_state_terminates. exact Hf. Qed.

(* PART 4: over the reals, with fuel >= 80, curveDistance has no exceptional outcome at all, and the reported distance
   is a realised distance with parameters in [0,1] *)
Theorem curveDistance_returns fuel s1 s2 : (80 <= fuel)%nat ->
  exists d t1 t2, curveDistance ROps fuel s1 s2 = Ok (d, t1, t2).
Proof.
  intros Hf. destruct (curveDistance_outcomes fuel s1 s2) as [[[[d t1] t2] H] | H].
  - exists d, t1, t2. exact H.
  - exfalso. exact (curveDistance_terminates fuel s1 s2 Hf H).
Qed.

Corollary curveDistance_returns_realised fuel s1 s2 : (80 <= fuel)%nat ->
  exists d t1 t2, curveDistance ROps fuel s1 s2 = Ok (d, t1, t2) /\
    0 <= d /\ 0 <= t1 <= 1 /\ 0 <= t2 <= 1 /\ exists u' v', 0 <= u' <= 1 /\ 0 <= v' <= 1 /\ d = seg_dist s1 s2 u' v'.
Proof.
  intros Hf. destruct (curveDistance_returns fuel s1 s2 Hf) as (d & t1 & t2 & H).
  exists d, t1, t2. split; [exact H |]. split; [exact (dist_nonneg _ _ _ _ _ _ H) |].
  destruct (curveDistance_realised _ _ _ _ _ _ H) as (H1 & H2 & H3). repeat split; try apply H1; try apply H2. exact H3.
Qed.

(* ---------------------------------------------------------------------------------------------------------- *)
(* fuel is semantically transparent (any carrier, floats included): a run that did not run out of fuel returns the *)
(* same result and the same final state with any larger fuel                                                     *)
(* ---------------------------------------------------------------------------------------------------------- *)
Section Mono.
Context {T : Type} (O : Ops T).
Variables (n m : nat) (S : T -> T -> option T) (D : nat -> nat -> option T).

Definition rec_extends (rec1 rec2 : @state T -> T -> T -> T -> T -> res (T * T * T) * @state T) : Prop :=
  forall st a b c d, fst (rec1 st a b c d) <> OutOfFuel -> rec2 st a b c d = rec1 st a b c d.

Lemma body_extends rec1 rec2 : rec_extends rec1 rec2 -> rec_extends (minDist_body O n m S D rec1) (minDist_body O n m S D rec2).
Proof.
  intros Hr st a b c d. unfold minDist_body.
  destruct (S a c); [| reflexivity]. destruct (S a d); [| reflexivity].
  destruct (S b c); [| reflexivity]. destruct (S b d); [| reflexivity].
  match goal with |- context [if ?c then _ else _] => destruct c end; [reflexivity |].
  match goal with |- context [if ?c then _ else _] => destruct c end; [reflexivity |].
  destruct (fold_left (p1_step O D _) (index_pairs n m) (Ok (true, None, None))) as [[[isOut md] minIJ] | | | | |]; try reflexivity.
  destruct isOut; [reflexivity |].
  destruct (fold_left (p2_step O n D) (index_pairs n m) (Ok (true, true, true, true))) as [[[[f01 f11] f02] f12] | | | | |]; try reflexivity.
  destruct (f01 && f02); [reflexivity |]. destruct (f01 && f12); [reflexivity |].
  destruct (f11 && f02); [reflexivity |]. destruct (f11 && f12); [reflexivity |].
  destruct minIJ as [[i j] |]; [| reflexivity].
  match goal with |- context [rec1 ?s ?x ?y ?z ?w] => pose proof (Hr s x y z w) as H1; destruct (rec1 s x y z w) as [r1 st2] end.
  cbn [fst] in H1. destruct r1 as [x1 | | | | |]; try (rewrite H1 by discriminate; reflexivity).
  2:{ intros Hc. exfalso. apply Hc. reflexivity. }
  rewrite H1 by discriminate.
  match goal with |- context [rec1 ?s ?x ?y ?z ?w] => pose proof (Hr s x y z w) as H2; destruct (rec1 s x y z w) as [r2 st3] end.
  cbn [fst] in H2. destruct r2 as [x2 | | | | |]; try (rewrite H2 by discriminate; reflexivity).
  2:{ intros Hc. exfalso. apply Hc. reflexivity. }
  rewrite H2 by discriminate.
  match goal with |- context [rec1 ?s ?x ?y ?z ?w] => pose proof (Hr s x y z w) as H3; destruct (rec1 s x y z w) as [r3 st4] end.
  cbn [fst] in H3. destruct r3 as [x3 | | | | |]; try (rewrite H3 by discriminate; reflexivity).
  2:{ intros Hc. exfalso. apply Hc. reflexivity. }
  rewrite H3 by discriminate.
  match goal with |- context [rec1 ?s ?x ?y ?z ?w] => pose proof (Hr s x y z w) as H4; destruct (rec1 s x y z w) as [r4 st5] end.
  cbn [fst] in H4. destruct r4 as [x4 | | | | |]; try (rewrite H4 by discriminate; reflexivity).
  intros Hc. exfalso. apply Hc. reflexivity.
Qed.

Lemma minDist_extends_S f : rec_extends (minDist O n m S D f) (minDist O n m S D (Datatypes.S f)).
Proof.
  induction f as [| f IH].
  - intros st a b c d H. exfalso. apply H. reflexivity.
  - change (minDist O n m S D (Datatypes.S (Datatypes.S f))) with (minDist_body O n m S D (minDist O n m S D (Datatypes.S f))).
    change (minDist O n m S D (Datatypes.S f)) with (minDist_body O n m S D (minDist O n m S D f)) at 1.
    apply body_extends. exact IH.
Qed.

Lemma minDist_fuel_irrelevant f f' st a b c d : (f <= f')%nat ->
  fst (minDist O n m S D f st a b c d) <> OutOfFuel -> minDist O n m S D f' st a b c d = minDist O n m S D f st a b c d.
Proof.
  intros Hle H. induction Hle as [| f' Hle IH]; [reflexivity |].
  rewrite <- IH. apply minDist_extends_S. rewrite IH. exact H.
Qed.
End Mono.

(* with fuel >= 80 the real-number run (result AND final state bestAlpha / iterations) is the run with fuel 80 *)
Theorem curveDistance_state_fuel_irrelevant fuel s1 s2 : (80 <= fuel)%nat ->
  curveDistance_state ROps (seg_order s1) (seg_order s2) (fun u v => Some (seg_S ROps s1 s2 u v)) (Dtab (seg_Dtable ROps s1 s2)) fuel =
  curveDistance_state ROps (seg_order s1) (seg_order s2) (fun u v => Some (seg_S ROps s1 s2 u v)) (Dtab (seg_Dtable ROps s1 s2)) 80.
Proof.
  intros Hf. unfold curveDistance_state. cbn [ofZ ROps].
  rewrite (minDist_fuel_irrelevant ROps _ _ _ _ 80 fuel _ _ _ _ _ Hf (seg_minDist_terminates 80 s1 s2 (None, 0%nat) (le_n 80))).
  reflexivity.
Qed.

Theorem curveDistance_fuel_irrelevant fuel s1 s2 : (80 <= fuel)%nat ->
  curveDistance ROps fuel s1 s2 = curveDistance ROps 80 s1 s2.
Proof.
  intros Hf. unfold curveDistance, curveDistance_with. rewrite (curveDistance_state_fuel_irrelevant fuel s1 s2 Hf). reflexivity.
Qed.

(* ---------------------------------------------------------------------------------------------------------- *)
(* part 5: a float run; and the hypothesis on D(0,0) is needed                                                  *)
(* ---------------------------------------------------------------------------------------------------------- *)
Definition cubic_a : segment float :=
  SCubic (C4 (P 0%float 0%float) (P 1%float 2%float) (P 3%float 2%float) (P 4%float 0%float)).
Definition cubic_b : segment float :=
  SCubic (C4 (P 0%float 5%float) (P 1%float 3%float) (P 3%float 4%float) (P 5%float 6%float)).
Definition not_oof {A : Type} (r : res A) : bool := match r with OutOfFuel => false | _ => true end.
Definition is_ok {A : Type} (r : res A) : bool := match r with Ok _ => true | _ => false end.
(* least fuel (= nesting depth of the calls) with which the binary64 run does not run out *)
Definition fuel_needed (s1 s2 : segment float) (mx : nat) : option nat :=
  find (fun f => not_oof (curveDistance FOps f s1 s2)) (seq 0 (Datatypes.S mx)).

(* the binary64 run on two concrete cubics returns a value with fuel 80; the calls nest 11 deep; 81 calls in total *)
Example float_run_ok : is_ok (curveDistance FOps 80 cubic_a cubic_b) = true.
Proof. vm_compute. reflexivity. Qed.
Example float_run_depth : fuel_needed cubic_a cubic_b 80 = Some 11%nat.
Proof. vm_compute. reflexivity. Qed.
Example float_run_iterations :
  snd (snd (curveDistance_state FOps (seg_order cubic_a) (seg_order cubic_b) (fun u v => Some (seg_S FOps cubic_a cubic_b u v))
              (Dtab (seg_Dtable FOps cubic_a cubic_b)) 80)) = 81%nat.
Proof. vm_compute. reflexivity. Qed.

(* For ARBITRARY (S, D) the termination statement is false.  S = 3 everywhere; D(0,0) = 1 is the first minimum of the
   table (so minIJ = (0,0) and the "split" point is the corner umin, vmin) but is below S(0,0) = 3 (so isOutside is
   false), and the boundary flags fail: three of the four sub-rectangles are flat and return at once, the fourth is the
   whole rectangle again.  Every fuel is exhausted.  (This S, D violate D(0,0) >= S(0,0).) *)
Definition Sbad (u v : R) : option R := Some 3.
Definition Dbad (r k : nat) : option R :=
  Some (match r, k with 0%nat, 0%nat => 1 | 0%nat, _ => 2 | 1%nat, _ => 1 | _, _ => 2 end).

Ltac decide_cmp :=
  repeat match goal with
  | |- context [Rlt_dec ?a ?b] => destruct (Rlt_dec a b); try lra
  | |- context [Req_EM_T ?a ?b] => destruct (Req_EM_T a b); try lra
  end.

Lemma bad_p1 : fold_left (p1_step ROps Dbad 3) (index_pairs 1 1) (Ok (true, None, None)) = Ok (false, Some 1, Some (0%nat, 0%nat)).
Proof. rcbv. decide_cmp. reflexivity. Qed.
Lemma bad_p2 : fold_left (p2_step ROps 1 Dbad) (index_pairs 1 1) (Ok (true, true, true, true)) = Ok (false, false, true, false).
Proof. rcbv. decide_cmp. reflexivity. Qed.

Definition bad_good (st : @state R) : Prop := fst st = None \/ fst st = Some 3.

Lemma lt33 : ltb ROps 3 3 = false. Proof. apply Rltb_false. lra. Qed.

Lemma bad_flat rec st a b c d : bad_good st -> (b = a \/ d = c) ->
  exists x, minDist_body ROps 1 1 Sbad Dbad rec st a b c d = (Ok x, (Some 3, Datatypes.S (snd st))).
Proof.
  intros Hg Hw. unfold minDist_body, Sbad. rewrite !min2_same. destruct st as [best it]. cbn [fst snd].
  assert (E : truthy ROps best && match best with Some b0 => ltb ROps b0 3 | None => false end = false).
  { destruct Hg as [Hg | Hg]; cbn [fst] in Hg; subst best; [reflexivity |]. rewrite lt33. apply andb_false_r. }
  rewrite E.
  assert (E2 : leb ROps (abs_ ROps (sub ROps b a)) (eps_default ROps) || leb ROps (abs_ ROps (sub ROps d c)) (eps_default ROps) = true).
  { apply orb_true_iff. unfold eps_default. cbn [lit abs_ sub ROps].
    destruct Hw as [-> | ->]; [left | right]; apply Rleb_true; rewrite Rminus_diag_eq by reflexivity; rewrite Rabs_R0; lra. }
  rewrite E2. eexists. reflexivity.
Qed.

Lemma bad_diverges fuel : forall st umin vmin, umin = 0 -> vmin = 0 -> bad_good st ->
  fst (minDist ROps 1 1 Sbad Dbad fuel st umin 1 vmin 1) = OutOfFuel.
Proof.
  induction fuel as [| f IH]; intros st umin vmin Hu Hv Hg; [reflexivity |]. subst umin vmin.
  cbn [minDist]. unfold minDist_body at 1. unfold Sbad at 1 2 3 4. cbv beta iota. rewrite !min2_same.
  destruct st as [best it]. cbn [fst snd].
  assert (E : truthy ROps best && match best with Some b0 => ltb ROps b0 3 | None => false end = false).
  { destruct Hg as [Hg | Hg]; cbn [fst] in Hg; subst best; [reflexivity |]. rewrite lt33. apply andb_false_r. }
  rewrite E.
  assert (E2 : leb ROps (abs_ ROps (sub ROps 1 0)) (eps_default ROps) = false).
  { apply Rleb_false. unfold eps_default. cbn [lit abs_ sub ROps]. rewrite Rminus_0_r, Rabs_R1. lra. }
  rewrite E2. cbn [orb]. rewrite bad_p1, bad_p2. cbn [andb].
  cbn [add sub mul dvd ofZ ROps].
  set (newu := 0 + (1 - 0) * (IZR (Z.of_nat 0) / IZR (Z.of_nat (2 * 1)))).
  assert (Hnu : newu = 0) by (unfold newu; cbn [Z.of_nat]; lra).
  clearbody newu.
  destruct f as [| f']; [reflexivity |].
  destruct (bad_flat (minDist ROps 1 1 Sbad Dbad f') (Some 3, Datatypes.S it) 0 newu 0 newu (or_intror eq_refl) (or_introl Hnu)) as [x1 R1].
  rewrite minDist_S at 1. rewrite R1.
  destruct (bad_flat (minDist ROps 1 1 Sbad Dbad f') (Some 3, Datatypes.S (Datatypes.S it)) 0 newu newu 1 (or_intror eq_refl) (or_introl Hnu)) as [x2 R2].
  rewrite minDist_S at 1. cbn [snd]. rewrite R2.
  destruct (bad_flat (minDist ROps 1 1 Sbad Dbad f') (Some 3, Datatypes.S (Datatypes.S (Datatypes.S it))) newu 1 0 newu (or_intror eq_refl) (or_intror Hnu)) as [x3 R3].
  rewrite minDist_S at 1. cbn [snd]. rewrite R3. cbn [snd].
  pose proof (IH (Some 3, Datatypes.S (Datatypes.S (Datatypes.S (Datatypes.S it)))) newu newu Hnu Hnu (or_intror eq_refl)) as R4.
  destruct (minDist ROps 1 1 Sbad Dbad (Datatypes.S f') (Some 3, Datatypes.S (Datatypes.S (Datatypes.S (Datatypes.S it)))) newu 1 newu 1) as [r4 st5].
  cbn [fst] in R4. subst r4. reflexivity.
Qed.

Theorem termination_needs_D00 : forall fuel, fst (minDist ROps 1 1 Sbad Dbad fuel (None, 0%nat) 0 1 0 1) = OutOfFuel.
Proof. intros fuel. apply bad_diverges; [reflexivity | reflexivity | left; reflexivity]. Qed.
