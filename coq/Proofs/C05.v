(* C05: line-line and curve-line intersections are sound and complete (statements over the real carrier ROps).
   Part A: Line._line_line_intersections;  Part B: alignment transformation;  Part C: quadratic roots;
   Part D/E: Cardano (CubicBezier._findRoots);  Part F: parameters of curve-line intersections. *)
From Coq Require Import PrimFloat.
From Coq Require Import ZArith List Bool Reals Lra Lia Psatz.
From Coq Require Import Sorting.Sorted Permutation.
From BZ Require Import Base.Ops Proofs.Tactics Gen.Point Gen.Utils Gen.Affine Gen.Line Gen.Quad Gen.Cubic.
Import ListNotations.
Open Scope R_scope.

(* ------------------------------------------------------------------------------------------------ *)
(** * 0. Preliminaries *)

Ltac rdec :=
  repeat match goal with
  | |- context[Rlt_dec ?a ?b] => destruct (Rlt_dec a b)
  | |- context[Rle_dec ?a ?b] => destruct (Rle_dec a b)
  | |- context[Req_EM_T ?a ?b] => destruct (Req_EM_T a b)
  | _ : context[Rlt_dec ?a ?b] |- _ => destruct (Rlt_dec a b)
  | _ : context[Rle_dec ?a ?b] |- _ => destruct (Rle_dec a b)
  | _ : context[Req_EM_T ?a ?b] |- _ => destruct (Req_EM_T a b)
  end.

Lemma sq_nonneg (x : R) : 0 <= x * x.
Proof. nra. Qed.
Lemma sq_pos (x : R) : x <> 0 -> 0 < x * x.
Proof. intros H. destruct (Rtotal_order x 0) as [H1|[H1|H1]]; [nra | contradiction | nra]. Qed.

(* my_epsilon = 2e-7; the generated literal is 1/5000000 *)
Definition my_eps : R := 2 / 10 ^ 7.
Lemma my_eps_val : my_eps = 1 / 5000000.
Proof. unfold my_eps. simpl. field. Qed.
Lemma my_eps_lit : lit ROps 1 5000000 0x1.ad7f29abcaf48p-23%float = my_eps.
Proof. rewrite my_eps_val. reflexivity. Qed.

(* the final filter of [intersections(limited=True)] *)
Definition withinRange (t : R) : bool :=
  negb (ltb ROps t (2 / 10 ^ 7)) && negb (ltb ROps (1 + 2 / 10 ^ 7) t).
Definition limited (l : list (R * pt R * R)) : list (R * pt R * R) :=
  filter (fun i => withinRange (fst (fst i)) && withinRange (snd i)) l.

Lemma withinRange_true t : withinRange t = true <-> my_eps <= t <= 1 + my_eps.
Proof.
  unfold withinRange, my_eps. rewrite andb_true_iff, !negb_true_iff, !Rltb_false. tauto.
Qed.

(* math.isclose (rel_tol = 1e-9, abs_tol = 0) *)
Lemma isclose_true_iff a b :
  isclose ROps a b = true <-> Rabs (b - a) <= 1 / 1000000000 * Rmax (Rabs a) (Rabs b).
Proof.
  rcbv. rewrite !Rabs_mult. rewrite (Rabs_pos_eq (1 / 1000000000)) by lra.
  pose proof (Rabs_pos a) as Ha. pose proof (Rabs_pos b) as Hb. pose proof (Rabs_pos (b - a)) as Hd.
  assert (E : a = b -> Rabs (b - a) = 0) by (intros ->; rewrite Rminus_diag_eq by reflexivity; apply Rabs_R0).
  unfold Rmax. destruct (Rle_dec (Rabs a) (Rabs b)); rdec; split; intros H;
    try reflexivity; try discriminate; try lra; try (specialize (E ltac:(assumption)); lra).
Qed.
Lemma isclose_false_iff a b :
  isclose ROps a b = false <-> 1 / 1000000000 * Rmax (Rabs a) (Rabs b) < Rabs (b - a).
Proof.
  pose proof (isclose_true_iff a b) as H. destruct (isclose ROps a b); split; intros H1; try discriminate; try reflexivity.
  - apply Rlt_not_le in H1. exfalso; apply H1, H; reflexivity.
  - apply Rnot_le_lt. intros H2. apply H in H2. discriminate.
Qed.
Lemma isclose_sym a b : isclose ROps a b = isclose ROps b a.
Proof.
  pose proof (isclose_true_iff a b) as H1. pose proof (isclose_true_iff b a) as H2.
  rewrite Rmax_comm, <- Rabs_Ropp, Ropp_minus_distr in H2.
  destruct (isclose ROps a b), (isclose ROps b a); try reflexivity.
  - symmetry. apply H2, H1. reflexivity.
  - apply H1, H2. reflexivity.
Qed.
Lemma isclose_refl a : isclose ROps a a = true.
Proof. rcbv. destruct (Req_EM_T a a); [reflexivity | contradiction]. Qed.
Lemma isclose_false_neq a b : isclose ROps a b = false -> a <> b.
Proof. intros H ->. rewrite isclose_refl in H. discriminate. Qed.

(* Point.__eq__ is the same tolerance test on both coordinates *)
Lemma Point_eq_iff_isclose (p q : pt R) :
  Point___eq__ ROps p q = isclose ROps (px p) (px q) && isclose ROps (py p) (py q).
Proof.
  assert (K : forall a b, leb ROps (abs_ ROps (sub ROps a b))
                (max2 ROps (mul ROps (lit ROps 1 1000000000 0x1.12e0be826d695p-30%float) (max2 ROps (abs_ ROps a) (abs_ ROps b)))
                           (lit ROps 0 1 0x0.0p+0%float)) = isclose ROps a b).
  { intros a b. pose proof (isclose_true_iff a b) as H.
    match goal with |- ?l = _ => assert (H2 : l = true <-> Rabs (b - a) <= 1 / 1000000000 * Rmax (Rabs a) (Rabs b)) end.
    { rewrite Rleb_true. rcbv. rewrite <- (Rabs_Ropp (a - b)), Ropp_minus_distr.
      pose proof (Rabs_pos a). pose proof (Rabs_pos b).
      unfold Rmax. destruct (Rle_dec (Rabs a) (Rabs b)); rdec; split; intros; lra. }
    match goal with |- ?l = _ => destruct l end; destruct (isclose ROps a b); try reflexivity.
    - symmetry; apply H, H2; reflexivity.
    - apply H2, H; reflexivity. }
  destruct p as [x1 y1], q as [x2 y2]. unfold Point___eq__. cbn [px py]. cbv zeta. rewrite !K. reflexivity.
Qed.

(* ------------------------------------------------------------------------------------------------ *)
(** * A. Line-line intersections *)

Lemma dist_self (q : pt R) : Point_distanceFrom ROps q q = 0.
Proof.
  destruct q as [x y]. rcbv. replace ((x - x) * (x - x) + (y - y) * (y - y)) with 0 by ring. apply sqrt_0.
Qed.

(* Line.tOfPoint inverts Line.pointAtTime as soon as one coordinate extent is not isclose-zero;
   the 2e-7 re-check (flag = false) then passes because the distance is exactly 0. *)
Lemma tOfPoint_pointAtTime (s : seg2 R) (u : R) (flag : bool) :
  isclose ROps (px (l1 s)) (px (l0 s)) = false \/ isclose ROps (py (l1 s)) (py (l0 s)) = false ->
  Line_tOfPoint ROps s (Line_pointAtTime ROps s u) flag = u.
Proof.
  intros Hok. destruct s as [[a1 a2] [b1 b2]]. cbn [l0 l1 px py] in Hok.
  unfold Line_tOfPoint. cbn [l0 l1 px py]. cbv zeta.
  assert (Lt : ltb ROps 0 (lit ROps 1 5000000 0x1.ad7f29abcaf48p-23%float) = true).
  { apply Rltb_true. rcbv. lra. }
  assert (Ex : b1 <> a1 ->
     dvd ROps (sub ROps (px (Line_pointAtTime ROps (L2 (P a1 a2) (P b1 b2)) u)) a1) (sub ROps b1 a1) = u).
  { intros N. rcbv. field. lra. }
  assert (Ey : b2 <> a2 ->
     dvd ROps (sub ROps (py (Line_pointAtTime ROps (L2 (P a1 a2) (P b1 b2)) u)) a2) (sub ROps b2 a2) = u).
  { intros N. rcbv. field. lra. }
  destruct (isclose ROps b1 a1) eqn:Cx; destruct (isclose ROps b2 a2) eqn:Cy; cbn [negb andb orb].
  - destruct Hok; discriminate.
  - rewrite (Ey (isclose_false_neq _ _ Cy)), dist_self, Lt, orb_true_r. reflexivity.
  - rewrite orb_true_r. rewrite (Ex (isclose_false_neq _ _ Cx)), dist_self, Lt, orb_true_r. reflexivity.
  - rewrite orb_false_r.
    destruct (leb ROps (abs_ ROps (sub ROps b2 a2)) (abs_ ROps (sub ROps b1 a1))).
    + rewrite (Ex (isclose_false_neq _ _ Cx)), dist_self, Lt, orb_true_r. reflexivity.
    + rewrite (Ey (isclose_false_neq _ _ Cy)), dist_self, Lt, orb_true_r. reflexivity.
Qed.

(* geometry vocabulary *)
Definition on_carrier (s : seg2 R) (p : pt R) : Prop :=
  (px (l1 s) - px (l0 s)) * (py p - py (l0 s)) - (py (l1 s) - py (l0 s)) * (px p - px (l0 s)) = 0.
Definition slope (s : seg2 R) : R := (py (l1 s) - py (l0 s)) / (px (l1 s) - px (l0 s)).
Definition param_x (s : seg2 R) (p : pt R) : R := (px p - px (l0 s)) / (px (l1 s) - px (l0 s)).
Definition param_y (s : seg2 R) (p : pt R) : R := (py p - py (l0 s)) / (py (l1 s) - py (l0 s)).
Definition ll_x (s o : seg2 R) : R :=
  (slope s * px (l0 s) - py (l0 s) - slope o * px (l0 o) + py (l0 o)) / (slope s - slope o).
Definition ll_point (s o : seg2 R) : pt R := P (ll_x s o) (slope s * (ll_x s o - px (l0 s)) + py (l0 s)).

Lemma pointAtTime_on_carrier s t : on_carrier s (Line_pointAtTime ROps s t).
Proof. destruct_pts. unfold on_carrier. rcbv. ring. Qed.

Lemma on_carrier_param_x s p :
  px (l1 s) <> px (l0 s) -> on_carrier s p -> Line_pointAtTime ROps s (param_x s p) = p.
Proof.
  destruct s as [[a1 a2] [b1 b2]], p as [x y]. unfold on_carrier, param_x. cbn [l0 l1 px py]. intros N H.
  rcbv. apply pt_eq.
  - field. lra.
  - assert (E : (b2 - a2) * (x - a1) = (b1 - a1) * (y - a2)) by lra.
    replace (a2 * (1 - (x - a1) / (b1 - a1)) + b2 * ((x - a1) / (b1 - a1)))
      with (a2 + ((b2 - a2) * (x - a1)) / (b1 - a1)) by (field; lra).
    rewrite E. field. lra.
Qed.

(* what the two [_bothPointsAreOnSameSideOfOrigin] tests of the general branch mean:
   for a point at parameter t of a segment with distinct end points,
   (p, end, start) holds iff t > 0   -- p is strictly on the end point's side of the start point;
   (p, start, end) holds iff t < 1   -- p is strictly on the start point's side of the end point. *)
Lemma same_side_start (r s : seg2 R) t :
  l0 s <> l1 s ->
  Line__bothPointsAreOnSameSideOfOrigin ROps r (Line_pointAtTime ROps s t) (l1 s) (l0 s) = true <-> 0 < t.
Proof.
  destruct s as [[a1 a2] [b1 b2]]. cbn [l0 l1]. intros N.
  assert (D : b1 - a1 <> 0 \/ b2 - a2 <> 0).
  { destruct (Req_dec b1 a1) as [E1|E1]; [ | left; lra]. destruct (Req_dec b2 a2) as [E2|E2]; [ | right; lra].
    subst. contradiction N; reflexivity. }
  unfold Line__bothPointsAreOnSameSideOfOrigin. cbv zeta. rewrite negb_true_iff, andb_false_iff, !Rleb_false.
  rcbv.
  replace ((a1 * (1 - t) + b1 * t - a1) * (b1 - a1)) with (t * ((b1 - a1) * (b1 - a1))) by ring.
  replace ((a2 * (1 - t) + b2 * t - a2) * (b2 - a2)) with (t * ((b2 - a2) * (b2 - a2))) by ring.
  replace (0 / 1) with 0 by field.
  pose proof (sq_nonneg (b1 - a1)) as S1. pose proof (sq_nonneg (b2 - a2)) as S2.
  split.
  - intros [H|H]; nra.
  - intros H. destruct D as [D|D]; apply sq_pos in D; [left | right]; nra.
Qed.
Lemma same_side_end (r s : seg2 R) t :
  l0 s <> l1 s ->
  Line__bothPointsAreOnSameSideOfOrigin ROps r (Line_pointAtTime ROps s t) (l0 s) (l1 s) = true <-> t < 1.
Proof.
  destruct s as [[a1 a2] [b1 b2]]. cbn [l0 l1]. intros N.
  assert (D : b1 - a1 <> 0 \/ b2 - a2 <> 0).
  { destruct (Req_dec b1 a1) as [E1|E1]; [ | left; lra]. destruct (Req_dec b2 a2) as [E2|E2]; [ | right; lra].
    subst. contradiction N; reflexivity. }
  unfold Line__bothPointsAreOnSameSideOfOrigin. cbv zeta. rewrite negb_true_iff, andb_false_iff, !Rleb_false.
  rcbv.
  replace ((a1 * (1 - t) + b1 * t - b1) * (a1 - b1)) with ((1 - t) * ((b1 - a1) * (b1 - a1))) by ring.
  replace ((a2 * (1 - t) + b2 * t - b2) * (a2 - b2)) with ((1 - t) * ((b2 - a2) * (b2 - a2))) by ring.
  replace (0 / 1) with 0 by field.
  pose proof (sq_nonneg (b1 - a1)) as S1. pose proof (sq_nonneg (b2 - a2)) as S2.
  split.
  - intros [H|H]; nra.
  - intros H. destruct D as [D|D]; apply sq_pos in D; [left | right]; nra.
Qed.

(* The hypotheses of the general branch are literally the negations of the five early-return guards of
   [_line_line_intersections] plus the slope test [abs(slope12 - slope34) >= my_epsilon]. *)
Record general_branch (s o : seg2 R) : Prop := mk_general_branch {
  gb_not_both_vertical :
    isclose ROps (px (l0 o)) (px (l1 o)) && isclose ROps (px (l0 s)) (px (l1 s)) = false;
  gb_not_both_horizontal :
    isclose ROps (py (l0 o)) (py (l1 o)) && isclose ROps (py (l0 s)) (py (l1 s)) = false;
  gb_not_degenerate :
    Point___eq__ ROps (l0 o) (l1 o) || Point___eq__ ROps (l0 s) (l1 s) = false;
  gb_first_not_vertical : isclose ROps (px (l1 s)) (px (l0 s)) = false;
  gb_second_not_vertical : isclose ROps (px (l0 o)) (px (l1 o)) = false;
  gb_slopes_apart : my_eps <= Rabs (slope s - slope o) }.

Lemma general_branch_neq s o : general_branch s o ->
  px (l1 s) - px (l0 s) <> 0 /\ px (l1 o) - px (l0 o) <> 0 /\ slope s - slope o <> 0.
Proof.
  intros [_ _ _ H4 H5 H6]. apply isclose_false_neq in H4. apply isclose_false_neq in H5.
  repeat split; try lra. intros E. rewrite E, Rabs_R0, my_eps_val in H6. lra.
Qed.
Lemma general_branch_cross s o : general_branch s o ->
  (py (l1 s) - py (l0 s)) * (px (l1 o) - px (l0 o)) - (py (l1 o) - py (l0 o)) * (px (l1 s) - px (l0 s)) <> 0.
Proof.
  intros G. destruct (general_branch_neq s o G) as (N1 & N2 & N3). intros E. apply N3.
  replace (slope s - slope o) with
    (((py (l1 s) - py (l0 s)) * (px (l1 o) - px (l0 o)) - (py (l1 o) - py (l0 o)) * (px (l1 s) - px (l0 s))) /
     ((px (l1 s) - px (l0 s)) * (px (l1 o) - px (l0 o)))) by (unfold slope; field; auto).
  rewrite E. field. auto.
Qed.

Lemma ll_point_on_first s o : general_branch s o -> on_carrier s (ll_point s o).
Proof.
  intros G. destruct (general_branch_neq s o G) as (N1 & N2 & N3).
  unfold on_carrier, ll_point. cbn [px py]. set (x := ll_x s o). unfold slope. field. exact N1.
Qed.
Lemma ll_point_on_second s o : general_branch s o -> on_carrier o (ll_point s o).
Proof.
  intros G. destruct (general_branch_neq s o G) as (N1 & N2 & N3).
  pose proof (general_branch_cross s o G) as N4.
  unfold on_carrier, ll_point, ll_x. cbn [px py]. unfold slope. field. auto.
Qed.
Lemma ll_point_unique s o p : general_branch s o -> on_carrier s p -> on_carrier o p -> p = ll_point s o.
Proof.
  intros G. destruct (general_branch_neq s o G) as (N1 & N2 & N3).
  destruct p as [x y]. unfold on_carrier, ll_point, ll_x. cbn [px py]. intros C1 C2.
  assert (Y1 : y = slope s * (x - px (l0 s)) + py (l0 s)).
  { unfold slope. apply (Rmult_eq_reg_l (px (l1 s) - px (l0 s))); [ | exact N1]. field_simplify; [ | exact N1]. lra. }
  assert (Y2 : y = slope o * (x - px (l0 o)) + py (l0 o)).
  { unfold slope. apply (Rmult_eq_reg_l (px (l1 o) - px (l0 o))); [ | exact N2]. field_simplify; [ | exact N2]. lra. }
  assert (X : x = (slope s * px (l0 s) - py (l0 s) - slope o * px (l0 o) + py (l0 o)) / (slope s - slope o)).
  { apply (Rmult_eq_reg_l (slope s - slope o)); [ | exact N3]. field_simplify; [ | exact N3]. lra. }
  apply pt_eq; [exact X | rewrite <- X; exact Y1].
Qed.

(* the generated function, on the general branch, with its guards resolved *)
Lemma line_line_general_unfold s o : general_branch s o ->
  Line__line_line_intersections ROps s o =
  let p := ll_point s o in
  if Line__bothPointsAreOnSameSideOfOrigin ROps s p (l1 s) (l0 s) &&
     Line__bothPointsAreOnSameSideOfOrigin ROps s p (l0 o) (l1 o)
  then [(Line_tOfPoint ROps s p true, Line_pointAtTime ROps s (Line_tOfPoint ROps s p true), Line_tOfPoint ROps o p true)]
  else [].
Proof.
  intros [H1 H2 H3 H4 H5 H6]. unfold Line__line_line_intersections. cbv zeta.
  rewrite H1, H2, H3, H4, H5.
  match goal with |- context[if ltb ROps ?x ?y then _ else _] => destruct (ltb ROps x y) eqn:E end.
  - exfalso. apply Rltb_true in E. rewrite my_eps_val in H6.
    change (Rabs (slope s - slope o) < 1 / 5000000) in E. lra.
  - reflexivity.
Qed.

(** A1. The general branch is exact: the candidate point is THE intersection of the two carrier lines, the reported
    parameters are its parameters on the two segments, and an intersection is reported iff the point lies strictly
    on the end point's side of [s]'s start point (t1 > 0) and strictly on the start point's side of [o]'s end point
    (t2 < 1).  (The remaining halves t1 <= 1 and t2 >= 0 are only enforced later by [limited].) *)
Theorem line_line_general_exact (s o : seg2 R) :
  general_branch s o ->
  let p := ll_point s o in
  let t1 := param_x s p in
  let t2 := param_x o p in
  on_carrier s p /\ on_carrier o p /\
  (forall p', on_carrier s p' -> on_carrier o p' -> p' = p) /\
  Line_pointAtTime ROps s t1 = p /\ Line_pointAtTime ROps o t2 = p /\
  (Line__bothPointsAreOnSameSideOfOrigin ROps s p (l1 s) (l0 s) = true <-> 0 < t1) /\
  (Line__bothPointsAreOnSameSideOfOrigin ROps s p (l0 o) (l1 o) = true <-> t2 < 1) /\
  (0 < t1 /\ t2 < 1 -> Line__line_line_intersections ROps s o = [(t1, p, t2)]) /\
  (~ (0 < t1 /\ t2 < 1) -> Line__line_line_intersections ROps s o = []).
Proof.
  intros G p t1 t2.
  pose proof (ll_point_on_first s o G) as C1. pose proof (ll_point_on_second s o G) as C2.
  destruct (general_branch_neq s o G) as (N1 & N2 & N3).
  assert (E1 : Line_pointAtTime ROps s t1 = p) by (apply on_carrier_param_x; [lra | exact C1]).
  assert (E2 : Line_pointAtTime ROps o t2 = p) by (apply on_carrier_param_x; [lra | exact C2]).
  assert (D1 : l0 s <> l1 s) by (intros E; rewrite E in N1; lra).
  assert (D2 : l0 o <> l1 o) by (intros E; rewrite E in N2; lra).
  assert (S1 : Line__bothPointsAreOnSameSideOfOrigin ROps s p (l1 s) (l0 s) = true <-> 0 < t1).
  { rewrite <- E1 at 1. apply same_side_start; exact D1. }
  assert (S2 : Line__bothPointsAreOnSameSideOfOrigin ROps s p (l0 o) (l1 o) = true <-> t2 < 1).
  { rewrite <- E2 at 1. apply same_side_end; exact D2. }
  assert (T1 : Line_tOfPoint ROps s p true = t1).
  { rewrite <- E1 at 1. apply tOfPoint_pointAtTime. left. apply G. }
  assert (T2 : Line_tOfPoint ROps o p true = t2).
  { rewrite <- E2 at 1. apply tOfPoint_pointAtTime. left. rewrite isclose_sym. apply G. }
  repeat split; try assumption; try (apply S1; assumption); try (apply S2; assumption).
  - intros p' Q1 Q2. apply ll_point_unique; assumption.
  - intros [P1 P2]. rewrite (line_line_general_unfold s o G). cbv zeta. fold p.
    apply S1 in P1. apply S2 in P2. rewrite P1, P2. cbn [andb]. rewrite T1, T2, E1. reflexivity.
  - intros NP. rewrite (line_line_general_unfold s o G). cbv zeta. fold p.
    destruct (Line__bothPointsAreOnSameSideOfOrigin ROps s p (l1 s) (l0 s)) eqn:B1;
    destruct (Line__bothPointsAreOnSameSideOfOrigin ROps s p (l0 o) (l1 o)) eqn:B2; try reflexivity.
    exfalso. apply NP. split; [apply S1 | apply S2]; reflexivity.
Qed.

(** A2. Whatever survives the [limited] filter has both parameters in [2e-7, 1 + 2e-7]. *)
Theorem line_line_limited_params (s o : seg2 R) t1 p t2 :
  In (t1, p, t2) (limited (Line__line_line_intersections ROps s o)) ->
  my_eps <= t1 <= 1 + my_eps /\ my_eps <= t2 <= 1 + my_eps.
Proof.
  unfold limited. rewrite filter_In. cbn [fst snd]. rewrite andb_true_iff, !withinRange_true. tauto.
Qed.

(* consequently, on the general branch a reported-and-kept intersection is a genuine crossing of the two segments
   up to the 2e-7 parameter slack *)
Corollary line_line_general_limited_sound (s o : seg2 R) i :
  general_branch s o ->
  In i (limited (Line__line_line_intersections ROps s o)) ->
  i = (param_x s (ll_point s o), ll_point s o, param_x o (ll_point s o)) /\
  my_eps <= param_x s (ll_point s o) <= 1 + my_eps /\ my_eps <= param_x o (ll_point s o) < 1.
Proof.
  intros G Hi. destruct (line_line_general_exact s o G) as (_ & _ & _ & _ & _ & _ & _ & Y & N).
  destruct (Rlt_dec 0 (param_x s (ll_point s o))) as [P1|P1];
    [destruct (Rlt_dec (param_x o (ll_point s o)) 1) as [P2|P2] | ].
  - pose proof Hi as Hi'. unfold limited in Hi'. apply filter_In in Hi'. destruct Hi' as [Hin _].
    rewrite (Y (conj P1 P2)) in Hin. destruct Hin as [<- | []].
    apply line_line_limited_params in Hi. split; [reflexivity | lra].
  - rewrite N in Hi by tauto. destruct Hi.
  - rewrite N in Hi by tauto. destruct Hi.
Qed.

(* ... and conversely every such crossing is reported and kept (completeness on the general branch);
   note the asymmetry: a crossing at o's end point (t2 = 1) is never reported by s.intersections(o) *)
Corollary line_line_general_limited_complete (s o : seg2 R) :
  general_branch s o ->
  let p := ll_point s o in
  my_eps <= param_x s p <= 1 + my_eps -> my_eps <= param_x o p < 1 ->
  limited (Line__line_line_intersections ROps s o) = [(param_x s p, p, param_x o p)].
Proof.
  intros G p I1 I2. destruct (line_line_general_exact s o G) as (_ & _ & _ & _ & _ & _ & _ & Y & _). fold p in Y.
  pose proof my_eps_val as Ev.
  rewrite Y by (split; lra). unfold limited. cbn [filter fst snd].
  assert (W1 : withinRange (param_x s p) = true) by (apply withinRange_true; lra).
  assert (W2 : withinRange (param_x o p) = true) by (apply withinRange_true; lra).
  rewrite W1, W2. reflexivity.
Qed.

Lemma vertical_param_y (s : seg2 R) (y : R) :
  px (l0 s) = px (l1 s) -> py (l1 s) - py (l0 s) <> 0 ->
  Line_pointAtTime ROps s (param_y s (P (px (l0 s)) y)) = P (px (l0 s)) y.
Proof.
  destruct s as [[a1 a2] [b1 b2]]. unfold param_y. cbn [l0 l1 px py]. intros <- Ny.
  rcbv. apply pt_eq; field; exact Ny.
Qed.

(** A3. First segment exactly vertical, second not (isclose-)vertical: the branch reports, unconditionally, the point
    of the second carrier with abscissa a.x; its parameters are exact (the 2e-7 re-check of [tOfPoint] passes with
    distance 0). *)
Theorem line_line_vertical_exact (s o : seg2 R) :
  px (l0 s) = px (l1 s) ->
  isclose ROps (px (l0 o)) (px (l1 o)) = false ->
  Point___eq__ ROps (l0 o) (l1 o) || Point___eq__ ROps (l0 s) (l1 s) = false ->
  let p := P (px (l0 s)) (slope o * (px (l0 s) - px (l0 o)) + py (l0 o)) in
  let t1 := param_y s p in
  let t2 := param_x o p in
  Line__line_line_intersections ROps s o = [(t1, p, t2)] /\
  px p = px (l0 s) /\ on_carrier o p /\ on_carrier s p /\
  Line_pointAtTime ROps s t1 = p /\ Line_pointAtTime ROps o t2 = p.
Proof.
  intros V H5 H3 p t1 t2.
  assert (Cy : isclose ROps (py (l0 s)) (py (l1 s)) = false).
  { apply orb_false_iff in H3. destruct H3 as [_ H3]. rewrite Point_eq_iff_isclose, V, isclose_refl in H3. exact H3. }
  assert (N2 : px (l1 o) - px (l0 o) <> 0) by (apply isclose_false_neq in H5; lra).
  assert (Ny : py (l1 s) - py (l0 s) <> 0) by (apply isclose_false_neq in Cy; lra).
  assert (C2 : on_carrier o p). { unfold on_carrier, p, slope. cbn [px py]. field. exact N2. }
  assert (C1 : on_carrier s p). { unfold on_carrier, p. cbn [px py]. rewrite V. ring. }
  assert (E2 : Line_pointAtTime ROps o t2 = p) by (apply on_carrier_param_x; [lra | exact C2]).
  assert (E1 : Line_pointAtTime ROps s t1 = p).
  { apply vertical_param_y; assumption. }
  assert (T1 : Line_tOfPoint ROps s p false = t1).
  { rewrite <- E1 at 1. apply tOfPoint_pointAtTime. right. rewrite isclose_sym. exact Cy. }
  assert (T2 : Line_tOfPoint ROps o p false = t2).
  { rewrite <- E2 at 1. apply tOfPoint_pointAtTime. left. rewrite isclose_sym. exact H5. }
  repeat split; try assumption.
  unfold Line__line_line_intersections. cbv zeta.
  rewrite H5, Cy, H3, andb_false_l, andb_false_r. rewrite <- V, isclose_refl.
  change (P (px (l0 s)) (add ROps (mul ROps (dvd ROps (sub ROps (py (l1 o)) (py (l0 o))) (sub ROps (px (l1 o)) (px (l0 o))))
            (sub ROps (px (l0 s)) (px (l0 o)))) (py (l0 o)))) with p.
  rewrite T1, T2, E1. reflexivity.
Qed.

(** A3'. The mirror branch: second segment exactly vertical, first not (isclose-)vertical. *)
Theorem line_line_vertical_second_exact (s o : seg2 R) :
  px (l0 o) = px (l1 o) ->
  isclose ROps (px (l1 s)) (px (l0 s)) = false ->
  Point___eq__ ROps (l0 o) (l1 o) || Point___eq__ ROps (l0 s) (l1 s) = false ->
  let p := P (px (l0 o)) (slope s * (px (l0 o) - px (l0 s)) + py (l0 s)) in
  let t1 := param_x s p in
  let t2 := param_y o p in
  Line__line_line_intersections ROps s o = [(t1, p, t2)] /\
  px p = px (l0 o) /\ on_carrier s p /\ on_carrier o p /\
  Line_pointAtTime ROps s t1 = p /\ Line_pointAtTime ROps o t2 = p.
Proof.
  intros V H4 H3 p t1 t2.
  assert (Cy : isclose ROps (py (l0 o)) (py (l1 o)) = false).
  { apply orb_false_iff in H3. destruct H3 as [H3 _]. rewrite Point_eq_iff_isclose, V, isclose_refl in H3. exact H3. }
  assert (N1 : px (l1 s) - px (l0 s) <> 0) by (apply isclose_false_neq in H4; lra).
  assert (Ny : py (l1 o) - py (l0 o) <> 0) by (apply isclose_false_neq in Cy; lra).
  assert (C1 : on_carrier s p). { unfold on_carrier, p, slope. cbn [px py]. field. exact N1. }
  assert (C2 : on_carrier o p). { unfold on_carrier, p. cbn [px py]. rewrite V. ring. }
  assert (E1 : Line_pointAtTime ROps s t1 = p) by (apply on_carrier_param_x; [lra | exact C1]).
  assert (E2 : Line_pointAtTime ROps o t2 = p) by (apply vertical_param_y; assumption).
  assert (T1 : Line_tOfPoint ROps s p false = t1).
  { rewrite <- E1 at 1. apply tOfPoint_pointAtTime. left. exact H4. }
  assert (T2 : Line_tOfPoint ROps o p false = t2).
  { rewrite <- E2 at 1. apply tOfPoint_pointAtTime. right. rewrite isclose_sym. exact Cy. }
  repeat split; try assumption.
  unfold Line__line_line_intersections. cbv zeta.
  rewrite (isclose_sym (px (l0 s)) (px (l1 s))), H4, Cy, H3, andb_false_l, andb_false_r. rewrite <- V, isclose_refl.
  change (P (px (l0 o)) (add ROps (mul ROps (dvd ROps (sub ROps (py (l1 s)) (py (l0 s))) (sub ROps (px (l1 s)) (px (l0 s))))
            (sub ROps (px (l0 o)) (px (l0 s)))) (py (l0 s)))) with p.
  rewrite T1, T2, E1. reflexivity.
Qed.

(** A4. Parallel inputs give no intersection. *)
Theorem line_line_parallel_none (s o : seg2 R) :
  (px (l0 s) = px (l1 s) /\ px (l0 o) = px (l1 o)) \/
  (py (l0 s) = py (l1 s) /\ py (l0 o) = py (l1 o)) \/
  (isclose ROps (px (l1 s)) (px (l0 s)) = false /\ isclose ROps (px (l0 o)) (px (l1 o)) = false /\ slope s = slope o) ->
  Line__line_line_intersections ROps s o = [].
Proof.
  intros H. unfold Line__line_line_intersections. cbv zeta.
  destruct H as [[V1 V2] | [[V1 V2] | (X1 & X2 & E)]].
  - rewrite V1, V2, !isclose_refl. reflexivity.
  - rewrite V1, V2, !isclose_refl. cbn [andb]. destruct (_ && _); reflexivity.
  - rewrite X1, X2. cbn [andb].
    destruct (_ && _); [reflexivity | ]. destruct (_ || _); [reflexivity | ].
    match goal with |- context[if ltb ROps ?x ?y then _ else _] => destruct (ltb ROps x y) eqn:L end; [reflexivity | ].
    exfalso. apply Rltb_false in L. change (1 / 5000000 <= Rabs (slope s - slope o)) in L.
    rewrite E, Rminus_diag_eq, Rabs_R0 in L by reflexivity. lra.
Qed.

(** A5. Exchanging receiver and argument.  The function is NOT symmetric: [s.f(o)] tests t1 > 0 and t2 < 1, whereas
    [o.f(s)] tests t2 > 0 and t1 < 1.  Precisely: *)
Lemma general_branch_sym s o : general_branch s o -> general_branch o s.
Proof.
  intros [H1 H2 H3 H4 H5 H6]. constructor.
  - rewrite andb_comm. exact H1.
  - rewrite andb_comm. exact H2.
  - rewrite orb_comm. exact H3.
  - rewrite isclose_sym. exact H5.
  - rewrite isclose_sym. exact H4.
  - rewrite <- Rabs_Ropp, Ropp_minus_distr. exact H6.
Qed.
Lemma ll_point_sym s o : general_branch s o -> ll_point o s = ll_point s o.
Proof.
  intros G. apply ll_point_unique; [exact G | | ].
  - apply ll_point_on_second, general_branch_sym, G.
  - apply ll_point_on_first, general_branch_sym, G.
Qed.
Theorem line_line_receiver_relation (s o : seg2 R) :
  general_branch s o ->
  let p := ll_point s o in
  let t1 := param_x s p in
  let t2 := param_x o p in
  Line__line_line_intersections ROps s o =
    (if Rlt_dec 0 t1 then if Rlt_dec t2 1 then [(t1, p, t2)] else [] else []) /\
  Line__line_line_intersections ROps o s =
    (if Rlt_dec 0 t2 then if Rlt_dec t1 1 then [(t2, p, t1)] else [] else []).
Proof.
  intros G p t1 t2. split.
  - destruct (line_line_general_exact s o G) as (_ & _ & _ & _ & _ & _ & _ & Y & N). fold p t1 t2 in Y, N.
    destruct (Rlt_dec 0 t1); [destruct (Rlt_dec t2 1) | ]; [apply Y; tauto | apply N; tauto | apply N; tauto].
  - pose proof (general_branch_sym s o G) as G'.
    destruct (line_line_general_exact o s G') as (_ & _ & _ & _ & _ & _ & _ & Y & N).
    rewrite (ll_point_sym s o G) in Y, N. fold p t1 t2 in Y, N.
    destruct (Rlt_dec 0 t2); [destruct (Rlt_dec t1 1) | ]; [apply Y; tauto | apply N; tauto | apply N; tauto].
Qed.
(* so for a proper crossing (both parameters strictly inside) the two calls agree up to swapping the parameters *)
Corollary line_line_receiver_symmetric_interior (s o : seg2 R) :
  general_branch s o ->
  let p := ll_point s o in
  0 < param_x s p < 1 -> 0 < param_x o p < 1 ->
  Line__line_line_intersections ROps s o = [(param_x s p, p, param_x o p)] /\
  Line__line_line_intersections ROps o s = [(param_x o p, p, param_x s p)].
Proof.
  intros G p I1 I2. destruct (line_line_receiver_relation s o G) as [R1 R2]. fold p in R1, R2.
  rewrite R1, R2.
  destruct (Rlt_dec 0 (param_x s p)); [ | lra]. destruct (Rlt_dec (param_x o p) 1); [ | lra].
  destruct (Rlt_dec 0 (param_x o p)); [ | lra]. destruct (Rlt_dec (param_x s p) 1); [ | lra]. split; reflexivity.
Qed.

(* concrete evaluation helpers *)
Ltac rconc :=
  unfold Rmax, Rmin, Rabs;
  repeat match goal with
  | |- context[Rcase_abs ?x] => destruct (Rcase_abs x); try lra
  | |- context[Rle_dec ?x ?y] => destruct (Rle_dec x y); try lra
  end; try lra.
Ltac isclose_false := apply isclose_false_iff; rconc.

(* a T-junction: the end point d = (1,1) of o = (0,2)-(1,1) lies in the interior of s = (0,0)-(2,2).
   s.intersections(o) is empty, o.intersections(s) is not: the symmetric statement is refuted. *)
Definition seg_s : seg2 R := L2 (P 0 0) (P 2 2).
Definition seg_o : seg2 R := L2 (P 0 2) (P 1 1).
Lemma seg_so_general : general_branch seg_s seg_o.
Proof.
  constructor; cbn [seg_s seg_o l0 l1 px py]; rewrite ?Point_eq_iff_isclose; cbn [px py].
  - replace (isclose ROps 0 1) with false by (symmetry; isclose_false). reflexivity.
  - replace (isclose ROps 2 1) with false by (symmetry; isclose_false). reflexivity.
  - replace (isclose ROps 0 1) with false by (symmetry; isclose_false).
    replace (isclose ROps 0 2) with false by (symmetry; isclose_false). reflexivity.
  - isclose_false.
  - isclose_false.
  - unfold slope, my_eps. cbn [seg_s seg_o l0 l1 px py]. replace ((2 - 0) / (2 - 0) - (1 - 2) / (1 - 0)) with 2 by field.
    rconc; simpl; lra.
Qed.
Lemma seg_so_point : ll_point seg_s seg_o = P 1 1 /\ param_x seg_s (P 1 1) = 1 / 2 /\ param_x seg_o (P 1 1) = 1.
Proof.
  unfold ll_point, ll_x, slope, param_x. cbn [seg_s seg_o l0 l1 px py]. repeat split; [apply pt_eq | | ]; field.
Qed.
Theorem line_line_receiver_symmetric_refuted :
  exists s o, general_branch s o /\
    Line__line_line_intersections ROps s o = [] /\
    Line__line_line_intersections ROps o s = [(1, P 1 1, 1 / 2)] /\
    limited (Line__line_line_intersections ROps o s) = [(1, P 1 1, 1 / 2)].
Proof.
  exists seg_s, seg_o. pose proof seg_so_general as G. destruct seg_so_point as (Ep & E1 & E2).
  destruct (line_line_receiver_relation _ _ G) as [R1 R2]. rewrite Ep, E1, E2 in R1, R2.
  assert (A : Line__line_line_intersections ROps seg_o seg_s = [(1, P 1 1, 1 / 2)]).
  { rewrite R2. destruct (Rlt_dec 0 1); [ | lra]. destruct (Rlt_dec (1 / 2) 1); [ | lra]. reflexivity. }
  split; [exact G | split; [ | split; [exact A | ]]].
  - rewrite R1. destruct (Rlt_dec 0 (1 / 2)); [ | lra]. destruct (Rlt_dec 1 1); [lra | reflexivity].
  - rewrite A. unfold limited. cbn [filter fst snd].
    assert (W1 : withinRange 1 = true) by (apply withinRange_true; rewrite my_eps_val; lra).
    assert (W2 : withinRange (1 / 2) = true) by (apply withinRange_true; rewrite my_eps_val; lra).
    rewrite W1, W2. reflexivity.
Qed.

(** Non-vacuity: a concrete crossing, (0,0)-(2,2) against (0,2)-(2,0), meets at (1,1), t1 = t2 = 1/2. *)
Definition seg_x : seg2 R := L2 (P 0 2) (P 2 0).
Example line_line_crossing_example :
  Line__line_line_intersections ROps seg_s seg_x = [(1 / 2, P 1 1, 1 / 2)] /\
  limited (Line__line_line_intersections ROps seg_s seg_x) = [(1 / 2, P 1 1, 1 / 2)].
Proof.
  assert (G : general_branch seg_s seg_x).
  { constructor; cbn [seg_s seg_x l0 l1 px py]; rewrite ?Point_eq_iff_isclose; cbn [px py].
    - replace (isclose ROps 0 2) with false by (symmetry; isclose_false). reflexivity.
    - replace (isclose ROps 2 0) with false by (symmetry; isclose_false). reflexivity.
    - replace (isclose ROps 0 2) with false by (symmetry; isclose_false). reflexivity.
    - isclose_false.
    - isclose_false.
    - unfold slope, my_eps. cbn [seg_s seg_x l0 l1 px py]. replace ((2 - 0) / (2 - 0) - (0 - 2) / (2 - 0)) with 2 by field.
      rconc; simpl; lra. }
  assert (Ep : ll_point seg_s seg_x = P 1 1 /\ param_x seg_s (P 1 1) = 1 / 2 /\ param_x seg_x (P 1 1) = 1 / 2).
  { unfold ll_point, ll_x, slope, param_x. cbn [seg_s seg_x l0 l1 px py]. repeat split; [apply pt_eq | | ]; field. }
  destruct Ep as (Ep & E1 & E2).
  destruct (line_line_receiver_relation _ _ G) as [R1 _]. rewrite Ep, E1, E2 in R1.
  assert (A : Line__line_line_intersections ROps seg_s seg_x = [(1 / 2, P 1 1, 1 / 2)]).
  { rewrite R1. destruct (Rlt_dec 0 (1 / 2)); [ | lra]. destruct (Rlt_dec (1 / 2) 1); [ | lra]. reflexivity. }
  split; [exact A | ]. rewrite A. unfold limited. cbn [filter fst snd].
  assert (W2 : withinRange (1 / 2) = true) by (apply withinRange_true; rewrite my_eps_val; lra).
  rewrite W2. reflexivity.
Qed.

(* ------------------------------------------------------------------------------------------------ *)
(** * C. Roots of the quadratic:  utils.quadraticRoots and QuadraticBezier._findRoots *)

Definition in01 (t : R) : Prop := 0 <= t <= 1.

(* the (numerically) linear branch: |a| <= 1e-9 |b| *)
Lemma quadraticRoots_linear_iff a b c t :
  Rabs a <= 1 / 1000000000 * Rabs b ->
  (In t (utils_quadraticRoots ROps a b c) <-> b <> 0 /\ t = - c / b /\ in01 t).
Proof.
  intros H. unfold in01. rcbv. rdec; simpl; try contradiction; intuition (subst; try lra).
Qed.

Lemma quadratic_zero_iff a b c t :
  a <> 0 -> 0 < b * b - 4 * a * c ->
  (a * t * t + b * t + c = 0 <->
   t = - b / (2 * a) - sqrt (b * b - 4 * a * c) / (2 * a) \/ t = - b / (2 * a) + sqrt (b * b - 4 * a * c) / (2 * a)).
Proof.
  intros Ha Hd. set (sd := sqrt (b * b - 4 * a * c)).
  assert (Hsd : sd * sd = b * b - 4 * a * c) by (apply sqrt_sqrt; lra).
  assert (K : 4 * a * (a * t * t + b * t + c) = (2 * a * t + b) * (2 * a * t + b) - (b * b - 4 * a * c)) by ring.
  split.
  - intros E. rewrite E, Rmult_0_r, <- Hsd in K.
    assert (F : (2 * a * t + b - sd) * (2 * a * t + b + sd) = 0) by lra.
    apply Rmult_integral in F. destruct F as [F|F]; [right | left].
    + assert (G : 2 * a * t = - b + sd) by lra.
      replace t with ((2 * a * t) / (2 * a)) by (field; exact Ha). rewrite G. field. exact Ha.
    + assert (G : 2 * a * t = - b - sd) by lra.
      replace t with ((2 * a * t) / (2 * a)) by (field; exact Ha). rewrite G. field. exact Ha.
  - intros E. apply (Rmult_eq_reg_l (4 * a)); [ | lra]. rewrite K, Rmult_0_r.
    assert (G : 2 * a * t + b = sd \/ 2 * a * t + b = - sd).
    { destruct E as [-> | ->]; [right | left]; field; exact Ha. }
    destruct G as [-> | ->]; lra.
Qed.

(* the quadratic branch: 1e-9 |b| < |a| *)
Lemma quadraticRoots_quadratic_iff a b c t :
  1 / 1000000000 * Rabs b < Rabs a ->
  (In t (utils_quadraticRoots ROps a b c) <->
   0 < b * b - 4 * a * c /\ in01 t /\
   (t = - b / (2 * a) - sqrt (b * b - 4 * a * c) / (2 * a) \/ t = - b / (2 * a) + sqrt (b * b - 4 * a * c) / (2 * a))).
Proof.
  intros H. unfold in01. rcbv. rdec; simpl; try lra; intuition (subst; try lra).
Qed.

Theorem quadraticRoots_exact a b c t :
  1 / 1000000000 * Rabs b < Rabs a -> 0 < b * b - 4 * a * c ->
  (In t (utils_quadraticRoots ROps a b c) <-> in01 t /\ a * t * t + b * t + c = 0).
Proof.
  intros H Hd. assert (Ha : a <> 0).
  { intros ->. rewrite Rabs_R0 in H. pose proof (Rabs_pos b). lra. }
  rewrite quadraticRoots_quadratic_iff by exact H. rewrite (quadratic_zero_iff a b c t Ha Hd). tauto.
Qed.
(* no real root, or a double root (tangency), or a root outside [0,1]: nothing is reported.
   NB for discriminant = 0 the double root -b/(2a) IS a zero and may lie in [0,1]: it is missed. *)
Lemma quadraticRoots_nonpositive_disc a b c :
  1 / 1000000000 * Rabs b < Rabs a -> b * b - 4 * a * c <= 0 -> utils_quadraticRoots ROps a b c = [].
Proof. intros H Hd. rcbv. rdec; try lra; reflexivity. Qed.

(* the y-polynomial of a quadratic Bezier in the power basis, as _findRoots computes it *)
Definition quad_a (q : seg3 R) : R := py (q0 q) - 2 * py (q1 q) + py (q2 q).
Definition quad_b (q : seg3 R) : R := 2 * (py (q1 q) - py (q0 q)).
Definition quad_c (q : seg3 R) : R := py (q0 q).
Lemma quad_y_poly (q : seg3 R) t :
  py (Quad_pointAtTime ROps q t) = quad_a q * t * t + quad_b q * t + quad_c q.
Proof. destruct_pts. unfold quad_a, quad_b, quad_c. rcbv. ring. Qed.
Lemma quad_findRoots_unfold (q : seg3 R) :
  Quad__findRoots_y ROps q = utils_quadraticRoots ROps (quad_a q) (quad_b q) (quad_c q).
Proof. reflexivity. Qed.

(** C. Membership in [Quad__findRoots_y]:
    - genuinely quadratic (1e-9|b| < |a|) with positive discriminant: exactly the zeros of y(t) in [0,1];
    - exactly linear (a = 0, b <> 0): exactly the zero of y(t) in [0,1]. *)
Theorem quad_findRoots_exact (q : seg3 R) (t : R) :
  (1 / 1000000000 * Rabs (quad_b q) < Rabs (quad_a q) /\ 0 < quad_b q * quad_b q - 4 * quad_a q * quad_c q)
  \/ (quad_a q = 0 /\ quad_b q <> 0) ->
  (In t (Quad__findRoots_y ROps q) <-> 0 <= t <= 1 /\ py (Quad_pointAtTime ROps q t) = 0).
Proof.
  rewrite quad_findRoots_unfold, quad_y_poly. intros [[H Hd] | [Ha Hb]].
  - apply quadraticRoots_exact; assumption.
  - rewrite quadraticRoots_linear_iff by (rewrite Ha, Rabs_R0; pose proof (Rabs_pos (quad_b q)); lra).
    rewrite Ha. unfold in01. split.
    + intros (_ & -> & I). split; [exact I | field; exact Hb].
    + intros (I & E). split; [exact Hb | split; [ | exact I]].
      apply (Rmult_eq_reg_l (quad_b q)); [ | exact Hb]. field_simplify; [ | exact Hb]. lra.
Qed.
(* tangency is missed: y(t) = (2t-1)^2 has the double zero 1/2 but no root is reported *)
Example quad_findRoots_tangent_missed :
  let q := Q3 (P 0 1) (P 1 (-1)) (P 2 1) in
  py (Quad_pointAtTime ROps q (1 / 2)) = 0 /\ Quad__findRoots_y ROps q = [].
Proof.
  split; [rcbv; field | ].
  rewrite quad_findRoots_unfold. unfold quad_a, quad_b, quad_c. cbn [q0 q1 q2 px py].
  apply quadraticRoots_nonpositive_disc; [rconc | lra].
Qed.

(* ------------------------------------------------------------------------------------------------ *)
(** * D. Cardano: CubicBezier._findRoots *)

(* the nested [cuberoot] helper, as generated (math.pow(x, 1/3.0) with pow_ ROps x y = if x = 0 then 0 else Rpower x y) *)
Definition crt (v : R) : R :=
  if ltb ROps v 0 then - pow_ ROps (- v) (1 / (3 / 1)) else pow_ ROps v (1 / (3 / 1)).
Definition keep01 (x : R) : bool := leb ROps 0 x && leb ROps x 1.

(* readable mirror of the part of the generated function after the division by d:
   roots in [0,1] of the monic cubic t^3 + a t^2 + b t + c *)
Definition card_p (a b : R) : R := (3 * b - a * a) / 3.
Definition card_q (a b c : R) : R := (2 * a * a * a - 9 * a * b + 27 * c) / (27 / 1).
Definition card_disc (a b c : R) : R :=
  card_q a b c / 2 * (card_q a b c / 2) + card_p a b / 3 * (card_p a b / 3) * (card_p a b / 3).
Definition cardano_three (a b c : R) : list R :=
  let p := card_p a b in
  let q := card_q a b c in
  let mp3 := - p / 3 in
  let mp33 := mp3 * mp3 * mp3 in
  let r := sqrt mp33 in
  let t := - q / (2 * r) in
  let cosphi := max2 ROps (min2 ROps t 1) (-1) in
  let phi := acos cosphi in
  let crtr := crt r in
  let t1 := 2 * crtr in
  [t1 * cos (phi / 3) - a / 3; t1 * cos ((phi + 2 * PI) / 3) - a / 3; t1 * cos ((phi + 4 * PI) / 3) - a / 3].
Definition cardano_double (a b c : R) : list R :=
  let q2 := card_q a b c / 2 in
  let u1 := if ltb ROps q2 0 then crt (- q2) else - crt q2 in
  [2 * u1 - a / (3 / 1); - u1 - a / (3 / 1)].
(* one real root: the cube root that does not cancel is taken, the other one obtained from u1 * v1 = p / 3
   (numerically stable form, repo fix "Cardano one-real-root branch"; over R it is the classical formula) *)
Definition cardano_uv (a b c : R) : R * R :=
  let p3 := card_p a b / 3 in
  let q2 := card_q a b c / 2 in
  let sd := sqrt (card_disc a b c) in
  if ltb ROps q2 0 then let u1 := crt (sd - q2) in (u1, p3 / u1)
  else let v1 := crt (sd + q2) in (p3 / v1, v1).
Definition cardano_one (a b c : R) : list R :=
  let '(u1, v1) := cardano_uv a b c in
  [u1 - v1 - a / 3].
Definition cardano_monic (a b c : R) : list R :=
  if ltb ROps (card_disc a b c) 0 then sort_ ROps (filter keep01 (cardano_three a b c))
  else if eqb ROps (card_disc a b c) 0 then sort_ ROps (filter keep01 (cardano_double a b c))
  else filter keep01 (cardano_one a b c).
(* the literal shape of the generated code: the pair (u1, v1) is destructured around the filter *)
Definition cardano_monic_gen (a b c : R) : list R :=
  if ltb ROps (card_disc a b c) 0 then sort_ ROps (filter keep01 (cardano_three a b c))
  else if eqb ROps (card_disc a b c) 0 then sort_ ROps (filter keep01 (cardano_double a b c))
  else let '(u1, v1) := cardano_uv a b c in filter keep01 [u1 - v1 - a / 3].
Lemma cardano_monic_gen_eq a b c : cardano_monic_gen a b c = cardano_monic a b c.
Proof.
  unfold cardano_monic_gen, cardano_monic, cardano_one.
  destruct (ltb ROps (card_disc a b c) 0); [reflexivity | ].
  destruct (eqb ROps (card_disc a b c) 0); [reflexivity | ].
  destruct (cardano_uv a b c); reflexivity.
Qed.

(* power-basis coefficients of the y-polynomial, as the generated code computes them: y(t) = D t^3 + A t^2 + B t + C *)
Definition cubic_A (c : seg4 R) : R := 3 * py (c0 c) - 6 * py (c1 c) + 3 * py (c2 c).
Definition cubic_B (c : seg4 R) : R := -3 * py (c0 c) + 3 * py (c1 c).
Definition cubic_C (c : seg4 R) : R := py (c0 c).
Definition cubic_D (c : seg4 R) : R := - py (c0 c) + 3 * py (c1 c) - 3 * py (c2 c) + py (c3 c).
Definition cubic_thr (c : seg4 R) : R :=
  1 / 1000000000 * max2 ROps (max2 ROps (Rabs (cubic_A c)) (Rabs (cubic_B c))) (Rabs (cubic_C c)).
Lemma cubic_y_poly (c : seg4 R) t :
  py (Cubic_pointAtTime ROps c t) = cubic_D c * t * t * t + cubic_A c * t * t + cubic_B c * t + cubic_C c.
Proof. destruct_pts. unfold cubic_A, cubic_B, cubic_C, cubic_D. rcbv. ring. Qed.

Lemma cubic_findRoots_unfold (c : seg4 R) :
  Cubic__findRoots_y ROps c =
  if leb ROps (Rabs (cubic_D c)) (cubic_thr c)
  then utils_quadraticRoots ROps (cubic_A c) (cubic_B c) (cubic_C c)
  else cardano_monic (cubic_A c / cubic_D c) (cubic_B c / cubic_D c) (cubic_C c / cubic_D c).
Proof.
  transitivity (if leb ROps (Rabs (cubic_D c)) (cubic_thr c)
                then utils_quadraticRoots ROps (cubic_A c) (cubic_B c) (cubic_C c)
                else cardano_monic_gen (cubic_A c / cubic_D c) (cubic_B c / cubic_D c) (cubic_C c / cubic_D c)); [reflexivity | ].
  rewrite cardano_monic_gen_eq. reflexivity.
Qed.

(* sorted(): the insertion sort of Base.Ops is a permutation and produces a non-decreasing list *)
Lemma insert_sorted_In (x t : R) l : In t (insert_sorted ROps x l) <-> t = x \/ In t l.
Proof.
  induction l as [ | y r IH]; cbn [insert_sorted In].
  - intuition.
  - destruct (ltb ROps x y); cbn [In]; rewrite ?IH; intuition.
Qed.
Lemma sort_In_acc (t : R) l acc :
  In t (fold_left (fun acc x => insert_sorted ROps x acc) l acc) <-> In t l \/ In t acc.
Proof.
  revert acc. induction l as [ | x r IH]; intros acc; cbn [fold_left In].
  - tauto.
  - rewrite IH, insert_sorted_In. intuition.
Qed.
Lemma sort_In (t : R) l : In t (sort_ ROps l) <-> In t l.
Proof. unfold sort_. rewrite sort_In_acc. cbn [In]. tauto. Qed.
Lemma insert_sorted_sorted (x : R) l : Sorted Rle l -> Sorted Rle (insert_sorted ROps x l).
Proof.
  induction l as [ | y r IH]; intros S; cbn [insert_sorted].
  - constructor; constructor.
  - destruct (ltb ROps x y) eqn:L.
    + apply Rltb_true in L. constructor; [exact S | constructor; lra].
    + apply Rltb_false in L. inversion S as [ | ? ? S' Hd]; subst. constructor; [apply IH; exact S' | ].
      destruct r as [ | z r']; cbn [insert_sorted].
      * constructor; exact L.
      * destruct (ltb ROps x z); constructor; [exact L | inversion Hd; assumption].
Qed.
Lemma sort_sorted l : Sorted Rle (sort_ ROps l).
Proof.
  unfold sort_. assert (G : forall acc, Sorted Rle acc -> Sorted Rle (fold_left (fun acc x => insert_sorted ROps x acc) l acc)).
  { induction l as [ | x r IH]; intros acc S; cbn [fold_left]; [exact S | apply IH, insert_sorted_sorted, S]. }
  apply G. constructor.
Qed.

Lemma keep01_true t : keep01 t = true <-> 0 <= t <= 1.
Proof. unfold keep01. rewrite andb_true_iff, !Rleb_true. tauto. Qed.

(* real cube root *)
Lemma Rpower_third_cube x : 0 < x -> Rpower x (1 / (3 / 1)) * Rpower x (1 / (3 / 1)) * Rpower x (1 / (3 / 1)) = x.
Proof.
  intros Hx. rewrite <- !Rpower_plus. replace (1 / (3 / 1) + 1 / (3 / 1) + 1 / (3 / 1)) with 1 by field.
  apply Rpower_1; exact Hx.
Qed.
Lemma crt_cube v : crt v * crt v * crt v = v.
Proof.
  unfold crt. rcbv. rdec; try lra.
  - pose proof (Rpower_third_cube (- v) ltac:(lra)) as E. set (z := Rpower (- v) (1 / (3 / 1))) in *.
    replace (- z * - z * - z) with (- (z * z * z)) by ring. rewrite E. ring.
  - apply Rpower_third_cube. lra.
Qed.
Lemma cube_inj x y : x * x * x = y * y * y -> x = y.
Proof.
  intros H.
  assert (E : (x - y) * (x * x + x * y + y * y) = 0) by nra.
  destruct (Rmult_integral _ _ E) as [E1|E2]; [lra | ].
  assert (Hs : (2 * x + y) * (2 * x + y) + 3 * (y * y) = 0) by nra.
  pose proof (sq_nonneg (2 * x + y)). pose proof (sq_nonneg y).
  assert (Y : y * y = 0) by lra. assert (X : (2 * x + y) * (2 * x + y) = 0) by lra.
  apply Rmult_integral in Y. apply Rmult_integral in X. destruct X, Y; lra.
Qed.
Lemma crt_odd v : crt (- v) = - crt v.
Proof.
  apply cube_inj. rewrite crt_cube. replace (- crt v * - crt v * - crt v) with (- (crt v * crt v * crt v)) by ring.
  rewrite crt_cube. reflexivity.
Qed.

(* the substitution t = y - a/3 removes the quadratic term *)
Lemma depressed_root a b c y :
  y * y * y + card_p a b * y + card_q a b c = 0 ->
  (y - a / 3) * (y - a / 3) * (y - a / 3) + a * (y - a / 3) * (y - a / 3) + b * (y - a / 3) + c = 0.
Proof. intros H. rewrite <- H. unfold card_p, card_q. field. Qed.
Lemma depressed_root_inv a b c t :
  t * t * t + a * t * t + b * t + c = 0 ->
  (t + a / 3) * (t + a / 3) * (t + a / 3) + card_p a b * (t + a / 3) + card_q a b c = 0.
Proof. intros H. rewrite <- H. unfold card_p, card_q. field. Qed.

(** D1. discriminant > 0: the single reported value is a zero of the monic cubic. *)
Lemma cardano_uv_facts a b c :
  0 < card_disc a b c ->
  let u1 := fst (cardano_uv a b c) in let v1 := snd (cardano_uv a b c) in
  let q2 := card_q a b c / 2 in let p3 := card_p a b / 3 in let sd := sqrt (card_disc a b c) in
  u1 * u1 * u1 = sd - q2 /\ v1 * v1 * v1 = sd + q2 /\ u1 * v1 = p3.
Proof.
  intros Hd. cbv zeta.
  set (p := card_p a b). set (q := card_q a b c). set (q2 := q / 2). set (p3 := p / 3).
  set (sd := sqrt (card_disc a b c)).
  assert (Hdisc : card_disc a b c = q2 * q2 + p3 * p3 * p3) by reflexivity.
  assert (Hsd : sd * sd = q2 * q2 + p3 * p3 * p3) by (rewrite <- Hdisc; apply sqrt_sqrt; lra).
  assert (Hsd0 : 0 < sd) by (apply sqrt_lt_R0; exact Hd).
  unfold cardano_uv. cbv zeta. fold p q. fold q2 p3 sd.
  destruct (ltb ROps q2 0) eqn:L; cbn [fst snd].
  - apply Rltb_true in L.
    set (u1 := crt (sd - q2)).
    assert (Hu : u1 * u1 * u1 = sd - q2) by apply crt_cube.
    assert (Hu0 : u1 <> 0) by (intros E; rewrite E in Hu; lra).
    split; [exact Hu | ]. split; [ | field; exact Hu0].
    replace (p3 / u1 * (p3 / u1) * (p3 / u1)) with (p3 * p3 * p3 / (u1 * u1 * u1)) by (field; exact Hu0).
    rewrite Hu. apply (Rmult_eq_reg_r (sd - q2)); [ | lra]. field_simplify; [ | lra]. nra.
  - apply Rltb_false in L.
    set (v1 := crt (sd + q2)).
    assert (Hv : v1 * v1 * v1 = sd + q2) by apply crt_cube.
    assert (Hv0 : v1 <> 0) by (intros E; rewrite E in Hv; lra).
    split; [ | split; [exact Hv | field; exact Hv0]].
    replace (p3 / v1 * (p3 / v1) * (p3 / v1)) with (p3 * p3 * p3 / (v1 * v1 * v1)) by (field; exact Hv0).
    rewrite Hv. apply (Rmult_eq_reg_r (sd + q2)); [ | lra]. field_simplify; [ | lra]. nra.
Qed.
Lemma cardano_one_root_sound a b c t :
  0 < card_disc a b c -> In t (cardano_one a b c) -> t * t * t + a * t * t + b * t + c = 0.
Proof.
  intros Hd Hin. pose proof (cardano_uv_facts a b c Hd) as F. cbv zeta in F.
  unfold cardano_one in Hin. destruct (cardano_uv a b c) as [u1 v1]. cbn [fst snd] in F.
  destruct F as (Hu & Hv & Huv). destruct Hin as [<- | []].
  set (p := card_p a b) in *. set (q := card_q a b c) in *.
  apply depressed_root. fold p q.
  replace ((u1 - v1) * (u1 - v1) * (u1 - v1)) with (u1 * u1 * u1 - v1 * v1 * v1 - 3 * (u1 * v1) * (u1 - v1)) by ring.
  rewrite Hu, Hv, Huv. field.
Qed.

(** D2. discriminant = 0: both reported values are zeros of the monic cubic. *)
Lemma cardano_double_root_sound a b c t :
  card_disc a b c = 0 -> In t (cardano_double a b c) -> t * t * t + a * t * t + b * t + c = 0.
Proof.
  intros Hd Hin.
  set (p := card_p a b) in *. set (q := card_q a b c) in *. set (q2 := q / 2). set (p3 := p / 3).
  assert (Hdisc : q2 * q2 + p3 * p3 * p3 = 0) by exact Hd.
  set (u := crt (- q2)).
  assert (Hu : u * u * u = - q2) by apply crt_cube.
  assert (Eu : (if ltb ROps q2 0 then crt (- q2) else - crt q2) = u).
  { destruct (ltb ROps q2 0); [reflexivity | symmetry; apply crt_odd]. }
  assert (Hp3 : p3 = - (u * u)).
  { apply cube_inj. replace (- (u * u) * - (u * u) * - (u * u)) with (- ((u * u * u) * (u * u * u))) by ring.
    rewrite Hu. lra. }
  unfold cardano_double in Hin. cbv zeta in Hin. fold q q2 in Hin. rewrite Eu in Hin.
  assert (Hp : p = - 3 * (u * u)) by (unfold p3 in Hp3; lra).
  assert (Hq : q = - 2 * (u * u * u)) by (unfold q2 in Hu; lra).
  destruct Hin as [<- | [<- | []]].
  - replace (2 * u - a / (3 / 1)) with (2 * u - a / 3) by field. apply depressed_root. fold p q. rewrite Hp, Hq. ring.
  - replace (- u - a / (3 / 1)) with (- u - a / 3) by field. apply depressed_root. fold p q. rewrite Hp, Hq. ring.
Qed.

(** D3. discriminant < 0: the trigonometric branch. *)
Lemma cos_3x x : cos (3 * x) = 4 * (cos x * cos x * cos x) - 3 * cos x.
Proof.
  replace (3 * x) with (2 * x + x) by ring. rewrite cos_plus, cos_2a_cos, sin_2a.
  pose proof (sin2 x) as S. unfold Rsqr in S.
  replace (2 * sin x * cos x * sin x) with (2 * cos x * (sin x * sin x)) by ring. rewrite S. ring.
Qed.
Lemma cos_plus_2PI x : cos (x + 2 * PI) = cos x.
Proof. rewrite cos_plus, cos_2PI, sin_2PI. ring. Qed.
Lemma cos_plus_4PI x : cos (x + 4 * PI) = cos x.
Proof. replace (x + 4 * PI) with (x + 2 * PI + 2 * PI) by ring. rewrite !cos_plus_2PI. reflexivity. Qed.

(* the clamp max(min(t, 1), -1) is the identity on [-1, 1] *)
Lemma clamp_id t : -1 <= t <= 1 -> max2 ROps (min2 ROps t 1) (-1) = t.
Proof. intros H. unfold max2, min2. rcbv. rdec; lra. Qed.

Lemma cardano_three_roots_facts a b c :
  card_disc a b c < 0 ->
  let p := card_p a b in let q := card_q a b c in
  let r := sqrt (- p / 3 * (- p / 3) * (- p / 3)) in
  let t := - q / (2 * r) in
  0 < r /\ -1 < t < 1 /\ max2 ROps (min2 ROps t 1) (-1) = t /\ 2 * r * t = - q /\
  crt r * crt r = - p / 3.
Proof.
  intros Hd p q r t.
  set (q2 := q / 2). set (p3 := p / 3). set (mp3 := - p / 3).
  assert (Hdisc : q2 * q2 + p3 * p3 * p3 < 0) by exact Hd.
  assert (Hm : q2 * q2 < mp3 * mp3 * mp3) by (unfold mp3; unfold p3 in Hdisc; nra).
  pose proof (sq_nonneg q2) as Hq2.
  assert (Hrr : r * r = mp3 * mp3 * mp3) by (apply sqrt_sqrt; lra).
  assert (Hr : 0 < r) by (apply sqrt_lt_R0; change (0 < mp3 * mp3 * mp3); lra).
  assert (Hb : - r < q2 < r) by (split; nra).
  assert (Ht : t * r = - q2) by (unfold t, q2; field; lra).
  assert (Ht1 : -1 < t < 1).
  { split; apply (Rmult_lt_reg_r r); try exact Hr; rewrite Ht; lra. }
  split; [exact Hr | split; [exact Ht1 | split; [ | split]]].
  - apply clamp_id. lra.
  - unfold q2 in Ht. lra.
  - apply cube_inj. replace (crt r * crt r * (crt r * crt r) * (crt r * crt r)) with ((crt r * crt r * crt r) * (crt r * crt r * crt r)) by ring.
    rewrite crt_cube, Hrr. reflexivity.
Qed.

Lemma cardano_three_roots_sound a b c t :
  card_disc a b c < 0 -> In t (cardano_three a b c) -> t * t * t + a * t * t + b * t + c = 0.
Proof.
  intros Hd Hin. destruct (cardano_three_roots_facts a b c Hd) as (Hr & Ht & Hclamp & H2rt & Hk).
  unfold cardano_three in Hin. cbv zeta in Hin. rewrite Hclamp in Hin.
  set (p := card_p a b) in *. set (q := card_q a b c) in *.
  set (r := sqrt (- p / 3 * (- p / 3) * (- p / 3))) in *. set (tt := - q / (2 * r)) in *.
  set (k := crt r) in *. set (phi := acos tt) in *.
  assert (Hk3 : k * k * k = r) by apply crt_cube.
  assert (Hphi : cos phi = tt) by (apply cos_acos; lra).
  assert (Hp : p = - 3 * (k * k)) by lra.
  assert (G : forall th, cos (3 * th) = tt ->
              (2 * k * cos th - a / 3) * (2 * k * cos th - a / 3) * (2 * k * cos th - a / 3)
              + a * (2 * k * cos th - a / 3) * (2 * k * cos th - a / 3) + b * (2 * k * cos th - a / 3) + c = 0).
  { intros th Hth. apply depressed_root. fold p q. rewrite cos_3x in Hth.
    replace (2 * k * cos th * (2 * k * cos th) * (2 * k * cos th) + p * (2 * k * cos th) + q)
      with (2 * (k * k * k) * (4 * (cos th * cos th * cos th)) + p * (2 * k * cos th) + q) by ring.
    rewrite Hp, Hk3. replace (4 * (cos th * cos th * cos th)) with (tt + 3 * cos th) by lra.
    replace (2 * r * (tt + 3 * cos th) + -3 * (k * k) * (2 * k * cos th) + q)
      with (2 * r * tt + q + 6 * cos th * (r - k * k * k)) by ring.
    rewrite Hk3, H2rt. ring. }
  destruct Hin as [<- | [<- | [<- | []]]]; apply G.
  - replace (3 * (phi / 3)) with phi by field. exact Hphi.
  - replace (3 * ((phi + 2 * PI) / 3)) with (phi + 2 * PI) by field. rewrite cos_plus_2PI. exact Hphi.
  - replace (3 * ((phi + 4 * PI) / 3)) with (phi + 4 * PI) by field. rewrite cos_plus_4PI. exact Hphi.
Qed.

(* all branches together, for the monic cubic *)
Lemma cardano_monic_sound a b c t :
  In t (cardano_monic a b c) -> 0 <= t <= 1 /\ t * t * t + a * t * t + b * t + c = 0.
Proof.
  unfold cardano_monic.
  destruct (ltb ROps (card_disc a b c) 0) eqn:L; [ | destruct (eqb ROps (card_disc a b c) 0) eqn:E].
  - apply Rltb_true in L. rewrite sort_In, filter_In, keep01_true. intros [Hin I]. split; [exact I | ].
    eapply cardano_three_roots_sound; eassumption.
  - apply Reqb_true in E. rewrite sort_In, filter_In, keep01_true. intros [Hin I]. split; [exact I | ].
    eapply cardano_double_root_sound; eassumption.
  - apply Rltb_false in L. apply Reqb_false in E. rewrite filter_In, keep01_true. intros [Hin I]. split; [exact I | ].
    apply cardano_one_root_sound; [lra | exact Hin].
Qed.

Lemma max2_Rmax a b : max2 ROps a b = Rmax a b.
Proof. unfold max2, Rmax. rcbv. destruct (Rlt_dec a b), (Rle_dec a b); lra. Qed.
Lemma cubic_thr_nonneg c : 0 <= cubic_thr c.
Proof.
  unfold cubic_thr. rewrite !max2_Rmax.
  pose proof (Rabs_pos (cubic_C c)). pose proof (Rmax_r (Rmax (Rabs (cubic_A c)) (Rabs (cubic_B c))) (Rabs (cubic_C c))). lra.
Qed.
Lemma cubic_thr_bounds c :
  1 / 1000000000 * Rabs (cubic_A c) <= cubic_thr c /\ 1 / 1000000000 * Rabs (cubic_B c) <= cubic_thr c /\
  1 / 1000000000 * Rabs (cubic_C c) <= cubic_thr c.
Proof.
  unfold cubic_thr. rewrite !max2_Rmax.
  pose proof (Rmax_r (Rmax (Rabs (cubic_A c)) (Rabs (cubic_B c))) (Rabs (cubic_C c))).
  pose proof (Rmax_l (Rmax (Rabs (cubic_A c)) (Rabs (cubic_B c))) (Rabs (cubic_C c))).
  pose proof (Rmax_l (Rabs (cubic_A c)) (Rabs (cubic_B c))). pose proof (Rmax_r (Rabs (cubic_A c)) (Rabs (cubic_B c))).
  repeat split; lra.
Qed.

(** D. Soundness of the Cardano path: when the cubic term does not vanish (|d| > 1e-9 max(|a|,|b|,|c|)), every
    reported t is in [0,1] and is an exact zero of the y-coordinate of the curve. *)
Theorem cubic_findRoots_sound (c : seg4 R) (t : R) :
  cubic_thr c < Rabs (cubic_D c) ->
  In t (Cubic__findRoots_y ROps c) ->
  0 <= t <= 1 /\ py (Cubic_pointAtTime ROps c t) = 0.
Proof.
  intros Hg. rewrite cubic_findRoots_unfold.
  destruct (leb ROps (Rabs (cubic_D c)) (cubic_thr c)) eqn:L; [apply Rleb_true in L; lra | ].
  assert (HD : cubic_D c <> 0).
  { intros E. rewrite E, Rabs_R0 in Hg. pose proof (cubic_thr_nonneg c). lra. }
  intros Hin. apply cardano_monic_sound in Hin. destruct Hin as [I Z]. split; [exact I | ].
  rewrite cubic_y_poly.
  replace (cubic_D c * t * t * t + cubic_A c * t * t + cubic_B c * t + cubic_C c)
    with (cubic_D c * (t * t * t + cubic_A c / cubic_D c * t * t + cubic_B c / cubic_D c * t + cubic_C c / cubic_D c))
    by (field; exact HD).
  rewrite Z. ring.
Qed.

(** D4. The degenerate path (|d| <= 1e-9 max(|a|,|b|,|c|)): the answer is [quadraticRoots a b c]; every reported t
    is in [0,1] and the residual of the full cubic at t is at most 2e-9 max(|a|,|b|,|c|); when [quadraticRoots]
    itself took its quadratic branch the residual is exactly d t^3, bounded by 1e-9 max(|a|,|b|,|c|). *)
Lemma Rabs_cube_le t : 0 <= t <= 1 -> 0 <= t * t * t <= 1 /\ 0 <= t * t <= 1.
Proof. intros H. assert (0 <= t * t <= 1) by nra. split; [nra | assumption]. Qed.

Theorem cubic_findRoots_degenerate (c : seg4 R) :
  Rabs (cubic_D c) <= cubic_thr c ->
  Cubic__findRoots_y ROps c = utils_quadraticRoots ROps (cubic_A c) (cubic_B c) (cubic_C c) /\
  forall t, In t (Cubic__findRoots_y ROps c) ->
    0 <= t <= 1 /\
    Rabs (py (Cubic_pointAtTime ROps c t)) <= 2 * cubic_thr c /\
    (1 / 1000000000 * Rabs (cubic_B c) < Rabs (cubic_A c) ->
       py (Cubic_pointAtTime ROps c t) = cubic_D c * (t * t * t) /\
       Rabs (py (Cubic_pointAtTime ROps c t)) <= cubic_thr c).
Proof.
  intros Hg.
  assert (U : Cubic__findRoots_y ROps c = utils_quadraticRoots ROps (cubic_A c) (cubic_B c) (cubic_C c)).
  { rewrite cubic_findRoots_unfold. apply Rleb_true in Hg. rewrite Hg. reflexivity. }
  split; [exact U | ]. rewrite U. intros t Hin. rewrite cubic_y_poly.
  destruct (cubic_thr_bounds c) as (BA & BB & BC).
  destruct (Rle_dec (Rabs (cubic_A c)) (1 / 1000000000 * Rabs (cubic_B c))) as [Lin | Quad].
  - (* numerically linear *)
    apply quadraticRoots_linear_iff in Hin; [ | exact Lin]. destruct Hin as (Hb & Et & I). unfold in01 in I.
    split; [exact I | split; [ | intros; lra]].
    assert (Z : cubic_B c * t + cubic_C c = 0) by (rewrite Et; field; exact Hb).
    replace (cubic_D c * t * t * t + cubic_A c * t * t + cubic_B c * t + cubic_C c)
      with (cubic_D c * (t * t * t) + cubic_A c * (t * t)) by lra.
    destruct (Rabs_cube_le t I) as [T3 T2].
    eapply Rle_trans; [apply Rabs_triang | ]. rewrite (Rabs_mult (cubic_D c)), (Rabs_mult (cubic_A c)).
    rewrite (Rabs_pos_eq (t * t * t)), (Rabs_pos_eq (t * t)) by lra.
    pose proof (Rabs_pos (cubic_D c)). pose proof (Rabs_pos (cubic_A c)). pose proof (Rabs_pos (cubic_B c)). nra.
  - apply Rnot_le_lt in Quad. apply quadraticRoots_quadratic_iff in Hin; [ | exact Quad].
    destruct Hin as (Hd & I & Hr). unfold in01 in I.
    assert (Ha : cubic_A c <> 0).
    { intros E. rewrite E, Rabs_R0 in Quad. pose proof (Rabs_pos (cubic_B c)). lra. }
    apply (quadratic_zero_iff _ _ _ t Ha Hd) in Hr.
    assert (E : cubic_D c * t * t * t + cubic_A c * t * t + cubic_B c * t + cubic_C c = cubic_D c * (t * t * t)) by lra.
    destruct (Rabs_cube_le t I) as [T3 T2].
    assert (Bd : Rabs (cubic_D c * (t * t * t)) <= cubic_thr c).
    { rewrite Rabs_mult, (Rabs_pos_eq (t * t * t)) by lra. pose proof (Rabs_pos (cubic_D c)). nra. }
    rewrite E. pose proof (cubic_thr_nonneg c).
    split; [exact I | split; [lra | intros _; split; [reflexivity | exact Bd]]].
Qed.

(* exactly vanishing cubic term: the quadratic characterisation of Part C applies verbatim *)
Corollary cubic_findRoots_exact_quadratic (c : seg4 R) (t : R) :
  cubic_D c = 0 ->
  1 / 1000000000 * Rabs (cubic_B c) < Rabs (cubic_A c) ->
  0 < cubic_B c * cubic_B c - 4 * cubic_A c * cubic_C c ->
  (In t (Cubic__findRoots_y ROps c) <-> 0 <= t <= 1 /\ py (Cubic_pointAtTime ROps c t) = 0).
Proof.
  intros HD HQ Hd.
  assert (Hg : Rabs (cubic_D c) <= cubic_thr c) by (rewrite HD, Rabs_R0; apply cubic_thr_nonneg).
  destruct (cubic_findRoots_degenerate c Hg) as [U _]. rewrite U, cubic_y_poly, HD.
  rewrite (quadraticRoots_exact _ _ _ t HQ Hd). unfold in01.
  replace (0 * t * t * t + cubic_A c * t * t + cubic_B c * t + cubic_C c)
    with (cubic_A c * t * t + cubic_B c * t + cubic_C c) by ring. tauto.
Qed.

(** Non-vacuity: the arch (0,0),(0,100),(100,100),(100,0) against the line y = 50, i.e. the arch translated by -50
    in y.  Its y-polynomial is -300 t^2 + 300 t - 50 (d = 0): the degenerate path is taken and both crossings
    1/2 -+ sqrt(30000)/600 (about 0.2113 and 0.7887) are reported. *)
Definition arch50 : seg4 R := C4 (P 0 (-50)) (P 0 50) (P 100 50) (P 100 (-50)).
Lemma sqrt_30000_bounds : 173 < sqrt 30000 < 174.
Proof.
  split.
  - rewrite <- (sqrt_square 173) by lra. apply sqrt_lt_1; lra.
  - rewrite <- (sqrt_square 174) by lra. apply sqrt_lt_1; lra.
Qed.
Example arch_line_y50 :
  cubic_D arch50 = 0 /\
  Cubic__findRoots_y ROps arch50 = [1 / 2 + sqrt 30000 / 600; 1 / 2 - sqrt 30000 / 600] /\
  (forall t, In t (Cubic__findRoots_y ROps arch50) <-> 0 <= t <= 1 /\ py (Cubic_pointAtTime ROps arch50 t) = 0).
Proof.
  assert (EA : cubic_A arch50 = -300) by (unfold cubic_A; cbn [arch50 c0 c1 c2 c3 px py]; lra).
  assert (EB : cubic_B arch50 = 300) by (unfold cubic_B; cbn [arch50 c0 c1 c2 c3 px py]; lra).
  assert (EC : cubic_C arch50 = -50) by reflexivity.
  assert (ED : cubic_D arch50 = 0) by (unfold cubic_D; cbn [arch50 c0 c1 c2 c3 px py]; lra).
  assert (Hg : Rabs (cubic_D arch50) <= cubic_thr arch50) by (rewrite ED, Rabs_R0; apply cubic_thr_nonneg).
  destruct (cubic_findRoots_degenerate arch50 Hg) as [U _].
  pose proof sqrt_30000_bounds as S.
  split; [exact ED | split].
  - rewrite U, EA, EB, EC. rcbv.
    replace (300 * 300 - 4 * -300 * -50) with 30000 by lra.
    set (sd := sqrt 30000) in *.
    unfold Rabs. repeat destruct (Rcase_abs _); try lra. rdec; try lra.
    f_equal; [field | f_equal; field].
  - intros t. apply cubic_findRoots_exact_quadratic; [exact ED | rewrite EA, EB; rconc | rewrite EA, EB, EC; lra].
Qed.

(* ------------------------------------------------------------------------------------------------ *)
(** * E. Completeness of the Cardano path *)

(* positive discriminant: the depressed cubic has at most one real zero *)
Lemma depressed_unique p q y1 y2 :
  0 < q / 2 * (q / 2) + p / 3 * (p / 3) * (p / 3) ->
  y1 * y1 * y1 + p * y1 + q = 0 -> y2 * y2 * y2 + p * y2 + q = 0 -> y1 = y2.
Proof.
  intros Hd H1 H2. destruct (Req_dec y1 y2) as [E | N]; [exact E | exfalso].
  assert (F : (y1 - y2) * (y1 * y1 + y1 * y2 + y2 * y2 + p) = 0) by lra.
  apply Rmult_integral in F. destruct F as [F | F]; [lra | ].
  assert (Hp : p = - (y1 * y1 + y1 * y2 + y2 * y2)) by lra.
  assert (Hq : q = y1 * y2 * (y1 + y2)) by (rewrite Hp in H1; lra).
  set (S := (y1 - y2) * (2 * y1 + y2) * (y1 + 2 * y2)).
  assert (K : 4 * (p * p * p) + 27 * (q * q) = - (S * S)) by (rewrite Hp, Hq; unfold S; ring).
  pose proof (sq_nonneg S). lra.
Qed.

Lemma cardano_one_root_complete a b c t :
  0 < card_disc a b c -> 0 <= t <= 1 -> t * t * t + a * t * t + b * t + c = 0 ->
  In t (filter keep01 (cardano_one a b c)).
Proof.
  intros Hd I Z. apply filter_In. split; [ | apply keep01_true; exact I].
  assert (S0 : forall r0, In r0 (cardano_one a b c) -> r0 * r0 * r0 + a * r0 * r0 + b * r0 + c = 0)
    by (intros r0; apply cardano_one_root_sound; exact Hd).
  unfold cardano_one in *. destruct (cardano_uv a b c) as [u1 v1]. left.
  match goal with |- ?r = t => set (r0 := r) in * end.
  assert (Z0 : r0 * r0 * r0 + a * r0 * r0 + b * r0 + c = 0) by (apply S0; left; reflexivity).
  apply depressed_root_inv in Z. apply depressed_root_inv in Z0.
  pose proof (depressed_unique _ _ _ _ Hd Z0 Z). lra.
Qed.

(* zero discriminant: the depressed cubic is (y - 2u)(y + u)^2 *)
Lemma cardano_double_root_complete a b c t :
  card_disc a b c = 0 -> 0 <= t <= 1 -> t * t * t + a * t * t + b * t + c = 0 ->
  In t (filter keep01 (cardano_double a b c)).
Proof.
  intros Hd I Z. apply filter_In. split; [ | apply keep01_true; exact I].
  set (p := card_p a b) in *. set (q := card_q a b c) in *. set (q2 := q / 2). set (p3 := p / 3).
  assert (Hdisc : q2 * q2 + p3 * p3 * p3 = 0) by exact Hd.
  set (u := crt (- q2)).
  assert (Hu : u * u * u = - q2) by apply crt_cube.
  assert (Eu : (if ltb ROps q2 0 then crt (- q2) else - crt q2) = u).
  { destruct (ltb ROps q2 0); [reflexivity | symmetry; apply crt_odd]. }
  assert (Hp3 : p3 = - (u * u)).
  { apply cube_inj. replace (- (u * u) * - (u * u) * - (u * u)) with (- ((u * u * u) * (u * u * u))) by ring.
    rewrite Hu. lra. }
  assert (Hp : p = - 3 * (u * u)) by (unfold p3 in Hp3; lra).
  assert (Hq : q = - 2 * (u * u * u)) by (unfold q2 in Hu; lra).
  unfold cardano_double. cbv zeta. fold q q2. rewrite Eu.
  apply depressed_root_inv in Z. fold p q in Z. set (y := t + a / 3) in *.
  assert (F : (y - 2 * u) * ((y + u) * (y + u)) = 0) by (rewrite Hp, Hq in Z; lra).
  apply Rmult_integral in F. destruct F as [F | F].
  - left. unfold y in F. replace (a / (3 / 1)) with (a / 3) by field. lra.
  - right; left. apply Rmult_integral in F. unfold y in F. replace (a / (3 / 1)) with (a / 3) by field. destruct F; lra.
Qed.

(* negative discriminant: the three trigonometric values are all the zeros (Vieta) *)
Lemma cos_third_shift1 phi :
  cos ((phi + 2 * PI) / 3) = cos (phi / 3) * (-1 / 2) - sin (phi / 3) * (sqrt 3 / 2).
Proof.
  replace ((phi + 2 * PI) / 3) with (phi / 3 + 2 * (PI / 3)) by field.
  rewrite cos_plus, cos_2PI3, sin_2PI3. reflexivity.
Qed.
Lemma cos_third_shift2 phi :
  cos ((phi + 4 * PI) / 3) = cos (phi / 3) * (-1 / 2) + sin (phi / 3) * (sqrt 3 / 2).
Proof.
  replace ((phi + 4 * PI) / 3) with (phi / 3 - 2 * (PI / 3) + 2 * PI) by field.
  rewrite cos_plus_2PI, cos_minus, cos_2PI3, sin_2PI3. reflexivity.
Qed.

Lemma cardano_three_roots_factor a b c y :
  card_disc a b c < 0 ->
  let p := card_p a b in let q := card_q a b c in
  let r := sqrt (- p / 3 * (- p / 3) * (- p / 3)) in
  let phi := acos (- q / (2 * r)) in
  let k := crt r in
  (y - 2 * k * cos (phi / 3)) * (y - 2 * k * cos ((phi + 2 * PI) / 3)) * (y - 2 * k * cos ((phi + 4 * PI) / 3))
  = y * y * y + p * y + q.
Proof.
  intros Hd p q r phi k.
  destruct (cardano_three_roots_facts a b c Hd) as (Hr & Ht & _ & H2rt & Hk). fold p q r k in Hr, Ht, H2rt, Hk.
  set (tt := - q / (2 * r)) in *.
  assert (Hk3 : k * k * k = r) by apply crt_cube.
  assert (Hphi : cos phi = tt) by (apply cos_acos; lra).
  rewrite cos_third_shift1, cos_third_shift2.
  set (th := phi / 3). set (cc := cos th). set (ss := sin th). set (w := sqrt 3 / 2).
  assert (Hw : w * w = 3 / 4).
  { unfold w. replace (sqrt 3 / 2 * (sqrt 3 / 2)) with (sqrt 3 * sqrt 3 / 4) by field. rewrite sqrt_sqrt by lra. reflexivity. }
  assert (Hs : ss * ss = 1 - cc * cc).
  { pose proof (sin2 th) as S. unfold Rsqr in S. exact S. }
  assert (H3 : 4 * (cc * cc * cc) - 3 * cc = tt).
  { rewrite <- Hphi. unfold cc. rewrite <- cos_3x. unfold th. f_equal. field. }
  assert (Hp : p = - 3 * (k * k)) by lra.
  assert (Hq : q = - 2 * (k * k * k) * (4 * (cc * cc * cc) - 3 * cc)) by (rewrite Hk3, H3; lra).
  set (y1 := 2 * k * cc). set (y2 := 2 * k * (cc * (-1 / 2) - ss * w)). set (y3 := 2 * k * (cc * (-1 / 2) + ss * w)).
  assert (P2 : y2 + y3 = - y1) by (unfold y1, y2, y3; field).
  assert (P3 : y2 * y3 = k * k * (4 * (cc * cc) - 3)).
  { replace (y2 * y3) with (4 * (k * k) * (cc * cc / 4 - (ss * ss) * (w * w))) by (unfold y2, y3; field).
    rewrite Hs, Hw. field. }
  replace ((y - y1) * (y - y2) * (y - y3)) with ((y - y1) * (y * y - (y2 + y3) * y + y2 * y3)) by ring.
  rewrite P2, P3, Hp, Hq. unfold y1. ring.
Qed.

Lemma cardano_three_roots_complete a b c t :
  card_disc a b c < 0 -> 0 <= t <= 1 -> t * t * t + a * t * t + b * t + c = 0 ->
  In t (filter keep01 (cardano_three a b c)).
Proof.
  intros Hd I Z. apply filter_In. split; [ | apply keep01_true; exact I].
  destruct (cardano_three_roots_facts a b c Hd) as (_ & _ & Hclamp & _ & _).
  unfold cardano_three. cbv zeta. rewrite Hclamp.
  apply depressed_root_inv in Z. rewrite <- (cardano_three_roots_factor a b c (t + a / 3) Hd) in Z. cbv zeta in Z.
  apply Rmult_integral in Z. destruct Z as [Z | Z]; [apply Rmult_integral in Z; destruct Z as [Z | Z] | ].
  - left. lra.
  - right; left. lra.
  - right; right; left. lra.
Qed.

Lemma cardano_monic_complete a b c t :
  0 <= t <= 1 -> t * t * t + a * t * t + b * t + c = 0 -> In t (cardano_monic a b c).
Proof.
  intros I Z. unfold cardano_monic.
  destruct (ltb ROps (card_disc a b c) 0) eqn:L; [ | destruct (eqb ROps (card_disc a b c) 0) eqn:E].
  - apply Rltb_true in L. rewrite sort_In. apply cardano_three_roots_complete; assumption.
  - apply Reqb_true in E. rewrite sort_In. apply cardano_double_root_complete; assumption.
  - apply Rltb_false in L. apply Reqb_false in E. apply cardano_one_root_complete; try assumption. lra.
Qed.

(** E. On the Cardano path the reported list is EXACTLY the set of zeros of y(t) in [0,1]
    (all three discriminant cases; in particular for discriminant > 0 the unique real zero). *)
Theorem cubic_findRoots_complete (c : seg4 R) (t : R) :
  cubic_thr c < Rabs (cubic_D c) ->
  0 <= t <= 1 -> py (Cubic_pointAtTime ROps c t) = 0 ->
  In t (Cubic__findRoots_y ROps c).
Proof.
  intros Hg I Z. rewrite cubic_findRoots_unfold.
  destruct (leb ROps (Rabs (cubic_D c)) (cubic_thr c)) eqn:L; [apply Rleb_true in L; lra | ].
  assert (HD : cubic_D c <> 0).
  { intros E. rewrite E, Rabs_R0 in Hg. pose proof (cubic_thr_nonneg c). lra. }
  apply cardano_monic_complete; [exact I | ].
  rewrite cubic_y_poly in Z.
  apply (Rmult_eq_reg_l (cubic_D c)); [ | exact HD]. rewrite Rmult_0_r, <- Z. field. exact HD.
Qed.
Theorem cubic_findRoots_exact (c : seg4 R) (t : R) :
  cubic_thr c < Rabs (cubic_D c) ->
  (In t (Cubic__findRoots_y ROps c) <-> 0 <= t <= 1 /\ py (Cubic_pointAtTime ROps c t) = 0).
Proof.
  intros Hg. split.
  - apply cubic_findRoots_sound; exact Hg.
  - intros [I Z]. apply cubic_findRoots_complete; assumption.
Qed.
(* the one-real-root case singled out, as requested: discriminant > 0 -> at most one zero, and it is reported *)
Corollary cubic_findRoots_one_root_complete (c : seg4 R) (t : R) :
  cubic_thr c < Rabs (cubic_D c) ->
  0 < card_disc (cubic_A c / cubic_D c) (cubic_B c / cubic_D c) (cubic_C c / cubic_D c) ->
  0 <= t <= 1 -> py (Cubic_pointAtTime ROps c t) = 0 ->
  Cubic__findRoots_y ROps c = [t].
Proof.
  intros Hg Hd I Z. pose proof (cubic_findRoots_complete c t Hg I Z) as Hin.
  rewrite cubic_findRoots_unfold in Hin |- *.
  destruct (leb ROps (Rabs (cubic_D c)) (cubic_thr c)) eqn:L; [apply Rleb_true in L; lra | ].
  unfold cardano_monic in Hin |- *.
  destruct (ltb ROps (card_disc _ _ _) 0) eqn:L1; [apply Rltb_true in L1; lra | ].
  destruct (eqb ROps (card_disc _ _ _) 0) eqn:L2; [apply Reqb_true in L2; lra | ].
  unfold cardano_one in Hin |- *. destruct (cardano_uv _ _ _) as [u1 v1]. cbn [filter] in Hin |- *.
  destruct (keep01 _); [ | destruct Hin]. destruct Hin as [-> | []]. reflexivity.
Qed.

(* ------------------------------------------------------------------------------------------------ *)
(** * B. The alignment transformation turns "on the carrier of l" into "y = 0" *)

Lemma R_atan2_cos_sin x y :
  let m := sqrt (x * x + y * y) in
  m <> 0 -> m * cos (R_atan2 y x) = x /\ m * sin (R_atan2 y x) = y.
Proof.
  intros m Hm. pose proof (sq_nonneg x) as Hx. pose proof (sq_nonneg y) as Hy.
  assert (Hmm : m * m = x * x + y * y) by (apply sqrt_sqrt; lra).
  assert (Hpos : 0 < m). { pose proof (sqrt_pos (x * x + y * y)). fold m in H. lra. }
  set (z := x / m).
  assert (Hz : z * m = x) by (unfold z; field; exact Hm).
  assert (Hb : -1 <= z <= 1).
  { assert (- m <= x <= m) by (split; nra). split; apply (Rmult_le_reg_r m); try exact Hpos; lra. }
  assert (Hsin : m * sqrt (1 - z²) = Rabs y).
  { rewrite <- (sqrt_square m) at 1 by lra. rewrite <- sqrt_mult_alt by nra.
    replace (m * m * (1 - z²)) with (y * y) by (unfold Rsqr; replace (m * m * (1 - z * z)) with (m * m - (z * m) * (z * m)) by ring; rewrite Hz; lra).
    apply sqrt_Rsqr_abs. }
  unfold R_atan2. fold m. fold z. destruct (Req_EM_T m 0) as [E | _]; [contradiction | ].
  destruct (Rle_dec 0 y) as [Hy0 | Hy0].
  - rewrite cos_acos, sin_acos by exact Hb. rewrite Hsin, Rabs_pos_eq by exact Hy0. split; [lra | reflexivity].
  - rewrite cos_neg, sin_neg, cos_acos, sin_acos by exact Hb.
    replace (m * - sqrt (1 - z²)) with (- (m * sqrt (1 - z²))) by ring. rewrite Hsin, Rabs_left by lra. split; lra.
Qed.

Definition align_angle (l : seg2 R) : R := R_atan2 (py (l1 l) - py (l0 l)) (px (l1 l) - px (l0 l)).
Lemma alignment_matrix (l : seg2 R) :
  let th := align_angle l in
  Line_alignmentTransformation ROps l =
  M3 (cos th) (sin th) (- (cos th * px (l0 l) + sin th * py (l0 l)))
     (- sin th) (cos th) (sin th * px (l0 l) - cos th * py (l0 l))
     0 0 1.
Proof.
  destruct l as [[a1 a2] [b1 b2]]. unfold align_angle. cbn [l0 l1 px py]. cbv zeta. rcbv.
  replace (0 * b1 + 1 * b2 + a2 * -1) with (b2 - a2) by ring.
  replace (1 * b1 + 0 * b2 + a1 * -1) with (b1 - a1) by ring.
  replace (- (R_atan2 (b2 - a2) (b1 - a1) * -1)) with (R_atan2 (b2 - a2) (b1 - a1)) by ring.
  f_equal; ring.
Qed.
Lemma aligned_point (l : seg2 R) (p : pt R) :
  let th := align_angle l in
  Point_transformed ROps p (Line_alignmentTransformation ROps l) =
  P (cos th * (px p - px (l0 l)) + sin th * (py p - py (l0 l)))
    (- sin th * (px p - px (l0 l)) + cos th * (py p - py (l0 l))).
Proof.
  cbv zeta. rewrite alignment_matrix. cbv zeta. destruct p as [x y]. unfold Point_transformed. cbn [m00 m01 m02 m10 m11 m12 px py].
  cbv zeta. apply pt_eq; rcbv; ring.
Qed.

Definition proj_param (l : seg2 R) (p : pt R) : R :=
  ((px p - px (l0 l)) * (px (l1 l) - px (l0 l)) + (py p - py (l0 l)) * (py (l1 l) - py (l0 l))) /
  (Line_length ROps l * Line_length ROps l).

Theorem on_carrier_iff_aligned_root (l : seg2 R) (p : pt R) :
  l0 l <> l1 l ->
  let q := Point_transformed ROps p (Line_alignmentTransformation ROps l) in
  let len := Line_length ROps l in
  let u := proj_param l p in
  0 < len /\
  (on_carrier l p <-> py q = 0) /\
  px q = len * u /\
  (0 <= px q <= len <-> 0 <= u <= 1) /\
  (on_carrier l p -> Line_pointAtTime ROps l u = p).
Proof.
  intros N q len u.
  assert (Q : q = P (cos (align_angle l) * (px p - px (l0 l)) + sin (align_angle l) * (py p - py (l0 l)))
                    (- sin (align_angle l) * (px p - px (l0 l)) + cos (align_angle l) * (py p - py (l0 l))))
    by apply aligned_point.
  destruct l as [[a1 a2] [b1 b2]], p as [x y]. unfold on_carrier, proj_param in *. unfold align_angle in Q. cbn [l0 l1 px py] in *.
  set (dx := b1 - a1) in *. set (dy := b2 - a2) in *.
  assert (Elen : len = sqrt (dx * dx + dy * dy)).
  { unfold len. rcbv. f_equal. unfold dx, dy. ring. }
  assert (D : dx <> 0 \/ dy <> 0).
  { destruct (Req_dec b1 a1) as [E1|E1]; [ | left; unfold dx; lra]. destruct (Req_dec b2 a2) as [E2|E2]; [ | right; unfold dy; lra].
    subst. contradiction N; reflexivity. }
  assert (Dpos : 0 < dx * dx + dy * dy).
  { pose proof (sq_nonneg dx). pose proof (sq_nonneg dy). destruct D as [D|D]; apply sq_pos in D; lra. }
  assert (Hlen : 0 < len) by (rewrite Elen; apply sqrt_lt_R0; exact Dpos).
  assert (Hll : len * len = dx * dx + dy * dy) by (rewrite Elen; apply sqrt_sqrt; lra).
  destruct (R_atan2_cos_sin dx dy) as [Hc Hs]; [rewrite <- Elen; lra | ]. rewrite <- Elen in Hc, Hs.
  set (th := R_atan2 dy dx) in *.
  assert (Eu : u = ((x - a1) * dx + (y - a2) * dy) / (len * len)) by reflexivity.
  clearbody u. rewrite Q. cbn [px py].
  assert (Y : len * (- sin th * (x - a1) + cos th * (y - a2)) = dx * (y - a2) - dy * (x - a1)).
  { replace (len * (- sin th * (x - a1) + cos th * (y - a2))) with ((len * cos th) * (y - a2) - (len * sin th) * (x - a1)) by ring.
    rewrite Hc, Hs. reflexivity. }
  assert (X : cos th * (x - a1) + sin th * (y - a2) = len * u).
  { apply (Rmult_eq_reg_l len); [ | lra].
    replace (len * (cos th * (x - a1) + sin th * (y - a2))) with ((len * cos th) * (x - a1) + (len * sin th) * (y - a2)) by ring.
    rewrite Hc, Hs, Eu. field. lra. }
  split; [exact Hlen | split; [ | split; [exact X | split]]].
  - split; intros H.
    + apply (Rmult_eq_reg_l len); [ | lra]. rewrite Y, H. ring.
    + rewrite <- Y, H. ring.
  - rewrite X. split; intros [H1 H2]; split; nra.
  - intros H. rcbv. fold dx dy. 
    assert (U : u * (dx * dx + dy * dy) = (x - a1) * dx + (y - a2) * dy) by (rewrite Eu, Hll; field; lra).
    apply pt_eq.
    + apply (Rmult_eq_reg_l (dx * dx + dy * dy)); [ | lra].
      replace ((dx * dx + dy * dy) * (a1 * (1 - u) + b1 * u)) with ((dx * dx + dy * dy) * a1 + (u * (dx * dx + dy * dy)) * dx) by (unfold dx; ring).
      rewrite U. apply Rminus_diag_uniq.
      replace ((dx * dx + dy * dy) * a1 + ((x - a1) * dx + (y - a2) * dy) * dx - (dx * dx + dy * dy) * x)
        with (dy * (dx * (y - a2) - dy * (x - a1))) by ring.
      rewrite H. ring.
    + apply (Rmult_eq_reg_l (dx * dx + dy * dy)); [ | lra].
      replace ((dx * dx + dy * dy) * (a2 * (1 - u) + b2 * u)) with ((dx * dx + dy * dy) * a2 + (u * (dx * dx + dy * dy)) * dy) by (unfold dy; ring).
      rewrite U. apply Rminus_diag_uniq.
      replace ((dx * dx + dy * dy) * a2 + ((x - a1) * dx + (y - a2) * dy) * dy - (dx * dx + dy * dy) * y)
        with (- dx * (dx * (y - a2) - dy * (x - a1))) by ring.
      rewrite H. ring.
Qed.

(* ------------------------------------------------------------------------------------------------ *)
(** * F. Curve-line intersections: parameters, order, and the end-to-end statements *)

Lemma fold_append_map {A B : Type} (f : A -> B) (l : list A) (acc : list B) :
  fold_left (fun acc x => acc ++ [f x]) l acc = acc ++ map f l.
Proof.
  revert acc. induction l as [ | x r IH]; intros acc; cbn [fold_left map].
  - rewrite app_nil_r. reflexivity.
  - rewrite IH, <- app_assoc. reflexivity.
Qed.

Definition quad_ix (c : seg3 R) (l : seg2 R) (t : R) : R * pt R * R :=
  (t, Quad_pointAtTime ROps c t, Line_tOfPoint ROps l (Quad_pointAtTime ROps c t) true).
Definition cubic_ix (c : seg4 R) (l : seg2 R) (t : R) : R * pt R * R :=
  (t, Cubic_pointAtTime ROps c t, Line_tOfPoint ROps l (Cubic_pointAtTime ROps c t) true).

Theorem curve_line_params_quad (c : seg3 R) (l : seg2 R) :
  Quad__curve_line_intersections ROps c l = map (quad_ix c l) (Quad__curve_line_intersections_t ROps c l) /\
  Sorted Rle (Quad__curve_line_intersections_t ROps c l).
Proof.
  split.
  - unfold Quad__curve_line_intersections. cbv zeta.
    rewrite (fold_append_map (quad_ix c l)). reflexivity.
  - apply sort_sorted.
Qed.
Theorem curve_line_params_cubic (c : seg4 R) (l : seg2 R) :
  Cubic__curve_line_intersections ROps c l = map (cubic_ix c l) (Cubic__curve_line_intersections_t ROps c l) /\
  Sorted Rle (Cubic__curve_line_intersections_t ROps c l).
Proof.
  split.
  - unfold Cubic__curve_line_intersections. cbv zeta.
    rewrite (fold_append_map (cubic_ix c l)). reflexivity.
  - apply sort_sorted.
Qed.
(* F, in the requested form: each t of the sorted list corresponds to the element (t, c(t), l.tOfPoint(c(t), True)) *)
Theorem curve_line_params :
  (forall (c : seg3 R) l, Sorted Rle (Quad__curve_line_intersections_t ROps c l) /\
     forall i, In i (Quad__curve_line_intersections ROps c l) <->
               exists t, In t (Quad__curve_line_intersections_t ROps c l) /\ i = quad_ix c l t) /\
  (forall (c : seg4 R) l, Sorted Rle (Cubic__curve_line_intersections_t ROps c l) /\
     forall i, In i (Cubic__curve_line_intersections ROps c l) <->
               exists t, In t (Cubic__curve_line_intersections_t ROps c l) /\ i = cubic_ix c l t).
Proof.
  split; intros c l.
  - destruct (curve_line_params_quad c l) as [E S]. split; [exact S | ]. intros i. rewrite E, in_map_iff.
    split; intros [t [H1 H2]]; exists t; [split; [exact H2 | symmetry; exact H1] | split; [symmetry; exact H2 | exact H1]].
  - destruct (curve_line_params_cubic c l) as [E S]. split; [exact S | ]. intros i. rewrite E, in_map_iff.
    split; intros [t [H1 H2]]; exists t; [split; [exact H2 | symmetry; exact H1] | split; [symmetry; exact H2 | exact H1]].
Qed.

(* affine invariance of Bezier evaluation, for the generated [transformed] *)
Lemma cubic_transformed_pointAtTime (c : seg4 R) (m : mat3 R) t :
  Cubic_pointAtTime ROps (Cubic_transformed ROps c m) t = Point_transformed ROps (Cubic_pointAtTime ROps c t) m.
Proof. destruct_pts. rcbv. apply pt_eq; ring. Qed.
Lemma quad_transformed_pointAtTime (c : seg3 R) (m : mat3 R) t :
  Quad_pointAtTime ROps (Quad_transformed ROps c m) t = Point_transformed ROps (Quad_pointAtTime ROps c t) m.
Proof. destruct_pts. rcbv. apply pt_eq; ring. Qed.

(* the second parameter: for a point on the carrier, tOfPoint(., True) is its (projection) parameter *)
Lemma tOfPoint_on_carrier (l : seg2 R) (p : pt R) :
  l0 l <> l1 l ->
  isclose ROps (px (l1 l)) (px (l0 l)) = false \/ isclose ROps (py (l1 l)) (py (l0 l)) = false ->
  on_carrier l p ->
  Line_tOfPoint ROps l p true = proj_param l p /\ Line_pointAtTime ROps l (proj_param l p) = p.
Proof.
  intros N Hok C. destruct (on_carrier_iff_aligned_root l p N) as (_ & _ & _ & _ & E). specialize (E C).
  split; [ | exact E]. rewrite <- E at 1. apply tOfPoint_pointAtTime. exact Hok.
Qed.

(** End to end, cubic against line: with c' the curve in the line's aligned frame, if its cubic term does not vanish
    then the reported parameters are exactly the t in [0,1] at which the curve meets the carrier of the line. *)
Theorem cubic_curve_line_exact (c : seg4 R) (l : seg2 R) (t : R) :
  l0 l <> l1 l ->
  let c' := Cubic_transformed ROps c (Line_alignmentTransformation ROps l) in
  cubic_thr c' < Rabs (cubic_D c') ->
  (In t (Cubic__curve_line_intersections_t ROps c l) <-> 0 <= t <= 1 /\ on_carrier l (Cubic_pointAtTime ROps c t)).
Proof.
  intros N c' Hg. unfold Cubic__curve_line_intersections_t. cbv zeta. fold c'.
  rewrite sort_In, (cubic_findRoots_exact c' t Hg). unfold c'. rewrite cubic_transformed_pointAtTime.
  destruct (on_carrier_iff_aligned_root l (Cubic_pointAtTime ROps c t) N) as (_ & K & _). cbv zeta in K. rewrite K. tauto.
Qed.
(* degenerate cubic term: still sound up to the stated residual; and exact when the aligned curve is exactly quadratic *)
Theorem cubic_curve_line_exact_quadratic (c : seg4 R) (l : seg2 R) (t : R) :
  l0 l <> l1 l ->
  let c' := Cubic_transformed ROps c (Line_alignmentTransformation ROps l) in
  cubic_D c' = 0 -> 1 / 1000000000 * Rabs (cubic_B c') < Rabs (cubic_A c') ->
  0 < cubic_B c' * cubic_B c' - 4 * cubic_A c' * cubic_C c' ->
  (In t (Cubic__curve_line_intersections_t ROps c l) <-> 0 <= t <= 1 /\ on_carrier l (Cubic_pointAtTime ROps c t)).
Proof.
  intros N c' HD HQ Hd. unfold Cubic__curve_line_intersections_t. cbv zeta. fold c'.
  rewrite sort_In, (cubic_findRoots_exact_quadratic c' t HD HQ Hd). unfold c'. rewrite cubic_transformed_pointAtTime.
  destruct (on_carrier_iff_aligned_root l (Cubic_pointAtTime ROps c t) N) as (_ & K & _). cbv zeta in K. rewrite K. tauto.
Qed.
Theorem quad_curve_line_exact (c : seg3 R) (l : seg2 R) (t : R) :
  l0 l <> l1 l ->
  let c' := Quad_transformed ROps c (Line_alignmentTransformation ROps l) in
  (1 / 1000000000 * Rabs (quad_b c') < Rabs (quad_a c') /\ 0 < quad_b c' * quad_b c' - 4 * quad_a c' * quad_c c')
  \/ (quad_a c' = 0 /\ quad_b c' <> 0) ->
  (In t (Quad__curve_line_intersections_t ROps c l) <-> 0 <= t <= 1 /\ on_carrier l (Quad_pointAtTime ROps c t)).
Proof.
  intros N c' H. unfold Quad__curve_line_intersections_t. cbv zeta. fold c'.
  rewrite sort_In, (quad_findRoots_exact c' t H). unfold c'. rewrite quad_transformed_pointAtTime.
  destruct (on_carrier_iff_aligned_root l (Quad_pointAtTime ROps c t) N) as (_ & K & _). cbv zeta in K. rewrite K. tauto.
Qed.
(* and the full Intersection record of a reported crossing *)
Corollary cubic_curve_line_intersection_record (c : seg4 R) (l : seg2 R) (i : R * pt R * R) :
  l0 l <> l1 l ->
  isclose ROps (px (l1 l)) (px (l0 l)) = false \/ isclose ROps (py (l1 l)) (py (l0 l)) = false ->
  let c' := Cubic_transformed ROps c (Line_alignmentTransformation ROps l) in
  cubic_thr c' < Rabs (cubic_D c') ->
  In i (Cubic__curve_line_intersections ROps c l) ->
  let t1 := fst (fst i) in let p := snd (fst i) in let t2 := snd i in
  0 <= t1 <= 1 /\ p = Cubic_pointAtTime ROps c t1 /\ on_carrier l p /\
  t2 = proj_param l p /\ Line_pointAtTime ROps l t2 = p.
Proof.
  intros N Hok c' Hg Hin. destruct curve_line_params as [_ F]. destruct (F c l) as [_ F']. apply F' in Hin.
  destruct Hin as [t [Ht ->]]. unfold cubic_ix. cbn [fst snd].
  apply (cubic_curve_line_exact c l t N Hg) in Ht. destruct Ht as [I C].
  destruct (tOfPoint_on_carrier l _ N Hok C) as [T E]. rewrite T. repeat split; try assumption; lra.
Qed.

(** End-to-end non-vacuity: the arch against the horizontal line y = 50 from (0,50) to (100,50). *)
Definition arch : seg4 R := C4 (P 0 0) (P 0 100) (P 100 100) (P 100 0).
Definition line_y50 : seg2 R := L2 (P 0 50) (P 100 50).
Lemma line_y50_angle : align_angle line_y50 = 0.
Proof.
  unfold align_angle, line_y50. cbn [l0 l1 px py]. replace (50 - 50) with 0 by ring. replace (100 - 0) with 100 by ring.
  unfold R_atan2. replace (100 * 100 + 0 * 0) with (100 * 100) by ring. rewrite sqrt_square by lra.
  destruct (Req_EM_T 100 0) as [E | _]; [lra | ]. destruct (Rle_dec 0 0) as [_ | F]; [ | lra].
  replace (100 / 100) with 1 by field. apply acos_1.
Qed.
Lemma arch_aligned : Cubic_transformed ROps arch (Line_alignmentTransformation ROps line_y50) = arch50.
Proof.
  rewrite alignment_matrix. cbv zeta. rewrite line_y50_angle, cos_0, sin_0.
  unfold arch, arch50, line_y50. rcbv. repeat f_equal; ring.
Qed.
Example arch_line_y50_end_to_end :
  Cubic__curve_line_intersections_t ROps arch line_y50 = [1 / 2 - sqrt 30000 / 600; 1 / 2 + sqrt 30000 / 600] /\
  forall t, In t (Cubic__curve_line_intersections_t ROps arch line_y50) ->
            0 <= t <= 1 /\ py (Cubic_pointAtTime ROps arch t) = 50.
Proof.
  destruct arch_line_y50 as (_ & E & X).
  assert (U : Cubic__curve_line_intersections_t ROps arch line_y50 = [1 / 2 - sqrt 30000 / 600; 1 / 2 + sqrt 30000 / 600]).
  { unfold Cubic__curve_line_intersections_t. cbv zeta. rewrite arch_aligned, E.
    pose proof sqrt_30000_bounds as S. set (sd := sqrt 30000) in *.
    unfold sort_. cbn [fold_left insert_sorted].
    assert (L : ltb ROps (1 / 2 - sd / 600) (1 / 2 + sd / 600) = true) by (apply Rltb_true; lra).
    rewrite L. reflexivity. }
  split; [exact U | ].
  intros t Hin. unfold Cubic__curve_line_intersections_t in Hin. cbv zeta in Hin. rewrite arch_aligned, sort_In in Hin.
  apply X in Hin. destruct Hin as [I Z]. split; [exact I | ].
  revert Z. unfold arch, arch50. rcbv. lra.
Qed.

(* the side tests as dot products: for p at parameter t of a segment with distinct end points,
   t > 0 iff (p - start).(end - start) > 0, and t < 1 iff (p - end).(start - end) > 0 *)
Lemma param_pos_iff_dot (s : seg2 R) t :
  l0 s <> l1 s ->
  (0 < t <-> 0 < Point_dot ROps (Point___sub__ ROps (Line_pointAtTime ROps s t) (l0 s)) (Point___sub__ ROps (l1 s) (l0 s))) /\
  (t < 1 <-> 0 < Point_dot ROps (Point___sub__ ROps (Line_pointAtTime ROps s t) (l1 s)) (Point___sub__ ROps (l0 s) (l1 s))).
Proof.
  destruct s as [[a1 a2] [b1 b2]]. cbn [l0 l1]. intros N.
  assert (D : b1 - a1 <> 0 \/ b2 - a2 <> 0).
  { destruct (Req_dec b1 a1) as [E1|E1]; [ | left; lra]. destruct (Req_dec b2 a2) as [E2|E2]; [ | right; lra].
    subst. contradiction N; reflexivity. }
  assert (Dpos : 0 < (b1 - a1) * (b1 - a1) + (b2 - a2) * (b2 - a2)).
  { pose proof (sq_nonneg (b1 - a1)). pose proof (sq_nonneg (b2 - a2)). destruct D as [D|D]; apply sq_pos in D; lra. }
  rcbv.
  replace ((a1 * (1 - t) + b1 * t - a1) * (b1 - a1) + (a2 * (1 - t) + b2 * t - a2) * (b2 - a2))
    with (t * ((b1 - a1) * (b1 - a1) + (b2 - a2) * (b2 - a2))) by ring.
  replace ((a1 * (1 - t) + b1 * t - b1) * (a1 - b1) + (a2 * (1 - t) + b2 * t - b2) * (a2 - b2))
    with ((1 - t) * ((b1 - a1) * (b1 - a1) + (b2 - a2) * (b2 - a2))) by ring.
  repeat split; intros; nra.
Qed.
