(* C12: polygon-mode Boolean operations -- the glue around Clipper (Hand/Clip.v) at the real instance.
   The extern is a section variable; its even-odd semantics is the premise [clipper_spec] of [region_semantics]. *)
From Coq Require Import PrimFloat.
From Coq Require Import ZArith List Bool Reals Lra Lia Psatz.
From BZ Require Import Base.Ops Proofs.Tactics Gen.Point Gen.Line Gen.Quad Gen.Cubic Hand.Shoelace Hand.Clip.
Import ListNotations.
Open Scope R_scope.

(* ------------------------------------------------------------------ small facts about the carrier *)
Lemma precision_R : precision ROps = 100.
Proof. unfold precision. cbn. lra. Qed.

Definition zR (v : zpt) : pt R := P (IZR (fst v)) (IZR (snd v)).
Lemma zkey_R v : zkey ROps v = zR v.
Proof. reflexivity. Qed.
(* a vertex in user units: Point(x, y) / 100.0 *)
Definition unscale (p : pt R) : pt R := P (px p / 100) (py p / 100).
Lemma truediv_precision p : Point___truediv__ ROps p (precision ROps) = unscale p.
Proof. unfold Point___truediv__, unscale. rewrite precision_R. reflexivity. Qed.

Lemma rbind_ok {A B} (r : result A) (f : A -> result B) b :
  rbind r f = Ok b -> exists a, r = Ok a /\ f a = Ok b.
Proof. destruct r as [a | e]; cbn; intros H; [eauto | discriminate]. Qed.

(* the types of the two oracles *)
Definition clipper_t := cliptype -> list zpoly -> list zpoly -> option (list zpoly).   (* Pyclipper.Execute; None = ClipperException *)
Definition flatten_t := segment R -> option (list (seg2 R)).                            (* Segment.flatten(2) of a curved piece *)

(* ------------------------------------------------------------------ 1. what is handed to Clipper *)
(* s.flatten(2) for every piece, concatenated: the flattened chain of a path *)
Fixpoint flat_edges (flatten2 : segment R -> option (list (seg2 R))) (pieces : list (segment R)) : option (list (seg2 R)) :=
  match pieces with
  | [] => Some []
  | s :: r => match flats_of flatten2 s, flat_edges flatten2 r with Some a, Some b => Some (a ++ b) | _, _ => None end
  end.
(* int(x * 100.0) of the START point of an edge *)
Definition start_scaled_trunc (e : seg2 R) : zpt := (R_truncZ (px (l0 e) * 100), R_truncZ (py (l0 e) * 100)).

Lemma flatten_fill_edges flatten2 pieces : forall l es l',
  flatten_fill ROps flatten2 pieces l = Ok (es, l') -> flat_edges flatten2 pieces = Some es.
Proof.
  induction pieces as [ | s r IH]; intros l es l' H; cbn in H |- *.
  - inversion H; reflexivity.
  - destruct (flats_of flatten2 s) as [fl | ]; [ | discriminate].
    apply rbind_ok in H. destruct H as [[es2 l2] [H1 H2]]. cbn in H2. inversion H2; subst.
    rewrite (IH _ _ _ H1). reflexivity.
Qed.

Lemma R_toZ_some x z : R_toZ x = Some z -> z = R_truncZ x /\ (Z.abs z < two62)%Z.
Proof.
  unfold R_toZ. destruct (Z.abs (R_truncZ x) <? two62)%Z eqn:E; intros H; inversion H; subst.
  split; [reflexivity | now apply Z.ltb_lt].
Qed.

Lemma to_clipper_poly_spec es : forall zs,
  to_clipper_poly ROps R_toZ es = Some zs ->
  zs = map start_scaled_trunc es /\ Forall (fun v => (Z.abs (fst v) < two62 /\ Z.abs (snd v) < two62)%Z) zs.
Proof.
  induction es as [ | e r IH]; intros zs H; cbn in H.
  - inversion H. split; [reflexivity | constructor].
  - unfold to_clipper_pt in H.
    destruct (R_toZ (mul ROps (px (l0 e)) (precision ROps))) as [x | ] eqn:Ex; [ | discriminate].
    destruct (R_toZ (mul ROps (py (l0 e)) (precision ROps))) as [y | ] eqn:Ey; [ | discriminate].
    destruct (to_clipper_poly ROps R_toZ r) as [p | ] eqn:Er; [ | discriminate].
    inversion H; subst. destruct (IH _ eq_refl) as [-> HF].
    apply R_toZ_some in Ex, Ey. destruct Ex as [-> Hx], Ey as [-> Hy].
    rewrite precision_R in *. cbn [mul ROps] in *.
    split; [reflexivity | constructor; [cbn; split; assumption | exact HF]].
Qed.

(* the shape of [prepare]'s success *)
Lemma prepare_ok flatten2 self other sl1 sl2 st subj clp l :
  prepare ROps R_toZ flatten2 self other sl1 sl2 = (st, Ok (subj, clp, l)) ->
  exists p1 p2 f1 f2 l1,
    splitAtPoints ROps self sl1 = Ok p1 /\ splitAtPoints ROps other sl2 = Ok p2 /\
    st = mkStore self other p1 p2 /\
    flatten_fill ROps flatten2 p1 [] = Ok (f1, l1) /\ flatten_fill ROps flatten2 p2 l1 = Ok (f2, l) /\
    to_clipper_poly ROps R_toZ f1 = Some subj /\ to_clipper_poly ROps R_toZ f2 = Some clp.
Proof.
  unfold prepare. intros H.
  destruct (splitAtPoints ROps self sl1) as [p1 | e1]; [ | inversion H].
  destruct (splitAtPoints ROps other sl2) as [p2 | e2]; [ | inversion H].
  inversion H as [[Hst Hr]]. clear H.
  apply rbind_ok in Hr. destruct Hr as [[f1 l1] [H1 Hr]].
  apply rbind_ok in Hr. destruct Hr as [[f2 l2] [H2 Hr]]. cbn [fst snd] in *.
  destruct (to_clipper_poly ROps R_toZ f1) as [s | ] eqn:C1; [ | discriminate].
  destruct (to_clipper_poly ROps R_toZ f2) as [c | ] eqn:C2; [ | discriminate].
  inversion Hr; subst. exists p1, p2, f1, f2, l1. repeat split; auto.
Qed.

(* the integer polygons handed to Clipper are exactly the truncated, scaled START points of the flattened chains of
   the (pre-split) receiver -- the SUBJECT -- and of the (pre-split) argument -- the CLIP polygon *)
Theorem clip_inputs_are_flattened_outlines (flatten2 : flatten_t) self other sl1 sl2 st subj clp l :
  prepare ROps R_toZ flatten2 self other sl1 sl2 = (st, Ok (subj, clp, l)) ->
  exists p1 p2 f1 f2,
    splitAtPoints ROps self sl1 = Ok p1 /\ splitAtPoints ROps other sl2 = Ok p2 /\
    flat_edges flatten2 p1 = Some f1 /\ flat_edges flatten2 p2 = Some f2 /\
    subj = map start_scaled_trunc f1 /\ clp = map start_scaled_trunc f2.
Proof.
  intros H. destruct (prepare_ok _ _ _ _ _ _ _ _ _ H) as (p1 & p2 & f1 & f2 & l1 & S1 & S2 & _ & F1 & F2 & C1 & C2).
  exists p1, p2, f1, f2. repeat split; try assumption.
  - eapply flatten_fill_edges; eassumption.
  - eapply flatten_fill_edges; eassumption.
  - apply to_clipper_poly_spec in C1. tauto.
  - apply to_clipper_poly_spec in C2. tauto.
Qed.

(* roles and selectors: Clipper is called once, with the receiver's polygon as the only SUBJECT, the argument's as the
   only CLIP polygon, and the operation named by the selector *)
Theorem selectors_roles (clipper : clipper_t) (flatten2 : flatten_t) self other sl1 sl2 st subj clp l :
  prepare ROps R_toZ flatten2 self other sl1 sl2 = (st, Ok (subj, clp, l)) ->
  forall ct flat,
    clip ROps R_toZ clipper flatten2 self other sl1 sl2 ct flat =
      match clipper ct [subj] [clp] with None => Raise EClipper | Some polys => rebuild ROps flat l polys end.
Proof. intros H ct flat. unfold clip, clip_run. rewrite H. reflexivity. Qed.
Theorem selectors_ops (clipper : clipper_t) (flatten2 : flatten_t) self other sl1 sl2 flat :
  union_ ROps R_toZ clipper flatten2 self other sl1 sl2 flat = clip ROps R_toZ clipper flatten2 self other sl1 sl2 CT_UNION flat /\
  intersection_ ROps R_toZ clipper flatten2 self other sl1 sl2 flat = clip ROps R_toZ clipper flatten2 self other sl1 sl2 CT_INTERSECTION flat /\
  difference_ ROps R_toZ clipper flatten2 self other sl1 sl2 flat = clip ROps R_toZ clipper flatten2 self other sl1 sl2 CT_DIFFERENCE flat.
Proof. repeat split. Qed.
(* if preparation raises, so does clip, with the same exception, whatever Clipper is *)
Lemma clip_prepare_raise (clipper : clipper_t) (flatten2 : flatten_t) self other sl1 sl2 st e ct flat :
  prepare ROps R_toZ flatten2 self other sl1 sl2 = (st, Raise e) ->
  clip ROps R_toZ clipper flatten2 self other sl1 sl2 ct flat = Raise e.
Proof. intros H. unfold clip, clip_run. rewrite H. reflexivity. Qed.

(* ------------------------------------------------------------------ 2. polygon mode: the result paths *)
(* the straight edges of a polygon's path: edge i from vertex i to vertex i+1 (cyclically), in user units *)
Definition poly_edges (p : zpoly) : list (seg2 R) :=
  map (fun ab => L2 (unscale (zR (fst ab))) (unscale (zR (snd ab)))) (closed_pairs p).
Definition poly_path (p : zpoly) : list (segment R) * bool := (map SLine (poly_edges p), true).

Lemma fallback_line_R a b : fallback_line ROps a b = SLine (L2 (unscale (zR a)) (unscale (zR b))).
Proof. unfold fallback_line. rewrite !truediv_precision. reflexivity. Qed.

Lemma rebuild_fold_flat l pairs : forall acc,
  fold_left (rebuild_step ROps true l) pairs acc =
  rev (map (fun ab => fallback_line ROps (fst ab) (snd ab)) pairs) ++ acc.
Proof.
  induction pairs as [ | ab r IH]; intros acc; cbn [fold_left map rev].
  - reflexivity.
  - rewrite IH. unfold rebuild_step. rewrite <- app_assoc. reflexivity.
Qed.

(* What Clipper's polygons must satisfy for the closing-duplicate removal (d254ad7) to leave a polygon-mode path alone:
   coordinates below 10^9 in magnitude (the property's range is 5000 * 100) and a first vertex that differs from the
   second.  Clipper's output polygons have no repeated consecutive vertices; this is a premise, like clipper_spec. *)
Definition small (v : zpt) : Prop := (Z.abs (fst v) < 10 ^ 9 /\ Z.abs (snd v) < 10 ^ 9)%Z.
Definition clipper_poly_ok (p : zpoly) : Prop :=
  p <> [] /\ Forall small p /\ match p with v0 :: v1 :: _ => v0 <> v1 | _ => True end.

Lemma IZR_apart a b : a <> b -> 1 <= Rabs (IZR a - IZR b).
Proof.
  intros H. rewrite <- minus_IZR, <- abs_IZR. apply IZR_le. lia.
Qed.
Lemma IZR_small a : (Z.abs a < 10 ^ 9)%Z -> Rabs (IZR a) < 1000000000.
Proof. intros H. rewrite <- abs_IZR. apply IZR_lt in H. exact H. Qed.

(* Point.__eq__ (isclose at 1e-9 relative) separates distinct small grid points, scaled by 1/100 or not *)
Lemma isclose_apart x y : Rabs x < 1000000000 -> Rabs y < 1000000000 -> 1 <= Rabs (x - y) ->
  leb ROps (abs_ ROps (sub ROps (x / 100) (y / 100)))
      (max2 ROps (mul ROps (lit ROps 1 1000000000 0x1.12e0be826d695p-30%float) (max2 ROps (abs_ ROps (x / 100)) (abs_ ROps (y / 100))))
                 (lit ROps 0 1 0x0.0p+0%float)) = false.
Proof.
  intros Hx Hy Hd. apply Rleb_false. unfold max2. cbn [ltb abs_ sub mul lit ROps].
  assert (E : x / 100 - y / 100 = (x - y) / 100) by lra. rewrite E.
  assert (Hs : forall z, Rabs (z / 100) = Rabs z / 100).
  { intros z. unfold Rdiv. rewrite Rabs_mult, (Rabs_pos_eq (/ 100)) by lra. reflexivity. }
  rewrite !Hs.
  destruct (Rlt_dec (Rabs x / 100) (Rabs y / 100)); destruct (Rlt_dec _ _); lra.
Qed.
Lemma point_eq_apart (a b : zpt) : small a -> small b -> a <> b ->
  Point___eq__ ROps (unscale (zR a)) (unscale (zR b)) = false.
Proof.
  intros [Hax Hay] [Hbx Hby] Hne. destruct a as [ax ay], b as [bx by_]. cbn [fst snd] in *.
  unfold Point___eq__, unscale, zR. cbn [px py fst snd].
  destruct (Z.eq_dec ax bx) as [Ex | Ex].
  - assert (Ey : ay <> by_) by (intros ->; apply Hne; now rewrite Ex).
    rewrite (isclose_apart (IZR ay) (IZR by_)) by (auto using IZR_small, IZR_apart). apply andb_false_r.
  - rewrite (isclose_apart (IZR ax) (IZR bx)) by (auto using IZR_small, IZR_apart). reflexivity.
Qed.

Lemma last_map {A B} (f : A -> B) l d : last (map f l) (f d) = f (last l d).
Proof. induction l as [ | a [ | b r] IH]; cbn in *; auto. Qed.
Lemma last_combine {A} : forall (r : list A) (a z d1 d2 : A),
  last (combine (a :: r) (r ++ [z])) (d1, d2) = (last (a :: r) d1, z).
Proof.
  induction r as [ | b r IH]; intros a z d1 d2; [reflexivity | ].
  change (combine (a :: b :: r) ((b :: r) ++ [z])) with ((a, b) :: combine (b :: r) (r ++ [z])).
  change (last (a :: b :: r) d1) with (last (b :: r) d1).
  rewrite <- (IH b z d1 d2). destruct r; reflexivity.
Qed.

(* in polygon mode nothing is removed: the last edge ends at v0, the first edge ends at v1 <> v0 *)
Lemma pop_flat_noop p : clipper_poly_ok p ->
  pop_closing_duplicate ROps (map (fun ab => fallback_line ROps (fst ab) (snd ab)) (closed_pairs p)) =
  map (fun ab => fallback_line ROps (fst ab) (snd ab)) (closed_pairs p).
Proof.
  intros (Hne & Hsm & H01). destruct p as [ | v0 [ | v1 r]]; [contradiction | reflexivity | ].
  set (f := fun ab : zpt * zpt => fallback_line ROps (fst ab) (snd ab)).
  unfold pop_closing_duplicate.
  change (closed_pairs (v0 :: v1 :: r)) with ((v0, v1) :: combine (v1 :: r) (r ++ [v0])).
  cbn [map]. destruct (map f (combine (v1 :: r) (r ++ [v0]))) as [ | e es] eqn:Em.
  - reflexivity.
  - rewrite <- Em.
    change (f (v0, v1) :: map f (combine (v1 :: r) (r ++ [v0]))) with (map f ((v0, v1) :: combine (v1 :: r) (r ++ [v0]))).
    rewrite last_map.
    change ((v0, v1) :: combine (v1 :: r) (r ++ [v0])) with (combine (v0 :: v1 :: r) ((v1 :: r) ++ [v0])).
    rewrite last_combine. unfold f. cbn [fst snd]. rewrite !fallback_line_R.
    unfold seg_eq. cbn [seg_pts pts_eq l0 l1].
    inversion Hsm as [ | ? ? H0 Hsm']; subst. inversion Hsm' as [ | ? ? H1 _]; subst.
    rewrite (point_eq_apart v0 v1 H0 H1 H01). rewrite andb_false_r. reflexivity.
Qed.

Lemma rebuild_poly_flat l p : clipper_poly_ok p -> rebuild_poly ROps true l p = Ok (poly_path p).
Proof.
  intros Hok. pose proof Hok as (Hp & _ & _). unfold rebuild_poly. destruct p as [ | v0 r]; [contradiction | ].
  rewrite rebuild_fold_flat, app_nil_r, rev_involutive, (pop_flat_noop _ Hok).
  unfold poly_path, poly_edges. rewrite map_map. f_equal. f_equal.
  apply map_ext. intros ab. apply fallback_line_R.
Qed.

Lemma rebuild_flat_ok l polys : Forall clipper_poly_ok polys -> forall paths,
  rebuild ROps true l polys = Ok paths -> paths = map poly_path polys.
Proof.
  induction 1 as [ | p r Hp HF IH]; intros paths H; cbn in H.
  - inversion H. reflexivity.
  - apply rbind_ok in H. destruct H as [x [Hx H]]. apply rbind_ok in H. destruct H as [xs [Hxs H]].
    inversion H; subst. rewrite (IH _ Hxs).
    rewrite (rebuild_poly_flat l p Hp) in Hx. inversion Hx; subst. reflexivity.
Qed.
Lemma rebuild_flat_nonempty l polys :
  Forall clipper_poly_ok polys -> rebuild ROps true l polys = Ok (map poly_path polys).
Proof.
  induction 1 as [ | p r Hp HF IH]; cbn [rebuild map].
  - reflexivity.
  - rewrite (rebuild_poly_flat l p Hp). cbn. rewrite IH. reflexivity.
Qed.
(* without that premise the faithful model does drop an edge: a degenerate "polygon" of three equal vertices comes
   back with two edges (Clipper never returns such a polygon) *)
Example pop_degenerate_polygon l :
  rebuild_poly ROps true l [(0, 0); (0, 0); (0, 0)]%Z = Ok (removelast (map SLine (poly_edges [(0, 0); (0, 0); (0, 0)]%Z)), true).
Proof.
  unfold rebuild_poly. rewrite rebuild_fold_flat, app_nil_r, rev_involutive.
  cbn [closed_pairs app combine map fst snd]. rewrite !fallback_line_R.
  unfold pop_closing_duplicate. cbn [last]. unfold seg_eq. cbn [seg_pts pts_eq l0 l1].
  assert (E : Point___eq__ ROps (unscale (zR (0%Z, 0%Z))) (unscale (zR (0%Z, 0%Z))) = true).
  { unfold Point___eq__, unscale, zR, max2. cbn [px py fst snd ltb leb abs_ sub mul lit ROps].
    apply andb_true_iff. split; destruct (Rlt_dec _ _); destruct (Rlt_dec _ _); destruct (Rle_dec _ _); try reflexivity;
      exfalso; rewrite ?Rminus_diag_eq, ?Rabs_R0 in * by reflexivity; try lra;
      unfold Rdiv in *; rewrite ?Rmult_0_l, ?Rabs_R0 in *; lra. }
  rewrite E. reflexivity.
Qed.
(* an empty polygon in Clipper's answer is Python's IndexError on p[0] *)
Lemma rebuild_empty_polygon_raises flat l r : rebuild ROps flat l ([] :: r) = Raise EIndex.
Proof. reflexivity. Qed.

Lemma closed_pairs_length p : length (closed_pairs p) = length p.
Proof.
  destruct p as [ | v0 r]; [reflexivity | ]. unfold closed_pairs.
  rewrite combine_length, app_length. cbn [length]. rewrite Nat.add_1_r, Nat.min_id. reflexivity.
Qed.
Lemma poly_edges_length p : length (poly_edges p) = length p.
Proof. unfold poly_edges. rewrite map_length. apply closed_pairs_length. Qed.

Lemma closed_pairs_nth p d i : (i < length p)%nat ->
  nth i (closed_pairs p) (d, d) = (nth i p d, nth (S i mod length p) p d).
Proof.
  intros Hi. destruct p as [ | v0 r]; [cbn in Hi; lia | ].
  unfold closed_pairs. rewrite combine_nth by (rewrite app_length; cbn; lia).
  f_equal. cbn [length] in *.
  destruct (Nat.eq_dec (S i) (S (length r))) as [E | E].
  - rewrite E, Nat.mod_same by lia. inversion E; subst.
    rewrite app_nth2 by lia. rewrite Nat.sub_diag. reflexivity.
  - rewrite Nat.mod_small by lia. rewrite app_nth1 by lia. reflexivity.
Qed.

(* edge i of the path of an n-vertex polygon runs from vertex i to vertex (i+1) mod n, scaled by 1/100: ALL n edges,
   the closing one (i = n-1) included *)
Lemma poly_edges_nth p d i : (i < length p)%nat ->
  nth i (poly_edges p) (L2 (unscale (zR d)) (unscale (zR d))) =
  L2 (unscale (zR (nth i p d))) (unscale (zR (nth (S i mod length p) p d))).
Proof.
  intros Hi. unfold poly_edges.
  change (L2 (unscale (zR d)) (unscale (zR d))) with ((fun ab : zpt * zpt => L2 (unscale (zR (fst ab))) (unscale (zR (snd ab)))) (d, d)).
  rewrite map_nth, closed_pairs_nth by assumption. reflexivity.
Qed.

(* consecutive edges meet exactly and the last edge returns exactly to the first start *)
Lemma chain_from_pairs (f : zpt -> pt R) : forall (r : list zpt) (v last : zpt),
  chain_from (f v) (map (fun ab => L2 (f (fst ab)) (f (snd ab))) (combine (v :: r) (r ++ [last]))) (f last).
Proof.
  induction r as [ | w r IH]; intros v last; cbn.
  - split; reflexivity.
  - split; [reflexivity | ]. apply IH.
Qed.
Lemma poly_edges_closed p : closed_chain (poly_edges p).
Proof.
  destruct p as [ | v0 r]; [exact I | ].
  unfold poly_edges, closed_pairs.
  pose proof (chain_from_pairs (fun v => unscale (zR v)) r v0 v0) as H.
  destruct r as [ | w r]; cbn in *.
  - reflexivity.
  - destruct H as [_ H]. exact H.
Qed.

(* in polygon mode the call succeeds and every result path is the closed chain of exactly the n edges of its polygon *)
Theorem result_paths_closed_connected_complete (clipper : clipper_t) (flatten2 : flatten_t) self other sl1 sl2 ct st subj clp l polys :
  prepare ROps R_toZ flatten2 self other sl1 sl2 = (st, Ok (subj, clp, l)) ->
  clipper ct [subj] [clp] = Some polys ->
  Forall clipper_poly_ok polys ->
  clip ROps R_toZ clipper flatten2 self other sl1 sl2 ct true = Ok (map poly_path polys) /\
  Forall (fun p => snd (poly_path p) = true /\ fst (poly_path p) = map SLine (poly_edges p) /\
                   length (poly_edges p) = length p /\ closed_chain (poly_edges p) /\
                   forall d i, (i < length p)%nat ->
                     nth i (poly_edges p) (L2 (unscale (zR d)) (unscale (zR d))) =
                     L2 (unscale (zR (nth i p d))) (unscale (zR (nth (S i mod length p) p d)))) polys.
Proof.
  intros Hp Hc Hok. split.
  - rewrite (selectors_roles clipper _ _ _ _ _ _ _ _ _ Hp), Hc. apply rebuild_flat_nonempty, Hok.
  - apply Forall_forall. intros p _. split; [reflexivity | split; [reflexivity | ]].
    split; [apply poly_edges_length | split; [apply poly_edges_closed | ]].
    intros d i Hi. apply poly_edges_nth; assumption.
Qed.

(* ------------------------------------------------------------------ 3. region semantics *)
(* even-odd membership by the half-open crossing rule (the leftward... rightward ray from q): an edge a->b counts when
   exactly one of its ends is strictly above q and q is strictly left of the edge at q's height *)
Definition Rltb (x y : R) : bool := if Rlt_dec x y then true else false.
Definition crossesb (a b q : pt R) : bool :=
  if Bool.eqb (Rltb (py q) (py a)) (Rltb (py q) (py b)) then false
  else Rltb (px q) (px a + (py q - py a) * (px b - px a) / (py b - py a)).
Definition edge := (pt R * pt R)%type.
Definition eo_edges (es : list edge) (q : pt R) : bool :=
  fold_right (fun e acc => xorb (crossesb (fst e) (snd e) q) acc) false es.
(* the edges of a closed polygon given by its vertices *)
Definition cyc (vs : list (pt R)) : list edge := match vs with [] => [] | v0 :: r => combine vs (r ++ [v0]) end.
Definition eo_poly (vs : list (pt R)) (q : pt R) : bool := eo_edges (cyc vs) q.
Definition eo_polys (ps : list (list (pt R))) (q : pt R) : bool := fold_right (fun p acc => xorb (eo_poly p q) acc) false ps.
(* the combined even-odd interior of a list of paths (their segments' chords; in polygon mode the segments ARE lines) *)
Definition path_edge_list (segs : list (segment R)) : list edge := map (fun s => (seg_start s, seg_end s)) segs.
Definition eo_paths (paths : list (list (segment R) * bool)) (q : pt R) : bool :=
  fold_right (fun p acc => xorb (eo_edges (path_edge_list (fst p)) q) acc) false paths.

(* q is farther than delta from every point of every edge *)
Definition far (delta : R) (q : pt R) (es : list edge) : Prop :=
  forall a b, In (a, b) es -> forall u, 0 <= u <= 1 ->
    delta * delta < (px q - (px a + u * (px b - px a))) * (px q - (px a + u * (px b - px a)))
                  + (py q - (py a + u * (py b - py a))) * (py q - (py a + u * (py b - py a))).
Definition bop (ct : cliptype) (a b : bool) : bool :=
  match ct with CT_INTERSECTION => a && b | CT_UNION => a || b | CT_DIFFERENCE => a && negb b | CT_XOR => xorb a b end.
(* Clipper's documented semantics with the even-odd fill rule for both operands, for ONE call: away from the input
   edges (Clipper rounds its own intersection vertices to the integer grid, hence [delta]) the even-odd interior of the
   returned polygons is the Boolean combination of the even-odd interiors of subject and clip polygon *)
Definition clipper_spec (delta : R) (ct : cliptype) (subj clp : zpoly) (polys : list zpoly) : Prop :=
  forall q, far delta q (cyc (map zR subj) ++ cyc (map zR clp)) ->
    eo_polys (map (map zR) polys) q = bop ct (eo_poly (map zR subj) q) (eo_poly (map zR clp) q).

Lemma Rltb_scale x y : Rltb (x / 100) (y / 100) = Rltb x y.
Proof. unfold Rltb. destruct (Rlt_dec (x / 100) (y / 100)), (Rlt_dec x y); try reflexivity; exfalso; lra. Qed.

Lemma crossesb_scale a b q : crossesb (unscale a) (unscale b) (unscale q) = crossesb a b q.
Proof.
  unfold crossesb, unscale. cbn [px py]. rewrite !Rltb_scale.
  destruct (Bool.eqb (Rltb (py q) (py a)) (Rltb (py q) (py b))) eqn:E; [reflexivity | ].
  assert (Hne : py b - py a <> 0).
  { intros H0. assert (py b = py a) by lra. rewrite H in E. rewrite eqb_reflx in E. discriminate. }
  replace (px a / 100 + (py q / 100 - py a / 100) * (px b / 100 - px a / 100) / (py b / 100 - py a / 100))
    with ((px a + (py q - py a) * (px b - px a) / (py b - py a)) / 100) by (field; lra).
  apply Rltb_scale.
Qed.

Lemma cyc_map {A B} (f : A -> B) (g : A * A -> B * B) (Hg : forall a b, g (a, b) = (f a, f b)) :
  forall (r : list A) (v last : A), map g (combine (v :: r) (r ++ [last])) = combine (f v :: map f r) (map f r ++ [f last]).
Proof.
  induction r as [ | w r IH]; intros v last; cbn.
  - rewrite Hg. reflexivity.
  - rewrite Hg. f_equal. apply IH.
Qed.

(* the chords of a polygon's path are the polygon's edges scaled by 1/100 *)
Lemma path_edges_poly p :
  path_edge_list (fst (poly_path p)) = map (fun e => (unscale (fst e), unscale (snd e))) (cyc (map zR p)).
Proof.
  unfold poly_path, poly_edges, path_edge_list. cbn [fst]. rewrite !map_map.
  destruct p as [ | v0 r]; [reflexivity | ]. cbn [closed_pairs map cyc].
  rewrite <- (cyc_map zR (fun ab => (zR (fst ab), zR (snd ab))) (fun a b => eq_refl) r v0 v0).
  rewrite map_map. apply map_ext. intros [a b]. reflexivity.
Qed.

Lemma eo_edges_scale es q :
  eo_edges (map (fun e => (unscale (fst e), unscale (snd e))) es) (unscale q) = eo_edges es q.
Proof.
  unfold eo_edges. induction es as [ | e r IH]; cbn [map fold_right fst snd]; [reflexivity | ]. rewrite IH, crossesb_scale. reflexivity.
Qed.

Lemma eo_paths_polys polys q : eo_paths (map poly_path polys) (unscale q) = eo_polys (map (map zR) polys) q.
Proof.
  unfold eo_paths, eo_polys. induction polys as [ | p r IH]; cbn [map fold_right]; [reflexivity | ].
  rewrite IH. f_equal. rewrite path_edges_poly. apply eo_edges_scale.
Qed.

(* Under the Clipper hypothesis for the call made: at every point q (in 1/100 units) farther than delta from the two
   integer polygons handed to Clipper, the combined even-odd interior of the RESULT PATHS (at q/100, user units) is the
   Boolean combination, named by the selector, of the even-odd interiors of the truncated scaled flattened chains of
   the receiver (subject) and of the argument (clip). *)
Theorem region_semantics (clipper : clipper_t) (flatten2 : flatten_t) delta self other sl1 sl2 ct st subj clp l polys :
  prepare ROps R_toZ flatten2 self other sl1 sl2 = (st, Ok (subj, clp, l)) ->
  clipper ct [subj] [clp] = Some polys ->
  Forall clipper_poly_ok polys ->
  clipper_spec delta ct subj clp polys ->
  exists paths, clip ROps R_toZ clipper flatten2 self other sl1 sl2 ct true = Ok paths /\
  forall q, far delta q (cyc (map zR subj) ++ cyc (map zR clp)) ->
    eo_paths paths (Point___truediv__ ROps q (precision ROps)) = bop ct (eo_poly (map zR subj) q) (eo_poly (map zR clp) q).
Proof.
  intros Hp Hc Hok Hspec. exists (map poly_path polys). split.
  - rewrite (selectors_roles clipper _ _ _ _ _ _ _ _ _ Hp), Hc. apply rebuild_flat_nonempty, Hok.
  - intros q Hfar. rewrite truediv_precision, eo_paths_polys. apply Hspec, Hfar.
Qed.
(* the same, for a Clipper that meets its specification on every call *)
Corollary region_semantics_all (clipper : clipper_t) (flatten2 : flatten_t) delta :
  (forall ct s c polys, clipper ct [s] [c] = Some polys -> Forall clipper_poly_ok polys /\ clipper_spec delta ct s c polys) ->
  forall self other sl1 sl2 ct st subj clp l paths,
  prepare ROps R_toZ flatten2 self other sl1 sl2 = (st, Ok (subj, clp, l)) ->
  clip ROps R_toZ clipper flatten2 self other sl1 sl2 ct true = Ok paths ->
  forall q, far delta q (cyc (map zR subj) ++ cyc (map zR clp)) ->
    eo_paths paths (Point___truediv__ ROps q (precision ROps)) = bop ct (eo_poly (map zR subj) q) (eo_poly (map zR clp) q).
Proof.
  intros Hall self other sl1 sl2 ct st subj clp l paths Hp Hclip q Hfar.
  pose proof Hclip as Hclip'.
  rewrite (selectors_roles clipper _ _ _ _ _ _ _ _ _ Hp) in Hclip'.
  destruct (clipper ct [subj] [clp]) as [polys | ] eqn:Hc; [ | discriminate].
  destruct (Hall _ _ _ _ Hc) as [Hok Hspec].
  destruct (region_semantics clipper flatten2 delta _ _ _ _ _ _ _ _ _ _ Hp Hc Hok Hspec) as (paths' & Hclip2 & Hq).
  rewrite Hclip in Hclip2. inversion Hclip2; subst. apply Hq, Hfar.
Qed.

(* ------------------------------------------------------------------ 4. the inputs *)
(* the path variables after the call: [self] and [other] hold the values they held before; only the two clones are
   rebound (by splitAtPoints).  Object level: clone() copies every Segment and every Point (C07), so nothing reachable
   from the inputs is written; that part is measured, not proved here. *)
Theorem inputs_unmodified (clipper : clipper_t) (flatten2 : flatten_t) self other sl1 sl2 ct flat :
  let st := fst (clip_run ROps R_toZ clipper flatten2 self other sl1 sl2 ct flat) in
  st_self st = self /\ st_other st = other /\
  (st_cloned st = self \/ splitAtPoints ROps self sl1 = Ok (st_cloned st)) /\
  (st_clipclone st = other \/ splitAtPoints ROps other sl2 = Ok (st_clipclone st)).
Proof.
  unfold clip_run, prepare.
  destruct (splitAtPoints ROps self sl1) as [p1 | e1]; [ | cbn; tauto].
  destruct (splitAtPoints ROps other sl2) as [p2 | e2]; cbn; tauto.
Qed.

(* ------------------------------------------------------------------ 5. non-vacuity *)
(* the Clipper hypothesis is satisfiable: a shape clipped against itself (intersection or union) is itself *)
Example clipper_spec_self delta s : clipper_spec delta CT_INTERSECTION s s [s] /\ clipper_spec delta CT_UNION s s [s].
Proof.
  split; intros q _; unfold eo_polys; cbn [map fold_right bop]; rewrite xorb_false_r.
  - now rewrite andb_diag.
  - now rewrite orb_diag.
Qed.
(* and so is XOR by mere concatenation of the two polygon lists (even-odd parity adds up) *)
Example clipper_spec_xor delta s c : clipper_spec delta CT_XOR s c [s; c].
Proof. intros q _. unfold eo_polys. cbn [map fold_right bop]. now rewrite xorb_false_r. Qed.

Lemma R_truncZ_IZR z : R_truncZ (IZR z) = z.
Proof.
  assert (Hup : forall k, up (IZR k) = (k + 1)%Z).
  { intros k. symmetry. apply tech_up; rewrite plus_IZR; lra. }
  unfold R_truncZ. destruct (Rle_dec 0 (IZR z)).
  - unfold Int_part. rewrite Hup. lia.
  - unfold Int_part. rewrite <- opp_IZR, Hup. lia.
Qed.
Lemma R_toZ_IZR z : (Z.abs z < two62)%Z -> R_toZ (IZR z) = Some z.
Proof. intros H. unfold R_toZ. rewrite R_truncZ_IZR. apply Z.ltb_lt in H. now rewrite H. Qed.

(* a complete run of the model at the real instance: the square (0,0)-(1,1) intersected with itself, Clipper answering
   with the subject polygon.  All premises of [region_semantics] hold together, and the result is the closed chain of
   the four edges (0,0)-(1,0)-(1,1)-(0,1)-(0,0). *)
Definition ex_square : list (segment R) :=
  [SLine (L2 (P 0 0) (P 1 0)); SLine (L2 (P 1 0) (P 1 1)); SLine (L2 (P 1 1) (P 0 1)); SLine (L2 (P 0 1) (P 0 0))].
Definition ex_clipper (ct : cliptype) (s c : list zpoly) : option (list zpoly) := Some s.
Definition ex_poly : zpoly := [(0, 0); (100, 0); (100, 100); (0, 100)]%Z.
Example ex_prepare : exists st l,
  prepare ROps R_toZ (fun _ => None) ex_square ex_square [] [] = (st, Ok (ex_poly, ex_poly, l)).
Proof.
  unfold prepare, ex_square.
  cbn [splitAtPoints fold_left map split_segs cluster_find rbind flatten_fill flats_of app fst snd to_clipper_poly to_clipper_pt l0 l1 px py].
  unfold to_clipper_pt. cbn [l0 l1 px py]. rewrite precision_R. cbn [mul ROps].
  replace (0 * 100) with (IZR 0) by lra. replace (1 * 100) with (IZR 100) by lra.
  rewrite !R_toZ_IZR by (cbv; reflexivity).
  eexists. eexists. reflexivity.
Qed.
Example ex_clip :
  clip ROps R_toZ ex_clipper (fun _ => None) ex_square ex_square [] [] CT_INTERSECTION true = Ok [poly_path ex_poly] /\
  Forall clipper_poly_ok [ex_poly] /\
  clipper_spec 0 CT_INTERSECTION ex_poly ex_poly [ex_poly].
Proof.
  destruct ex_prepare as (st & l & Hp).
  assert (Hok : Forall clipper_poly_ok [ex_poly]).
  { constructor; [ | constructor]. split; [discriminate | split; [ | discriminate]]. repeat constructor; cbn; lia. }
  split; [ | split; [exact Hok | apply clipper_spec_self]].
  rewrite (selectors_roles ex_clipper _ _ _ _ _ _ _ _ _ Hp). unfold ex_clipper.
  apply (rebuild_flat_nonempty l [ex_poly]), Hok.
Qed.
(* [far] is satisfiable: the centre of the square is farther than 40 (hundredths) from its outline *)
Example ex_far : far 40 (P 50 50) (cyc (map zR ex_poly) ++ cyc (map zR ex_poly)).
Proof.
  intros a b Hin u Hu. cbn in Hin.
  repeat (destruct Hin as [Hin | Hin]; [inversion Hin; subst; unfold zR; cbn [px py fst snd]; nra | ]). destruct Hin.
Qed.
