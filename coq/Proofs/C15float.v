(* C04 / C15, floating-point clauses for LINES (binary64 instance FOps of the generated text), proved with Flocq
   through Base/FloatErr.v.  Nothing here is generated; the generated definitions are only unfolded.

   1. [line_length_float_close] (C04, "a line's length is its Euclidean length"):
        finite end points, |coordinate| <= M <= 2^500:
        Line_length FOps l is finite and within  (3 + 1/32) u L + 2^-535  of the true length L  (u = 2^-53).
      The absolute term is of the true order: squares of differences below 2^-537 underflow to 0.
      [line_length_float_close_rel]:  L >= 2^-400  gives the purely relative  4 u L;
      [line_length_float_close_M]:    <= 10 u M + 2^-535  (L <= 3 M).

   2. [line_tOfPoint_float_close] (C15, "asking for the parameter of the point at t returns a parameter whose point
      coincides with the query point"):  finite end points, |coordinate| <= M, 1 <= M <= 2^25, larger extent
      E = max(|dx|,|dy|) >= 1/2, t finite in [0,1];  q := Line_pointAtTime FOps l t,  tau := Line_tOfPoint FOps l q false:
        (a) the 2e-7 re-check passes [line_recheck ... = true]: tau is the result of the unchecked ("I swear") variant,
            and that is the correctly rounded quotient in a coordinate whose extent is >= (1 - 2u) E  [solved_in];
            tau is finite and -2^-23 <= FR tau <= 1 + 2^-23, so it is not the sentinel -1  [line_tOfPoint_float_range];
        (b) |FR tau - FR t| <= 14 u M / E;
        (c) both coordinates of the point at tau are within 30 u M of those of q  (30 u = 3.4e-15;
            [line_tOfPoint_float_1e9]: within 1e-9 M, the clause of the property).
      [line_tOfPoint_sworn_float_close]: the unchecked variant alone satisfies (b), (c) and [solved_in] for M <= 2^26.
      Membership of tau in [0,1] is NOT claimed: it is false, also inside these hypotheses (section 3:
      [line_tOfPoint_float_leaves_unit_interval]; the recorded witness of Proofs/C15.v is recalled there too).
      The cap M <= 2^25 comes from the re-check alone ([recheck_tau]): the proof bounds each coordinate difference
      between the re-evaluated point and q by 30 u M, hence the computed distance by about sqrt 2 * 30 u M, which
      must stay below the ABSOLUTE threshold 2e-7 (30 sqrt 2 * 2^-28 = 1.58e-7; at M = 2^26 the bound would be 3.2e-7).
      The cap M <= 2^26 of the unchecked variant is a convenience (the isclose branch tests only need
      1e-9 * M to stay well below E, roughly M < 2.5e8 for E >= 1/2).
      The proof never decides what the float isclose / |dy| <= |dx| tests return: it shows that whichever branch they
      select is sound ([line_solve_selects]: a positive isclose answer forces an extent <= 1/4 < E). *)
From Coq Require Import ZArith Reals Lra Lia List QArith Qreals Bool Psatz.
From Flocq Require Import Core BinarySingleNaN.
From Flocq Require PrimFloat.
From Coq Require Import Floats.
From BZ Require Import Base.Ops Base.FloatErr Proofs.FloatProd Gen.Utils Gen.Point Gen.Line Proofs.C01float.
From BZ Require Proofs.C15.
Open Scope R_scope.
(* [sqrt] is the real square root here; the float one is written PrimFloat.sqrt *)
Local Notation sqrt := R_sqrt.sqrt.

(* ------------------------------------------------------------------------------------------- *)
(* 0. small additions to the rounding library                                                   *)
(* ------------------------------------------------------------------------------------------- *)
Lemma rnd_0 : rnd 0 = 0.
Proof. unfold rnd. apply round_0. auto with typeclass_instances. Qed.
Lemma rnd_le x y : x <= y -> rnd x <= rnd y.
Proof. intros H. unfold rnd. apply round_le; auto with typeclass_instances. Qed.
Lemma rnd_nonneg r : 0 <= r -> 0 <= rnd r.
Proof. intros H. rewrite <- rnd_0. now apply rnd_le. Qed.

(* sqrt of a finite float with non-negative value (this includes -0.0) is finite *)
Lemma Fsqrt_finite0 x : ffinite x -> 0 <= FR x -> ffinite (PrimFloat.sqrt x).
Proof.
  unfold ffinite, FR. intros Fx Hpos. rewrite FP.sqrt_equiv.
  rewrite (proj1 (proj2 (Bsqrt_correct prec emax FP.Hprec FP.Hmax mode_NE (FP.Prim2B x)))).
  destruct (FP.Prim2B x) as [s|s| |s m e Hb]; try discriminate; [reflexivity|].
  destruct s; [|reflexivity]. exfalso. simpl in Hpos.
  apply (Rlt_irrefl 0). apply Rle_lt_trans with (1 := Hpos). apply F2R_lt_0. reflexivity.
Qed.

(* one subtraction: finite, purely relative error *)
Lemma Fsub_rel x y : ffinite x -> ffinite y -> Rabs (FR x - FR y) <= fmax ->
  ffinite (x - y)%float /\ Rabs (FR (x - y)%float - (FR x - FR y)) <= u * Rabs (FR x - FR y).
Proof.
  intros Fx Fy H. split; [exact (proj1 (Fsub_correct x y Fx Fy H)) | exact (Fsub_error_rel x y Fx Fy H)].
Qed.
Lemma Fadd_rel x y : ffinite x -> ffinite y -> Rabs (FR x + FR y) <= fmax ->
  ffinite (x + y)%float /\ Rabs (FR (x + y)%float - (FR x + FR y)) <= u * Rabs (FR x + FR y).
Proof.
  intros Fx Fy H. split; [exact (proj1 (Fadd_correct x y Fx Fy H)) | exact (Fadd_error_rel x y Fx Fy H)].
Qed.
(* one multiplication: finite, two-term error, and the sign of a square *)
Lemma Fmul_err x y : ffinite x -> ffinite y -> Rabs (FR x * FR y) <= fmax ->
  ffinite (x * y)%float /\ Rabs (FR (x * y)%float - FR x * FR y) <= u * Rabs (FR x * FR y) + eta.
Proof.
  intros Fx Fy H. destruct (Fmul_correct x y Fx Fy H) as (F & V). split; [exact F|]. rewrite V. apply rnd_error.
Qed.
Lemma Fsquare_nonneg x : ffinite x -> Rabs (FR x * FR x) <= fmax -> 0 <= FR (x * x)%float.
Proof.
  intros Fx H. destruct (Fmul_correct x x Fx Fx H) as (_ & V). rewrite V. apply rnd_nonneg.
  apply Rle_0_sqr.
Qed.

(* elementary real facts *)
Lemma Rabs_le_both x y e : Rabs (x - y) <= e -> y - e <= x <= y + e.
Proof. intros H. apply Rabs_le_inv in H. lra. Qed.
Lemma sq_abs_le a c : Rabs a <= c -> a * a <= c * c.
Proof.
  intros H. assert (H0 := Rabs_pos a).
  replace (a * a) with (Rabs a * Rabs a).
  - apply Rmult_le_compat; assumption.
  - unfold Rabs. destruct (Rcase_abs a); ring.
Qed.
(* a relative perturbation of a, squared *)
Lemma sq_rel a A v : 0 <= v <= 1 -> Rabs (A - a) <= v * Rabs a ->
  a * a * ((1 - v) * (1 - v)) <= A * A <= a * a * ((1 + v) * (1 + v)).
Proof.
  intros Hv H.
  assert (E1 : A * A = Rabs A * Rabs A) by (unfold Rabs; destruct (Rcase_abs A); ring).
  assert (E2 : a * a = Rabs a * Rabs a) by (unfold Rabs; destruct (Rcase_abs a); ring).
  assert (Ha := Rabs_pos a). assert (HA := Rabs_pos A).
  assert (L : Rabs a * (1 - v) <= Rabs A <= Rabs a * (1 + v)).
  { assert (T1 := Rabs_triang_inv a A). assert (T2 := Rabs_triang_inv A a).
    rewrite (Rabs_minus_sym a A) in T1. lra. }
  rewrite E1, E2. set (x := Rabs a) in *. set (y := Rabs A) in *. clearbody x y.
  assert (0 <= x * (1 - v)) by (apply Rmult_le_pos; lra).
  split.
  - replace (x * x * ((1 - v) * (1 - v))) with ((x * (1 - v)) * (x * (1 - v))) by ring.
    apply Rmult_le_compat; lra.
  - replace (x * x * ((1 + v) * (1 + v))) with ((x * (1 + v)) * (x * (1 + v))) by ring.
    apply Rmult_le_compat; lra.
Qed.
Lemma sqrt_add_le x y : 0 <= x -> 0 <= y -> sqrt (x + y) <= sqrt x + sqrt y.
Proof.
  intros Hx Hy. assert (Sx := sqrt_pos x). assert (Sy := sqrt_pos y).
  apply Rsqr_incr_0_var; [|lra].
  rewrite Rsqr_sqrt by lra. unfold Rsqr.
  replace ((sqrt x + sqrt y) * (sqrt x + sqrt y)) with (sqrt x * sqrt x + sqrt y * sqrt y + 2 * (sqrt x * sqrt y)) by ring.
  rewrite 2!sqrt_sqrt by assumption.
  assert (0 <= sqrt x * sqrt y) by (apply Rmult_le_pos; assumption). lra.
Qed.
Lemma sqrt_le_of_sq s y : 0 <= y -> s <= y * y -> sqrt s <= y.
Proof.
  intros Hy H. rewrite <- (sqrt_square y Hy). apply sqrt_le_1_alt. exact H.
Qed.
Lemma sqrt_ge_of_sq s y : 0 <= y -> y * y <= s -> y <= sqrt s.
Proof.
  intros Hy H. rewrite <- (sqrt_square y Hy). apply sqrt_le_1_alt. exact H.
Qed.
(* S is L^2 up to a relative perturbation (1 -+ al)^2 and an absolute one z^2 *)
Lemma sqrt_two_sided L S al z : 0 <= L -> 0 <= al <= 1 -> 0 <= z -> 0 <= S ->
  L * L * ((1 - al) * (1 - al)) - z * z <= S <= L * L * ((1 + al) * (1 + al)) + z * z ->
  Rabs (sqrt S - L) <= al * L + z.
Proof.
  intros HL Hal Hz HS (H1 & H2).
  assert (U : sqrt S <= L * (1 + al) + z).
  { apply Rle_trans with (sqrt ((L * (1 + al)) * (L * (1 + al)) + z * z)).
    - apply sqrt_le_1_alt. lra.
    - eapply Rle_trans; [apply sqrt_add_le; [apply Rle_0_sqr | apply Rle_0_sqr]|].
      rewrite sqrt_square by (apply Rmult_le_pos; lra). rewrite sqrt_square by exact Hz. lra. }
  assert (D : L * (1 - al) <= sqrt S + z).
  { apply Rle_trans with (sqrt (S + z * z)).
    - apply sqrt_ge_of_sq; [apply Rmult_le_pos; lra | lra].
    - eapply Rle_trans; [apply sqrt_add_le; [exact HS | apply Rle_0_sqr]|].
      rewrite (sqrt_square z) by exact Hz. lra. }
  apply Rabs_le. lra.
Qed.

(* ------------------------------------------------------------------------------------------- *)
(* 1. C04: the length of a line                                                                 *)
(* ------------------------------------------------------------------------------------------- *)
(* the rounding chain of  sqrt (a*a + b*b)  over the reals: A, B the rounded differences, AA, BB the rounded squares,
   S the rounded sum *)
Lemma hypot_chain a b A B AA BB S :
  Rabs (A - a) <= u * Rabs a -> Rabs (B - b) <= u * Rabs b ->
  Rabs (AA - A * A) <= u * Rabs (A * A) + eta -> Rabs (BB - B * B) <= u * Rabs (B * B) + eta ->
  0 <= AA -> 0 <= BB -> Rabs (S - (AA + BB)) <= u * Rabs (AA + BB) ->
  0 <= S /\
  (a * a + b * b) * ((1 - (2 + /64) * u) * (1 - (2 + /64) * u)) - 8 * eta <= S
    <= (a * a + b * b) * ((1 + (2 + /64) * u) * (1 + (2 + /64) * u)) + 8 * eta.
Proof.
  intros HA HB HAA HBB PA PB HS.
  assert (Hu : 0 <= u <= 1) by (fp_consts; lra).
  destruct (sq_rel a A u Hu HA) as (A1 & A2). destruct (sq_rel b B u Hu HB) as (B1 & B2).
  assert (Pa : 0 <= a * a) by apply Rle_0_sqr. assert (Pb : 0 <= b * b) by apply Rle_0_sqr.
  assert (PAA : 0 <= A * A) by apply Rle_0_sqr. assert (PBB : 0 <= B * B) by apply Rle_0_sqr.
  rewrite (Rabs_pos_eq (A * A)) in HAA by assumption. rewrite (Rabs_pos_eq (B * B)) in HBB by assumption.
  rewrite (Rabs_pos_eq (AA + BB)) in HS by lra.
  apply Rabs_le_both in HAA, HBB, HS.
  set (pa := a * a) in *. set (pb := b * b) in *. set (qa := A * A) in *. set (qb := B * B) in *.
  clearbody pa pb qa qb.
  assert (He := eta_pos). assert (Heu : eta <= /1024) by (fp_consts; lra).
  assert (Hul : u = / 9007199254740992) by reflexivity.
  split.
  - assert (0 <= (AA + BB) * (1 - u)) by (apply Rmult_le_pos; lra). lra.
  - rewrite Hul in *. split.
    + assert (T : (pa + pb) * ((1 - / 9007199254740992) * (1 - / 9007199254740992) * (1 - / 9007199254740992) * (1 - / 9007199254740992)) - 2 * eta <= S).
      { nra. }
      nra.
    + assert (T : S <= (pa + pb) * ((1 + / 9007199254740992) * (1 + / 9007199254740992) * (1 + / 9007199254740992) * (1 + / 9007199254740992)) + 4 * eta).
      { nra. }
      nra.
Qed.

Lemma bpow_m536_sq : bpow radix2 (-536) * bpow radix2 (-536) = 8 * eta.
Proof.
  rewrite <- bpow_plus. unfold eta. change (-536 + -536)%Z with (3 + -1075)%Z. rewrite bpow_plus.
  change (bpow radix2 3) with 8. reflexivity.
Qed.

Theorem line_length_float_close M (l : seg2 float) :
  M <= bpow radix2 500 -> seg2_ok M l ->
  ffinite (Line_length FOps l) /\
  Rabs (FR (Line_length FOps l) - Line_length ROps (seg2R l))
    <= (3 + /32) * u * Line_length ROps (seg2R l) + bpow radix2 (-535).
Proof.
  intros HM Hs. destruct l as [[x0 y0] [x1 y1]].
  destruct Hs as ((Fx0 & Fy0 & Mx0 & My0) & (Fx1 & Fy1 & Mx1 & My1)). cbn [px py l0 l1] in *.
  change (Line_length FOps (L2 (P x0 y0) (P x1 y1)))
    with (PrimFloat.sqrt (PrimFloat.add (PrimFloat.mul (PrimFloat.sub x0 x1) (PrimFloat.sub x0 x1))
                                        (PrimFloat.mul (PrimFloat.sub y0 y1) (PrimFloat.sub y0 y1)))).
  change (Line_length ROps (seg2R (L2 (P x0 y0) (P x1 y1))))
    with (sqrt ((FR x0 - FR x1) * (FR x0 - FR x1) + (FR y0 - FR y1) * (FR y0 - FR y1))).
  set (a := FR x0 - FR x1). set (b := FR y0 - FR y1).
  assert (C500 : bpow radix2 500 = IZR (2 ^ 500)) by reflexivity.
  assert (Hf : fmax = IZR (2 ^ 1023)) by reflexivity.
  assert (Hul : u = / 9007199254740992) by reflexivity.
  assert (He := eta_pos). assert (Heu : eta <= /1024) by (fp_consts; lra).
  assert (Ba : Rabs a <= IZR (2 ^ 501)).
  { unfold a. eapply Rle_trans; [apply Rabs_triang|]. rewrite Rabs_Ropp.
    replace (IZR (2 ^ 501)) with (2 * IZR (2 ^ 500)) by (rewrite <- mult_IZR; reflexivity). lra. }
  assert (Bb : Rabs b <= IZR (2 ^ 501)).
  { unfold b. eapply Rle_trans; [apply Rabs_triang|]. rewrite Rabs_Ropp.
    replace (IZR (2 ^ 501)) with (2 * IZR (2 ^ 500)) by (rewrite <- mult_IZR; reflexivity). lra. }
  assert (P501 : 0 < IZR (2 ^ 501)) by (apply IZR_lt; reflexivity).
  destruct (Fsub_rel x0 x1 Fx0 Fx1) as (FA & EA); [fold a; rewrite Hf; apply Rle_trans with (1 := Ba); apply IZR_le; lia|].
  destruct (Fsub_rel y0 y1 Fy0 Fy1) as (FB & EB); [fold b; rewrite Hf; apply Rle_trans with (1 := Bb); apply IZR_le; lia|].
  fold a in EA. fold b in EB.
  set (A := PrimFloat.sub x0 x1) in *. set (B := PrimFloat.sub y0 y1) in *.
  assert (BA : Rabs (FR A) <= IZR (2 ^ 502)).
  { replace (IZR (2 ^ 502)) with (2 * IZR (2 ^ 501)) by (rewrite <- mult_IZR; reflexivity).
    assert (T := Rabs_triang_inv (FR A) a). rewrite Hul in EA. lra. }
  assert (BB : Rabs (FR B) <= IZR (2 ^ 502)).
  { replace (IZR (2 ^ 502)) with (2 * IZR (2 ^ 501)) by (rewrite <- mult_IZR; reflexivity).
    assert (T := Rabs_triang_inv (FR B) b). rewrite Hul in EB. lra. }
  assert (SA : Rabs (FR A * FR A) <= IZR (2 ^ 1004)).
  { rewrite Rabs_pos_eq by apply Rle_0_sqr. eapply Rle_trans; [apply sq_abs_le; exact BA|].
    rewrite <- mult_IZR. apply IZR_le. reflexivity. }
  assert (SB : Rabs (FR B * FR B) <= IZR (2 ^ 1004)).
  { rewrite Rabs_pos_eq by apply Rle_0_sqr. eapply Rle_trans; [apply sq_abs_le; exact BB|].
    rewrite <- mult_IZR. apply IZR_le. reflexivity. }
  assert (L1004 : IZR (2 ^ 1004) <= fmax) by (rewrite Hf; apply IZR_le; lia).
  destruct (Fmul_err A A FA FA) as (FAA & EAA); [lra|].
  destruct (Fmul_err B B FB FB) as (FBB & EBB); [lra|].
  assert (PAA := Fsquare_nonneg A FA ltac:(lra)). assert (PBB := Fsquare_nonneg B FB ltac:(lra)).
  set (AA := PrimFloat.mul A A) in *. set (BB2 := PrimFloat.mul B B) in *.
  assert (P1004 : 1 <= IZR (2 ^ 1004)) by (apply IZR_le; lia).
  assert (BAA : FR AA <= 2 * IZR (2 ^ 1004)).
  { assert (T := Rle_abs (FR A * FR A)). apply Rabs_le_both in EAA. rewrite Hul in EAA. lra. }
  assert (BBB : FR BB2 <= 2 * IZR (2 ^ 1004)).
  { assert (T := Rle_abs (FR B * FR B)). apply Rabs_le_both in EBB. rewrite Hul in EBB. lra. }
  assert (L1006 : 4 * IZR (2 ^ 1004) <= fmax).
  { rewrite Hf. replace 4 with (IZR 4) by reflexivity. rewrite <- mult_IZR. apply IZR_le. lia. }
  destruct (Fadd_rel AA BB2 FAA FBB) as (FS & ES); [rewrite Rabs_pos_eq by lra; lra|].
  set (S := PrimFloat.add AA BB2) in *.
  destruct (hypot_chain a b (FR A) (FR B) (FR AA) (FR BB2) (FR S) EA EB EAA EBB PAA PBB ES) as (PS & HS).
  split; [apply Fsqrt_finite0; assumption|].
  rewrite Fsqrt_value.
  set (L := sqrt (a * a + b * b)).
  assert (PL : 0 <= L) by apply sqrt_pos.
  assert (LL : L * L = a * a + b * b).
  { unfold L. apply sqrt_sqrt. assert (0 <= a * a) by apply Rle_0_sqr. assert (0 <= b * b) by apply Rle_0_sqr. lra. }
  assert (Pz : 0 < bpow radix2 (-536)) by apply bpow_gt_0.
  assert (HQ : Rabs (sqrt (FR S) - L) <= (2 + /64) * u * L + bpow radix2 (-536)).
  { apply sqrt_two_sided; [exact PL | rewrite Hul; lra | lra | exact PS |].
    rewrite LL, bpow_m536_sq. exact HS. }
  assert (HR := rnd_error (sqrt (FR S))).
  rewrite (Rabs_pos_eq (sqrt (FR S))) in HR by apply sqrt_pos.
  assert (Z2 : bpow radix2 (-535) = 2 * bpow radix2 (-536)).
  { change (-535)%Z with (1 + -536)%Z. rewrite bpow_plus. reflexivity. }
  assert (Ze : eta <= / 1024 * bpow radix2 (-536)).
  { unfold eta. change (-1075)%Z with (-539 + -536)%Z. rewrite bpow_plus.
    apply Rmult_le_compat_r; [lra|]. bpow_lit. lra. }
  rewrite Z2. set (z := bpow radix2 (-536)) in *. set (s := sqrt (FR S)) in *. clearbody z s L.
  apply Rabs_le_both in HQ. apply Rabs_le_both in HR. apply Rabs_le. rewrite Hul in *. lra.
Qed.

(* purely relative once the true length is not minuscule *)
Corollary line_length_float_close_rel M (l : seg2 float) :
  M <= bpow radix2 500 -> seg2_ok M l -> bpow radix2 (-400) <= Line_length ROps (seg2R l) ->
  ffinite (Line_length FOps l) /\
  Rabs (FR (Line_length FOps l) - Line_length ROps (seg2R l)) <= 4 * u * Line_length ROps (seg2R l).
Proof.
  intros HM Hs HL. destruct (line_length_float_close M l HM Hs) as (F & H). split; [exact F|].
  eapply Rle_trans; [exact H|]. set (L := Line_length ROps (seg2R l)) in *. clearbody L.
  assert (Z : bpow radix2 (-535) <= / 2 * u * bpow radix2 (-400)).
  { unfold u. rewrite Rmult_assoc, <- bpow_plus. change (-53 + -400)%Z with (82 + -535)%Z. rewrite bpow_plus.
    assert (0 < bpow radix2 (-535)) by apply bpow_gt_0.
    replace (bpow radix2 82) with 4835703278458516698824704 by (bpow_lit; reflexivity).
    set (z := bpow radix2 (-535)) in *. clearbody z. lra. }
  assert (Hul : u = / 9007199254740992) by reflexivity. rewrite Hul in *.
  assert (0 < bpow radix2 (-400)) by apply bpow_gt_0.
  set (z := bpow radix2 (-535)) in *. set (z' := bpow radix2 (-400)) in *. clearbody z z'. lra.
Qed.

(* the true length is at most 3 M (really 2 sqrt 2 M) *)
Lemma line_length_R_le M (l : seg2 float) : seg2_ok M l -> 0 <= Line_length ROps (seg2R l) <= 3 * M.
Proof.
  intros Hs. destruct l as [[x0 y0] [x1 y1]].
  destruct Hs as ((Fx0 & Fy0 & Mx0 & My0) & (Fx1 & Fy1 & Mx1 & My1)). cbn [px py l0 l1] in *.
  change (Line_length ROps (seg2R (L2 (P x0 y0) (P x1 y1))))
    with (sqrt ((FR x0 - FR x1) * (FR x0 - FR x1) + (FR y0 - FR y1) * (FR y0 - FR y1))).
  assert (M0 : 0 <= M) by (eapply Rle_trans; [apply Rabs_pos | exact Mx0]).
  split; [apply sqrt_pos|]. apply sqrt_le_of_sq; [lra|].
  assert (Ba : Rabs (FR x0 - FR x1) <= 2 * M).
  { eapply Rle_trans; [apply Rabs_triang|]. rewrite Rabs_Ropp. lra. }
  assert (Bb : Rabs (FR y0 - FR y1) <= 2 * M).
  { eapply Rle_trans; [apply Rabs_triang|]. rewrite Rabs_Ropp. lra. }
  apply sq_abs_le in Ba, Bb. assert (0 <= M * M) by apply Rle_0_sqr. lra.
Qed.

(* relative to the coordinate magnitude *)
Corollary line_length_float_close_M M (l : seg2 float) :
  M <= bpow radix2 500 -> seg2_ok M l ->
  ffinite (Line_length FOps l) /\
  Rabs (FR (Line_length FOps l) - Line_length ROps (seg2R l)) <= 10 * u * M + bpow radix2 (-535).
Proof.
  intros HM Hs. destruct (line_length_float_close M l HM Hs) as (F & H). split; [exact F|].
  eapply Rle_trans; [exact H|]. destruct (line_length_R_le M l Hs) as (L0 & L3).
  set (L := Line_length ROps (seg2R l)) in *. clearbody L.
  assert (Hul : u = / 9007199254740992) by reflexivity. rewrite Hul in *. lra.
Qed.

(* ------------------------------------------------------------------------------------------- *)
(* 2. C15: Line.tOfPoint after Line.pointAtTime                                                 *)
(* ------------------------------------------------------------------------------------------- *)
(* 2.0 reading of the generated text, for every scalar instance *)
Definition line_solveO {T : Type} (O : Ops T) (l : seg2 T) (p : pt T) : option T :=
  let dx := sub O (px (l1 l)) (px (l0 l)) in let dy := sub O (py (l1 l)) (py (l0 l)) in
  let xok := negb (isclose O (px (l1 l)) (px (l0 l))) in
  let yok := negb (isclose O (py (l1 l)) (py (l0 l))) in
  if xok && (leb O (abs_ O dy) (abs_ O dx) || negb yok) then Some (dvd O (sub O (px p) (px (l0 l))) dx)
  else if yok then Some (dvd O (sub O (py p) (py (l0 l))) dy) else None.
(* the re-check of a solved parameter: the point it evaluates to is less than 2e-7 from the query point *)
Definition line_recheck {T : Type} (O : Ops T) (l : seg2 T) (p : pt T) (t : T) : bool :=
  ltb O (Point_distanceFrom O (Line_pointAtTime O l t) p) (lit O 1 5000000 0x1.ad7f29abcaf48p-23%float).
Lemma line_tOfPoint_specO {T : Type} (O : Ops T) (l : seg2 T) (p : pt T) (sw : bool) :
  Line_tOfPoint O l p sw =
  match line_solveO O l p with
  | None => ofZ O (-1)
  | Some t => if sw || line_recheck O l p t then t else ofZ O (-1)
  end.
Proof.
  unfold Line_tOfPoint, line_solveO, line_recheck. cbv zeta.
  destruct (negb (isclose O (px (l1 l)) (px (l0 l))) &&
            (leb O (abs_ O (sub O (py (l1 l)) (py (l0 l)))) (abs_ O (sub O (px (l1 l)) (px (l0 l))))
             || negb (negb (isclose O (py (l1 l)) (py (l0 l)))))); [reflexivity|].
  destruct (negb (isclose O (py (l1 l)) (py (l0 l)))); reflexivity.
Qed.

(* 2.1 math.isclose on two finite doubles of magnitude at most 2^26: a positive answer means the two values differ by
   at most 1/4 (really about 1e-9 * M <= 0.07).  Only this direction is needed: whichever branch the float tests
   select is then sound for a line whose larger extent is at least 1/2. *)
Definition M26 : R := 67108864.
Lemma isclose_true_small M a b :
  ffinite a -> ffinite b -> Rabs (FR a) <= M -> Rabs (FR b) <= M -> M <= M26 ->
  isclose FOps a b = true -> Rabs (FR b - FR a) <= / 4.
Proof.
  intros Fa Fb Ma Mb HM. unfold M26 in HM. unfold isclose.
  cbn [FOps FOpsT eqb isinf_ abs_ sub mul lit leb ofZ]. change (ZtoF 0) with 0%float.
  assert (Hul : u = / 9007199254740992) by reflexivity.
  assert (He := eta_pos). assert (Heu : eta <= /1024) by (fp_consts; lra).
  assert (Hf : fmax = IZR (2 ^ 1023)) by reflexivity.
  assert (L30 : 1073741824 <= fmax) by (rewrite Hf; apply IZR_le; lia).
  destruct (PrimFloat.eqb a b) eqn:Eq.
  { intros _. apply (Feqb_true a b Fa Fb) in Eq. rewrite Eq. unfold Rminus. rewrite Rplus_opp_r, Rabs_R0. lra. }
  destruct (PrimFloat.is_infinity a || PrimFloat.is_infinity b); [discriminate|].
  set (rel := 0x1.12e0be826d695p-30%float).
  assert (Frel : ffinite rel) by (unfold rel; ffinite_compute).
  assert (Hrel : 0 <= FR rel <= / 536870912) by (unfold rel; split; lit_le).
  assert (Bd : Rabs (FR b - FR a) <= 2 * M).
  { eapply Rle_trans; [apply Rabs_triang|]. rewrite Rabs_Ropp. lra. }
  destruct (Fsub_rel b a Fb Fa) as (Fd & Ed); [lra|].
  assert (T := Rabs_triang_inv (FR b - FR a) (FR (b - a)%float)). rewrite (Rabs_minus_sym (FR b - FR a)) in T.
  assert (Prod : forall c, ffinite c -> Rabs (FR c) <= M ->
            ffinite (PrimFloat.abs (rel * c)%float) /\ FR (PrimFloat.abs (rel * c)%float) <= / 5).
  { intros c Fc Mc.
    assert (Bc : Rabs (FR rel * FR c) <= / 8).
    { rewrite Rabs_mult, (Rabs_pos_eq (FR rel)) by lra.
      apply Rle_trans with (/ 536870912 * M); [apply Rmult_le_compat; try lra; apply Rabs_pos | lra]. }
    destruct (Fmul_err rel c Frel Fc) as (Fm & Em); [lra|].
    split; [apply Fabs_finite; exact Fm|]. rewrite Fabs_correct.
    assert (T' := Rabs_triang_inv (FR (rel * c)%float) (FR rel * FR c)). rewrite Hul in Em. lra. }
  assert (Fad : ffinite (PrimFloat.abs (b - a)%float)) by (apply Fabs_finite; exact Fd).
  intros H. rewrite 2!orb_true_iff in H. destruct H as [[H|H]|H].
  - destruct (Prod b Fb Mb) as (Fp & Bp). apply (Fleb_true _ _ Fad Fp) in H. rewrite Fabs_correct in H.
    rewrite Hul in Ed. lra.
  - destruct (Prod a Fa Ma) as (Fp & Bp). apply (Fleb_true _ _ Fad Fp) in H. rewrite Fabs_correct in H.
    rewrite Hul in Ed. lra.
  - apply (Fleb_true _ _ Fad ffinite_zero) in H. rewrite Fabs_correct, FloatErr.FR_zero in H.
    rewrite Hul in Ed. lra.
Qed.

(* 2.2 the branch selected by the float tests solves in a coordinate whose real extent is >= (1 - 2u) E, E the larger
   extent; and the numerically degenerate exit (-1 without solving) is not taken when E >= 1/2 *)
Lemma line_solve_selects M (x0 y0 x1 y1 : float) (q : pt float) :
  ffinite x0 -> ffinite y0 -> ffinite x1 -> ffinite y1 ->
  Rabs (FR x0) <= M -> Rabs (FR y0) <= M -> Rabs (FR x1) <= M -> Rabs (FR y1) <= M -> M <= M26 ->
  / 2 <= Rmax (Rabs (FR x1 - FR x0)) (Rabs (FR y1 - FR y0)) ->
  (line_solveO FOps (L2 (P x0 y0) (P x1 y1)) q = Some (PrimFloat.div (PrimFloat.sub (px q) x0) (PrimFloat.sub x1 x0)) /\
   (1 - 2 * u) * Rmax (Rabs (FR x1 - FR x0)) (Rabs (FR y1 - FR y0)) <= Rabs (FR x1 - FR x0)) \/
  (line_solveO FOps (L2 (P x0 y0) (P x1 y1)) q = Some (PrimFloat.div (PrimFloat.sub (py q) y0) (PrimFloat.sub y1 y0)) /\
   (1 - 2 * u) * Rmax (Rabs (FR x1 - FR x0)) (Rabs (FR y1 - FR y0)) <= Rabs (FR y1 - FR y0)).
Proof.
  intros Fx0 Fy0 Fx1 Fy1 Mx0 My0 Mx1 My1 HM HE.
  assert (Hul : u = / 9007199254740992) by reflexivity.
  assert (Hf : fmax = IZR (2 ^ 1023)) by reflexivity.
  assert (L30 : 1073741824 <= fmax) by (rewrite Hf; apply IZR_le; lia).
  assert (HM' := HM). unfold M26 in HM'.
  assert (Bdx : Rabs (FR x1 - FR x0) <= 2 * M).
  { eapply Rle_trans; [apply Rabs_triang|]. rewrite Rabs_Ropp. lra. }
  assert (Bdy : Rabs (FR y1 - FR y0) <= 2 * M).
  { eapply Rle_trans; [apply Rabs_triang|]. rewrite Rabs_Ropp. lra. }
  destruct (Fsub_rel x1 x0 Fx1 Fx0) as (FDx & EDx); [lra|].
  destruct (Fsub_rel y1 y0 Fy1 Fy0) as (FDy & EDy); [lra|].
  assert (Tx1 := Rabs_triang_inv (FR x1 - FR x0) (FR (x1 - x0)%float)).
  assert (Tx2 := Rabs_triang_inv (FR (x1 - x0)%float) (FR x1 - FR x0)).
  assert (Ty1 := Rabs_triang_inv (FR y1 - FR y0) (FR (y1 - y0)%float)).
  assert (Ty2 := Rabs_triang_inv (FR (y1 - y0)%float) (FR y1 - FR y0)).
  rewrite (Rabs_minus_sym (FR x1 - FR x0)) in Tx1. rewrite (Rabs_minus_sym (FR y1 - FR y0)) in Ty1.
  assert (Sx : isclose FOps x1 x0 = true -> Rabs (FR x1 - FR x0) <= / 4).
  { intros C. rewrite Rabs_minus_sym. exact (isclose_true_small M x1 x0 Fx1 Fx0 Mx1 Mx0 HM C). }
  assert (Sy : isclose FOps y1 y0 = true -> Rabs (FR y1 - FR y0) <= / 4).
  { intros C. rewrite Rabs_minus_sym. exact (isclose_true_small M y1 y0 Fy1 Fy0 My1 My0 HM C). }
  assert (Pdx := Rabs_pos (FR x1 - FR x0)). assert (Pdy := Rabs_pos (FR y1 - FR y0)).
  unfold line_solveO. cbn [l0 l1 px py]. cbv zeta.
  destruct (isclose FOps x1 x0) eqn:Cx; destruct (isclose FOps y1 y0) eqn:Cy; cbn [negb andb orb].
  - exfalso. specialize (Sx eq_refl). specialize (Sy eq_refl). revert HE. unfold Rmax.
    destruct (Rle_dec (Rabs (FR x1 - FR x0)) (Rabs (FR y1 - FR y0))); lra.
  - right. split; [reflexivity|]. specialize (Sx eq_refl). revert HE. unfold Rmax.
    destruct (Rle_dec (Rabs (FR x1 - FR x0)) (Rabs (FR y1 - FR y0))); rewrite Hul; lra.
  - rewrite orb_true_r. left. split; [reflexivity|]. specialize (Sy eq_refl). revert HE. unfold Rmax.
    destruct (Rle_dec (Rabs (FR x1 - FR x0)) (Rabs (FR y1 - FR y0))); rewrite Hul; lra.
  - rewrite orb_false_r. cbn [FOps FOpsT leb abs_ sub].
    assert (Fax : ffinite (PrimFloat.abs (x1 - x0)%float)) by (apply Fabs_finite; exact FDx).
    assert (Fay : ffinite (PrimFloat.abs (y1 - y0)%float)) by (apply Fabs_finite; exact FDy).
    destruct (PrimFloat.leb (PrimFloat.abs (y1 - y0)%float) (PrimFloat.abs (x1 - x0)%float)) eqn:Cl.
    + left. split; [reflexivity|]. apply (Fleb_true _ _ Fay Fax) in Cl. rewrite 2!Fabs_correct in Cl.
      unfold Rmax. destruct (Rle_dec (Rabs (FR x1 - FR x0)) (Rabs (FR y1 - FR y0))); rewrite Hul in *; lra.
    + right. split; [reflexivity|]. apply (Fleb_false _ _ Fay Fax) in Cl. rewrite 2!Fabs_correct in Cl.
      unfold Rmax. destruct (Rle_dec (Rabs (FR x1 - FR x0)) (Rabs (FR y1 - FR y0))); rewrite Hul in *; lra.
Qed.

(* 2.3 the quotient, over the reals: d the true extent, D its rounding, n = t d + e the true numerator (e the error of
   the evaluated point), N its rounding *)
Lemma ratio_bounds M E : 1 <= M -> M <= M26 -> / 2 <= E -> E <= 2 * M -> / 2 <= M / E <= 134217728.
Proof.
  intros H1 H2 H3 H4. unfold M26 in H2. assert (PE : 0 < E) by lra.
  split.
  - apply Rmult_le_reg_r with E; [exact PE|]. replace (M / E * E) with M by (field; lra). lra.
  - apply Rmult_le_reg_r with E; [exact PE|]. replace (M / E * E) with M by (field; lra). lra.
Qed.
Lemma quot_real1 M E d D n N t e :
  1 <= M -> / 2 <= E -> E <= 2 * M ->
  (1 - 2 * u) * E <= Rabs d -> Rabs d <= E -> Rabs (D - d) <= u * Rabs d ->
  n = t * d + e -> Rabs e <= 7 * u * M + 4 * eta -> 0 <= t <= 1 -> Rabs (N - n) <= u * Rabs n ->
  D <> 0 /\ Rabs (N / D - t) <= (11 + / 64) * u * (M / E).
Proof.
  intros HM1 HE HE2 Hd1 Hd2 HD Hn He Ht HN.
  assert (Hul : u = / 9007199254740992) by reflexivity.
  assert (He0 := eta_pos). assert (Heu : eta <= / 1180591620717411303424) by (fp_consts; lra).
  assert (PE : 0 < E) by lra.
  set (k := (1 - 2 * u) * (1 - u)).
  assert (Pk : 0 < k) by (unfold k; rewrite Hul; lra).
  assert (HDk : E * k <= Rabs D).
  { assert (T := Rabs_triang_inv d (d - D)). replace (d - (d - D)) with D in T by ring.
    rewrite (Rabs_minus_sym d D) in T. unfold k. rewrite Hul in *. lra. }
  assert (PEk : 0 < E * k) by (apply Rmult_lt_0_compat; assumption).
  assert (D0 : D <> 0).
  { intros Z. rewrite Z, Rabs_R0 in HDk. lra. }
  split; [exact D0|].
  set (eq := 7 * u * M + 4 * eta) in *.
  assert (Ptd : Rabs (t * d) <= Rabs d).
  { rewrite Rabs_mult, (Rabs_pos_eq t) by lra. rewrite <- (Rmult_1_l (Rabs d)) at 2.
    apply Rmult_le_compat_r; [apply Rabs_pos | lra]. }
  assert (Bn : Rabs n <= E + eq).
  { rewrite Hn. eapply Rle_trans; [apply Rabs_triang|]. lra. }
  assert (Ptd2 : Rabs (t * (d - D)) <= u * E).
  { rewrite Rabs_mult, (Rabs_pos_eq t) by lra. rewrite (Rabs_minus_sym d D).
    apply Rle_trans with (1 * Rabs (D - d)); [apply Rmult_le_compat_r; [apply Rabs_pos | lra]|].
    rewrite Hul in *. lra. }
  assert (HA : Rabs (N - t * D) <= u * (E + eq) + eq + u * E).
  { replace (N - t * D) with ((N - n) + e + t * (d - D)) by (rewrite Hn; ring).
    eapply Rle_trans; [apply Rabs_triang|]. eapply Rle_trans; [apply Rplus_le_compat_r, Rabs_triang|].
    rewrite Hul in *. lra. }
  assert (HX : Rabs (N / D - t) * (E * k) <= u * (E + eq) + eq + u * E).
  { apply Rle_trans with (Rabs (N / D - t) * Rabs D).
    - apply Rmult_le_compat_l; [apply Rabs_pos | exact HDk].
    - rewrite <- Rabs_mult. replace ((N / D - t) * D) with (N - t * D) by (field; exact D0). exact HA. }
  apply Rmult_le_reg_r with (E * k); [exact PEk|]. eapply Rle_trans; [exact HX|].
  replace ((11 + / 64) * u * (M / E) * (E * k)) with ((11 + / 64) * u * M * k) by (field; lra).
  unfold k, eq. rewrite Hul. lra.
Qed.
Lemma quot_real2 M E t tau0 tau :
  1 <= M -> M <= M26 -> / 2 <= E -> E <= 2 * M -> 0 <= t <= 1 ->
  Rabs (tau0 - t) <= (11 + / 64) * u * (M / E) -> Rabs (tau - tau0) <= u * Rabs tau0 + eta ->
  Rabs (tau - t) <= 14 * u * (M / E).
Proof.
  intros H1 H2 H3 H4 Ht H0 Hr. destruct (ratio_bounds M E H1 H2 H3 H4) as (R1 & R2).
  assert (Hul : u = / 9007199254740992) by reflexivity.
  assert (He0 := eta_pos). assert (Heu : eta <= / 1180591620717411303424) by (fp_consts; lra).
  set (r := M / E) in *. clearbody r.
  assert (B0 : Rabs tau0 <= 1 + (11 + / 64) * u * r).
  { replace tau0 with ((tau0 - t) + t) at 1 by ring. eapply Rle_trans; [apply Rabs_triang|].
    rewrite (Rabs_pos_eq t) by lra. lra. }
  replace (tau - t) with ((tau - tau0) + (tau0 - t)) by ring. eapply Rle_trans; [apply Rabs_triang|].
  rewrite Hul in *. lra.
Qed.

(* the quotient in floats: a0, a1 the end coordinates in the solved direction, qa that coordinate of the query point *)
Lemma quot_float M E (a0 a1 qa : float) (t : R) :
  1 <= M -> M <= M26 -> / 2 <= E -> E <= 2 * M ->
  ffinite a0 -> ffinite a1 -> ffinite qa -> Rabs (FR a0) <= M -> Rabs (FR a1) <= M ->
  (1 - 2 * u) * E <= Rabs (FR a1 - FR a0) -> Rabs (FR a1 - FR a0) <= E -> 0 <= t <= 1 ->
  Rabs (FR qa - (FR a0 + t * (FR a1 - FR a0))) <= 7 * u * M + 4 * eta ->
  ffinite (PrimFloat.div (PrimFloat.sub qa a0) (PrimFloat.sub a1 a0)) /\
  Rabs (FR (PrimFloat.div (PrimFloat.sub qa a0) (PrimFloat.sub a1 a0)) - t) <= 14 * u * (M / E).
Proof.
  intros H1 H2 H3 H4 F0 F1 Fq M0 M1 Hd1 Hd2 Ht Hq.
  assert (Hul : u = / 9007199254740992) by reflexivity.
  assert (He0 := eta_pos). assert (Heu : eta <= / 1180591620717411303424) by (fp_consts; lra).
  assert (Hf : fmax = IZR (2 ^ 1023)) by reflexivity.
  assert (L30 : 1073741824 <= fmax) by (rewrite Hf; apply IZR_le; lia).
  assert (H2' := H2). unfold M26 in H2'.
  set (d := FR a1 - FR a0) in *.
  destruct (Fsub_rel a1 a0 F1 F0) as (FD & ED); [fold d; lra|]. fold d in ED.
  set (e := FR qa - (FR a0 + t * d)) in *.
  assert (Hn : FR qa - FR a0 = t * d + e) by (unfold e; ring).
  assert (Ptd : Rabs (t * d) <= Rabs d).
  { rewrite Rabs_mult, (Rabs_pos_eq t) by lra. rewrite <- (Rmult_1_l (Rabs d)) at 2.
    apply Rmult_le_compat_r; [apply Rabs_pos | lra]. }
  assert (Bn : Rabs (FR qa - FR a0) <= 3 * M).
  { rewrite Hn. eapply Rle_trans; [apply Rabs_triang|]. rewrite Hul in *. lra. }
  destruct (Fsub_rel qa a0 Fq F0) as (FN & EN); [lra|].
  destruct (quot_real1 M E d (FR (a1 - a0)%float) (FR qa - FR a0) (FR (qa - a0)%float) t e H1 H3 H4 Hd1 Hd2 ED Hn Hq Ht EN)
    as (D0 & HQ).
  destruct (ratio_bounds M E H1 H2 H3 H4) as (R1 & R2).
  assert (BQ : Rabs (FR (qa - a0)%float / FR (a1 - a0)%float) <= 2).
  { set (tau0 := FR (qa - a0)%float / FR (a1 - a0)%float) in *.
    replace tau0 with ((tau0 - t) + t) by ring. eapply Rle_trans; [apply Rabs_triang|].
    rewrite (Rabs_pos_eq t) by lra. set (r := M / E) in *. clearbody r tau0. rewrite Hul in *. lra. }
  destruct (Fdiv_correct _ _ FN FD D0) as (Ft & Vt); [lra|].
  split; [exact Ft|].
  apply (quot_real2 M E t (FR (qa - a0)%float / FR (a1 - a0)%float)); try assumption.
  rewrite Vt. apply rnd_error.
Qed.

(* 2.4 evaluation at a parameter that may leave [0,1] slightly (the returned parameter can: see the end of the file) *)
Definition t_ok_wide (t : float) : Prop := ffinite t /\ - / 1024 <= FR t <= 1 + / 1024.
Lemma Q2R_1025 : Q2R (1025 # 1024) = 1 + / 1024.
Proof. unfold Q2R. cbn [Qnum Qden]. lra. Qed.
Lemma approx_t_W M t : t_ok_wide t -> approx t (FR t) (leval M (lconst 0)) (leval M (lconst (1025 # 1024))).
Proof.
  intros (Ft & Ht). apply approx_leaf_const; [exact Ft|]. rewrite Q2R_1025. apply Rabs_le. lra.
Qed.
Lemma approx_one_minus_W M t : t_ok_wide t ->
  approx (PrimFloat.sub (ZtoF 1) t) (1 - FR t) (leval M (lconst (inject_Z 3 * uQ + etaQ))) (leval M (lconst (1025 # 1024))).
Proof.
  intros (Ft & Ht).
  assert (A1 : approx (ZtoF 1) 1 0 1) by (apply (approx_ofZ 1); vm_compute; reflexivity).
  assert (At : approx t (FR t) 0 (1 + / 1024)) by (apply approx_exact; [exact Ft | apply Rabs_le; lra]).
  rewrite 2!leval_lconst, Q2R_plus, Q2R_mult, Q2R_inject_Z, Q2R_uQ, Q2R_etaQ, Q2R_1025.
  eapply approx_weaken; [eapply approx_sub_b with (b' := 1 + / 1024); [exact A1 | exact At | | ] | | ].
  - apply Rabs_le. lra.
  - approx_side.
  - assert (Hu := u_pos). lra.
  - lra.
Qed.
Theorem line_eval_float_close_wide M (s : seg2 float) t :
  M <= Mcap -> seg2_ok M s -> t_ok_wide t ->
  pt_close (Line_pointAtTime FOps s t) (Line_pointAtTime ROps (seg2R s) (FR t)) (8 * u * M + 4 * eta).
Proof.
  intros HM Hs Ht. destruct s as [[x0 y0] [x1 y1]].
  destruct Hs as ((Fx0 & Fy0 & Mx0 & My0) & (Fx1 & Fy1 & Mx1 & My1)). cbn [px py l0 l1] in *.
  assert (HMq := cap_hyp M x0 Mx0 HM).
  pose proof (approx_one_minus_W M t Ht). pose proof (approx_t_W M t Ht). leaf_hyps M.
  close_all M HMq.
Qed.

(* 2.5 the re-check: two float points whose coordinates differ by at most 1.2e-7 are at float distance < 2e-7 *)
Lemma recheck_passes (p q : pt float) :
  ffinite (px p) -> ffinite (py p) -> ffinite (px q) -> ffinite (py q) ->
  Rabs (FR (px p) - FR (px q)) <= 12 / 100000000 -> Rabs (FR (py p) - FR (py q)) <= 12 / 100000000 ->
  PrimFloat.ltb (Point_distanceFrom FOps p q) 0x1.ad7f29abcaf48p-23%float = true.
Proof.
  destruct p as [x y], q as [x' y']. cbn [px py]. intros Fx Fy Fx' Fy' Hx Hy.
  change (Point_distanceFrom FOps (P x y) (P x' y'))
    with (PrimFloat.sqrt (PrimFloat.add (PrimFloat.mul (PrimFloat.sub x x') (PrimFloat.sub x x'))
                                        (PrimFloat.mul (PrimFloat.sub y y') (PrimFloat.sub y y')))).
  assert (Hul : u = / 9007199254740992) by reflexivity.
  assert (He0 := eta_pos). assert (Heu : eta <= / 1180591620717411303424) by (fp_consts; lra).
  assert (Hf : fmax = IZR (2 ^ 1023)) by reflexivity.
  assert (L30 : 1073741824 <= fmax) by (rewrite Hf; apply IZR_le; lia).
  destruct (Fsub_rel x x' Fx Fx') as (FA & EA); [lra|].
  destruct (Fsub_rel y y' Fy Fy') as (FB & EB); [lra|].
  set (A := PrimFloat.sub x x') in *. set (B := PrimFloat.sub y y') in *.
  assert (BA : Rabs (FR A) <= 121 / 1000000000).
  { assert (T := Rabs_triang_inv (FR A) (FR x - FR x')). rewrite Hul in EA. lra. }
  assert (BB : Rabs (FR B) <= 121 / 1000000000).
  { assert (T := Rabs_triang_inv (FR B) (FR y - FR y')). rewrite Hul in EB. lra. }
  assert (SA := sq_abs_le _ _ BA). assert (SB := sq_abs_le _ _ BB).
  assert (QA : 0 <= FR A * FR A) by apply Rle_0_sqr. assert (QB : 0 <= FR B * FR B) by apply Rle_0_sqr.
  destruct (Fmul_err A A FA FA) as (FAA & EAA); [rewrite Rabs_pos_eq by exact QA; lra|].
  destruct (Fmul_err B B FB FB) as (FBB & EBB); [rewrite Rabs_pos_eq by exact QB; lra|].
  assert (PAA := Fsquare_nonneg A FA ltac:(rewrite Rabs_pos_eq by exact QA; lra)).
  assert (PBB := Fsquare_nonneg B FB ltac:(rewrite Rabs_pos_eq by exact QB; lra)).
  rewrite (Rabs_pos_eq _ QA) in EAA. rewrite (Rabs_pos_eq _ QB) in EBB. apply Rabs_le_both in EAA, EBB.
  set (AA := PrimFloat.mul A A) in *. set (BB2 := PrimFloat.mul B B) in *.
  assert (BS : 0 <= FR AA + FR BB2 <= 295 / 10000000000000000).
  { rewrite Hul in *. lra. }
  destruct (Fadd_rel AA BB2 FAA FBB) as (FS & ES); [rewrite Rabs_pos_eq by lra; lra|].
  rewrite (Rabs_pos_eq (FR AA + FR BB2)) in ES by lra. apply Rabs_le_both in ES.
  set (S := PrimFloat.add AA BB2) in *.
  assert (PS : 0 <= FR S).
  { assert (0 <= (FR AA + FR BB2) * (1 - u)) by (apply Rmult_le_pos; rewrite ?Hul; lra). lra. }
  assert (FR' : ffinite (PrimFloat.sqrt S)) by (apply Fsqrt_finite0; assumption).
  assert (Flit : ffinite 0x1.ad7f29abcaf48p-23%float) by ffinite_compute.
  apply (Fltb_true _ _ FR' Flit). rewrite Fsqrt_value.
  assert (HQ : sqrt (FR S) <= 18 / 100000000).
  { apply sqrt_le_of_sq; [lra|]. rewrite Hul in *. lra. }
  assert (HR := rnd_error (sqrt (FR S))). rewrite (Rabs_pos_eq (sqrt (FR S))) in HR by apply sqrt_pos.
  apply Rabs_le_both in HR. assert (P0 := sqrt_pos (FR S)).
  set (s := sqrt (FR S)) in *. clearbody s.
  FR_compute 0x1.ad7f29abcaf48p-23%float. rewrite Hul in *. lra.
Qed.

Lemma line_R_coords (x0 y0 x1 y1 t : R) :
  Line_pointAtTime ROps (L2 (P x0 y0) (P x1 y1)) t = P (x0 * (1 - t) + x1 * t) (y0 * (1 - t) + y1 * t).
Proof. reflexivity. Qed.

(* two float points: all coordinates finite, coordinatewise within e *)
Definition pt_near (p q : pt float) (e : R) : Prop :=
  ffinite (px p) /\ ffinite (py p) /\ ffinite (px q) /\ ffinite (py q) /\
  Rabs (FR (px p) - FR (px q)) <= e /\ Rabs (FR (py p) - FR (py q)) <= e.

Definition M25 : R := 33554432.

(* 2.6 any finite parameter within 14 u M / E of t evaluates to a point within 30 u M of the point at t (M <= 2^26),
   and passes the re-check when M <= 2^25 *)
Lemma near_tau M (x0 y0 x1 y1 t tau : float) :
  1 <= M -> M <= M26 -> seg2_ok M (L2 (P x0 y0) (P x1 y1)) -> t_ok t ->
  / 2 <= Rmax (Rabs (FR x1 - FR x0)) (Rabs (FR y1 - FR y0)) ->
  ffinite tau -> Rabs (FR tau - FR t) <= 14 * u * (M / Rmax (Rabs (FR x1 - FR x0)) (Rabs (FR y1 - FR y0))) ->
  pt_near (Line_pointAtTime FOps (L2 (P x0 y0) (P x1 y1)) tau) (Line_pointAtTime FOps (L2 (P x0 y0) (P x1 y1)) t) (30 * u * M).
Proof.
  intros H1 H26 Hs Ht HE Ftau Htau.
  assert (Hul : u = / 9007199254740992) by reflexivity.
  assert (He0 := eta_pos). assert (Heu : eta <= / 1180591620717411303424) by (fp_consts; lra).
  assert (H26' := H26). unfold M26 in H26'.
  assert (HMc : M <= Mcap).
  { apply Rle_trans with (1 := H26). unfold M26, Mcap. bpow_lit. apply IZR_le. lia. }
  set (l := L2 (P x0 y0) (P x1 y1)) in *.
  set (E := Rmax (Rabs (FR x1 - FR x0)) (Rabs (FR y1 - FR y0))) in *.
  assert (Hs' := Hs). destruct Hs' as ((Fx0 & Fy0 & Mx0 & My0) & (Fx1 & Fy1 & Mx1 & My1)). cbn [px py l0 l1 l] in *.
  assert (Bdx : Rabs (FR x1 - FR x0) <= E) by apply Rmax_l.
  assert (Bdy : Rabs (FR y1 - FR y0) <= E) by apply Rmax_r.
  assert (HE2 : E <= 2 * M).
  { unfold E. apply Rmax_lub; (eapply Rle_trans; [apply Rabs_triang|]); rewrite Rabs_Ropp; lra. }
  destruct (ratio_bounds M E H1 H26 HE HE2) as (R1 & R2).
  assert (PE : 0 < E) by lra.
  destruct (line_eval_float_close M l t HMc Hs Ht) as (Fqx & Fqy & Hqx & Hqy).
  assert (Htw : t_ok_wide tau).
  { split; [exact Ftau|]. destruct Ht as (_ & Ht). apply Rabs_le_both in Htau.
    set (r := M / E) in *. clearbody r. rewrite Hul in *. lra. }
  destruct (line_eval_float_close_wide M l tau HMc Hs Htw) as (Fpx & Fpy & Hpx & Hpy).
  unfold l, seg2R, ptR in Hqx, Hqy, Hpx, Hpy. cbn [l0 l1 px py] in Hqx, Hqy, Hpx, Hpy.
  rewrite line_R_coords in Hqx, Hqy, Hpx, Hpy. cbn [px py] in Hqx, Hqy, Hpx, Hpy.
  fold l in Hqx, Hqy, Hpx, Hpy.
  set (p := Line_pointAtTime FOps l tau) in *. set (q := Line_pointAtTime FOps l t) in *.
  assert (Scale : forall d, Rabs d <= E -> Rabs ((FR tau - FR t) * d) <= 14 * u * M).
  { intros d Hd. rewrite Rabs_mult.
    apply Rle_trans with (14 * u * (M / E) * E).
    - apply Rmult_le_compat; try apply Rabs_pos; assumption.
    - apply Req_le. field. lra. }
  assert (Nx : Rabs (FR (px p) - FR (px q)) <= 30 * u * M).
  { assert (S := Scale _ Bdx).
    replace (FR (px p) - FR (px q))
      with ((FR (px p) - (FR x0 * (1 - FR tau) + FR x1 * FR tau)) - (FR (px q) - (FR x0 * (1 - FR t) + FR x1 * FR t))
            + (FR tau - FR t) * (FR x1 - FR x0)) by ring.
    eapply Rle_trans; [apply Rabs_triang|]. eapply Rle_trans; [apply Rplus_le_compat_r, Rabs_triang|].
    rewrite Rabs_Ropp. rewrite Hul in *. lra. }
  assert (Ny : Rabs (FR (py p) - FR (py q)) <= 30 * u * M).
  { assert (S := Scale _ Bdy).
    replace (FR (py p) - FR (py q))
      with ((FR (py p) - (FR y0 * (1 - FR tau) + FR y1 * FR tau)) - (FR (py q) - (FR y0 * (1 - FR t) + FR y1 * FR t))
            + (FR tau - FR t) * (FR y1 - FR y0)) by ring.
    eapply Rle_trans; [apply Rabs_triang|]. eapply Rle_trans; [apply Rplus_le_compat_r, Rabs_triang|].
    rewrite Rabs_Ropp. rewrite Hul in *. lra. }
  repeat split; assumption.
Qed.
(* this is the only place where M <= 2^25 is used:  30 u M <= 30 * 2^-28 = 1.118e-7 <= 1.2e-7 *)
Lemma recheck_tau M (l : seg2 float) (q : pt float) (tau : float) :
  1 <= M -> M <= M25 -> pt_near (Line_pointAtTime FOps l tau) q (30 * u * M) -> line_recheck FOps l q tau = true.
Proof.
  intros H1 H2 (A & B & C & D & Hx & Hy). unfold M25 in H2.
  assert (Hul : u = / 9007199254740992) by reflexivity.
  unfold line_recheck. cbn [FOps FOpsT ltb lit].
  apply recheck_passes; try assumption; rewrite Hul in *; lra.
Qed.

(* 2.7 the theorems *)
(* the larger extent of a float line, over the reals *)
Definition extent (l : seg2 float) : R :=
  Rmax (Rabs (FR (px (l1 l)) - FR (px (l0 l)))) (Rabs (FR (py (l1 l)) - FR (py (l0 l)))).

(* which quotient is returned: the one in a coordinate whose extent is at least (1 - 2u) * larger extent *)
Definition solved_in (l : seg2 float) (q : pt float) (tau : float) : Prop :=
  (tau = PrimFloat.div (PrimFloat.sub (px q) (px (l0 l))) (PrimFloat.sub (px (l1 l)) (px (l0 l))) /\
   (1 - 2 * u) * extent l <= Rabs (FR (px (l1 l)) - FR (px (l0 l)))) \/
  (tau = PrimFloat.div (PrimFloat.sub (py q) (py (l0 l))) (PrimFloat.sub (py (l1 l)) (py (l0 l))) /\
   (1 - 2 * u) * extent l <= Rabs (FR (py (l1 l)) - FR (py (l0 l)))).

Lemma extent_le M (l : seg2 float) : seg2_ok M l -> extent l <= 2 * M.
Proof.
  destruct l as [[x0 y0] [x1 y1]]. intros ((Fx0 & Fy0 & Mx0 & My0) & (Fx1 & Fy1 & Mx1 & My1)).
  unfold extent. cbn [px py l0 l1] in *.
  apply Rmax_lub; (eapply Rle_trans; [apply Rabs_triang|]); rewrite Rabs_Ropp; lra.
Qed.

(* the solving step, M <= 2^26: the float branch tests select a quotient, it is finite and close to t *)
Lemma line_solve_float M (l : seg2 float) (t : float) :
  1 <= M -> M <= M26 -> seg2_ok M l -> t_ok t -> / 2 <= extent l ->
  exists tau0, line_solveO FOps l (Line_pointAtTime FOps l t) = Some tau0 /\
    solved_in l (Line_pointAtTime FOps l t) tau0 /\ ffinite tau0 /\ Rabs (FR tau0 - FR t) <= 14 * u * (M / extent l).
Proof.
  intros H1 H26 Hs Ht HE. assert (HE2 := extent_le M l Hs).
  destruct l as [[x0 y0] [x1 y1]]. unfold solved_in, extent in *. cbn [px py l0 l1] in *.
  assert (HMc : M <= Mcap).
  { apply Rle_trans with (1 := H26). unfold M26, Mcap. bpow_lit. apply IZR_le. lia. }
  set (l := L2 (P x0 y0) (P x1 y1)) in *. set (q := Line_pointAtTime FOps l t).
  set (E := Rmax (Rabs (FR x1 - FR x0)) (Rabs (FR y1 - FR y0))) in *.
  assert (Hs' := Hs). destruct Hs' as ((Fx0 & Fy0 & Mx0 & My0) & (Fx1 & Fy1 & Mx1 & My1)). cbn [px py l0 l1 l] in *.
  assert (Bdx : Rabs (FR x1 - FR x0) <= E) by apply Rmax_l.
  assert (Bdy : Rabs (FR y1 - FR y0) <= E) by apply Rmax_r.
  destruct (line_eval_float_close M l t HMc Hs Ht) as (Fqx & Fqy & Hqx & Hqy).
  unfold l, seg2R, ptR in Hqx, Hqy. cbn [l0 l1 px py] in Hqx, Hqy.
  rewrite line_R_coords in Hqx, Hqy. cbn [px py] in Hqx, Hqy. fold l in Hqx, Hqy. fold q in Hqx, Hqy, Fqx, Fqy.
  replace (FR x0 * (1 - FR t) + FR x1 * FR t) with (FR x0 + FR t * (FR x1 - FR x0)) in Hqx by ring.
  replace (FR y0 * (1 - FR t) + FR y1 * FR t) with (FR y0 + FR t * (FR y1 - FR y0)) in Hqy by ring.
  destruct Ht as (Ft & Ht01).
  destruct (line_solve_selects M x0 y0 x1 y1 q Fx0 Fy0 Fx1 Fy1 Mx0 My0 Mx1 My1 H26 HE) as [(Hsol & Hext)|(Hsol & Hext)];
    fold l in Hsol; fold E in Hext.
  - destruct (quot_float M E x0 x1 (px q) (FR t) H1 H26 HE HE2 Fx0 Fx1 Fqx Mx0 Mx1 Hext Bdx Ht01 Hqx) as (Ftau & Htau).
    eexists. split; [exact Hsol|]. split; [left; split; [reflexivity | exact Hext]|]. split; assumption.
  - destruct (quot_float M E y0 y1 (py q) (FR t) H1 H26 HE HE2 Fy0 Fy1 Fqy My0 My1 Hext Bdy Ht01 Hqy) as (Ftau & Htau).
    eexists. split; [exact Hsol|]. split; [right; split; [reflexivity | exact Hext]|]. split; assumption.
Qed.

(* the unchecked ("I swear") variant returns the quotient unconditionally; M <= 2^26 *)
Theorem line_tOfPoint_sworn_float_close M (l : seg2 float) (t : float) :
  1 <= M -> M <= M26 -> seg2_ok M l -> t_ok t -> / 2 <= extent l ->
  let q := Line_pointAtTime FOps l t in
  let tau := Line_tOfPoint FOps l q true in
  solved_in l q tau /\ ffinite tau /\
  Rabs (FR tau - FR t) <= 14 * u * (M / extent l) /\
  pt_near (Line_pointAtTime FOps l tau) q (30 * u * M).
Proof.
  intros H1 H26 Hs Ht HE. cbv zeta.
  destruct (line_solve_float M l t H1 H26 Hs Ht HE) as (tau0 & Hsol & Hin & Ftau & Htau).
  rewrite line_tOfPoint_specO, Hsol. cbn [orb].
  split; [exact Hin|]. split; [exact Ftau|]. split; [exact Htau|].
  destruct l as [[x0 y0] [x1 y1]]. unfold extent in *. cbn [px py l0 l1] in *.
  exact (near_tau M x0 y0 x1 y1 t tau0 H1 H26 Hs Ht HE Ftau Htau).
Qed.

(* the checked variant; M <= 2^25 *)
Theorem line_tOfPoint_float_close M (l : seg2 float) (t : float) :
  1 <= M -> M <= M25 -> seg2_ok M l -> t_ok t -> / 2 <= extent l ->
  let q := Line_pointAtTime FOps l t in
  let tau := Line_tOfPoint FOps l q false in
  (* (a) the re-check passes: the result is that of the unchecked variant, a correctly rounded quotient *)
  tau = Line_tOfPoint FOps l q true /\ line_recheck FOps l q tau = true /\ solved_in l q tau /\
  ffinite tau /\
  (* (b) *)
  Rabs (FR tau - FR t) <= 14 * u * (M / extent l) /\
  (* (c) *)
  pt_near (Line_pointAtTime FOps l tau) q (30 * u * M).
Proof.
  intros H1 H2 Hs Ht HE. cbv zeta.
  assert (H26 : M <= M26) by (unfold M25, M26 in *; lra).
  destruct (line_tOfPoint_sworn_float_close M l t H1 H26 Hs Ht HE) as (Hin & Ftau & Htau & Near).
  assert (Chk := recheck_tau M l _ _ H1 H2 Near).
  assert (Eq : Line_tOfPoint FOps l (Line_pointAtTime FOps l t) false
               = Line_tOfPoint FOps l (Line_pointAtTime FOps l t) true).
  { revert Chk. rewrite 2!line_tOfPoint_specO.
    destruct (line_solveO FOps l (Line_pointAtTime FOps l t)) as [tau0|]; [|reflexivity].
    cbn [orb]. intros ->. reflexivity. }
  rewrite Eq. repeat split; try assumption; apply Near.
Qed.

(* the returned parameter stays within 2^-23 of [0,1]: in particular it is not the sentinel -1 *)
Corollary line_tOfPoint_float_range M (l : seg2 float) (t : float) :
  1 <= M -> M <= M25 -> seg2_ok M l -> t_ok t -> / 2 <= extent l ->
  let tau := Line_tOfPoint FOps l (Line_pointAtTime FOps l t) false in
  - bpow radix2 (-23) <= FR tau <= 1 + bpow radix2 (-23) /\ FR tau <> -1.
Proof.
  intros H1 H2 Hs Ht HE. cbv zeta.
  destruct (line_tOfPoint_float_close M l t H1 H2 Hs Ht HE) as (_ & _ & _ & _ & Hb & _).
  assert (HE2 := extent_le M l Hs).
  assert (PE : 0 < extent l) by lra.
  assert (R3 : M / extent l <= 67108864).
  { unfold M25 in H2. apply Rmult_le_reg_r with (extent l); [exact PE|].
    replace (M / extent l * extent l) with M by (field; lra). lra. }
  destruct Ht as (_ & Ht). apply Rabs_le_both in Hb.
  set (tau := FR (Line_tOfPoint FOps l (Line_pointAtTime FOps l t) false)) in *.
  set (r := M / extent l) in *. clearbody r tau.
  assert (Hul : u = / 9007199254740992) by reflexivity. rewrite Hul in *.
  replace (bpow radix2 (-23)) with (/ 8388608) by (bpow_lit; reflexivity). split; [lra|]. lra.
Qed.

(* the clause of the property: the point at the returned parameter coincides with the query point to within 1e-9 of
   the coordinate magnitude (30 u is 3.4e-15) *)
Corollary line_tOfPoint_float_1e9 M (l : seg2 float) (t : float) :
  1 <= M -> M <= M25 -> seg2_ok M l -> t_ok t -> / 2 <= extent l ->
  let q := Line_pointAtTime FOps l t in
  pt_near (Line_pointAtTime FOps l (Line_tOfPoint FOps l q false)) q (1e-9 * M).
Proof.
  intros H1 H2 Hs Ht HE. cbv zeta.
  destruct (line_tOfPoint_float_close M l t H1 H2 Hs Ht HE) as (_ & _ & _ & _ & _ & (A & B & C & D & Hx & Hy)).
  assert (Hul : u = / 9007199254740992) by reflexivity. rewrite Hul in *.
  repeat split; try assumption; lra.
Qed.

(* ------------------------------------------------------------------------------------------- *)
(* 3. non-vacuity, and why membership in [0,1] is not claimed                                    *)
(* ------------------------------------------------------------------------------------------- *)
(* the line (1,1)-(4,5) of Proofs/C15.v at t = 0.3 (the binary64 nearest 0.3) *)
Definition ex_line : seg2 float := (L2 (P 1 1) (P 4 5))%float.
Definition ex_t3 : float := 0x1.3333333333333p-2%float.
Lemma ex_line_ok : seg2_ok 5 ex_line.
Proof. unfold seg2_ok, pt_ok, ex_line; cbn [px py l0 l1]. repeat split; first [lit_finite | lit_le]. Qed.
Lemma ex_t3_ok : t_ok ex_t3.
Proof. unfold t_ok, ex_t3. split; [lit_finite | split; lit_le]. Qed.
Lemma ex_line_extent : extent ex_line = 4.
Proof.
  unfold extent, ex_line. cbn [px py l0 l1].
  assert (E1 : FR 1%float = 1) by (FR_compute 1%float; lra).
  assert (E4 : FR 4%float = 4) by (FR_compute 4%float; lra).
  assert (E5 : FR 5%float = 5) by (FR_compute 5%float; lra).
  rewrite E1, E4, E5. rewrite 2!Rabs_pos_eq by lra. rewrite Rmax_right by lra. lra.
Qed.
Lemma ex_M25 : 1 <= 5 /\ 5 <= M25.
Proof. unfold M25. lra. Qed.

Example line_tOfPoint_example :
  let q := Line_pointAtTime FOps ex_line ex_t3 in
  let tau := Line_tOfPoint FOps ex_line q false in
  tau = Line_tOfPoint FOps ex_line q true /\ line_recheck FOps ex_line q tau = true /\ solved_in ex_line q tau /\
  ffinite tau /\ Rabs (FR tau - FR ex_t3) <= 14 * u * (5 / 4) /\
  pt_near (Line_pointAtTime FOps ex_line tau) q (30 * u * 5).
Proof.
  assert (HE : / 2 <= extent ex_line) by (rewrite ex_line_extent; lra).
  generalize (line_tOfPoint_float_close 5 ex_line ex_t3 (proj1 ex_M25) (proj2 ex_M25) ex_line_ok ex_t3_ok HE).
  rewrite ex_line_extent. exact (fun H => H).
Qed.
(* what the theorem is about, by computation: the round trip is NOT the identity in binary64 (the parameter comes back one
   ulp high and the abscissa of its point one ulp above that of the query point); closeness is what holds *)
Example line_tOfPoint_example_values :
  Line_pointAtTime FOps ex_line ex_t3 = P 0x1.e666666666666p+0%float 0x1.199999999999ap+1%float /\
  Line_tOfPoint FOps ex_line (Line_pointAtTime FOps ex_line ex_t3) false = 0x1.3333333333334p-2%float /\
  Line_pointAtTime FOps ex_line (Line_tOfPoint FOps ex_line (Line_pointAtTime FOps ex_line ex_t3) false)
    = P 0x1.e666666666667p+0%float 0x1.199999999999ap+1%float.
Proof. vm_compute. repeat split; reflexivity. Qed.

Example line_length_example :
  ffinite (Line_length FOps ex_line) /\
  Rabs (FR (Line_length FOps ex_line) - Line_length ROps (seg2R ex_line))
    <= (3 + / 32) * u * Line_length ROps (seg2R ex_line) + bpow radix2 (-535).
Proof.
  apply (line_length_float_close 5 ex_line); [|exact ex_line_ok].
  apply Rle_trans with (bpow radix2 3); [bpow_lit; lra | apply bpow_le; lia].
Qed.
Example line_length_example_value : Line_length FOps ex_line = 5%float.
Proof. vm_compute. reflexivity. Qed.

(* ---- why the returned parameter is not claimed to lie in [0,1] ----
   (i) the recorded witness of Proofs/C15.v (coordinates about 4e8, outside the magnitude cap of section 2): the point at
       t = 1e-12 rounds to before the start and the lookup returns a negative parameter *)
Remark line_end_rounding_recalled :
  let l := C15.line_end_rounding_witness in
  PrimFloat.ltb (Line_tOfPoint FOps l (Line_pointAtTime FOps l 0x1.19799812dea11p-40%float) false) 0%float = true.
Proof. exact C15.line_end_rounding_float_refuted. Qed.

(* (ii) a witness INSIDE the hypotheses of [line_tOfPoint_float_close] (coordinates about 2e7 <= 2^25, x-extent 0.82,
        t = 7.9e-17): the theorem applies -- the parameter is finite, within 14 u M / E of t, its point within 30 u M of
        the query point, the re-check passes -- and yet the parameter is negative (-7.1e-11).  So "tau in [0,1]" cannot
        be added to the conclusion. *)
Definition w_line : seg2 float :=
  L2 (P 0x1.4b05713ad0de6p+24%float 0x1.1869fc970adeep+24%float) (P 0x1.4b05a5cd7aa98p+24%float 0x1.1869f1ea5f760p+24%float).
Definition w_t : float := 0x1.6bc14042e341fp-54%float.
Lemma w_line_ok : seg2_ok M25 w_line.
Proof. unfold seg2_ok, pt_ok, w_line, M25; cbn [px py l0 l1]. repeat split; first [lit_finite | lit_le]. Qed.
Lemma w_t_ok : t_ok w_t.
Proof. unfold t_ok, w_t. split; [lit_finite | split; lit_le]. Qed.
Lemma w_line_extent : / 2 <= extent w_line.
Proof.
  unfold extent, w_line. cbn [px py l0 l1]. eapply Rle_trans; [|apply Rmax_l]. eapply Rle_trans; [|apply Rle_abs].
  FR_compute 0x1.4b05a5cd7aa98p+24%float. FR_compute 0x1.4b05713ad0de6p+24%float. lra.
Qed.
Remark line_tOfPoint_float_leaves_unit_interval :
  let q := Line_pointAtTime FOps w_line w_t in
  let tau := Line_tOfPoint FOps w_line q false in
  (ffinite tau /\ Rabs (FR tau - FR w_t) <= 14 * u * (M25 / extent w_line) /\
   pt_near (Line_pointAtTime FOps w_line tau) q (30 * u * M25)) /\
  FR tau < 0.
Proof.
  cbv zeta.
  assert (H1 : 1 <= M25) by (unfold M25; lra).
  destruct (line_tOfPoint_float_close M25 w_line w_t H1 (Rle_refl _) w_line_ok w_t_ok w_line_extent)
    as (_ & _ & _ & F & Hb & Hc).
  split; [repeat split; try assumption; apply Hc|].
  rewrite <- FloatErr.FR_zero. apply (Fltb_true _ _ F ffinite_zero). vm_compute. reflexivity.
Qed.
