(* C03 without the genuineness hypothesis: after addExtremes every piece is monotone in x and in y up to
   sigma = 0.06% of the extent of the segment it was cut from, ALSO when a derivative coordinate of a cubic has its leading
   coefficient in the band 0 < |a| <= 1e-9 |b| (utils.quadraticRoots then solves the truncated linear equation b t + c = 0).

   The argument is coordinate-wise and mirrors Part I of Proofs/C02.v.  For a coordinate polynomial p = cpoly A B C D with
   in_band (3A) (2B):
   - p' has at most ONE zero r in [0,1] (two zeros would force |2B| = |3A| (r1 + r2) <= 2 |3A| <= 2e-9 |2B|);
   - the cut the code places is u = -C/(2B) (when in [0.01,0.99]) and |u - r| <= 1e-9 (C02.band_root_close);
   - hence on every window [a,b] between consecutive cuts kept, a zero r of p' strictly inside the window is within
     1/100 + 2e-9 of a window end: either r is within 1e-9 of the 1% / 99% marks or beyond them (sliver case), or u is a
     requested cut and r is within 1e-9 of u, which is a window end or was skipped (then within 1e-8 of the window start);
   - the back-track is then (r - e)^2 |2Ar + Ae + B| <= (1/100 + 2e-9)^2 (3|A| + |B|), and in the band
     |B| <= 4 ext + |A|, |A| <= 4e-9 ext, so this is below 4.0005e-4 ext < 6e-4 ext = sigma ext.
   A genuine coordinate is handled by C03.coord_piece_mono exactly as before; the cut list is the sorted union of the x-cuts
   and the y-cuts, and the monotonicity of one coordinate on a window only uses the cuts of THAT coordinate. *)
From Coq Require Import PrimFloat.
From Coq Require Import ZArith List Bool Reals Lra Lia Psatz.
From Coq Require Import Classical_Prop.
From Coquelicot Require Import Coquelicot.
From BZ Require Import Base.Ops Proofs.Tactics Gen.Point Gen.Utils Gen.BBox Gen.Line Gen.Quad Gen.Cubic Hand.Bounds Hand.Split.
From BZ Require Import Proofs.C01 Proofs.C02 Proofs.C03.
Import ListNotations.
Open Scope R_scope.

(* ================================================================================================ *)
(* Part A.  One coordinate polynomial in the band                                                     *)
(* ================================================================================================ *)

Lemma band_abs A B : in_band (3*A) (2*B) -> A <> 0 /\ 3 * Rabs A <= tiny * (2 * Rabs B).
Proof.
  intros [Ha Hb]. split; [intros HA; apply Ha; rewrite HA; ring|].
  rewrite !Rabs_mult in Hb. rewrite (Rabs_pos_eq 3), (Rabs_pos_eq 2) in Hb by lra. exact Hb.
Qed.

(* in the band the derivative has at most one zero in [0,1] *)
Lemma band_unique_zero A B C r1 r2 :
  in_band (3*A) (2*B) -> 0 <= r1 <= 1 -> 0 <= r2 <= 1 ->
  dcpoly A B C r1 = 0 -> dcpoly A B C r2 = 0 -> r1 = r2.
Proof.
  intros [Ha Hb] H1 H2 Z1 Z2. destruct (Req_dec r1 r2) as [E|N]; [exact E|exfalso].
  unfold dcpoly in Z1, Z2.
  assert (HB : 2*B = - (3*A) * (r1 + r2)).
  { assert (E : (r2 - r1) * (3*A*(r1 + r2) + 2*B) = 0) by (ring_simplify; lra).
    apply Rmult_integral in E. destruct E as [E|E]; lra. }
  assert (HR : Rabs (2*B) = Rabs (3*A) * (r1 + r2)).
  { rewrite HB, Rabs_mult, Rabs_Ropp, (Rabs_pos_eq (r1 + r2)) by lra. reflexivity. }
  rewrite HR in Hb. apply Rabs_pos_lt in Ha. unfold tiny in Hb.
  set (x := Rabs (3*A)) in *. set (s := r1 + r2) in *. assert (Hs : 0 <= s <= 2) by (unfold s; lra). clearbody x s.
  assert (x * s <= x * 2) by (apply Rmult_le_compat_l; lra). lra.
Qed.

(* the value at the turning point r differs from the value at a reference point e within 1/100 + 2e-9 of it by less
   than sigma E, E any bound with |B| <= 4 E + |A| (the control-polygon extent is one) *)
Lemma band_turn_bound A B C D E r e :
  in_band (3*A) (2*B) -> Rabs B <= 4 * E + Rabs A ->
  0 <= r <= 1 -> 0 <= e <= 1 -> dcpoly A B C r = 0 ->
  Rabs (r - e) <= 1/100 + 2 * tiny ->
  Rabs (cpoly A B C D r - cpoly A B C D e) <= sigma E.
Proof.
  intros Hband HB4 Hr He Hd Hn. destruct (band_abs A B Hband) as [_ Hb'].
  rewrite (zero_identity A B C D r e Hd).
  pose proof (Rabs_pos A) as HA0. pose proof (Rabs_pos B) as HB0.
  assert (HAb : - Rabs A <= A <= Rabs A) by (apply Rabs_le_between; lra).
  assert (HBb : - Rabs B <= B <= Rabs B) by (apply Rabs_le_between; lra).
  set (aA := Rabs A) in *. set (aB := Rabs B) in *. clearbody aA aB. unfold tiny in Hb', Hn.
  assert (HE : 0 <= E) by lra.
  assert (HaA : aA <= 4/1000000000 * E) by lra.
  assert (HaB : aB <= (4 + 4/1000000000) * E) by lra.
  apply Rabs_le_between in Hn.
  assert (Hs : 0 <= (r - e) * (r - e) <= 10001/100000000).
  { split; [apply Rle_0_sqr|].
    assert (0 <= (1/100 + 2 * (1/1000000000) - (r - e)) * (1/100 + 2 * (1/1000000000) + (r - e))) by (apply Rmult_le_pos; lra).
    lra. }
  assert (HQ : - (3*aA + aB) <= 2*A*r + A*e + B <= 3*aA + aB).
  { assert (- aA <= A*r <= aA) by nra. assert (- aA <= A*e <= aA) by nra. lra. }
  pose proof (prod_bound _ _ _ _ Hs HQ) as HP.
  apply Rabs_le_between. unfold sigma.
  set (w := (r - e) * (r - e)) in *. set (q := 2*A*r + A*e + B) in *.
  replace (- w * q) with (- (w * q)) by ring. set (wq := w * q) in *. clearbody wq. lra.
Qed.

(* ITEM 1 (window form).  A coordinate polynomial in the band, on a parameter window [a,b] inside [0,1]: if every zero of
   p' strictly inside the window lies within 1/100 + 2e-9 of a window end, p is monotone on the window up to sigma E. *)
Theorem cpoly_piece_monotone_band A B C D E a b :
  in_band (3*A) (2*B) -> Rabs B <= 4 * E + Rabs A ->
  0 <= a -> a <= b -> b <= 1 ->
  (forall r, a < r < b -> dcpoly A B C r = 0 -> r - a <= 1/100 + 2 * tiny \/ b - r <= 1/100 + 2 * tiny) ->
  mono_up_to (sigma E) (cpoly A B C D) a b.
Proof.
  intros Hband HB4 Ha Hab Hb H.
  destruct (classic (exists r1, a < r1 < b /\ dcpoly A B C r1 = 0)) as [[r1 [Hr1 Hz1]]|Hnone].
  - assert (M1 : inc_on (cpoly A B C D) a r1 \/ dec_on (cpoly A B C D) a r1).
    { apply cpoly_mono_no_simple_zero. intros r Hr [Hz _].
      assert (r = r1) by (apply (band_unique_zero A B C r r1 Hband); try assumption; lra). lra. }
    assert (M2 : inc_on (cpoly A B C D) r1 b \/ dec_on (cpoly A B C D) r1 b).
    { apply cpoly_mono_no_simple_zero. intros r Hr [Hz _].
      assert (r = r1) by (apply (band_unique_zero A B C r r1 Hband); try assumption; lra). lra. }
    destruct (H r1 Hr1 Hz1) as [Hlo|Hhi].
    + apply (one_turn_lo _ _ a r1 b); try assumption; try lra.
      apply band_turn_bound; try assumption; try lra. rewrite Rabs_pos_eq; lra.
    + apply (one_turn_hi _ _ a r1 b); try assumption; try lra.
      rewrite <- Rabs_Ropp. replace (- (cpoly A B C D b - cpoly A B C D r1)) with (cpoly A B C D r1 - cpoly A B C D b) by ring.
      apply band_turn_bound; try assumption; try lra. rewrite Rabs_left1; lra.
  - apply mono_exact.
    + assert (HE : 0 <= E).
      { destruct (band_abs A B Hband) as [_ Hb']. pose proof (Rabs_pos A). pose proof (Rabs_pos B). unfold tiny in Hb'. lra. }
      unfold sigma. lra.
    + apply cpoly_mono_no_simple_zero. intros r Hr [Hz _]. apply Hnone. exists r. split; assumption.
Qed.

(* ITEM 1 (cut-list form).  L is the sorted list of requested cuts, all inside [0.01,0.99]; the only thing asked of it is
   that it contains the root u = -C/(2B) of the truncated derivative 2B u + C whenever that root lies in [0.01,0.99]
   (this is what quadraticRoots returns in the band).  On every window between consecutive cuts kept by the walk (a request
   closer than 1e-8, locally, to the previous cut is skipped) the coordinate is monotone up to sigma E. *)
Theorem coord_piece_mono_band A B C D E L w :
  in_band (3*A) (2*B) -> Rabs B <= 4 * E + Rabs A ->
  sortedR L -> (forall t, In t L -> 1/100 <= t <= 99/100) ->
  (forall u, 1/100 <= u <= 99/100 -> 2*B*u + C = 0 -> In u L) ->
  In w (windows 0 (kept 0 L ++ [1])) ->
  mono_up_to (sigma E) (fun u => cpoly A B C D (fst w + u * (snd w - fst w))) 0 1.
Proof.
  intros Hband HB4 Hs HL Hin Hw. destruct (window_facts L w HL Hw) as [W0 [W1 [W2 W3]]].
  apply mono_transport; [lra|]. apply cpoly_piece_monotone_band; try assumption; try lra.
  intros r Hr Hd. unfold tiny.
  destruct (Rlt_dec r (1/100 + 1/1000000000)) as [Hlo|Hlo]; [left; lra|].
  destruct (Rlt_dec (99/100 - 1/1000000000) r) as [Hhi|Hhi]; [right; lra|].
  destruct (band_root_close A B C r Hband) as [u [Hu Hclose]]; [lra|exact Hd|].
  apply Rabs_le_between in Hclose. unfold tiny in Hclose.
  assert (HuL : In u L) by (apply Hin; [lra|exact Hu]).
  destruct (Rle_dec u (fst w)) as [Hua|Hua]; [left; lra|].
  destruct (Rle_dec (snd w) u) as [Hub|Hub]; [right; lra|].
  left. pose proof (kept_windows_cover L 0 ltac:(lra) Hs) as Hc.
  assert (u - fst w < eps8).
  { apply Hc; try assumption; try lra. intros tau Ht. specialize (HL tau Ht). lra. }
  unfold eps8 in *. lra.
Qed.

(* both regimes of one coordinate in one statement: whatever the coefficients, if the cut list contains what
   quadraticRoots reports for this coordinate (simple zeros when genuine, the linear root when in the band) *)
Lemma coord_piece_mono_total A B C D E L w :
  Rabs B <= 6 * E -> Rabs (3*A + B) <= 6 * E ->
  (in_band (3*A) (2*B) -> Rabs B <= 4 * E + Rabs A) ->
  sortedR L -> (forall t, In t L -> 1/100 <= t <= 99/100) ->
  (genuine1 (3*A) (2*B) -> forall r, 1/100 <= r <= 99/100 -> simple_zero A B C r -> In r L) ->
  (in_band (3*A) (2*B) -> forall u, 1/100 <= u <= 99/100 -> 2*B*u + C = 0 -> In u L) ->
  In w (windows 0 (kept 0 L ++ [1])) ->
  mono_up_to (sigma E) (fun u => cpoly A B C D (fst w + u * (snd w - fst w))) 0 1.
Proof.
  intros KB KA KP Hs HL HG HBd Hw.
  destruct (genuine1_or_band (3*A) (2*B)) as [G|Hband].
  - rewrite <- sigma_K. apply (coord_piece_mono A B C D (6 * E) L w); try assumption. apply HG. exact G.
  - apply (coord_piece_mono_band A B C D E L w); try assumption; [apply KP|apply HBd]; exact Hband.
Qed.

(* ================================================================================================ *)
(* Part B.  Segments: what the cut list contains, coordinate by coordinate                            *)
(* ================================================================================================ *)

Lemma band_b_nonzero a b : in_band a b -> b <> 0.
Proof.
  intros [Ha Hb] H0. rewrite H0, Rabs_R0, Rmult_0_r in Hb. apply Rabs_pos_lt in Ha. lra.
Qed.

(* a genuine coordinate: its simple zeros in [0.01,0.99] are requested (the OTHER coordinate may be in the band) *)
Lemma seg_simple_zero_reported_x s r :
  genuine1 (3 * coordA px s) (2 * coordB px s) -> 1/100 <= r <= 99/100 ->
  simple_zero (coordA px s) (coordB px s) (coordC px s) r -> In r (seg_extremes ROps s).
Proof.
  intros G Hr Hz. destruct s as [l|q|c]; cbn [coordA coordB coordC seg_extremes] in *.
  - unfold simple_zero in Hz. exfalso. destruct Hz as [_ H]. apply H. ring.
  - apply quad_findExtremes_simple_zeros. split; [exact Hr|]. left. exact Hz.
  - rewrite cubic_findExtremes_in. split; [exact Hr|left].
    apply (quadraticRoots_simple_zeros _ _ _ r G). destruct Hz as [Hz Hs]. rewrite dcpoly_quadf in Hz.
    split; [lra|]. split; [exact Hz|]. intros H0. apply Hs. lra.
Qed.
Lemma seg_simple_zero_reported_y s r :
  genuine1 (3 * coordA py s) (2 * coordB py s) -> 1/100 <= r <= 99/100 ->
  simple_zero (coordA py s) (coordB py s) (coordC py s) r -> In r (seg_extremes ROps s).
Proof.
  intros G Hr Hz. destruct s as [l|q|c]; cbn [coordA coordB coordC seg_extremes] in *.
  - unfold simple_zero in Hz. exfalso. destruct Hz as [_ H]. apply H. ring.
  - apply quad_findExtremes_simple_zeros. split; [exact Hr|]. right. exact Hz.
  - rewrite cubic_findExtremes_in. split; [exact Hr|right].
    apply (quadraticRoots_simple_zeros _ _ _ r G). destruct Hz as [Hz Hs]. rewrite dcpoly_quadf in Hz.
    split; [lra|]. split; [exact Hz|]. intros H0. apply Hs. lra.
Qed.

(* a banded coordinate (only cubics have one): the root of the truncated derivative is requested *)
Lemma seg_band_reported_x s u :
  in_band (3 * coordA px s) (2 * coordB px s) -> 1/100 <= u <= 99/100 ->
  2 * coordB px s * u + coordC px s = 0 -> In u (seg_extremes ROps s).
Proof.
  intros Hband Hu Hz. destruct s as [l|q|c]; cbn [coordA coordB coordC seg_extremes] in *.
  - exfalso. apply (proj1 Hband). ring.
  - exfalso. apply (proj1 Hband). ring.
  - rewrite cubic_findExtremes_in. split; [exact Hu|left].
    apply quadraticRoots_linear_branch; [exact (proj2 Hband)|].
    split; [exact (band_b_nonzero _ _ Hband)|]. split; [lra|exact Hz].
Qed.
Lemma seg_band_reported_y s u :
  in_band (3 * coordA py s) (2 * coordB py s) -> 1/100 <= u <= 99/100 ->
  2 * coordB py s * u + coordC py s = 0 -> In u (seg_extremes ROps s).
Proof.
  intros Hband Hu Hz. destruct s as [l|q|c]; cbn [coordA coordB coordC seg_extremes] in *.
  - exfalso. apply (proj1 Hband). ring.
  - exfalso. apply (proj1 Hband). ring.
  - rewrite cubic_findExtremes_in. split; [exact Hu|right].
    apply quadraticRoots_linear_branch; [exact (proj2 Hband)|].
    split; [exact (band_b_nonzero _ _ Hband)|]. split; [lra|exact Hz].
Qed.

Lemma seg_band_polygon sel s :
  in_band (3 * coordA sel s) (2 * coordB sel s) -> Rabs (coordB sel s) <= 4 * seg_ext sel s + Rabs (coordA sel s).
Proof.
  intros Hband. destruct s as [l|q|c]; cbn [coordA coordB seg_ext] in *.
  - exfalso. apply (proj1 Hband). ring.
  - exfalso. apply (proj1 Hband). ring.
  - apply cubic_band_polygon.
Qed.

(* ================================================================================================ *)
(* Part C.  ITEM 2: every piece is monotone up to sigma, for EVERY segment                            *)
(* ================================================================================================ *)

Theorem piece_monotone_total s g :
  split_walk ROps s (sort_ ROps (seg_extremes ROps s)) = Ok g ->
  forall p, In p g -> piece_mono s p.
Proof.
  intros Hg p Hp. set (L := sort_ ROps (seg_extremes ROps s)) in *.
  assert (HL : forall t, In t L -> 1/100 <= t <= 99/100).
  { intros t Ht. unfold L in Ht. rewrite sort_in in Ht. apply (seg_extremes_window s t Ht). }
  assert (HL1 : List.Forall (fun t => t < 1) L) by (apply Forall_forall; intros t Ht; specialize (HL t Ht); lra).
  destruct (split_walk_refines s L g HL1 Hg) as [_ Hf].
  destruct (Forall2_in_l _ _ _ p Hf Hp) as [w [Hw [_ He]]].
  assert (HS : sortedR L) by apply sort_sortedR.
  split.
  - destruct (seg_K_bounds px s) as [KB KA].
    pose proof (coord_piece_mono_total (coordA px s) (coordB px s) (coordC px s) (px (seg_start s)) (seg_ext px s) L w
                  KB KA (seg_band_polygon px s) HS HL) as H.
    eapply mono_up_to_ext; [|apply H; [| |exact Hw]].
    + intros u. cbn beta. rewrite He, seg_px_poly. reflexivity.
    + intros G r Hr Hz. unfold L. rewrite sort_in. apply seg_simple_zero_reported_x; assumption.
    + intros Hband u Hu Hz. unfold L. rewrite sort_in. apply seg_band_reported_x; assumption.
  - destruct (seg_K_bounds py s) as [KB KA].
    pose proof (coord_piece_mono_total (coordA py s) (coordB py s) (coordC py s) (py (seg_start s)) (seg_ext py s) L w
                  KB KA (seg_band_polygon py s) HS HL) as H.
    eapply mono_up_to_ext; [|apply H; [| |exact Hw]].
    + intros u. cbn beta. rewrite He, seg_py_poly. reflexivity.
    + intros G r Hr Hz. unfold L. rewrite sort_in. apply seg_simple_zero_reported_y; assumption.
    + intros Hband u Hu Hz. unfold L. rewrite sort_in. apply seg_band_reported_y; assumption.
Qed.

(* ================================================================================================ *)
(* Part D.  ITEM 3: the path-level statements; only the NoDup premise (defect D14) stays              *)
(* ================================================================================================ *)

Theorem addExtremes_monotone_total segs :
  NoDup segs ->
  exists out groups, addExtremes ROps segs = Ok out /\ out = concat groups /\
    Forall2 (fun s g => refines_seg s g /\ forall p, In p g -> piece_mono s p) segs groups.
Proof.
  intros Hnd. rewrite addExtremes_abs.
  destruct (walk_abs_groups segs (extreme_requests segs) (extreme_requests_lt1 segs)) as [groups [Hw Hf]].
  exists (concat groups), groups. split; [exact Hw|]. split; [reflexivity|].
  rewrite (consumed_nodup segs _ Hnd) in Hf.
  apply (Forall2_combine3 (fun s L => In s segs /\ L = extreme_requests segs s)
           (fun sL g => split_walk ROps (fst sL) (snd sL) = Ok g)
           (fun s g => refines_seg s g /\ forall p, In p g -> piece_mono s p)) with (l2 := map (extreme_requests segs) segs);
    [|apply Forall2_map_sub; auto|exact Hf].
  intros s L g [Hs ->] Hg. cbn [fst snd] in Hg. split.
  - exists (kept 0 (extreme_requests segs s)). apply split_walk_refines; [apply extreme_requests_lt1|exact Hg].
  - unfold extreme_requests in Hg. rewrite (requests_extremes_nodup s segs Hnd Hs) in Hg.
    apply (piece_monotone_total s g Hg).
Qed.

Corollary addExtremes_monotone_pieces_total segs out :
  NoDup segs -> addExtremes ROps segs = Ok out ->
  forall p, In p out -> exists s, In s segs /\ piece_mono s p.
Proof.
  intros Hnd H p Hp. destruct (addExtremes_monotone_total segs Hnd) as [out' [groups [H' [-> Hf]]]].
  rewrite H in H'. inversion H'; subst. apply in_concat in Hp. destruct Hp as [g [Hg Hpg]].
  destruct (Forall2_in_r _ _ _ g Hf Hg) as [s [Hs [_ Hm]]]. exists s. split; [exact Hs|apply Hm; exact Hpg].
Qed.

(* ================================================================================================ *)
(* Part E.  ITEM 4: a cubic in the band                                                               *)
(* ================================================================================================ *)
(* x-coordinates 0, -1, -1, 2e-10: x(t) = 2e-10 t^3 + 3 t^2 - 3 t, x'(t) = 6e-10 t^2 + 6 t - 3, so the leading coefficient
   of x' is a = 1e-10 b.  y-coordinates 0, 100, 100, 0 (the arch): y' = -600 t + 300, genuine.  quadraticRoots reports
   1/2 for x' (root of 6 t - 3) although x'(1/2) = 1.5e-10 <> 0; the old theorem does not apply, the new one does. *)
Definition band_arch : seg4 R := C4 (P 0 0) (P (-1) 100) (P (-1) 100) (P (2/10000000000) 0).

Lemma band_arch_coeffs :
  3 * cfA px band_arch = 6/10000000000 /\ 2 * cfB px band_arch = 6 /\ cfC px band_arch = -3.
Proof. unfold cfA, cfB, cfC, band_arch; cbn [c0 c1 c2 c3 px py]. repeat split; field. Qed.

Lemma band_arch_in_band : in_band (3 * cfA px band_arch) (2 * cfB px band_arch).
Proof.
  destruct band_arch_coeffs as [-> [-> _]]. split; [lra|]. unfold tiny. rewrite !Rabs_pos_eq by lra. lra.
Qed.

Lemma band_arch_not_genuine : ~ genuine band_arch.
Proof.
  intros [[G|G] _]; destruct band_arch_coeffs as [Ea [Eb _]]; rewrite Ea in G; [lra|].
  rewrite Eb in G. unfold tiny in G. rewrite !Rabs_pos_eq in G by lra. lra.
Qed.

Example band_arch_pieces_monotone :
  ~ genuine_seg (SCubic band_arch) /\
  In (1/2) (seg_extremes ROps (SCubic band_arch)) /\
  px (Quad_pointAtTime ROps (Cubic_derivative ROps band_arch) (1/2)) <> 0 /\
  exists g, split_walk ROps (SCubic band_arch) (sort_ ROps (seg_extremes ROps (SCubic band_arch))) = Ok g /\
            forall p, In p g -> piece_mono (SCubic band_arch) p.
Proof.
  split; [exact band_arch_not_genuine|]. split; [|split].
  - cbn [seg_extremes]. rewrite cubic_findExtremes_in. split; [lra|left].
    apply quadraticRoots_linear_branch; [exact (proj2 band_arch_in_band)|].
    destruct band_arch_coeffs as [_ [-> ->]]. repeat split; lra.
  - rewrite cubic_dx_poly. destruct band_arch_coeffs as [-> [-> ->]]. unfold quadf. lra.
  - set (s := SCubic band_arch).
    destruct (split_walk_retraces s (sort_ ROps (seg_extremes ROps s))) as [g [Hg _]].
    { apply Forall_forall. intros t Ht. rewrite sort_in in Ht. apply seg_extremes_window in Ht. lra. }
    exists g. split; [exact Hg|]. apply (piece_monotone_total s g Hg).
Qed.

(* the same segment on a path: the old path-level theorem needs genuine_seg for every segment, the new one does not *)
Example band_arch_path :
  let segs := [SCubic band_arch; SLine (L2 (P (2/10000000000) 0) (P 0 0))] in
  NoDup segs /\ ~ (forall s, In s segs -> genuine_seg s) /\
  exists out, addExtremes ROps segs = Ok out /\ forall p, In p out -> exists s, In s segs /\ piece_mono s p.
Proof.
  cbn zeta. split; [|split].
  - constructor; [|constructor; [intros []|constructor]]. intros [H|[]]. discriminate H.
  - intros H. apply band_arch_not_genuine. apply (H (SCubic band_arch)). left. reflexivity.
  - destruct (addExtremes_monotone_total [SCubic band_arch; SLine (L2 (P (2/10000000000) 0) (P 0 0))]) as [out [groups [Ho _]]].
    { constructor; [|constructor; [intros []|constructor]]. intros [H|[]]. discriminate H. }
    exists out. split; [exact Ho|]. apply addExtremes_monotone_pieces_total; [|exact Ho].
    constructor; [|constructor; [intros []|constructor]]. intros [H|[]]. discriminate H.
Qed.
