(* C04: additivity of the computed length under splitting, within tolerance, for gently parametrised cubics.
   The two pieces of Cubic_splitAtTime s t retrace s over [0,t] and [t,1] (Proofs/C01.v), so their speeds are t * speed(u t) and
   (1-t) * speed(t + u (1-t)): the same bounds m <= speed <= M scaled by t resp. 1-t, hence the same ratio.  By the accuracy theorem of
   Proofs/C04acc.v each of the three computed lengths is within 2e-4 of its exact arc length, and the exact arc lengths add up. *)
From Coq Require Import Reals Lra List.
Import ListNotations.
From Coquelicot Require Import Coquelicot.
From BZ Require Import Base.Ops Gen.Point Gen.Line Gen.Quad Gen.Cubic Proofs.Tactics Proofs.C01 Proofs.C04 Proofs.C10flat Proofs.C04poly Proofs.C04acc.
Open Scope R_scope.

Lemma cubic_dx_left (s : seg4 R) t u : cubic_dx (fst (Cubic_splitAtTime ROps s t)) u = t * cubic_dx s (u * t).
Proof. unfold cubic_dx. destruct_pts. rcbv. ring. Qed.
Lemma cubic_dy_left (s : seg4 R) t u : cubic_dy (fst (Cubic_splitAtTime ROps s t)) u = t * cubic_dy s (u * t).
Proof. unfold cubic_dy. destruct_pts. rcbv. ring. Qed.
Lemma cubic_dx_right (s : seg4 R) t u : cubic_dx (snd (Cubic_splitAtTime ROps s t)) u = (1 - t) * cubic_dx s (t + u * (1 - t)).
Proof. unfold cubic_dx. destruct_pts. rcbv. ring. Qed.
Lemma cubic_dy_right (s : seg4 R) t u : cubic_dy (snd (Cubic_splitAtTime ROps s t)) u = (1 - t) * cubic_dy s (t + u * (1 - t)).
Proof. unfold cubic_dy. destruct_pts. rcbv. ring. Qed.

Lemma cubic_speed_left (s : seg4 R) t u : 0 <= t -> cubic_speed (fst (Cubic_splitAtTime ROps s t)) u = t * cubic_speed s (u * t).
Proof. intro Ht. unfold cubic_speed. rewrite cubic_dx_left, cubic_dy_left, norm2_scal, Rabs_pos_eq by exact Ht. reflexivity. Qed.
Lemma cubic_speed_right (s : seg4 R) t u : t <= 1 ->
  cubic_speed (snd (Cubic_splitAtTime ROps s t)) u = (1 - t) * cubic_speed s (t + u * (1 - t)).
Proof. intro Ht. unfold cubic_speed. rewrite cubic_dx_right, cubic_dy_right, norm2_scal, Rabs_pos_eq by lra. reflexivity. Qed.

Lemma cubic_speed_continuous (s : seg4 R) t : continuous (cubic_speed s) t.
Proof. exact (speed_cont (cubic_dx s) (cubic_dy s) (cubic_dx_cont s) (cubic_dy_cont s) t). Qed.
Lemma cubic_speed_ex_RInt (s : seg4 R) a b : ex_RInt (cubic_speed s) a b.
Proof. apply (@ex_RInt_continuous R_CompleteNormedModule). intros z _. apply cubic_speed_continuous. Qed.

(* exact arc lengths of the pieces: the parent's arc length over [0,t] and [t,1] *)
Lemma cubic_arclen_left (s : seg4 R) t : 0 <= t ->
  cubic_arclen (fst (Cubic_splitAtTime ROps s t)) 0 1 = cubic_arclen s 0 t.
Proof.
  intro Ht. unfold cubic_arclen.
  replace (RInt (cubic_speed s) 0 t) with (RInt (cubic_speed s) (t * 0 + 0) (t * 1 + 0)) by (f_equal; ring).
  rewrite <- (RInt_comp_lin (cubic_speed s) t 0 0 1) by (apply cubic_speed_ex_RInt).
  apply RInt_ext. intros u _. rewrite (cubic_speed_left s t u Ht).
  change (t * cubic_speed s (u * t) = t * cubic_speed s (t * u + 0)). f_equal. f_equal. ring.
Qed.
Lemma cubic_arclen_right (s : seg4 R) t : t <= 1 ->
  cubic_arclen (snd (Cubic_splitAtTime ROps s t)) 0 1 = cubic_arclen s t 1.
Proof.
  intro Ht. unfold cubic_arclen.
  replace (RInt (cubic_speed s) t 1) with (RInt (cubic_speed s) ((1 - t) * 0 + t) ((1 - t) * 1 + t)) by (f_equal; ring).
  rewrite <- (RInt_comp_lin (cubic_speed s) (1 - t) t 0 1) by (apply cubic_speed_ex_RInt).
  apply RInt_ext. intros u _. rewrite (cubic_speed_right s t u Ht).
  change ((1 - t) * cubic_speed s (t + u * (1 - t)) = (1 - t) * cubic_speed s ((1 - t) * u + t)). f_equal. f_equal. ring.
Qed.

(* additivity within tolerance: speed within a factor 2 on [0,1], any split parameter strictly inside *)
Theorem cubic_length_additive_gentle (s : seg4 R) (m M t : R) :
  0 < m -> (forall u, 0 <= u <= 1 -> m <= cubic_speed s u <= M) -> M <= 2 * m -> 0 < t < 1 ->
  let l := fst (Cubic_splitAtTime ROps s t) in let r := snd (Cubic_splitAtTime ROps s t) in
  Rabs (Cubic_length ROps s - (Cubic_length ROps l + Cubic_length ROps r)) <= 4 / 10 ^ 4 * cubic_arclen s 0 1.
Proof.
  intros Hm Hs HM Ht l r.
  assert (Hl : forall u, 0 <= u <= 1 -> t * m <= cubic_speed l u <= t * M).
  { intros u Hu. unfold l. rewrite (cubic_speed_left s t u) by lra.
    assert (0 <= u * t <= 1) by nra. destruct (Hs (u * t) H) as [H1 H2]. split; apply Rmult_le_compat_l; lra. }
  assert (Hr : forall u, 0 <= u <= 1 -> (1 - t) * m <= cubic_speed r u <= (1 - t) * M).
  { intros u Hu. unfold r. rewrite (cubic_speed_right s t u) by lra.
    assert (0 <= t + u * (1 - t) <= 1) by nra. destruct (Hs _ H) as [H1 H2]. split; apply Rmult_le_compat_l; lra. }
  pose proof (cubic_length_accuracy_2 s m M Hm Hs HM) as A0.
  assert (A1 := cubic_length_accuracy_2 l (t * m) (t * M) ltac:(nra) Hl ltac:(nra)).
  assert (A2 := cubic_length_accuracy_2 r ((1 - t) * m) ((1 - t) * M) ltac:(nra) Hr ltac:(nra)).
  unfold l in A1. unfold r in A2.
  rewrite (cubic_arclen_left s t) in A1 by lra. rewrite (cubic_arclen_right s t) in A2 by lra.
  pose proof (cubic_arclen_Chasles s 0 t 1) as Hc.
  pose proof (cubic_arclen_nonneg s 0 t ltac:(lra)) as N1. pose proof (cubic_arclen_nonneg s t 1 ltac:(lra)) as N2.
  fold l in A1. fold r in A2.
  apply Rabs_le_between in A0, A1, A2. apply Rabs_le.
  assert (E : 2 / 10 ^ 4 = 2 / 10000) by (simpl; lra). rewrite E in *. replace (4 / 10 ^ 4) with (4 / 10000) by (simpl; lra).
  lra.
Qed.

(* ---------- the same for quadratics ---------- *)
Lemma quad_dx_left (s : seg3 R) t u : quad_dx (fst (Quad_splitAtTime ROps s t)) u = t * quad_dx s (u * t).
Proof. unfold quad_dx. destruct_pts. rcbv. ring. Qed.
Lemma quad_dy_left (s : seg3 R) t u : quad_dy (fst (Quad_splitAtTime ROps s t)) u = t * quad_dy s (u * t).
Proof. unfold quad_dy. destruct_pts. rcbv. ring. Qed.
Lemma quad_dx_right (s : seg3 R) t u : quad_dx (snd (Quad_splitAtTime ROps s t)) u = (1 - t) * quad_dx s (t + u * (1 - t)).
Proof. unfold quad_dx. destruct_pts. rcbv. ring. Qed.
Lemma quad_dy_right (s : seg3 R) t u : quad_dy (snd (Quad_splitAtTime ROps s t)) u = (1 - t) * quad_dy s (t + u * (1 - t)).
Proof. unfold quad_dy. destruct_pts. rcbv. ring. Qed.
Lemma quad_speed_left (s : seg3 R) t u : 0 <= t -> quad_speed (fst (Quad_splitAtTime ROps s t)) u = t * quad_speed s (u * t).
Proof. intro Ht. unfold quad_speed. rewrite quad_dx_left, quad_dy_left, norm2_scal, Rabs_pos_eq by exact Ht. reflexivity. Qed.
Lemma quad_speed_right (s : seg3 R) t u : t <= 1 -> quad_speed (snd (Quad_splitAtTime ROps s t)) u = (1 - t) * quad_speed s (t + u * (1 - t)).
Proof. intro Ht. unfold quad_speed. rewrite quad_dx_right, quad_dy_right, norm2_scal, Rabs_pos_eq by lra. reflexivity. Qed.
Lemma quad_speed_continuous (s : seg3 R) t : continuous (quad_speed s) t.
Proof. exact (speed_cont (quad_dx s) (quad_dy s) (quad_dx_cont s) (quad_dy_cont s) t). Qed.
Lemma quad_speed_ex_RInt (s : seg3 R) a b : ex_RInt (quad_speed s) a b.
Proof. apply (@ex_RInt_continuous R_CompleteNormedModule). intros z _. apply quad_speed_continuous. Qed.
Lemma quad_arclen_left (s : seg3 R) t : 0 <= t -> quad_arclen (fst (Quad_splitAtTime ROps s t)) 0 1 = quad_arclen s 0 t.
Proof.
  intro Ht. unfold quad_arclen.
  replace (RInt (quad_speed s) 0 t) with (RInt (quad_speed s) (t * 0 + 0) (t * 1 + 0)) by (f_equal; ring).
  rewrite <- (RInt_comp_lin (quad_speed s) t 0 0 1) by (apply quad_speed_ex_RInt).
  apply RInt_ext. intros u _. rewrite (quad_speed_left s t u Ht).
  change (t * quad_speed s (u * t) = t * quad_speed s (t * u + 0)). f_equal. f_equal. ring.
Qed.
Lemma quad_arclen_right (s : seg3 R) t : t <= 1 -> quad_arclen (snd (Quad_splitAtTime ROps s t)) 0 1 = quad_arclen s t 1.
Proof.
  intro Ht. unfold quad_arclen.
  replace (RInt (quad_speed s) t 1) with (RInt (quad_speed s) ((1 - t) * 0 + t) ((1 - t) * 1 + t)) by (f_equal; ring).
  rewrite <- (RInt_comp_lin (quad_speed s) (1 - t) t 0 1) by (apply quad_speed_ex_RInt).
  apply RInt_ext. intros u _. rewrite (quad_speed_right s t u Ht).
  change ((1 - t) * quad_speed s (t + u * (1 - t)) = (1 - t) * quad_speed s ((1 - t) * u + t)). f_equal. f_equal. ring.
Qed.
Theorem quad_length_additive_gentle (s : seg3 R) (m M t : R) :
  0 < m -> (forall u, 0 <= u <= 1 -> m <= quad_speed s u <= M) -> M <= 2 * m -> 0 < t < 1 ->
  let l := fst (Quad_splitAtTime ROps s t) in let r := snd (Quad_splitAtTime ROps s t) in
  Rabs (Quad_length ROps s - (Quad_length ROps l + Quad_length ROps r)) <= 4 / 10 ^ 4 * quad_arclen s 0 1.
Proof.
  intros Hm Hs HM Ht l r.
  assert (Hl : forall u, 0 <= u <= 1 -> t * m <= quad_speed l u <= t * M).
  { intros u Hu. unfold l. rewrite (quad_speed_left s t u) by lra.
    assert (0 <= u * t <= 1) by nra. destruct (Hs (u * t) H) as [H1 H2]. split; apply Rmult_le_compat_l; lra. }
  assert (Hr : forall u, 0 <= u <= 1 -> (1 - t) * m <= quad_speed r u <= (1 - t) * M).
  { intros u Hu. unfold r. rewrite (quad_speed_right s t u) by lra.
    assert (0 <= t + u * (1 - t) <= 1) by nra. destruct (Hs _ H) as [H1 H2]. split; apply Rmult_le_compat_l; lra. }
  pose proof (quad_length_accuracy_2 s m M Hm Hs HM) as A0.
  assert (A1 := quad_length_accuracy_2 l (t * m) (t * M) ltac:(nra) Hl ltac:(nra)).
  assert (A2 := quad_length_accuracy_2 r ((1 - t) * m) ((1 - t) * M) ltac:(nra) Hr ltac:(nra)).
  unfold l in A1. unfold r in A2.
  rewrite (quad_arclen_left s t) in A1 by lra. rewrite (quad_arclen_right s t) in A2 by lra.
  pose proof (quad_arclen_Chasles s 0 t 1) as Hc.
  pose proof (quad_arclen_nonneg s 0 t ltac:(lra)) as N1. pose proof (quad_arclen_nonneg s t 1 ltac:(lra)) as N2.
  fold l in A1. fold r in A2.
  apply Rabs_le_between in A0, A1, A2. apply Rabs_le.
  assert (E : 2 / 10 ^ 4 = 2 / 10000) by (simpl; lra). rewrite E in *. replace (4 / 10 ^ 4) with (4 / 10000) by (simpl; lra).
  lra.
Qed.
