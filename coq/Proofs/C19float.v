(* C19 on binary64 -- the bounding-box predicates and the sweep pairing, executed on finite doubles, coincide with
   the real-number instance applied to the real values of the inputs.  These functions only COMPARE their inputs
   (no arithmetic), and binary64 comparison of finite doubles is exact (Base/FloatCmp.v), so the whole of C19
   (Proofs/C19.v, proved over R) transports to floats.  Finiteness is necessary: a NaN coordinate makes every
   comparison false while its real image is 0 (see [includes_needs_finite]).
   The proofs about the GENERATED predicates never look at generated variable names: they unfold the definitions and
   rewrite every float comparison into the corresponding real comparison. *)
From Coq Require Import PrimFloat.
From Coq Require Import ZArith List Bool Reals Lra Lia.
From Coq Require Import Sorting.Permutation.
From BZ Require Import Base.Ops Base.FloatCmp Proofs.Tactics Gen.BBox Hand.Sweep Proofs.C19.
Import ListNotations.
Open Scope R_scope.

(* ================================================================================================ *)
(* Part 0: mapping float geometry to real geometry                                                   *)
(* ================================================================================================ *)

Definition ptR (p : pt float) : pt R := P (FR (px p)) (FR (py p)).
Definition bboxR (b : bbox float) : bbox R := BB (ptR (bl b)) (ptR (tr b)).
Definition pt_finite (p : pt float) : Prop := ffinite (px p) /\ ffinite (py p).
Definition bbox_finite (b : bbox float) : Prop := pt_finite (bl b) /\ pt_finite (tr b).

(* discharge [ffinite (coordinate)] side conditions from bbox_finite / pt_finite hypotheses *)
Ltac fin :=
  repeat match goal with
  | H : bbox_finite _ |- _ => destruct H as [[? ?] [? ?]]
  | H : pt_finite _ |- _ => destruct H as [? ?]
  end; assumption.

(* rewrite every float comparison of the goal's left-hand side into the real comparison of the FR values *)
Ltac cmp_to_real :=
  rewrite ?FOps_leb_ROps, ?FOps_ltb_ROps, ?FOps_eqb_ROps by fin.

(* ================================================================================================ *)
(* Part 1: the generated predicates                                                                  *)
(* ================================================================================================ *)

Theorem includes_float_eq_real (b : bbox float) (p : pt float) :
  bbox_finite b -> pt_finite p ->
  BBox_includes FOps b p = BBox_includes ROps (bboxR b) (ptR p).
Proof.
  intros Hb Hp. unfold BBox_includes. cmp_to_real. reflexivity.
Qed.

Theorem overlaps_float_eq_real (a b : bbox float) :
  bbox_finite a -> bbox_finite b ->
  BBox_overlaps FOps a b = BBox_overlaps ROps (bboxR a) (bboxR b).
Proof.
  intros Ha Hb. cbv [BBox_overlaps BBox_left BBox_right BBox_top BBox_bottom]. cmp_to_real. reflexivity.
Qed.

(* ---------- the real theorems, transported ---------- *)

Corollary includes_float_iff (b : bbox float) (p : pt float) :
  bbox_finite b -> pt_finite p ->
  (BBox_includes FOps b p = true <->
   (FR (px (bl b)) <= FR (px p) <= FR (px (tr b)) /\ FR (py (bl b)) <= FR (py p) <= FR (py (tr b)))).
Proof.
  intros Hb Hp. rewrite (includes_float_eq_real b p Hb Hp). exact (includes_iff (bboxR b) (ptR p)).
Qed.

Corollary overlaps_float_iff (a b : bbox float) :
  bbox_finite a -> bbox_finite b ->
  (BBox_overlaps FOps a b = true <->
   ((FR (px (bl a)) <= FR (px (tr b)) /\ FR (px (bl b)) <= FR (px (tr a))) /\
    (FR (py (bl a)) <= FR (py (tr b)) /\ FR (py (bl b)) <= FR (py (tr a))))).
Proof.
  intros Ha Hb. rewrite (overlaps_float_eq_real a b Ha Hb). exact (overlaps_iff (bboxR a) (bboxR b)).
Qed.

Corollary overlaps_float_false_iff (a b : bbox float) :
  bbox_finite a -> bbox_finite b ->
  (BBox_overlaps FOps a b = false <->
   (FR (px (tr a)) < FR (px (bl b)) \/ FR (px (tr b)) < FR (px (bl a)) \/
    FR (py (tr a)) < FR (py (bl b)) \/ FR (py (tr b)) < FR (py (bl a)))).
Proof.
  intros Ha Hb. rewrite (overlaps_float_eq_real a b Ha Hb). exact (overlaps_false_iff (bboxR a) (bboxR b)).
Qed.

Corollary overlaps_float_sym (a b : bbox float) :
  bbox_finite a -> bbox_finite b ->
  BBox_overlaps FOps a b = BBox_overlaps FOps b a.
Proof.
  intros Ha Hb. rewrite (overlaps_float_eq_real a b Ha Hb), (overlaps_float_eq_real b a Hb Ha).
  apply overlaps_sym.
Qed.

(* ================================================================================================ *)
(* Part 2: the sweep -- every stage commutes with the mapping                                        *)
(* ================================================================================================ *)

Notation evF := (@ev float).
Definition evR (e : evF) : @ev R :=
  Ev (FR (ekey e)) (eisA e) (eadd e) (eid e) (bboxR (ebox e)).
Definition ev_finite (e : evF) : Prop := ffinite (ekey e) /\ bbox_finite (ebox e).

(* ---------- events_from ---------- *)
Lemma events_from_map isA (l : list (bbox float)) : forall i,
  map evR (events_from isA i l) = events_from isA i (map bboxR l).
Proof.
  induction l as [|b r IH]; intros i; [reflexivity|].
  cbn [events_from map]. rewrite IH. reflexivity.
Qed.

Lemma events_from_finite isA (l : list (bbox float)) : Forall bbox_finite l ->
  forall i, Forall ev_finite (events_from isA i l).
Proof.
  induction 1 as [|b r Hb Hr IH]; intros i; cbn [events_from]; [constructor|].
  constructor; [|constructor; [|apply IH]]; (split; [cbn [ekey]; fin | exact Hb]).
Qed.

(* ---------- insert_ev / sort_ev ---------- *)
Lemma ltb_ev (e y : evF) : ev_finite e -> ev_finite y ->
  ltb FOps (ekey e) (ekey y) = ltb ROps (ekey (evR e)) (ekey (evR y)).
Proof. intros [He _] [Hy _]. exact (FOps_ltb_ROps _ _ He Hy). Qed.

Lemma insert_ev_map (e : evF) (l : list evF) : ev_finite e -> Forall ev_finite l ->
  map evR (insert_ev FOps e l) = insert_ev ROps (evR e) (map evR l).
Proof.
  intros He. induction 1 as [|y r Hy Hr IH]; [reflexivity|].
  cbn [insert_ev map]. rewrite (ltb_ev e y He Hy).
  destruct (ltb ROps (ekey (evR e)) (ekey (evR y))); cbn [map]; [reflexivity|].
  rewrite IH. reflexivity.
Qed.

Lemma insert_ev_finite (e : evF) (l : list evF) : ev_finite e -> Forall ev_finite l ->
  Forall ev_finite (insert_ev FOps e l).
Proof.
  intros He. induction 1 as [|y r Hy Hr IH]; cbn [insert_ev]; [constructor; [exact He|constructor]|].
  destruct (ltb FOps (ekey e) (ekey y)).
  - constructor; [exact He|]. constructor; assumption.
  - constructor; assumption.
Qed.

Lemma sort_fold_map (l : list evF) : Forall ev_finite l -> forall acc, Forall ev_finite acc ->
  map evR (fold_left (fun acc e => insert_ev FOps e acc) l acc) =
  fold_left (fun acc e => insert_ev ROps e acc) (map evR l) (map evR acc)
  /\ Forall ev_finite (fold_left (fun acc e => insert_ev FOps e acc) l acc).
Proof.
  induction 1 as [|e r He Hr IH]; intros acc Hacc; cbn [fold_left map]; [split; [reflexivity|exact Hacc]|].
  rewrite <- (insert_ev_map e acc He Hacc). apply IH. apply insert_ev_finite; assumption.
Qed.

Lemma sort_ev_map (l : list evF) : Forall ev_finite l ->
  map evR (sort_ev FOps l) = sort_ev ROps (map evR l).
Proof. intros Hl. exact (proj1 (sort_fold_map l Hl [] (Forall_nil _))). Qed.

Lemma sort_ev_finite (l : list evF) : Forall ev_finite l -> Forall ev_finite (sort_ev FOps l).
Proof. intros Hl. exact (proj2 (sort_fold_map l Hl [] (Forall_nil _))). Qed.

(* ---------- step ---------- *)
Definition actR (ob : nat * bbox float) : nat * bbox R := (fst ob, bboxR (snd ob)).
Definition stR (st : @state float) : @state R :=
  (map actR (fst (fst st)), map actR (snd (fst st)), snd st).
Definition act_finite (l : @active float) : Prop := Forall (fun ob => bbox_finite (snd ob)) l.
Definition st_finite (st : @state float) : Prop := act_finite (fst (fst st)) /\ act_finite (snd (fst st)).

Lemma filter_map_commute {X Y} (f : X -> Y) (p : X -> bool) (q : Y -> bool) (l : list X) :
  (forall x, In x l -> p x = q (f x)) -> map f (filter p l) = filter q (map f l).
Proof.
  induction l as [|x r IH]; intros H; [reflexivity|].
  cbn [filter map]. rewrite <- (H x (or_introl eq_refl)).
  rewrite <- IH by (intros z Hz; apply H; right; exact Hz).
  destruct (p x); reflexivity.
Qed.

Lemma act_finite_filter p (l : @active float) : act_finite l -> act_finite (filter p l).
Proof.
  unfold act_finite. rewrite !Forall_forall. intros H x Hx. apply filter_In in Hx. apply H, Hx.
Qed.

Lemma act_finite_snoc (l : @active float) i b : act_finite l -> bbox_finite b -> act_finite (l ++ [(i, b)]).
Proof. intros Hl Hb. apply Forall_app. split; [exact Hl|]. constructor; [exact Hb|constructor]. Qed.

(* the pairs found when an event's box is added, on both carriers *)
Lemma found_map (s : bool) (i : nat) (bx : bbox float) (other : @active float) :
  bbox_finite bx -> act_finite other ->
  map (fun ob => (s, i, fst ob)) (filter (fun ob => BBox_overlaps FOps bx (snd ob)) other) =
  map (fun ob => (s, i, fst ob)) (filter (fun ob => BBox_overlaps ROps (bboxR bx) (snd ob)) (map actR other)).
Proof.
  intros He Ho.
  rewrite <- (filter_map_commute actR (fun ob => BBox_overlaps FOps bx (snd ob))
                (fun ob => BBox_overlaps ROps (bboxR bx) (snd ob))).
  - rewrite map_map. reflexivity.
  - intros ob Hob. apply overlaps_float_eq_real; [exact He|].
    unfold act_finite in Ho. rewrite Forall_forall in Ho. apply Ho, Hob.
Qed.

Lemma remove_map (i : nat) (l : @active float) :
  map actR (filter (fun ob => negb (Nat.eqb (fst ob) i)) l) =
  filter (fun ob => negb (Nat.eqb (fst ob) i)) (map actR l).
Proof. apply filter_map_commute. intros; reflexivity. Qed.

Lemma step_map (st : @state float) (e : evF) : st_finite st -> ev_finite e ->
  stR (step FOps st e) = step ROps (stR st) (evR e).
Proof.
  destruct st as [[aa ab] out]. intros [Ha Hb] [_ He]. cbn [fst snd] in Ha, Hb.
  destruct e as [k ia ad i bx]. cbn [ebox] in He.
  unfold step, stR, evR. cbn [fst snd ekey eisA eadd eid ebox].
  destruct ad; destruct ia; cbn [fst snd].
  - rewrite map_app. rewrite (found_map true i bx ab He Hb). reflexivity.
  - rewrite map_app. rewrite (found_map false i bx aa He Ha). reflexivity.
  - rewrite remove_map. reflexivity.
  - rewrite remove_map. reflexivity.
Qed.

Lemma step_finite (st : @state float) (e : evF) : st_finite st -> ev_finite e -> st_finite (step FOps st e).
Proof.
  destruct st as [[aa ab] out]. intros [Ha Hb] [_ He]. cbn [fst snd] in Ha, Hb.
  unfold step, st_finite.
  destruct (eadd e); destruct (eisA e); cbn [fst snd]; split;
    auto using act_finite_filter, act_finite_snoc.
Qed.

(* ---------- the fold ---------- *)
Lemma fold_step_map (l : list evF) : Forall ev_finite l -> forall st, st_finite st ->
  stR (fold_left (step FOps) l st) = fold_left (step ROps) (map evR l) (stR st).
Proof.
  induction 1 as [|e r He Hr IH]; intros st Hst; cbn [fold_left map]; [reflexivity|].
  rewrite <- (step_map st e Hst He). apply IH. apply step_finite; assumption.
Qed.

(* ---------- the whole function ---------- *)
Theorem sweep_float_eq_real (A B : list (bbox float)) :
  Forall bbox_finite A -> Forall bbox_finite B ->
  bbox_intersections FOps A B = bbox_intersections ROps (map bboxR A) (map bboxR B).
Proof.
  intros HA HB. unfold bbox_intersections.
  assert (Hev : Forall ev_finite (events_from true 0 A ++ events_from false 0 B)).
  { apply Forall_app. split; apply events_from_finite; assumption. }
  rewrite <- !events_from_map, <- map_app, <- (sort_ev_map _ Hev).
  change (@nil (nat * bbox R), @nil (nat * bbox R), @nil (bool * nat * nat))
    with (stR (@nil (nat * bbox float), @nil (nat * bbox float), @nil (bool * nat * nat))).
  rewrite <- fold_step_map.
  - reflexivity.
  - apply sort_ev_finite. exact Hev.
  - split; constructor.
Qed.

(* the float instance with any recorded libm table: these functions never call libm, so the table is irrelevant *)
Lemma FOpsT_irrelevant tbl (A B : list (bbox float)) (a b : bbox float) (p : pt float) :
  BBox_includes (FOpsT tbl) b p = BBox_includes FOps b p /\
  BBox_overlaps (FOpsT tbl) a b = BBox_overlaps FOps a b /\
  bbox_intersections (FOpsT tbl) A B = bbox_intersections FOps A B.
Proof. repeat split; reflexivity. Qed.

(* ================================================================================================ *)
(* Part 3: the sweep theorem on floats                                                               *)
(* ================================================================================================ *)

(* the hypotheses of the real theorem, stated on the real values of the float coordinates *)
Definition wf_boxesF (l : list (bbox float)) : Prop :=
  Forall (fun b => FR (px (bl b)) <= FR (px (tr b))) l.
Definition tie_freeF (A B : list (bbox float)) : Prop :=
  forall a b, In a A -> In b B ->
    Rmax (FR (px (bl a))) (FR (px (bl b))) < Rmin (FR (px (tr a))) (FR (px (tr b))) \/
    (FR (px (tr a)) < FR (px (bl b)) \/ FR (px (tr b)) < FR (px (bl a))).
Definition no_bad_tieF (A B : list (bbox float)) : Prop :=
  forall a b, In a A -> In b B -> BBox_overlaps FOps a b = true ->
    FR (px (bl a)) <= FR (px (bl b)) -> FR (px (bl b)) < FR (px (tr a)).

Definition dboxF : bbox float := BB (P 0%float 0%float) (P 0%float 0%float).
Definition all_overlapping_pairsF (A B : list (bbox float)) : list (nat * nat) :=
  filter (fun ij => BBox_overlaps FOps (nth (fst ij) A dboxF) (nth (snd ij) B dboxF))
         (list_prod (seq 0 (length A)) (seq 0 (length B))).

Lemma wf_boxesF_real l : wf_boxesF l <-> wf_boxes (map bboxR l).
Proof. unfold wf_boxesF, wf_boxes. rewrite Forall_map. reflexivity. Qed.

Lemma tie_freeF_real A B : tie_freeF A B <-> tie_free (map bboxR A) (map bboxR B).
Proof.
  unfold tie_freeF, tie_free. split.
  - intros H a b Ha Hb. apply in_map_iff in Ha. apply in_map_iff in Hb.
    destruct Ha as [a' [<- Ha]]. destruct Hb as [b' [<- Hb]]. exact (H a' b' Ha Hb).
  - intros H a b Ha Hb. exact (H (bboxR a) (bboxR b) (in_map bboxR A a Ha) (in_map bboxR B b Hb)).
Qed.

Lemma no_bad_tieF_real A B : Forall bbox_finite A -> Forall bbox_finite B ->
  (no_bad_tieF A B <-> no_bad_tie (map bboxR A) (map bboxR B)).
Proof.
  intros HA HB. rewrite Forall_forall in HA, HB. unfold no_bad_tieF, no_bad_tie. split.
  - intros H a b Ha Hb. apply in_map_iff in Ha. apply in_map_iff in Hb.
    destruct Ha as [a' [<- Ha]]. destruct Hb as [b' [<- Hb]].
    rewrite <- (overlaps_float_eq_real a' b' (HA a' Ha) (HB b' Hb)). exact (H a' b' Ha Hb).
  - intros H a b Ha Hb. rewrite (overlaps_float_eq_real a b (HA a Ha) (HB b Hb)).
    exact (H (bboxR a) (bboxR b) (in_map bboxR A a Ha) (in_map bboxR B b Hb)).
Qed.

Lemma dboxF_real : bboxR dboxF = dbox.
Proof. unfold bboxR, ptR, dboxF, dbox. cbn [px py bl tr]. rewrite FR_zero. reflexivity. Qed.

Lemma nth_bboxR i l : nth i (map bboxR l) dbox = bboxR (nth i l dboxF).
Proof. rewrite <- dboxF_real. apply map_nth. Qed.

Lemma nth_finite i l : Forall bbox_finite l -> bbox_finite (nth i l dboxF).
Proof.
  intros Hl. rewrite Forall_forall in Hl. destruct (nth_in_or_default i l dboxF) as [H|H].
  - apply Hl, H.
  - rewrite H. repeat split; apply ffinite_by_computation; vm_compute; reflexivity.
Qed.

Lemma all_overlapping_pairsF_real A B : Forall bbox_finite A -> Forall bbox_finite B ->
  all_overlapping_pairsF A B = all_overlapping_pairs (map bboxR A) (map bboxR B).
Proof.
  intros HA HB. unfold all_overlapping_pairsF, all_overlapping_pairs. rewrite !map_length.
  apply filter_ext. intros [i j]. cbn [fst snd]. rewrite !nth_bboxR.
  apply overlaps_float_eq_real; apply nth_finite; assumption.
Qed.

(* the theorem of the property, on floats: the pairing reports exactly the overlapping pairs, each once *)
Theorem sweep_float_eq_all_pairs (A B : list (bbox float)) :
  Forall bbox_finite A -> Forall bbox_finite B -> wf_boxesF A -> wf_boxesF B -> tie_freeF A B ->
  Permutation (map as_ab (bbox_intersections FOps A B)) (all_overlapping_pairsF A B).
Proof.
  intros HA HB WA WB Htf.
  rewrite (sweep_float_eq_real A B HA HB), (all_overlapping_pairsF_real A B HA HB).
  apply sweep_eq_all_pairs; [apply wf_boxesF_real, WA | apply wf_boxesF_real, WB | apply tie_freeF_real, Htf].
Qed.

Corollary sweep_float_no_duplicates (A B : list (bbox float)) :
  Forall bbox_finite A -> Forall bbox_finite B ->
  NoDup (map as_ab (bbox_intersections FOps A B)).
Proof. intros HA HB. rewrite (sweep_float_eq_real A B HA HB). apply sweep_nodup. Qed.

Corollary sweep_float_sound (A B : list (bbox float)) :
  Forall bbox_finite A -> Forall bbox_finite B ->
  forall i j, In (i, j) (map as_ab (bbox_intersections FOps A B)) ->
    (i < length A)%nat /\ (j < length B)%nat /\
    BBox_overlaps FOps (nth i A dboxF) (nth j B dboxF) = true.
Proof.
  intros HA HB i j H. rewrite (sweep_float_eq_real A B HA HB) in H. apply sweep_sound in H.
  rewrite !map_length, !nth_bboxR in H.
  rewrite (overlaps_float_eq_real _ _ (nth_finite i A HA) (nth_finite j B HB)). exact H.
Qed.

Corollary sweep_float_sound_complete (A B : list (bbox float)) :
  Forall bbox_finite A -> Forall bbox_finite B -> wf_boxesF A -> wf_boxesF B -> tie_freeF A B ->
  forall i j, In (i, j) (map as_ab (bbox_intersections FOps A B)) <->
              ((i < length A)%nat /\ (j < length B)%nat /\
               BBox_overlaps FOps (nth i A dboxF) (nth j B dboxF) = true).
Proof.
  intros HA HB WA WB Htf i j.
  rewrite (sweep_float_eq_real A B HA HB).
  rewrite (overlaps_float_eq_real _ _ (nth_finite i A HA) (nth_finite j B HB)), <- !nth_bboxR.
  rewrite <- (map_length bboxR A), <- (map_length bboxR B).
  apply sweep_sound_complete; [apply wf_boxesF_real, WA | apply wf_boxesF_real, WB | apply tie_freeF_real, Htf].
Qed.

(* the exact condition (no well-formedness needed), as over R *)
Theorem sweep_float_eq_all_pairs_iff (A B : list (bbox float)) :
  Forall bbox_finite A -> Forall bbox_finite B ->
  (Permutation (map as_ab (bbox_intersections FOps A B)) (all_overlapping_pairsF A B) <-> no_bad_tieF A B).
Proof.
  intros HA HB.
  rewrite (sweep_float_eq_real A B HA HB), (all_overlapping_pairsF_real A B HA HB), (no_bad_tieF_real A B HA HB).
  apply sweep_eq_all_pairs_iff.
Qed.

(* ================================================================================================ *)
(* Part 4: the finiteness hypothesis is necessary; the hypotheses are satisfiable                    *)
(* ================================================================================================ *)

(* a NaN point coordinate: no box includes the point (every comparison with NaN is false) *)
Lemma includes_nan_x_false (b : bbox float) (y : float) : BBox_includes FOps b (P PrimFloat.nan y) = false.
Proof.
  unfold BBox_includes. cbn [px py].
  change (leb FOps) with PrimFloat.leb. change (ltb FOps) with PrimFloat.ltb.
  rewrite ?Fleb_nan_l, ?Fleb_nan_r, ?Fltb_nan_l, ?Fltb_nan_r.
  rewrite ?andb_false_r, ?andb_false_l. reflexivity.
Qed.

Example includes_nan_false_computed :
  BBox_includes FOps (BB (P 0%float 0%float) (P 1%float 1%float)) (P PrimFloat.nan 0.5%float) = false.
Proof. vm_compute. reflexivity. Qed.

(* ... while the real image of NaN is 0, which the real image of the box does include: without finiteness the
   float and real instances disagree *)
Theorem includes_needs_finite :
  exists (b : bbox float) (p : pt float), bbox_finite b /\ ~ pt_finite p /\
    BBox_includes FOps b p = false /\ BBox_includes ROps (bboxR b) (ptR p) = true.
Proof.
  exists dboxF, (P PrimFloat.nan 0%float). split; [|split; [|split]].
  - apply (nth_finite 0 []). constructor.
  - intros [H _]. exact (nan_not_finite H).
  - apply includes_nan_x_false.
  - apply includes_iff. unfold bboxR, ptR, dboxF. cbn [px py bl tr]. rewrite FR_nan, FR_zero. lra.
Qed.

(* a NaN box coordinate: overlaps is written with negated strict tests, all false on NaN, so a box whose right
   edge is NaN "overlaps" a box lying entirely to its right *)
Example overlaps_nan_true_computed :
  BBox_overlaps FOps (BB (P 0%float 0%float) (P PrimFloat.nan 1%float))
                     (BB (P 5%float 0%float) (P 6%float 1%float)) = true.
Proof. vm_compute. reflexivity. Qed.

(* ---------- concrete finite inputs satisfy the hypotheses (the theorems are not vacuous) ---------- *)
Ltac finite_by_computation :=
  repeat (first [ split | constructor ]); apply ffinite_by_computation; vm_compute; reflexivity.

Definition exboxF : bbox float := BB (P 0%float 0%float) (P 1%float 1%float).
Definition exptF : pt float := P 0.5%float 1%float.

Example example_finite : bbox_finite exboxF /\ pt_finite exptF.
Proof. split; finite_by_computation. Qed.

Example example_includes_float : BBox_includes FOps exboxF exptF = true.
Proof. vm_compute. reflexivity. Qed.

(* hence, by the transport theorem, the real values lie in the closed ranges (boundary y = top included) *)
Example example_includes_real :
  FR 0%float <= FR 0.5%float <= FR 1%float /\ FR 0%float <= FR 1%float <= FR 1%float.
Proof.
  destruct example_finite as [Hb Hp].
  exact (proj1 (includes_float_iff exboxF exptF Hb Hp) example_includes_float).
Qed.

Definition exAF : list (bbox float) :=
  [BB (P 0%float 0%float) (P 2%float 2%float); BB (P 5%float 0%float) (P 6%float 1%float)].
Definition exBF : list (bbox float) := [BB (P 1%float 1%float) (P 3%float 3%float)].

Example sweep_float_example : bbox_intersections FOps exAF exBF = [(false, 0%nat, 0%nat)].
Proof. vm_compute. reflexivity. Qed.

Example sweep_float_example_finite : Forall bbox_finite exAF /\ Forall bbox_finite exBF.
Proof. split; finite_by_computation. Qed.

(* order facts about the real values of the literals, obtained from the float comparisons themselves *)
Ltac FR_lt a b :=
  let H := fresh "Hlt" in
  assert (H : FR a < FR b)
    by (apply Fltb_true; [apply ffinite_by_computation; vm_compute; reflexivity
                         |apply ffinite_by_computation; vm_compute; reflexivity
                         |vm_compute; reflexivity]).

Example sweep_float_example_hyps : wf_boxesF exAF /\ wf_boxesF exBF /\ tie_freeF exAF exBF.
Proof.
  FR_lt 0%float 1%float. FR_lt 1%float 2%float. FR_lt 2%float 3%float. FR_lt 3%float 5%float. FR_lt 5%float 6%float.
  split; [|split].
  - repeat constructor; cbn [px bl tr]; lra.
  - repeat constructor; cbn [px bl tr]; lra.
  - intros a b Ha Hb. simpl in Ha, Hb. destruct Hb as [Hb|[]]. subst b.
    destruct Ha as [Ha|[Ha|[]]]; subst a; cbn [px bl tr].
    + left. unfold Rmax, Rmin.
      destruct (Rle_dec (FR 0) (FR 1)); destruct (Rle_dec (FR 2) (FR 3)); lra.
    + right. right. lra.
Qed.

(* the general float theorem instantiated *)
Example sweep_float_example_thm :
  Permutation (map as_ab (bbox_intersections FOps exAF exBF)) (all_overlapping_pairsF exAF exBF).
Proof.
  destruct sweep_float_example_finite as [HA HB]. destruct sweep_float_example_hyps as [WA [WB Htf]].
  exact (sweep_float_eq_all_pairs exAF exBF HA HB WA WB Htf).
Qed.
