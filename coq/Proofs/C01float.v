(* C01, floating-point clause: the binary64 instance of the generated evaluation / splitting / derivative kernels is
   within a few units of roundoff u = 2^-53 (times the largest control-coordinate magnitude M) of the real-number
   instance applied to the real values of the same inputs.  Proved with Flocq through Base/FloatErr.v.

   Hypotheses everywhere: every control coordinate c is a finite float with |FR c| <= M, M <= Mcap = 2^1000 (excludes
   overflow), and t is a finite float with 0 <= FR t <= 1.
   Conclusions: every output coordinate is finite and within  K u M + k eta  (eta = 2^-1075) of the real kernel:
       Point.lerp, Line.pointAtTime, Line.splitAtTime      K = 7,   k = 4
       Quad.pointAtTime                                    K = 26,  k = 6
       Quad.splitAtTime (all six control points)           K = 25,  k = 10
       Line.pointAtTime o Quad.derivative                  K = 41,  k = 10   (derivative controls are <= 4 M)
       Cubic.pointAtTime                                   K = 74,  k = 8
       Cubic.splitAtTime (all eight control points)        K = 73,  k = 22
       Quad.pointAtTime o Cubic.derivative                 K = 199, k = 22   (derivative controls are <= 6 M)
   and hence within 1e-12 * M + 2^-1070 [theorems ..._1e12], or within 1e-12 * M when M >= 2^-1000 [theorems ..._1e12_rel].
   The absolute term cannot be dropped for arbitrarily small M (products with a control coordinate can underflow).
   The constants are what magnitude tracking gives (each Bernstein weight is bounded separately, so the cubic is
   analysed as if its value could reach 8 M); they are not sharp, but three orders of magnitude below 1e-12.

   The generated definitions (Gen/*.v) are only ever unfolded by a name-agnostic [cbv -[...]]; the error analysis
   reifies whatever float expression comes out and follows its structure (tactic [fbound]). *)
From Coq Require Import ZArith Reals Lra Lia List QArith Qreals.
From Flocq Require Import Core.
From Coq Require Import Floats.
From BZ Require Import Base.Ops Base.FloatErr Gen.Point Gen.Line Gen.Quad Gen.Cubic.
Open Scope R_scope.

(* ---- float segments seen as real segments ---- *)
Definition ptR (p : pt float) : pt R := P (FR (px p)) (FR (py p)).
Definition seg2R (s : seg2 float) : seg2 R := L2 (ptR (l0 s)) (ptR (l1 s)).
Definition seg3R (s : seg3 float) : seg3 R := Q3 (ptR (q0 s)) (ptR (q1 s)) (ptR (q2 s)).
Definition seg4R (s : seg4 float) : seg4 R := C4 (ptR (c0 s)) (ptR (c1 s)) (ptR (c2 s)) (ptR (c3 s)).

(* ---- hypotheses: finite coordinates of magnitude at most M; finite parameter in [0,1] ---- *)
Definition pt_ok (M : R) (p : pt float) : Prop :=
  ffinite (px p) /\ ffinite (py p) /\ Rabs (FR (px p)) <= M /\ Rabs (FR (py p)) <= M.
Definition seg2_ok M (s : seg2 float) := pt_ok M (l0 s) /\ pt_ok M (l1 s).
Definition seg3_ok M (s : seg3 float) := pt_ok M (q0 s) /\ pt_ok M (q1 s) /\ pt_ok M (q2 s).
Definition seg4_ok M (s : seg4 float) := pt_ok M (c0 s) /\ pt_ok M (c1 s) /\ pt_ok M (c2 s) /\ pt_ok M (c3 s).
Definition t_ok (t : float) : Prop := ffinite t /\ 0 <= FR t <= 1.
(* the generous magnitude cap that excludes overflow in every kernel below *)
Definition Mcap : R := bpow radix2 1000.

(* ---- conclusions: a float point is finite and coordinatewise within e of a real point ---- *)
Definition pt_close (p : pt float) (q : pt R) (e : R) : Prop :=
  ffinite (px p) /\ ffinite (py p) /\ Rabs (FR (px p) - px q) <= e /\ Rabs (FR (py p) - py q) <= e.
Definition seg2_close (a : seg2 float) (b : seg2 R) e := pt_close (l0 a) (l0 b) e /\ pt_close (l1 a) (l1 b) e.
Definition seg3_close (a : seg3 float) (b : seg3 R) e :=
  pt_close (q0 a) (q0 b) e /\ pt_close (q1 a) (q1 b) e /\ pt_close (q2 a) (q2 b) e.
Definition seg4_close (a : seg4 float) (b : seg4 R) e :=
  pt_close (c0 a) (c0 b) e /\ pt_close (c1 a) (c1 b) e /\ pt_close (c2 a) (c2 b) e /\ pt_close (c3 a) (c3 b) e.

Lemma pt_close_weaken p q e e' : pt_close p q e -> e <= e' -> pt_close p q e'.
Proof. intros (A & B & C & D) H. repeat split; auto; lra. Qed.

(* ---- proof machinery ---- *)
Definition capQ : Q := inject_Z (2 ^ 1000).
Lemma Q2R_capQ : Q2R capQ = Mcap.
Proof. unfold capQ. rewrite Q2R_inject_Z. reflexivity. Qed.

(* t and 1 - t (the latter with the sharp magnitude bound 1), as leaves for the bound procedure *)
Lemma approx_t_L M t : t_ok t -> approx t (FR t) (leval M (lconst 0)) (leval M (lconst 1)).
Proof.
  intros (Ft & Ht). apply approx_leaf_const; [exact Ft|].
  change 1%Q with (inject_Z 1). rewrite Q2R_inject_Z. rewrite Rabs_pos_eq; lra.
Qed.
Lemma approx_one_minus_L M t : t_ok t ->
  approx (PrimFloat.sub (ZtoF 1) t) (1 - FR t) (leval M (lconst (inject_Z 2 * uQ + etaQ))) (leval M (lconst 1)).
Proof.
  intros (Ft & Ht).
  assert (A1 : approx (ZtoF 1) 1 0 1) by (apply (approx_ofZ 1); vm_compute; reflexivity).
  assert (At : approx t (FR t) 0 1) by (apply approx_exact; [exact Ft | rewrite Rabs_pos_eq; lra]).
  rewrite 2!leval_lconst, Q2R_plus, Q2R_mult, Q2R_inject_Z, Q2R_uQ, Q2R_etaQ.
  change 1%Q with (inject_Z 1). rewrite Q2R_inject_Z.
  eapply approx_weaken; [eapply approx_sub_b with (b' := 1); [exact A1 | exact At | | ] | | ].
  - rewrite Rabs_pos_eq; lra.
  - approx_side.
  - lra.
  - lra.
Qed.

(* full unfolding of a model term down to float primitives on one side and real primitives on the other *)
Ltac fcbv :=
  cbv -[FR ffinite approx pt_close PrimFloat.add PrimFloat.sub PrimFloat.mul PrimFloat.div PrimFloat.opp PrimFloat.abs
        PrimFloat.sqrt ZtoF u eta fmax Mcap bpow leval
        Rplus Rminus Rmult Rdiv Ropp Rinv IZR Rabs Rle Rlt Rge Rgt].
(* leaves: every finite float with a magnitude hypothesis |FR x| <= M becomes an exact leaf *)
Ltac leaf_hyps M :=
  repeat match goal with
  | Hf : ffinite ?x, Hm : Rabs (FR ?x) <= M |- _ =>
    lazymatch goal with
    | _ : approx x _ _ _ |- _ => fail
    | _ => pose proof (approx_leaf_M M x Hf Hm)
    end
  end.
Lemma pt_close_intro (x y : float) (rx ry e : R) :
  (ffinite x /\ Rabs (FR x - rx) <= e) -> (ffinite y /\ Rabs (FR y - ry) <= e) -> pt_close (P x y) (P rx ry) e.
Proof. intros (A & B) (C & D). repeat split; assumption. Qed.
Lemma cap_hyp M x : Rabs (FR x) <= M -> M <= Mcap -> 0 <= M <= Q2R capQ.
Proof. intros H1 H2. rewrite Q2R_capQ. split; [eapply Rle_trans; [apply Rabs_pos | exact H1] | exact H2]. Qed.
(* one coordinate, bound given as  k1 * u * M + k2 * eta  with integer literals k1 k2 *)
Ltac coord_close M HMq :=
  lazymatch goal with
  | |- ffinite _ /\ Rabs (FR _ - _) <= IZR ?k1 * u * M + IZR ?k2 * eta =>
    rewrite <- (leval_u_eta M k1 k2); fbound capQ M HMq
  end.
(* all the points of a goal made of pt_close conjuncts *)
Ltac close_all M HMq :=
  fcbv; repeat (lazymatch goal with |- _ /\ _ => split end); apply pt_close_intro; coord_close M HMq.
(* parameter facts *)
Ltac t_hyps M t Ht := pose proof (approx_one_minus_L M t Ht); pose proof (approx_t_L M t Ht).

(* ---- Point.lerp ---- *)
Theorem lerp_float_close M (a b : pt float) t :
  M <= Mcap -> pt_ok M a -> pt_ok M b -> t_ok t ->
  pt_close (Point_lerp FOps a b t) (Point_lerp ROps (ptR a) (ptR b) (FR t)) (7 * u * M + 4 * eta).
Proof.
  intros HM Ha Hb Ht. destruct a as [ax ay], b as [bx by_].
  destruct Ha as (Fax & Fay & Max & May), Hb as (Fbx & Fby & Mbx & Mby). cbn [px py] in *.
  assert (HMq := cap_hyp M ax Max HM). t_hyps M t Ht. leaf_hyps M.
  close_all M HMq.
Qed.

(* ---- Line ---- *)
Theorem line_eval_float_close M (s : seg2 float) t :
  M <= Mcap -> seg2_ok M s -> t_ok t ->
  pt_close (Line_pointAtTime FOps s t) (Line_pointAtTime ROps (seg2R s) (FR t)) (7 * u * M + 4 * eta).
Proof.
  intros HM Hs Ht. destruct s as [[x0 y0] [x1 y1]].
  destruct Hs as ((Fx0 & Fy0 & Mx0 & My0) & (Fx1 & Fy1 & Mx1 & My1)). cbn [px py l0 l1] in *.
  assert (HMq := cap_hyp M x0 Mx0 HM). t_hyps M t Ht. leaf_hyps M.
  close_all M HMq.
Qed.
Theorem line_split_float_close M (s : seg2 float) t :
  M <= Mcap -> seg2_ok M s -> t_ok t ->
  seg2_close (fst (Line_splitAtTime FOps s t)) (fst (Line_splitAtTime ROps (seg2R s) (FR t))) (7 * u * M + 4 * eta) /\
  seg2_close (snd (Line_splitAtTime FOps s t)) (snd (Line_splitAtTime ROps (seg2R s) (FR t))) (7 * u * M + 4 * eta).
Proof.
  intros HM Hs Ht. destruct s as [[x0 y0] [x1 y1]].
  destruct Hs as ((Fx0 & Fy0 & Mx0 & My0) & (Fx1 & Fy1 & Mx1 & My1)). cbn [px py l0 l1] in *.
  assert (HMq := cap_hyp M x0 Mx0 HM). t_hyps M t Ht. leaf_hyps M.
  close_all M HMq.
Qed.

(* ---- Quadratic ---- *)
Theorem quad_eval_float_close M (s : seg3 float) t :
  M <= Mcap -> seg3_ok M s -> t_ok t ->
  pt_close (Quad_pointAtTime FOps s t) (Quad_pointAtTime ROps (seg3R s) (FR t)) (26 * u * M + 6 * eta).
Proof.
  intros HM Hs Ht. destruct s as [[x0 y0] [x1 y1] [x2 y2]].
  destruct Hs as ((Fx0 & Fy0 & Mx0 & My0) & (Fx1 & Fy1 & Mx1 & My1) & (Fx2 & Fy2 & Mx2 & My2)).
  cbn [px py q0 q1 q2] in *.
  assert (HMq := cap_hyp M x0 Mx0 HM). t_hyps M t Ht. leaf_hyps M.
  close_all M HMq.
Qed.
Theorem quad_split_float_close M (s : seg3 float) t :
  M <= Mcap -> seg3_ok M s -> t_ok t ->
  seg3_close (fst (Quad_splitAtTime FOps s t)) (fst (Quad_splitAtTime ROps (seg3R s) (FR t))) (25 * u * M + 10 * eta) /\
  seg3_close (snd (Quad_splitAtTime FOps s t)) (snd (Quad_splitAtTime ROps (seg3R s) (FR t))) (25 * u * M + 10 * eta).
Proof.
  intros HM Hs Ht. destruct s as [[x0 y0] [x1 y1] [x2 y2]].
  destruct Hs as ((Fx0 & Fy0 & Mx0 & My0) & (Fx1 & Fy1 & Mx1 & My1) & (Fx2 & Fy2 & Mx2 & My2)).
  cbn [px py q0 q1 q2] in *.
  assert (HMq := cap_hyp M x0 Mx0 HM). t_hyps M t Ht. leaf_hyps M.
  close_all M HMq.
Qed.
(* the derivative segment (controls 2 (P_{i+1} - P_i), magnitude at most 4 M) evaluated as a line *)
Theorem quad_derivative_float_close M (s : seg3 float) t :
  M <= Mcap -> seg3_ok M s -> t_ok t ->
  pt_close (Line_pointAtTime FOps (Quad_derivative FOps s) t)
           (Line_pointAtTime ROps (Quad_derivative ROps (seg3R s)) (FR t)) (41 * u * M + 10 * eta).
Proof.
  intros HM Hs Ht. destruct s as [[x0 y0] [x1 y1] [x2 y2]].
  destruct Hs as ((Fx0 & Fy0 & Mx0 & My0) & (Fx1 & Fy1 & Mx1 & My1) & (Fx2 & Fy2 & Mx2 & My2)).
  cbn [px py q0 q1 q2] in *.
  assert (HMq := cap_hyp M x0 Mx0 HM). t_hyps M t Ht. leaf_hyps M.
  close_all M HMq.
Qed.

(* ---- Cubic ---- *)
Theorem cubic_eval_float_close M (s : seg4 float) t :
  M <= Mcap -> seg4_ok M s -> t_ok t ->
  pt_close (Cubic_pointAtTime FOps s t) (Cubic_pointAtTime ROps (seg4R s) (FR t)) (74 * u * M + 8 * eta).
Proof.
  intros HM Hs Ht. destruct s as [[x0 y0] [x1 y1] [x2 y2] [x3 y3]].
  destruct Hs as ((Fx0 & Fy0 & Mx0 & My0) & (Fx1 & Fy1 & Mx1 & My1) & (Fx2 & Fy2 & Mx2 & My2) & (Fx3 & Fy3 & Mx3 & My3)).
  cbn [px py c0 c1 c2 c3] in *.
  assert (HMq := cap_hyp M x0 Mx0 HM). t_hyps M t Ht. leaf_hyps M.
  close_all M HMq.
Qed.
Theorem cubic_split_float_close M (s : seg4 float) t :
  M <= Mcap -> seg4_ok M s -> t_ok t ->
  seg4_close (fst (Cubic_splitAtTime FOps s t)) (fst (Cubic_splitAtTime ROps (seg4R s) (FR t))) (73 * u * M + 22 * eta) /\
  seg4_close (snd (Cubic_splitAtTime FOps s t)) (snd (Cubic_splitAtTime ROps (seg4R s) (FR t))) (73 * u * M + 22 * eta).
Proof.
  intros HM Hs Ht. destruct s as [[x0 y0] [x1 y1] [x2 y2] [x3 y3]].
  destruct Hs as ((Fx0 & Fy0 & Mx0 & My0) & (Fx1 & Fy1 & Mx1 & My1) & (Fx2 & Fy2 & Mx2 & My2) & (Fx3 & Fy3 & Mx3 & My3)).
  cbn [px py c0 c1 c2 c3] in *.
  assert (HMq := cap_hyp M x0 Mx0 HM). t_hyps M t Ht. leaf_hyps M.
  close_all M HMq.
Qed.
(* the derivative segment (controls 3 (P_{i+1} - P_i), magnitude at most 6 M) evaluated as a quadratic *)
Theorem cubic_derivative_float_close M (s : seg4 float) t :
  M <= Mcap -> seg4_ok M s -> t_ok t ->
  pt_close (Quad_pointAtTime FOps (Cubic_derivative FOps s) t)
           (Quad_pointAtTime ROps (Cubic_derivative ROps (seg4R s)) (FR t)) (199 * u * M + 22 * eta).
Proof.
  intros HM Hs Ht. destruct s as [[x0 y0] [x1 y1] [x2 y2] [x3 y3]].
  destruct Hs as ((Fx0 & Fy0 & Mx0 & My0) & (Fx1 & Fy1 & Mx1 & My1) & (Fx2 & Fy2 & Mx2 & My2) & (Fx3 & Fy3 & Mx3 & My3)).
  cbn [px py c0 c1 c2 c3] in *.
  assert (HMq := cap_hyp M x0 Mx0 HM). t_hyps M t Ht. leaf_hyps M.
  close_all M HMq.
Qed.

(* ---- the 1e-12 forms ----
   absolute-plus-relative:  1e-12 * M + 2^-1070   (the 2^-1070 only covers underflow of the last products; it cannot be
   dropped for arbitrarily small M: with all coordinates 2^-1074 and t = 1/2 a line evaluates to 0, an error of M);
   purely relative 1e-12 * M once M >= 2^-1000. *)
Lemma tol_abs M k1 k2 : 0 <= M -> (k1 <= 9007)%Z -> (k2 <= 32)%Z ->
  IZR k1 * u * M + IZR k2 * eta <= 1e-12 * M + bpow radix2 (-1070).
Proof.
  intros HM H1 H2. apply IZR_le in H1, H2.
  assert (Hu : 9007 * u <= 1e-12) by (fp_consts; lra).
  assert (He : 32 * eta = bpow radix2 (-1070)).
  { unfold eta. change (-1070)%Z with (5 + -1075)%Z. rewrite bpow_plus. change (bpow radix2 5) with 32. ring. }
  apply Rplus_le_compat.
  - apply Rmult_le_compat_r; [exact HM|]. eapply Rle_trans; [|exact Hu].
    apply Rmult_le_compat_r; [apply Rlt_le, u_pos | exact H1].
  - rewrite <- He. apply Rmult_le_compat_r; [apply Rlt_le, eta_pos | exact H2].
Qed.
Lemma tol_rel M k1 k2 : bpow radix2 (-1000) <= M -> (k1 <= 9000)%Z -> (k2 <= 32)%Z ->
  IZR k1 * u * M + IZR k2 * eta <= 1e-12 * M.
Proof.
  intros HM H1 H2. apply IZR_le in H1, H2.
  assert (HM0 : 0 <= M) by (eapply Rle_trans; [apply bpow_ge_0 | exact HM]).
  assert (Hu : 9000 * u + bpow radix2 (-70) <= 1e-12) by (fp_consts; lra).
  assert (He : 32 * eta = bpow radix2 (-70) * bpow radix2 (-1000)).
  { unfold eta. rewrite <- bpow_plus. change (-70 + -1000)%Z with (5 + -1075)%Z. rewrite bpow_plus.
    change (bpow radix2 5) with 32. ring. }
  apply Rle_trans with (9000 * u * M + bpow radix2 (-70) * M).
  - apply Rplus_le_compat.
    + apply Rmult_le_compat_r; [exact HM0|]. apply Rmult_le_compat_r; [apply Rlt_le, u_pos | exact H1].
    + apply Rle_trans with (32 * eta); [apply Rmult_le_compat_r; [apply Rlt_le, eta_pos | exact H2]|].
      rewrite He. apply Rmult_le_compat_l; [apply bpow_ge_0 | exact HM].
  - rewrite <- Rmult_plus_distr_r. apply Rmult_le_compat_r; [exact HM0 | exact Hu].
Qed.
Lemma pt_ok_nonneg M p : pt_ok M p -> 0 <= M.
Proof. intros (_ & _ & H & _). eapply Rle_trans; [apply Rabs_pos | exact H]. Qed.
Lemma seg2_close_weaken a b e e' : seg2_close a b e -> e <= e' -> seg2_close a b e'.
Proof. intros (A & B) H. split; eapply pt_close_weaken; eassumption. Qed.
Lemma seg3_close_weaken a b e e' : seg3_close a b e -> e <= e' -> seg3_close a b e'.
Proof. intros (A & B & C) H. repeat split; eapply pt_close_weaken; eassumption. Qed.
Lemma seg4_close_weaken a b e e' : seg4_close a b e -> e <= e' -> seg4_close a b e'.
Proof. intros (A & B & C & D) H. repeat split; eapply pt_close_weaken; eassumption. Qed.

Theorem lerp_float_1e12 M (a b : pt float) t :
  M <= Mcap -> pt_ok M a -> pt_ok M b -> t_ok t ->
  pt_close (Point_lerp FOps a b t) (Point_lerp ROps (ptR a) (ptR b) (FR t)) (1e-12 * M + bpow radix2 (-1070)).
Proof.
  intros HM Ha Hb Ht. eapply pt_close_weaken; [apply (lerp_float_close M); assumption|].
  apply tol_abs; [exact (pt_ok_nonneg M a Ha) | lia | lia].
Qed.
Theorem line_eval_float_1e12 M (s : seg2 float) t :
  M <= Mcap -> seg2_ok M s -> t_ok t ->
  pt_close (Line_pointAtTime FOps s t) (Line_pointAtTime ROps (seg2R s) (FR t)) (1e-12 * M + bpow radix2 (-1070)).
Proof.
  intros HM Hs Ht. eapply pt_close_weaken; [apply (line_eval_float_close M); assumption|].
  apply tol_abs; [exact (pt_ok_nonneg M _ (proj1 Hs)) | lia | lia].
Qed.
Theorem quad_eval_float_1e12 M (s : seg3 float) t :
  M <= Mcap -> seg3_ok M s -> t_ok t ->
  pt_close (Quad_pointAtTime FOps s t) (Quad_pointAtTime ROps (seg3R s) (FR t)) (1e-12 * M + bpow radix2 (-1070)).
Proof.
  intros HM Hs Ht. eapply pt_close_weaken; [apply (quad_eval_float_close M); assumption|].
  apply tol_abs; [exact (pt_ok_nonneg M _ (proj1 Hs)) | lia | lia].
Qed.
Theorem cubic_eval_float_1e12 M (s : seg4 float) t :
  M <= Mcap -> seg4_ok M s -> t_ok t ->
  pt_close (Cubic_pointAtTime FOps s t) (Cubic_pointAtTime ROps (seg4R s) (FR t)) (1e-12 * M + bpow radix2 (-1070)).
Proof.
  intros HM Hs Ht. eapply pt_close_weaken; [apply (cubic_eval_float_close M); assumption|].
  apply tol_abs; [exact (pt_ok_nonneg M _ (proj1 Hs)) | lia | lia].
Qed.
(* purely relative, for M >= 2^-1000 *)
Theorem line_eval_float_1e12_rel M (s : seg2 float) t :
  bpow radix2 (-1000) <= M <= Mcap -> seg2_ok M s -> t_ok t ->
  pt_close (Line_pointAtTime FOps s t) (Line_pointAtTime ROps (seg2R s) (FR t)) (1e-12 * M).
Proof.
  intros (HM1 & HM) Hs Ht. eapply pt_close_weaken; [apply (line_eval_float_close M); assumption|].
  apply tol_rel; [exact HM1 | lia | lia].
Qed.
Theorem quad_eval_float_1e12_rel M (s : seg3 float) t :
  bpow radix2 (-1000) <= M <= Mcap -> seg3_ok M s -> t_ok t ->
  pt_close (Quad_pointAtTime FOps s t) (Quad_pointAtTime ROps (seg3R s) (FR t)) (1e-12 * M).
Proof.
  intros (HM1 & HM) Hs Ht. eapply pt_close_weaken; [apply (quad_eval_float_close M); assumption|].
  apply tol_rel; [exact HM1 | lia | lia].
Qed.
Theorem cubic_eval_float_1e12_rel M (s : seg4 float) t :
  bpow radix2 (-1000) <= M <= Mcap -> seg4_ok M s -> t_ok t ->
  pt_close (Cubic_pointAtTime FOps s t) (Cubic_pointAtTime ROps (seg4R s) (FR t)) (1e-12 * M).
Proof.
  intros (HM1 & HM) Hs Ht. eapply pt_close_weaken; [apply (cubic_eval_float_close M); assumption|].
  apply tol_rel; [exact HM1 | lia | lia].
Qed.
(* splitting and derivatives, 1e-12 form *)
Theorem line_split_float_1e12 M (s : seg2 float) t :
  M <= Mcap -> seg2_ok M s -> t_ok t ->
  seg2_close (fst (Line_splitAtTime FOps s t)) (fst (Line_splitAtTime ROps (seg2R s) (FR t))) (1e-12 * M + bpow radix2 (-1070)) /\
  seg2_close (snd (Line_splitAtTime FOps s t)) (snd (Line_splitAtTime ROps (seg2R s) (FR t))) (1e-12 * M + bpow radix2 (-1070)).
Proof.
  intros HM Hs Ht. destruct (line_split_float_close M s t HM Hs Ht) as (A & B).
  assert (H := tol_abs M 7 4 (pt_ok_nonneg M _ (proj1 Hs)) ltac:(lia) ltac:(lia)).
  split; eapply seg2_close_weaken; eassumption.
Qed.
Theorem quad_split_float_1e12 M (s : seg3 float) t :
  M <= Mcap -> seg3_ok M s -> t_ok t ->
  seg3_close (fst (Quad_splitAtTime FOps s t)) (fst (Quad_splitAtTime ROps (seg3R s) (FR t))) (1e-12 * M + bpow radix2 (-1070)) /\
  seg3_close (snd (Quad_splitAtTime FOps s t)) (snd (Quad_splitAtTime ROps (seg3R s) (FR t))) (1e-12 * M + bpow radix2 (-1070)).
Proof.
  intros HM Hs Ht. destruct (quad_split_float_close M s t HM Hs Ht) as (A & B).
  assert (H := tol_abs M 25 10 (pt_ok_nonneg M _ (proj1 Hs)) ltac:(lia) ltac:(lia)).
  split; eapply seg3_close_weaken; eassumption.
Qed.
Theorem cubic_split_float_1e12 M (s : seg4 float) t :
  M <= Mcap -> seg4_ok M s -> t_ok t ->
  seg4_close (fst (Cubic_splitAtTime FOps s t)) (fst (Cubic_splitAtTime ROps (seg4R s) (FR t))) (1e-12 * M + bpow radix2 (-1070)) /\
  seg4_close (snd (Cubic_splitAtTime FOps s t)) (snd (Cubic_splitAtTime ROps (seg4R s) (FR t))) (1e-12 * M + bpow radix2 (-1070)).
Proof.
  intros HM Hs Ht. destruct (cubic_split_float_close M s t HM Hs Ht) as (A & B).
  assert (H := tol_abs M 73 22 (pt_ok_nonneg M _ (proj1 Hs)) ltac:(lia) ltac:(lia)).
  split; eapply seg4_close_weaken; eassumption.
Qed.
Theorem quad_derivative_float_1e12 M (s : seg3 float) t :
  M <= Mcap -> seg3_ok M s -> t_ok t ->
  pt_close (Line_pointAtTime FOps (Quad_derivative FOps s) t)
           (Line_pointAtTime ROps (Quad_derivative ROps (seg3R s)) (FR t)) (1e-12 * M + bpow radix2 (-1070)).
Proof.
  intros HM Hs Ht. eapply pt_close_weaken; [apply (quad_derivative_float_close M); assumption|].
  apply tol_abs; [exact (pt_ok_nonneg M _ (proj1 Hs)) | lia | lia].
Qed.
Theorem cubic_derivative_float_1e12 M (s : seg4 float) t :
  M <= Mcap -> seg4_ok M s -> t_ok t ->
  pt_close (Quad_pointAtTime FOps (Cubic_derivative FOps s) t)
           (Quad_pointAtTime ROps (Cubic_derivative ROps (seg4R s)) (FR t)) (1e-12 * M + bpow radix2 (-1070)).
Proof.
  intros HM Hs Ht. eapply pt_close_weaken; [apply (cubic_derivative_float_close M); assumption|].
  apply tol_abs; [exact (pt_ok_nonneg M _ (proj1 Hs)) | lia | lia].
Qed.

(* ---- non-vacuity: the suite's quadratic (150,40)(80,30)(105,150) at t = 0.2 (the binary64 nearest 0.2) ---- *)
Ltac lit_finite := ffinite_compute.
Ltac lit_le :=   (* |FR c| <= bound, or  lo <= FR c <= hi, for a closed float c *)
  match goal with
  | |- context [FR ?c] => FR_compute c
  end; try (rewrite Rabs_pos_eq by lra); lra.
Definition ex_quad : seg3 float := (Q3 (P 150 40) (P 80 30) (P 105 150))%float.
Definition ex_t : float := 0x1.999999999999ap-3%float.
Lemma ex_quad_ok : seg3_ok 150 ex_quad.
Proof. unfold seg3_ok, pt_ok, ex_quad; cbn [px py q0 q1 q2]. repeat split; first [lit_finite | lit_le]. Qed.
Lemma ex_t_ok : t_ok ex_t.
Proof. unfold t_ok, ex_t. split; [lit_finite | split; lit_le]. Qed.
Lemma ex_M_ok : bpow radix2 (-1000) <= 150 <= Mcap.
Proof. unfold Mcap. split; bpow_lit; lra. Qed.
Example quad_eval_example :
  pt_close (Quad_pointAtTime FOps ex_quad ex_t) (Quad_pointAtTime ROps (seg3R ex_quad) (FR ex_t)) (1e-12 * 150).
Proof. exact (quad_eval_float_1e12_rel 150 ex_quad ex_t ex_M_ok ex_quad_ok ex_t_ok). Qed.
Example quad_split_example_float :
  seg3_close (fst (Quad_splitAtTime FOps ex_quad ex_t)) (fst (Quad_splitAtTime ROps (seg3R ex_quad) (FR ex_t)))
             (25 * u * 150 + 10 * eta).
Proof. exact (proj1 (quad_split_float_close 150 ex_quad ex_t (proj2 ex_M_ok) ex_quad_ok ex_t_ok)). Qed.
