(* C16 / C17 / C10: the parameters returned by regularSampleTValue are CLOSE TOGETHER IN ARC LENGTH.

   Part 1 (abstract receiver, Section Spacing): lengthAt / len as in Section Regular of Proofs/C16.v, plus a "true length up to t" function A with
       |v - A t| <= eps whenever lengthAt t = Ok v (0 <= t <= 1),   |len - A 1| <= eps,   A (t + h) - A t <= K * h  (0 <= t, 0 <= h, t + h <= 1).
   Whenever regularSampleTValue succeeds with ts, every two consecutive elements a, b of ts satisfy
       a <= b   and   A b - A a <= len / samples + K * (1 / len) + 2 * eps,
   the last element is 1 (so the final piece up to the appended 1.0 is covered): fine_partition (fun a b => A b - A a) B t0 r 1 for ts = t0 :: r.
   Reason: the walk emits the FIRST table entry whose recorded length is >= the desired length; the entry one table step (1/len in t) before it had a
   recorded length < desired; the previously emitted entry had a recorded length >= desired - len/samples.

   Part 2: gentle cubics (m <= speed <= M <= 2 m on [0,1]): A t = exact arc length over [0,t], K = M, eps = 2e-4 * L (Proofs/C04acc.v, C16acc.v).

   The table-step term M / len is at most 2.001 (M <= 2 m <= 2 L and len >= 0.9998 L).  Part 2': the same for gentle quadratics.

   Part 3: Cubic_flatten of a gentle cubic at least d long: the cut parameters form a fine_partition_01 with D = d + M / len + 4e-4 * L; hence
   (a) the UNCONDITIONAL area error (d * 1.0003 + 2.001 + 4e-4 L) / 4 * L (short curves included), <= 10 L for d <= 8 and L <= 70000;
   (b) the edge count: L <= (number of edges) * D, and MORE THAN length / (2 d) edges when 2.01 + 5e-4 L <= d.
   Non-vacuity: the arch (0,0)(0,100)(100,100)(100,0) is gentle (M = 2 m) and flattens at step 8 with all three conclusions.
   (Neither monotonicity of A nor A 0 = 0 is needed for Part 1.) *)
From Coq Require Import Reals Lra Lia List Bool Psatz Sorted.
From Coquelicot Require Import Coquelicot.
Import ListNotations.
From BZ Require Import Base.Ops Proofs.Tactics Gen.Point Gen.Line Gen.Quad Gen.Cubic Hand.Shoelace Hand.Sample
                       Proofs.C01 Proofs.C04 Proofs.C10 Proofs.C16 Proofs.C17 Proofs.C10flat Proofs.C10flat2
                       Proofs.C04poly Proofs.C04acc Proofs.C04add Proofs.C16acc.
Open Scope R_scope.

(* ================================================================================================== *)
(* Part 1: the abstract spacing lemma                                                                 *)
(* ================================================================================================== *)
(* every two consecutive elements of the list enclose at most B of the length function A *)
Fixpoint arc_gaps (A : R -> R) (B : R) (l : list R) : Prop :=
  match l with
  | a :: ((b :: _) as r) => A b - A a <= B /\ arc_gaps A B r
  | _ => True
  end.

Section Spacing.
Variable lengthAt : R -> res R.
Variable len : R.
Variable A : R -> R.
Variables eps K samples : R.
Hypothesis Hlen : 0 < len.
Hypothesis Hsamples : 0 < samples.
Hypothesis Heps : 0 <= eps.
Hypothesis HK : 0 <= K.
Hypothesis Hacc : forall t v, 0 <= t <= 1 -> lengthAt t = Ok v -> Rabs (v - A t) <= eps.
Hypothesis Hlen1 : Rabs (len - A 1) <= eps.
Hypothesis Hlip : forall t h, 0 <= t -> 0 <= h -> t + h <= 1 -> A (t + h) - A t <= K * h.

Let step := 1 / len.
Let inc := len / samples.
Let B := inc + K * step + 2 * eps.

Lemma step_pos : 0 < step.
Proof. unfold step. apply Rdiv_lt_0_compat; lra. Qed.
Lemma inc_pos : 0 < inc.
Proof. unfold inc. apply Rdiv_lt_0_compat; lra. Qed.
Lemma B_nonneg : 0 <= B.
Proof. unfold B. pose proof step_pos. pose proof inc_pos. nra. Qed.

(* a table: parameters in [0,1] advancing by [step], each with its recorded length, the last one less than a step before 1 *)
Fixpoint good (l : list (R * R)) : Prop :=
  match l with
  | [] => True
  | (t, v) :: r => 0 <= t <= 1 /\ lengthAt t = Ok v /\
                   match r with [] => 1 < t + step | (t', _) :: _ => t' = t + step end /\ good r
  end.

Lemma lut_loop_head : forall fuel t lut, lut_loop ROps lengthAt fuel step t = Ok lut ->
  match lut with [] => 1 < t | (t1, _) :: _ => t1 = t end.
Proof.
  intros [|f] t lut H; [discriminate|]. cbn [lut_loop] in H. change (one ROps) with 1 in H.
  destruct (leb ROps t 1) eqn:E.
  - destruct (lengthAt t) as [v|e]; cbn [bind] in H; [|discriminate].
    destruct (lut_loop ROps lengthAt f step (add ROps t step)) as [r|e]; cbn [bind] in H; [|discriminate].
    inversion H. reflexivity.
  - apply Rleb_false in E. inversion H. exact E.
Qed.
Lemma lut_loop_good : forall fuel t lut, 0 <= t -> lut_loop ROps lengthAt fuel step t = Ok lut -> good lut.
Proof.
  induction fuel as [|f IH]; intros t lut H0 H; [discriminate|]. cbn [lut_loop] in H. change (one ROps) with 1 in H.
  destruct (leb ROps t 1) eqn:E; [|inversion H; exact I].
  apply Rleb_true in E. change (add ROps t step) with (t + step) in H.
  destruct (lengthAt t) as [v|e] eqn:Ev; cbn [bind] in H; [|discriminate].
  destruct (lut_loop ROps lengthAt f step (t + step)) as [r|e] eqn:Er; cbn [bind] in H; [|discriminate].
  inversion H; subst lut. pose proof step_pos as Hs.
  cbn [good]. split; [lra|]. split; [exact Ev|]. split.
  - pose proof (lut_loop_head _ _ _ Er) as Hh. destruct r as [|[t1 v1] r']; exact Hh.
  - apply (IH (t + step)); [lra | exact Er].
Qed.

(* what popping does to a good table *)
Lemma pop_while_good : forall rest t v d, good ((t, v) :: rest) ->
  match pop_while ROps ((t, v) :: rest) d with
  | [] => exists tl vl, 0 <= tl <= 1 /\ lengthAt tl = Ok vl /\ vl < d /\ 1 < tl + step
  | (t', v') :: rest' =>
      good ((t', v') :: rest') /\ ~ v' < d /\
      ((t', v') :: rest' = (t, v) :: rest \/
       exists tp vp, 0 <= tp <= 1 /\ lengthAt tp = Ok vp /\ vp < d /\ t' = tp + step)
  end.
Proof.
  induction rest as [|[t1 v1] r1 IH]; intros t v d Hg.
  - cbn [pop_while]. destruct (ltb ROps v d) eqn:E.
    + apply Rltb_true in E. destruct Hg as (Ht & Hv & Hl & _). exists t, v. auto.
    + apply Rltb_false in E. split; [exact Hg|]. split; [lra|]. left. reflexivity.
  - change (pop_while ROps ((t, v) :: (t1, v1) :: r1) d)
      with (if ltb ROps v d then pop_while ROps ((t1, v1) :: r1) d else (t, v) :: (t1, v1) :: r1).
    destruct (ltb ROps v d) eqn:E.
    + apply Rltb_true in E. destruct Hg as (Ht & Hv & Hn & Hg').
      specialize (IH t1 v1 d Hg'). destruct (pop_while ROps ((t1, v1) :: r1) d) as [|[t' v'] rest']; [exact IH|].
      destruct IH as (G & Nv & [Eq | Ex]); (split; [exact G|]); (split; [exact Nv|]); right.
      * inversion Eq; subst. exists t, v. auto.
      * exact Ex.
    + apply Rltb_false in E. split; [exact Hg|]. split; [lra|]. left. reflexivity.
Qed.

(* all gaps of t0 :: rs ++ [1] are at most B *)
Fixpoint gaps_to (t0 : R) (rs : list R) : Prop :=
  match rs with
  | [] => A 1 - A t0 <= B
  | t1 :: r => A t1 - A t0 <= B /\ gaps_to t1 r
  end.

Lemma walk_gaps : forall fuel t v rest d rs, good ((t, v) :: rest) -> d - inc <= v ->
  walk ROps len fuel samples ((t, v) :: rest) d = Ok rs -> gaps_to t rs.
Proof.
  induction fuel as [|f IH]; intros t v rest d rs Hg Hv H; [discriminate|].
  pose proof step_pos as Hs. pose proof inc_pos as Hi.
  assert (Gt := Hg). destruct Gt as (Ht & Hlt & _ & _).
  pose proof (Hacc t v Ht Hlt) as At. apply Rabs_le_between in At.
  pose proof Hlen1 as A1. apply Rabs_le_between in A1.
  cbn [walk] in H. destruct (ltb ROps d len) eqn:Ed.
  - pose proof (pop_while_good rest t v d Hg) as P.
    destruct (pop_while ROps ((t, v) :: rest) d) as [|[t' v'] rest'].
    + inversion H; subst rs. cbn [gaps_to]. destruct P as (tl & vl & Htl & Hvl & Hd & Hend).
      pose proof (Hacc tl vl Htl Hvl) as Al. apply Rabs_le_between in Al.
      pose proof (Hlip tl (1 - tl) ltac:(lra) ltac:(lra) ltac:(lra)) as L. replace (tl + (1 - tl)) with 1 in L by ring.
      unfold B. nra.
    + change (zero ROps) with 0 in H. destruct (eqb ROps samples 0); [discriminate|].
      change (add ROps d (dvd ROps len samples)) with (d + inc) in H.
      destruct (walk ROps len f samples ((t', v') :: rest') (d + inc)) as [rs'|e] eqn:Ew; cbn [bind] in H; [|discriminate].
      inversion H; subst rs. destruct P as (Hg' & Nv & Cases). cbn [gaps_to]. split.
      * destruct Cases as [Eq | (tp & vp & Htp & Hvp & Hd & Et)].
        -- inversion Eq; subst. pose proof B_nonneg. lra.
        -- destruct Hg' as (Ht' & Hlt' & _ & _).
           pose proof (Hacc tp vp Htp Hvp) as Ap. apply Rabs_le_between in Ap.
           pose proof (Hlip tp step ltac:(lra) ltac:(lra) ltac:(lra)) as L. rewrite <- Et in L.
           unfold B. lra.
      * apply (IH t' v' rest' (d + inc) rs' Hg'); [lra | exact Ew].
  - apply Rltb_false in Ed. inversion H; subst rs. cbn [gaps_to]. unfold B. nra.
Qed.

(* adjacent-pairs form *)
Notation gaps := (arc_gaps A B).
Lemma gaps_to_gaps : forall rs t, gaps_to t rs -> gaps (t :: rs) /\ gaps (t :: rs ++ [1]).
Proof.
  induction rs as [|t1 r IH]; intros t H; cbn [gaps_to] in H.
  - cbn. auto.
  - destruct H as [H1 H2]. destruct (IH t1 H2) as [G1 G2]. split; (split; [exact H1|]); assumption.
Qed.

Lemma walk_top fuel lut rs : good lut -> walk ROps len fuel samples lut 0 = Ok rs -> gaps rs /\ (rs <> [] -> gaps (rs ++ [1])).
Proof.
  intros Hg H. destruct fuel as [|f]; [discriminate|]. cbn [walk] in H.
  destruct (ltb ROps 0 len); [|inversion H; cbn; auto].
  destruct lut as [|[t v] rest]; [cbn [pop_while] in H; inversion H; cbn; auto|].
  pose proof (pop_while_good rest t v 0 Hg) as P.
  destruct (pop_while ROps ((t, v) :: rest) 0) as [|[t' v'] rest']; [inversion H; cbn; auto|].
  change (zero ROps) with 0 in H. destruct (eqb ROps samples 0); [discriminate|].
  change (add ROps 0 (dvd ROps len samples)) with (0 + inc) in H.
  destruct (walk ROps len f samples ((t', v') :: rest') (0 + inc)) as [rs'|e] eqn:Ew; cbn [bind] in H; [|discriminate].
  inversion H; subst rs. destruct P as (Hg' & Nv & _).
  assert (G : gaps_to t' rs') by (apply (walk_gaps f t' v' rest' (0 + inc) rs' Hg'); [lra | exact Ew]).
  destruct (gaps_to_gaps _ _ G) as [G1 G2]. split; [exact G1 | intros _; exact G2].
Qed.

(* the spacing theorem, adjacent-pairs form *)
Theorem regular_gaps fuel1 fuel2 ts :
  regularSampleTValue ROps lengthAt len fuel1 fuel2 samples = Ok ts -> gaps ts.
Proof.
  intro H. pose proof H as H'. unfold regularSampleTValue in H'. change (zero ROps) with 0 in H'. change (one ROps) with 1 in H'.
  rewrite (proj2 (Reqb_false len 0)) in H' by lra. change (dvd ROps 1 len) with step in H'.
  destruct (lut_loop ROps lengthAt fuel1 step 0) as [lut|e] eqn:El; cbn [bind] in H'; [|discriminate].
  destruct (walk ROps len fuel2 samples lut 0) as [rs|e] eqn:Ew; cbn [bind] in H'; [|discriminate].
  destruct (last_opt rs) as [x|] eqn:Ex; [|discriminate].
  assert (Hg : good lut) by (apply (lut_loop_good fuel1 0 lut); [lra | exact El]).
  destruct (walk_top _ _ _ Hg Ew) as [G1 G2].
  destruct (neqb ROps x 1); inversion H'; subst ts; [|exact G1].
  apply G2. intro E. subst rs. discriminate.
Qed.

(* the same as a fine partition of [0,1] (C10flat): ordered, ending at exactly 1, every piece at most B of true length *)
Lemma gaps_fine : forall r t0 tn, nondecr (t0 :: r) -> last_opt (t0 :: r) = Some tn -> gaps (t0 :: r) ->
  fine_partition (fun a b => A b - A a) B t0 r tn.
Proof.
  induction r as [|t1 r IH]; intros t0 tn Hn Hl Hg.
  - inversion Hl. reflexivity.
  - destruct Hn as [H01 Hn]. destruct Hg as [Hg1 Hg]. cbn [fine_partition]. split; [exact H01|]. split; [exact Hg1|].
    apply IH; assumption.
Qed.
Theorem regular_fine_partition fuel1 fuel2 ts :
  regularSampleTValue ROps lengthAt len fuel1 fuel2 samples = Ok ts ->
  exists t0 r, ts = t0 :: r /\ fine_partition (fun a b => A b - A a) B t0 r 1.
Proof.
  intro H. pose proof (regular_gaps _ _ _ H) as G.
  pose proof (regular_last_is_1 _ _ _ _ _ _ Hlen H) as L1.
  destruct (regular_in_range_ordered _ _ _ _ _ _ Hlen H) as [_ Hn].
  destruct ts as [|t0 r]; [discriminate|]. exists t0, r. split; [reflexivity|]. apply gaps_fine; assumption.
Qed.
End Spacing.

(* ================================================================================================== *)
(* Part 2: gently parametrised cubics                                                                 *)
(* ================================================================================================== *)
Lemma fine_partition_weaken (len1 len2 : R -> R -> R) (d1 d2 : R) :
  (forall a b, len2 a b = len1 a b) -> d1 <= d2 ->
  forall ts t0 tn, fine_partition len1 d1 t0 ts tn -> fine_partition len2 d2 t0 ts tn.
Proof.
  intros He Hd. induction ts as [|t1 r IH]; intros t0 tn H; cbn [fine_partition] in *; [exact H|].
  destruct H as (H1 & H2 & H3). split; [exact H1|]. split; [rewrite He; lra | apply IH; exact H3].
Qed.
(* the total of a fine partition is at most (number of pieces) x (bound) *)
Lemma fine_partition_total (A : R -> R) (D : R) : forall ts t0 tn,
  fine_partition (fun a b => A b - A a) D t0 ts tn -> A tn - A t0 <= INR (length ts) * D.
Proof.
  induction ts as [|t1 r IH]; intros t0 tn H; cbn [fine_partition] in H.
  - subst. cbn. lra.
  - destruct H as (_ & H2 & H3). specialize (IH _ _ H3). change (length (t1 :: r)) with (S (length r)). rewrite S_INR. lra.
Qed.

Lemma cubic_arclen_point (s : seg4 R) a : cubic_arclen s a a = 0.
Proof. pose proof (cubic_arclen_Chasles s a a a). lra. Qed.
Lemma cubic_arclen_diff (s : seg4 R) a b : cubic_arclen s a b = cubic_arclen s 0 b - cubic_arclen s 0 a.
Proof. pose proof (cubic_arclen_Chasles s 0 a b). lra. Qed.
Lemma pow10_4 : 10 ^ 4 = 10000.
Proof. simpl. lra. Qed.

Section GentleCubic.
Variable s : seg4 R.
Variables m M : R.
Hypothesis Hm : 0 < m.
Hypothesis Hsp : forall u, 0 <= u <= 1 -> m <= cubic_speed s u <= M.
Hypothesis HM : M <= 2 * m.

Lemma gentle_arclen_bounds a b : 0 <= a <= b -> b <= 1 -> m * (b - a) <= cubic_arclen s a b <= M * (b - a).
Proof.
  intros Ha Hb. unfold cubic_arclen. split.
  - replace (m * (b - a)) with (RInt (fun _ : R => m) a b) by (rewrite RInt_const; unfold scal; simpl; unfold mult; simpl; ring).
    apply RInt_le; [lra | apply ex_RInt_const | apply cubic_speed_ex_RInt |]. intros u Hu. apply (Hsp u). lra.
  - replace (M * (b - a)) with (RInt (fun _ : R => M) a b) by (rewrite RInt_const; unfold scal; simpl; unfold mult; simpl; ring).
    apply RInt_le; [lra | apply cubic_speed_ex_RInt | apply ex_RInt_const |]. intros u Hu. apply (Hsp u). lra.
Qed.
Lemma gentle_M_nonneg : 0 <= M.
Proof. destruct (Hsp 0 ltac:(lra)). lra. Qed.
Lemma gentle_L_ge_m : m <= cubic_arclen s 0 1.
Proof. destruct (gentle_arclen_bounds 0 1 ltac:(lra) ltac:(lra)). lra. Qed.
Lemma gentle_len_bounds :
  (1 - 2 / 10000) * cubic_arclen s 0 1 <= Cubic_length ROps s <= (1 + 2 / 10000) * cubic_arclen s 0 1.
Proof.
  pose proof (cubic_length_accuracy_2 s m M Hm Hsp HM) as H. rewrite pow10_4 in H. apply Rabs_le_between in H. lra.
Qed.
Lemma gentle_len_pos : 0 < Cubic_length ROps s.
Proof. pose proof gentle_len_bounds. pose proof gentle_L_ge_m. lra. Qed.
Lemma gentle_acc t v : 0 <= t <= 1 -> Ok (Cubic_lengthAtTime ROps s t) = Ok v ->
  Rabs (v - cubic_arclen s 0 t) <= 2 / 10 ^ 4 * cubic_arclen s 0 1.
Proof.
  intros Ht E. inversion E; subst v. rewrite pow10_4.
  destruct (Req_dec t 0) as [-> | Hn].
  - rewrite cubic_lengthAt_0, cubic_arclen_point, Rminus_0_r, Rabs_R0. pose proof gentle_L_ge_m. lra.
  - pose proof (cubic_lengthAtTime_accuracy s m M t Hm Hsp HM ltac:(lra)) as H. rewrite pow10_4 in H.
    pose proof (cubic_arclen_Chasles s 0 t 1). pose proof (cubic_arclen_nonneg s t 1 ltac:(lra)). lra.
Qed.
Lemma gentle_lip t h : 0 <= t -> 0 <= h -> t + h <= 1 -> cubic_arclen s 0 (t + h) - cubic_arclen s 0 t <= M * h.
Proof.
  intros Ht Hh H1. rewrite <- cubic_arclen_diff. destruct (gentle_arclen_bounds t (t + h) ltac:(lra) H1) as [_ H]. lra.
Qed.
(* one step of the look-up table (1/len in the parameter) covers at most 2.001 units of arc length *)
Lemma gentle_table_step : M * (1 / Cubic_length ROps s) <= 2001 / 1000.
Proof.
  pose proof gentle_len_bounds as [Hl _]. pose proof gentle_L_ge_m as HL. pose proof gentle_len_pos as Hp. pose proof gentle_M_nonneg.
  unfold Rdiv at 1. rewrite Rmult_1_l. apply (Rmult_le_reg_r (Cubic_length ROps s)); [exact Hp|].
  rewrite Rmult_assoc, Rinv_l by lra. nra.
Qed.

(* C16 for gentle cubics: consecutive parameters of regularSampleTValue enclose at most len/samples + M/len + 4e-4 L of arc length *)
Theorem cubic_regular_spacing cap samples ts : 0 < samples ->
  seg_regularSampleTValue ROps cap (SCubic s) samples = Ok ts ->
  fine_partition_01 (cubic_arclen s)
    (Cubic_length ROps s / samples + M * (1 / Cubic_length ROps s) + 4 / 10 ^ 4 * cubic_arclen s 0 1) ts.
Proof.
  intros Hn H. pose proof gentle_len_pos as Hp. pose proof gentle_L_ge_m as HL.
  assert (He : 0 <= 2 / 10 ^ 4 * cubic_arclen s 0 1) by (rewrite pow10_4; lra).
  assert (H1 : Rabs (Cubic_length ROps s - cubic_arclen s 0 1) <= 2 / 10 ^ 4 * cubic_arclen s 0 1)
    by (apply (cubic_length_accuracy_2 s m M Hm Hsp HM)).
  destruct (regular_fine_partition (fun t => Ok (Cubic_lengthAtTime ROps s t)) (Cubic_length ROps s) (fun t => cubic_arclen s 0 t)
              (2 / 10 ^ 4 * cubic_arclen s 0 1) M samples Hp Hn He gentle_M_nonneg gentle_acc H1 gentle_lip _ _ ts H)
    as (t0 & r & -> & F).
  destruct (seg_regular_spec cap (SCubic s) samples _ Hp H) as (H0 & _). inversion H0; subst t0.
  cbn [fine_partition_01]. split; [reflexivity|].
  refine (fine_partition_weaken _ _ _ _ (cubic_arclen_diff s) _ _ _ _ F). rewrite pow10_4. lra.
Qed.
(* the same with the table-step term M/len replaced by its bound 2.001 (M <= 2 m <= 2 L, len >= 0.9998 L) *)
Corollary cubic_regular_spacing_const cap samples ts : 0 < samples ->
  seg_regularSampleTValue ROps cap (SCubic s) samples = Ok ts ->
  fine_partition_01 (cubic_arclen s) (Cubic_length ROps s / samples + 2001 / 1000 + 4 / 10 ^ 4 * cubic_arclen s 0 1) ts.
Proof.
  intros Hn H. pose proof (cubic_regular_spacing cap samples ts Hn H) as F. pose proof gentle_table_step.
  destruct ts as [|t0 r]; [exact F|]. destruct F as [E F]. split; [exact E|].
  refine (fine_partition_weaken _ _ _ _ (fun a b => eq_refl) _ _ _ _ F). lra.
Qed.

(* ================================================================================================== *)
(* Part 3: CubicBezier.flatten of a gentle cubic                                                      *)
(* ================================================================================================== *)
Lemma join_pts_chords (g : R -> pt R) : forall r t0, join_pts (map g (t0 :: r)) = chords_from g t0 r.
Proof.
  induction r as [|t1 r IH]; intro t0; [reflexivity|].
  change (map g (t0 :: t1 :: r)) with (g t0 :: map g (t1 :: r)). cbn [chords_from]. rewrite <- IH. reflexivity.
Qed.

(* (a) a curve at least d long: the cut parameters form a fine partition with D = d + M/len + 4e-4 L *)
Theorem gentle_cubic_flatten_fine cap d es : 0 < d -> ~ Cubic_length ROps s < d -> Cubic_flatten ROps cap s d = Ok es ->
  exists ts, param_list ts /\ map fst es = chords_of (Cubic_pointAtTime ROps s) ts /\ S (length es) = length ts /\
    fine_partition_01 (cubic_arclen s) (d + M * (1 / Cubic_length ROps s) + 4 / 10 ^ 4 * cubic_arclen s 0 1) ts.
Proof.
  intros Hd Hl H. pose proof gentle_len_pos as Hp.
  destruct (cubic_flatten_long cap s d es Hd Hl H) as (ts & Hts & Hpl & ->).
  assert (Hn : 0 < Cubic_length ROps s / d) by (apply Rdiv_lt_0_compat; lra).
  pose proof (cubic_regular_spacing cap _ ts Hn Hts) as F.
  replace (Cubic_length ROps s / (Cubic_length ROps s / d)) with d in F by (field; lra).
  exists ts. split; [exact Hpl|]. rewrite map_fst_tag_all.
  destruct (polyline_of_params (Cubic_pointAtTime ROps s) ts (SCubic s) Hpl) as (_ & _ & _ & _ & E).
  destruct ts as [|t0 r]; [destruct F|]. split; [apply join_pts_chords|]. split; [exact E | exact F].
Qed.

(* (a) the unconditional flattening error of a gentle cubic *)
Theorem gentle_cubic_flatten_area_error cap d es : 0 < d -> Cubic_flatten ROps cap s d = Ok es ->
  Rabs (Cubic_area ROps s - sum_line_areas (map fst es))
  <= (d * (1 + 3 / 10 ^ 4) + 2001 / 1000 + 4 / 10 ^ 4 * cubic_arclen s 0 1) / 4 * cubic_arclen s 0 1.
Proof.
  intros Hd H. pose proof gentle_len_bounds as [Hlo Hhi]. pose proof gentle_L_ge_m as HL. pose proof gentle_table_step as Hst.
  rewrite pow10_4. destruct (Rlt_dec (Cubic_length ROps s) d) as [Hs | Hl].
  - destruct (cubic_short_chord_area_error cap s d Hd Hs) as (es' & He' & _ & Hb). rewrite H in He'. inversion He'; subst es'.
    eapply Rle_trans; [exact Hb|]. set (L := cubic_arclen s 0 1) in *.
    assert (L <= d * (1 + 3 / 10000)) by nra. nra.
  - destruct (gentle_cubic_flatten_fine cap d es Hd Hl H) as (ts & _ & E & _ & F). rewrite E.
    eapply Rle_trans; [apply (cubic_flatten_error_list s _ ts F)|]. rewrite pow10_4. set (L := cubic_arclen s 0 1) in *.
    apply Rmult_le_compat_r; [lra|]. lra.
Qed.
(* the property's 10 x length: default step 8 (or less), curves up to 70000 units long *)
Corollary gentle_cubic_flatten_area_error_10 cap d es : 0 < d <= 8 -> cubic_arclen s 0 1 <= 70000 ->
  Cubic_flatten ROps cap s d = Ok es ->
  Rabs (Cubic_area ROps s - sum_line_areas (map fst es)) <= 10 * cubic_arclen s 0 1.
Proof.
  intros Hd HL H. pose proof (gentle_cubic_flatten_area_error cap d es ltac:(lra) H) as B. rewrite pow10_4 in B.
  pose proof gentle_L_ge_m. set (L := cubic_arclen s 0 1) in *. nra.
Qed.

(* (b) the edge count: the edges cover the curve and each covers at most D, so there are at least L / D of them; MORE THAN length/(2 d)
   as soon as the step is not tiny against the table step: 2.01 + 5e-4 L <= d *)
Theorem gentle_cubic_edge_count cap d es : 0 < d -> ~ Cubic_length ROps s < d -> Cubic_flatten ROps cap s d = Ok es ->
  cubic_arclen s 0 1 <= INR (length es) * (d + M * (1 / Cubic_length ROps s) + 4 / 10 ^ 4 * cubic_arclen s 0 1) /\
  ((1 + 2 / 10 ^ 4) * (d + M * (1 / Cubic_length ROps s) + 4 / 10 ^ 4 * cubic_arclen s 0 1) < 2 * d ->
     Cubic_length ROps s / (2 * d) < INR (length es)) /\
  (201 / 100 + 5 / 10 ^ 4 * cubic_arclen s 0 1 <= d -> Cubic_length ROps s / (2 * d) < INR (length es)).
Proof.
  intros Hd Hl H. pose proof gentle_len_bounds as [Hlo Hhi]. pose proof gentle_L_ge_m as HL. pose proof gentle_table_step as Hst.
  destruct (gentle_cubic_flatten_fine cap d es Hd Hl H) as (ts & _ & _ & En & F).
  destruct ts as [|t0 r]; [destruct F|]. destruct F as [-> F]. cbn [length] in En. injection En as En.
  apply (fine_partition_weaken _ (fun a b => cubic_arclen s 0 b - cubic_arclen s 0 a) _ _
           (fun a b => eq_sym (cubic_arclen_diff s a b)) (Rle_refl _)) in F.
  apply fine_partition_total in F. rewrite cubic_arclen_point, Rminus_0_r, <- En in F.
  rewrite pow10_4 in *. set (L := cubic_arclen s 0 1) in *. set (D := d + M * (1 / Cubic_length ROps s) + 4 / 10000 * L) in *.
  set (n := INR (length es)) in *.
  assert (Hn : 0 <= n) by (unfold n; apply pos_INR).
  assert (Key : (1 + 2 / 10000) * D < 2 * d -> Cubic_length ROps s / (2 * d) < n).
  { intro Hc. apply (Rmult_lt_reg_r (2 * d)); [lra|]. unfold Rdiv. rewrite Rmult_assoc, Rinv_l by lra. rewrite Rmult_1_r.
    assert (0 < D) by (unfold D; pose proof gentle_M_nonneg; pose proof gentle_len_pos;
                        assert (0 <= M * (1 / Cubic_length ROps s)) by (apply Rmult_le_pos; [assumption | apply Rlt_le, Rdiv_lt_0_compat; lra]); lra).
    assert (0 < n) by nra. nra. }
  split; [exact F|]. split; [exact Key|]. intro Hc. apply Key. unfold D. lra.
Qed.
End GentleCubic.

(* ================================================================================================== *)
(* Part 2': gently parametrised quadratics (regularSampleTValue only: QuadraticBezier.flatten uses sample)   *)
(* ================================================================================================== *)
Lemma quad_arclen_point (s : seg3 R) a : quad_arclen s a a = 0.
Proof. pose proof (quad_arclen_Chasles s a a a). lra. Qed.
Lemma quad_arclen_diff (s : seg3 R) a b : quad_arclen s a b = quad_arclen s 0 b - quad_arclen s 0 a.
Proof. pose proof (quad_arclen_Chasles s 0 a b). lra. Qed.

Section GentleQuad.
Variable s : seg3 R.
Variables m M : R.
Hypothesis Hm : 0 < m.
Hypothesis Hsp : forall u, 0 <= u <= 1 -> m <= quad_speed s u <= M.
Hypothesis HM : M <= 2 * m.

Lemma gentleq_arclen_bounds a b : 0 <= a <= b -> b <= 1 -> m * (b - a) <= quad_arclen s a b <= M * (b - a).
Proof.
  intros Ha Hb. unfold quad_arclen. split.
  - replace (m * (b - a)) with (RInt (fun _ : R => m) a b) by (rewrite RInt_const; unfold scal; simpl; unfold mult; simpl; ring).
    apply RInt_le; [lra | apply ex_RInt_const | apply quad_speed_ex_RInt |]. intros u Hu. apply (Hsp u). lra.
  - replace (M * (b - a)) with (RInt (fun _ : R => M) a b) by (rewrite RInt_const; unfold scal; simpl; unfold mult; simpl; ring).
    apply RInt_le; [lra | apply quad_speed_ex_RInt | apply ex_RInt_const |]. intros u Hu. apply (Hsp u). lra.
Qed.
Lemma gentleq_M_nonneg : 0 <= M.
Proof. destruct (Hsp 0 ltac:(lra)). lra. Qed.
Lemma gentleq_L_ge_m : m <= quad_arclen s 0 1.
Proof. destruct (gentleq_arclen_bounds 0 1 ltac:(lra) ltac:(lra)). lra. Qed.
Lemma gentleq_len_bounds :
  (1 - 2 / 10000) * quad_arclen s 0 1 <= Quad_length ROps s <= (1 + 2 / 10000) * quad_arclen s 0 1.
Proof.
  pose proof (quad_length_accuracy_2 s m M Hm Hsp HM) as H. rewrite pow10_4 in H. apply Rabs_le_between in H. lra.
Qed.
Lemma gentleq_len_pos : 0 < Quad_length ROps s.
Proof. pose proof gentleq_len_bounds. pose proof gentleq_L_ge_m. lra. Qed.
Lemma gentleq_acc t v : 0 <= t <= 1 -> Ok (Quad_lengthAtTime ROps s t) = Ok v ->
  Rabs (v - quad_arclen s 0 t) <= 2 / 10 ^ 4 * quad_arclen s 0 1.
Proof.
  intros Ht E. inversion E; subst v. rewrite pow10_4.
  destruct (Req_dec t 0) as [-> | Hn].
  - rewrite quad_lengthAt_0, quad_arclen_point, Rminus_0_r, Rabs_R0. pose proof gentleq_L_ge_m. lra.
  - pose proof (quad_lengthAtTime_accuracy s m M t Hm Hsp HM ltac:(lra)) as H. rewrite pow10_4 in H.
    pose proof (quad_arclen_Chasles s 0 t 1). pose proof (quad_arclen_nonneg s t 1 ltac:(lra)). lra.
Qed.
Lemma gentleq_lip t h : 0 <= t -> 0 <= h -> t + h <= 1 -> quad_arclen s 0 (t + h) - quad_arclen s 0 t <= M * h.
Proof.
  intros Ht Hh H1. rewrite <- quad_arclen_diff. destruct (gentleq_arclen_bounds t (t + h) ltac:(lra) H1) as [_ H]. lra.
Qed.
Theorem quad_regular_spacing cap samples ts : 0 < samples ->
  seg_regularSampleTValue ROps cap (SQuad s) samples = Ok ts ->
  fine_partition_01 (quad_arclen s)
    (Quad_length ROps s / samples + M * (1 / Quad_length ROps s) + 4 / 10 ^ 4 * quad_arclen s 0 1) ts.
Proof.
  intros Hn H. pose proof gentleq_len_pos as Hp. pose proof gentleq_L_ge_m as HL.
  assert (He : 0 <= 2 / 10 ^ 4 * quad_arclen s 0 1) by (rewrite pow10_4; lra).
  assert (H1 : Rabs (Quad_length ROps s - quad_arclen s 0 1) <= 2 / 10 ^ 4 * quad_arclen s 0 1)
    by (apply (quad_length_accuracy_2 s m M Hm Hsp HM)).
  destruct (regular_fine_partition (fun t => Ok (Quad_lengthAtTime ROps s t)) (Quad_length ROps s) (fun t => quad_arclen s 0 t)
              (2 / 10 ^ 4 * quad_arclen s 0 1) M samples Hp Hn He gentleq_M_nonneg gentleq_acc H1 gentleq_lip _ _ ts H)
    as (t0 & r & -> & F).
  destruct (seg_regular_spec cap (SQuad s) samples _ Hp H) as (H0 & _). inversion H0; subst t0.
  cbn [fine_partition_01]. split; [reflexivity|].
  refine (fine_partition_weaken _ _ _ _ (quad_arclen_diff s) _ _ _ _ F). rewrite pow10_4. lra.
Qed.
End GentleQuad.

(* ================================================================================================== *)
(* Non-vacuity: the arch (0,0) (0,k) (k,k) (k,0) of Proofs/C10flat.v has speed 3k(1 - 2t + 2t^2), between 3k/2 (at t = 1/2) and 3k (at the     *)
(* ends): gentle with M = 2 m exactly; arc length 2k.  For k = 100 and the default step 8 the flattening succeeds, misses the area by at most  *)
(* 10 x length, and has more than length/16 edges.                                                                                         *)
(* ================================================================================================== *)
Lemma arch_gentle k : 0 < k -> forall u, 0 <= u <= 1 -> 3 * k / 2 <= cubic_speed (C10flat.arch k) u <= 3 * k.
Proof.
  intros Hk u Hu. rewrite arch_speed by lra.
  assert (H : 1 / 2 <= 1 - 2 * u + 2 * (u * u) <= 1).
  { pose proof (Rle_0_sqr (u - 1 / 2)) as S1. unfold Rsqr in S1.
    assert (S2 : 0 <= u * (1 - u)) by (apply Rmult_le_pos; lra). split; lra. }
  set (w := 1 - 2 * u + 2 * (u * u)) in *. split; nra.
Qed.
Example arch100_flatten_gentle :
  exists es, Cubic_flatten ROps 256 (C10flat.arch 100) 8 = Ok es /\
    Rabs (Cubic_area ROps (C10flat.arch 100) - sum_line_areas (map fst es)) <= 10 * 200 /\
    Cubic_length ROps (C10flat.arch 100) / (2 * 8) < INR (length es).
Proof.
  set (c := C10flat.arch 100).
  assert (G : forall u, 0 <= u <= 1 -> 150 <= cubic_speed c u <= 300).
  { intros u Hu. destruct (arch_gentle 100 ltac:(lra) u Hu). unfold c. lra. }
  assert (EL : cubic_arclen c 0 1 = 200) by (unfold c; rewrite arch_arclen by lra; lra).
  pose proof (gentle_len_bounds c 150 300 ltac:(lra) G ltac:(lra)) as [Hlo Hhi]. rewrite EL in Hlo, Hhi.
  assert (I256 : INR 256 = 256) by (rewrite INR_IZR_INZ; reflexivity).
  destruct (proj1 (flatten_no_raise 256 8 ltac:(lra)) c) as [es He]; [rewrite I256; lra | rewrite I256; lra |].
  exists es. split; [exact He|]. split.
  - rewrite <- EL. apply (gentle_cubic_flatten_area_error_10 c 150 300 ltac:(lra) G ltac:(lra) 256 8 es); [lra | lra | exact He].
  - destruct (gentle_cubic_edge_count c 150 300 ltac:(lra) G ltac:(lra) 256 8 es ltac:(lra) ltac:(lra) He) as (_ & _ & K).
    apply K. rewrite EL, pow10_4. lra.
Qed.

Print Assumptions regular_gaps.
Print Assumptions regular_fine_partition.
Print Assumptions cubic_regular_spacing.
Print Assumptions gentle_cubic_flatten_fine.
Print Assumptions gentle_cubic_flatten_area_error.
Print Assumptions gentle_cubic_edge_count.
Print Assumptions quad_regular_spacing.
Print Assumptions arch100_flatten_gentle.
