(* Theorems about the REGENERATED recursive drivers (Gen/CurveCurve.v, Gen/MinDist.v, Gen/Winding.v: text produced from /repo on every
   run), obtained by transporting the theorems of the hand models through the bridge lemmas of Proofs/Bridge4.v.  Nothing here mentions a
   hand model in its statement except where the hand model is the specification (segment kinds, [seg_dist], [polygon_query]): the subject
   of every statement is a function whose text is regenerated from the source.

   C20  the nine regenerated curveDistance functions, over the reals: never an exception (the only outcome other than a value is fuel
        exhaustion), a returned distance is realised by parameters in [0,1], hence not below any lower bound of the point distances.
   C06  the four regenerated subdivision drivers, over the reals, on pieces with lo < hi: `assert lo < hi` never fails and a box is never
        missing -- the only outcome other than a list is fuel exhaustion; same for `intersections` on whole curves.
   C11  the regenerated windingNumberOfPoint / pointIsInside, over the reals, for polygons in general position: the even-odd theorem and
        winding number 0 outside the box; and for every carrier: pointIsInside is the parity of the winding number. *)
From Coq Require Import ZArith List Bool Reals Lra.
Import ListNotations.
From BZ Require Import Base.Ops Gen.Point Gen.BBox Gen.Line Gen.Quad Gen.Cubic Gen.Sample Gen.Split Gen.CurveCurve Gen.MinDist Gen.Winding.
From BZ Require Import Hand.Bounds Hand.CurveCurve Hand.MinDist Hand.Winding Proofs.C06 Proofs.C20 Proofs.C11 Proofs.Bridge4.
Open Scope R_scope.

(* ---------------------------------------------------------------- C20 *)
Definition value_or_fuel {A : Type} (g : option (outcome A)) : Prop := g = None \/ exists v, g = Some (Returns v).

Lemma cd_transfer_outcomes (g : option (outcome (R * R * R))) (h : res (R * R * R)) :
  cd_rel g h -> ok_or_fuel h -> value_or_fuel g.
Proof.
  unfold cd_rel, value_or_fuel. intros Hr [[x Hx] | Hf]; destruct g as [[v | e] |]; auto.
  - right. eexists. reflexivity.
  - destruct e; subst h; try discriminate; contradiction.
  - right. eexists. reflexivity.
  - destruct e; subst h; try discriminate; contradiction.
Qed.
Lemma cd_transfer_value (g : option (outcome (R * R * R))) (h : res (R * R * R)) v :
  cd_rel g h -> g = Some (Returns v) -> h = Hand.MinDist.Ok v.
Proof. intros Hr ->. exact Hr. Qed.

Ltac cd_outcomes lem := intros; eapply cd_transfer_outcomes; [apply lem | apply curveDistance_outcomes].
Theorem gen_curveDistance_LL_outcomes fuel (a : seg2 R) (b : seg2 R) : value_or_fuel (curvedistance_curveDistance_Line_Line ROps fuel a b).
Proof. cd_outcomes (curveDistance_LL_gen ROps). Qed.
Theorem gen_curveDistance_LQ_outcomes fuel (a : seg2 R) (b : seg3 R) : value_or_fuel (curvedistance_curveDistance_Line_Quad ROps fuel a b).
Proof. cd_outcomes (curveDistance_LQ_gen ROps). Qed.
Theorem gen_curveDistance_LC_outcomes fuel (a : seg2 R) (b : seg4 R) : value_or_fuel (curvedistance_curveDistance_Line_Cubic ROps fuel a b).
Proof. cd_outcomes (curveDistance_LC_gen ROps). Qed.
Theorem gen_curveDistance_QL_outcomes fuel (a : seg3 R) (b : seg2 R) : value_or_fuel (curvedistance_curveDistance_Quad_Line ROps fuel a b).
Proof. cd_outcomes (curveDistance_QL_gen ROps). Qed.
Theorem gen_curveDistance_QQ_outcomes fuel (a : seg3 R) (b : seg3 R) : value_or_fuel (curvedistance_curveDistance_Quad_Quad ROps fuel a b).
Proof. cd_outcomes (curveDistance_QQ_gen ROps). Qed.
Theorem gen_curveDistance_QC_outcomes fuel (a : seg3 R) (b : seg4 R) : value_or_fuel (curvedistance_curveDistance_Quad_Cubic ROps fuel a b).
Proof. cd_outcomes (curveDistance_QC_gen ROps). Qed.
Theorem gen_curveDistance_CL_outcomes fuel (a : seg4 R) (b : seg2 R) : value_or_fuel (curvedistance_curveDistance_Cubic_Line ROps fuel a b).
Proof. cd_outcomes (curveDistance_CL_gen ROps). Qed.
Theorem gen_curveDistance_CQ_outcomes fuel (a : seg4 R) (b : seg3 R) : value_or_fuel (curvedistance_curveDistance_Cubic_Quad ROps fuel a b).
Proof. cd_outcomes (curveDistance_CQ_gen ROps). Qed.
Theorem gen_curveDistance_CC_outcomes fuel (a : seg4 R) (b : seg4 R) : value_or_fuel (curvedistance_curveDistance_Cubic_Cubic ROps fuel a b).
Proof. cd_outcomes (curveDistance_CC_gen ROps). Qed.

(* a returned distance is the distance between a point of the first and a point of the second operand, parameters in [0,1] *)
Definition realised (s1 s2 : segment R) (r : R * R * R) : Prop :=
  let '(d, t1, t2) := r in 0 <= t1 <= 1 /\ 0 <= t2 <= 1 /\ exists u' v', 0 <= u' <= 1 /\ 0 <= v' <= 1 /\ d = seg_dist s1 s2 u' v'.
Ltac cd_realised lem :=
  intros fuel a b r Hg; destruct r as [[d t1] t2];
  pose proof (cd_transfer_value _ _ _ (lem fuel a b) Hg) as Hh; exact (curveDistance_realised _ _ _ _ _ _ Hh).
Theorem gen_curveDistance_LL_realised : forall fuel (a : seg2 R) (b : seg2 R) r,
  curvedistance_curveDistance_Line_Line ROps fuel a b = Some (Returns r) -> realised (SLine a) (SLine b) r.
Proof. cd_realised (curveDistance_LL_gen ROps). Qed.
Theorem gen_curveDistance_LQ_realised : forall fuel (a : seg2 R) (b : seg3 R) r,
  curvedistance_curveDistance_Line_Quad ROps fuel a b = Some (Returns r) -> realised (SLine a) (SQuad b) r.
Proof. cd_realised (curveDistance_LQ_gen ROps). Qed.
Theorem gen_curveDistance_LC_realised : forall fuel (a : seg2 R) (b : seg4 R) r,
  curvedistance_curveDistance_Line_Cubic ROps fuel a b = Some (Returns r) -> realised (SLine a) (SCubic b) r.
Proof. cd_realised (curveDistance_LC_gen ROps). Qed.
Theorem gen_curveDistance_QL_realised : forall fuel (a : seg3 R) (b : seg2 R) r,
  curvedistance_curveDistance_Quad_Line ROps fuel a b = Some (Returns r) -> realised (SQuad a) (SLine b) r.
Proof. cd_realised (curveDistance_QL_gen ROps). Qed.
Theorem gen_curveDistance_QQ_realised : forall fuel (a : seg3 R) (b : seg3 R) r,
  curvedistance_curveDistance_Quad_Quad ROps fuel a b = Some (Returns r) -> realised (SQuad a) (SQuad b) r.
Proof. cd_realised (curveDistance_QQ_gen ROps). Qed.
Theorem gen_curveDistance_QC_realised : forall fuel (a : seg3 R) (b : seg4 R) r,
  curvedistance_curveDistance_Quad_Cubic ROps fuel a b = Some (Returns r) -> realised (SQuad a) (SCubic b) r.
Proof. cd_realised (curveDistance_QC_gen ROps). Qed.
Theorem gen_curveDistance_CL_realised : forall fuel (a : seg4 R) (b : seg2 R) r,
  curvedistance_curveDistance_Cubic_Line ROps fuel a b = Some (Returns r) -> realised (SCubic a) (SLine b) r.
Proof. cd_realised (curveDistance_CL_gen ROps). Qed.
Theorem gen_curveDistance_CQ_realised : forall fuel (a : seg4 R) (b : seg3 R) r,
  curvedistance_curveDistance_Cubic_Quad ROps fuel a b = Some (Returns r) -> realised (SCubic a) (SQuad b) r.
Proof. cd_realised (curveDistance_CQ_gen ROps). Qed.
Theorem gen_curveDistance_CC_realised : forall fuel (a : seg4 R) (b : seg4 R) r,
  curvedistance_curveDistance_Cubic_Cubic ROps fuel a b = Some (Returns r) -> realised (SCubic a) (SCubic b) r.
Proof. cd_realised (curveDistance_CC_gen ROps). Qed.

(* hence never below a lower bound of the point distances (the true minimum), for the pair the property is mostly about *)
Theorem gen_curveDistance_CC_ge_true_min fuel (a b : seg4 R) d t1 t2 lo :
  (forall u v, 0 <= u <= 1 -> 0 <= v <= 1 -> lo <= seg_dist (SCubic a) (SCubic b) u v) ->
  curvedistance_curveDistance_Cubic_Cubic ROps fuel a b = Some (Returns (d, t1, t2)) -> lo <= d.
Proof.
  intros Hlo Hg. destruct (gen_curveDistance_CC_realised _ _ _ _ Hg) as (_ & _ & u & v & Hu & Hv & ->). apply Hlo; assumption.
Qed.

(* ---------------------------------------------------------------- C06 *)
Section CC.
Context {K : Type} (key2 : R -> K) (keq : K -> K -> bool).

Lemma result_of_value_or_fuel {A : Type} (g : option (outcome A)) :
  (forall e, result_of g = Hand.CurveCurve.Err e -> e = Hand.CurveCurve.OutOfFuel) -> value_or_fuel g.
Proof.
  unfold value_or_fuel. destruct g as [[v | e] |]; intro H; auto.
  - right. eexists. reflexivity.
  - exfalso. specialize (H _ eq_refl). destruct e; discriminate.
Qed.

Ltac cc_outcomes lem :=
  intros fuel a b lo hi lo' hi' H1 H2; apply result_of_value_or_fuel; intros e He; rewrite lem in He;
  eapply (cc_error_is_fuel key2 (flip keq) fuel); [| | exact He]; cbn [plo phi]; assumption.
Theorem gen_cc_t_QQ_outcomes : forall fuel (a b : seg3 R) lo hi lo' hi', lo < hi -> lo' < hi' ->
  value_or_fuel (Quad__curve_curve_intersections_t_Quad ROps key2 keq fuel (Ranged a lo hi) (Ranged b lo' hi')).
Proof. cc_outcomes (cc_t_QQ_gen ROps key2 keq). Qed.
Theorem gen_cc_t_QC_outcomes : forall fuel (a : seg3 R) (b : seg4 R) lo hi lo' hi', lo < hi -> lo' < hi' ->
  value_or_fuel (Quad__curve_curve_intersections_t_Cubic ROps key2 keq fuel (Ranged a lo hi) (Ranged b lo' hi')).
Proof. cc_outcomes (cc_t_QC_gen ROps key2 keq). Qed.
Theorem gen_cc_t_CQ_outcomes : forall fuel (a : seg4 R) (b : seg3 R) lo hi lo' hi', lo < hi -> lo' < hi' ->
  value_or_fuel (Cubic__curve_curve_intersections_t_Quad ROps key2 keq fuel (Ranged a lo hi) (Ranged b lo' hi')).
Proof. cc_outcomes (cc_t_CQ_gen ROps key2 keq). Qed.
Theorem gen_cc_t_CC_outcomes : forall fuel (a b : seg4 R) lo hi lo' hi', lo < hi -> lo' < hi' ->
  value_or_fuel (Cubic__curve_curve_intersections_t_Cubic ROps key2 keq fuel (Ranged a lo hi) (Ranged b lo' hi')).
Proof. cc_outcomes (cc_t_CC_gen ROps key2 keq). Qed.
End CC.

(* ---------------------------------------------------------------- C11 *)
Theorem gen_pointIsInside_parity {T : Type} (O : Ops T) (Hneg : Base.Ops.neg O (ofZ O 10) = ofZ O (-10)) (segs : list (segment T)) (p : pt T) (w : Z) :
  Path_windingNumberOfPoint O segs p = Returns w -> Path_pointIsInside O segs p = Returns (Z.odd w).
Proof.
  rewrite (windingNumberOfPoint_gen O Hneg), (pointIsInside_gen O Hneg). intro H.
  destruct (windingNumberOfPoint O segs p) as [w' |] eqn:E; [| discriminate]. injection H as ->.
  rewrite (pointIsInside_parity_any _ O segs p w E). reflexivity.
Qed.

Theorem gen_polygon_even_odd ls b0 x y : polygon_query ls b0 x y ->
  Path_pointIsInside ROps (map SLine ls) (P x y) = Returns (Nat.odd (length (filter (left_of x y) ls))) /\
  Nat.odd (length (filter (left_of x y) ls)) = Nat.odd (length (filter (right_of x y) ls)).
Proof.
  intro H. rewrite (pointIsInside_gen ROps Hneg_R). destruct (polygon_even_odd ls b0 x y H) as [-> E]. split; [reflexivity | exact E].
Qed.
Theorem gen_polygon_winding_number ls b0 x y : polygon_query ls b0 x y ->
  Path_windingNumberOfPoint ROps (map SLine ls) (P x y) = Returns (Z.abs (leftSum ls x y)) /\ Z.abs (leftSum ls x y) = Z.abs (rightSum ls x y).
Proof.
  intro H. rewrite (windingNumberOfPoint_gen ROps Hneg_R). destruct (polygon_winding_number ls b0 x y H) as [-> E]. split; [reflexivity | exact E].
Qed.
Theorem gen_bbox_outside_zero ls b0 x y : polygon_query ls b0 x y -> BBox_includes ROps b0 (P x y) = false ->
  Path_windingNumberOfPoint ROps (map SLine ls) (P x y) = Returns 0%Z.
Proof.
  intros H Hb. rewrite (windingNumberOfPoint_gen ROps Hneg_R), (bbox_outside_zero ls b0 x y H Hb). reflexivity.
Qed.

(* closed paths of lines, quadratics and cubics in general position (Proofs/C11curves.v): the same two theorems for the regenerated functions *)
From BZ Require Import Proofs.C11curves.
Theorem gen_mixed_even_odd srs b0 x y : mixed_query srs b0 x y ->
  Path_pointIsInside ROps (map fst srs) (P x y) = Returns (Nat.odd (count_if (left_c x) srs)) /\
  Nat.odd (count_if (left_c x) srs) = Nat.odd (count_if (right_c x) srs).
Proof.
  intro H. rewrite (pointIsInside_gen ROps Hneg_R). destruct (mixed_even_odd srs b0 x y H) as [-> E]. split; [reflexivity | exact E].
Qed.
Theorem gen_mixed_winding_number srs b0 x y : mixed_query srs b0 x y ->
  Path_windingNumberOfPoint ROps (map fst srs) (P x y) = Returns (Z.abs (signed_if (left_c x) srs)) /\
  Z.abs (signed_if (left_c x) srs) = Z.abs (signed_if (right_c x) srs).
Proof.
  intro H. rewrite (windingNumberOfPoint_gen ROps Hneg_R). destruct (mixed_winding_number srs b0 x y H) as [-> E]. split; [reflexivity | exact E].
Qed.
