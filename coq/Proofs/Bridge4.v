(* Bridge, fourth part: the recursive drivers moved under the translator in the fourth round.

   1. Curve-curve subdivision (property C06).  Hand/CurveCurve.v models IntersectionsMixin._curve_curve_intersections_t /
      _curve_curve_intersections / intersections over the sum type [curve] / [segment], with pieces [Piece c lo hi], the four
      recursive calls chained by [bind], the lazy `filter(filterSeen, found)` as the structural [dedup], and the results in its
      own type [result] ([Err OutOfFuel | RangeAssert | NoBounds | DispatchError]).  Gen/CurveCurve.v is REGENERATED from
      utils/intersectionsmixin.py: one Fixpoint on fuel for each of the four pairs of curve classes over the record [ranged],
      `found` accumulated with ++ through the four calls, the filter as a fold over the association list `seen`, results as
      [option (outcome _)] (None = out of fuel, [Raises PyAssertionError] = `assert lo < hi`, [Raises PyNoneError] = a box with
      unset corners used as a box).  For EVERY scalar carrier [O : Ops T], every key function [key2] and every [keq]:

          result_of (X__curve_curve_intersections_t_Y O key2 keq fuel (Ranged a lo hi) (Ranged b lo' hi'))
            = cc_t O key2 (flip keq) fuel (Piece (C a) lo hi) (Piece (C' b) lo' hi')

      -- the same list, the same error, out of fuel on one side iff on the other.  ([flip]: the generated dict lookup applies
      the equality to (stored key, new key), the hand model's [existsb] to (new key, stored key); for a symmetric [keq], as
      [keyF_eqb] is, the flip disappears: the [_sym] corollaries.)  The same for _curve_curve_intersections and, for the nine
      pairs of classes, for the dispatch `intersections`. *)
From Coq Require Import PrimFloat.
From Coq Require Import ZArith List Bool Lia.
Import ListNotations.
From BZ Require Import Base.Ops Gen.Point Gen.BBox Gen.Line Gen.Quad Gen.Cubic Gen.Sample Gen.Split Gen.CurveCurve.
From BZ Require Import Hand.Bounds Hand.CurveCurve Proofs.Bridge.

(* ---------- results: generated (option (outcome _)) -> hand (result) ---------- *)
(* [PyValueError] is the `else: raise ValueError` arm of `intersections` (unreachable after the swap, and absent from every
   generated definition: the translator decides the dispatch from the classes); IndexError / OverflowError are raised by
   nothing here *)
Definition err_of (e : pyexc) : cc_error :=
  match e with PyAssertionError => RangeAssert | PyNoneError => NoBounds | _ => DispatchError end.
Definition result_of {A : Type} (r : option (outcome A)) : result A :=
  match r with None => Err OutOfFuel | Some (Returns a) => Ok a | Some (Raises e) => Err (err_of e) end.
Definition flip {K : Type} (keq : K -> K -> bool) : K -> K -> bool := fun a b => keq b a.

(* the scrutinee a term is stuck on: the head of its nest of matches *)
Ltac head_of t :=
  lazymatch t with
  | match ?x with _ => _ end => head_of x
  | _ => t
  end.

Section CurveCurveBridge.
Context {T : Type} (O : Ops T).
Context {K : Type} (key2 : T -> K) (keq : K -> K -> bool).

(* ---------- the filter: fold over the dict `seen` vs [dedup] ---------- *)
(* the step of the generated fold, as the translator writes it *)
Definition gstep : (list (K * T) * list (T * T)) -> (T * T) -> (list (K * T) * list (T * T)) :=
  fun '((v_seen, v_keep) : (list (K * T) * list (T * T))%type) (v_n : (T * T)%type) =>
    let '(o_seen, b) := let v_key := key2 (fst v_n) in
                        (if dict_mem keq v_seen v_key then (v_seen, false)
                         else let v_seen' := dict_set keq v_seen v_key (ofZ O 1) in (v_seen', true)) in
    (o_seen, if b then v_keep ++ [v_n] else v_keep).

Definition seen_inv (d : list (K * T)) (seen : list K) : Prop :=
  forall k, dict_mem keq d k = existsb (flip keq k) seen.

Lemma dict_mem_set_new (d : list (K * T)) (k0 : K) (v : T) (k : K) :
  dict_mem keq d k0 = false -> dict_mem keq (dict_set keq d k0 v) k = keq k0 k || dict_mem keq d k.
Proof.
  induction d as [|[k' v'] d IH]; cbn [dict_mem dict_set]; intro H.
  - destruct (keq k0 k); reflexivity.
  - destruct (keq k' k0) eqn:E; [discriminate|]. cbn [dict_mem]. rewrite (IH H).
    destruct (keq k' k), (keq k0 k); reflexivity.
Qed.

Lemma gstep_dedup (l : list (T * T)) : forall d seen keep, seen_inv d seen ->
  snd (fold_left gstep l (d, keep)) = keep ++ dedup key2 (flip keq) seen l.
Proof.
  induction l as [|x l IH]; intros d seen keep Hinv; cbn [fold_left dedup].
  - cbn [snd]. rewrite app_nil_r. reflexivity.
  - unfold gstep at 2. cbv zeta. rewrite (Hinv (key2 (fst x))).
    destruct (existsb (flip keq (key2 (fst x))) seen) eqn:E.
    + apply IH, Hinv.
    + rewrite (IH _ (key2 (fst x) :: seen) _); [rewrite <- app_assoc; reflexivity|].
      intro k. rewrite dict_mem_set_new by (rewrite (Hinv (key2 (fst x))); exact E).
      cbn [existsb]. rewrite (Hinv k). reflexivity.
Qed.

Lemma gstep_dedup0 (l : list (T * T)) : snd (fold_left gstep l ([], [])) = dedup key2 (flip keq) [] l.
Proof. rewrite (gstep_dedup l [] [] []); [reflexivity|]. intro k. reflexivity. Qed.

(* ---------- the recursion ---------- *)
(* one step of the comparison: case analysis on whatever the generated side is stuck on (in program order), the hand side follows *)
Ltac cc_norm := cbv beta iota zeta; cbn [bind result_of err_of fst snd rg_seg rg_lo rg_hi negb andb].
Ltac cc_step :=
  lazymatch goal with
  | |- result_of ?g = _ =>
    let h := head_of g in
    lazymatch h with
    | fold_left _ ?l _ =>
        let E := fresh "E" in
        change h with (fold_left gstep l ([], []));
        destruct (fold_left gstep l ([], [])) as [? ?] eqn:E; apply (f_equal snd) in E; cbn [snd] in E;
        rewrite gstep_dedup0 in E; subst
    | _ => destruct h
    end
  end.
Ltac cc_done :=
  lazymatch goal with
  | |- result_of None = _ => idtac
  | |- result_of (Some _) = _ => idtac
  end;
  cbn [bind result_of err_of app]; rewrite ?app_nil_r, <- ?app_assoc; reflexivity.
Ltac cc_run := repeat (first [cc_done | cc_norm; cc_step]).

(* the four pairs of classes: the same script (induction on the fuel; the hand model's recursive calls are rewritten into the
   generated ones by the induction hypothesis, its bounds into the generated bounds by Proofs/Bridge.v) *)
Ltac cc_t_proof gen :=
  let fuel := fresh "fuel" in let f := fresh "f" in let IH := fresh "IH" in
  intro fuel; induction fuel as [|f IH]; intros a b lo hi lo' hi'; [reflexivity|];
  cbn [gen cc_t]; unfold curve_bounds, psplit, curve_split_half, range_ok, xmap, mid, half, precision;
  cbv zeta; cbn [pc plo phi rg_seg rg_lo rg_hi fst snd];
  rewrite <- !IH; rewrite ?Quad_bounds_gen, ?Cubic_bounds_gen;
  cc_run.

Theorem cc_t_QQ_gen : forall fuel (a b : seg3 T) (lo hi lo' hi' : T),
  result_of (Quad__curve_curve_intersections_t_Quad O key2 keq fuel (Ranged a lo hi) (Ranged b lo' hi'))
  = cc_t O key2 (flip keq) fuel (Piece (CQuad a) lo hi) (Piece (CQuad b) lo' hi').
Proof. cc_t_proof (@Quad__curve_curve_intersections_t_Quad). Qed.
Theorem cc_t_QC_gen : forall fuel (a : seg3 T) (b : seg4 T) (lo hi lo' hi' : T),
  result_of (Quad__curve_curve_intersections_t_Cubic O key2 keq fuel (Ranged a lo hi) (Ranged b lo' hi'))
  = cc_t O key2 (flip keq) fuel (Piece (CQuad a) lo hi) (Piece (CCubic b) lo' hi').
Proof. cc_t_proof (@Quad__curve_curve_intersections_t_Cubic). Qed.
Theorem cc_t_CQ_gen : forall fuel (a : seg4 T) (b : seg3 T) (lo hi lo' hi' : T),
  result_of (Cubic__curve_curve_intersections_t_Quad O key2 keq fuel (Ranged a lo hi) (Ranged b lo' hi'))
  = cc_t O key2 (flip keq) fuel (Piece (CCubic a) lo hi) (Piece (CQuad b) lo' hi').
Proof. cc_t_proof (@Cubic__curve_curve_intersections_t_Quad). Qed.
Theorem cc_t_CC_gen : forall fuel (a b : seg4 T) (lo hi lo' hi' : T),
  result_of (Cubic__curve_curve_intersections_t_Cubic O key2 keq fuel (Ranged a lo hi) (Ranged b lo' hi'))
  = cc_t O key2 (flip keq) fuel (Piece (CCubic a) lo hi) (Piece (CCubic b) lo' hi').
Proof. cc_t_proof (@Cubic__curve_curve_intersections_t_Cubic). Qed.

(* ---------- _curve_curve_intersections: the user-level segments have `_range = [0, 1]` ---------- *)
Ltac cci_proof gen lem :=
  intros; unfold gen, curve_curve_intersections, whole; rewrite <- lem;
  match goal with |- _ = bind (result_of ?g) _ => destruct g as [[?|?]|] end; reflexivity.
Theorem cci_QQ_gen (fuel : nat) (a b : seg3 T) :
  result_of (Quad__curve_curve_intersections_Quad O key2 keq fuel a b) = curve_curve_intersections O key2 (flip keq) fuel (CQuad a) (CQuad b).
Proof. cci_proof (@Quad__curve_curve_intersections_Quad) cc_t_QQ_gen. Qed.
Theorem cci_QC_gen (fuel : nat) (a : seg3 T) (b : seg4 T) :
  result_of (Quad__curve_curve_intersections_Cubic O key2 keq fuel a b) = curve_curve_intersections O key2 (flip keq) fuel (CQuad a) (CCubic b).
Proof. cci_proof (@Quad__curve_curve_intersections_Cubic) cc_t_QC_gen. Qed.
Theorem cci_CQ_gen (fuel : nat) (a : seg4 T) (b : seg3 T) :
  result_of (Cubic__curve_curve_intersections_Quad O key2 keq fuel a b) = curve_curve_intersections O key2 (flip keq) fuel (CCubic a) (CQuad b).
Proof. cci_proof (@Cubic__curve_curve_intersections_Quad) cc_t_CQ_gen. Qed.
Theorem cci_CC_gen (fuel : nat) (a b : seg4 T) :
  result_of (Cubic__curve_curve_intersections_Cubic O key2 keq fuel a b) = curve_curve_intersections O key2 (flip keq) fuel (CCubic a) (CCubic b).
Proof. cci_proof (@Cubic__curve_curve_intersections_Cubic) cc_t_CC_gen. Qed.

(* ---------- intersections: the swap by degree, the dispatch, the withinRange filter; nine pairs of classes ---------- *)
(* two curves: the generated definition carries the effects *)
Ltac ix_cc_proof gen lem :=
  intros; unfold gen, intersections; cbn [swapped order Nat.ltb Nat.leb]; cbv iota; rewrite <- lem;
  match goal with |- _ = bind (result_of ?g) _ => destruct g as [[?|?]|] end; [|reflexivity|reflexivity];
  match goal with l : bool |- _ => destruct l end; reflexivity.
Theorem intersections_QQ_gen (fuel : nat) (a b : seg3 T) (limited : bool) :
  result_of (Quad_intersections_Quad O key2 keq fuel a b limited) = intersections O key2 (flip keq) fuel (SQuad a) (SQuad b) limited.
Proof. ix_cc_proof (@Quad_intersections_Quad) cci_QQ_gen. Qed.
(* `if len(other.points) > len(self.points): self, other = other, self`: the cubic becomes the receiver *)
Theorem intersections_QC_gen (fuel : nat) (a : seg3 T) (b : seg4 T) (limited : bool) :
  result_of (Quad_intersections_Cubic O key2 keq fuel a b limited) = intersections O key2 (flip keq) fuel (SQuad a) (SCubic b) limited.
Proof. ix_cc_proof (@Quad_intersections_Cubic) cci_CQ_gen. Qed.
Theorem intersections_CQ_gen (fuel : nat) (a : seg4 T) (b : seg3 T) (limited : bool) :
  result_of (Cubic_intersections_Quad O key2 keq fuel a b limited) = intersections O key2 (flip keq) fuel (SCubic a) (SQuad b) limited.
Proof. ix_cc_proof (@Cubic_intersections_Quad) cci_CQ_gen. Qed.
Theorem intersections_CC_gen (fuel : nat) (a b : seg4 T) (limited : bool) :
  result_of (Cubic_intersections_Cubic O key2 keq fuel a b limited) = intersections O key2 (flip keq) fuel (SCubic a) (SCubic b) limited.
Proof. ix_cc_proof (@Cubic_intersections_Cubic) cci_CC_gen. Qed.
(* a line among the operands: the generated definition is a plain list (no fuel, no exception, no key) *)
Ltac ix_line_proof gen := intros; unfold gen, intersections; match goal with l : bool |- _ => destruct l end; reflexivity.
Theorem intersections_LL_gen (fuel : nat) (a b : seg2 T) (limited : bool) :
  Ok (Line_intersections_Line O a b limited) = intersections O key2 (flip keq) fuel (SLine a) (SLine b) limited.
Proof. ix_line_proof (@Line_intersections_Line). Qed.
Theorem intersections_LQ_gen (fuel : nat) (a : seg2 T) (b : seg3 T) (limited : bool) :
  Ok (Line_intersections_Quad O a b limited) = intersections O key2 (flip keq) fuel (SLine a) (SQuad b) limited.
Proof. ix_line_proof (@Line_intersections_Quad). Qed.
Theorem intersections_LC_gen (fuel : nat) (a : seg2 T) (b : seg4 T) (limited : bool) :
  Ok (Line_intersections_Cubic O a b limited) = intersections O key2 (flip keq) fuel (SLine a) (SCubic b) limited.
Proof. ix_line_proof (@Line_intersections_Cubic). Qed.
Theorem intersections_QL_gen (fuel : nat) (a : seg3 T) (b : seg2 T) (limited : bool) :
  Ok (Quad_intersections_Line O a b limited) = intersections O key2 (flip keq) fuel (SQuad a) (SLine b) limited.
Proof. ix_line_proof (@Quad_intersections_Line). Qed.
Theorem intersections_CL_gen (fuel : nat) (a : seg4 T) (b : seg2 T) (limited : bool) :
  Ok (Cubic_intersections_Line O a b limited) = intersections O key2 (flip keq) fuel (SCubic a) (SLine b) limited.
Proof. ix_line_proof (@Cubic_intersections_Line). Qed.

(* for a symmetric key equality the flip disappears *)
Lemma flip_sym : (forall x y, keq x y = keq y x) -> forall x y, flip keq x y = keq x y.
Proof. intros H x y. unfold flip. apply H. Qed.
Lemma dedup_ext (e1 e2 : K -> K -> bool) : (forall x y, e1 x y = e2 x y) ->
  forall (l : list (T * T)) seen, dedup key2 e1 seen l = dedup key2 e2 seen l.
Proof.
  intros H l. induction l as [|x l IH]; intro seen; cbn [dedup]; [reflexivity|].
  assert (E : existsb (e1 (key2 (fst x))) seen = existsb (e2 (key2 (fst x))) seen).
  { induction seen as [|s r IHs]; cbn [existsb]; [reflexivity|]. rewrite H, IHs. reflexivity. }
  rewrite E, !IH. reflexivity.
Qed.
Lemma bind_ext {A B : Type} (r : result A) (f g : A -> result B) : (forall x, f x = g x) -> bind r f = bind r g.
Proof. intro H. destruct r; cbn [bind]; [apply H|reflexivity]. Qed.
Lemma cc_t_ext (e1 e2 : K -> K -> bool) : (forall x y, e1 x y = e2 x y) ->
  forall fuel p q, cc_t O key2 e1 fuel p q = cc_t O key2 e2 fuel p q.
Proof.
  intros H fuel. induction fuel as [|f IH]; intros p q; [reflexivity|].
  cbn [cc_t]. cbv zeta.
  destruct (curve_bounds O (pc p)); [|reflexivity]. destruct (curve_bounds O (pc q)); [|reflexivity].
  destruct (negb _); [reflexivity|]. destruct (_ && _); [reflexivity|]. destruct (_ && _); [|reflexivity].
  rewrite !IH. repeat (apply bind_ext; intro). f_equal. apply dedup_ext, H.
Qed.

Lemma cci_ext (e1 e2 : K -> K -> bool) : (forall x y, e1 x y = e2 x y) ->
  forall fuel c1 c2, curve_curve_intersections O key2 e1 fuel c1 c2 = curve_curve_intersections O key2 e2 fuel c1 c2.
Proof. intros H fuel c1 c2. unfold curve_curve_intersections. rewrite (cc_t_ext e1 e2 H). reflexivity. Qed.
Lemma intersections_ext (e1 e2 : K -> K -> bool) : (forall x y, e1 x y = e2 x y) ->
  forall fuel s1 s2 limited, intersections O key2 e1 fuel s1 s2 limited = intersections O key2 e2 fuel s1 s2 limited.
Proof. intros H fuel s1 s2 limited. unfold intersections. destruct s1, s2; cbn [swapped order Nat.ltb Nat.leb]; cbv iota; rewrite ?(cci_ext e1 e2 H); reflexivity. Qed.

(* for a symmetric key equality -- "the two strings are equal" -- the generated definitions compute the hand model itself *)
Section Symmetric.
Hypothesis keq_sym : forall x y, keq x y = keq y x.
Let unflip : forall x y, flip keq x y = keq x y := flip_sym keq_sym.
Corollary cc_t_QQ_gen_sym fuel (a b : seg3 T) lo hi lo' hi' :
  result_of (Quad__curve_curve_intersections_t_Quad O key2 keq fuel (Ranged a lo hi) (Ranged b lo' hi')) = cc_t O key2 keq fuel (Piece (CQuad a) lo hi) (Piece (CQuad b) lo' hi').
Proof. rewrite cc_t_QQ_gen. apply cc_t_ext, unflip. Qed.
Corollary cc_t_QC_gen_sym fuel (a : seg3 T) (b : seg4 T) lo hi lo' hi' :
  result_of (Quad__curve_curve_intersections_t_Cubic O key2 keq fuel (Ranged a lo hi) (Ranged b lo' hi')) = cc_t O key2 keq fuel (Piece (CQuad a) lo hi) (Piece (CCubic b) lo' hi').
Proof. rewrite cc_t_QC_gen. apply cc_t_ext, unflip. Qed.
Corollary cc_t_CQ_gen_sym fuel (a : seg4 T) (b : seg3 T) lo hi lo' hi' :
  result_of (Cubic__curve_curve_intersections_t_Quad O key2 keq fuel (Ranged a lo hi) (Ranged b lo' hi')) = cc_t O key2 keq fuel (Piece (CCubic a) lo hi) (Piece (CQuad b) lo' hi').
Proof. rewrite cc_t_CQ_gen. apply cc_t_ext, unflip. Qed.
Corollary cc_t_CC_gen_sym fuel (a b : seg4 T) lo hi lo' hi' :
  result_of (Cubic__curve_curve_intersections_t_Cubic O key2 keq fuel (Ranged a lo hi) (Ranged b lo' hi')) = cc_t O key2 keq fuel (Piece (CCubic a) lo hi) (Piece (CCubic b) lo' hi').
Proof. rewrite cc_t_CC_gen. apply cc_t_ext, unflip. Qed.
Corollary intersections_QQ_gen_sym fuel (a b : seg3 T) limited :
  result_of (Quad_intersections_Quad O key2 keq fuel a b limited) = intersections O key2 keq fuel (SQuad a) (SQuad b) limited.
Proof. rewrite intersections_QQ_gen. apply intersections_ext, unflip. Qed.
Corollary intersections_QC_gen_sym fuel (a : seg3 T) (b : seg4 T) limited :
  result_of (Quad_intersections_Cubic O key2 keq fuel a b limited) = intersections O key2 keq fuel (SQuad a) (SCubic b) limited.
Proof. rewrite intersections_QC_gen. apply intersections_ext, unflip. Qed.
Corollary intersections_CQ_gen_sym fuel (a : seg4 T) (b : seg3 T) limited :
  result_of (Cubic_intersections_Quad O key2 keq fuel a b limited) = intersections O key2 keq fuel (SCubic a) (SQuad b) limited.
Proof. rewrite intersections_CQ_gen. apply intersections_ext, unflip. Qed.
Corollary intersections_CC_gen_sym fuel (a b : seg4 T) limited :
  result_of (Cubic_intersections_Cubic O key2 keq fuel a b limited) = intersections O key2 keq fuel (SCubic a) (SCubic b) limited.
Proof. rewrite intersections_CC_gen. apply intersections_ext, unflip. Qed.
End Symmetric.

End CurveCurveBridge.

(* the instance the correspondence check runs: the exact binary64 key of "%.2f" % t1, whose equality is symmetric *)
Lemma keyF_eqb_sym (x y : Z * Z) : keyF_eqb x y = keyF_eqb y x.
Proof. unfold keyF_eqb. rewrite (Z.eqb_sym (fst x)), (Z.eqb_sym (snd x)). reflexivity. Qed.
Theorem cc_t_CC_gen_float (fuel : nat) (a b : seg4 float) (lo hi lo' hi' : float) :
  result_of (Cubic__curve_curve_intersections_t_Cubic FOps key2F keyF_eqb fuel (Ranged a lo hi) (Ranged b lo' hi'))
  = cc_t FOps key2F keyF_eqb fuel (Piece (CCubic a) lo hi) (Piece (CCubic b) lo' hi').
Proof. apply cc_t_CC_gen_sym, keyF_eqb_sym. Qed.
Theorem intersections_CC_gen_float (fuel : nat) (a b : seg4 float) (limited : bool) :
  result_of (Cubic_intersections_Cubic FOps key2F keyF_eqb fuel a b limited) = intersections FOps key2F keyF_eqb fuel (SCubic a) (SCubic b) limited.
Proof. apply intersections_CC_gen_sym, keyF_eqb_sym. Qed.

(* ====================================================================================================== *)
(* 2. utils/curvedistance.py: MinimumCurveDistanceFinder.minDist / curveDistance (property C20).

   Hand/MinDist.v: [minDist O n m S D fuel st umin umax vmin vmax : res (T*T*T) * state] with n = len(bez1) - 1, m = len(bez2) - 1 as
   nats, S and D as partial functions ([None] is the error [IndexErr]), the two "property" loops as [fold_left] over the list
   [index_pairs n m] with the state wrapped in [res], `minIJ` as [option (nat * nat)], self.iterations as a nat, and the state
   returned also when an error occurs.  Gen/MinDist.v, REGENERATED from the Python text: [curvedistance_minDist O len1 len2 S_ D_
   fuel self_ uinterval vinterval epsilon], len(bez1) / len(bez2) as run-time ints (Z), S total and D an [outcome], the loops
   as nested [fold_option_outcome] over [range_Z], `minIJ` as a pair of optional ints, self.iterations in Z, the result
   [option (outcome (value, state))].  The relation [md_rel], for EVERY scalar carrier: the same value and the same final state,
   or the same kind of failure (out of fuel / a D that is not available / None where a number is needed). *)
From BZ Require Import Gen.CurveDist Gen.MinDist Hand.MinDist.

Definition md_rel {T : Type} (g : option (outcome ((T * T * T) * (option T * Z)))) (h : res (T * T * T) * (option T * nat)) : Prop :=
  match g with
  | None => fst h = OutOfFuel
  | Some (Raises PyIndexError) => fst h = IndexErr
  | Some (Raises PyNoneError) => fst h = NoneErr
  | Some (Raises _) => False
  | Some (Returns (v, (b, i))) => h = (Hand.MinDist.Ok v, (b, Z.to_nat i)) /\ (0 <= i)%Z
  end.

Lemma range_Z_seq (k : nat) : range_Z 0 (Z.of_nat k) = map Z.of_nat (seq 0 k).
Proof. unfold range_Z. rewrite Z.sub_0_r, Nat2Z.id. apply map_ext. intro i. apply Z.add_0_l. Qed.

Lemma fold_left_flat_map {A B C : Type} (g : A -> C -> A) (h : B -> list C) (l : list B) (a : A) :
  fold_left g (flat_map h l) a = fold_left (fun a x => fold_left g (h x) a) l a.
Proof. revert a. induction l as [|x l IH]; intro a; [reflexivity|]. cbn [flat_map fold_left]. rewrite fold_left_app. apply IH. Qed.

(* a fold whose steps may fail (generated: [fold_option_outcome], never out of fuel here) against the hand model's [fold_left] over a
   state in [res]: [sim] relates the two results *)
Section FoldSim.
Context {A A' B B' : Type} (R : A -> A' -> Prop) (phi : B' -> B).
Definition sim (x : option (outcome A)) (y : res A') : Prop :=
  match x with
  | Some (Returns a) => exists a', y = Hand.MinDist.Ok a' /\ R a a'
  | Some (Raises PyIndexError) => y = IndexErr
  | _ => False
  end.
Lemma fold_sim (f : A -> B -> option (outcome A)) (g : res A' -> B' -> res A') :
  (forall b', g IndexErr b' = IndexErr) ->
  (forall a a' b', R a a' -> sim (f a (phi b')) (g (Hand.MinDist.Ok a') b')) ->
  forall l a a', R a a' -> sim (fold_option_outcome f (map phi l) a) (fold_left g l (Hand.MinDist.Ok a')).
Proof.
  intros Herr Hstep l. induction l as [|b' l IH]; intros a a' HR; cbn [map fold_option_outcome fold_left].
  - exists a'. split; [reflexivity|exact HR].
  - specialize (Hstep a a' b' HR). unfold sim in Hstep.
    destruct (f a (phi b')) as [[a2|e]|]; [| |contradiction].
    + destruct Hstep as [a2' [E HR2]]. rewrite E. apply IH, HR2.
    + destruct e; try contradiction. rewrite Hstep.
      assert (Hfix : forall l0, fold_left g l0 IndexErr = IndexErr) by (induction l0 as [|x l0 IHl]; [reflexivity|cbn [fold_left]; rewrite Herr; exact IHl]).
      cbn [sim]. apply Hfix.
Qed.
End FoldSim.

Section MinDistBridge.
Context {T : Type} (O : Ops T).
(* n = len(bez1) - 1, m = len(bez2) - 1; S and D on the two sides: the generated S is total, the generated D an [outcome] that
   fails with IndexError exactly where the hand model's D is undefined *)
Variables (n m : nat) (Sg : T -> T -> T) (Shand : T -> T -> option T) (Dgen : Z -> Z -> outcome T) (Dhand : nat -> nat -> option T).
Hypothesis HS : forall u v, Shand u v = Some (Sg u v).
Hypothesis HD : forall r k : nat, Dgen (Z.of_nat r) (Z.of_nat k) = match Dhand r k with Some d => Returns d | None => Raises PyIndexError end.

(* ---- the two loops as the translator writes them (the main proof checks, by conversion, that these ARE the generated loops) ---- *)
Local Notation acc1 := (bool * option T * (option Z * option Z))%type.
Definition p1_inner (alpha : T) (v_r : Z) : acc1 -> Z -> option (outcome acc1) :=
  fun '(((v_isOutside, v_minDRK), v_minIJ) : acc1) v_k =>
  match Dgen v_r v_k with
  | Raises e_ => Some (Raises e_)
  | Returns r_ =>
    let v_isOutside' := (if ltb O r_ alpha then false else v_isOutside) in
    let '(v_minDRK', v_minIJ') := (if (match v_minDRK with None => true | Some z_ => orb (eqb O z_ (ofZ O 0)) (ltb O r_ z_) end)
                                   then (Some r_, (Some v_r, Some v_k)) else (v_minDRK, (fst v_minIJ, snd v_minIJ))) in
    Some (Returns (v_isOutside', v_minDRK', v_minIJ'))
  end.
Definition p1_outer (alpha : T) : acc1 -> Z -> option (outcome acc1) :=
  fun '(((v_isOutside, v_minDRK), v_minIJ) : acc1) v_r =>
  match fold_option_outcome (p1_inner alpha v_r) (range_Z 0 (2 * Z.of_nat m)) (v_isOutside, v_minDRK, v_minIJ) with
  | None => None
  | Some (Raises e_) => Some (Raises e_)
  | Some (Returns ((a, b), c)) => Some (Returns (a, b, c))
  end.

Local Notation acc2 := (bool * bool * bool * bool)%type.
Definition p2_inner (v_i : Z) : acc2 -> Z -> option (outcome acc2) :=
  fun '((((f01, f11), f02), f12) : acc2) v_j =>
  match Dgen v_i v_j with
  | Raises e_ => Some (Raises e_)
  | Returns r_40 =>
  match Dgen 0 v_j with
  | Raises e_ => Some (Raises e_)
  | Returns r_41 =>
  let f01' := (if ltb O r_40 r_41 then false else f01) in
  match Dgen (2 * Z.of_nat n) v_j with
  | Raises e_ => Some (Raises e_)
  | Returns r_43 =>
  let f11' := (if ltb O r_40 r_43 then false else f11) in
  match Dgen v_i 0 with
  | Raises e_ => Some (Raises e_)
  | Returns r_45 =>
  let f02' := (if ltb O r_40 r_45 then false else f02) in
  match Dgen v_i (2 * Z.of_nat n) with
  | Raises e_ => Some (Raises e_)
  | Returns r_47 =>
  let f12' := (if ltb O r_40 r_47 then false else f12) in
  Some (Returns (f01', f11', f02', f12'))
  end end end end end.
Definition p2_outer : acc2 -> Z -> option (outcome acc2) :=
  fun '((((f01, f11), f02), f12) : acc2) v_i =>
  match fold_option_outcome (p2_inner v_i) (range_Z 0 (2 * Z.of_nat m)) (f01, f11, f02, f12) with
  | None => None
  | Some (Raises e_) => Some (Raises e_)
  | Some (Returns (((a, b), c), d)) => Some (Returns (a, b, c, d))
  end.

(* ---- the loops: generated nested folds vs the hand model's fold over index_pairs ---- *)
Lemma fold_left_map {A B C : Type} (g : A -> C -> A) (h : B -> C) (l : list B) (a : A) :
  fold_left g (map h l) a = fold_left (fun a x => g a (h x)) l a.
Proof. revert a. induction l as [|x l IH]; intro a; [reflexivity|]. cbn [map fold_left]. apply IH. Qed.
Lemma two_of_nat (k : nat) : (2 * Z.of_nat k)%Z = Z.of_nat (2 * k).
Proof. lia. Qed.

Definition R1 (a : acc1) (a' : p1_state (T := T)) : Prop :=
  fst (fst a) = fst (fst a') /\ snd (fst a) = snd (fst a') /\
  match snd a' with
  | None => snd a = (None, None)
  | Some (r, k) => snd a = (Some (Z.of_nat r), Some (Z.of_nat k))
  end.

Lemma p1_err (alpha : T) l : fold_left (p1_step O Dhand alpha) l IndexErr = IndexErr.
Proof. induction l as [|x l IH]; [reflexivity|exact IH]. Qed.

Lemma p1_inner_step (alpha : T) (r : nat) (a : acc1) (a' : p1_state) (k : nat) :
  R1 a a' -> sim R1 (p1_inner alpha (Z.of_nat r) a (Z.of_nat k)) (p1_step O Dhand alpha (Hand.MinDist.Ok a') (r, k)).
Proof.
  destruct a as [[io md] [x y]], a' as [[io' md'] ij]. unfold R1. cbn [fst snd]. intros (E1 & E2 & E3). subst io' md'.
  unfold p1_inner, p1_step. cbn [fst snd]. rewrite HD.
  destruct (Dhand r k) as [d|]; [|reflexivity].
  cbv zeta. unfold truthy.
  destruct md as [z|]; cbn [negb orb].
  - rewrite negb_involutive. destruct (eqb O z (ofZ O 0) || ltb O d z); cbn [sim].
    + eexists. split; [reflexivity|]. unfold R1. cbn [fst snd]. auto.
    + eexists. split; [reflexivity|]. unfold R1. cbn [fst snd]. split; [reflexivity|]. split; [reflexivity|].
      destruct ij as [[r0 k0]|]; injection E3 as -> ->; reflexivity.
  - cbn [sim]. eexists. split; [reflexivity|]. unfold R1. cbn [fst snd]. auto.
Qed.

Lemma p1_loop (alpha : T) :
  sim R1 (fold_option_outcome (p1_outer alpha) (range_Z 0 (2 * Z.of_nat n)) (true, None, (None, None)))
         (fold_left (p1_step O Dhand alpha) (index_pairs n m) (Hand.MinDist.Ok (true, None, None))).
Proof.
  unfold index_pairs. rewrite fold_left_flat_map, two_of_nat, range_Z_seq.
  apply (fold_sim R1 Z.of_nat).
  - intro r. apply p1_err.
  - intros a a' r HR. rewrite fold_left_map.
    assert (E : p1_outer alpha a (Z.of_nat r) = fold_option_outcome (p1_inner alpha (Z.of_nat r)) (range_Z 0 (2 * Z.of_nat m)) a).
    { destruct a as [[io md] mij]. unfold p1_outer. destruct (fold_option_outcome _ _ _) as [[[[? ?] ?]|?]|]; reflexivity. }
    rewrite E, two_of_nat, range_Z_seq.
    apply (fold_sim R1 Z.of_nat (p1_inner alpha (Z.of_nat r)) (fun st k => p1_step O Dhand alpha st (r, k))).
    + reflexivity.
    + intros a0 a0' k H0. apply p1_inner_step, H0.
    + exact HR.
  - unfold R1. cbn [fst snd]. auto.
Qed.

Lemma p2_err l : fold_left (p2_step O n Dhand) l IndexErr = IndexErr.
Proof. induction l as [|x l IH]; [reflexivity|exact IH]. Qed.

Lemma p2_inner_step (i : nat) (a : acc2) (j : nat) :
  sim eq (p2_inner (Z.of_nat i) a (Z.of_nat j)) (p2_step O n Dhand (Hand.MinDist.Ok a) (i, j)).
Proof.
  destruct a as [[[f01 f11] f02] f12]. unfold p2_inner, p2_step. cbn [fst snd]. rewrite two_of_nat.
  change 0%Z with (Z.of_nat 0). rewrite !HD.
  destruct (Dhand i j); [|reflexivity].
  destruct (Dhand 0 j); [|reflexivity].
  destruct (Dhand (2 * n) j); [|reflexivity].
  destruct (Dhand i 0); [|reflexivity].
  destruct (Dhand i (2 * n)); [|reflexivity].
  cbn [sim]. eexists. split; reflexivity.
Qed.

Lemma p2_loop :
  sim eq (fold_option_outcome p2_outer (range_Z 0 (2 * Z.of_nat n)) (true, true, true, true))
         (fold_left (p2_step O n Dhand) (index_pairs n m) (Hand.MinDist.Ok (true, true, true, true))).
Proof.
  unfold index_pairs. rewrite fold_left_flat_map, two_of_nat, range_Z_seq.
  apply (fold_sim eq Z.of_nat).
  - intro r. apply p2_err.
  - intros a a' r <-. rewrite fold_left_map.
    assert (E : p2_outer a (Z.of_nat r) = fold_option_outcome (p2_inner (Z.of_nat r)) (range_Z 0 (2 * Z.of_nat m)) a).
    { destruct a as [[[? ?] ?] ?]. unfold p2_outer. destruct (fold_option_outcome _ _ _) as [[[[[? ?] ?] ?]|?]|]; reflexivity. }
    rewrite E, two_of_nat, range_Z_seq.
    apply (fold_sim eq Z.of_nat (p2_inner (Z.of_nat r)) (fun st k => p2_step O n Dhand st (r, k))).
    + reflexivity.
    + intros a0 a0' k <-. apply p2_inner_step.
    + reflexivity.
  - reflexivity.
Qed.

(* alpha = min(svalues, key=lambda x: x[0])[0]: the key of the first minimal element is the minimum of the keys *)
Lemma alpha_pick (s00 s01 s10 s11 a0 a1 b0 b1 : T) :
  fst (fst (let m_10 := (if ltb O s01 s00 then (s01, a0, b1) else (s00, a0, b0)) in
            let m_11 := (if ltb O s10 (fst (fst m_10)) then (s10, a1, b0) else m_10) in
            let m_12 := (if ltb O s11 (fst (fst m_11)) then (s11, a1, b1) else m_11) in m_12))
  = min2 O (min2 O (min2 O s00 s01) s10) s11.
Proof.
  cbv zeta. unfold min2.
  destruct (ltb O s01 s00); cbn [fst]; destruct (ltb O s10 _); cbn [fst]; destruct (ltb O s11 _); reflexivity.
Qed.

Ltac md_ok := cbn [md_rel]; split; [repeat f_equal; lia | lia].

Theorem minDist_gen : forall fuel (best : option T) (i : Z), (0 <= i)%Z -> forall umin umax vmin vmax,
  md_rel (curvedistance_minDist O (Z.of_nat n + 1) (Z.of_nat m + 1) Sg Dgen fuel (best, i) (umin, umax) (vmin, vmax) (eps_default O))
         (minDist O n m Shand Dhand fuel (best, Z.to_nat i) umin umax vmin vmax).
Proof.
  induction fuel as [|f IH]; intros best i Hi umin umax vmin vmax; [reflexivity|].
  cbn beta iota fix delta [curvedistance_minDist]. rewrite !Z.add_simpl_r.
  cbv zeta. cbn [fst snd].
  pose proof (alpha_pick (Sg umin vmin) (Sg umin vmax) (Sg umax vmin) (Sg umax vmax) umin umax vmin vmax) as HA. cbv zeta in HA. rewrite !HA. clear HA.
  cbn [minDist]. unfold minDist_body. rewrite !HS. cbv beta iota zeta. cbn [fst snd].
  set (alpha := min2 O (min2 O (min2 O (Sg umin vmin) (Sg umin vmax)) (Sg umax vmin)) (Sg umax vmax)).
  set (umid := dvd O (add O umin umax) (ofZ O 2)). set (vmid := dvd O (add O vmin vmax) (ofZ O 2)).
  assert (Hstop : (match best with Some z => neqb O z (ofZ O 0) && ltb O z alpha | None => false end)
                  = truthy O best && match best with Some b => ltb O b alpha | None => false end) by (destruct best; reflexivity).
  rewrite Hstop. clear Hstop.
  destruct (truthy O best && _); [md_ok|].
  destruct (_ || _); [md_ok|].
  (* "Property 1" *)
  match goal with |- context [fold_option_outcome ?F (range_Z 0 (2 * Z.of_nat n)) (true, None, (None, None))] => change F with (p1_outer alpha) end.
  pose proof (p1_loop alpha) as H1. unfold sim in H1.
  destruct (fold_option_outcome (p1_outer alpha) _ _) as [[[[io md] [ix iy]]|e]|]; [| |contradiction].
  2:{ destruct e; try contradiction. rewrite H1. exact eq_refl. }
  destruct H1 as [[[io' md'] ij] [E1 HR]]. rewrite E1. unfold R1 in HR. cbn [fst snd] in HR. destruct HR as (<- & <- & HR).
  destruct io; [md_ok|].
  (* "Property 2" *)
  match goal with |- context [fold_option_outcome ?F (range_Z 0 (2 * Z.of_nat n)) (true, true, true, true)] => change F with p2_outer end.
  pose proof p2_loop as H2. unfold sim in H2.
  destruct (fold_option_outcome p2_outer _ _) as [[[[[f01 f11] f02] f12]|e]|]; [| |contradiction].
  2:{ destruct e; try contradiction. rewrite H2. exact eq_refl. }
  destruct H2 as [a' [E2 <-]]. rewrite E2.
  destruct (f01 && f02); [md_ok|]. destruct (f01 && f12); [md_ok|]. destruct (f11 && f02); [md_ok|]. destruct (f11 && f12); [md_ok|].
  (* the subdivision point: None / int is the TypeError *)
  destruct ij as [[r k]|]; injection HR as -> ->; cbn [fst snd]; [|reflexivity].
  rewrite !two_of_nat. change (lit O 1 1000 0x1.0624dd2f1a9fcp-10%float) with (eps_default O).
  replace (S (Z.to_nat i)) with (Z.to_nat (i + 1)) by lia.
  assert (Hi1 : (0 <= i + 1)%Z) by lia.
  set (newu := add O umin _). set (newv := add O vmin _).
  (* the four recursive calls, the state threaded through them *)
  repeat lazymatch goal with
  | |- md_rel (match curvedistance_minDist _ _ _ _ _ _ (?b, ?j) (?u0, ?u1) (?v0, ?v1) _ with _ => _ end) _ =>
      let C := fresh "C" in
      assert (C := IH b j ltac:(assumption) u0 u1 v0 v1);
      destruct (curvedistance_minDist O (Z.of_nat n + 1) (Z.of_nat m + 1) Sg Dgen f (b, j) (u0, u1) (v0, v1) (eps_default O)) as [[[? [? ?]]|[]]|];
      cbn [md_rel] in C; try contradiction;
      [ destruct C as [C ?]; rewrite C
      | destruct (minDist O n m Shand Dhand f (b, Z.to_nat j) u0 u1 v0 v1) as [? ?]; cbn [fst] in C; subst; reflexivity .. ]
  end.
  cbn [md_rel]. split; [reflexivity|assumption].
Qed.
End MinDistBridge.

(* ---------- curveDistance: the finder of a concrete pair of segments, for the nine pairs of classes ---------- *)
Definition cd_rel {T : Type} (g : option (outcome (T * T * T))) (h : res (T * T * T)) : Prop :=
  match g with
  | None => h = OutOfFuel
  | Some (Raises PyIndexError) => h = IndexErr
  | Some (Raises PyNoneError) => h = NoneErr
  | Some (Raises _) => False
  | Some (Returns v) => h = Hand.MinDist.Ok v
  end.

(* the tabulated D of Gen/MinDist.v fails exactly where the hand model's [Dtab] is undefined *)
Lemma table_get_Dtab {T : Type} (tbl : list (list T)) (r k : nat) :
  table_get tbl (Z.of_nat r) (Z.of_nat k) = match Dtab tbl r k with Some d => Returns d | None => Raises PyIndexError end.
Proof.
  unfold table_get, Dtab.
  assert (E1 : (Z.of_nat r <? 0)%Z = false) by (apply Z.ltb_ge; lia). assert (E2 : (Z.of_nat k <? 0)%Z = false) by (apply Z.ltb_ge; lia).
  rewrite E1, E2. cbn [orb]. rewrite !Nat2Z.id. destruct (nth_error tbl r) as [row|]; [|reflexivity]. destruct (nth_error row k); reflexivity.
Qed.

Section CurveDistanceBridge.
Context {T : Type} (O : Ops T).

Ltac cd_proof gen n m :=
  intros; unfold gen, curveDistance, curveDistance_with, curveDistance_state; cbn [seg_order seg_S seg_Dtable];
  match goal with |- cd_rel (match ?g with _ => _ end) (fst (let '(_, _) := ?h in _)) =>
    let H := fresh "H" in
    assert (H : md_rel g h) by (exact (minDist_gen O n m _ _ _ _ (fun _ _ => eq_refl) (table_get_Dtab _) _ None 0%Z (Z.le_refl 0) _ _ _ _));
    destruct g as [[[[[? ?] ?] [? ?]]|[]]|]; cbn [md_rel] in H; try contradiction;
    [ destruct H as [-> _]; reflexivity | destruct h as [? ?]; cbn [fst] in H; subst; reflexivity .. ]
  end.

Theorem curveDistance_LL_gen (fuel : nat) (a : seg2 T) (b : seg2 T) :
  cd_rel (curvedistance_curveDistance_Line_Line O fuel a b) (curveDistance O fuel (SLine a) (SLine b)).
Proof. cd_proof (@curvedistance_curveDistance_Line_Line) 1%nat 1%nat. Qed.
Theorem curveDistance_LQ_gen (fuel : nat) (a : seg2 T) (b : seg3 T) :
  cd_rel (curvedistance_curveDistance_Line_Quad O fuel a b) (curveDistance O fuel (SLine a) (SQuad b)).
Proof. cd_proof (@curvedistance_curveDistance_Line_Quad) 1%nat 2%nat. Qed.
Theorem curveDistance_LC_gen (fuel : nat) (a : seg2 T) (b : seg4 T) :
  cd_rel (curvedistance_curveDistance_Line_Cubic O fuel a b) (curveDistance O fuel (SLine a) (SCubic b)).
Proof. cd_proof (@curvedistance_curveDistance_Line_Cubic) 1%nat 3%nat. Qed.
Theorem curveDistance_QL_gen (fuel : nat) (a : seg3 T) (b : seg2 T) :
  cd_rel (curvedistance_curveDistance_Quad_Line O fuel a b) (curveDistance O fuel (SQuad a) (SLine b)).
Proof. cd_proof (@curvedistance_curveDistance_Quad_Line) 2%nat 1%nat. Qed.
Theorem curveDistance_QQ_gen (fuel : nat) (a : seg3 T) (b : seg3 T) :
  cd_rel (curvedistance_curveDistance_Quad_Quad O fuel a b) (curveDistance O fuel (SQuad a) (SQuad b)).
Proof. cd_proof (@curvedistance_curveDistance_Quad_Quad) 2%nat 2%nat. Qed.
Theorem curveDistance_QC_gen (fuel : nat) (a : seg3 T) (b : seg4 T) :
  cd_rel (curvedistance_curveDistance_Quad_Cubic O fuel a b) (curveDistance O fuel (SQuad a) (SCubic b)).
Proof. cd_proof (@curvedistance_curveDistance_Quad_Cubic) 2%nat 3%nat. Qed.
Theorem curveDistance_CL_gen (fuel : nat) (a : seg4 T) (b : seg2 T) :
  cd_rel (curvedistance_curveDistance_Cubic_Line O fuel a b) (curveDistance O fuel (SCubic a) (SLine b)).
Proof. cd_proof (@curvedistance_curveDistance_Cubic_Line) 3%nat 1%nat. Qed.
Theorem curveDistance_CQ_gen (fuel : nat) (a : seg4 T) (b : seg3 T) :
  cd_rel (curvedistance_curveDistance_Cubic_Quad O fuel a b) (curveDistance O fuel (SCubic a) (SQuad b)).
Proof. cd_proof (@curvedistance_curveDistance_Cubic_Quad) 3%nat 2%nat. Qed.
Theorem curveDistance_CC_gen (fuel : nat) (a : seg4 T) (b : seg4 T) :
  cd_rel (curvedistance_curveDistance_Cubic_Cubic O fuel a b) (curveDistance O fuel (SCubic a) (SCubic b)).
Proof. cd_proof (@curvedistance_curveDistance_Cubic_Cubic) 3%nat 3%nat. Qed.
End CurveDistanceBridge.

(* ====================================================================================================== *)
(* 3. path/__init__.py: BezierPath.bounds / windingNumberOfPoint / pointIsInside (property C11).

   Hand/Winding.v: the path box from the list of segment boxes ([all_some], [path_bounds]), the two dicts filled by two separate folds
   ([collect]) with values (segment, Intersection), [None] for an empty path (addMargin on unset corners) or a segment without box.
   Gen/Winding.v, REGENERATED: BezierPath.bounds as a [fold_outcome] of BoundingBox.extend over the segments, the two dicts filled
   in ONE pass over the segments (a fold over a pair of association lists, Gen/Split.v's [dict_set] with [point_keyeq]), the
   Intersections carrying their seg1 (the _ixs variants of the intersection kernels), [Raises PyNoneError] where the hand model
   says [None].  For EVERY scalar carrier in which the float -10 is the negation of the float 10 ([Hneg]; both carriers):

       Path_windingNumberOfPoint O segs p = outcome_of_option (windingNumberOfPoint O segs p)       (and pointIsInside alike) *)
From BZ Require Import Gen.Nodelist Gen.Winding Hand.Winding.

Definition outcome_of_option {A : Type} (o : option A) : outcome A :=
  match o with Some a => Returns a | None => Raises PyNoneError end.

Lemma fold_left_append_map {A B : Type} (f : A -> B) (l : list A) (acc : list B) :
  fold_left (fun acc t => acc ++ [f t]) l acc = acc ++ map f l.
Proof. revert acc. induction l as [|a l IH]; intro acc; cbn [fold_left map]; [rewrite app_nil_r; reflexivity|]. rewrite IH, <- app_assoc. reflexivity. Qed.
Lemma filter_map_comm {A B : Type} (f : A -> B) (P : A -> bool) (Q : B -> bool) (l : list A) :
  (forall x, Q (f x) = P x) -> filter Q (map f l) = map f (filter P l).
Proof. intro H. induction l as [|a l IH]; [reflexivity|]. cbn [map filter]. rewrite H, IH. destruct (P a); reflexivity. Qed.
Lemma fold_left_map' {A B C : Type} (g : A -> C -> A) (h : B -> C) (l : list B) (a : A) :
  fold_left g (map h l) a = fold_left (fun a x => g a (h x)) l a.
Proof. revert a. induction l as [|x l IH]; intro a; [reflexivity|]. cbn [map fold_left]. apply IH. Qed.
Lemma fold_left_pair {A B C : Type} (f : A -> C -> A) (g : B -> C -> B) (l : list C) (a : A) (b : B) :
  fold_left (fun '(x, y) c => (f x c, g y c)) l (a, b) = (fold_left f l a, fold_left g l b).
Proof. revert a b. induction l as [|c l IH]; intros a b; [reflexivity|]. cbn [fold_left]. apply IH. Qed.
Lemma fold_left_ext {A B : Type} (f g : A -> B -> A) (l : list B) (a : A) : (forall x y, f x y = g x y) -> fold_left f l a = fold_left g l a.
Proof. intro H. revert a. induction l as [|b l IH]; intro a; [reflexivity|]. cbn [fold_left]. rewrite H. apply IH. Qed.

Section WindingBridge.
Context {T : Type} (O : Ops T).
(* `Point(-size, -size)` with size = 10: the generated text negates the float 10, the hand model converts the int -10; equal for both carriers *)
Hypothesis Hneg : neg O (ofZ O 10) = ofZ O (-10).

(* ---------- BezierPath.bounds ---------- *)
Lemma Path_bounds_fold (segs : list (segment T)) : forall acc,
  fold_outcome (fun (b : option (bbox T)) s =>
      match (match s with SLine s_ => Gen.Line.Line_bounds O s_ | SQuad s_ => Gen.Quad.Quad_bounds O s_ | SCubic s_ => Gen.Cubic.Cubic_bounds O s_ end) with
      | None => Raises PyNoneError
      | Some b2 => Returns (BBox_extend_BBox O b b2)
      end) segs acc
  = match all_some (map (segment_bounds O) segs) with
    | Some boxes => Returns (fold_left (extend_box O) boxes acc)
    | None => Raises PyNoneError
    end.
Proof.
  induction segs as [|s segs IH]; intro acc; [reflexivity|].
  cbn [fold_outcome map all_some]. rewrite <- segment_bounds_gen.
  destruct (segment_bounds O s) as [b|]; [|reflexivity].
  rewrite IH. destruct (all_some _); [|reflexivity]. cbn [fold_left]. rewrite extend_box_gen. reflexivity.
Qed.
Theorem Path_bounds_gen (segs : list (segment T)) :
  Path_bounds O segs = match all_some (map (segment_bounds O) segs) with Some boxes => Returns (path_bounds O boxes) | None => Raises PyNoneError end.
Proof. unfold Path_bounds. cbv zeta. rewrite Path_bounds_fold. destruct (all_some _); reflexivity. Qed.

Lemma addMargin_gen (b : bbox T) : BBox_addMargin O b (ofZ O 10) = addMargin O b 10.
Proof. unfold BBox_addMargin, addMargin. cbv zeta. cbn [bl tr Z.opp]. rewrite Hneg. reflexivity. Qed.

(* ---------- the intersections of a segment with a ray, with seg1: the _ixs definitions pair every Intersection with the segment ---------- *)
Lemma ll_ixs (l r : seg2 T) :
  Line__line_line_intersections_ixs O l r = map (fun i => (SLine l, i)) (Line__line_line_intersections O l r).
Proof.
  unfold Line__line_line_intersections_ixs, Line__line_line_intersections. cbv zeta.
  repeat match goal with |- context [if ?c then _ else _] => destruct c end; reflexivity.
Qed.
Lemma ql_ixs (q : seg3 T) (r : seg2 T) :
  Quad__curve_line_intersections_ixs O q r = map (fun i => (SQuad q, i)) (Quad__curve_line_intersections O q r).
Proof.
  unfold Quad__curve_line_intersections_ixs, Quad__curve_line_intersections. cbv zeta.
  rewrite (fold_left_append_map (fun t => (SQuad q, (t, Quad_pointAtTime O q t, Line_tOfPoint O r (Quad_pointAtTime O q t) true)))).
  rewrite (fold_left_append_map (fun t => (t, Quad_pointAtTime O q t, Line_tOfPoint O r (Quad_pointAtTime O q t) true))).
  cbn [app]. rewrite map_map. reflexivity.
Qed.
Lemma cl_ixs (c : seg4 T) (r : seg2 T) :
  Cubic__curve_line_intersections_ixs O c r = map (fun i => (SCubic c, i)) (Cubic__curve_line_intersections O c r).
Proof.
  unfold Cubic__curve_line_intersections_ixs, Cubic__curve_line_intersections. cbv zeta.
  rewrite (fold_left_append_map (fun t => (SCubic c, (t, Cubic_pointAtTime O c t, Line_tOfPoint O r (Cubic_pointAtTime O c t) true)))).
  rewrite (fold_left_append_map (fun t => (t, Cubic_pointAtTime O c t, Line_tOfPoint O r (Cubic_pointAtTime O c t) true))).
  cbn [app]. rewrite map_map. reflexivity.
Qed.

(* s.intersections(ray) of the generated dispatch, with seg1 *)
Definition gen_hits (s : segment T) (ray : seg2 T) : list (segment T * (T * pt T * T)) :=
  match s with
  | SLine s_ => Line_intersections_Line_ixs O s_ ray true
  | SQuad s_ => Quad_intersections_Line_ixs O s_ ray true
  | SCubic s_ => Cubic_intersections_Line_ixs O s_ ray true
  end.
Lemma gen_hits_spec (s : segment T) (ray : seg2 T) : gen_hits s ray = map (fun i => (s, i)) (seg_ray_intersections O s ray).
Proof.
  unfold seg_ray_intersections, seg_ray_raw.
  destruct s as [l|q|c]; cbn [gen_hits]; unfold Line_intersections_Line_ixs, Quad_intersections_Line_ixs, Cubic_intersections_Line_ixs; cbv zeta;
    rewrite ?ll_ixs, ?ql_ixs, ?cl_ixs; apply filter_map_comm; intro i; reflexivity.
Qed.

(* the dict keyed by Point values *)
Lemma dict_set_gen (d : list (pt T * hit)) (k : pt T) (v : hit) :
  Gen.Split.dict_set (point_keyeq O) d k v = Hand.Winding.dict_set O d k v.
Proof.
  induction d as [|[k' v'] d IH]; [reflexivity|]. cbn [Gen.Split.dict_set Hand.Winding.dict_set].
  change (point_keyeq O k' k) with (key_eq O k' k). destruct (key_eq O k' k); [reflexivity|]. rewrite IH. reflexivity.
Qed.
Lemma collect_seg_gen (ray : seg2 T) (d : list (pt T * hit)) (s : segment T) :
  fold_left (fun d0 (i : segment T * (T * pt T * T)) => Gen.Split.dict_set (point_keyeq O) d0 (snd (fst (snd i))) i) (gen_hits s ray) d = collect_seg O ray d s.
Proof.
  rewrite gen_hits_spec, fold_left_map'. unfold collect_seg. apply fold_left_ext. intros d0 i. cbn [fst snd]. apply dict_set_gen.
Qed.

(* the signed count *)
Lemma winding_sum_gen (d : list (pt T * hit)) :
  fold_left (fun (w : Z) (i : segment T * (T * pt T * T)) =>
     (w + (if ltb O (copysign_ O (ofZ O 1) (py (match fst i with
                                                 | SLine s_ => Line_tangentAtTime O s_ (fst (fst (snd i)))
                                                 | SQuad s_ => Quad_tangentAtTime O s_ (fst (fst (snd i)))
                                                 | SCubic s_ => Cubic_tangentAtTime O s_ (fst (fst (snd i)))
                                                 end))) (ofZ O 0) then (-1) else 1))%Z) (map snd d) 0%Z
  = winding_sum O d.
Proof. rewrite fold_left_map'. unfold winding_sum. apply fold_left_ext. intros w [k [s i]]. destruct s; reflexivity. Qed.

(* ---------- windingNumberOfPoint / pointIsInside ---------- *)
Theorem windingNumberOfPoint_gen (segs : list (segment T)) (p : pt T) :
  Path_windingNumberOfPoint O segs p = outcome_of_option (windingNumberOfPoint O segs p).
Proof.
  unfold Path_windingNumberOfPoint, windingNumberOfPoint, rays, path_box. rewrite Path_bounds_gen.
  destruct (all_some (map (segment_bounds O) segs)) as [boxes|]; [|reflexivity].
  destruct (path_bounds O boxes) as [b0|]; [|reflexivity].
  cbv zeta. rewrite addMargin_gen. cbn [outcome_of_option].
  set (ray1 := L2 (P (BBox_left O (addMargin O b0 10)) (py p)) p). set (ray2 := L2 (P (BBox_right O (addMargin O b0 10)) (py p)) p).
  pose (stepD := fun (d0 : list (pt T * hit)) (i : segment T * (T * pt T * T)) => Gen.Split.dict_set (point_keyeq O) d0 (snd (fst (snd i))) i).
  match goal with |- context [fold_left ?F segs ([], [])] =>
    change F with (fun '(x, y) (s : segment T) => (fold_left stepD (gen_hits s ray1) x, fold_left stepD (gen_hits s ray2) y)) end.
  rewrite (fold_left_pair (fun x s => fold_left stepD (gen_hits s ray1) x) (fun y s => fold_left stepD (gen_hits s ray2) y)).
  rewrite (fold_left_ext (fun x s => fold_left stepD (gen_hits s ray1) x) (collect_seg O ray1)) by (intros; apply collect_seg_gen).
  rewrite (fold_left_ext (fun y s => fold_left stepD (gen_hits s ray2) y) (collect_seg O ray2)) by (intros; apply collect_seg_gen).
  rewrite !winding_sum_gen. reflexivity.
Qed.

Theorem pointIsInside_gen (segs : list (segment T)) (p : pt T) :
  Path_pointIsInside O segs p = outcome_of_option (pointIsInside O segs p).
Proof.
  unfold Path_pointIsInside, pointIsInside. rewrite windingNumberOfPoint_gen.
  destruct (windingNumberOfPoint O segs p); reflexivity.
Qed.
End WindingBridge.

(* the hypothesis holds for both carriers in use *)
From Coq Require Import Reals.
Lemma Hneg_R : Base.Ops.neg ROps (ofZ ROps 10) = ofZ ROps (-10).
Proof. cbn. rewrite <- opp_IZR. reflexivity. Qed.
Lemma Hneg_F : Base.Ops.neg FOps (ofZ FOps 10) = ofZ FOps (-10).
Proof. reflexivity. Qed.
