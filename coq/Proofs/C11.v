(* C11: point containment follows the even-odd rule.
   Part A: generic facts about the model (any carrier): unfolding, parity of a sum of signs, the dict.
   Part B: one straight edge against a horizontal ray over the reals (uses the C05 line-line theorems).
   Part C: closed polygons: the counts, the signed balance, even-odd, outside the bounding box.
   Part D: concrete instances and refutations (D11 and the merged self-intersection crossing). *)
From Coq Require Import PrimFloat.
From Coq Require Import ZArith List Bool Reals Lra Lia Psatz.
From BZ Require Import Base.Ops Proofs.Tactics Gen.Point Gen.Utils Gen.Affine Gen.BBox Gen.Line Gen.Quad Gen.Cubic.
From BZ Require Import Hand.Bounds Hand.Shoelace Hand.Winding Proofs.C02 Proofs.C05 Proofs.C18.
Import ListNotations.
Open Scope R_scope.

(* ================================================================================================ *)
(** * A. Generic facts (any carrier)                                                                 *)
(* ================================================================================================ *)

(** A1. The absolute value of a sum of n terms, each +1 or -1, has the parity of n. *)
Definition is_sign (s : Z) : Prop := s = 1%Z \/ s = (-1)%Z.

Lemma sum_signs_parity_acc (l : list Z) : Forall is_sign l ->
  forall acc : Z, Z.odd (fold_left Z.add l acc) = xorb (Z.odd acc) (Nat.odd (length l)).
Proof.
  induction 1 as [|s l Hs _ IH]; intros acc.
  - cbn. rewrite xorb_false_r. reflexivity.
  - cbn [fold_left length]. rewrite IH. rewrite Nat.odd_succ, <- Nat.negb_odd.
    rewrite Z.odd_add. destruct Hs as [-> | ->]; cbn; destruct (Z.odd acc), (Nat.odd (length l)); reflexivity.
Qed.

Lemma Zodd_abs (x : Z) : Z.odd (Z.abs x) = Z.odd x.
Proof. destruct (Z.abs_eq_or_opp x) as [-> | ->]; [reflexivity | apply Z.odd_opp]. Qed.

Theorem abs_sum_signs_parity (l : list Z) :
  Forall is_sign l -> Z.odd (Z.abs (fold_left Z.add l 0%Z)) = Nat.odd (length l).
Proof.
  intros H. rewrite Zodd_abs, (sum_signs_parity_acc l H). cbn. destruct (Nat.odd (length l)); reflexivity.
Qed.

Section Generic.
Context {T : Type} (O : Ops T).

Lemma sign_of_is_sign (y : T) : is_sign (sign_of O y).
Proof. unfold sign_of, is_sign. destruct (ltb O _ _); auto. Qed.

Lemma winding_sum_as_signs (d : list (pt T * hit)) :
  winding_sum O d = fold_left Z.add (map (fun kv => hit_sign O (snd kv)) d) 0%Z.
Proof.
  unfold winding_sum. generalize 0%Z. induction d as [|kv d IH]; intros acc; [reflexivity|].
  cbn [fold_left map]. apply IH.
Qed.

(** A2. Whatever the tangents are, the absolute winding sum of a dict has the parity of its number of entries. *)
Theorem winding_sum_parity (d : list (pt T * hit)) :
  Z.odd (Z.abs (winding_sum O d)) = Nat.odd (length d).
Proof.
  rewrite winding_sum_as_signs, abs_sum_signs_parity; [rewrite map_length; reflexivity|].
  apply Forall_forall. intros s Hs. apply in_map_iff in Hs. destruct Hs as [kv [<- _]]. apply sign_of_is_sign.
Qed.

(** A3. The result, unfolded. *)
Lemma windingNumber_unfold segs p w :
  windingNumberOfPoint O segs p = Some w <->
  exists ray1 ray2, rays O segs p = Some (ray1, ray2) /\
    w = Z.max (Z.abs (winding_sum O (collect O segs ray1))) (Z.abs (winding_sum O (collect O segs ray2))).
Proof.
  unfold windingNumberOfPoint. destruct (rays O segs p) as [[r1 r2]|].
  - split.
    + intros E. injection E as <-. exists r1, r2. split; reflexivity.
    + intros (r1' & r2' & E & ->). injection E as <- <-. reflexivity.
  - split; [discriminate | intros (? & ? & E & _); discriminate].
Qed.

(** A4. Parity of the result: it is the parity of the number of DISTINCT intersection points on the side that
    attains the maximum; in particular, when the two counts have equal parity the result has that parity. *)
Theorem windingNumber_parity segs p w ray1 ray2 :
  rays O segs p = Some (ray1, ray2) ->
  windingNumberOfPoint O segs p = Some w ->
  let nL := length (collect O segs ray1) in
  let nR := length (collect O segs ray2) in
  (Z.odd w = Nat.odd nL \/ Z.odd w = Nat.odd nR) /\
  (Nat.odd nL = Nat.odd nR -> Z.odd w = Nat.odd nL) /\
  (0 <= w)%Z.
Proof.
  intros Hr Hw nL nR. apply windingNumber_unfold in Hw. destruct Hw as (r1 & r2 & E & ->).
  rewrite Hr in E. injection E as <- <-.
  pose proof (winding_sum_parity (collect O segs ray1)) as PL.
  pose proof (winding_sum_parity (collect O segs ray2)) as PR.
  fold nL in PL. fold nR in PR.
  set (a := Z.abs (winding_sum O (collect O segs ray1))) in *.
  set (b := Z.abs (winding_sum O (collect O segs ray2))) in *.
  assert (Ha : (0 <= a)%Z) by apply Z.abs_nonneg.
  split; [|split].
  - destruct (Z.max_spec a b) as [[_ ->]|[_ ->]]; [right | left]; assumption.
  - intros Eq. destruct (Z.max_spec a b) as [[_ ->]|[_ ->]]; congruence.
  - lia.
Qed.

Corollary pointIsInside_parity segs p w :
  windingNumberOfPoint O segs p = Some w -> pointIsInside O segs p = Some (Z.odd w).
Proof.
  intros E. unfold pointIsInside. rewrite E. f_equal.
  rewrite Zmod_odd. destruct (Z.odd w); reflexivity.
Qed.

(** A5. The dict: inserting a key that collides with no stored key appends. *)
Lemma dict_set_fresh (d : list (pt T * hit)) k v :
  (forall kv, In kv d -> key_eq O (fst kv) k = false) -> dict_set O d k v = d ++ [(k, v)].
Proof.
  induction d as [|[k' v'] d IH]; intros H; [reflexivity|].
  cbn [dict_set]. pose proof (H (k', v') (or_introl eq_refl)) as Hk. cbn [fst] in Hk. rewrite Hk. cbn [app]. f_equal.
  apply IH. intros kv Hkv. apply H. right. exact Hkv.
Qed.

Lemma dict_set_keys (d : list (pt T * hit)) k v :
  map fst (dict_set O d k v) = map fst d \/ map fst (dict_set O d k v) = map fst d ++ [k].
Proof.
  induction d as [|[k' v'] d IH]; [right; reflexivity|].
  cbn [dict_set]. destruct (key_eq O k' k); [left; reflexivity|].
  cbn [map fst]. destruct IH as [-> | ->]; [left | right]; reflexivity.
Qed.

End Generic.

(* the generic theorems, restated with all their binders *)
Theorem winding_sum_parity_any (T : Type) (O : Ops T) (d : list (pt T * hit)) :
  Z.odd (Z.abs (winding_sum O d)) = Nat.odd (length d).
Proof. exact (winding_sum_parity O d). Qed.

Theorem windingNumber_parity_any (T : Type) (O : Ops T) (segs : list (segment T)) (p : pt T) (w : Z) (ray1 ray2 : seg2 T) :
  rays O segs p = Some (ray1, ray2) ->
  windingNumberOfPoint O segs p = Some w ->
  let nL := length (collect O segs ray1) in
  let nR := length (collect O segs ray2) in
  (Z.odd w = Nat.odd nL \/ Z.odd w = Nat.odd nR) /\
  (Nat.odd nL = Nat.odd nR -> Z.odd w = Nat.odd nL) /\
  (0 <= w)%Z.
Proof. exact (windingNumber_parity O segs p w ray1 ray2). Qed.

Theorem pointIsInside_parity_any (T : Type) (O : Ops T) (segs : list (segment T)) (p : pt T) (w : Z) :
  windingNumberOfPoint O segs p = Some w -> pointIsInside O segs p = Some (Z.odd w).
Proof. exact (pointIsInside_parity O segs p w). Qed.

(* ================================================================================================ *)
(** * B. One straight edge against a horizontal ray (real carrier)                                    *)
(* ================================================================================================ *)

Lemma my_epsilon_R : my_epsilon ROps = my_eps.
Proof. unfold my_epsilon. apply my_eps_lit. Qed.

Lemma withinRange_R t : Winding.withinRange ROps t = true <-> my_eps <= t <= 1 + my_eps.
Proof.
  unfold Winding.withinRange. rewrite my_epsilon_R.
  change (lit ROps 1 1 0x1p+0%float) with (1 / 1). change (add ROps (1 / 1) my_eps) with (1 / 1 + my_eps).
  destruct (ltb ROps t my_eps) eqn:E1.
  - apply Rltb_true in E1. split; [discriminate | lra].
  - apply Rltb_false in E1. destruct (ltb ROps (1 / 1 + my_eps) t) eqn:E2.
    + apply Rltb_true in E2. split; [discriminate | lra].
    + apply Rltb_false in E2. split; [lra | reflexivity].
Qed.
Lemma withinRange_same t : Winding.withinRange ROps t = C05.withinRange t.
Proof.
  pose proof (withinRange_R t) as H1. pose proof (withinRange_true t) as H2.
  destruct (Winding.withinRange ROps t), (C05.withinRange t); try reflexivity.
  - symmetry. apply H2, H1. reflexivity.
  - apply H1, H2. reflexivity.
Qed.

(* for a Line segment of the path the model is C05's [limited] filter of the generated line-line routine *)
Lemma seg_ray_line (e r : seg2 R) :
  seg_ray_intersections ROps (SLine e) r = limited (Line__line_line_intersections ROps e r).
Proof.
  unfold seg_ray_intersections, limited, seg_ray_raw. apply filter_ext. intros i.
  unfold ix_t1, ix_t2. rewrite !withinRange_same. reflexivity.
Qed.

(* the horizontal ray from (x0, y) to the query point (x, y) *)
Definition hray (x0 x y : R) : seg2 R := L2 (P x0 y) (P x y).

(* vocabulary for an edge e = (a, b) and a level y *)
Definition straddles (e : seg2 R) (y : R) : Prop :=
  (py (l0 e) < y < py (l1 e)) \/ (py (l1 e) < y < py (l0 e)).
Definition et (e : seg2 R) (y : R) : R := (y - py (l0 e)) / (py (l1 e) - py (l0 e)).
Definition cross_x (e : seg2 R) (y : R) : R := px (l0 e) + et e y * (px (l1 e) - px (l0 e)).
Definition rt (x0 x xc : R) : R := (xc - x0) / (x - x0).

Definition straddlesb (e : seg2 R) (y : R) : bool :=
  (ltb ROps (py (l0 e)) y && ltb ROps y (py (l1 e))) || (ltb ROps (py (l1 e)) y && ltb ROps y (py (l0 e))).
Lemma straddlesb_true e y : straddlesb e y = true <-> straddles e y.
Proof. unfold straddlesb, straddles. rewrite orb_true_iff, !andb_true_iff, !Rltb_true. tauto. Qed.
Lemma straddlesb_false e y : straddlesb e y = false <-> ~ straddles e y.
Proof.
  rewrite <- straddlesb_true. destruct (straddlesb e y); split; intros H; try reflexivity; try discriminate.
  exfalso. apply H. reflexivity.
Qed.

(* the crossing lies on the ray, the query point excluded *)
Definition on_rayb (x0 x xc : R) : bool := leb ROps 0 (rt x0 x xc) && ltb ROps (rt x0 x xc) 1.
Definition hitb (x0 x y : R) (e : seg2 R) : bool := straddlesb e y && on_rayb x0 x (cross_x e y).

(** General position of an edge with respect to the level y -- exactly what the code's tolerances require:
    the level keeps clear of both end ordinates by more than 2e-7 of the edge's height (parameter window
    [2e-7, 1+2e-7]); an edge the code treats as horizontal (isclose ordinates) is not crossed; a crossed edge
    the code treats as vertical (isclose abscissae) is exactly vertical; a crossed edge has slope at least 2e-7
    in absolute value (otherwise the code calls it parallel to the ray). *)
Record edge_gp (e : seg2 R) (y : R) : Prop := mk_edge_gp {
  gp_clear0 : my_eps * Rabs (py (l1 e) - py (l0 e)) < Rabs (y - py (l0 e));
  gp_clear1 : my_eps * Rabs (py (l1 e) - py (l0 e)) < Rabs (y - py (l1 e));
  gp_flat : isclose ROps (py (l0 e)) (py (l1 e)) = true -> ~ straddles e y;
  gp_vert : straddles e y -> isclose ROps (px (l1 e)) (px (l0 e)) = true -> px (l0 e) = px (l1 e);
  gp_slope : straddles e y -> isclose ROps (px (l1 e)) (px (l0 e)) = false -> my_eps <= Rabs (slope e) }.

(** The crossing abscissa keeps clear of the two ends of the ray by the code's 2e-7 parameter window. *)
Definition window_clear (x0 x y : R) (e : seg2 R) : Prop :=
  straddles e y ->
  (rt x0 x (cross_x e y) < 0 \/ my_eps <= rt x0 x (cross_x e y)) /\
  (rt x0 x (cross_x e y) < 1 \/ 1 + my_eps < rt x0 x (cross_x e y)).

Lemma my_eps_pos : 0 < my_eps < 1.
Proof. rewrite my_eps_val. lra. Qed.

Lemma gp_neq e y : edge_gp e y -> y <> py (l0 e) /\ y <> py (l1 e).
Proof.
  intros [C0 C1 _ _ _]. pose proof my_eps_pos as He.
  pose proof (Rabs_pos (py (l1 e) - py (l0 e))) as Hd.
  split; intros E.
  - rewrite E in C0. replace (py (l0 e) - py (l0 e)) with 0 in C0 by ring. rewrite Rabs_R0 in C0. nra.
  - rewrite E in C1. replace (py (l1 e) - py (l1 e)) with 0 in C1 by ring. rewrite Rabs_R0 in C1. nra.
Qed.

(* the edge parameter of the level: strictly inside (2e-7, 1) when the edge is crossed, outside [2e-7, 1+2e-7]
   otherwise *)
Lemma et_straddles e y : edge_gp e y -> straddles e y -> my_eps < et e y < 1.
Proof.
  intros [C0 _ _ _ _] S. unfold et. pose proof my_eps_pos as He.
  destruct S as [[H1 H2]|[H1 H2]].
  - rewrite !Rabs_pos_eq in C0 by lra.
    split; [apply Rmult_lt_reg_r with (py (l1 e) - py (l0 e)) | apply Rmult_lt_reg_r with (py (l1 e) - py (l0 e))];
      try lra; unfold Rdiv; rewrite Rmult_assoc, Rinv_l by lra; lra.
  - rewrite (Rabs_left (py (l1 e) - py (l0 e))), (Rabs_left (y - py (l0 e))) in C0 by lra.
    replace ((y - py (l0 e)) / (py (l1 e) - py (l0 e))) with ((py (l0 e) - y) / (py (l0 e) - py (l1 e))) by (field; lra).
    split; [apply Rmult_lt_reg_r with (py (l0 e) - py (l1 e)) | apply Rmult_lt_reg_r with (py (l0 e) - py (l1 e))];
      try lra; unfold Rdiv; rewrite Rmult_assoc, Rinv_l by lra; lra.
Qed.

Lemma et_not_straddles e y : edge_gp e y -> ~ straddles e y -> py (l1 e) <> py (l0 e) ->
  et e y < 0 \/ 1 + my_eps < et e y.
Proof.
  intros G NS Nd. destruct (gp_neq e y G) as [N0 N1]. destruct G as [_ C1 _ _ _]. unfold et, straddles in *.
  pose proof my_eps_pos as He.
  destruct (Rlt_dec (py (l0 e)) (py (l1 e))) as [Hd|Hd].
  - rewrite (Rabs_pos_eq (py (l1 e) - py (l0 e))) in C1 by lra.
    destruct (Rlt_dec y (py (l0 e))) as [Hy|Hy].
    + left. apply Rmult_lt_reg_r with (py (l1 e) - py (l0 e)); [lra|].
      unfold Rdiv; rewrite Rmult_assoc, Rinv_l by lra; lra.
    + right. assert (Hy1 : py (l1 e) < y) by (destruct (Rlt_dec y (py (l1 e))); [exfalso; apply NS; left; lra | lra]).
      rewrite Rabs_pos_eq in C1 by lra.
      apply Rmult_lt_reg_r with (py (l1 e) - py (l0 e)); [lra|].
      unfold Rdiv; rewrite Rmult_assoc, Rinv_l by lra; lra.
  - assert (Hd' : py (l1 e) < py (l0 e)) by lra.
    rewrite (Rabs_left (py (l1 e) - py (l0 e))) in C1 by lra.
    replace ((y - py (l0 e)) / (py (l1 e) - py (l0 e))) with ((py (l0 e) - y) / (py (l0 e) - py (l1 e))) by (field; lra).
    destruct (Rlt_dec (py (l0 e)) y) as [Hy|Hy].
    + left. apply Rmult_lt_reg_r with (py (l0 e) - py (l1 e)); [lra|].
      unfold Rdiv; rewrite Rmult_assoc, Rinv_l by lra; lra.
    + right. assert (Hy1 : y < py (l1 e)) by (destruct (Rlt_dec (py (l1 e)) y); [exfalso; apply NS; right; lra | lra]).
      rewrite Rabs_left in C1 by lra.
      apply Rmult_lt_reg_r with (py (l0 e) - py (l1 e)); [lra|].
      unfold Rdiv; rewrite Rmult_assoc, Rinv_l by lra; lra.
Qed.

Lemma slope_hray x0 x y : slope (hray x0 x y) = 0.
Proof. unfold slope, hray. cbn [l0 l1 px py]. unfold Rdiv. rewrite Rminus_diag_eq by reflexivity. ring. Qed.

Lemma nil_of_no_member {A} (l : list A) : (forall i, ~ In i l) -> l = [].
Proof. destruct l as [|a l]; [reflexivity|]. intros H. exfalso. apply (H a). left. reflexivity. Qed.

Lemma limited_single_keep i :
  my_eps <= fst (fst i) <= 1 + my_eps -> my_eps <= snd i <= 1 + my_eps -> limited [i] = [i].
Proof.
  intros H1 H2. unfold limited. cbn [filter].
  rewrite (proj2 (withinRange_true _) H1), (proj2 (withinRange_true _) H2). reflexivity.
Qed.
Lemma limited_single_drop i :
  ~ (my_eps <= fst (fst i) <= 1 + my_eps /\ my_eps <= snd i <= 1 + my_eps) -> limited [i] = [].
Proof.
  intros H. unfold limited. cbn [filter].
  destruct (C05.withinRange (fst (fst i))) eqn:E1; [|reflexivity].
  destruct (C05.withinRange (snd i)) eqn:E2; [|reflexivity].
  exfalso. apply H. split; apply withinRange_true; assumption.
Qed.

Section EdgeRay.
Variables (e : seg2 R) (x0 x y : R).
Hypothesis G : edge_gp e y.
Hypothesis Hray : isclose ROps x0 x = false.
Hypothesis W : window_clear x0 x y e.

Let the_hit : R * pt R * R := (et e y, P (cross_x e y) y, rt x0 x (cross_x e y)).

Lemma hray_x_neq : x - x0 <> 0.
Proof. apply isclose_false_neq in Hray. lra. Qed.

(* an edge the code regards as horizontal is skipped *)
Lemma edge_flat_none :
  isclose ROps (py (l0 e)) (py (l1 e)) = true ->
  Line__line_line_intersections ROps e (hray x0 x y) = [].
Proof.
  intros H. unfold Line__line_line_intersections, hray. cbv zeta. cbn [l0 l1 px py].
  rewrite Hray, isclose_refl, H. reflexivity.
Qed.

Lemma edge_not_degenerate :
  isclose ROps (py (l0 e)) (py (l1 e)) = false ->
  Point___eq__ ROps (l0 (hray x0 x y)) (l1 (hray x0 x y)) || Point___eq__ ROps (l0 e) (l1 e) = false.
Proof.
  intros H. rewrite !Point_eq_iff_isclose. unfold hray. cbn [l0 l1 px py]. rewrite Hray, H, andb_false_r. reflexivity.
Qed.

(* general branch *)
Lemma edge_general_branch :
  isclose ROps (py (l0 e)) (py (l1 e)) = false -> isclose ROps (px (l1 e)) (px (l0 e)) = false ->
  my_eps <= Rabs (slope e) -> general_branch e (hray x0 x y).
Proof.
  intros Hy Hx Hs. constructor.
  - unfold hray. cbn [l0 l1 px py]. rewrite Hray. reflexivity.
  - unfold hray. cbn [l0 l1 px py]. rewrite Hy, andb_false_r. reflexivity.
  - apply edge_not_degenerate. exact Hy.
  - exact Hx.
  - unfold hray. cbn [l0 l1 px py]. exact Hray.
  - rewrite slope_hray, Rminus_0_r. exact Hs.
Qed.

Lemma edge_general_point :
  isclose ROps (py (l0 e)) (py (l1 e)) = false -> isclose ROps (px (l1 e)) (px (l0 e)) = false ->
  my_eps <= Rabs (slope e) ->
  ll_point e (hray x0 x y) = P (cross_x e y) y /\
  param_x e (P (cross_x e y) y) = et e y /\
  param_x (hray x0 x y) (P (cross_x e y) y) = rt x0 x (cross_x e y).
Proof.
  intros Hy Hx Hs. pose proof (edge_general_branch Hy Hx Hs) as GB.
  pose proof (isclose_false_neq _ _ Hy) as Ny. pose proof (isclose_false_neq _ _ Hx) as Nx.
  split; [|split].
  - symmetry. apply ll_point_unique; [exact GB | |].
    + unfold on_carrier, cross_x, et. cbn [px py]. field. lra.
    + unfold on_carrier, hray. cbn [l0 l1 px py]. ring.
  - unfold param_x, cross_x, et. cbn [px py]. field. split; lra.
  - unfold param_x, rt, hray. cbn [l0 l1 px py]. reflexivity.
Qed.

Lemma edge_general_hit :
  isclose ROps (px (l1 e)) (px (l0 e)) = false -> straddles e y ->
  0 <= rt x0 x (cross_x e y) < 1 ->
  limited (Line__line_line_intersections ROps e (hray x0 x y)) = [the_hit].
Proof.
  intros Hx S R2.
  assert (Hy : isclose ROps (py (l0 e)) (py (l1 e)) = false).
  { destruct (isclose ROps (py (l0 e)) (py (l1 e))) eqn:E; [|reflexivity]. exfalso. exact (gp_flat e y G E S). }
  pose proof (gp_slope e y G S Hx) as Hs.
  pose proof (edge_general_branch Hy Hx Hs) as GB.
  destruct (edge_general_point Hy Hx Hs) as (Ep & E1 & E2).
  pose proof (et_straddles e y G S) as T1. destruct (W S) as [W1 _].
  pose proof my_eps_pos as He.
  pose proof (line_line_general_limited_complete e (hray x0 x y) GB) as C. cbv zeta in C.
  rewrite Ep, E1, E2 in C. apply C; lra.
Qed.

Lemma edge_general_miss :
  isclose ROps (py (l0 e)) (py (l1 e)) = false -> isclose ROps (px (l1 e)) (px (l0 e)) = false ->
  ~ (straddles e y /\ 0 <= rt x0 x (cross_x e y) < 1) ->
  limited (Line__line_line_intersections ROps e (hray x0 x y)) = [].
Proof.
  intros Hy Hx NH. pose proof my_eps_pos as He.
  pose proof (isclose_false_neq _ _ Hy) as Ny.
  destruct (Rle_dec my_eps (Rabs (slope e))) as [Hs|Hs].
  - pose proof (edge_general_branch Hy Hx Hs) as GB.
    destruct (edge_general_point Hy Hx Hs) as (Ep & E1 & E2).
    apply nil_of_no_member. intros i Hi.
    destruct (line_line_general_limited_sound e (hray x0 x y) i GB Hi) as (_ & I1 & I2).
    rewrite Ep, E1 in I1. rewrite Ep, E2 in I2.
    apply NH. split; [|lra].
    destruct (straddlesb e y) eqn:Sb; [apply straddlesb_true; exact Sb|].
    apply straddlesb_false in Sb. destruct (et_not_straddles e y G Sb) as [H|H]; [lra | lra | lra].
  - (* |slope| < 2e-7: the code calls the edge parallel to the ray *)
    unfold Line__line_line_intersections, hray. cbv zeta. cbn [l0 l1 px py].
    rewrite Hray, Hx, (isclose_sym (py (l0 e)) (py (l1 e))) , andb_false_l.
    rewrite isclose_refl, (isclose_sym (py (l1 e)) (py (l0 e))), Hy. cbn [andb].
    pose proof (edge_not_degenerate Hy) as ND. unfold hray in ND. cbn [l0 l1] in ND. rewrite ND.
    match goal with |- context[if ltb ROps ?a ?b then _ else _] => destruct (ltb ROps a b) eqn:L end; [reflexivity|].
    exfalso. apply Hs. apply Rltb_false in L.
    change (lit ROps 1 5000000 0x1.ad7f29abcaf48p-23%float) with (1 / 5000000) in L. rewrite my_eps_val.
    pose proof (slope_hray x0 x y) as S0. unfold slope, hray in S0. cbn [l0 l1 px py] in S0.
    change (sub ROps (dvd ROps (sub ROps (py (l1 e)) (py (l0 e))) (sub ROps (px (l1 e)) (px (l0 e))))
                     (dvd ROps (sub ROps y y) (sub ROps x x0))) with (slope e - (y - y) / (x - x0)) in L.
    rewrite S0, Rminus_0_r in L. exact L.
Qed.

(* exactly vertical crossed edge: the vertical branch reports the point (a.x, y) unconditionally, the filter decides *)
Lemma edge_vertical_straddles :
  isclose ROps (px (l1 e)) (px (l0 e)) = true -> straddles e y ->
  limited (Line__line_line_intersections ROps e (hray x0 x y)) =
  if on_rayb x0 x (cross_x e y) then [the_hit] else [].
Proof.
  intros Hx S. pose proof my_eps_pos as He. pose proof hray_x_neq as Nx.
  pose proof (gp_vert e y G S Hx) as V.
  assert (Hy : isclose ROps (py (l0 e)) (py (l1 e)) = false).
  { destruct (isclose ROps (py (l0 e)) (py (l1 e))) eqn:E; [|reflexivity]. exfalso. exact (gp_flat e y G E S). }
  pose proof (isclose_false_neq _ _ Hy) as Ny.
  destruct (line_line_vertical_exact e (hray x0 x y) V) as (EQ & _).
  { unfold hray. cbn [l0 l1 px py]. exact Hray. }
  { apply edge_not_degenerate. exact Hy. }
  rewrite EQ. rewrite slope_hray.
  assert (Ecx : cross_x e y = px (l0 e)). { unfold cross_x. rewrite <- V. ring. }
  assert (Ep : P (px (l0 e)) (0 * (px (l0 e) - px (l0 (hray x0 x y))) + py (l0 (hray x0 x y))) = P (cross_x e y) y).
  { rewrite Ecx. unfold hray. cbn [l0 l1 px py]. apply pt_eq; ring. }
  rewrite Ep.
  assert (E1 : param_y e (P (cross_x e y) y) = et e y) by reflexivity.
  assert (E2 : param_x (hray x0 x y) (P (cross_x e y) y) = rt x0 x (cross_x e y)) by reflexivity.
  rewrite E1, E2. fold the_hit.
  pose proof (et_straddles e y G S) as T1. destruct (W S) as [W1 W2].
  unfold on_rayb. destruct (leb ROps 0 (rt x0 x (cross_x e y))) eqn:L1; cbn [andb].
  - apply Rleb_true in L1. destruct (ltb ROps (rt x0 x (cross_x e y)) 1) eqn:L2.
    + apply Rltb_true in L2. apply limited_single_keep; unfold the_hit; cbn [fst snd]; lra.
    + apply Rltb_false in L2. apply limited_single_drop. unfold the_hit; cbn [fst snd]. lra.
  - apply Rleb_false in L1. apply limited_single_drop. unfold the_hit; cbn [fst snd]. lra.
Qed.

(* an edge the code regards as vertical that is NOT crossed: whatever parameter tOfPoint returns (the level's
   parameter, or -1 when its 2e-7 re-check fails) is outside the window *)
Lemma edge_vertical_not_straddles :
  isclose ROps (py (l0 e)) (py (l1 e)) = false -> isclose ROps (px (l1 e)) (px (l0 e)) = true -> ~ straddles e y ->
  limited (Line__line_line_intersections ROps e (hray x0 x y)) = [].
Proof.
  intros Hy Hx NS. pose proof my_eps_pos as He. pose proof hray_x_neq as Nx.
  pose proof (isclose_false_neq _ _ Hy) as Ny.
  unfold Line__line_line_intersections, hray. cbv zeta. cbn [l0 l1 px py].
  rewrite Hray, andb_false_l, isclose_refl, Hy. cbn [andb].
  pose proof (edge_not_degenerate Hy) as ND. unfold hray in ND. cbn [l0 l1] in ND. rewrite ND, Hx.
  apply limited_single_drop. cbn [fst snd]. intros [I1 _].
  revert I1. unfold Line_tOfPoint. cbv zeta. cbn [l0 l1 px py]. rewrite Hx. cbn [negb andb].
  rewrite (isclose_sym (py (l1 e)) (py (l0 e))), Hy. cbn [negb orb].
  assert (Ey : add ROps (mul ROps (dvd ROps (sub ROps y y) (sub ROps x x0)) (sub ROps (px (l0 e)) x0)) y = y).
  { cbn. unfold Rdiv. rewrite Rminus_diag_eq by reflexivity. ring. }
  rewrite Ey.
  change (dvd ROps (sub ROps y (py (l0 e))) (sub ROps (py (l1 e)) (py (l0 e)))) with (et e y).
  destruct (et_not_straddles e y G NS) as [H|H]; [lra | |];
    match goal with |- context[if ?c then _ else _] => destruct c end; cbn; lra.
Qed.

(** B1. The per-edge theorem: in general position the edge contributes exactly one intersection -- its crossing
    with the level, with the exact parameters -- iff the level separates its end points and the crossing lies on
    the ray (the query point excluded); otherwise it contributes none. *)
Theorem edge_ray_crossing_sec :
  seg_ray_intersections ROps (SLine e) (hray x0 x y) = if hitb x0 x y e then [the_hit] else [].
Proof.
  rewrite seg_ray_line. unfold hitb.
  destruct (isclose ROps (py (l0 e)) (py (l1 e))) eqn:Hy.
  - rewrite (edge_flat_none Hy). pose proof (gp_flat e y G Hy) as NS. apply straddlesb_false in NS.
    rewrite NS. reflexivity.
  - destruct (isclose ROps (px (l1 e)) (px (l0 e))) eqn:Hx.
    + destruct (straddlesb e y) eqn:Sb.
      * apply straddlesb_true in Sb. rewrite (edge_vertical_straddles Hx Sb). reflexivity.
      * apply straddlesb_false in Sb. rewrite (edge_vertical_not_straddles Hy Hx Sb). reflexivity.
    + destruct (straddlesb e y) eqn:Sb; cbn [andb].
      * apply straddlesb_true in Sb. unfold on_rayb.
        destruct (leb ROps 0 (rt x0 x (cross_x e y))) eqn:L1; cbn [andb];
          [destruct (ltb ROps (rt x0 x (cross_x e y)) 1) eqn:L2|].
        -- apply Rleb_true in L1. apply Rltb_true in L2. apply (edge_general_hit Hx Sb). lra.
        -- apply Rltb_false in L2. apply (edge_general_miss Hy Hx). intros [_ H]. lra.
        -- apply Rleb_false in L1. apply (edge_general_miss Hy Hx). intros [_ H]. lra.
      * apply straddlesb_false in Sb. apply (edge_general_miss Hy Hx). intros [H _]. exact (Sb H).
Qed.

End EdgeRay.

Theorem edge_ray_crossing (e : seg2 R) (x0 x y : R) :
  edge_gp e y -> isclose ROps x0 x = false -> window_clear x0 x y e ->
  seg_ray_intersections ROps (SLine e) (hray x0 x y) =
  if hitb x0 x y e then [(et e y, P (cross_x e y) y, rt x0 x (cross_x e y))] else [].
Proof. exact (edge_ray_crossing_sec e x0 x y). Qed.

(* ================================================================================================ *)
(** * C. Closed polygons                                                                             *)
(* ================================================================================================ *)

Lemma key_eq_R_neq (k' k : pt R) : k' <> k -> key_eq ROps k' k = false.
Proof.
  intros N. unfold key_eq. destruct k' as [a b], k as [c d]. cbn [px py].
  destruct (eqb ROps a c) eqn:E1; [|reflexivity]. destruct (eqb ROps b d) eqn:E2; [|reflexivity].
  apply Reqb_true in E1. apply Reqb_true in E2. subst. contradiction N. reflexivity.
Qed.

(* direction of an edge: the sign int(copysign(1, tangent.y)) the code attaches to a crossing of it *)
Definition dir (e : seg2 R) : Z := if ltb ROps (py (l1 e)) (py (l0 e)) then (-1)%Z else 1%Z.

Lemma hit_sign_line (e : seg2 R) (i : ixn) :
  py (l1 e) <> py (l0 e) -> hit_sign ROps (SLine e, i) = dir e.
Proof.
  intros N. unfold hit_sign. cbn [fst snd seg_tangentAtTime].
  assert (H : (px (l1 e) - px (l0 e)) * (px (l1 e) - px (l0 e)) + (py (l1 e) - py (l0 e)) * (py (l1 e) - py (l0 e)) <> 0).
  { assert (0 < (py (l1 e) - py (l0 e)) * (py (l1 e) - py (l0 e))) by (apply sq_pos; lra).
    pose proof (sq_nonneg (px (l1 e) - px (l0 e))). lra. }
  rewrite (line_tangent_is_unit_chord e (ix_t1 i) H). cbn [py].
  set (dx := px (l1 e) - px (l0 e)) in *. set (dy := py (l1 e) - py (l0 e)) in *.
  assert (Hm : 0 < sqrt (dx * dx + dy * dy)).
  { apply sqrt_lt_R0. pose proof (sq_nonneg dx). assert (0 < dy * dy) by (apply sq_pos; unfold dy; lra). lra. }
  unfold sign_of, dir. cbn [copysign_ ROps ofZ ltb].
  assert (Hinv : 0 < / sqrt (dx * dx + dy * dy)) by (apply Rinv_0_lt_compat; exact Hm).
  rewrite Rabs_R1.
  destruct (Rle_dec 0 (dy / sqrt (dx * dx + dy * dy))) as [L|L].
  - assert (0 <= dy). { unfold Rdiv in L. nra. }
    repeat match goal with |- context[Rlt_dec ?a ?b] => destruct (Rlt_dec a b) end;
      try reflexivity; unfold dy in *; lra.
  - assert (dy < 0). { unfold Rdiv in L. apply Rnot_le_lt in L. nra. }
    repeat match goal with |- context[Rlt_dec ?a ?b] => destruct (Rlt_dec a b) end;
      try reflexivity; unfold dy in *; lra.
Qed.

Section Ray.
(* one horizontal ray towards the query point (x, y), against a list of edges all in general position *)
Variables (x0 x y : R).
Hypothesis Hray : isclose ROps x0 x = false.

Definition the_hit_of (e : seg2 R) : ixn := (et e y, P (cross_x e y) y, rt x0 x (cross_x e y)).
Definition entry_of (e : seg2 R) : pt R * hit := (P (cross_x e y) y, (SLine e, the_hit_of e)).
Definition entries (l : list (seg2 R)) : list (pt R * hit) := map entry_of (filter (hitb x0 x y) l).

Definition edges_ok (l : list (seg2 R)) : Prop :=
  forall e, In e l -> edge_gp e y /\ window_clear x0 x y e.

Lemma collect_seg_line d e : edge_gp e y -> window_clear x0 x y e ->
  collect_seg ROps (hray x0 x y) d (SLine e) =
  if hitb x0 x y e then dict_set ROps d (P (cross_x e y) y) (SLine e, the_hit_of e) else d.
Proof.
  intros G W. unfold collect_seg. rewrite (edge_ray_crossing_sec e x0 x y G Hray W).
  destruct (hitb x0 x y e); reflexivity.
Qed.

(** C1. When no two crossing points coincide the dict is just the list of crossings, in path order. *)
Lemma collect_entries (l : list (seg2 R)) : edges_ok l ->
  forall d, NoDup (map fst d ++ map fst (entries l)) ->
  fold_left (collect_seg ROps (hray x0 x y)) (map SLine l) d = d ++ entries l.
Proof.
  induction l as [|e l IH]; intros OK d ND.
  - cbn. rewrite app_nil_r. reflexivity.
  - cbn [map fold_left]. destruct (OK e (or_introl eq_refl)) as [G W].
    rewrite (collect_seg_line d e G W).
    assert (OK' : edges_ok l) by (intros e' He'; apply OK; right; exact He').
    unfold entries in *. cbn [filter] in *. destruct (hitb x0 x y e) eqn:H.
    + cbn [map] in *. rewrite dict_set_fresh.
      * rewrite IH; [rewrite <- app_assoc; reflexivity | exact OK' |].
        rewrite map_app. cbn [map fst]. rewrite <- app_assoc. exact ND.
      * intros kv Hkv. apply key_eq_R_neq. intros E.
        apply NoDup_remove_2 in ND. apply ND. apply in_or_app. left.
        unfold entry_of at 1. cbn [fst]. rewrite <- E. apply in_map. exact Hkv.
    + apply IH; assumption.
Qed.

Lemma collect_polygon (l : list (seg2 R)) : edges_ok l ->
  NoDup (map (fun e => cross_x e y) (filter (hitb x0 x y) l)) ->
  collect ROps (map SLine l) (hray x0 x y) = entries l.
Proof.
  intros OK ND. unfold collect. rewrite (collect_entries l OK []); [reflexivity|].
  cbn [map app]. unfold entries. rewrite map_map.
  assert (Inj : forall l', NoDup (map (fun e => cross_x e y) l') -> NoDup (map (fun e => fst (entry_of e)) l')).
  { induction l' as [|a l' IH']; intros H; [constructor|]. cbn [map] in *. inversion H as [|? ? Hn Hd]; subst.
    constructor; [|apply IH'; exact Hd]. intros Hin. apply Hn. apply in_map_iff in Hin. destruct Hin as [b [Hb Ib]].
    apply in_map_iff. exists b. split; [|exact Ib]. unfold entry_of in Hb. cbn [fst] in Hb. injection Hb as Hb. exact Hb. }
  apply Inj. exact ND.
Qed.

(** C2. ... and its winding sum is the sum of the directions of the crossed edges. *)
Definition sum_dir (l : list (seg2 R)) : Z := fold_left Z.add (map dir l) 0%Z.

Lemma winding_sum_entries (l : list (seg2 R)) : edges_ok l ->
  winding_sum ROps (entries l) = sum_dir (filter (hitb x0 x y) l).
Proof.
  intros OK. rewrite winding_sum_as_signs. unfold sum_dir, entries. rewrite map_map. f_equal.
  apply map_ext_in. intros e He. apply filter_In in He. destruct He as [He Hh].
  unfold entry_of. cbn [snd]. apply hit_sign_line.
  unfold hitb in Hh. apply andb_true_iff in Hh. destruct Hh as [S _]. apply straddlesb_true in S.
  destruct S; lra.
Qed.

End Ray.

(* ---- sums ---- *)
Fixpoint zsum (l : list Z) : Z := match l with [] => 0%Z | z :: r => (z + zsum r)%Z end.
Lemma fold_left_add_zsum (l : list Z) : forall a, fold_left Z.add l a = (a + zsum l)%Z.
Proof. induction l as [|z l IH]; intros a; cbn [fold_left zsum]; [lia | rewrite IH; lia]. Qed.
Lemma sum_dir_zsum l : sum_dir l = zsum (map dir l).
Proof. unfold sum_dir. rewrite fold_left_add_zsum. lia. Qed.
Lemma zsum_filter (f : seg2 R -> bool) l :
  zsum (map dir (filter f l)) = zsum (map (fun e => if f e then dir e else 0%Z) l).
Proof. induction l as [|e l IH]; [reflexivity|]. cbn [filter map]. destruct (f e); cbn [map zsum]; rewrite IH; reflexivity. Qed.

(** C3. The signed balance of a closed polygon: up-crossings and down-crossings of a level that passes through no
    vertex cancel (the contribution of an edge is half the change of side of its end points; it telescopes). *)
Definition side (y : R) (v : pt R) : Z := if ltb ROps y (py v) then 1%Z else (-1)%Z.
Definition contrib (y : R) (e : seg2 R) : Z := if straddlesb e y then dir e else 0%Z.

Lemma contrib_side y e : y <> py (l0 e) -> y <> py (l1 e) ->
  (2 * contrib y e = side y (l1 e) - side y (l0 e))%Z.
Proof.
  intros N0 N1. unfold contrib, straddlesb, dir, side. cbn [ltb ROps].
  repeat match goal with |- context[Rlt_dec ?a ?b] => destruct (Rlt_dec a b) end; cbn; try reflexivity; exfalso; lra.
Qed.

Lemma chain_balance y : forall l p q, chain_from p l q ->
  (forall e, In e l -> y <> py (l0 e) /\ y <> py (l1 e)) ->
  (2 * zsum (map (contrib y) l) = side y q - side y p)%Z.
Proof.
  induction l as [|e l IH]; intros p q C N.
  - cbn in C. subst. cbn. lia.
  - cbn [chain_from] in C. destruct C as [E C]. cbn [map zsum].
    destruct (N e (or_introl eq_refl)) as [N0 N1].
    pose proof (contrib_side y e N0 N1) as H.
    specialize (IH (l1 e) q C (fun e' He' => N e' (or_intror He'))).
    rewrite <- E. lia.
Qed.

Theorem closed_polygon_balance y l : closed_chain l ->
  (forall e, In e l -> y <> py (l0 e) /\ y <> py (l1 e)) ->
  zsum (map (contrib y) l) = 0%Z.
Proof.
  intros C N. destruct l as [|e l]; [reflexivity|].
  cbn [closed_chain] in C. cbn [map zsum].
  destruct (N e (or_introl eq_refl)) as [N0 N1]. pose proof (contrib_side y e N0 N1) as H.
  pose proof (chain_balance y l (l1 e) (l0 e) C (fun e' He' => N e' (or_intror He'))) as H2. lia.
Qed.

(* ---- which ray sees a crossing ---- *)
Lemma div_cmp n d : 0 < d -> forall c,
  (c <= n / d <-> c * d <= n) /\ (n / d < c <-> n < c * d) /\ (c < n / d <-> c * d < n).
Proof.
  intros Hd c. assert (E : n = n / d * d) by (field; lra). set (q := n / d) in *. clearbody q. subst n.
  repeat split; intros H; nra.
Qed.

Lemma on_rayb_left x0 x xc : x0 < xc -> x0 <> x -> on_rayb x0 x xc = ltb ROps xc x.
Proof.
  intros H N. unfold on_rayb, rt. destruct (Rlt_dec x0 x) as [L|L].
  - destruct (div_cmp (xc - x0) (x - x0) ltac:(lra) 0) as (A & _ & _).
    destruct (div_cmp (xc - x0) (x - x0) ltac:(lra) 1) as (_ & B & _).
    destruct (leb ROps 0 ((xc - x0) / (x - x0))) eqn:E1; cbn [andb].
    + destruct (ltb ROps ((xc - x0) / (x - x0)) 1) eqn:E2; destruct (ltb ROps xc x) eqn:E3; try reflexivity; exfalso.
      * apply Rltb_true in E2. apply Rltb_false in E3. apply B in E2. lra.
      * apply Rltb_false in E2. apply Rltb_true in E3. assert (xc - x0 < 1 * (x - x0)) by lra. apply B in H0. lra.
    + exfalso. apply Rleb_false in E1. assert (0 * (x - x0) <= xc - x0) by lra. apply A in H0. lra.
  - assert (Lx : x < x0) by lra.
    replace ((xc - x0) / (x - x0)) with (- ((xc - x0) / (x0 - x))) by (field; lra).
    destruct (div_cmp (xc - x0) (x0 - x) ltac:(lra) 0) as (_ & _ & C).
    assert (0 < (xc - x0) / (x0 - x)) by (apply C; lra).
    destruct (leb ROps 0 (- ((xc - x0) / (x0 - x)))) eqn:E1; cbn [andb].
    + apply Rleb_true in E1. lra.
    + symmetry. apply Rltb_false. lra.
Qed.

Lemma on_rayb_right x0 x xc : xc < x0 -> x0 <> x -> on_rayb x0 x xc = ltb ROps x xc.
Proof.
  intros H N. unfold on_rayb, rt. destruct (Rlt_dec x x0) as [L|L].
  - replace ((xc - x0) / (x - x0)) with ((x0 - xc) / (x0 - x)) by (field; lra).
    destruct (div_cmp (x0 - xc) (x0 - x) ltac:(lra) 0) as (A & _ & _).
    destruct (div_cmp (x0 - xc) (x0 - x) ltac:(lra) 1) as (_ & B & _).
    destruct (leb ROps 0 ((x0 - xc) / (x0 - x))) eqn:E1; cbn [andb].
    + destruct (ltb ROps ((x0 - xc) / (x0 - x)) 1) eqn:E2; destruct (ltb ROps x xc) eqn:E3; try reflexivity; exfalso.
      * apply Rltb_true in E2. apply Rltb_false in E3. apply B in E2. lra.
      * apply Rltb_false in E2. apply Rltb_true in E3. assert (x0 - xc < 1 * (x0 - x)) by lra. apply B in H0. lra.
    + exfalso. apply Rleb_false in E1. assert (0 * (x0 - x) <= x0 - xc) by lra. apply A in H0. lra.
  - assert (Lx : x0 < x) by lra.
    replace ((xc - x0) / (x - x0)) with (- ((x0 - xc) / (x - x0))) by (field; lra).
    destruct (div_cmp (x0 - xc) (x - x0) ltac:(lra) 0) as (_ & _ & C).
    assert (0 < (x0 - xc) / (x - x0)) by (apply C; lra).
    destruct (leb ROps 0 (- ((x0 - xc) / (x - x0)))) eqn:E1; cbn [andb].
    + apply Rleb_true in E1. lra.
    + symmetry. apply Rltb_false. lra.
Qed.

(* ---- the rays of the model for a polygon ---- *)
Lemma line_ends (e : seg2 R) : Line_pointAtTime ROps e 0 = l0 e /\ Line_pointAtTime ROps e 1 = l1 e.
Proof. destruct e as [[a1 a2] [b1 b2]]. split; rcbv; apply pt_eq; ring. Qed.

Lemma line_box_ends (e : seg2 R) b : Line_bounds ROps e = Some b -> in_box b (l0 e) /\ in_box b (l1 e).
Proof.
  intros E. destruct (line_ends e) as [E0 E1].
  split; apply in_box_includes; [rewrite <- E0 | rewrite <- E1]; apply (line_bounds_enclose e b E); lra.
Qed.

Lemma polygon_boxes (l : list (seg2 R)) :
  exists bs, all_some (map (segment_bounds ROps) (map SLine l)) = Some bs /\
             Forall2 (fun e b => Line_bounds ROps e = Some b /\ wf_box b) l bs.
Proof.
  induction l as [|e l [bs [E F]]].
  - exists []. split; [reflexivity | constructor].
  - destruct (line_bounds_some e) as [b [Eb Wb]]. exists (b :: bs). split.
    + cbn [map all_some segment_bounds]. rewrite Eb. cbn [map] in E. rewrite E. reflexivity.
    + constructor; [split; assumption | exact F].
Qed.

Lemma polygon_box (l : list (seg2 R)) : l <> [] ->
  exists b0, path_box ROps (map SLine l) = Some b0 /\
             forall e, In e l -> in_box b0 (l0 e) /\ in_box b0 (l1 e).
Proof.
  intros Hne. destruct (polygon_boxes l) as [bs [E F]].
  assert (Hbs : bs <> []). { destruct F; [contradiction Hne; reflexivity | discriminate]. }
  destruct (path_bounds_some bs Hbs) as [b0 Eb0]. exists b0. split.
  - unfold path_box. rewrite E. exact Eb0.
  - assert (Hwf : forall b, In b bs -> wf_box b).
    { clear - F. induction F as [|e b l bs [_ W] _ IH]; intros b' Hb'; [destruct Hb'|].
      destruct Hb' as [<-|H]; auto. }
    destruct (path_bounds_is_join bs b0 Eb0 Hwf) as [Hc _].
    intros e He.
    assert (Hb : exists b, In b bs /\ Line_bounds ROps e = Some b).
    { clear - F He. induction F as [|e' b l bs [Eb _] _ IH]; [destruct He|].
      destruct He as [<-|He]; [exists b; split; [left; reflexivity | exact Eb]|].
      destruct (IH He) as [b' [I' E']]. exists b'. split; [right; exact I' | exact E']. }
    destruct Hb as [b [Ib Eb]]. destruct (line_box_ends e b Eb) as [[X0 Y0] [X1 Y1]].
    destruct (Hc b Ib) as (C1 & C2 & C3 & C4). unfold in_box. lra.
Qed.

Lemma rays_polygon (l : list (seg2 R)) b0 x y : path_box ROps (map SLine l) = Some b0 ->
  rays ROps (map SLine l) (P x y) = Some (hray (px (bl b0) - 10) x y, hray (px (tr b0) + 10) x y).
Proof.
  intros E. unfold rays. rewrite E. unfold hray, addMargin, BBox_left, BBox_right, Point___add__. cbn [bl tr px py].
  assert (E1 : add ROps (px (bl b0)) (ofZ ROps (- (10))) = px (bl b0) - 10) by (cbn; lra).
  assert (E2 : add ROps (px (tr b0)) (ofZ ROps 10) = px (tr b0) + 10) by (cbn; lra).
  rewrite E1, E2. reflexivity.
Qed.

(* a crossing of a crossed edge lies between the abscissae of its end points *)
Lemma cross_x_between e y lo hi : edge_gp e y -> straddles e y ->
  lo <= px (l0 e) <= hi -> lo <= px (l1 e) <= hi -> lo <= cross_x e y <= hi.
Proof.
  intros G S H0 H1. pose proof (et_straddles e y G S) as T. pose proof my_eps_pos as He.
  unfold cross_x. set (t := et e y) in *. clearbody t. split; nra.
Qed.

Lemma NoDup_map_filter_sub {A B} (f : A -> B) (p q : A -> bool) (l : list A) :
  (forall a, q a = true -> p a = true) -> NoDup (map f (filter p l)) -> NoDup (map f (filter q l)).
Proof.
  intros Hqp. induction l as [|a l IH]; intros H; [constructor|].
  cbn [filter] in *. destruct (q a) eqn:Q.
  - rewrite (Hqp a Q) in H. cbn [map] in *. inversion H as [|? ? Hn Hd]; subst. constructor; [|apply IH; exact Hd].
    intros Hin. apply Hn. apply in_map_iff in Hin. destruct Hin as [b [Eb Ib]]. apply in_map_iff. exists b. split; [exact Eb|].
    apply filter_In in Ib. apply filter_In. destruct Ib as [I1 I2]. split; [exact I1 | apply Hqp; exact I2].
  - destruct (p a); [cbn [map] in H; inversion H; subst; apply IH; assumption | apply IH; exact H].
Qed.

Lemma path_box_nonempty {T} (O : Ops T) (segs : list (segment T)) b : path_box O segs = Some b -> segs <> [].
Proof. intros E ->. discriminate. Qed.

Section Polygon.
Variables (ls : list (seg2 R)) (x y : R) (b0 : bbox R).
Let xL := px (bl b0) - 10.
Let xR := px (tr b0) + 10.
(* the longer of the two rays *)
Let reach := Rmax (Rabs (x - xL)) (Rabs (xR - x)).

(* the path: a closed chain of lines whose bounding box is b0 *)
Hypothesis Hbox : path_box ROps (map SLine ls) = Some b0.
Hypothesis Hclosed : closed_chain ls.
(* general position of the level y with respect to every edge (Part B) *)
Hypothesis Hgp : forall e, In e ls -> edge_gp e y.
(* the rays are not degenerate for the code (isclose start and end abscissae) *)
Hypothesis HrayL : isclose ROps xL x = false.
Hypothesis HrayR : isclose ROps xR x = false.
(* size: the 2e-7 parameter window at the start of a ray is shorter than the 10-unit margin *)
Hypothesis Hsize : my_eps * reach <= 10.
(* the query point is not on the path, nor within 2e-7 ray lengths of a crossing along its level *)
Hypothesis Hoff : forall e, In e ls -> straddles e y -> my_eps * reach < Rabs (cross_x e y - x).
(* no two crossing points of the level coincide (the dicts are keyed by the crossing point) *)
Hypothesis Hdistinct : NoDup (map (fun e => cross_x e y) (filter (fun e => straddlesb e y) ls)).

Definition left_of (x y : R) (e : seg2 R) : bool := straddlesb e y && ltb ROps (cross_x e y) x.
Definition right_of (x y : R) (e : seg2 R) : bool := straddlesb e y && ltb ROps x (cross_x e y).

Lemma poly_in : forall e, In e ls -> in_box b0 (l0 e) /\ in_box b0 (l1 e).
Proof.
  assert (Hne : ls <> []). { intros ->. discriminate Hbox. }
  destruct (polygon_box ls Hne) as [b' [E H]]. rewrite Hbox in E. injection E as <-. exact H.
Qed.

Lemma poly_cross_in e : In e ls -> straddles e y -> xL + 10 <= cross_x e y <= xR - 10.
Proof.
  intros He S. destruct (poly_in e He) as [[X0 _] [X1 _]]. unfold xL, xR.
  pose proof (cross_x_between e y (px (bl b0)) (px (tr b0)) (Hgp e He) S X0 X1). lra.
Qed.

Lemma reach_bounds : 0 <= reach /\ Rabs (x - xL) <= reach /\ Rabs (xR - x) <= reach.
Proof.
  unfold reach. pose proof (Rabs_pos (x - xL)). pose proof (Rmax_l (Rabs (x - xL)) (Rabs (xR - x))).
  pose proof (Rmax_r (Rabs (x - xL)) (Rabs (xR - x))). lra.
Qed.

Lemma poly_window_L e : In e ls -> window_clear xL x y e.
Proof.
  intros He S. destruct (poly_cross_in e He S) as [C1 C2]. pose proof (Hoff e He S) as Off.
  destruct reach_bounds as (R0 & R1 & R2). pose proof my_eps_pos as Hm.
  pose proof (isclose_false_neq _ _ HrayL) as N. unfold rt.
  destruct (Rlt_dec xL x) as [L|L].
  - rewrite Rabs_pos_eq in R1 by lra.
    destruct (div_cmp (cross_x e y - xL) (x - xL) ltac:(lra) my_eps) as (A & _ & _).
    destruct (div_cmp (cross_x e y - xL) (x - xL) ltac:(lra) 1) as (_ & B & _).
    destruct (div_cmp (cross_x e y - xL) (x - xL) ltac:(lra) (1 + my_eps)) as (_ & _ & C).
    split; [right; apply A; nra|].
    destruct (Rlt_dec (cross_x e y) x) as [Lx|Lx]; [left; apply B; lra|].
    right. apply C. rewrite Rabs_pos_eq in Off by lra. nra.
  - assert (Lx : x < xL) by lra.
    replace ((cross_x e y - xL) / (x - xL)) with (- ((cross_x e y - xL) / (xL - x))) by (field; lra).
    destruct (div_cmp (cross_x e y - xL) (xL - x) ltac:(lra) 0) as (_ & _ & C).
    assert (0 < (cross_x e y - xL) / (xL - x)) by (apply C; lra).
    split; left; lra.
Qed.

Lemma poly_window_R e : In e ls -> window_clear xR x y e.
Proof.
  intros He S. destruct (poly_cross_in e He S) as [C1 C2]. pose proof (Hoff e He S) as Off.
  destruct reach_bounds as (R0 & R1 & R2). pose proof my_eps_pos as Hm.
  pose proof (isclose_false_neq _ _ HrayR) as N. unfold rt.
  destruct (Rlt_dec x xR) as [L|L].
  - rewrite Rabs_pos_eq in R2 by lra.
    replace ((cross_x e y - xR) / (x - xR)) with ((xR - cross_x e y) / (xR - x)) by (field; lra).
    destruct (div_cmp (xR - cross_x e y) (xR - x) ltac:(lra) my_eps) as (A & _ & _).
    destruct (div_cmp (xR - cross_x e y) (xR - x) ltac:(lra) 1) as (_ & B & _).
    destruct (div_cmp (xR - cross_x e y) (xR - x) ltac:(lra) (1 + my_eps)) as (_ & _ & C).
    split; [right; apply A; nra|].
    destruct (Rlt_dec x (cross_x e y)) as [Lx|Lx]; [left; apply B; lra|].
    right. apply C. rewrite Rabs_left1 in Off by lra. nra.
  - assert (Lx : xR < x) by lra.
    replace ((cross_x e y - xR) / (x - xR)) with (- ((xR - cross_x e y) / (x - xR))) by (field; lra).
    destruct (div_cmp (xR - cross_x e y) (x - xR) ltac:(lra) 0) as (_ & _ & C).
    assert (0 < (xR - cross_x e y) / (x - xR)) by (apply C; lra).
    split; left; lra.
Qed.

Lemma poly_ok_L : edges_ok xL x y ls.
Proof. intros e He. split; [apply Hgp | apply poly_window_L]; exact He. Qed.
Lemma poly_ok_R : edges_ok xR x y ls.
Proof. intros e He. split; [apply Hgp | apply poly_window_R]; exact He. Qed.

Lemma poly_hitb_L e : In e ls -> hitb xL x y e = left_of x y e.
Proof.
  intros He. unfold hitb, left_of. destruct (straddlesb e y) eqn:S; [|reflexivity]. cbn [andb].
  apply straddlesb_true in S. destruct (poly_cross_in e He S) as [C1 C2].
  apply on_rayb_left; [lra | exact (isclose_false_neq _ _ HrayL)].
Qed.
Lemma poly_hitb_R e : In e ls -> hitb xR x y e = right_of x y e.
Proof.
  intros He. unfold hitb, right_of. destruct (straddlesb e y) eqn:S; [|reflexivity]. cbn [andb].
  apply straddlesb_true in S. destruct (poly_cross_in e He S) as [C1 C2].
  apply on_rayb_right; [lra | exact (isclose_false_neq _ _ HrayR)].
Qed.

Lemma poly_collect_L : collect ROps (map SLine ls) (hray xL x y) = entries xL x y ls.
Proof.
  apply (collect_polygon xL x y HrayL ls poly_ok_L).
  apply (NoDup_map_filter_sub _ (fun e => straddlesb e y)); [|exact Hdistinct].
  intros e H. unfold hitb in H. apply andb_true_iff in H. tauto.
Qed.
Lemma poly_collect_R : collect ROps (map SLine ls) (hray xR x y) = entries xR x y ls.
Proof.
  apply (collect_polygon xR x y HrayR ls poly_ok_R).
  apply (NoDup_map_filter_sub _ (fun e => straddlesb e y)); [|exact Hdistinct].
  intros e H. unfold hitb in H. apply andb_true_iff in H. tauto.
Qed.

(* the two signed crossing sums *)
Definition leftSum : Z := zsum (map dir (filter (left_of x y) ls)).
Definition rightSum : Z := zsum (map dir (filter (right_of x y) ls)).

Lemma poly_sum_L : winding_sum ROps (collect ROps (map SLine ls) (hray xL x y)) = leftSum.
Proof.
  rewrite poly_collect_L, (winding_sum_entries xL x y ls poly_ok_L), sum_dir_zsum. unfold leftSum.
  rewrite (filter_ext_in _ _ ls poly_hitb_L). reflexivity.
Qed.
Lemma poly_sum_R : winding_sum ROps (collect ROps (map SLine ls) (hray xR x y)) = rightSum.
Proof.
  rewrite poly_collect_R, (winding_sum_entries xR x y ls poly_ok_R), sum_dir_zsum. unfold rightSum.
  rewrite (filter_ext_in _ _ ls poly_hitb_R). reflexivity.
Qed.

Lemma poly_count_L : length (collect ROps (map SLine ls) (hray xL x y)) = length (filter (left_of x y) ls).
Proof.
  rewrite poly_collect_L. unfold entries. rewrite map_length, (filter_ext_in _ _ ls poly_hitb_L). reflexivity.
Qed.
Lemma poly_count_R : length (collect ROps (map SLine ls) (hray xR x y)) = length (filter (right_of x y) ls).
Proof.
  rewrite poly_collect_R. unfold entries. rewrite map_length, (filter_ext_in _ _ ls poly_hitb_R). reflexivity.
Qed.

(** C4. Every crossing of the level is seen by exactly one of the two rays, so the two sums cancel. *)
Lemma poly_balance : (leftSum + rightSum = 0)%Z.
Proof.
  unfold leftSum, rightSum. rewrite !zsum_filter.
  assert (N : forall e, In e ls -> y <> py (l0 e) /\ y <> py (l1 e)) by (intros e He; apply gp_neq, Hgp, He).
  assert (Hoff' : forall e, In e ls -> straddles e y -> cross_x e y <> x).
  { intros e He S E. pose proof (Hoff e He S) as Off. destruct reach_bounds as (R0 & _). pose proof my_eps_pos.
    rewrite E, Rminus_diag_eq, Rabs_R0 in Off by reflexivity. nra. }
  transitivity (zsum (map (contrib y) ls)); [|exact (closed_polygon_balance y ls Hclosed N)].
  clear - Hoff'. induction ls as [|e l IH]; [reflexivity|].
  cbn [map zsum]. cbv beta.
  assert (E : ((if left_of x y e then dir e else 0) + (if right_of x y e then dir e else 0) = contrib y e)%Z).
  { unfold left_of, right_of, contrib. destruct (straddlesb e y) eqn:S; [|reflexivity]. cbn [andb].
    apply straddlesb_true in S. pose proof (Hoff' e (or_introl eq_refl) S) as Nx.
    cbn [ltb ROps]. destruct (Rlt_dec (cross_x e y) x), (Rlt_dec x (cross_x e y)); try lia; exfalso; lra. }
  specialize (IH (fun e' He' => Hoff' e' (or_intror He'))). lia.
Qed.

(** C5. The winding number of a closed polygon: the absolute value of the signed number of edges crossed by the
    leftward ray (equivalently by the rightward ray). *)
Theorem polygon_winding_number_sec :
  windingNumberOfPoint ROps (map SLine ls) (P x y) = Some (Z.abs leftSum) /\
  Z.abs leftSum = Z.abs rightSum.
Proof.
  pose proof poly_balance as B.
  assert (E : Z.abs leftSum = Z.abs rightSum) by lia. split; [|exact E].
  unfold windingNumberOfPoint. rewrite (rays_polygon ls b0 x y Hbox). fold xL xR.
  rewrite poly_sum_L, poly_sum_R, <- E, Z.max_id. reflexivity.
Qed.

(** C6. Even-odd: the inside test is the parity of the number of edges crossed by the leftward ray, and the two
    rays agree on that parity. *)
Theorem polygon_even_odd_sec :
  pointIsInside ROps (map SLine ls) (P x y) = Some (Nat.odd (length (filter (left_of x y) ls))) /\
  Nat.odd (length (filter (left_of x y) ls)) = Nat.odd (length (filter (right_of x y) ls)).
Proof.
  destruct polygon_winding_number_sec as [W E].
  pose proof (winding_sum_parity ROps (collect ROps (map SLine ls) (hray xL x y))) as PL.
  pose proof (winding_sum_parity ROps (collect ROps (map SLine ls) (hray xR x y))) as PR.
  rewrite poly_sum_L, poly_count_L in PL. rewrite poly_sum_R, poly_count_R in PR.
  split.
  - rewrite (pointIsInside_parity ROps _ _ _ W). f_equal. exact PL.
  - rewrite <- PL, <- PR, E. reflexivity.
Qed.

(** C7. A point outside the (unpadded) bounding box has winding number 0. *)
Theorem bbox_outside_zero_sec :
  BBox_includes ROps b0 (P x y) = false ->
  windingNumberOfPoint ROps (map SLine ls) (P x y) = Some 0%Z.
Proof.
  intros Out. destruct polygon_winding_number_sec as [W E]. rewrite W. f_equal.
  assert (Hin : ~ in_box b0 (P x y)).
  { intros H. apply in_box_includes in H. rewrite H in Out. discriminate. }
  unfold in_box in Hin. cbn [px py] in Hin.
  (* either no edge is crossed on the left, or none on the right *)
  assert (Hempty : filter (left_of x y) ls = [] \/ filter (right_of x y) ls = []).
  { destruct (Rlt_dec x (px (bl b0))) as [X1|X1].
    - left. apply nil_of_no_member. intros e He. apply filter_In in He. destruct He as [He H].
      unfold left_of in H. apply andb_true_iff in H. destruct H as [S H]. apply straddlesb_true in S. apply Rltb_true in H.
      destruct (poly_cross_in e He S). unfold xL in *. lra.
    - destruct (Rlt_dec (px (tr b0)) x) as [X2|X2].
      + right. apply nil_of_no_member. intros e He. apply filter_In in He. destruct He as [He H].
        unfold right_of in H. apply andb_true_iff in H. destruct H as [S H]. apply straddlesb_true in S. apply Rltb_true in H.
        destruct (poly_cross_in e He S). unfold xR in *. lra.
      + left. apply nil_of_no_member. intros e He. apply filter_In in He. destruct He as [He H].
        unfold left_of in H. apply andb_true_iff in H. destruct H as [S _]. apply straddlesb_true in S.
        destruct (poly_in e He) as [[_ Y0] [_ Y1]]. apply Hin. split; [lra|]. destruct S; lra. }
  destruct Hempty as [H|H].
  - unfold leftSum. rewrite H. reflexivity.
  - rewrite E. unfold rightSum. rewrite H. reflexivity.
Qed.

End Polygon.

(* ---- the three theorems with their hypotheses bundled ---- *)

(* the longer of the two rays: from 10 units left / right of the box to the query abscissa *)
Definition ray_reach (b0 : bbox R) (x : R) : R :=
  Rmax (Rabs (x - (px (bl b0) - 10))) (Rabs (px (tr b0) + 10 - x)).

(** Everything the polygon theorems assume about a path [ls] (its edges, in order), its bounding box [b0] and a
    query point (x, y). *)
Record polygon_query (ls : list (seg2 R)) (b0 : bbox R) (x y : R) : Prop := mk_polygon_query {
  (* the path is a closed chain of lines and b0 is what BezierPath.bounds() computes for it *)
  pq_box : path_box ROps (map SLine ls) = Some b0;
  pq_closed : closed_chain ls;
  (* general position of the level y with respect to every edge, in the code's own tolerances (see [edge_gp]) *)
  pq_gp : forall e, In e ls -> edge_gp e y;
  (* neither ray is degenerate for the code (start and end abscissae not isclose) *)
  pq_rayL : isclose ROps (px (bl b0) - 10) x = false;
  pq_rayR : isclose ROps (px (tr b0) + 10) x = false;
  (* size: 2e-7 of the longer ray is at most the 10-unit margin *)
  pq_size : my_eps * ray_reach b0 x <= 10;
  (* the query point is not on the path, nor within 2e-7 ray lengths of a crossing of its level *)
  pq_off : forall e, In e ls -> straddles e y -> my_eps * ray_reach b0 x < Rabs (cross_x e y - x);
  (* no two crossing points of the level coincide *)
  pq_distinct : NoDup (map (fun e => cross_x e y) (filter (fun e => straddlesb e y) ls)) }.

Theorem polygon_winding_number ls b0 x y : polygon_query ls b0 x y ->
  windingNumberOfPoint ROps (map SLine ls) (P x y) = Some (Z.abs (leftSum ls x y)) /\
  Z.abs (leftSum ls x y) = Z.abs (rightSum ls x y).
Proof. intros [H1 H2 H3 H4 H5 H6 H7 H8]. exact (polygon_winding_number_sec ls x y b0 H1 H2 H3 H4 H5 H6 H7 H8). Qed.

Theorem polygon_even_odd ls b0 x y : polygon_query ls b0 x y ->
  pointIsInside ROps (map SLine ls) (P x y) = Some (Nat.odd (length (filter (left_of x y) ls))) /\
  Nat.odd (length (filter (left_of x y) ls)) = Nat.odd (length (filter (right_of x y) ls)).
Proof. intros [H1 H2 H3 H4 H5 H6 H7 H8]. exact (polygon_even_odd_sec ls x y b0 H1 H2 H3 H4 H5 H6 H7 H8). Qed.

Theorem bbox_outside_zero ls b0 x y : polygon_query ls b0 x y ->
  BBox_includes ROps b0 (P x y) = false ->
  windingNumberOfPoint ROps (map SLine ls) (P x y) = Some 0%Z.
Proof. intros [H1 H2 H3 H4 H5 H6 H7 H8]. exact (bbox_outside_zero_sec ls x y b0 H1 H2 H3 H4 H5 H6 H7 H8). Qed.

(* ================================================================================================ *)
(** * D. Instances and refutations                                                                   *)
(* ================================================================================================ *)

Ltac rdecide_all :=
  rcbv;
  repeat (match goal with
          | |- context [Rlt_dec ?a ?b] => destruct (Rlt_dec a b); [ try (exfalso; lra) | try (exfalso; lra) ]
          | |- context [Rle_dec ?a ?b] => destruct (Rle_dec a b); [ try (exfalso; lra) | try (exfalso; lra) ]
          | |- context [Req_EM_T ?a ?b] => destruct (Req_EM_T a b); [ try (exfalso; lra) | try (exfalso; lra) ]
          end; rcbv).

Definition tri : list (seg2 R) := [L2 (P 0 0) (P 10 10); L2 (P 10 10) (P 20 0); L2 (P 20 0) (P 0 0)].
Definition tri_box : bbox R := BB (P 0 0) (P 20 10).

Lemma tri_closed : closed_chain tri.
Proof. cbn. auto. Qed.

(* evaluating bounding boxes of concrete polygons without blow-up: every step is a min / max *)
Lemma extend_pt_val (b : bbox R) (p : pt R) :
  extend_pt ROps (Some b) p =
  Some (BB (P (Rmin (px p) (px (bl b))) (Rmin (py p) (py (bl b)))) (P (Rmax (px (tr b)) (px p)) (Rmax (py (tr b)) (py p)))).
Proof.
  unfold extend_pt. f_equal. f_equal; apply pt_eq; cbn [ltb ROps]; unfold Rmin, Rmax;
  repeat match goal with |- context[Rlt_dec ?a ?b] => destruct (Rlt_dec a b) end;
  repeat match goal with |- context[Rle_dec ?a ?b] => destruct (Rle_dec a b) end; lra.
Qed.
Lemma line_bounds_val (e : seg2 R) : Line_bounds ROps e = extend_pt ROps (Some (BB (l0 e) (l0 e))) (l1 e).
Proof.
  unfold Line_bounds, with_ends, bounds_of. rewrite line_no_extremes. cbn [app map fold_left].
  destruct (line_ends e) as [E0 E1]. change (ofZ ROps 0) with 0. change (ofZ ROps 1) with 1. rewrite E0, E1. reflexivity.
Qed.

Ltac minmax :=
  repeat match goal with
         | |- context[Rmin ?a ?b] => first [rewrite (Rmin_left a b) by lra | rewrite (Rmin_right a b) by lra]
         | |- context[Rmax ?a ?b] => first [rewrite (Rmax_left a b) by lra | rewrite (Rmax_right a b) by lra]
         end.

Lemma extend_pt_none (p : pt R) : extend_pt ROps None p = Some (BB p p).
Proof. reflexivity. Qed.

(* path_box of a concrete polygon *)
Ltac eval_path_box :=
  unfold path_box; cbn [map all_some segment_bounds]; rewrite !line_bounds_val;
  repeat (rewrite extend_pt_val; cbn [bl tr px py l0 l1]);
  cbn [all_some]; unfold path_bounds; cbn [fold_left]; unfold extend_box; cbn [bl tr];
  rewrite extend_pt_none; repeat (rewrite extend_pt_val; cbn [bl tr px py l0 l1]); minmax.

Lemma tri_path_box : path_box ROps (map SLine tri) = Some tri_box.
Proof. unfold tri, tri_box. eval_path_box. reflexivity. Qed.

(* raw evaluation of one edge on the general branch, no general-position hypothesis: C05's sound/complete pair *)
Lemma edge_general_eval (e : seg2 R) (x0 x y : R) :
  isclose ROps x0 x = false ->
  isclose ROps (py (l0 e)) (py (l1 e)) = false -> isclose ROps (px (l1 e)) (px (l0 e)) = false ->
  my_eps <= Rabs (slope e) ->
  (my_eps <= et e y <= 1 + my_eps -> my_eps <= rt x0 x (cross_x e y) < 1 ->
   seg_ray_intersections ROps (SLine e) (hray x0 x y) = [(et e y, P (cross_x e y) y, rt x0 x (cross_x e y))]) /\
  (~ (my_eps <= et e y <= 1 + my_eps /\ my_eps <= rt x0 x (cross_x e y) < 1) ->
   seg_ray_intersections ROps (SLine e) (hray x0 x y) = []).
Proof.
  intros Hray Hy Hx Hs. rewrite seg_ray_line.
  pose proof (edge_general_branch e x0 x y Hray Hy Hx Hs) as GB.
  destruct (edge_general_point e x0 x y Hray Hy Hx Hs) as (Ep & E1 & E2).
  split.
  - intros I1 I2. pose proof (line_line_general_limited_complete e (hray x0 x y) GB) as C. cbv zeta in C.
    rewrite Ep, E1, E2 in C. apply C; assumption.
  - intros N. apply nil_of_no_member. intros i Hi.
    destruct (line_line_general_limited_sound e (hray x0 x y) i GB Hi) as (_ & I1 & I2).
    rewrite Ep, E1 in I1. rewrite Ep, E2 in I2. apply N. split; assumption.
Qed.

(* a ray the code regards as a single point meets nothing *)
Lemma degenerate_ray_none (e : seg2 R) (x0 x y : R) :
  isclose ROps x0 x = true -> seg_ray_intersections ROps (SLine e) (hray x0 x y) = [].
Proof.
  intros H. rewrite seg_ray_line. unfold Line__line_line_intersections, hray. cbv zeta. cbn [l0 l1 px py].
  rewrite H, isclose_refl. cbn [andb].
  destruct (isclose ROps (px (l0 e)) (px (l1 e))); [reflexivity|].
  destruct (isclose ROps (py (l0 e)) (py (l1 e))); [reflexivity|].
  rewrite Point_eq_iff_isclose. cbn [px py]. rewrite H, isclose_refl. reflexivity.
Qed.

Lemma key_eq_R_refl (k : pt R) : key_eq ROps k k = true.
Proof.
  unfold key_eq. rewrite Point_eq_iff_isclose, !isclose_refl.
  rewrite (proj2 (Reqb_true _ _) eq_refl), (proj2 (Reqb_true _ _) eq_refl). reflexivity.
Qed.

Ltac isclose_no := match goal with |- isclose ROps ?a ?b = false => apply isclose_false_iff; rconc end.
Ltac slope_ok := unfold slope, my_eps; cbn [l0 l1 px py]; rconc; simpl; lra.

(** D1 (finding D11): a ray level with an on-curve node counts the node once.  The triangle (0,0) (10,10) (20,0)
    "contains" the point (30,10), which lies outside its bounding box: edge 1 reaches the node at t = 1 (kept),
    edge 2 leaves it at t = 0 (dropped), edge 3 is horizontal (skipped); the right ray is degenerate. *)
Example triangle_level_with_node :
  windingNumberOfPoint ROps (map SLine tri) (P 30 10) = Some 1%Z /\
  pointIsInside ROps (map SLine tri) (P 30 10) = Some true.
Proof.
  assert (W : windingNumberOfPoint ROps (map SLine tri) (P 30 10) = Some 1%Z).
  2:{ split; [exact W|]. rewrite (pointIsInside_parity ROps _ _ _ W). reflexivity. }
  unfold windingNumberOfPoint. rewrite (rays_polygon tri tri_box 30 10 tri_path_box).
  unfold tri_box. cbn [bl tr px py].
  pose proof my_eps_pos as He. pose proof my_eps_val as Ev.
  set (e1 := L2 (P 0 0) (P 10 10)). set (e2 := L2 (P 10 10) (P 20 0)). set (e3 := L2 (P 20 0) (P 0 0)).
  assert (Hray : isclose ROps (0 - 10) 30 = false) by isclose_no.
  (* left ray *)
  assert (H1 : seg_ray_intersections ROps (SLine e1) (hray (0 - 10) 30 10) = [(1, P 10 10, 1 / 2)]).
  { destruct (edge_general_eval e1 (0 - 10) 30 10 Hray) as [Y _]; try (unfold e1; cbn [l0 l1 px py]; isclose_no).
    { unfold e1. slope_ok. }
    assert (Et : et e1 10 = 1) by (unfold et, e1; cbn [l0 l1 px py]; field).
    assert (Ex : cross_x e1 10 = 10) by (unfold cross_x; rewrite Et; unfold e1; cbn [l0 l1 px py]; ring).
    assert (Er : rt (0 - 10) 30 10 = 1 / 2) by (unfold rt; field).
    rewrite Et, Ex, Er in Y. apply Y; lra. }
  assert (H2 : seg_ray_intersections ROps (SLine e2) (hray (0 - 10) 30 10) = []).
  { destruct (edge_general_eval e2 (0 - 10) 30 10 Hray) as [_ N]; try (unfold e2; cbn [l0 l1 px py]; isclose_no).
    { unfold e2. slope_ok. }
    assert (Et : et e2 10 = 0) by (unfold et, e2; cbn [l0 l1 px py]; field).
    apply N. rewrite Et. lra. }
  assert (H3 : seg_ray_intersections ROps (SLine e3) (hray (0 - 10) 30 10) = []).
  { rewrite seg_ray_line, (edge_flat_none e3 (0 - 10) 30 10 Hray); [reflexivity|]. unfold e3. cbn [l0 l1 px py]. apply isclose_refl. }
  (* right ray: from (30,10) to (30,10) *)
  assert (HrayR : isclose ROps (20 + 10) 30 = true) by (replace (20 + 10) with 30 by lra; apply isclose_refl).
  unfold tri. fold e1 e2 e3. unfold collect. cbn [map fold_left]. unfold collect_seg.
  rewrite H1, H2, H3, !(degenerate_ray_none _ _ _ _ HrayR). cbn [fold_left dict_set].
  unfold winding_sum. cbn [fold_left snd].
  rewrite hit_sign_line by (unfold e1; cbn [l0 l1 px py]; lra).
  unfold dir, e1. cbn [l0 l1 px py ltb ROps]. destruct (Rlt_dec 10 0); [lra|]. reflexivity.
Qed.

Theorem level_with_node_refuted :
  exists ls b0 x y, closed_chain ls /\ path_box ROps (map SLine ls) = Some b0 /\
    BBox_includes ROps b0 (P x y) = false /\
    pointIsInside ROps (map SLine ls) (P x y) = Some true.
Proof.
  exists tri, tri_box, 30, 10. split; [exact tri_closed | split; [exact tri_path_box | split]].
  - unfold BBox_includes, tri_box. cbn [bl tr px py leb ROps].
    repeat match goal with |- context[Rle_dec ?a ?b] => destruct (Rle_dec a b) end; try reflexivity; lra.
  - apply triangle_level_with_node.
Qed.

(* ---- proving general position of a concrete edge ---- *)
Ltac gp_concrete :=
  constructor; unfold straddles; cbn [l0 l1 px py];
  [ rewrite my_eps_val; rconc
  | rewrite my_eps_val; rconc
  | first [ intros _ [S|S]; lra
          | intros H; exfalso; revert H;
            match goal with |- isclose ROps ?a ?b = true -> _ =>
              replace (isclose ROps a b) with false by (symmetry; isclose_no); discriminate end ]
  | first [ intros _ _; lra
          | intros [S|S] _; cbn [l0 l1 px py] in S; lra
          | intros _ H; exfalso; revert H;
            match goal with |- isclose ROps ?a ?b = true -> _ =>
              replace (isclose ROps a b) with false by (symmetry; isclose_no); discriminate end ]
  | first [ intros [S|S] _; cbn [l0 l1 px py] in S; lra
          | intros _ H; rewrite isclose_refl in H; discriminate
          | intros _ _; slope_ok ] ].

(** D2. The theorems are not vacuous: the triangle and the query point (10, 5) satisfy every hypothesis; the
    theorem then says the point is inside (one edge crossed on the left, one on the right). *)
Example tri_query_inside : polygon_query tri tri_box 10 5.
Proof.
  pose proof my_eps_val as Ev.
  assert (X1 : cross_x (L2 (P 0 0) (P 10 10)) 5 = 5) by (unfold cross_x, et; cbn [l0 l1 px py]; field).
  assert (X2 : cross_x (L2 (P 10 10) (P 20 0)) 5 = 15) by (unfold cross_x, et; cbn [l0 l1 px py]; field).
  assert (Hreach : ray_reach tri_box 10 = 20).
  { unfold ray_reach, tri_box. cbn [bl tr px py]. replace (10 - (0 - 10)) with 20 by lra. replace (20 + 10 - 10) with 20 by lra.
    rewrite Rmax_left by lra. rconc. }
  constructor.
  - exact tri_path_box.
  - exact tri_closed.
  - intros e [<-|[<-|[<-|[]]]]; gp_concrete.
  - unfold tri_box. cbn [bl tr px py]. isclose_no.
  - unfold tri_box. cbn [bl tr px py]. isclose_no.
  - rewrite Hreach, Ev. lra.
  - rewrite Hreach, Ev. intros e [<-|[<-|[<-|[]]]] S.
    + rewrite X1. rconc.
    + rewrite X2. rconc.
    + destruct S as [S|S]; cbn [l0 l1 px py] in S; lra.
  - unfold tri. cbn [filter]. unfold straddlesb. cbn [l0 l1 px py ltb ROps].
    repeat match goal with |- context[Rlt_dec ?a ?b] => destruct (Rlt_dec a b); try lra end.
    cbn [andb orb map]. rewrite X1, X2. repeat constructor; cbn [In]; lra.
Qed.

Example tri_query_inside_result : pointIsInside ROps (map SLine tri) (P 10 5) = Some true.
Proof.
  destruct (polygon_even_odd tri tri_box 10 5 tri_query_inside) as [E _]. rewrite E. f_equal.
  assert (X1 : cross_x (L2 (P 0 0) (P 10 10)) 5 = 5) by (unfold cross_x, et; cbn [l0 l1 px py]; field).
  assert (X2 : cross_x (L2 (P 10 10) (P 20 0)) 5 = 15) by (unfold cross_x, et; cbn [l0 l1 px py]; field).
  unfold tri. cbn [filter]. unfold left_of, straddlesb. rewrite X1, X2. cbn [l0 l1 px py ltb ROps].
  repeat match goal with |- context[Rlt_dec ?a ?b] => destruct (Rlt_dec a b); try lra end. all: reflexivity.
Qed.

(** D3 (finding: ray through a self-intersection point).  The hypothesis [pq_distinct] cannot be dropped: in the
    bowtie (0,0) (10,10) (10,0) (0,10) the edges 1 and 3 cross at (5,5); for the query point (-5,5), outside the
    bounding box and in general position with respect to every edge, the right ray meets four edges at three
    distinct points, the dict keyed by the point keeps three entries (the one at (5,5) ends up with edge 3), the
    signs are +1, -1, -1, and the point is reported inside. *)
Definition bow : list (seg2 R) :=
  [L2 (P 0 0) (P 10 10); L2 (P 10 10) (P 10 0); L2 (P 10 0) (P 0 10); L2 (P 0 10) (P 0 0)].
Definition bow_box : bbox R := BB (P 0 0) (P 10 10).

Lemma bow_closed : closed_chain bow.
Proof. cbn. auto. Qed.
Lemma bow_path_box : path_box ROps (map SLine bow) = Some bow_box.
Proof. unfold bow, bow_box. eval_path_box. reflexivity. Qed.

Example bowtie_merged_crossing :
  windingNumberOfPoint ROps (map SLine bow) (P (-5) 5) = Some 1%Z /\
  pointIsInside ROps (map SLine bow) (P (-5) 5) = Some true.
Proof.
  assert (W : windingNumberOfPoint ROps (map SLine bow) (P (-5) 5) = Some 1%Z).
  2:{ split; [exact W|]. rewrite (pointIsInside_parity ROps _ _ _ W). reflexivity. }
  pose proof my_eps_val as Ev.
  set (e1 := L2 (P 0 0) (P 10 10)). set (e2 := L2 (P 10 10) (P 10 0)).
  set (e3 := L2 (P 10 0) (P 0 10)). set (e4 := L2 (P 0 10) (P 0 0)).
  assert (X1 : cross_x e1 5 = 5) by (unfold cross_x, et, e1; cbn [l0 l1 px py]; field).
  assert (X2 : cross_x e2 5 = 10) by (unfold cross_x, et, e2; cbn [l0 l1 px py]; field).
  assert (X3 : cross_x e3 5 = 5) by (unfold cross_x, et, e3; cbn [l0 l1 px py]; field).
  assert (X4 : cross_x e4 5 = 0) by (unfold cross_x, et, e4; cbn [l0 l1 px py]; field).
  assert (G1 : edge_gp e1 5) by (unfold e1; gp_concrete).
  assert (G2 : edge_gp e2 5) by (unfold e2; gp_concrete).
  assert (G3 : edge_gp e3 5) by (unfold e3; gp_concrete).
  assert (G4 : edge_gp e4 5) by (unfold e4; gp_concrete).
  assert (HrayL : isclose ROps (0 - 10) (-5) = false) by isclose_no.
  assert (HrayR : isclose ROps (10 + 10) (-5) = false) by isclose_no.
  (* the parameter of each crossing on either ray *)
  assert (RL : forall xc, rt (0 - 10) (-5) xc = (xc + 10) / 5) by (intros; unfold rt; field).
  assert (RR : forall xc, rt (10 + 10) (-5) xc = (20 - xc) / 25) by (intros; unfold rt; field).
  assert (WL : forall e, In e bow -> window_clear (0 - 10) (-5) 5 e).
  { intros e [<-|[<-|[<-|[<-|[]]]]] _; fold e1 e2 e3 e4; rewrite ?X1, ?X2, ?X3, ?X4, RL, Ev; lra. }
  assert (WR : forall e, In e bow -> window_clear (10 + 10) (-5) 5 e).
  { intros e [<-|[<-|[<-|[<-|[]]]]] _; fold e1 e2 e3 e4; rewrite ?X1, ?X2, ?X3, ?X4, RR, Ev; lra. }
  assert (I1 : In e1 bow) by (left; reflexivity). assert (I2 : In e2 bow) by (right; left; reflexivity).
  assert (I3 : In e3 bow) by (right; right; left; reflexivity). assert (I4 : In e4 bow) by (right; right; right; left; reflexivity).
  (* which edges each ray sees *)
  assert (Sb : straddlesb e1 5 = true /\ straddlesb e2 5 = true /\ straddlesb e3 5 = true /\ straddlesb e4 5 = true).
  { repeat split; apply straddlesb_true; unfold straddles, e1, e2, e3, e4; cbn [l0 l1 px py]; lra. }
  destruct Sb as (S1 & S2 & S3 & S4).
  assert (OL : forall xc, 0 <= xc -> on_rayb (0 - 10) (-5) xc = false).
  { intros xc Hx. unfold on_rayb. rewrite RL. apply andb_false_iff. right. apply Rltb_false. lra. }
  assert (OR : forall xc, 0 <= xc <= 10 -> on_rayb (10 + 10) (-5) xc = true).
  { intros xc Hx. unfold on_rayb. rewrite RR. apply andb_true_iff. split; [apply Rleb_true | apply Rltb_true]; lra. }
  unfold windingNumberOfPoint. rewrite (rays_polygon bow bow_box (-5) 5 bow_path_box).
  unfold bow_box. cbn [bl tr px py].
  unfold bow. fold e1 e2 e3 e4. unfold collect. cbn [map fold_left].
  rewrite !(collect_seg_line (0 - 10) (-5) 5 HrayL) by (first [assumption | apply WL; assumption]).
  rewrite !(collect_seg_line (10 + 10) (-5) 5 HrayR) by (first [assumption | apply WR; assumption]).
  unfold hitb. rewrite S1, S2, S3, S4, X1, X2, X3, X4. cbn [andb].
  rewrite !OL by lra. rewrite !OR by lra.
  (* the right dict: (5,5) -> e1, (10,5) -> e2, (5,5) again -> replaced by e3, (0,5) -> e4 *)
  assert (K1 : key_eq ROps (P 5 5) (P 10 5) = false) by (apply key_eq_R_neq; intros E; injection E; lra).
  assert (K2 : key_eq ROps (P 5 5) (P 0 5) = false) by (apply key_eq_R_neq; intros E; injection E; lra).
  assert (K3 : key_eq ROps (P 10 5) (P 0 5) = false) by (apply key_eq_R_neq; intros E; injection E; lra).
  assert (K4 : key_eq ROps (P 10 5) (P 5 5) = false) by (apply key_eq_R_neq; intros E; injection E; lra).
  repeat (cbn [dict_set]; rewrite ?K1, ?K2, ?K3, ?K4, ?key_eq_R_refl).
  unfold winding_sum. cbn [fold_left snd].
  rewrite !hit_sign_line by (unfold e2, e3, e4; cbn [l0 l1 px py]; lra).
  unfold dir, e2, e3, e4. cbn [l0 l1 px py ltb ROps].
  repeat match goal with |- context[Rlt_dec ?a ?b] => destruct (Rlt_dec a b); try lra end. reflexivity.
Qed.

Theorem merged_crossing_refuted :
  exists ls b0 x y, closed_chain ls /\ path_box ROps (map SLine ls) = Some b0 /\
    (forall e, In e ls -> edge_gp e y) /\
    BBox_includes ROps b0 (P x y) = false /\
    pointIsInside ROps (map SLine ls) (P x y) = Some true.
Proof.
  exists bow, bow_box, (-5), 5. split; [exact bow_closed | split; [exact bow_path_box | split; [|split]]].
  - intros e [<-|[<-|[<-|[<-|[]]]]]; gp_concrete.
  - unfold BBox_includes, bow_box. cbn [bl tr px py leb ROps].
    repeat match goal with |- context[Rle_dec ?a ?b] => destruct (Rle_dec a b) end; try reflexivity; lra.
  - apply bowtie_merged_crossing.
Qed.

(* raw evaluation of an exactly vertical edge: the vertical branch reports the point (a.x, y) unconditionally *)
Lemma edge_vertical_eval (e : seg2 R) (x0 x y : R) :
  isclose ROps x0 x = false -> isclose ROps (py (l0 e)) (py (l1 e)) = false -> px (l0 e) = px (l1 e) ->
  seg_ray_intersections ROps (SLine e) (hray x0 x y) = limited [(et e y, P (px (l0 e)) y, rt x0 x (px (l0 e)))].
Proof.
  intros Hray Hy V. rewrite seg_ray_line.
  destruct (line_line_vertical_exact e (hray x0 x y) V) as (EQ & _).
  { unfold hray. cbn [l0 l1 px py]. exact Hray. }
  { apply edge_not_degenerate; assumption. }
  rewrite EQ, slope_hray. f_equal. f_equal.
  unfold hray, param_y, param_x, et, rt. cbn [l0 l1 px py].
  replace (0 * (px (l0 e) - x0) + y) with y by ring. reflexivity.
Qed.

(** D4.  The hypothesis [pq_rayL]/[pq_rayR] cannot be dropped (finding: ray isclose-degenerate).  Far from the
    origin the two ends of a ray are isclose and the code treats the ray as a point: the centre of the rectangle
    (3e10,0) (3e10,100) (3e10+20,100) (3e10+20,0) is reported outside although one edge is crossed on its left. *)
Definition far : list (seg2 R) :=
  [L2 (P 30000000000 0) (P 30000000000 100); L2 (P 30000000000 100) (P 30000000020 100);
   L2 (P 30000000020 100) (P 30000000020 0); L2 (P 30000000020 0) (P 30000000000 0)].
Definition far_box : bbox R := BB (P 30000000000 0) (P 30000000020 100).

Lemma far_path_box : path_box ROps (map SLine far) = Some far_box.
Proof. unfold far, far_box. eval_path_box. reflexivity. Qed.

Theorem degenerate_ray_refuted :
  exists ls b0 x y, closed_chain ls /\ path_box ROps (map SLine ls) = Some b0 /\
    (forall e, In e ls -> edge_gp e y) /\
    Nat.odd (length (filter (left_of x y) ls)) = true /\
    pointIsInside ROps (map SLine ls) (P x y) = Some false.
Proof.
  exists far, far_box, 30000000010, 50. split; [cbn; auto | split; [exact far_path_box | split; [|split]]].
  - intros e [<-|[<-|[<-|[<-|[]]]]]; gp_concrete.
  - assert (X1 : cross_x (L2 (P 30000000000 0) (P 30000000000 100)) 50 = 30000000000)
      by (unfold cross_x, et; cbn [l0 l1 px py]; field).
    assert (X3 : cross_x (L2 (P 30000000020 100) (P 30000000020 0)) 50 = 30000000020)
      by (unfold cross_x, et; cbn [l0 l1 px py]; field).
    unfold far. cbn [filter]. unfold left_of, straddlesb. rewrite X1, X3. cbn [l0 l1 px py ltb ROps].
    repeat match goal with |- context[Rlt_dec ?a ?b] => destruct (Rlt_dec a b); try lra end; reflexivity.
  - assert (W : windingNumberOfPoint ROps (map SLine far) (P 30000000010 50) = Some 0%Z).
    2:{ rewrite (pointIsInside_parity ROps _ _ _ W). reflexivity. }
    unfold windingNumberOfPoint. rewrite (rays_polygon far far_box _ _ far_path_box). unfold far_box. cbn [bl tr px py].
    assert (HL : isclose ROps (30000000000 - 10) 30000000010 = true) by (apply isclose_true_iff; rconc).
    assert (HR : isclose ROps (30000000020 + 10) 30000000010 = true) by (apply isclose_true_iff; rconc).
    unfold far, collect. cbn [map fold_left]. unfold collect_seg.
    rewrite !(degenerate_ray_none _ _ _ _ HL), !(degenerate_ray_none _ _ _ _ HR). reflexivity.
Qed.

(** D5.  The size hypothesis [pq_size] cannot be dropped (finding: ray longer than 5e7).  Triangle (0,0) (1e9,5e8)
    (0,1e9), query (2e9,4e8): outside the box, every edge in general position, rays not degenerate; the left ray is
    2e9+10 long and the crossing of the vertical edge x = 0 sits at parameter 10/(2e9+10) < 2e-7: dropped. *)
Definition big : list (seg2 R) :=
  [L2 (P 0 0) (P 1000000000 500000000); L2 (P 1000000000 500000000) (P 0 1000000000); L2 (P 0 1000000000) (P 0 0)].
Definition big_box : bbox R := BB (P 0 0) (P 1000000000 1000000000).

Lemma big_path_box : path_box ROps (map SLine big) = Some big_box.
Proof. unfold big, big_box. eval_path_box. reflexivity. Qed.

Theorem long_ray_refuted :
  exists ls b0 x y, closed_chain ls /\ path_box ROps (map SLine ls) = Some b0 /\
    (forall e, In e ls -> edge_gp e y) /\
    isclose ROps (px (bl b0) - 10) x = false /\ isclose ROps (px (tr b0) + 10) x = false /\
    BBox_includes ROps b0 (P x y) = false /\
    pointIsInside ROps (map SLine ls) (P x y) = Some true.
Proof.
  exists big, big_box, 2000000000, 400000000.
  pose proof my_eps_val as Ev.
  set (e1 := L2 (P 0 0) (P 1000000000 500000000)). set (e2 := L2 (P 1000000000 500000000) (P 0 1000000000)).
  set (e3 := L2 (P 0 1000000000) (P 0 0)).
  assert (G1 : edge_gp e1 400000000) by (unfold e1; gp_concrete).
  assert (G2 : edge_gp e2 400000000) by (unfold e2; gp_concrete).
  assert (G3 : edge_gp e3 400000000) by (unfold e3; gp_concrete).
  assert (HL : isclose ROps (0 - 10) 2000000000 = false) by isclose_no.
  assert (HR : isclose ROps (1000000000 + 10) 2000000000 = false) by isclose_no.
  split; [cbn; auto | split; [exact big_path_box | split; [|split; [|split; [|split]]]]].
  - intros e [<-|[<-|[<-|[]]]]; assumption.
  - exact HL.
  - exact HR.
  - unfold BBox_includes, big_box. cbn [bl tr px py leb ROps].
    repeat match goal with |- context[Rle_dec ?a ?b] => destruct (Rle_dec a b) end; try reflexivity; lra.
  - assert (W : windingNumberOfPoint ROps (map SLine big) (P 2000000000 400000000) = Some 1%Z).
    2:{ rewrite (pointIsInside_parity ROps _ _ _ W). reflexivity. }
    assert (X1 : cross_x e1 400000000 = 800000000) by (unfold cross_x, et, e1; cbn [l0 l1 px py]; field).
    assert (X3 : cross_x e3 400000000 = 0) by (unfold cross_x, et, e3; cbn [l0 l1 px py]; field).
    assert (N2 : ~ straddles e2 400000000) by (unfold straddles, e2; cbn [l0 l1 px py]; lra).
    assert (S1 : straddlesb e1 400000000 = true) by (apply straddlesb_true; unfold straddles, e1; cbn [l0 l1 px py]; lra).
    assert (S2 : straddlesb e2 400000000 = false) by (apply straddlesb_false; exact N2).
    assert (S3 : straddlesb e3 400000000 = true) by (apply straddlesb_true; unfold straddles, e3; cbn [l0 l1 px py]; lra).
    (* left ray *)
    assert (L1 : seg_ray_intersections ROps (SLine e1) (hray (0 - 10) 2000000000 400000000) =
                 [(et e1 400000000, P 800000000 400000000, rt (0 - 10) 2000000000 800000000)]).
    { rewrite (edge_ray_crossing e1 _ _ _ G1 HL).
      - unfold hitb, on_rayb. rewrite S1, X1. unfold rt.
        destruct (leb ROps 0 ((800000000 - (0 - 10)) / (2000000000 - (0 - 10)))) eqn:A;
          [|apply Rleb_false in A; exfalso; assert (0 < (800000000 - (0 - 10)) / (2000000000 - (0 - 10))) by (apply Rdiv_lt_0_compat; lra); lra].
        destruct (ltb ROps ((800000000 - (0 - 10)) / (2000000000 - (0 - 10))) 1) eqn:B; [reflexivity|].
        apply Rltb_false in B. exfalso.
        destruct (div_cmp (800000000 - (0 - 10)) (2000000000 - (0 - 10)) ltac:(lra) 1) as (_ & C & _).
        assert ((800000000 - (0 - 10)) / (2000000000 - (0 - 10)) < 1) by (apply C; lra). lra.
      - intros _. rewrite X1. unfold rt.
        destruct (div_cmp (800000000 - (0 - 10)) (2000000000 - (0 - 10)) ltac:(lra) my_eps) as (A & _ & _).
        destruct (div_cmp (800000000 - (0 - 10)) (2000000000 - (0 - 10)) ltac:(lra) 1) as (_ & B & _).
        split; [right; apply A; rewrite Ev; lra | left; apply B; lra]. }
    assert (L2' : seg_ray_intersections ROps (SLine e2) (hray (0 - 10) 2000000000 400000000) = []).
    { rewrite (edge_ray_crossing e2 _ _ _ G2 HL); [unfold hitb; rewrite S2; reflexivity | intros S; contradiction]. }
    assert (L3 : seg_ray_intersections ROps (SLine e3) (hray (0 - 10) 2000000000 400000000) = []).
    { rewrite (edge_vertical_eval e3 _ _ _ HL); [| unfold e3; cbn [l0 l1 px py]; isclose_no | reflexivity].
      apply limited_single_drop. cbn [fst snd]. unfold e3 at 2. cbn [l0 px]. unfold rt. intros [_ [T _]].
      destruct (div_cmp (0 - (0 - 10)) (2000000000 - (0 - 10)) ltac:(lra) my_eps) as (A & _ & _).
      apply A in T. rewrite Ev in T. lra. }
    (* right ray: it points away from the path *)
    assert (RR : forall xc, xc <= 1000000000 -> on_rayb (1000000000 + 10) 2000000000 xc = false).
    { intros xc Hx. unfold on_rayb, rt. apply andb_false_iff. left. apply Rleb_false.
      replace ((xc - (1000000000 + 10)) / (2000000000 - (1000000000 + 10)))
        with (- ((1000000000 + 10 - xc) / (2000000000 - (1000000000 + 10)))) by (field; lra).
      assert (0 < (1000000000 + 10 - xc) / (2000000000 - (1000000000 + 10))) by (apply Rdiv_lt_0_compat; lra). lra. }
    assert (WR : forall e xc, cross_x e 400000000 = xc -> xc <= 1000000000 -> window_clear (1000000000 + 10) 2000000000 400000000 e).
    { intros e xc E Hx _. rewrite E. unfold rt.
      replace ((xc - (1000000000 + 10)) / (2000000000 - (1000000000 + 10)))
        with (- ((1000000000 + 10 - xc) / (2000000000 - (1000000000 + 10)))) by (field; lra).
      assert (0 < (1000000000 + 10 - xc) / (2000000000 - (1000000000 + 10))) by (apply Rdiv_lt_0_compat; lra).
      split; left; lra. }
    assert (R1 : seg_ray_intersections ROps (SLine e1) (hray (1000000000 + 10) 2000000000 400000000) = []).
    { rewrite (edge_ray_crossing e1 _ _ _ G1 HR (WR e1 _ X1 ltac:(lra))). unfold hitb. rewrite X1, RR by lra. rewrite andb_false_r. reflexivity. }
    assert (R2 : seg_ray_intersections ROps (SLine e2) (hray (1000000000 + 10) 2000000000 400000000) = []).
    { rewrite (edge_ray_crossing e2 _ _ _ G2 HR); [unfold hitb; rewrite S2; reflexivity | intros S; contradiction]. }
    assert (R3 : seg_ray_intersections ROps (SLine e3) (hray (1000000000 + 10) 2000000000 400000000) = []).
    { rewrite (edge_ray_crossing e3 _ _ _ G3 HR (WR e3 _ X3 ltac:(lra))). unfold hitb. rewrite X3, RR by lra. rewrite andb_false_r. reflexivity. }
    unfold windingNumberOfPoint. rewrite (rays_polygon big big_box _ _ big_path_box). unfold big_box. cbn [bl tr px py].
    unfold big. fold e1 e2 e3. unfold collect. cbn [map fold_left]. unfold collect_seg.
    rewrite L1, L2', L3, R1, R2, R3. cbn [fold_left dict_set].
    unfold winding_sum. cbn [fold_left snd].
    rewrite hit_sign_line by (unfold e1; cbn [l0 l1 px py]; lra).
    unfold dir, e1. cbn [l0 l1 px py ltb ROps]. destruct (Rlt_dec 500000000 0); [lra|]. reflexivity.
Qed.

(* an isclose-vertical edge whose horizontal drift at the level is 2e-7 or more: tOfPoint's re-check fails, the
   parameter becomes -1 and the crossing is discarded *)
Lemma vertical_branch_recheck_fails (e : seg2 R) (x0 x y : R) :
  isclose ROps x0 x = false ->
  isclose ROps (py (l0 e)) (py (l1 e)) = false -> isclose ROps (px (l1 e)) (px (l0 e)) = true ->
  my_eps <= Rabs (et e y * (px (l1 e) - px (l0 e))) ->
  seg_ray_intersections ROps (SLine e) (hray x0 x y) = [].
Proof.
  intros Hray Hy Hx Hd. rewrite seg_ray_line. pose proof my_eps_pos as He.
  pose proof (isclose_false_neq _ _ Hy) as Ny.
  unfold Line__line_line_intersections, hray. cbv zeta. cbn [l0 l1 px py].
  rewrite Hray, andb_false_l, isclose_refl, Hy. cbn [andb].
  pose proof (edge_not_degenerate e x0 x y Hray Hy) as ND. unfold hray in ND. cbn [l0 l1] in ND. rewrite ND, Hx.
  apply limited_single_drop. cbn [fst snd]. intros [I1 _].
  revert I1. unfold Line_tOfPoint. cbv zeta. cbn [l0 l1 px py]. rewrite Hx. cbn [negb andb].
  rewrite (isclose_sym (py (l1 e)) (py (l0 e))), Hy. cbn [negb orb].
  assert (Ey : add ROps (mul ROps (dvd ROps (sub ROps y y) (sub ROps x x0)) (sub ROps (px (l0 e)) x0)) y = y).
  { cbn. unfold Rdiv. rewrite Rminus_diag_eq by reflexivity. ring. }
  rewrite Ey.
  change (dvd ROps (sub ROps y (py (l0 e))) (sub ROps (py (l1 e)) (py (l0 e)))) with (et e y).
  assert (Dist : Point_distanceFrom ROps (Line_pointAtTime ROps e (et e y)) (P (px (l0 e)) y) =
                 Rabs (et e y * (px (l1 e) - px (l0 e)))).
  { destruct e as [[a1 a2] [b1 b2]]. cbn [l0 l1 px py] in *. set (t := et _ y). 
    assert (Et : a2 * (1 - t) + b2 * t - y = 0). { unfold t, et. cbn [l0 l1 px py]. field. lra. }
    clearbody t. rcbv.
    replace ((a1 * (1 - t) + b1 * t - a1) * (a1 * (1 - t) + b1 * t - a1) + (a2 * (1 - t) + b2 * t - y) * (a2 * (1 - t) + b2 * t - y))
      with (Rsqr (t * (b1 - a1))) by (rewrite Et; unfold Rsqr; ring).
    apply sqrt_Rsqr_abs. }
  rewrite Dist.
  destruct (ltb ROps (Rabs (et e y * (px (l1 e) - px (l0 e)))) (lit ROps 1 5000000 0x1.ad7f29abcaf48p-23%float)) eqn:L.
  - apply Rltb_true in L. rewrite my_eps_lit in L. lra.
  - cbn. lra.
Qed.

(** D6.  The exactly-vertical clause of [edge_gp] cannot be dropped (finding: vertical-branch re-check).  Triangle
    (1000,0) (1000.0000005,10) (1020,5), query (985,5.5): outside the box; the first edge is isclose-vertical, the
    level crosses it at t = 0.55 where it has drifted 2.75e-7 from x = 1000; its crossing is discarded and the point
    is reported inside. *)
Definition nv : list (seg2 R) :=
  [L2 (P 1000 0) (P (2000000001 / 2000000) 10); L2 (P (2000000001 / 2000000) 10) (P 1020 5); L2 (P 1020 5) (P 1000 0)].
Definition nv_box : bbox R := BB (P 1000 0) (P 1020 10).

Lemma nv_path_box : path_box ROps (map SLine nv) = Some nv_box.
Proof. unfold nv, nv_box. eval_path_box. reflexivity. Qed.

Theorem vertical_recheck_refuted :
  exists ls b0 x y, closed_chain ls /\ path_box ROps (map SLine ls) = Some b0 /\
    isclose ROps (px (bl b0) - 10) x = false /\ isclose ROps (px (tr b0) + 10) x = false /\
    BBox_includes ROps b0 (P x y) = false /\
    pointIsInside ROps (map SLine ls) (P x y) = Some true.
Proof.
  exists nv, nv_box, 985, (11 / 2).
  pose proof my_eps_val as Ev.
  set (e1 := L2 (P 1000 0) (P (2000000001 / 2000000) 10)). set (e2 := L2 (P (2000000001 / 2000000) 10) (P 1020 5)).
  set (e3 := L2 (P 1020 5) (P 1000 0)).
  assert (HL : isclose ROps (1000 - 10) 985 = false) by isclose_no.
  assert (HR : isclose ROps (1020 + 10) 985 = false) by isclose_no.
  split; [cbn; auto | split; [exact nv_path_box | split; [exact HL | split; [exact HR | split]]]].
  - unfold BBox_includes, nv_box. cbn [bl tr px py leb ROps].
    repeat match goal with |- context[Rle_dec ?a ?b] => destruct (Rle_dec a b) end; try reflexivity; lra.
  - assert (W : windingNumberOfPoint ROps (map SLine nv) (P 985 (11 / 2)) = Some 1%Z).
    2:{ rewrite (pointIsInside_parity ROps _ _ _ W). reflexivity. }
    assert (G2 : edge_gp e2 (11 / 2)) by (unfold e2; gp_concrete).
    assert (G3 : edge_gp e3 (11 / 2)) by (unfold e3; gp_concrete).
    assert (V1 : forall x0, isclose ROps x0 985 = false ->
                 seg_ray_intersections ROps (SLine e1) (hray x0 985 (11 / 2)) = []).
    { intros x0 H. apply vertical_branch_recheck_fails; [exact H | | |]; unfold e1; cbn [l0 l1 px py].
      - isclose_no.
      - apply isclose_true_iff. rconc.
      - unfold et. cbn [l0 l1 px py]. rewrite Ev.
        replace ((11 / 2 - 0) / (10 - 0) * (2000000001 / 2000000 - 1000)) with (11 / 40000000) by field. rconc. }
    assert (X2 : cross_x e2 (11 / 2) = 20360000001 / 20000000)
      by (unfold cross_x, et, e2; cbn [l0 l1 px py]; field).
    assert (S2 : straddlesb e2 (11 / 2) = true) by (apply straddlesb_true; unfold straddles, e2; cbn [l0 l1 px py]; lra).
    assert (N3 : ~ straddles e3 (11 / 2)) by (unfold straddles, e3; cbn [l0 l1 px py]; lra).
    assert (S3 : straddlesb e3 (11 / 2) = false) by (apply straddlesb_false; exact N3).
    (* left ray (pointing away) *)
    assert (L2' : seg_ray_intersections ROps (SLine e2) (hray (1000 - 10) 985 (11 / 2)) = []).
    { assert (Rt : rt (1000 - 10) 985 (cross_x e2 (11 / 2)) < 0).
      { rewrite X2. unfold rt. replace ((20360000001 / 20000000 - (1000 - 10)) / (985 - (1000 - 10))) with (- (560000001 / 100000000)) by field. lra. }
      rewrite (edge_ray_crossing e2 _ _ _ G2 HL); [| intros _; split; left; lra].
      unfold hitb, on_rayb. replace (leb ROps 0 (rt (1000 - 10) 985 (cross_x e2 (11 / 2)))) with false by (symmetry; apply Rleb_false; lra).
      rewrite andb_false_r. reflexivity. }
    assert (L3 : seg_ray_intersections ROps (SLine e3) (hray (1000 - 10) 985 (11 / 2)) = []).
    { rewrite (edge_ray_crossing e3 _ _ _ G3 HL); [unfold hitb; rewrite S3; reflexivity | intros S; contradiction]. }
    (* right ray *)
    assert (Rt2 : rt (1020 + 10) 985 (cross_x e2 (11 / 2)) = 239999999 / 900000000).
    { rewrite X2. unfold rt. field. }
    assert (R2 : seg_ray_intersections ROps (SLine e2) (hray (1020 + 10) 985 (11 / 2)) =
                 [(et e2 (11 / 2), P (cross_x e2 (11 / 2)) (11 / 2), 239999999 / 900000000)]).
    { rewrite (edge_ray_crossing e2 _ _ _ G2 HR); [| intros _; rewrite Rt2, Ev; split; [right | left]; lra].
      unfold hitb, on_rayb. rewrite S2, Rt2.
      replace (leb ROps 0 (239999999 / 900000000)) with true by (symmetry; apply Rleb_true; lra).
      replace (ltb ROps (239999999 / 900000000) 1) with true by (symmetry; apply Rltb_true; lra). reflexivity. }
    assert (R3 : seg_ray_intersections ROps (SLine e3) (hray (1020 + 10) 985 (11 / 2)) = []).
    { rewrite (edge_ray_crossing e3 _ _ _ G3 HR); [unfold hitb; rewrite S3; reflexivity | intros S; contradiction]. }
    unfold windingNumberOfPoint. rewrite (rays_polygon nv nv_box _ _ nv_path_box). unfold nv_box. cbn [bl tr px py].
    unfold nv. fold e1 e2 e3. unfold collect. cbn [map fold_left]. unfold collect_seg.
    rewrite (V1 _ HL), (V1 _ HR), L2', L3, R2, R3. cbn [fold_left dict_set].
    unfold winding_sum. cbn [fold_left snd].
    rewrite hit_sign_line by (unfold e2; cbn [l0 l1 px py]; lra).
    unfold dir, e2. cbn [l0 l1 px py ltb ROps]. destruct (Rlt_dec 5 10); [reflexivity | lra].
Qed.

(* ================================================================================================ *)
(** * E. Curved segments: what one quadratic / cubic contributes (partial)                            *)
(* ================================================================================================ *)

Lemma hray_tOfPoint x0 x y (p : pt R) :
  isclose ROps x0 x = false -> Line_tOfPoint ROps (hray x0 x y) p true = rt x0 x (px p).
Proof.
  intros H. unfold Line_tOfPoint, hray, rt. cbv zeta. cbn [l0 l1 px py].
  rewrite (isclose_sym x x0), H. cbn [negb andb orb].
  assert (L : leb ROps (abs_ ROps (sub ROps y y)) (abs_ ROps (sub ROps x x0)) = true).
  { apply Rleb_true. cbn. rewrite Rminus_diag_eq, Rabs_R0 by reflexivity. apply Rabs_pos. }
  rewrite L. reflexivity.
Qed.

Lemma on_carrier_hray x0 x y (p : pt R) : x - x0 <> 0 -> (on_carrier (hray x0 x y) p <-> py p = y).
Proof.
  intros N. unfold on_carrier, hray. cbn [l0 l1 px py]. split; intros H.
  - assert (E : (x - x0) * (py p - y) = 0) by lra. apply Rmult_integral in E. destruct E; lra.
  - rewrite H. ring.
Qed.

Lemma hray_distinct x0 x y : x - x0 <> 0 -> l0 (hray x0 x y) <> l1 (hray x0 x y).
Proof. intros N E. unfold hray in E. cbn [l0 l1] in E. injection E as E. lra. Qed.

(** E1. Under C05's non-degeneracy hypothesis on the cubic in the ray's frame, a cubic segment contributes exactly
    its geometric crossings of the level: the parameters t in [2e-7, 1] at which the curve is at height y and whose
    abscissa lies in the ray's window, each with its exact point and ray parameter. *)
Theorem cubic_ray_hits_partial (c : seg4 R) (x0 x y : R) (i : ixn) :
  isclose ROps x0 x = false ->
  let c' := Cubic_transformed ROps c (Line_alignmentTransformation ROps (hray x0 x y)) in
  cubic_thr c' < Rabs (cubic_D c') ->
  (In i (seg_ray_intersections ROps (SCubic c) (hray x0 x y)) <->
   exists t, my_eps <= t <= 1 /\ py (Cubic_pointAtTime ROps c t) = y /\
     my_eps <= rt x0 x (px (Cubic_pointAtTime ROps c t)) <= 1 + my_eps /\
     i = (t, Cubic_pointAtTime ROps c t, rt x0 x (px (Cubic_pointAtTime ROps c t)))).
Proof.
  intros Hray c' Hg. pose proof (isclose_false_neq _ _ Hray) as N0. assert (N : x - x0 <> 0) by lra.
  pose proof my_eps_pos as He.
  unfold seg_ray_intersections, seg_ray_raw. rewrite filter_In.
  destruct curve_line_params as [_ F]. destruct (F c (hray x0 x y)) as [_ F']. rewrite F'.
  unfold ix_t1, ix_t2. split.
  - intros [[t [Ht ->]] W]. unfold cubic_ix in *. cbn [fst snd] in W. rewrite hray_tOfPoint in * by exact Hray.
    apply andb_true_iff in W. destruct W as [W1 W2]. apply withinRange_R in W1. apply withinRange_R in W2.
    apply (cubic_curve_line_exact c (hray x0 x y) t (hray_distinct x0 x y N) Hg) in Ht. destruct Ht as [I C].
    apply (on_carrier_hray x0 x y _ N) in C. exists t. repeat split; try assumption; lra.
  - intros [t (I & C & W2 & ->)]. split.
    + exists t. split; [|unfold cubic_ix; rewrite hray_tOfPoint by exact Hray; reflexivity].
      apply (cubic_curve_line_exact c (hray x0 x y) t (hray_distinct x0 x y N) Hg). split; [lra|].
      apply (on_carrier_hray x0 x y _ N). exact C.
    + cbn [fst snd]. apply andb_true_iff. split; apply withinRange_R; lra.
Qed.

(** E2. The same for a quadratic segment (positive discriminant and not nearly linear in the ray's frame, or exactly
    linear there). *)
Theorem quad_ray_hits_partial (c : seg3 R) (x0 x y : R) (i : ixn) :
  isclose ROps x0 x = false ->
  let c' := Quad_transformed ROps c (Line_alignmentTransformation ROps (hray x0 x y)) in
  (1 / 1000000000 * Rabs (quad_b c') < Rabs (quad_a c') /\ 0 < quad_b c' * quad_b c' - 4 * quad_a c' * quad_c c')
  \/ (quad_a c' = 0 /\ quad_b c' <> 0) ->
  (In i (seg_ray_intersections ROps (SQuad c) (hray x0 x y)) <->
   exists t, my_eps <= t <= 1 /\ py (Quad_pointAtTime ROps c t) = y /\
     my_eps <= rt x0 x (px (Quad_pointAtTime ROps c t)) <= 1 + my_eps /\
     i = (t, Quad_pointAtTime ROps c t, rt x0 x (px (Quad_pointAtTime ROps c t)))).
Proof.
  intros Hray c' Hg. pose proof (isclose_false_neq _ _ Hray) as N0. assert (N : x - x0 <> 0) by lra.
  pose proof my_eps_pos as He.
  unfold seg_ray_intersections, seg_ray_raw. rewrite filter_In.
  destruct curve_line_params as [F _]. destruct (F c (hray x0 x y)) as [_ F']. rewrite F'.
  unfold ix_t1, ix_t2. split.
  - intros [[t [Ht ->]] W]. unfold quad_ix in *. cbn [fst snd] in W. rewrite hray_tOfPoint in * by exact Hray.
    apply andb_true_iff in W. destruct W as [W1 W2]. apply withinRange_R in W1. apply withinRange_R in W2.
    apply (quad_curve_line_exact c (hray x0 x y) t (hray_distinct x0 x y N) Hg) in Ht. destruct Ht as [I C].
    apply (on_carrier_hray x0 x y _ N) in C. exists t. repeat split; try assumption; lra.
  - intros [t (I & C & W2 & ->)]. split.
    + exists t. split; [|unfold quad_ix; rewrite hray_tOfPoint by exact Hray; reflexivity].
      apply (quad_curve_line_exact c (hray x0 x y) t (hray_distinct x0 x y N) Hg). split; [lra|].
      apply (on_carrier_hray x0 x y _ N). exact C.
    + cbn [fst snd]. apply andb_true_iff. split; apply withinRange_R; lra.
Qed.
