(* Bridge, fifth part: the path-level drivers moved under the translator in the fifth round (Gen/PathOps.v).

   1. BezierPath.flatten (property C17) and signed_area / area / direction (property C10).
      Hand/Sample.v: [path_flatten O cap segs closed degree = bind (mapM (seg_flatten ..) segs) (fun ls => Ok (concat ls, closed))] over
      tagged segments [tseg] (a segment with its `_orig`), results in [res]; Hand/Shoelace.v: the shoelace sum over a list of Lines.
      Gen/PathOps.v, REGENERATED from path/__init__.py: [Path_flatten O fuel (segs, closed) degree], the path as the pair
      (segments with their `_orig`, closed), the loop `for s in self.asSegments(): segs.extend(s.flatten(degree))` as a
      [fold_option_outcome] that appends, the class-dependent call `s.flatten(degree)` as a match whose arms (Gen/Sample.v's
      Line_flatten / Quad_flatten / Cubic_flatten) are lifted to [option (outcome _)]; [Path_signed_area] = the fold of the loop body over
      the edges of [Path_flatten .. 8], halved.  For EVERY scalar carrier:

          res_of (Path_flatten O fuel (segs, closed) degree)
            = bind (mapM (fun s => res_of (gen_seg_flatten O fuel s degree)) segs) (fun ls => Ok (concat ls, closed))      [Path_flatten_fuel_gen]
          path_flatten O cap segs closed degree = res_of (Path_flatten O fuel (segs, closed) degree)                          [path_flatten_gen]
          Path_signed_area O fuel p = after_flatten O fuel p (signed_area_lines O)     (area_lines, direction_lines alike)  [Path_signed_area_gen ..]

      the first unconditionally (same list, same exception, out of fuel on one side iff on the other), the second under the hypotheses
      of Bridge2.seg_flatten_gen for every segment ([flatten_ok]: degree <> 0 and length / degree <> 0 -- the hand model has
      ZeroDivisionError, Gen the total [dvd] --; the generated fuel covers the fuel the hand model computes; the hand model does not run
      out of fuel).

   (Preliminary for 3, placed here because it is about Hand/Sample.v's loops: [gen_seg_sample_times], the generated X_sample of the three
   classes computes Hand/MinDist.v's [sample], for every number of samples.)

   2. BooleanOperationsMixin.getSelfIntersections (property C06).  Hand/CurveCurve.v: [self_intersections] -- [loop_reports], then
      structural loops over the tails of the segment list, the reports tagged with the INDICES of seg1 and seg2 ([sx]).  Gen/PathOps.v:
      [Path_getSelfIntersections], the loops over `range(0, len(segs))` / `range(i1 + 1, len(segs))` with `segs[i1]`, `segs[i2]` as
      [py_index_Z] (IndexError is a value of the generated definition; by the theorem it cannot occur), `segs[i1].intersections(segs[i2])`
      as a match on both classes, `seg.hasLoop` as [None] for lines and quadratics, the Intersections carrying BOTH their segments as VALUES
      ([_ixss] variants of the intersection kernels, related to the plain ones of Gen/CurveCurve.v by [ix_XY_ixss]).  The relation: the
      generated list is the hand model's with every index replaced by the segment at that index,

          result_of (Path_getSelfIntersections O key2 keq fuel segs)
            = bind (self_intersections O key2 (flip keq) fuel segs) (fun l => Ok (map (resolve d segs) l))          [getSelfIntersections_gen]

      for every default d of [nth] ([self_intersections_indices]: every reported index is below len(segs)) -- the same list, the same
      error, out of fuel on one side iff on the other; [flip] as in Bridge4 (it disappears for a symmetric key equality:
      [getSelfIntersections_gen_sym], [getSelfIntersections_gen_float]).

   3. BezierPath.distanceToPath (property C20).  Hand/MinDist.v: [distanceToPath_gen cd sfuel samples segs1 segs2] with the state wrapped
      in [res], `closestPair` unbound as [UnboundErr].  Gen/PathOps.v: [Path_distanceToPath O fuel segs1 segs2 samples] -- ONE fuel for the
      sampling loops and the recursion of minDist, nested [fold_option_outcome], `closestPair` as an option that is [None] while the
      variable is unbound ([Raises PyUnboundLocalError], the constructor added to [pyexc] in this round), `min([..])` of an empty list as
      [Raises PyValueError], curveDistance dispatched on both classes.  [dp_rel]: the same value, or the same kind of failure.

          segs2 <> [] -> dp_rel (Path_distanceToPath O fuel segs1 segs2 (ofZ O z)) (distanceToPath_gen O (curveDistance O fuel) fuel z segs1 segs2)
          segs2 = []  -> the hand model is UnboundErr; the generated definition is Raises PyUnboundLocalError, or None          [distanceToPath_bridge]

      A DIFFERENCE, in fuel only: the hand model samples s1 INSIDE the inner loop (so never, when the other path is empty), Python --
      and the generated definition -- before it.  When the other path is empty and s1.sample(samples) does not terminate within the fuel
      (in Python: never terminates, e.g. samples = -1), the hand model says UnboundLocalError and the generated definition runs out of
      fuel; everywhere else the two agree exactly.  [distanceToPath_bridge_default]: Hand.MinDist.distanceToPath (samples = 10, the sampling
      loops on 32 iterations) for every fuel >= 32, on both carriers ([distanceToPath_bridge_R], [distanceToPath_bridge_F]). *)
From Coq Require Import PrimFloat.
From Coq Require Import ZArith List Bool Lia.
Import ListNotations.
From BZ Require Import Base.Ops Gen.Point Gen.BBox Gen.Line Gen.Quad Gen.Cubic Gen.CurveDist Gen.Sample Gen.Nodelist Gen.Split Gen.CurveCurve Gen.MinDist Gen.PathOps.
From BZ Require Hand.MinDist Hand.CurveCurve.
From BZ Require Import Hand.Shoelace Hand.Sample Proofs.Bridge2.

(* ====================================================================================================== *)
(* 1. BezierPath.flatten; signed_area / area / direction                                                   *)
Section FlattenBridge5.
Context {T : Type} (O : Ops T).

(* the generated definition, with the class dispatch named as in Bridge2 ([gen_seg_flatten]) *)
Lemma Path_flatten_unfold fuel (p : list (segment T * option (segment T)) * bool) degree :
  Path_flatten O fuel p degree =
  match fold_option_outcome (fun acc s => match gen_seg_flatten O fuel s degree with
                                          | None => None | Some (Raises e) => Some (Raises e) | Some (Returns r) => Some (Returns (acc ++ r)) end)
                            (fst p) [] with
  | None => None | Some (Raises e) => Some (Raises e) | Some (Returns l) => Some (Returns (l, snd p)) end.
Proof. reflexivity. Qed.

(* a fold that appends what each step returns, against mapM / concat *)
Lemma fold_append_mapM {A B : Type} (f : A -> option (outcome (list B))) (l : list A) : forall acc,
  res_of (fold_option_outcome (fun acc s => match f s with None => None | Some (Raises e) => Some (Raises e) | Some (Returns r) => Some (Returns (acc ++ r)) end) l acc)
  = bind (mapM (fun s => res_of (f s)) l) (fun ls => Ok (acc ++ concat ls)).
Proof.
  induction l as [|s l IH]; intro acc.
  - cbn. rewrite app_nil_r. reflexivity.
  - cbn [fold_option_outcome mapM]. destruct (f s) as [[r|e]|]; cbn [res_of res_of_outcome bind]; [|reflexivity|reflexivity].
    rewrite IH. destruct (mapM (fun s0 => res_of (f s0)) l) as [ls|e]; cbn [bind concat]; [|reflexivity]. rewrite app_assoc. reflexivity.
Qed.

Theorem Path_flatten_fuel_gen fuel (segs : list (segment T * option (segment T))) (closed : bool) (degree : T) :
  res_of (Path_flatten O fuel (segs, closed) degree)
  = bind (mapM (fun s => res_of (gen_seg_flatten O fuel s degree)) segs) (fun ls => Ok (concat ls, closed)).
Proof.
  rewrite Path_flatten_unfold. cbn [fst snd].
  pose proof (fold_append_mapM (fun s => gen_seg_flatten O fuel s degree) segs []) as H.
  destruct (fold_option_outcome _ segs []) as [[l|e]|]; cbn [res_of res_of_outcome] in *;
    destruct (mapM (fun s => res_of (gen_seg_flatten O fuel s degree)) segs) as [ls|e']; cbn [bind app] in *; congruence.
Qed.

Lemma mapM_ext_Forall {A B : Type} (P : A -> Prop) (f g : A -> res B) (l : list A) :
  (forall a, P a -> f a = g a) -> Forall P l -> mapM f l = mapM g l.
Proof. intros H F. induction F as [|a l Pa _ IH]; [reflexivity|]. cbn [mapM]. rewrite (H a Pa), IH. reflexivity. Qed.

Hypothesis lits : lit_ok O.

(* what Bridge2.seg_flatten_gen asks of one segment *)
Definition flatten_ok (cap fuel : nat) (degree : T) (s : segment T * option (segment T)) : Prop :=
  eqb O (dvd O (seg_length O (fst s)) degree) (zero O) = false /\
  (fuel_of O cap (seg_length O (fst s)) + 3 <= fuel)%nat /\ (fuel_of O cap (dvd O (seg_length O (fst s)) degree) + 3 <= fuel)%nat /\
  finished (seg_flatten O cap s degree).

Theorem path_flatten_gen cap (segs : list (segment T * option (segment T))) (closed : bool) (degree : T) fuel :
  eqb O degree (zero O) = false -> Forall (flatten_ok cap fuel degree) segs ->
  path_flatten O cap segs closed degree = res_of (Path_flatten O fuel (segs, closed) degree).
Proof.
  intros Hd F. rewrite Path_flatten_fuel_gen. unfold path_flatten. f_equal.
  apply (mapM_ext_Forall (flatten_ok cap fuel degree)); [|exact F].
  intros s (Hs & H1 & H2 & Hf). apply (seg_flatten_gen O lits cap s degree fuel Hd Hs H1 H2 Hf).
Qed.

(* ---------- signed_area / area / direction: the shoelace sum over the edges of self.flatten() (degree 8, the default) ---------- *)
Lemma shoelace_fold (es : list (seg2 T * option (segment T))) : forall a,
  fold_left (fun acc s => sub O (add O acc (mul O (px (l0 (fst s))) (py (l1 (fst s))))) (mul O (py (l0 (fst s))) (px (l1 (fst s))))) es a
  = fold_left (shoelace_step O) (map fst es) a.
Proof. induction es as [|e es IH]; intro a; [reflexivity|]. cbn [fold_left map]. rewrite IH. reflexivity. Qed.

Definition lines_of (f : list (seg2 T * option (segment T)) * bool) : list (seg2 T) := map fst (fst f).
Definition after_flatten (fuel : nat) (p : list (segment T * option (segment T)) * bool) (k : list (seg2 T) -> T) : option (outcome T) :=
  match Path_flatten O fuel p (ofZ O 8) with
  | None => None | Some (Raises e) => Some (Raises e) | Some (Returns f) => Some (Returns (k (lines_of f)))
  end.

Theorem Path_signed_area_gen fuel p : Path_signed_area O fuel p = after_flatten fuel p (signed_area_lines O).
Proof.
  unfold Path_signed_area, after_flatten. destruct (Path_flatten O fuel p (ofZ O 8)) as [[f|e]|]; try reflexivity.
  cbv zeta. rewrite shoelace_fold. reflexivity.
Qed.
Theorem Path_area_gen fuel p : Path_area O fuel p = after_flatten fuel p (area_lines O).
Proof. unfold Path_area. rewrite Path_signed_area_gen. unfold after_flatten. destruct (Path_flatten O fuel p (ofZ O 8)) as [[f|e]|]; reflexivity. Qed.
Theorem Path_direction_gen fuel p : Path_direction O fuel p = after_flatten fuel p (direction_lines O).
Proof. unfold Path_direction. rewrite Path_signed_area_gen. unfold after_flatten. destruct (Path_flatten O fuel p (ofZ O 8)) as [[f|e]|]; reflexivity. Qed.

(* against the hand model of flatten: the polygon handed to Hand/Shoelace.v is the list of edges of Hand.Sample.path_flatten *)
Corollary signed_area_hand cap segs closed fuel (k : list (seg2 T) -> T) :
  eqb O (ofZ O 8) (zero O) = false -> Forall (flatten_ok cap fuel (ofZ O 8)) segs ->
  res_of (after_flatten fuel (segs, closed) k) = bind (path_flatten O cap segs closed (ofZ O 8)) (fun f => Ok (k (lines_of f))).
Proof.
  intros Hd F. rewrite (path_flatten_gen cap segs closed (ofZ O 8) fuel Hd F). unfold after_flatten.
  destruct (Path_flatten O fuel (segs, closed) (ofZ O 8)) as [[f|e]|]; reflexivity.
Qed.
End FlattenBridge5.

(* ====================================================================================================== *)
(* (for 3) SampleMixin.sample on a segment, as Hand/MinDist.v models it ([sample_times]: the list of parameters, then map): the generated  *)
(*     X_sample of Gen/Sample.v computes the same list, for every number of samples ([lit_ok]: the literals 1.0 / 0.0 of the Python     *)
(*     text are the integers 1 / 0 of the hand model).  Through Bridge2.sample_loop_spec.                                            *)
Section SampleTimes.
Context {T : Type} (O : Ops T).
Hypothesis lits : lit_ok O.

Lemma sample_loop_times (f : T -> pt T) : forall fuel step t,
  sample_loop O (fun t => Ok (f t)) fuel step t
  = match Hand.MinDist.sample_times O fuel t step with Some ts => Ok (map f ts) | None => Raise OutOfFuel end.
Proof.
  induction fuel as [|n IH]; intros step t; [reflexivity|].
  cbn [sample_loop Hand.MinDist.sample_times]. unfold one. destruct (leb O t (ofZ O 1)).
  - cbn [bind]. rewrite IH. destruct (Hand.MinDist.sample_times O n (add O t step) step); reflexivity.
  - destruct (neqb O t (ofZ O 1)); reflexivity.
Qed.

Section Generic.
Variable pa : T -> pt T.
Variable loop : nat -> T -> list (pt T) -> T -> option (list (pt T) * T).
Hypothesis loop_eq : forall fuel step acc t,
  loop fuel step acc t =
  match fuel with
  | 0%nat => None
  | S f => if leb O t (lit O 1 1 0x1p+0%float) then loop f step (acc ++ [pa t]) (add O t step) else Some (acc, t)
  end.
Variable gsample : nat -> T -> option (list (pt T)).
Hypothesis gsample_eq : forall fuel samples,
  gsample fuel samples =
  match loop fuel (dvd O (lit O 1 1 0x1p+0%float) samples) [] (lit O 0 1 0x0p+0%float) with
  | None => None
  | Some (l, t) => Some (if neqb O t (lit O 1 1 0x1p+0%float) then l ++ [pa (ofZ O 1)] else l)
  end.

Lemma sample_times_generic fuel samples :
  gsample fuel samples
  = match Hand.MinDist.sample_times O fuel (ofZ O 0) (dvd O (ofZ O 1) samples) with Some ts => Some (map pa ts) | None => None end.
Proof.
  rewrite gsample_eq.
  pose proof (sample_loop_spec O lits pa loop loop_eq fuel (dvd O (lit O 1 1 0x1p+0%float) samples) [] (lit O 0 1 0x0p+0%float)) as H.
  rewrite sample_loop_times in H. destruct lits as [L1 L0]. rewrite L1, L0 in *.
  destruct (loop fuel (dvd O (ofZ O 1) samples) [] (ofZ O 0)) as [[l t]|].
  - destruct H as [mid [-> H]]. cbn [app] in *.
    destruct (Hand.MinDist.sample_times O fuel (ofZ O 0) (dvd O (ofZ O 1) samples)) as [ts|]; [|discriminate].
    injection H as ->. unfold one. destruct (neqb O t (ofZ O 1)); [reflexivity|rewrite app_nil_r; reflexivity].
  - destruct (Hand.MinDist.sample_times O fuel (ofZ O 0) (dvd O (ofZ O 1) samples)); [discriminate|reflexivity].
Qed.
End Generic.

Theorem gen_seg_sample_times fuel (s : segment T) (z : Z) :
  gen_seg_sample O fuel s (ofZ O z) = Hand.MinDist.sample O fuel z s.
Proof.
  unfold Hand.MinDist.sample. destruct s as [l|q|c]; cbn [gen_seg_sample Hand.MinDist.seg_point].
  - apply (sample_times_generic (Line_pointAtTime O l) (fun fuel step acc t => Line_sample_loop1 O fuel l step acc t)
             ltac:(intros [|?] ? ? ?; reflexivity) (fun fuel samples => Line_sample O fuel l samples) ltac:(intros; reflexivity)).
  - apply (sample_times_generic (Quad_pointAtTime O q) (fun fuel step acc t => Quad_sample_loop1 O fuel q step acc t)
             ltac:(intros [|?] ? ? ?; reflexivity) (fun fuel samples => Quad_sample O fuel q samples) ltac:(intros; reflexivity)).
  - apply (sample_times_generic (Cubic_pointAtTime O c) (fun fuel step acc t => Cubic_sample_loop1 O fuel c step acc t)
             ltac:(intros [|?] ? ? ?; reflexivity) (fun fuel samples => Cubic_sample O fuel c samples) ltac:(intros; reflexivity)).
Qed.
End SampleTimes.

(* ====================================================================================================== *)
(* 2. BooleanOperationsMixin.getSelfIntersections                                                           *)
From BZ Require Import Proofs.Bridge Proofs.Bridge4 Hand.Bounds Hand.CurveCurve.

(* map over the value of a fuelled result that may raise *)
Definition omap {A B : Type} (f : A -> B) (x : option (outcome A)) : option (outcome B) :=
  match x with None => None | Some (Raises e) => Some (Raises e) | Some (Returns v) => Some (Returns (f v)) end.
Lemma result_of_omap {A B : Type} (f : A -> B) (x : option (outcome A)) :
  result_of (omap f x) = Hand.CurveCurve.bind (result_of x) (fun v => Hand.CurveCurve.Ok (f v)).
Proof. destruct x as [[v|e]|]; reflexivity. Qed.
Lemma result_of_bind_match {A B : Type} (x : option (outcome A)) (k : A -> option (outcome B)) :
  result_of (match x with None => None | Some (Raises e) => Some (Raises e) | Some (Returns a) => k a end)
  = Hand.CurveCurve.bind (result_of x) (fun a => result_of (k a)).
Proof. destruct x as [[a|e]|]; reflexivity. Qed.
Lemma bind_assoc {A B C : Type} (m : result A) (f : A -> result B) (g : B -> result C) :
  Hand.CurveCurve.bind (Hand.CurveCurve.bind m f) g = Hand.CurveCurve.bind m (fun x => Hand.CurveCurve.bind (f x) g).
Proof. destruct m; reflexivity. Qed.
Lemma bind_ext' {A B : Type} (r : result A) (f g : A -> result B) : (forall x, f x = g x) -> Hand.CurveCurve.bind r f = Hand.CurveCurve.bind r g.
Proof. intro H. destruct r; cbn [Hand.CurveCurve.bind]; [apply H|reflexivity]. Qed.

Section SelfIntersectionsBridge.
Context {T : Type} (O : Ops T).
Context {K : Type} (key2 : T -> K) (keq : K -> K -> bool).

Local Notation ix := (T * pt T * T)%type.
Local Notation sxx := (segment T * segment T * (T * pt T * T))%type.      (* a generated Intersection: seg1, seg2, (t1, point, t2) *)

(* an Intersection together with its two segments *)
Definition tagw (a b : segment T) (l : list ix) : list sxx := map (fun i => (a, b, i)) l.

(* ---------- (a) the _ixss variants of the intersection kernels pair every Intersection with the two segments ---------- *)
Lemma ll_ixss (l r : seg2 T) :
  Line__line_line_intersections_ixss O l r = tagw (SLine l) (SLine r) (Line__line_line_intersections O l r).
Proof.
  unfold Line__line_line_intersections_ixss, Line__line_line_intersections, tagw. cbv zeta.
  repeat match goal with |- context [if ?c then _ else _] => destruct c end; reflexivity.
Qed.
Lemma ql_ixss (q : seg3 T) (r : seg2 T) :
  Quad__curve_line_intersections_ixss O q r = tagw (SQuad q) (SLine r) (Quad__curve_line_intersections O q r).
Proof.
  unfold Quad__curve_line_intersections_ixss, Quad__curve_line_intersections, tagw. cbv zeta.
  rewrite (fold_left_append_map (fun t => (SQuad q, SLine r, (t, Quad_pointAtTime O q t, Line_tOfPoint O r (Quad_pointAtTime O q t) true)))).
  rewrite (fold_left_append_map (fun t => (t, Quad_pointAtTime O q t, Line_tOfPoint O r (Quad_pointAtTime O q t) true))).
  cbn [app]. rewrite map_map. reflexivity.
Qed.
Lemma cl_ixss (c : seg4 T) (r : seg2 T) :
  Cubic__curve_line_intersections_ixss O c r = tagw (SCubic c) (SLine r) (Cubic__curve_line_intersections O c r).
Proof.
  unfold Cubic__curve_line_intersections_ixss, Cubic__curve_line_intersections, tagw. cbv zeta.
  rewrite (fold_left_append_map (fun t => (SCubic c, SLine r, (t, Cubic_pointAtTime O c t, Line_tOfPoint O r (Cubic_pointAtTime O c t) true)))).
  rewrite (fold_left_append_map (fun t => (t, Cubic_pointAtTime O c t, Line_tOfPoint O r (Cubic_pointAtTime O c t) true))).
  cbn [app]. rewrite map_map. reflexivity.
Qed.

Ltac cc_ixss gen1 gen2 :=
  intros; unfold gen1, gen2, tagw;
  match goal with |- match ?x with _ => _ end = _ => destruct x as [[?|?]|] end; cbn [omap]; [rewrite map_map|..]; reflexivity.
Lemma cc_QQ_ixss fuel (a b : seg3 T) : Quad__curve_curve_intersections_Quad_ixss O key2 keq fuel a b
  = omap (tagw (SQuad a) (SQuad b)) (Quad__curve_curve_intersections_Quad O key2 keq fuel a b).
Proof. cc_ixss (@Quad__curve_curve_intersections_Quad_ixss) (@Quad__curve_curve_intersections_Quad). Qed.
Lemma cc_CQ_ixss fuel (a : seg4 T) (b : seg3 T) : Cubic__curve_curve_intersections_Quad_ixss O key2 keq fuel a b
  = omap (tagw (SCubic a) (SQuad b)) (Cubic__curve_curve_intersections_Quad O key2 keq fuel a b).
Proof. cc_ixss (@Cubic__curve_curve_intersections_Quad_ixss) (@Cubic__curve_curve_intersections_Quad). Qed.
Lemma cc_CC_ixss fuel (a b : seg4 T) : Cubic__curve_curve_intersections_Cubic_ixss O key2 keq fuel a b
  = omap (tagw (SCubic a) (SCubic b)) (Cubic__curve_curve_intersections_Cubic O key2 keq fuel a b).
Proof. cc_ixss (@Cubic__curve_curve_intersections_Cubic_ixss) (@Cubic__curve_curve_intersections_Cubic). Qed.

(* ---------- `intersections` for the nine pairs of classes: the swap "arrange by degree" decides which segment is seg1 ---------- *)
(* the closure withinRange, as the generated text writes it, on a tagged Intersection and on a plain one *)
Ltac ix_pure gen1 gen2 lem :=
  intros; unfold gen1, gen2; cbv zeta; rewrite lem;
  match goal with l : bool |- _ => destruct l end; [apply filter_map_comm; intro; reflexivity|reflexivity].
Lemma ix_LL_ixss (a b : seg2 T) (limited : bool) :
  Line_intersections_Line_ixss O a b limited = tagw (SLine a) (SLine b) (Line_intersections_Line O a b limited).
Proof. ix_pure (@Line_intersections_Line_ixss) (@Line_intersections_Line) ll_ixss. Qed.
Lemma ix_LQ_ixss (a : seg2 T) (b : seg3 T) (limited : bool) :
  Line_intersections_Quad_ixss O a b limited = tagw (SQuad b) (SLine a) (Line_intersections_Quad O a b limited).
Proof. ix_pure (@Line_intersections_Quad_ixss) (@Line_intersections_Quad) ql_ixss. Qed.
Lemma ix_LC_ixss (a : seg2 T) (b : seg4 T) (limited : bool) :
  Line_intersections_Cubic_ixss O a b limited = tagw (SCubic b) (SLine a) (Line_intersections_Cubic O a b limited).
Proof. ix_pure (@Line_intersections_Cubic_ixss) (@Line_intersections_Cubic) cl_ixss. Qed.
Lemma ix_QL_ixss (a : seg3 T) (b : seg2 T) (limited : bool) :
  Quad_intersections_Line_ixss O a b limited = tagw (SQuad a) (SLine b) (Quad_intersections_Line O a b limited).
Proof. ix_pure (@Quad_intersections_Line_ixss) (@Quad_intersections_Line) ql_ixss. Qed.
Lemma ix_CL_ixss (a : seg4 T) (b : seg2 T) (limited : bool) :
  Cubic_intersections_Line_ixss O a b limited = tagw (SCubic a) (SLine b) (Cubic_intersections_Line O a b limited).
Proof. ix_pure (@Cubic_intersections_Line_ixss) (@Cubic_intersections_Line) cl_ixss. Qed.

Ltac ix_cc gen1 gen2 lem :=
  intros; unfold gen1, gen2; rewrite lem;
  match goal with |- match omap _ ?x with _ => _ end = _ => destruct x as [[?|?]|] end; cbn [omap]; [|reflexivity|reflexivity];
  match goal with l : bool |- _ => destruct l end; cbn [omap]; [do 2 f_equal; apply filter_map_comm; intro; reflexivity|reflexivity].
Lemma ix_QQ_ixss fuel (a b : seg3 T) (limited : bool) :
  Quad_intersections_Quad_ixss O key2 keq fuel a b limited = omap (tagw (SQuad a) (SQuad b)) (Quad_intersections_Quad O key2 keq fuel a b limited).
Proof. ix_cc (@Quad_intersections_Quad_ixss) (@Quad_intersections_Quad) cc_QQ_ixss. Qed.
Lemma ix_QC_ixss fuel (a : seg3 T) (b : seg4 T) (limited : bool) :
  Quad_intersections_Cubic_ixss O key2 keq fuel a b limited = omap (tagw (SCubic b) (SQuad a)) (Quad_intersections_Cubic O key2 keq fuel a b limited).
Proof. ix_cc (@Quad_intersections_Cubic_ixss) (@Quad_intersections_Cubic) cc_CQ_ixss. Qed.
Lemma ix_CQ_ixss fuel (a : seg4 T) (b : seg3 T) (limited : bool) :
  Cubic_intersections_Quad_ixss O key2 keq fuel a b limited = omap (tagw (SCubic a) (SQuad b)) (Cubic_intersections_Quad O key2 keq fuel a b limited).
Proof. ix_cc (@Cubic_intersections_Quad_ixss) (@Cubic_intersections_Quad) cc_CQ_ixss. Qed.
Lemma ix_CC_ixss fuel (a b : seg4 T) (limited : bool) :
  Cubic_intersections_Cubic_ixss O key2 keq fuel a b limited = omap (tagw (SCubic a) (SCubic b)) (Cubic_intersections_Cubic O key2 keq fuel a b limited).
Proof. ix_cc (@Cubic_intersections_Cubic_ixss) (@Cubic_intersections_Cubic) cc_CC_ixss. Qed.

(* ---------- (b) segs[i1].intersections(segs[i2]) on two segments of unknown class, as the generated text dispatches it ---------- *)
Variable fuel : nat.
Definition gen_ix (x y : segment T) : option (outcome (list sxx)) :=
  match x with
  | SLine s0_ => match y with SLine s1_ => Some (Returns (Line_intersections_Line_ixss O s0_ s1_ true))
                            | SQuad s1_ => Some (Returns (Line_intersections_Quad_ixss O s0_ s1_ true))
                            | SCubic s1_ => Some (Returns (Line_intersections_Cubic_ixss O s0_ s1_ true)) end
  | SQuad s0_ => match y with SLine s1_ => Some (Returns (Quad_intersections_Line_ixss O s0_ s1_ true))
                            | SQuad s1_ => Quad_intersections_Quad_ixss O key2 keq fuel s0_ s1_ true
                            | SCubic s1_ => Quad_intersections_Cubic_ixss O key2 keq fuel s0_ s1_ true end
  | SCubic s0_ => match y with SLine s1_ => Some (Returns (Cubic_intersections_Line_ixss O s0_ s1_ true))
                             | SQuad s1_ => Cubic_intersections_Quad_ixss O key2 keq fuel s0_ s1_ true
                             | SCubic s1_ => Cubic_intersections_Cubic_ixss O key2 keq fuel s0_ s1_ true end
  end.
(* seg1 / seg2 of the Intersections of x.intersections(y) *)
Definition first_seg (x y : segment T) : segment T := if swapped x y then y else x.
Definition second_seg (x y : segment T) : segment T := if swapped x y then x else y.

Theorem gen_ix_hand (x y : segment T) :
  result_of (gen_ix x y)
  = Hand.CurveCurve.bind (intersections O key2 (flip keq) fuel x y true) (fun l => Hand.CurveCurve.Ok (tagw (first_seg x y) (second_seg x y) l)).
Proof.
  destruct x as [a|a|a], y as [b|b|b]; cbn [gen_ix first_seg second_seg swapped order Nat.ltb Nat.leb].
  - rewrite ix_LL_ixss, <- (intersections_LL_gen O key2 keq fuel a b true). reflexivity.
  - rewrite ix_LQ_ixss, <- (intersections_LQ_gen O key2 keq fuel a b true). reflexivity.
  - rewrite ix_LC_ixss, <- (intersections_LC_gen O key2 keq fuel a b true). reflexivity.
  - rewrite ix_QL_ixss, <- (intersections_QL_gen O key2 keq fuel a b true). reflexivity.
  - rewrite ix_QQ_ixss, result_of_omap, (intersections_QQ_gen O key2 keq fuel a b true). reflexivity.
  - rewrite ix_QC_ixss, result_of_omap, (intersections_QC_gen O key2 keq fuel a b true). reflexivity.
  - rewrite ix_CL_ixss, <- (intersections_CL_gen O key2 keq fuel a b true). reflexivity.
  - rewrite ix_CQ_ixss, result_of_omap, (intersections_CQ_gen O key2 keq fuel a b true). reflexivity.
  - rewrite ix_CC_ixss, result_of_omap, (intersections_CC_gen O key2 keq fuel a b true). reflexivity.
Qed.

(* ---------- (c) the loops ---------- *)
(* the first loop: `loops = seg.hasLoop; if loops and 0 < loops[0] < 1 and 0 < loops[1] < 1: intersections.append(Intersection(seg, loops[0], seg, loops[1]))` *)
Definition gloop (acc : list sxx) (seg : segment T) : list sxx :=
  match (match seg with SLine _ => None | SQuad _ => None | SCubic s_ => Cubic_hasLoop O s_ end) with
  | None => acc
  | Some z => if andb (andb (andb (ltb O (ofZ O 0) (fst z)) (ltb O (fst z) (ofZ O 1))) (ltb O (ofZ O 0) (snd z))) (ltb O (snd z) (ofZ O 1))
              then acc ++ [(seg, seg, (fst z, match seg with SLine s_ => Line_pointAtTime O s_ (fst z) | SQuad s_ => Quad_pointAtTime O s_ (fst z)
                                                          | SCubic s_ => Cubic_pointAtTime O s_ (fst z) end, snd z))]
              else acc
  end.
(* `if i.t1 > 1e-2 and i.t1 < 1 - 1e-2: intersections.append(i)` over the Intersections of one pair *)
Definition t1f (x : sxx) : bool := t1_interior O (snd x).
Definition gfilt (l : list sxx) (acc : list sxx) : list sxx := fold_left (fun a i => if t1f i then a ++ [i] else a) l acc.
(* the bodies of `for i2 in range(i1 + 1, len(segs))` and of `for i1 in range(0, len(segs))` *)
Definition gin (segs : list (segment T)) (i1 : Z) (acc : list sxx) (i2 : Z) : option (outcome (list sxx)) :=
  match py_index_Z segs i1 with
  | None => Some (Raises PyIndexError)
  | Some x => match py_index_Z segs i2 with
              | None => Some (Raises PyIndexError)
              | Some y => match gen_ix x y with
                          | None => None
                          | Some (Raises e) => Some (Raises e)
                          | Some (Returns r) => Some (Returns (gfilt r acc))
                          end
              end
  end.
Definition gout (segs : list (segment T)) (acc : list sxx) (i1 : Z) : option (outcome (list sxx)) :=
  match fold_option_outcome (gin segs i1) (range_Z (i1 + 1) (Z.of_nat (length segs))) acc with
  | None => None | Some (Raises e) => Some (Raises e) | Some (Returns a) => Some (Returns a)
  end.

Lemma Path_getSelfIntersections_unfold (segs : list (segment T)) :
  Path_getSelfIntersections O key2 keq fuel segs =
  match fold_option_outcome (gout segs) (range_Z 0 (Z.of_nat (length segs))) (fold_left gloop segs []) with
  | None => None | Some (Raises e) => Some (Raises e) | Some (Returns a) => Some (Returns a)
  end.
Proof. reflexivity. Qed.

(* -- indices: range() of Python ints over a list, `segs[i]` -- *)
Lemma py_index_Z_nat {A : Type} (l : list A) (i : nat) : py_index_Z l (Z.of_nat i) = nth_error l i.
Proof. unfold py_index_Z. assert (E : (Z.of_nat i <? 0)%Z = false) by (apply Z.ltb_ge; lia). rewrite E, Nat2Z.id. reflexivity. Qed.
Lemma map_shift_seq : forall m s a, map (fun i => (Z.of_nat a + Z.of_nat i)%Z) (seq s m) = map Z.of_nat (seq (a + s) m).
Proof.
  induction m as [|m IH]; intros s a; [reflexivity|]. cbn [seq map]. rewrite <- Nat2Z.inj_add. f_equal.
  rewrite (IH (S s) a). replace (a + S s)%nat with (S (a + s)) by lia. reflexivity.
Qed.
Lemma range_Z_nat (a b : nat) : range_Z (Z.of_nat a) (Z.of_nat b) = map Z.of_nat (seq a (b - a)).
Proof.
  unfold range_Z. replace (Z.to_nat (Z.of_nat b - Z.of_nat a)) with (b - a)%nat by lia.
  rewrite map_shift_seq. rewrite Nat.add_0_r. reflexivity.
Qed.
Lemma nth_error_mid {A : Type} (pre : list A) (x : A) (r : list A) : nth_error (pre ++ x :: r) (length pre) = Some x.
Proof. rewrite nth_error_app2 by lia. rewrite Nat.sub_diag. reflexivity. Qed.

(* -- the generated loops, structurally: on the tail of the list that is still to be visited, the accumulator passed along -- *)
Fixpoint sinner (s1 : segment T) (rest : list (segment T)) (acc : list sxx) : option (outcome (list sxx)) :=
  match rest with
  | [] => Some (Returns acc)
  | s2 :: r => match gen_ix s1 s2 with
               | None => None | Some (Raises e) => Some (Raises e) | Some (Returns l) => sinner s1 r (gfilt l acc)
               end
  end.
Fixpoint souter (rest : list (segment T)) (acc : list sxx) : option (outcome (list sxx)) :=
  match rest with
  | [] => Some (Returns acc)
  | s1 :: r => match sinner s1 r acc with
               | None => None | Some (Raises e) => Some (Raises e) | Some (Returns a) => souter r a
               end
  end.

Lemma inner_struct (segs : list (segment T)) (i1 : nat) (s1 : segment T) : nth_error segs i1 = Some s1 ->
  forall (rest pre : list (segment T)) (acc : list sxx), segs = pre ++ rest ->
  fold_option_outcome (gin segs (Z.of_nat i1)) (map Z.of_nat (seq (length pre) (length rest))) acc = sinner s1 rest acc.
Proof.
  intro H1. induction rest as [|s2 r IH]; intros pre acc E; [reflexivity|].
  cbn [length seq map fold_option_outcome sinner]. unfold gin at 1. rewrite !py_index_Z_nat, H1.
  rewrite E at 1. rewrite nth_error_mid.
  destruct (gen_ix s1 s2) as [[l|e]|]; [|reflexivity|reflexivity].
  specialize (IH (pre ++ [s2]) (gfilt l acc)). rewrite app_length in IH. cbn [length] in IH.
  replace (length pre + 1)%nat with (S (length pre)) in IH by lia. apply IH. rewrite <- app_assoc. exact E.
Qed.
Lemma outer_struct (segs : list (segment T)) : forall (rest pre : list (segment T)) (acc : list sxx), segs = pre ++ rest ->
  fold_option_outcome (gout segs) (map Z.of_nat (seq (length pre) (length rest))) acc = souter rest acc.
Proof.
  induction rest as [|s1 r IH]; intros pre acc E; [reflexivity|].
  cbn [length seq map fold_option_outcome souter]. unfold gout at 1.
  replace (Z.of_nat (length pre) + 1)%Z with (Z.of_nat (S (length pre))) by lia. rewrite range_Z_nat.
  assert (Hl : (length segs - S (length pre))%nat = length r) by (rewrite E, app_length; cbn [length]; lia).
  assert (H1 : nth_error segs (length pre) = Some s1) by (rewrite E; apply nth_error_mid).
  assert (E' : segs = (pre ++ [s1]) ++ r) by (rewrite <- app_assoc; exact E).
  pose proof (inner_struct segs (length pre) s1 H1 r (pre ++ [s1]) acc E') as Hi.
  rewrite app_length in Hi. cbn [length] in Hi. replace (length pre + 1)%nat with (S (length pre)) in Hi by lia.
  rewrite Hl, Hi.
  destruct (sinner s1 r acc) as [[a|e]|]; [|reflexivity|reflexivity].
  specialize (IH (pre ++ [s1]) a E'). rewrite app_length in IH. cbn [length] in IH.
  replace (length pre + 1)%nat with (S (length pre)) in IH by lia. exact IH.
Qed.

(* -- against the hand model: its reports carry the INDICES of seg1 and seg2; [resolve] looks the segments up -- *)
Variable d : segment T.       (* any default for [nth]: every index the hand model reports is within the list *)
Definition resolve (segs : list (segment T)) (x : nat * nat * ix) : sxx := (nth (fst (fst x)) segs d, nth (snd (fst x)) segs d, snd x).

(* where the tail still to be visited sits in the list *)
Definition tail_at (segs rest : list (segment T)) (i : nat) : Prop := forall j, (j < length rest)%nat -> nth (i + j) segs d = nth j rest d.
Lemma tail_at_head segs s r i : tail_at segs (s :: r) i -> nth i segs d = s.
Proof. intro H. specialize (H 0%nat ltac:(cbn; lia)). rewrite Nat.add_0_r in H. exact H. Qed.
Lemma tail_at_tail segs s r i : tail_at segs (s :: r) i -> tail_at segs r (S i).
Proof. intros H j Hj. specialize (H (S j) ltac:(cbn [length]; lia)). replace (i + S j)%nat with (S i + j)%nat in H by lia. exact H. Qed.

Lemma gfilt_filter (l acc : list sxx) : gfilt l acc = acc ++ filter t1f l.
Proof.
  unfold gfilt. revert acc. induction l as [|x l IH]; intro acc; cbn [fold_left filter]; [rewrite app_nil_r; reflexivity|].
  rewrite IH. destruct (t1f x); [rewrite <- app_assoc; reflexivity|reflexivity].
Qed.
Lemma resolve_tag segs i1 i2 s1 s2 (l : list ix) : nth i1 segs d = s1 -> nth i2 segs d = s2 ->
  map (resolve segs) (tag i1 i2 s1 s2 l) = tagw (first_seg s1 s2) (second_seg s1 s2) l.
Proof.
  intros H1 H2. unfold tag, tagw, first_seg, second_seg. rewrite map_map. apply map_ext. intro i.
  destruct (swapped s1 s2); unfold resolve; cbn [fst snd]; rewrite H1, H2; reflexivity.
Qed.

Lemma filter_tagw (a b : segment T) (l : list ix) : filter t1f (tagw a b l) = tagw a b (filter (t1_interior O) l).
Proof. unfold tagw. apply filter_map_comm. intro; reflexivity. Qed.

Lemma sinner_hand segs i1 s1 : nth i1 segs d = s1 -> forall rest i2 acc, tail_at segs rest i2 ->
  result_of (sinner s1 rest acc)
  = Hand.CurveCurve.bind (inner_loop O key2 (flip keq) fuel i1 s1 i2 rest) (fun l => Hand.CurveCurve.Ok (acc ++ map (resolve segs) l)).
Proof.
  intro H1. induction rest as [|s2 r IH]; intros i2 acc Ht.
  - cbn. rewrite app_nil_r. reflexivity.
  - cbn [sinner inner_loop]. rewrite result_of_bind_match, gen_ix_hand, !bind_assoc. apply bind_ext'. intro li.
    cbn [Hand.CurveCurve.bind]. rewrite (IH (S i2) _ (tail_at_tail _ _ _ _ Ht)), bind_assoc. apply bind_ext'. intro l'.
    cbn [Hand.CurveCurve.bind]. rewrite gfilt_filter, map_app, (resolve_tag segs i1 i2 s1 s2 _ H1 (tail_at_head _ _ _ _ Ht)).
    rewrite filter_tagw, <- app_assoc. reflexivity.
Qed.
Lemma souter_hand segs : forall rest i1 acc, tail_at segs rest i1 ->
  result_of (souter rest acc)
  = Hand.CurveCurve.bind (outer_loop O key2 (flip keq) fuel i1 rest) (fun l => Hand.CurveCurve.Ok (acc ++ map (resolve segs) l)).
Proof.
  induction rest as [|s1 r IH]; intros i1 acc Ht.
  - cbn. rewrite app_nil_r. reflexivity.
  - cbn [souter outer_loop]. rewrite result_of_bind_match.
    rewrite (sinner_hand segs i1 s1 (tail_at_head _ _ _ _ Ht) r (S i1) acc (tail_at_tail _ _ _ _ Ht)), !bind_assoc. apply bind_ext'. intro l.
    cbn [Hand.CurveCurve.bind]. rewrite (IH (S i1) _ (tail_at_tail _ _ _ _ Ht)), bind_assoc. apply bind_ext'. intro l'.
    cbn [Hand.CurveCurve.bind]. rewrite map_app, app_assoc. reflexivity.
Qed.

(* the loop reports *)
Lemma gloop_hand segs i s acc : nth i segs d = s -> gloop acc s = acc ++ map (resolve segs) (loop_report O i s).
Proof.
  intro H. unfold gloop. destruct s as [l|q|c]; cbn [loop_report map]; try (rewrite app_nil_r; reflexivity).
  destruct (Cubic_hasLoop O c) as [[a b]|]; [|rewrite app_nil_r; reflexivity]. cbn [fst snd].
  destruct (ltb O (ofZ O 0) a && ltb O a (ofZ O 1) && ltb O (ofZ O 0) b && ltb O b (ofZ O 1)); [|rewrite app_nil_r; reflexivity].
  cbn [map]. unfold resolve. cbn [fst snd]. rewrite H. reflexivity.
Qed.
Lemma gloops_hand segs : forall rest i acc, tail_at segs rest i ->
  fold_left gloop rest acc = acc ++ map (resolve segs) (loop_reports O i rest).
Proof.
  induction rest as [|s r IH]; intros i acc Ht; cbn [fold_left loop_reports map]; [rewrite app_nil_r; reflexivity|].
  rewrite (IH (S i) _ (tail_at_tail _ _ _ _ Ht)), (gloop_hand segs i s acc (tail_at_head _ _ _ _ Ht)), map_app, app_assoc. reflexivity.
Qed.
Lemma tail_at_all segs : tail_at segs segs 0.
Proof. intros j _. reflexivity. Qed.

Theorem getSelfIntersections_gen (segs : list (segment T)) :
  result_of (Path_getSelfIntersections O key2 keq fuel segs)
  = Hand.CurveCurve.bind (self_intersections O key2 (flip keq) fuel segs) (fun l => Hand.CurveCurve.Ok (map (resolve segs) l)).
Proof.
  rewrite Path_getSelfIntersections_unfold.
  rewrite (result_of_bind_match _ (fun a => Some (Returns a))).
  rewrite range_Z_seq. rewrite (outer_struct segs segs [] _ eq_refl).
  rewrite (souter_hand segs segs 0 _ (tail_at_all segs)), (gloops_hand segs segs 0 [] (tail_at_all segs)).
  unfold self_intersections. rewrite !bind_assoc. apply bind_ext'. intro l. cbn [Hand.CurveCurve.bind app]. rewrite map_app. reflexivity.
Qed.

(* for a symmetric key equality -- "the two strings are equal" -- the flip disappears *)
Lemma self_intersections_ext (e1 e2 : K -> K -> bool) : (forall x y, e1 x y = e2 x y) ->
  forall segs, self_intersections O key2 e1 fuel segs = self_intersections O key2 e2 fuel segs.
Proof.
  intros H segs. unfold self_intersections. f_equal.
  assert (Hi : forall i1 s1 rest i2, inner_loop O key2 e1 fuel i1 s1 i2 rest = inner_loop O key2 e2 fuel i1 s1 i2 rest).
  { intros i1 s1 rest. induction rest as [|s2 r IH]; intro i2; [reflexivity|]. cbn [inner_loop].
    rewrite (intersections_ext O key2 e1 e2 H). apply bind_ext'. intro l. rewrite IH. reflexivity. }
  generalize 0%nat. induction segs as [|s1 r IH]; intro i1; [reflexivity|]. cbn [outer_loop]. rewrite Hi. apply bind_ext'. intro l. rewrite IH. reflexivity.
Qed.
Corollary getSelfIntersections_gen_sym (segs : list (segment T)) : (forall x y, keq x y = keq y x) ->
  result_of (Path_getSelfIntersections O key2 keq fuel segs)
  = Hand.CurveCurve.bind (self_intersections O key2 keq fuel segs) (fun l => Hand.CurveCurve.Ok (map (resolve segs) l)).
Proof. intro Hs. rewrite getSelfIntersections_gen. rewrite (self_intersections_ext (flip keq) keq (flip_sym keq Hs)). reflexivity. Qed.

(* every index the hand model reports is an index of the list: [resolve] never falls back on its default *)
Lemma inner_loop_indices i1 s1 : forall rest i2 l, inner_loop O key2 (flip keq) fuel i1 s1 i2 rest = Hand.CurveCurve.Ok l ->
  Forall (fun x : nat * nat * ix => (fst (fst x) = i1 \/ (i2 <= fst (fst x) < i2 + length rest)%nat) /\ (snd (fst x) = i1 \/ (i2 <= snd (fst x) < i2 + length rest)%nat)) l.
Proof.
  induction rest as [|s2 r IH]; intros i2 l H; cbn [inner_loop] in H.
  - injection H as <-. constructor.
  - destruct (intersections O key2 (flip keq) fuel s1 s2 true) as [li|]; [|discriminate]. cbn [Hand.CurveCurve.bind] in H.
    destruct (inner_loop O key2 (flip keq) fuel i1 s1 (S i2) r) as [l'|] eqn:E; [|discriminate]. injection H as <-.
    apply Forall_app. split.
    + unfold tag. apply Forall_forall. intros x Hx. apply in_map_iff in Hx. destruct Hx as [i [<- _]].
      cbn [length]. destruct (swapped s1 s2); cbn [fst snd]; split; first [left; reflexivity | right; lia].
    + specialize (IH (S i2) l' E). eapply Forall_impl; [|exact IH]. cbn [length]. intros x [[A|A] [B|B]]; split; first [left; assumption | right; lia].
Qed.
Lemma outer_loop_indices : forall rest i1 l, outer_loop O key2 (flip keq) fuel i1 rest = Hand.CurveCurve.Ok l ->
  Forall (fun x : nat * nat * ix => (i1 <= fst (fst x) < i1 + length rest)%nat /\ (i1 <= snd (fst x) < i1 + length rest)%nat) l.
Proof.
  induction rest as [|s1 r IH]; intros i1 l H; cbn [outer_loop] in H.
  - injection H as <-. constructor.
  - destruct (inner_loop O key2 (flip keq) fuel i1 s1 (S i1) r) as [l0|] eqn:E0; [|discriminate]. cbn [Hand.CurveCurve.bind] in H.
    destruct (outer_loop O key2 (flip keq) fuel (S i1) r) as [l'|] eqn:E; [|discriminate]. injection H as <-.
    apply Forall_app. split.
    + pose proof (inner_loop_indices i1 s1 r (S i1) l0 E0) as Hi. eapply Forall_impl; [|exact Hi]. cbn [length]. intros x [[A|A] [B|B]]; lia.
    + specialize (IH (S i1) l' E). eapply Forall_impl; [|exact IH]. cbn [length]. intros x [A B]; lia.
Qed.
Lemma loop_reports_indices : forall rest i,
  Forall (fun x : nat * nat * ix => (i <= fst (fst x) < i + length rest)%nat /\ (i <= snd (fst x) < i + length rest)%nat) (loop_reports O i rest).
Proof.
  induction rest as [|s r IH]; intro i; cbn [loop_reports]; [constructor|]. apply Forall_app. split.
  - destruct s as [?|?|c]; cbn [loop_report]; try constructor. destruct (Cubic_hasLoop O c) as [[a b]|]; [|constructor].
    destruct (_ && _); constructor; [cbn [fst snd length]; lia|constructor].
  - specialize (IH (S i)). eapply Forall_impl; [|exact IH]. cbn [length]. intros x [A B]; lia.
Qed.
Theorem self_intersections_indices (segs : list (segment T)) l : self_intersections O key2 (flip keq) fuel segs = Hand.CurveCurve.Ok l ->
  Forall (fun x : nat * nat * ix => (fst (fst x) < length segs)%nat /\ (snd (fst x) < length segs)%nat) l.
Proof.
  unfold self_intersections. destruct (outer_loop O key2 (flip keq) fuel 0 segs) as [l0|] eqn:E; [|discriminate]. cbn [Hand.CurveCurve.bind].
  intro H. injection H as <-. apply Forall_app. split.
  - pose proof (loop_reports_indices segs 0) as Hl. eapply Forall_impl; [|exact Hl]. intros x [A B]; lia.
  - pose proof (outer_loop_indices segs 0 l0 E) as Ho. eapply Forall_impl; [|exact Ho]. intros x [A B]; lia.
Qed.
End SelfIntersectionsBridge.

(* the instance the kernel cross-check runs: the exact binary64 key of "%.2f" % t1 *)
Theorem getSelfIntersections_gen_float (fuel : nat) (d : segment float) (segs : list (segment float)) :
  result_of (Path_getSelfIntersections FOps key2F keyF_eqb fuel segs)
  = Hand.CurveCurve.bind (self_intersections FOps key2F keyF_eqb fuel segs) (fun l => Hand.CurveCurve.Ok (map (resolve d segs) l)).
Proof. apply getSelfIntersections_gen_sym, keyF_eqb_sym. Qed.

(* ====================================================================================================== *)
(* 3. BezierPath.distanceToPath                                                                             *)
From BZ Require Import Proofs.Bridge4 Hand.MinDist.

(* the same value, or the same kind of failure: None (out of fuel) / IndexError (a D outside its table) / None where a number is needed /
   ValueError of min([]) / UnboundLocalError of closestPair; the generated definition raises nothing else *)
Definition dp_rel {A : Type} (g : option (outcome A)) (h : Hand.MinDist.res A) : Prop :=
  match g with
  | None => h = Hand.MinDist.OutOfFuel
  | Some (Returns v) => h = Hand.MinDist.Ok v
  | Some (Raises PyIndexError) => h = IndexErr
  | Some (Raises PyNoneError) => h = NoneErr
  | Some (Raises PyValueError) => h = EmptyErr
  | Some (Raises PyUnboundLocalError) => h = UnboundErr
  | Some (Raises _) => False
  end.

Section DistanceToPathBridge.
Context {T : Type} (O : Ops T).
Hypothesis lits : lit_ok O.
Variables (fuel : nat) (z : Z).

Local Notation state := (option T * option (segment T * segment T))%type.

(* s.sample(samples) of a segment of unknown class, as the generated text dispatches it *)
Definition gsample (s : segment T) : option (list (pt T)) :=
  match s with SLine s_ => Line_sample O fuel s_ (ofZ O z) | SQuad s_ => Quad_sample O fuel s_ (ofZ O z) | SCubic s_ => Cubic_sample O fuel s_ (ofZ O z) end.
Lemma gsample_hand (s : segment T) : gsample s = Hand.MinDist.sample O fuel z s.
Proof. exact (gen_seg_sample_times O lits fuel s z). Qed.

(* the body of the inner loop `for s2 in segs2`, samples1 already computed *)
Definition ginner (s1 : segment T) (samples1 : list (pt T)) : state -> segment T -> option (outcome state) :=
  fun '((md, cp) : state) s2 =>
  match gsample s2 with
  | None => None
  | Some samples2 =>
    match flat_map (fun p1 => map (fun p2 => Point_squareDistanceFrom O p1 p2) samples2) samples1 with
    | [] => Some (Raises PyValueError)
    | hd :: tl =>
      let d := fold_left (min2 O) tl hd in
      let '(md', cp') := (if (match md with None => true | Some m => orb (eqb O m (ofZ O 0)) (ltb O d m) end)
                          then (Some d, Some (s1, s2)) else (md, cp)) in
      Some (Returns (md', cp'))
    end
  end.
(* the body of the outer loop `for s1 in segs1` *)
Definition gouter (segs2 : list (segment T)) : state -> segment T -> option (outcome state) :=
  fun '((md, cp) : state) s1 =>
  match gsample s1 with
  | None => None
  | Some samples1 =>
    match fold_option_outcome (ginner s1 samples1) segs2 (md, cp) with
    | None => None
    | Some (Raises e) => Some (Raises e)
    | Some (Returns (md', cp')) => Some (Returns (md', cp'))
    end
  end.
(* curveDistance(closestPair[0], closestPair[1]) on two segments of unknown class *)
Definition gcd (a b : segment T) : option (outcome (T * T * T)) :=
  match a with
  | SLine s0_ => match b with SLine s1_ => curvedistance_curveDistance_Line_Line O fuel s0_ s1_ | SQuad s1_ => curvedistance_curveDistance_Line_Quad O fuel s0_ s1_
                            | SCubic s1_ => curvedistance_curveDistance_Line_Cubic O fuel s0_ s1_ end
  | SQuad s0_ => match b with SLine s1_ => curvedistance_curveDistance_Quad_Line O fuel s0_ s1_ | SQuad s1_ => curvedistance_curveDistance_Quad_Quad O fuel s0_ s1_
                            | SCubic s1_ => curvedistance_curveDistance_Quad_Cubic O fuel s0_ s1_ end
  | SCubic s0_ => match b with SLine s1_ => curvedistance_curveDistance_Cubic_Line O fuel s0_ s1_ | SQuad s1_ => curvedistance_curveDistance_Cubic_Quad O fuel s0_ s1_
                             | SCubic s1_ => curvedistance_curveDistance_Cubic_Cubic O fuel s0_ s1_ end
  end.

Lemma Path_distanceToPath_unfold (segs1 segs2 : list (segment T)) :
  Path_distanceToPath O fuel segs1 segs2 (ofZ O z) =
  match fold_option_outcome (gouter segs2) segs1 (None, None) with
  | None => None
  | Some (Raises e) => Some (Raises e)
  | Some (Returns (md, cp)) =>
    match cp with
    | None => Some (Raises PyUnboundLocalError)
    | Some u => match gcd (fst u) (snd u) with
                | None => None
                | Some (Raises e) => Some (Raises e)
                | Some (Returns r) => Some (Returns (fst (fst r), snd (fst r), snd r, fst u, snd u))
                end
    end
  end.
Proof. reflexivity. Qed.

(* ---- the hand model's folds keep an error once it has occurred ---- *)
Definition is_err {A : Type} (r : Hand.MinDist.res A) : Prop := match r with Hand.MinDist.Ok _ => False | _ => True end.
Lemma pair_step_err s1 (e : Hand.MinDist.res pair_state) s2 : is_err e -> pair_step O fuel z s1 e s2 = e.
Proof. destruct e; cbn; [contradiction|reflexivity..]. Qed.
Lemma inner_err s1 (e : Hand.MinDist.res pair_state) l : is_err e -> fold_left (pair_step O fuel z s1) l e = e.
Proof. intro H. induction l as [|s l IH]; [reflexivity|]. cbn [fold_left]. rewrite (pair_step_err s1 e s H). exact IH. Qed.
Lemma outer_err (segs2 : list (segment T)) (e : Hand.MinDist.res pair_state) l : is_err e ->
  fold_left (fun st s1 => fold_left (pair_step O fuel z s1) segs2 st) l e = e.
Proof. intro H. induction l as [|s l IH]; [reflexivity|]. cbn [fold_left]. rewrite (inner_err s e segs2 H). exact IH. Qed.
Lemma dp_rel_err {A : Type} (g : option (outcome A)) (h : Hand.MinDist.res A) : dp_rel g h -> (forall v, g <> Some (Returns v)) -> is_err h.
Proof. destruct g as [[v|[]]|]; cbn; intros H N; subst; cbn; try exact I; try contradiction. exfalso. exact (N v eq_refl). Qed.

(* ---- one step of the inner loop ---- *)
Lemma inner_step s1 samples1 (st : state) s2 : Hand.MinDist.sample O fuel z s1 = Some samples1 ->
  dp_rel (ginner s1 samples1 st s2) (pair_step O fuel z s1 (Hand.MinDist.Ok st) s2).
Proof.
  intro H1. destruct st as [md cp]. unfold ginner, pair_step. rewrite H1, gsample_hand.
  destruct (Hand.MinDist.sample O fuel z s2) as [samples2|]; [|reflexivity].
  destruct (flat_map _ samples1) as [|hd tl]; [reflexivity|]. cbn [list_min]. cbv zeta.
  destruct md as [m|]; cbn [truthy negb orb].
  - rewrite negb_involutive. destruct (eqb O m (ofZ O 0) || ltb O (fold_left (min2 O) tl hd) m); reflexivity.
  - reflexivity.
Qed.
Lemma inner_fold s1 samples1 (segs2 : list (segment T)) : Hand.MinDist.sample O fuel z s1 = Some samples1 -> forall st : state,
  dp_rel (fold_option_outcome (ginner s1 samples1) segs2 st) (fold_left (pair_step O fuel z s1) segs2 (Hand.MinDist.Ok st)).
Proof.
  intro H1. induction segs2 as [|s2 l IH]; intro st; [reflexivity|].
  cbn [fold_option_outcome fold_left]. pose proof (inner_step s1 samples1 st s2 H1) as Hs.
  destruct (ginner s1 samples1 st s2) as [[st'|e]|] eqn:E.
  - cbn [dp_rel] in Hs. rewrite Hs. apply IH.
  - rewrite (inner_err s1 _ l (dp_rel_err _ _ Hs ltac:(intros v; discriminate))). exact Hs.
  - rewrite (inner_err s1 _ l (dp_rel_err _ _ Hs ltac:(intros v; discriminate))). exact Hs.
Qed.

Lemma inner_nofuel s1 (segs2 : list (segment T)) (st : state) : Hand.MinDist.sample O fuel z s1 = None -> segs2 <> [] ->
  fold_left (pair_step O fuel z s1) segs2 (Hand.MinDist.Ok st) = Hand.MinDist.OutOfFuel.
Proof.
  intros H1 Hne. destruct segs2 as [|s2 r]; [contradiction|]. cbn [fold_left]. destruct st as [md cp].
  assert (E : pair_step O fuel z s1 (Hand.MinDist.Ok (md, cp)) s2 = Hand.MinDist.OutOfFuel) by (unfold pair_step; rewrite H1; reflexivity).
  rewrite E. apply inner_err. exact I.
Qed.

(* ---- the outer loop, the other path not empty: exact ---- *)
Lemma outer_fold (segs2 : list (segment T)) : segs2 <> [] -> forall (segs1 : list (segment T)) (st : state),
  dp_rel (fold_option_outcome (gouter segs2) segs1 st)
         (fold_left (fun st s1 => fold_left (pair_step O fuel z s1) segs2 st) segs1 (Hand.MinDist.Ok st)).
Proof.
  intro Hne. induction segs1 as [|s1 l IH]; intro st; [reflexivity|].
  cbn [fold_option_outcome fold_left]. destruct st as [md cp]. unfold gouter at 1. rewrite gsample_hand.
  destruct (Hand.MinDist.sample O fuel z s1) as [samples1|] eqn:H1.
  - pose proof (inner_fold s1 samples1 segs2 H1 (md, cp)) as Hi.
    destruct (fold_option_outcome (ginner s1 samples1) segs2 (md, cp)) as [[[md' cp']|e]|].
    + cbn [dp_rel] in Hi. rewrite Hi. apply IH.
    + rewrite (outer_err segs2 _ l (dp_rel_err _ _ Hi ltac:(intros v; discriminate))). exact Hi.
    + rewrite (outer_err segs2 _ l (dp_rel_err _ _ Hi ltac:(intros v; discriminate))). exact Hi.
  - (* s1.sample runs out of fuel: the hand model finds out at the first s2 *)
    rewrite (inner_nofuel s1 segs2 (md, cp) H1 Hne), (outer_err segs2 Hand.MinDist.OutOfFuel l I). reflexivity.
Qed.
(* ... and empty: the hand model never samples; the generated loop does, and returns the state unchanged unless it runs out of fuel *)
Lemma outer_fold_nil : forall (segs1 : list (segment T)) (st : state),
  fold_left (fun st s1 => fold_left (pair_step O fuel z s1) [] st) segs1 (Hand.MinDist.Ok st) = Hand.MinDist.Ok st /\
  (fold_option_outcome (gouter []) segs1 st = None \/ fold_option_outcome (gouter []) segs1 st = Some (Returns st)).
Proof.
  induction segs1 as [|s1 l IH]; intro st; [split; [reflexivity|right; reflexivity]|].
  cbn [fold_option_outcome fold_left]. destruct st as [md cp]. unfold gouter at 1 3. destruct (gsample s1); cbn [fold_option_outcome].
  - apply IH.
  - split; [apply IH|left; reflexivity].
Qed.

(* ---- curveDistance of the selected pair ---- *)
Lemma gcd_rel (a b : segment T) : cd_rel (gcd a b) (Hand.MinDist.curveDistance O fuel a b).
Proof.
  destruct a, b; cbn [gcd];
    [apply curveDistance_LL_gen|apply curveDistance_LQ_gen|apply curveDistance_LC_gen|apply curveDistance_QL_gen|apply curveDistance_QQ_gen
    |apply curveDistance_QC_gen|apply curveDistance_CL_gen|apply curveDistance_CQ_gen|apply curveDistance_CC_gen].
Qed.

Definition finish (st : Hand.MinDist.res pair_state) : Hand.MinDist.res (T * T * T * segment T * segment T) :=
  res_map (fun st : pair_state =>
    match snd st with
    | None => UnboundErr
    | Some (s1, s2) => res_map (fun c : T * T * T => let '(d, t1, t2) := c in Hand.MinDist.Ok (d, t1, t2, s1, s2)) (Hand.MinDist.curveDistance O fuel s1 s2)
    end) st.
Lemma finish_rel (g : option (outcome state)) (h : Hand.MinDist.res pair_state) : dp_rel g h ->
  dp_rel (match g with
          | None => None
          | Some (Raises e) => Some (Raises e)
          | Some (Returns (md, cp)) =>
            match cp with
            | None => Some (Raises PyUnboundLocalError)
            | Some u => match gcd (fst u) (snd u) with
                        | None => None
                        | Some (Raises e) => Some (Raises e)
                        | Some (Returns r) => Some (Returns (fst (fst r), snd (fst r), snd r, fst u, snd u))
                        end
            end
          end) (finish h).
Proof.
  destruct g as [[[md cp]|e]|]; cbn [dp_rel]; intro H.
  - subst h. cbn [finish res_map snd]. destruct cp as [[s1 s2]|]; [|reflexivity]. cbn [fst snd].
    pose proof (gcd_rel s1 s2) as Hc. destruct (gcd s1 s2) as [[[[d t1] t2]|e]|]; cbn [cd_rel] in Hc.
    + rewrite Hc. reflexivity.
    + destruct e; try contradiction; rewrite Hc; reflexivity.
    + rewrite Hc. reflexivity.
  - destruct e; try contradiction; subst h; reflexivity.
  - subst h. reflexivity.
Qed.

(* The bridge.  [sfuel = fuel]: the generated definition has ONE fuel, for the sampling loops and for the recursion of minDist. *)
Theorem distanceToPath_bridge (segs1 segs2 : list (segment T)) :
  let g := Path_distanceToPath O fuel segs1 segs2 (ofZ O z) in
  let h := distanceToPath_gen O (Hand.MinDist.curveDistance O fuel) fuel z segs1 segs2 in
  (segs2 <> [] -> dp_rel g h) /\
  (segs2 = [] -> h = UnboundErr /\ (g = None \/ g = Some (Raises PyUnboundLocalError))).
Proof.
  cbv zeta. rewrite Path_distanceToPath_unfold. change (distanceToPath_gen O (Hand.MinDist.curveDistance O fuel) fuel z segs1 segs2)
    with (finish (closest_pair O fuel z segs1 segs2)). unfold closest_pair. split.
  - intro Hne. apply finish_rel. apply (outer_fold segs2 Hne segs1 (None, None)).
  - intros ->. destruct (outer_fold_nil segs1 (None, None)) as [Hh Hg]. rewrite Hh. split; [reflexivity|].
    destruct Hg as [-> | ->]; [left|right]; reflexivity.
Qed.
(* in particular: whenever the generated definition does not run out of fuel, the two agree *)
Corollary distanceToPath_bridge_some (segs1 segs2 : list (segment T)) o :
  Path_distanceToPath O fuel segs1 segs2 (ofZ O z) = Some o ->
  dp_rel (Some o) (distanceToPath_gen O (Hand.MinDist.curveDistance O fuel) fuel z segs1 segs2).
Proof.
  intro E. destruct (distanceToPath_bridge segs1 segs2) as [H1 H2]. cbv zeta in *. destruct segs2 as [|s r].
  - destruct (H2 eq_refl) as [Hh [Hg|Hg]]; rewrite E in Hg; [discriminate|]. injection Hg as ->. exact Hh.
  - rewrite <- E. apply H1. discriminate.
Qed.
End DistanceToPathBridge.

(* ---------- Hand.MinDist.distanceToPath: samples = 10, the sampling loops on 32 iterations, minDist on [fuel] nested calls ---------- *)
Section DistanceToPathDefault.
Context {T : Type} (O : Ops T).
Hypothesis lits : lit_ok O.

(* the parameters `sample` visits do not depend on the segment, and not on the fuel once it suffices *)
Lemma sample_times_mono : forall f f' (t step : T) l, (f <= f')%nat -> sample_times O f t step = Some l -> sample_times O f' t step = Some l.
Proof.
  induction f as [|n IH]; intros f' t step l Hle H; [discriminate|]. destruct f' as [|n']; [lia|].
  cbn [sample_times] in *. destruct (leb O t (ofZ O 1)); [|exact H].
  destruct (sample_times O n (add O t step) step) as [l0|] eqn:E; [|discriminate].
  rewrite (IH n' _ _ l0 ltac:(lia) E). exact H.
Qed.
Lemma fold_left_ext_in {A B : Type} (f g : A -> B -> A) (l : list B) : (forall a x, In x l -> f a x = g a x) -> forall a, fold_left f l a = fold_left g l a.
Proof.
  induction l as [|x l IH]; intros H a; [reflexivity|]. cbn [fold_left]. rewrite (H a x (or_introl eq_refl)). apply IH.
  intros a' y Hy. apply H. right. exact Hy.
Qed.
Lemma closest_pair_sfuel f f' z (segs1 segs2 : list (segment T)) : (forall s, Hand.MinDist.sample O f z s = Hand.MinDist.sample O f' z s) ->
  closest_pair O f z segs1 segs2 = closest_pair O f' z segs1 segs2.
Proof.
  intro H. unfold closest_pair. apply fold_left_ext_in. intros st s1 _. apply fold_left_ext_in. intros st' s2 _.
  unfold pair_step. rewrite (H s1), (H s2). reflexivity.
Qed.

Theorem distanceToPath_bridge_default fuel (segs1 segs2 : list (segment T)) : (32 <= fuel)%nat ->
  sample_times O 32 (ofZ O 0) (dvd O (ofZ O 1) (ofZ O 10)) <> None ->
  let g := Path_distanceToPath O fuel segs1 segs2 (ofZ O 10) in
  let h := distanceToPath O fuel segs1 segs2 in
  (segs2 <> [] -> dp_rel g h) /\ (segs2 = [] -> h = UnboundErr /\ (g = None \/ g = Some (Raises PyUnboundLocalError))).
Proof.
  intros Hle Hs. cbv zeta.
  assert (E : distanceToPath O fuel segs1 segs2 = distanceToPath_gen O (Hand.MinDist.curveDistance O fuel) fuel 10 segs1 segs2).
  { unfold distanceToPath, distanceToPath_gen. f_equal. apply closest_pair_sfuel. intro s. unfold Hand.MinDist.sample.
    destruct (sample_times O 32 (ofZ O 0) (dvd O (ofZ O 1) (ofZ O 10))) as [l|] eqn:E32; [|contradiction].
    rewrite (sample_times_mono 32 fuel _ _ l Hle E32). reflexivity. }
  rewrite E. exact (distanceToPath_bridge O lits fuel 10 segs1 segs2).
Qed.
End DistanceToPathDefault.

(* the two carriers in use: eleven samples and the closing point are taken well within 32 iterations *)
From Coq Require Import Reals Lra.
Lemma sample_times_10_F : sample_times FOps 32 (ofZ FOps 0) (dvd FOps (ofZ FOps 1) (ofZ FOps 10)) <> None.
Proof. intro H. vm_compute in H. discriminate H. Qed.
Lemma sample_times_10_R : sample_times ROps 32 (ofZ ROps 0) (dvd ROps (ofZ ROps 1) (ofZ ROps 10)) <> None.
Proof.
  cbn [sample_times ROps Ops.leb Ops.ofZ Ops.dvd Ops.add].
  repeat match goal with
         | |- context [Rle_dec ?a ?b] => destruct (Rle_dec a b); [try (exfalso; lra)|try (exfalso; lra)]; cbv iota beta
         end.
  all: intro H; inversion H.
Qed.
Definition distanceToPath_bridge_R := @distanceToPath_bridge_default R ROps lit_ok_R.
Definition distanceToPath_bridge_F := @distanceToPath_bridge_default float FOps lit_ok_F.
