(* C16 -- a connected path is a CONTINUOUS function of its parameter on [0,1] (epsilon-delta form), from the
   closed-piece lemma of Proofs/C16.v: on the closed parameter interval of segment k the path is that segment. *)
From Coq Require Import PrimFloat.
From Coq Require Import ZArith List Bool Reals Lra Lia Psatz.
From Coquelicot Require Import Coquelicot.
From BZ Require Import Base.Ops Proofs.Tactics Gen.Point Gen.Line Gen.Quad Gen.Cubic Hand.Sample Proofs.C01 Proofs.C16.
Import ListNotations.
Open Scope R_scope.

(* the path as a total function (the default is never used on a non-empty path and t in [0,1]: path_pointAt_ok) *)
Definition path_pt (segs : list (segment R)) (t : R) : pt R :=
  match path_pointAtTime ROps segs t with Ok p => p | Raise _ => P 0 0 end.

Lemma seg_px_continuous (s : segment R) u : continuity_pt (fun u => px (seg_pointAt ROps s u)) u.
Proof.
  apply continuity_pt_filterlim. apply (ex_derive_continuous (fun u => px (seg_pointAt ROps s u))).
  destruct s as [s|s|s]; destruct_pts;
  (match goal with |- ex_derive ?f ?t => let f' := rnorm f in change (ex_derive f' t) end); auto_derive; exact I.
Qed.
Lemma seg_py_continuous (s : segment R) u : continuity_pt (fun u => py (seg_pointAt ROps s u)) u.
Proof.
  apply continuity_pt_filterlim. apply (ex_derive_continuous (fun u => py (seg_pointAt ROps s u))).
  destruct s as [s|s|s]; destruct_pts;
  (match goal with |- ex_derive ?f ?t => let f' := rnorm f in change (ex_derive f' t) end); auto_derive; exact I.
Qed.
Lemma affine_continuous a b t : continuity_pt (fun t' => t' * a - b) t.
Proof. apply continuity_pt_filterlim. apply (ex_derive_continuous (fun t' => t' * a - b)). auto_derive. exact I. Qed.

(* two functions continuous at t that agree with f on the left resp. on the right of t make f continuous at t on [0,1] *)
Lemma glue (f g1 g2 : R -> R) t d0 : 0 < d0 -> continuity_pt g1 t -> continuity_pt g2 t ->
  (forall t', 0 <= t' <= 1 -> Rabs (t' - t) < d0 -> t' <= t -> f t' = g1 t') ->
  (forall t', 0 <= t' <= 1 -> Rabs (t' - t) < d0 -> t <= t' -> f t' = g2 t') ->
  0 <= t <= 1 -> forall eps, 0 < eps ->
  exists delta, 0 < delta /\ forall t', 0 <= t' <= 1 -> Rabs (t' - t) < delta -> Rabs (f t' - f t) < eps.
Proof.
  intros Hd C1 C2 HL HR Ht eps Heps.
  destruct (C1 eps Heps) as (a1 & Ha1 & H1). destruct (C2 eps Heps) as (a2 & Ha2 & H2).
  assert (Ht0 : Rabs (t - t) < d0) by (rewrite Rminus_diag_eq, Rabs_R0 by reflexivity; exact Hd).
  exists (Rmin d0 (Rmin a1 a2)). split; [repeat apply Rmin_pos; assumption|].
  intros t' Ht' Hdist.
  assert (D0 : Rabs (t' - t) < d0) by (eapply Rlt_le_trans; [exact Hdist | apply Rmin_l]).
  assert (D1 : Rabs (t' - t) < a1) by (eapply Rlt_le_trans; [exact Hdist | eapply Rle_trans; [apply Rmin_r | apply Rmin_l]]).
  assert (D2 : Rabs (t' - t) < a2) by (eapply Rlt_le_trans; [exact Hdist | eapply Rle_trans; [apply Rmin_r | apply Rmin_r]]).
  destruct (Rtotal_order t' t) as [Hlt | [Heq | Hgt]].
  - rewrite (HL t' Ht' D0 ltac:(lra)), (HL t Ht Ht0 ltac:(lra)).
    apply (H1 t'). split; [split; [exact I | lra] | exact D1].
  - subst. rewrite Rminus_diag_eq, Rabs_R0 by reflexivity. exact Heps.
  - rewrite (HR t' Ht' D0 ltac:(lra)), (HR t Ht Ht0 ltac:(lra)).
    apply (H2 t'). split; [split; [exact I | lra] | exact D2].
Qed.

Section Coord.
Variable c : pt R -> R.
Hypothesis c_cont : forall s u, continuity_pt (fun u => c (seg_pointAt ROps s u)) u.

Definition piece (N : R) (k : nat) (s : segment R) (t' : R) : R := c (seg_pointAt ROps s (t' * N - INR k)).
Lemma piece_continuous N k s t : continuity_pt (piece N k s) t.
Proof.
  unfold piece.
  apply (continuity_pt_comp (fun t' => t' * N - INR k) (fun u => c (seg_pointAt ROps s u))).
  - apply affine_continuous.
  - apply c_cont.
Qed.
Lemma piece_agrees segs k s t' : connected segs -> nth_error segs k = Some s ->
  INR k <= t' * INR (length segs) <= INR k + 1 -> c (path_pt segs t') = piece (INR (length segs)) k s t'.
Proof. intros Hc Hs Hk. unfold path_pt, piece. now rewrite (path_eval_closed_piece segs t' k s Hc Hs Hk). Qed.

Lemma path_coord_continuous segs t : connected segs -> segs <> [] -> 0 <= t <= 1 -> forall eps, 0 < eps ->
  exists delta, 0 < delta /\ forall t', 0 <= t' <= 1 -> Rabs (t' - t) < delta -> Rabs (c (path_pt segs t') - c (path_pt segs t)) < eps.
Proof.
  intros Hc Hne Ht.
  set (N := INR (length segs)).
  assert (HN : 0 < N) by (apply lt_0_INR; destruct segs; [contradiction | cbn; lia]).
  assert (HiN : 0 < / N) by (apply Rinv_0_lt_compat; exact HN).
  (* it suffices to name a left piece, a right piece and a radius *)
  assert (K : forall k1 s1 k2 s2 d0, 0 < d0 -> nth_error segs k1 = Some s1 -> nth_error segs k2 = Some s2 ->
    (forall t', 0 <= t' <= 1 -> Rabs (t' - t) < d0 -> t' <= t -> INR k1 <= t' * N <= INR k1 + 1) ->
    (forall t', 0 <= t' <= 1 -> Rabs (t' - t) < d0 -> t <= t' -> INR k2 <= t' * N <= INR k2 + 1) ->
    forall eps, 0 < eps -> exists delta, 0 < delta /\ forall t', 0 <= t' <= 1 -> Rabs (t' - t) < delta ->
      Rabs (c (path_pt segs t') - c (path_pt segs t)) < eps).
  { intros k1 s1 k2 s2 d0 Hd H1 H2 HL HR.
    apply (glue (fun t' => c (path_pt segs t')) (piece N k1 s1) (piece N k2 s2) t d0 Hd);
      [apply piece_continuous | apply piece_continuous | | | exact Ht].
    - intros t' A B C. apply (piece_agrees segs k1 s1 t' Hc H1). apply HL; assumption.
    - intros t' A B C. apply (piece_agrees segs k2 s2 t' Hc H2). apply HR; assumption. }
  assert (Habs : forall t' d, Rabs (t' - t) < d -> t - d < t' < t + d).
  { intros t' d H. apply Rabs_def2 in H. lra. }
  destruct (Req_dec t 1) as [E1 | NE1].
  - (* t = 1: the last segment on both sides *)
    subst t. destruct (last_opt_nonempty segs Hne) as [s Hs].
    assert (Hn : exists j, length segs = S j) by (destruct segs; [contradiction | eexists; reflexivity]).
    destruct Hn as [j Hj].
    assert (Hnj : nth_error segs j = Some s).
    { destruct (nth_error segs j) as [s'|] eqn:E; [|apply nth_error_None in E; lia].
      rewrite (last_opt_nth segs j s' E (eq_sym Hj)) in Hs. congruence. }
    assert (HNj : N = INR j + 1) by (unfold N; rewrite Hj, S_INR; reflexivity).
    apply (K j s j s (/ N) HiN Hnj Hnj); intros t' A B C; apply Habs in B;
      assert (t' * N > (1 - / N) * N) by (apply Rmult_gt_compat_r; lra);
      assert ((1 - / N) * N = N - 1) by (field; lra); nra.
  - destruct (path_index_exists segs t Hne ltac:(lra)) as (k & s & Hk & Hs). fold N in Hk.
    destruct (Req_dec (t * N) (INR k)) as [Ek | NEk].
    + destruct k as [|j].
      * (* t = 0 *)
        cbn [INR] in Ek. assert (t = 0) by nra. subst t.
        apply (K 0%nat s 0%nat s (/ N) HiN Hs Hs); intros t' A B C; apply Habs in B; cbn [INR];
          assert (t' * N < / N * N) by (apply Rmult_lt_compat_r; lra); rewrite Rinv_l in * by lra; nra.
      * (* an interior joint: segment j on the left, segment j+1 on the right *)
        assert (Hj : (j < length segs)%nat) by (assert (S j < length segs)%nat by (apply nth_error_Some; congruence); lia).
        destruct (nth_error segs j) as [sj|] eqn:Esj; [|apply nth_error_None in Esj; lia].
        rewrite S_INR in *.
        apply (K j sj (S j) s (/ N) HiN Esj Hs); intros t' A B C; apply Habs in B; rewrite ?S_INR;
          assert (t' * N < (t + / N) * N) by (apply Rmult_lt_compat_r; lra);
          assert (t' * N > (t - / N) * N) by (apply Rmult_gt_compat_r; lra);
          assert ((t + / N) * N = t * N + 1) by (field; lra); assert ((t - / N) * N = t * N - 1) by (field; lra); nra.
    + (* strictly inside segment k *)
      set (d0 := Rmin (t * N - INR k) (INR k + 1 - t * N) / N).
      assert (Hd0 : 0 < d0) by (unfold d0; apply Rdiv_lt_0_compat; [apply Rmin_pos; lra | exact HN]).
      assert (Hd1 : d0 * N <= t * N - INR k).
      { unfold d0. replace (Rmin _ _ / N * N) with (Rmin (t * N - INR k) (INR k + 1 - t * N)) by (field; lra). apply Rmin_l. }
      assert (Hd2 : d0 * N <= INR k + 1 - t * N).
      { unfold d0. replace (Rmin _ _ / N * N) with (Rmin (t * N - INR k) (INR k + 1 - t * N)) by (field; lra). apply Rmin_r. }
      apply (K k s k s d0 Hd0 Hs Hs); intros t' A B C; apply Habs in B;
        assert (t' * N < (t + d0) * N) by (apply Rmult_lt_compat_r; lra);
        assert (t' * N > (t - d0) * N) by (apply Rmult_gt_compat_r; lra); nra.
Qed.
End Coord.

Theorem path_continuous segs t : connected segs -> segs <> [] -> 0 <= t <= 1 -> forall eps, 0 < eps ->
  exists delta, 0 < delta /\ forall t', 0 <= t' <= 1 -> Rabs (t' - t) < delta ->
    Rabs (px (path_pt segs t') - px (path_pt segs t)) < eps /\ Rabs (py (path_pt segs t') - py (path_pt segs t)) < eps.
Proof.
  intros Hc Hne Ht eps Heps.
  destruct (path_coord_continuous px seg_px_continuous segs t Hc Hne Ht eps Heps) as (d1 & Hd1 & H1).
  destruct (path_coord_continuous py seg_py_continuous segs t Hc Hne Ht eps Heps) as (d2 & Hd2 & H2).
  exists (Rmin d1 d2). split; [apply Rmin_pos; assumption|].
  intros t' A B. split; [apply H1 | apply H2]; try exact A; eapply Rlt_le_trans; try exact B; [apply Rmin_l | apply Rmin_r].
Qed.
