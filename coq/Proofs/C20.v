(* C20 -- reported minimum distances are realised distances.
   part A: the generated squared-distance surface S(u,v) of utils/curvedistance.py is |P(u) - Q(v)|^2 (nine identities);
   part B: the hand model of minDist / curveDistance / distanceToPath (Hand/MinDist.v) returns a value of S at a point of
           the unit square, reported parameters in [0,1], reported segments members of the paths; which errors can occur
           over the reals; the clamp max(dist, 0.0) before math.sqrt; satisfiability examples; the D table holds the Bernstein coefficients of S. *)
From Coq Require Import PrimFloat.
From Coq Require Import ZArith List Bool Reals Lra Lia Psatz.
From BZ Require Import Base.Ops Proofs.Tactics Gen.Point Gen.Line Gen.Quad Gen.Cubic Gen.CurveDist Hand.MinDist.
Import ListNotations.
Open Scope R_scope.

Lemma S_is_sqdist_2_2 (b1 : seg2 R) (b2 : seg2 R) (u v : R) :
  curvedistance_S_2_2 ROps b1 b2 u v = Point_squareDistanceFrom ROps (Line_pointAtTime ROps b1 u) (Line_pointAtTime ROps b2 v).
Proof. destruct_pts. rcbv. field. Qed.

Lemma S_is_sqdist_2_3 (b1 : seg2 R) (b2 : seg3 R) (u v : R) :
  curvedistance_S_2_3 ROps b1 b2 u v = Point_squareDistanceFrom ROps (Line_pointAtTime ROps b1 u) (Quad_pointAtTime ROps b2 v).
Proof. destruct_pts. rcbv. field. Qed.

Lemma S_is_sqdist_2_4 (b1 : seg2 R) (b2 : seg4 R) (u v : R) :
  curvedistance_S_2_4 ROps b1 b2 u v = Point_squareDistanceFrom ROps (Line_pointAtTime ROps b1 u) (Cubic_pointAtTime ROps b2 v).
Proof. destruct_pts. rcbv. field. Qed.

Lemma S_is_sqdist_3_2 (b1 : seg3 R) (b2 : seg2 R) (u v : R) :
  curvedistance_S_3_2 ROps b1 b2 u v = Point_squareDistanceFrom ROps (Quad_pointAtTime ROps b1 u) (Line_pointAtTime ROps b2 v).
Proof. destruct_pts. rcbv. field. Qed.

Lemma S_is_sqdist_3_3 (b1 : seg3 R) (b2 : seg3 R) (u v : R) :
  curvedistance_S_3_3 ROps b1 b2 u v = Point_squareDistanceFrom ROps (Quad_pointAtTime ROps b1 u) (Quad_pointAtTime ROps b2 v).
Proof. destruct_pts. rcbv. field. Qed.

Lemma S_is_sqdist_3_4 (b1 : seg3 R) (b2 : seg4 R) (u v : R) :
  curvedistance_S_3_4 ROps b1 b2 u v = Point_squareDistanceFrom ROps (Quad_pointAtTime ROps b1 u) (Cubic_pointAtTime ROps b2 v).
Proof. destruct_pts. rcbv. field. Qed.

Lemma S_is_sqdist_4_2 (b1 : seg4 R) (b2 : seg2 R) (u v : R) :
  curvedistance_S_4_2 ROps b1 b2 u v = Point_squareDistanceFrom ROps (Cubic_pointAtTime ROps b1 u) (Line_pointAtTime ROps b2 v).
Proof. destruct_pts. rcbv. field. Qed.

Lemma S_is_sqdist_4_3 (b1 : seg4 R) (b2 : seg3 R) (u v : R) :
  curvedistance_S_4_3 ROps b1 b2 u v = Point_squareDistanceFrom ROps (Cubic_pointAtTime ROps b1 u) (Quad_pointAtTime ROps b2 v).
Proof. destruct_pts. rcbv. field. Qed.

Lemma S_is_sqdist_4_4 (b1 : seg4 R) (b2 : seg4 R) (u v : R) :
  curvedistance_S_4_4 ROps b1 b2 u v = Point_squareDistanceFrom ROps (Cubic_pointAtTime ROps b1 u) (Cubic_pointAtTime ROps b2 v).
Proof. destruct_pts. rcbv. field. Qed.
(* ---------------------------------------------------------------------------------------------------------- *)
(* part B: minDist / curveDistance / distanceToPath return realised (squared) distances                        *)
(* ---------------------------------------------------------------------------------------------------------- *)

Lemma min2_cases (a b : R) : min2 ROps a b = a \/ min2 ROps a b = b.
Proof. unfold min2. destruct (ltb ROps b a); auto. Qed.

Lemma min4_cases (a b c d : R) :
  let x := min2 ROps (min2 ROps (min2 ROps a b) c) d in x = a \/ x = b \/ x = c \/ x = d.
Proof.
  cbv zeta.
  destruct (min2_cases (min2 ROps (min2 ROps a b) c) d) as [-> | ->]; auto.
  destruct (min2_cases (min2 ROps a b) c) as [-> | ->]; auto.
  destruct (min2_cases a b) as [-> | ->]; auto.
Qed.

Lemma in_index_pairs n m i j : In (i, j) (index_pairs n m) -> (i < 2 * n)%nat /\ (j < 2 * m)%nat.
Proof.
  unfold index_pairs. rewrite in_flat_map. intros [r [Hr Hin]].
  apply in_map_iff in Hin. destruct Hin as [k [Hk Hin]]. inversion Hk; subst.
  apply in_seq in Hr. apply in_seq in Hin. lia.
Qed.

Lemma frac_01 (i N : nat) : (i < N)%nat -> 0 <= IZR (Z.of_nat i) / IZR (Z.of_nat N) <= 1.
Proof.
  intros H.
  assert (HN : 0 < IZR (Z.of_nat N)) by (apply IZR_lt; lia).
  assert (Hi : 0 <= IZR (Z.of_nat i)) by (apply IZR_le; lia).
  assert (HiN : IZR (Z.of_nat i) <= IZR (Z.of_nat N)) by (apply IZR_le; lia).
  split.
  - apply Rmult_le_pos; [assumption | left; apply Rinv_0_lt_compat; assumption].
  - apply (Rmult_le_reg_r (IZR (Z.of_nat N))); [assumption |].
    unfold Rdiv. rewrite Rmult_assoc, Rinv_l by lra. lra.
Qed.

Lemma lerp_between (lo hi c : R) : lo <= hi -> 0 <= c <= 1 -> lo <= lo + (hi - lo) * c <= hi.
Proof. intros. nra. Qed.

Section Generic.
Variables (n m : nat) (S : R -> R -> option R) (D : nat -> nat -> option R).

(* [alpha] is the value of S at a corner (u',v') of a cell [a,b]x[c,d] of the start rectangle, and the reported
   parameters (u,v) lie in the same cell *)
Definition cell_spec (umin umax vmin vmax : R) (x : R * R * R) : Prop :=
  let '(alpha, u, v) := x in
  exists a b c d u' v',
    umin <= a /\ a <= b /\ b <= umax /\ vmin <= c /\ c <= d /\ d <= vmax /\
    a <= u <= b /\ c <= v <= d /\ (u' = a \/ u' = b) /\ (v' = c \/ v' = d) /\ S u' v' = Some alpha.

Lemma cell_spec_mono umin umax vmin vmax umin' umax' vmin' vmax' x :
  umin' <= umin -> umax <= umax' -> vmin' <= vmin -> vmax <= vmax' ->
  cell_spec umin umax vmin vmax x -> cell_spec umin' umax' vmin' vmax' x.
Proof.
  destruct x as [[alpha u] v]. intros ? ? ? ? (a & b & c & d & u' & v' & H).
  exists a, b, c, d, u', v'. intuition lra.
Qed.

Lemma cell_corner umin umax vmin vmax u v s :
  umin <= umax -> vmin <= vmax -> (u = umin \/ u = umax) -> (v = vmin \/ v = vmax) -> S u v = Some s ->
  cell_spec umin umax vmin vmax (s, u, v).
Proof.
  intros Hu Hv Hu' Hv' HS. exists umin, umax, vmin, vmax, u, v.
  repeat split; try lra; auto; destruct Hu'; destruct Hv'; subst; lra.
Qed.

Lemma cell_mid umin umax vmin vmax u' v' s :
  umin <= umax -> vmin <= vmax -> (u' = umin \/ u' = umax) -> (v' = vmin \/ v' = vmax) -> S u' v' = Some s ->
  cell_spec umin umax vmin vmax (s, (umin + umax) / 2, (vmin + vmax) / 2).
Proof.
  intros Hu Hv Hu' Hv' HS. exists umin, umax, vmin, vmax, u', v'.
  repeat split; try lra; auto.
Qed.

Definition rec_ok (rec : @state R -> R -> R -> R -> R -> res (R * R * R) * @state R) : Prop :=
  forall st umin umax vmin vmax x st', umin <= umax -> vmin <= vmax ->
    rec st umin umax vmin vmax = (Ok x, st') -> cell_spec umin umax vmin vmax x.

Lemma p1_fold_err alpha l (e : res (@p1_state R)) :
  (forall x, e <> Ok x) -> fold_left (p1_step ROps D alpha) l e = e.
Proof.
  intros He. induction l as [| rk l IH]; [reflexivity |]. simpl.
  destruct e; try (exfalso; eapply He; reflexivity); exact IH.
Qed.

Lemma p1_fold_minIJ alpha l : forall isOut md mij isOut' md' ij,
  fold_left (p1_step ROps D alpha) l (Ok (isOut, md, mij)) = Ok (isOut', md', Some ij) ->
  mij = Some ij \/ In ij l.
Proof.
  induction l as [| rk l IH]; intros isOut md mij isOut' md' ij H.
  - simpl in H. inversion H; subst; left; reflexivity.
  - simpl in H. destruct (D (fst rk) (snd rk)) as [drk |].
    + match type of H with context [if ?c then _ else _] => destruct c end.
      * apply IH in H. destruct H as [H | H]; [inversion H; subst; right; left; reflexivity | right; right; exact H].
      * apply IH in H. destruct H as [H | H]; [left; exact H | right; right; exact H].
    + rewrite p1_fold_err in H by (intros x Hx; discriminate). discriminate.
Qed.

Lemma pick3_cases (a b : R * R * R) : pick3 ROps a b = a \/ pick3 ROps a b = b.
Proof. unfold pick3. destruct (ltb ROps _ _); auto. Qed.

Lemma body_ok rec : rec_ok rec -> rec_ok (minDist_body ROps n m S D rec).
Proof.
  intros Hrec st umin umax vmin vmax x st' Hu Hv H.
  unfold minDist_body in H.
  destruct (S umin vmin) as [s00 |] eqn:E00; [| discriminate].
  destruct (S umin vmax) as [s01 |] eqn:E01; [| discriminate].
  destruct (S umax vmin) as [s10 |] eqn:E10; [| discriminate].
  destruct (S umax vmax) as [s11 |] eqn:E11; [| discriminate].
  set (alpha := min2 ROps (min2 ROps (min2 ROps s00 s01) s10) s11) in *.
  assert (Hmid : cell_spec umin umax vmin vmax (alpha, (umin + umax) / 2, (vmin + vmax) / 2)).
  { destruct (min4_cases s00 s01 s10 s11) as [Ha | [Ha | [Ha | Ha]]]; fold alpha in Ha; rewrite Ha.
    - apply (cell_mid _ _ _ _ umin vmin); auto.
    - apply (cell_mid _ _ _ _ umin vmax); auto.
    - apply (cell_mid _ _ _ _ umax vmin); auto.
    - apply (cell_mid _ _ _ _ umax vmax); auto. }
  cbn [fst snd] in H.
  match type of H with context [if ?c then _ else _] => destruct c end.
  { inversion H; subst. exact Hmid. }
  match type of H with context [if ?c then _ else _] => destruct c end.
  { inversion H; subst. exact Hmid. }
  destruct (fold_left (p1_step ROps D alpha) (index_pairs n m) (Ok (true, None, None))) as [[[isOut md] minIJ] | | | | |] eqn:E1;
    try discriminate.
  destruct isOut. { inversion H; subst. exact Hmid. }
  destruct (fold_left (p2_step ROps n D) (index_pairs n m) (Ok (true, true, true, true))) as [[[[f01 f11] f02] f12] | | | | |] eqn:E2;
    try discriminate.
  destruct (f01 && f02). { inversion H; subst. apply cell_corner; auto. }
  destruct (f01 && f12). { inversion H; subst. apply cell_corner; auto. }
  destruct (f11 && f02). { inversion H; subst. apply cell_corner; auto. }
  destruct (f11 && f12). { inversion H; subst. apply cell_corner; auto. }
  destruct minIJ as [[i j] |]; [| discriminate].
  apply p1_fold_minIJ in E1. destruct E1 as [E1 | E1]; [discriminate |].
  apply in_index_pairs in E1. destruct E1 as [Hi Hj].
  cbn [add sub mul dvd ofZ ROps] in H.
  set (newu := umin + (umax - umin) * (IZR (Z.of_nat i) / IZR (Z.of_nat (2 * n)))) in *.
  set (newv := vmin + (vmax - vmin) * (IZR (Z.of_nat j) / IZR (Z.of_nat (2 * m)))) in *.
  assert (Hnu : umin <= newu <= umax) by (apply lerp_between; [assumption | apply frac_01; assumption]).
  assert (Hnv : vmin <= newv <= vmax) by (apply lerp_between; [assumption | apply frac_01; assumption]).
  destruct (rec (Some alpha, Datatypes.S (snd st)) umin newu vmin newv) as [r1 st2] eqn:R1.
  destruct r1 as [x1 | | | | |]; try discriminate.
  destruct (rec st2 umin newu newv vmax) as [r2 st3] eqn:R2.
  destruct r2 as [x2 | | | | |]; try discriminate.
  destruct (rec st3 newu umax vmin newv) as [r3 st4] eqn:R3.
  destruct r3 as [x3 | | | | |]; try discriminate.
  destruct (rec st4 newu umax newv vmax) as [r4 st5] eqn:R4.
  destruct r4 as [x4 | | | | |]; try discriminate.
  apply Hrec in R1; [| lra | lra]. apply Hrec in R2; [| lra | lra].
  apply Hrec in R3; [| lra | lra]. apply Hrec in R4; [| lra | lra].
  eapply cell_spec_mono with (umin' := umin) (umax' := umax) (vmin' := vmin) (vmax' := vmax) in R1; try lra.
  eapply cell_spec_mono with (umin' := umin) (umax' := umax) (vmin' := vmin) (vmax' := vmax) in R2; try lra.
  eapply cell_spec_mono with (umin' := umin) (umax' := umax) (vmin' := vmin) (vmax' := vmax) in R3; try lra.
  eapply cell_spec_mono with (umin' := umin) (umax' := umax) (vmin' := vmin) (vmax' := vmax) in R4; try lra.
  inversion H; subst.
  destruct (pick3_cases (pick3 ROps (pick3 ROps x1 x2) x3) x4) as [-> | ->]; [| exact R4].
  destruct (pick3_cases (pick3 ROps x1 x2) x3) as [-> | ->]; [| exact R3].
  destruct (pick3_cases x1 x2) as [-> | ->]; assumption.
Qed.

Lemma minDist_cell fuel : rec_ok (minDist ROps n m S D fuel).
Proof.
  induction fuel as [| fuel IH].
  - intros st umin umax vmin vmax x st' _ _ H. simpl in H. discriminate.
  - simpl. apply body_ok. exact IH.
Qed.
End Generic.

(* ---------- minDist: the returned alpha is a value of S on the start rectangle, the parameters lie in it ---------- *)
Theorem minDist_cell_characterisation n m S D fuel st umin umax vmin vmax alpha u v st' :
  umin <= umax -> vmin <= vmax ->
  minDist ROps n m S D fuel st umin umax vmin vmax = (Ok (alpha, u, v), st') ->
  exists a b c d u' v',
    umin <= a /\ a <= b /\ b <= umax /\ vmin <= c /\ c <= d /\ d <= vmax /\
    a <= u <= b /\ c <= v <= d /\ (u' = a \/ u' = b) /\ (v' = c \/ v' = d) /\ S u' v' = Some alpha.
Proof. intros Hu Hv H. exact (minDist_cell n m S D fuel st umin umax vmin vmax (alpha, u, v) st' Hu Hv H). Qed.

Theorem minDist_realised n m S D fuel st umin umax vmin vmax alpha u v st' :
  0 <= umin -> umin <= umax -> umax <= 1 -> 0 <= vmin -> vmin <= vmax -> vmax <= 1 ->
  minDist ROps n m S D fuel st umin umax vmin vmax = (Ok (alpha, u, v), st') ->
  0 <= u <= 1 /\ 0 <= v <= 1 /\ exists u' v', 0 <= u' <= 1 /\ 0 <= v' <= 1 /\ S u' v' = Some alpha.
Proof.
  intros ? Hu ? ? Hv ? H.
  destruct (minDist_cell_characterisation _ _ _ _ _ _ _ _ _ _ _ _ _ _ Hu Hv H)
    as (a & b & c & d & u' & v' & ? & ? & ? & ? & ? & ? & ? & ? & Hu' & Hv' & HS).
  repeat split; try lra. exists u', v'.
  repeat split; try assumption; destruct Hu'; destruct Hv'; subst; lra.
Qed.

(* ---------- curveDistance on a pair of segments ---------- *)
Definition seg_sqdist (s1 s2 : segment R) (u v : R) : R :=
  Point_squareDistanceFrom ROps (seg_point ROps s1 u) (seg_point ROps s2 v).
Definition seg_dist (s1 s2 : segment R) (u v : R) : R :=
  Point_distanceFrom ROps (seg_point ROps s1 u) (seg_point ROps s2 v).

Lemma seg_S_is_sqdist s1 s2 u v : seg_S ROps s1 s2 u v = seg_sqdist s1 s2 u v.
Proof.
  destruct s1 as [a | a | a]; destruct s2 as [b | b | b]; unfold seg_S, seg_sqdist, seg_point.
  - apply S_is_sqdist_2_2. - apply S_is_sqdist_2_3. - apply S_is_sqdist_2_4.
  - apply S_is_sqdist_3_2. - apply S_is_sqdist_3_3. - apply S_is_sqdist_3_4.
  - apply S_is_sqdist_4_2. - apply S_is_sqdist_4_3. - apply S_is_sqdist_4_4.
Qed.

Lemma seg_sqdist_nonneg s1 s2 u v : 0 <= seg_sqdist s1 s2 u v.
Proof.
  unfold seg_sqdist. generalize (seg_point ROps s1 u) (seg_point ROps s2 v). intros [x1 y1] [x2 y2].
  unfold Point_squareDistanceFrom. cbn [add sub mul ROps Ops.px Ops.py].
  pose proof (Rle_0_sqr (x1 - x2)). pose proof (Rle_0_sqr (y1 - y2)). unfold Rsqr in *. lra.
Qed.

Lemma seg_dist_sqrt s1 s2 u v : seg_dist s1 s2 u v = sqrt (seg_sqdist s1 s2 u v).
Proof. reflexivity. Qed.

(* the clamp max(dist, 0.0) of curveDistance: the identity on non-negative reals, never negative on any real, and on
   any carrier its result never compares below zero -- so math.sqrt cannot raise ValueError (no such outcome in the model) *)
Lemma clamp_id (x : R) : 0 <= x -> max2 ROps x (lit ROps 0 1 0%float) = x.
Proof.
  intros Hx. unfold max2. cbn [lit ROps]. destruct (ltb ROps x (IZR 0 / IZR 1)) eqn:E; [| reflexivity].
  apply Rltb_true in E. lra.
Qed.
Lemma clamp_nonneg (x : R) : 0 <= max2 ROps x (lit ROps 0 1 0%float).
Proof.
  unfold max2. cbn [lit ROps]. destruct (ltb ROps x (IZR 0 / IZR 1)) eqn:E; [lra |].
  apply Rltb_false in E. lra.
Qed.
(* for EVERY carrier (floats included): the clamped value never compares below the clamp bound z, provided z < z is false
   (true of 0.0: float_zero_not_below_zero) -- NaN and -0.0 pass through the clamp and do not compare below zero either *)
Lemma clamp_not_below (T : Type) (O : Ops T) (x z : T) : ltb O z z = false -> ltb O (max2 O x z) z = false.
Proof. intros Hz. unfold max2. destruct (ltb O x z) eqn:E; [exact Hz | exact E]. Qed.
Example float_zero_not_below_zero : PrimFloat.ltb 0%float 0%float = false.
Proof. reflexivity. Qed.

Theorem curveDistance_realised fuel s1 s2 d t1 t2 :
  curveDistance ROps fuel s1 s2 = Ok (d, t1, t2) ->
  0 <= t1 <= 1 /\ 0 <= t2 <= 1 /\
  exists u' v', 0 <= u' <= 1 /\ 0 <= v' <= 1 /\ d = seg_dist s1 s2 u' v'.
Proof.
  unfold curveDistance, curveDistance_with, curveDistance_state.
  destruct (minDist ROps (seg_order s1) (seg_order s2) (fun u v => Some (seg_S ROps s1 s2 u v)) (Dtab (seg_Dtable ROps s1 s2)) fuel
              (None, 0%nat) (ofZ ROps 0) (ofZ ROps 1) (ofZ ROps 0) (ofZ ROps 1)) as [r st] eqn:E.
  cbn [fst]. destruct r as [[[alpha u] v] | | | | |]; cbn [res_map]; try discriminate.
  intros H. inversion H; subst. clear H.
  cbn [ofZ ROps] in E.
  apply minDist_realised in E; try lra.
  destruct E as (Hu & Hv & u' & v' & Hu' & Hv' & HS).
  repeat split; try lra. exists u', v'. repeat split; try lra.
  inversion HS as [HS']. rewrite seg_S_is_sqdist.
  (* alpha = |P(u') - Q(v')|^2 >= 0, so the clamp is the identity *)
  rewrite clamp_id by apply seg_sqdist_nonneg. reflexivity.
Qed.

Corollary dist_nonneg fuel s1 s2 d t1 t2 : curveDistance ROps fuel s1 s2 = Ok (d, t1, t2) -> 0 <= d.
Proof.
  intros H. apply curveDistance_realised in H. destruct H as (_ & _ & u' & v' & _ & _ & ->).
  rewrite seg_dist_sqrt. apply sqrt_pos.
Qed.

(* any lower bound of the distances between points of the two operands is below the reported distance: in
   particular the reported distance is never smaller than the true minimum distance *)
Corollary dist_ge_true_min fuel s1 s2 d t1 t2 lo :
  (forall u v, 0 <= u <= 1 -> 0 <= v <= 1 -> lo <= seg_dist s1 s2 u v) ->
  curveDistance ROps fuel s1 s2 = Ok (d, t1, t2) -> lo <= d.
Proof.
  intros Hlo H. apply curveDistance_realised in H. destruct H as (_ & _ & u' & v' & Hu & Hv & ->). auto.
Qed.

Corollary dist_le_max fuel s1 s2 d t1 t2 hi :
  (forall u v, 0 <= u <= 1 -> 0 <= v <= 1 -> seg_dist s1 s2 u v <= hi) ->
  curveDistance ROps fuel s1 s2 = Ok (d, t1, t2) -> d <= hi.
Proof.
  intros Hhi H. apply curveDistance_realised in H. destruct H as (_ & _ & u' & v' & Hu & Hv & ->). auto.
Qed.

(* the same with bounds of the generated S itself on the unit square *)
Corollary dist_between_S_bounds fuel s1 s2 d t1 t2 lo hi :
  (forall u v, 0 <= u <= 1 -> 0 <= v <= 1 -> lo <= seg_S ROps s1 s2 u v <= hi) ->
  curveDistance ROps fuel s1 s2 = Ok (d, t1, t2) -> sqrt lo <= d <= sqrt hi.
Proof.
  intros Hb H. apply curveDistance_realised in H. destruct H as (_ & _ & u' & v' & Hu & Hv & ->).
  rewrite seg_dist_sqrt, <- seg_S_is_sqdist. specialize (Hb u' v' Hu Hv).
  split; apply sqrt_le_1_alt; lra.
Qed.

(* ---------- totality over the reals: with S and D available, the only failure is fuel exhaustion ---------- *)
Definition ok_or_fuel {A : Type} (r : res A) : Prop := (exists x, r = Ok x) \/ r = OutOfFuel.

Section Total.
Variables (n m : nat) (S : R -> R -> option R) (D : nat -> nat -> option R).
Hypothesis Hn : (1 <= n)%nat.
Hypothesis Hm : (1 <= m)%nat.
Hypothesis HS : forall u v, S u v <> None.
Hypothesis HD : forall r k, (r <= 2 * n)%nat -> (k <= Nat.max (2 * n) (2 * m))%nat -> D r k <> None.

Lemma p1_fold_total alpha l :
  (forall ij, In ij l -> (fst ij < 2 * n)%nat /\ (snd ij < 2 * m)%nat) ->
  forall io md mij, (md <> None -> mij <> None) -> exists io' md' mij',
    fold_left (p1_step ROps D alpha) l (Ok (io, md, mij)) = Ok (io', md', mij') /\ (mij <> None \/ l <> [] -> mij' <> None).
Proof.
  induction l as [| rk l IH]; intros Hl io md mij J.
  - exists io, md, mij. split; [reflexivity |]. intros [H | H]; [exact H | congruence].
  - cbn [fold_left]. unfold p1_step at 2.
    destruct (Hl rk (or_introl eq_refl)) as [Hr Hk].
    destruct (D (fst rk) (snd rk)) as [drk |] eqn:ED; [| exfalso; apply (HD (fst rk) (snd rk)); [lia | lia | exact ED]].
    assert (Hl' : forall ij, In ij l -> (fst ij < 2 * n)%nat /\ (snd ij < 2 * m)%nat) by (intros; apply Hl; right; assumption).
    match goal with |- context [if ?c then _ else _] => destruct c eqn:Ec end.
    + destruct (IH Hl' (if ltb ROps drk alpha then false else io) (Some drk) (Some rk)) as (io' & md' & mij' & E & Hm');
        [intros _; discriminate |].
      exists io', md', mij'. split; [exact E |]. intros _. apply Hm'. left. discriminate.
    + destruct (IH Hl' (if ltb ROps drk alpha then false else io) md mij J) as (io' & md' & mij' & E & Hm').
      exists io', md', mij'. split; [exact E |]. intros _. apply Hm'. left. apply J.
      destruct md; [discriminate | simpl in Ec; discriminate].
Qed.

Lemma p2_fold_total l :
  (forall ij, In ij l -> (fst ij < 2 * n)%nat /\ (snd ij < 2 * m)%nat) ->
  forall st, exists st', fold_left (p2_step ROps n D) l (Ok st) = Ok st'.
Proof.
  induction l as [| ij l IH]; intros Hl st; [exists st; reflexivity |].
  cbn [fold_left]. destruct st as [[[f01 f11] f02] f12]. unfold p2_step at 2.
  destruct (Hl ij (or_introl eq_refl)) as [Hr Hk].
  destruct (D (fst ij) (snd ij)) eqn:E1; [| exfalso; apply (HD (fst ij) (snd ij)); [lia | lia | exact E1]].
  destruct (D 0%nat (snd ij)) eqn:E2; [| exfalso; apply (HD 0%nat (snd ij)); [lia | lia | exact E2]].
  destruct (D (2 * n)%nat (snd ij)) eqn:E3; [| exfalso; apply (HD (2 * n)%nat (snd ij)); [lia | lia | exact E3]].
  destruct (D (fst ij) 0%nat) eqn:E4; [| exfalso; apply (HD (fst ij) 0%nat); [lia | lia | exact E4]].
  destruct (D (fst ij) (2 * n)%nat) eqn:E5; [| exfalso; apply (HD (fst ij) (2 * n)%nat); [lia | lia | exact E5]].
  apply IH. intros; apply Hl; right; assumption.
Qed.

Lemma index_pairs_nonempty : index_pairs n m <> [].
Proof.
  assert (H : In (0%nat, 0%nat) (index_pairs n m)).
  { unfold index_pairs. apply in_flat_map. exists 0%nat. split; [apply in_seq; lia |].
    apply in_map_iff. exists 0%nat. split; [reflexivity | apply in_seq; lia]. }
  intros E. rewrite E in H. exact H.
Qed.

Definition rec_total (rec : @state R -> R -> R -> R -> R -> res (R * R * R) * @state R) : Prop :=
  forall st umin umax vmin vmax, ok_or_fuel (fst (rec st umin umax vmin vmax)).

Lemma body_total rec : rec_total rec -> rec_total (minDist_body ROps n m S D rec).
Proof.
  intros Hrec st umin umax vmin vmax. unfold minDist_body.
  destruct (S umin vmin) as [s00 |] eqn:E00; [| exfalso; exact (HS _ _ E00)].
  destruct (S umin vmax) as [s01 |] eqn:E01; [| exfalso; exact (HS _ _ E01)].
  destruct (S umax vmin) as [s10 |] eqn:E10; [| exfalso; exact (HS _ _ E10)].
  destruct (S umax vmax) as [s11 |] eqn:E11; [| exfalso; exact (HS _ _ E11)].
  set (alpha := min2 ROps (min2 ROps (min2 ROps s00 s01) s10) s11).
  match goal with |- context [if ?c then _ else _] => destruct c end; [left; eexists; reflexivity |].
  match goal with |- context [if ?c then _ else _] => destruct c end; [left; eexists; reflexivity |].
  assert (Hl : forall ij, In ij (index_pairs n m) -> (fst ij < 2 * n)%nat /\ (snd ij < 2 * m)%nat)
    by (intros [i j] Hin; apply in_index_pairs; exact Hin).
  destruct (p1_fold_total alpha (index_pairs n m) Hl true None None) as (io & md & mij & E1 & Hmij); [intros H; congruence |].
  rewrite E1. destruct io; [left; eexists; reflexivity |].
  destruct (p2_fold_total (index_pairs n m) Hl (true, true, true, true)) as ([[[f01 f11] f02] f12] & E2).
  match goal with |- context [match ?f with Ok _ => _ | _ => _ end] =>
    replace f with (Ok (A := p2_state) (f01, f11, f02, f12)) by (symmetry; exact E2) end.
  destruct (f01 && f02); [left; eexists; reflexivity |]. destruct (f01 && f12); [left; eexists; reflexivity |].
  destruct (f11 && f02); [left; eexists; reflexivity |]. destruct (f11 && f12); [left; eexists; reflexivity |].
  destruct mij as [[i j] |]; [| exfalso; apply Hmij; [right; apply index_pairs_nonempty | reflexivity]].
  match goal with |- context [rec ?s ?a ?b ?c ?d] => pose proof (Hrec s a b c d) as B1; destruct (rec s a b c d) as [r1 st2] end.
  destruct B1 as [[x1 B1] | B1]; cbn [fst] in B1; subst r1; [| right; reflexivity].
  match goal with |- context [rec ?s ?a ?b ?c ?d] => pose proof (Hrec s a b c d) as B2; destruct (rec s a b c d) as [r2 st3] end.
  destruct B2 as [[x2 B2] | B2]; cbn [fst] in B2; subst r2; [| right; reflexivity].
  match goal with |- context [rec ?s ?a ?b ?c ?d] => pose proof (Hrec s a b c d) as B3; destruct (rec s a b c d) as [r3 st4] end.
  destruct B3 as [[x3 B3] | B3]; cbn [fst] in B3; subst r3; [| right; reflexivity].
  match goal with |- context [rec ?s ?a ?b ?c ?d] => pose proof (Hrec s a b c d) as B4; destruct (rec s a b c d) as [r4 st5] end.
  destruct B4 as [[x4 B4] | B4]; cbn [fst] in B4; subst r4; [| right; reflexivity].
  left; eexists; reflexivity.
Qed.

Lemma minDist_total fuel : rec_total (minDist ROps n m S D fuel).
Proof.
  induction fuel as [| fuel IH]; [intros st a b c d; right; reflexivity |]. simpl. apply body_total. exact IH.
Qed.
End Total.

(* the generated tables have 2n+1 rows of max(2n,2m)+1 entries: every D(r,k) minDist reads is available *)
Lemma Dtab_available (tbl : list (list R)) rows cols r k :
  length tbl = Datatypes.S rows -> Forall (fun row => length row = Datatypes.S cols) tbl ->
  (r <= rows)%nat -> (k <= cols)%nat -> Dtab tbl r k <> None.
Proof.
  intros Hlen Hrows Hr Hk. unfold Dtab.
  destruct (nth_error tbl r) as [row |] eqn:E.
  - apply nth_error_Some. rewrite Forall_forall in Hrows. rewrite (Hrows row (nth_error_In _ _ E)). lia.
  - apply nth_error_None in E. lia.
Qed.

Lemma seg_Dtable_available s1 s2 r k :
  (r <= 2 * seg_order s1)%nat -> (k <= Nat.max (2 * seg_order s1) (2 * seg_order s2))%nat ->
  Dtab (seg_Dtable ROps s1 s2) r k <> None.
Proof.
  destruct s1 as [a | a | a]; destruct s2 as [b | b | b]; cbn [seg_order seg_Dtable]; intros Hr Hk.
  - apply (Dtab_available _ 2 2); [reflexivity | repeat constructor | lia | lia].
  - apply (Dtab_available _ 2 4); [reflexivity | repeat constructor | lia | lia].
  - apply (Dtab_available _ 2 6); [reflexivity | repeat constructor | lia | lia].
  - apply (Dtab_available _ 4 4); [reflexivity | repeat constructor | lia | lia].
  - apply (Dtab_available _ 4 4); [reflexivity | repeat constructor | lia | lia].
  - apply (Dtab_available _ 4 6); [reflexivity | repeat constructor | lia | lia].
  - apply (Dtab_available _ 6 6); [reflexivity | repeat constructor | lia | lia].
  - apply (Dtab_available _ 6 6); [reflexivity | repeat constructor | lia | lia].
  - apply (Dtab_available _ 6 6); [reflexivity | repeat constructor | lia | lia].
Qed.

(* Over the reals curveDistance either returns a value (covered by curveDistance_realised) or runs out of fuel:
   no unavailable D entry, no unset minIJ (and the model has no ValueError outcome at all since the clamp) *)
Theorem curveDistance_outcomes fuel s1 s2 : ok_or_fuel (curveDistance ROps fuel s1 s2).
Proof.
  unfold curveDistance, curveDistance_with, curveDistance_state.
  assert (Hn : (1 <= seg_order s1)%nat) by (destruct s1; simpl; lia).
  assert (Hm : (1 <= seg_order s2)%nat) by (destruct s2; simpl; lia).
  pose proof (minDist_total (seg_order s1) (seg_order s2) (fun u v => Some (seg_S ROps s1 s2 u v)) (Dtab (seg_Dtable ROps s1 s2))
                Hn Hm (fun u v H => ltac:(discriminate)) (seg_Dtable_available s1 s2) fuel
                (None, 0%nat) (ofZ ROps 0) (ofZ ROps 1) (ofZ ROps 0) (ofZ ROps 1)) as B.
  destruct (minDist ROps (seg_order s1) (seg_order s2) (fun u v => Some (seg_S ROps s1 s2 u v)) (Dtab (seg_Dtable ROps s1 s2)) fuel
              (None, 0%nat) (ofZ ROps 0) (ofZ ROps 1) (ofZ ROps 0) (ofZ ROps 1)) as [r st].
  cbn [fst] in *. destruct B as [[[[alpha u] v] ->] | ->]; cbn [res_map]; [left; eexists; reflexivity | right; reflexivity].
Qed.

(* ---------- distanceToPath: the reported segments belong to the respective paths ---------- *)
Section Paths.
Variables (segs1 segs2 : list (segment R)).

Definition pair_inv (st : res (@pair_state R)) : Prop :=
  match st with Ok (_, Some (a, b)) => In a segs1 /\ In b segs2 | _ => True end.

Lemma pair_step_inv sf samples s1 s2 st :
  In s1 segs1 -> In s2 segs2 -> pair_inv st -> pair_inv (pair_step ROps sf samples s1 st s2).
Proof.
  intros H1 H2 Hst. unfold pair_step.
  destruct st as [[md cl] | | | | |]; try exact I.
  destruct (sample ROps sf samples s1); [| exact I]. destruct (sample ROps sf samples s2); [| exact I].
  destruct (list_min ROps _); try exact I.
  match goal with |- context [if ?c then _ else _] => destruct c end; [split; assumption | exact Hst].
Qed.

Lemma inner_inv sf samples s1 : In s1 segs1 -> forall l2, incl l2 segs2 -> forall st, pair_inv st ->
  pair_inv (fold_left (pair_step ROps sf samples s1) l2 st).
Proof.
  intros H1. induction l2 as [| s2 l2 IH]; intros Hincl st Hst; [exact Hst |].
  cbn [fold_left]. apply IH; [intros x Hx; apply Hincl; right; exact Hx |].
  apply pair_step_inv; [exact H1 | apply Hincl; left; reflexivity | exact Hst].
Qed.

Lemma outer_inv sf samples : forall l1, incl l1 segs1 -> forall st, pair_inv st ->
  pair_inv (fold_left (fun st s1 => fold_left (pair_step ROps sf samples s1) segs2 st) l1 st).
Proof.
  induction l1 as [| s1 l1 IH]; intros Hincl st Hst; [exact Hst |].
  cbn [fold_left]. apply IH; [intros x Hx; apply Hincl; right; exact Hx |].
  apply inner_inv; [apply Hincl; left; reflexivity | apply incl_refl | exact Hst].
Qed.

Lemma closest_pair_inv sf samples : pair_inv (closest_pair ROps sf samples segs1 segs2).
Proof. unfold closest_pair. apply outer_inv; [apply incl_refl | exact I]. Qed.

Lemma distanceToPath_gen_belong cd sf samples d t1 t2 s1 s2 :
  distanceToPath_gen ROps cd sf samples segs1 segs2 = Ok (d, t1, t2, s1, s2) ->
  In s1 segs1 /\ In s2 segs2 /\ cd s1 s2 = Ok (d, t1, t2).
Proof.
  unfold distanceToPath_gen. pose proof (closest_pair_inv sf samples) as Hinv.
  destruct (closest_pair ROps sf samples segs1 segs2) as [[md [[a b] |]] | | | | |]; cbn [res_map snd]; try discriminate.
  simpl in Hinv. destruct (cd a b) as [[[d' t1'] t2'] | | | | |] eqn:Ecd; cbn [res_map]; try discriminate.
  intros H. inversion H; subst. destruct Hinv as [Ha Hb]. repeat split; assumption.
Qed.

End Paths.

Theorem distanceToPath_segments_belong fuel (segs1 segs2 : list (segment R)) d t1 t2 s1 s2 :
  distanceToPath ROps fuel segs1 segs2 = Ok (d, t1, t2, s1, s2) ->
  In s1 segs1 /\ In s2 segs2 /\ 0 <= t1 <= 1 /\ 0 <= t2 <= 1 /\
  exists u' v', 0 <= u' <= 1 /\ 0 <= v' <= 1 /\ d = seg_dist s1 s2 u' v'.
Proof.
  unfold distanceToPath. intros H. apply distanceToPath_gen_belong in H. destruct H as (H1 & H2 & Hcd).
  apply curveDistance_realised in Hcd. tauto.
Qed.

(* between the paths: the reported distance is realised between a point of the first path and a point of the second,
   hence non-negative, never below a lower bound of the point distances (the true minimum), never above an upper
   bound (the greatest distance) *)
Corollary path_dist_bounds fuel (segs1 segs2 : list (segment R)) d t1 t2 s1 s2 lo hi :
  (forall a b, In a segs1 -> In b segs2 -> forall u v, 0 <= u <= 1 -> 0 <= v <= 1 -> lo <= seg_dist a b u v <= hi) ->
  distanceToPath ROps fuel segs1 segs2 = Ok (d, t1, t2, s1, s2) -> 0 <= d /\ lo <= d <= hi.
Proof.
  intros Hb H. apply distanceToPath_segments_belong in H.
  destruct H as (H1 & H2 & _ & _ & u' & v' & Hu & Hv & ->).
  split; [rewrite seg_dist_sqrt; apply sqrt_pos | exact (Hb s1 s2 H1 H2 u' v' Hu Hv)].
Qed.

(* ---------- the hypotheses are satisfiable: runs of the model that return a value ---------- *)
Lemma min2_same (a : R) : min2 ROps a a = a.
Proof. unfold min2. destruct (ltb ROps a a); reflexivity. Qed.

Lemma p1_fold_const (D : nat -> nat -> option R) c n m l :
  (forall ij, In ij l -> (fst ij < 2 * n)%nat /\ (snd ij < 2 * m)%nat) ->
  (forall r k, (r < 2 * n)%nat -> (k < 2 * m)%nat -> D r k = Some c) ->
  forall md mij, exists md' mij', fold_left (p1_step ROps D c) l (Ok (true, md, mij)) = Ok (true, md', mij').
Proof.
  intros Hl HD. induction l as [| rk l IH]; intros md mij; [exists md, mij; reflexivity |].
  cbn [fold_left]. unfold p1_step at 2. destruct (Hl rk (or_introl eq_refl)) as [Hr Hk].
  rewrite (HD _ _ Hr Hk).
  assert (E : ltb ROps c c = false) by (apply Rltb_false; lra). rewrite E.
  assert (Hl' : forall ij, In ij l -> (fst ij < 2 * n)%nat /\ (snd ij < 2 * m)%nat) by (intros; apply Hl; right; assumption).
  match goal with |- context [if ?b then _ else _] => destruct b end; apply (IH Hl').
Qed.

(* a finder whose S and D are the constant c stops at the top level ("Property 1": no coefficient below alpha) *)
Lemma minDist_const n m (S : R -> R -> option R) (D : nat -> nat -> option R) c fuel k :
  (forall u v, S u v = Some c) -> (forall r j, (r < 2 * n)%nat -> (j < 2 * m)%nat -> D r j = Some c) ->
  fst (minDist ROps n m S D (Datatypes.S fuel) (None, k) 0 1 0 1) = Ok (c, (0 + 1) / 2, (0 + 1) / 2).
Proof.
  intros HS HD. cbn [minDist]. unfold minDist_body. rewrite !HS. rewrite !min2_same. cbn [fst snd truthy andb].
  replace (leb ROps (abs_ ROps (sub ROps 1 0)) (eps_default ROps)) with false.
  2:{ symmetry. apply Rleb_false. unfold eps_default. cbn [lit abs_ sub ROps]. rewrite Rminus_0_r, Rabs_R1. lra. }
  cbn [orb].
  destruct (p1_fold_const D c n m (index_pairs n m)) with (md := @None R) (mij := @None (nat * nat)) as (md' & mij' & E);
    [intros [i j] Hin; apply in_index_pairs; exact Hin | exact HD |].
  rewrite E. reflexivity.
Qed.

Example minDist_ok_example :
  fst (minDist ROps 1 1 (fun _ _ => Some 1) (fun _ _ => Some 1) 1 (None, 0%nat) 0 1 0 1) = Ok (1, (0 + 1) / 2, (0 + 1) / 2).
Proof. apply minDist_const; reflexivity. Qed.

(* two concrete (degenerate, point-like) lines at distance 1: curveDistance returns 1 at the mid parameters, for
   every positive fuel *)
Definition pointlike_a : segment R := SLine (L2 (P 0 0) (P 0 0)).
Definition pointlike_b : segment R := SLine (L2 (P 1 0) (P 1 0)).
Example curveDistance_ok_example fuel :
  curveDistance ROps (Datatypes.S fuel) pointlike_a pointlike_b = Ok (sqrt 1, (0 + 1) / 2, (0 + 1) / 2).
Proof.
  unfold curveDistance, curveDistance_with, curveDistance_state.
  pose proof (minDist_const (seg_order pointlike_a) (seg_order pointlike_b)
                (fun u v => Some (seg_S ROps pointlike_a pointlike_b u v)) (Dtab (seg_Dtable ROps pointlike_a pointlike_b)) 1 fuel 0%nat) as H.
  cbn [ofZ ROps].
  destruct (minDist ROps (seg_order pointlike_a) (seg_order pointlike_b) (fun u v => Some (seg_S ROps pointlike_a pointlike_b u v))
              (Dtab (seg_Dtable ROps pointlike_a pointlike_b)) (Datatypes.S fuel) (None, 0%nat) 0 1 0 1) as [r st].
  cbn [fst] in *. rewrite H.
  - cbn [res_map]. rewrite clamp_id by lra. reflexivity.
  - intros u v. f_equal. rewrite seg_S_is_sqdist. unfold seg_sqdist, pointlike_a, pointlike_b. rcbv. ring.
  - intros r0 j Hr Hj. cbn [seg_order pointlike_a pointlike_b] in Hr, Hj.
    assert (Hc : (r0 = 0 \/ r0 = 1)%nat /\ (j = 0 \/ j = 1)%nat) by lia.
    destruct Hc as [[-> | ->] [-> | ->]]; unfold pointlike_a, pointlike_b; rcbv; f_equal; lra.
Qed.

(* ---------- link between the D table and S: the D(r,k) are the Bernstein coefficients of S ---------- *)
Fixpoint binom (n k : nat) : nat :=
  match n, k with
  | _, O => 1
  | O, Datatypes.S _ => 0
  | Datatypes.S n', Datatypes.S k' => binom n' k' + binom n' k
  end.
Definition bern (N r : nat) (u : R) : R := INR (binom N r) * (1 - u) ^ (N - r) * u ^ r.
(* sum_{r=0..N} sum_{k=0..M} D(r,k) B^N_r(u) B^M_k(v); all these entries are available (seg_Dtable_available) *)
Definition bern_form (tbl : list (list R)) (N M : nat) (u v : R) : R :=
  fold_right Rplus 0 (map (fun r => fold_right Rplus 0 (map (fun k =>
    match Dtab tbl r k with Some d => d * bern N r u * bern M k v | None => 0 end) (seq 0 (Datatypes.S M)))) (seq 0 (Datatypes.S N))).

Lemma S_is_bernstein_form_line (a : seg2 R) s2 u v :
  seg_S ROps (SLine a) s2 u v = bern_form (seg_Dtable ROps (SLine a) s2) 2 (2 * seg_order s2) u v.
Proof. destruct s2 as [b | b | b]; destruct_pts; rcbv; ring. Qed.
Lemma S_is_bernstein_form_quad (a : seg3 R) s2 u v :
  seg_S ROps (SQuad a) s2 u v = bern_form (seg_Dtable ROps (SQuad a) s2) 4 (2 * seg_order s2) u v.
Proof. destruct s2 as [b | b | b]; destruct_pts; rcbv; ring. Qed.
Lemma S_is_bernstein_form_cubic (a : seg4 R) s2 u v :
  seg_S ROps (SCubic a) s2 u v = bern_form (seg_Dtable ROps (SCubic a) s2) 6 (2 * seg_order s2) u v.
Proof. destruct s2 as [b | b | b]; destruct_pts; rcbv; ring. Qed.

Theorem S_is_bernstein_form s1 s2 u v :
  seg_S ROps s1 s2 u v = bern_form (seg_Dtable ROps s1 s2) (2 * seg_order s1) (2 * seg_order s2) u v.
Proof.
  destruct s1 as [a | a | a]; [apply S_is_bernstein_form_line | apply S_is_bernstein_form_quad | apply S_is_bernstein_form_cubic].
Qed.
