(* C11, curved segments, without the hypothesis [mq_inbox] of Proofs/C11curves.v.

   [mixed_query] assumes that every crossing abscissa of the level lies inside the COMPUTED box ([mq_inbox]).  For
   lines that is automatic; for curves the computed box encloses the curve only up to C02's sliver term
   sigma(ext) = 0.06 % of the control-polygon extent.  But the two rays of windingNumberOfPoint do not start at the
   box: they start 10 units outside it.  All that the ray lemmas ([ray_count], [ray_sum] of C11curves, Section OneRay)
   need of a crossing abscissa xc is

       xL + m <= xc <= xR - m      with   xL = left - 10,  xR = right + 10,   my_eps * ray_reach <= m          (+)

   ((+) gives: xc is strictly between the two ray origins, so the left ray sees it iff xc < x and the right ray iff
   x < xc [on_rayb_left/right]; and its ray parameter is at least my_eps, so it is clear of the 2e-7 window at the ray
   origin [wclear]; the window at the query point is cleared by [mq_off], as before.)

   Part 1:  [crossing_in_padded_box]: for every segment s of a path with computed box b0 and every t in [0,1],
            left(b0) - sigma(ext_x s) <= x(s, t) <= right(b0) + sigma(ext_x s)  -- NO hypothesis (C02's total enclosure per
            segment + the path box is the join of the segment boxes).  The sharper [crossing_in_sliver_box] has the
            allowance [seg_sliver] = 0 for lines (C02: lines are enclosed exactly).
   Part 2:  [mixed_query_between]: [mixed_query] with [mq_inbox] replaced by (+) itself; the section [Mixed] of
            C11curves replayed on it (its only uses of [mq_inbox] were mq_wL, mq_wR, mq_sideL, mq_sideR); it is
            implied by [mixed_query] (so nothing is lost) and by
            [mixed_query_sized]: [mixed_query] with [mq_inbox] replaced by the SIZE condition
                mq_small : seg_sliver px s + my_eps * ray_reach b0 x <= 10   for every segment s of the path,
            i.e. 0.06 % of the x-extent of each CURVED segment plus 2e-7 of the longer ray is at most the 10-unit
            margin (x-extents up to ~16 666 units).  Theorems [mixed_dict_counts_sized], [mixed_winding_number_sized],
            [mixed_winding_parity_sized], [mixed_even_odd_sized]: the conclusions of the originals.
            [mixed_query_sized_of_ext]: the condition stated with C03's [seg_ext] (sigma (seg_ext px s) + ... <= 10) is
            sufficient too.
   Part 3:  for a path of lines [mq_small] IS [mq_size] ([mq_small_lines]); a [polygon_query] is a [mixed_query_sized]
            and the polygon even-odd theorem of Proofs/C11.v is recovered in its own terms [polygon_even_odd_via_sized].
   Part 4:  non-vacuity: the lens (line + quadratic + cubic) of C11curves with the query (1, 15/4) satisfies
            [mixed_query_sized]; pointIsInside / windingNumberOfPoint re-derived through the sized theorems. *)
From Coq Require Import PrimFloat.
From Coq Require Import ZArith List Bool Reals Lra Lia Psatz Permutation.
From BZ Require Import Base.Ops Proofs.Tactics Gen.Point Gen.Utils Gen.Affine Gen.BBox Gen.Line Gen.Quad Gen.Cubic.
From BZ Require Import Hand.Bounds Hand.Shoelace Hand.Winding Proofs.C02 Proofs.C05 Proofs.C18 Proofs.C11 Proofs.C11curves.
From BZ Require Proofs.C03.
Import ListNotations.
Open Scope R_scope.

(* ================================================================================================ *)
(** * 1. Every point of every segment lies in the path's box enlarged by the segment's sliver term    *)
(* ================================================================================================ *)

(* what C02 allows a segment to protrude from its own computed box, in the coordinate [sel]: nothing for a line,
   sigma = 0.06 % of the control-polygon extent for a quadratic / cubic *)
Definition seg_sliver (sel : pt R -> R) (s : segment R) : R :=
  match s with
  | SLine _ => 0
  | SQuad q => sigma (quad_ext sel q)
  | SCubic c => sigma (cubic_ext sel c)
  end.

Lemma ext3_nonneg v0 v1 v2 : 0 <= ext3 v0 v1 v2.
Proof. destruct (ext3_spec v0 v1 v2) as (lo & hi & -> & H & _). lra. Qed.
Lemma ext4_nonneg v0 v1 v2 v3 : 0 <= ext4 v0 v1 v2 v3.
Proof. destruct (ext4_spec v0 v1 v2 v3) as (lo & hi & -> & H & _). lra. Qed.

Lemma seg_sliver_nonneg sel s : 0 <= seg_sliver sel s.
Proof.
  destruct s as [e|q|c]; cbn [seg_sliver]; unfold sigma, quad_ext, cubic_ext; [lra | |].
  - pose proof (ext3_nonneg (sel (q0 q)) (sel (q1 q)) (sel (q2 q))). lra.
  - pose proof (ext4_nonneg (sel (c0 c)) (sel (c1 c)) (sel (c2 c)) (sel (c3 c))). lra.
Qed.

(* it is at most sigma of C03's extent (equal for curves; for a line C03's extent is |end - start|, the sliver is 0) *)
Lemma seg_sliver_le_sigma sel s : seg_sliver sel s <= sigma (C03.seg_ext sel s).
Proof.
  destruct s as [e|q|c]; cbn [seg_sliver C03.seg_ext]; [|lra|lra].
  unfold sigma. pose proof (Rabs_pos (sel (l1 e) - sel (l0 e))). lra.
Qed.

(* one segment against its own box *)
Lemma segment_in_own_box (s : segment R) (b : bbox R) (t : R) :
  segment_bounds ROps s = Some b -> 0 <= t <= 1 ->
  px (bl b) - seg_sliver px s <= px (seg_point s t) <= px (tr b) + seg_sliver px s.
Proof.
  intros E I. destruct s as [e|q|c]; cbn [segment_bounds seg_point seg_sliver] in *.
  - pose proof (line_bounds_enclose e b E t I) as H. apply in_box_includes in H. destruct H as [H _]. lra.
  - exact (proj1 (quad_bounds_enclose q b E t I)).
  - exact (proj1 (cubic_bounds_enclose_total c b E t I)).
Qed.

Lemma all_some_spec {A B} (f : A -> option B) (l : list A) : forall r,
  all_some (map f l) = Some r ->
  (forall a, In a l -> exists b, f a = Some b /\ In b r) /\ (forall b, In b r -> exists a, In a l /\ f a = Some b).
Proof.
  induction l as [|a l IH]; intros r E; cbn [map all_some] in E.
  - injection E as <-. split; [intros a [] | intros b []].
  - destruct (f a) as [b0|] eqn:Fa; [|discriminate]. destruct (all_some (map f l)) as [r'|]; [|discriminate].
    injection E as <-. destruct (IH r' eq_refl) as [H1 H2]. split.
    + intros a' [<-|Ha]; [exists b0; split; [exact Fa | left; reflexivity]|].
      destruct (H1 a' Ha) as [b [Fb Hb]]. exists b. split; [exact Fb | right; exact Hb].
    + intros b [<-|Hb]; [exists a; split; [left; reflexivity | exact Fa]|].
      destruct (H2 b Hb) as [a' [Ha Fa']]. exists a'. split; [right; exact Ha | exact Fa'].
Qed.

(* the path box contains the box of every segment of the path *)
Lemma path_box_contains (segs : list (segment R)) (b0 : bbox R) (s : segment R) :
  path_box ROps segs = Some b0 -> In s segs ->
  exists b, segment_bounds ROps s = Some b /\ contains b0 b.
Proof.
  intros E Hs. unfold path_box in E. destruct (all_some (map (segment_bounds ROps) segs)) as [boxes|] eqn:Ea; [|discriminate].
  destruct (all_some_spec _ _ _ Ea) as [H1 H2]. destruct (H1 s Hs) as [b [Eb Hb]]. exists b. split; [exact Eb|].
  refine (proj1 (path_bounds_is_join boxes b0 E _) b Hb).
  intros z Hz. destruct (H2 z Hz) as [s' [_ Es']]. destruct (segment_bounds_some s') as [z' [Ez' W]].
  rewrite Es' in Ez'. injection Ez' as <-. exact W.
Qed.

(** 1a. Sharp form: lines are enclosed exactly, curves up to their own sliver term. *)
Theorem crossing_in_sliver_box (segs : list (segment R)) (b0 : bbox R) (s : segment R) (t : R) :
  path_box ROps segs = Some b0 -> In s segs -> 0 <= t <= 1 ->
  px (bl b0) - seg_sliver px s <= px (seg_point s t) <= px (tr b0) + seg_sliver px s.
Proof.
  intros E Hs I. destruct (path_box_contains segs b0 s E Hs) as [b [Eb (C1 & _ & C3 & _)]].
  pose proof (segment_in_own_box s b t Eb I). lra.
Qed.

(** 1b. The form with C03's control-polygon extent. *)
Theorem crossing_in_padded_box (segs : list (segment R)) (b0 : bbox R) (s : segment R) (t : R) :
  path_box ROps segs = Some b0 -> In s segs -> 0 <= t <= 1 ->
  px (bl b0) - sigma (C03.seg_ext px s) <= px (seg_point s t) <= px (tr b0) + sigma (C03.seg_ext px s).
Proof.
  intros E Hs I. pose proof (crossing_in_sliver_box segs b0 s t E Hs I). pose proof (seg_sliver_le_sigma px s). lra.
Qed.

(* ================================================================================================ *)
(** * 2. The ray lemmas need only: every crossing keeps clear of the two ray origins                  *)
(* ================================================================================================ *)

(** 2a. The windows of the two rays, with a margin m in place of the constant 10 ([window_L], [window_R] of C11curves
    are the case m = 10). *)
Lemma window_L_margin (xL x xc reach m : R) :
  xL <> x -> xL + m <= xc -> Rabs (x - xL) <= reach -> my_eps * reach <= m -> my_eps * reach < Rabs (xc - x) ->
  wclear xL x xc.
Proof.
  intros N C1 R1 Hsize Off. pose proof my_eps_pos as Hm. pose proof (Rabs_pos (x - xL)) as R0. unfold wclear, rt.
  destruct (Rlt_dec xL x) as [L|L].
  - rewrite Rabs_pos_eq in R1 by lra.
    destruct (div_cmp (xc - xL) (x - xL) ltac:(lra) my_eps) as (A & _ & _).
    destruct (div_cmp (xc - xL) (x - xL) ltac:(lra) 1) as (_ & B & _).
    destruct (div_cmp (xc - xL) (x - xL) ltac:(lra) (1 + my_eps)) as (_ & _ & C).
    split; [right; apply A; nra|].
    destruct (Rlt_dec xc x) as [Lx|Lx]; [left; apply B; lra|].
    right. apply C. rewrite Rabs_pos_eq in Off by lra. nra.
  - assert (Lx : x < xL) by lra. rewrite Rabs_left1 in R1 by lra.
    assert (Mp : 0 < m) by nra.
    replace ((xc - xL) / (x - xL)) with (- ((xc - xL) / (xL - x))) by (field; lra).
    destruct (div_cmp (xc - xL) (xL - x) ltac:(lra) 0) as (_ & _ & C).
    assert (0 < (xc - xL) / (xL - x)) by (apply C; lra).
    split; left; lra.
Qed.

Lemma window_R_margin (xR x xc reach m : R) :
  xR <> x -> xc <= xR - m -> Rabs (xR - x) <= reach -> my_eps * reach <= m -> my_eps * reach < Rabs (xc - x) ->
  wclear xR x xc.
Proof.
  intros N C2 R2 Hsize Off. pose proof my_eps_pos as Hm. pose proof (Rabs_pos (xR - x)) as R0. unfold wclear, rt.
  destruct (Rlt_dec x xR) as [L|L].
  - rewrite Rabs_pos_eq in R2 by lra.
    replace ((xc - xR) / (x - xR)) with ((xR - xc) / (xR - x)) by (field; lra).
    destruct (div_cmp (xR - xc) (xR - x) ltac:(lra) my_eps) as (A & _ & _).
    destruct (div_cmp (xR - xc) (xR - x) ltac:(lra) 1) as (_ & B & _).
    destruct (div_cmp (xR - xc) (xR - x) ltac:(lra) (1 + my_eps)) as (_ & _ & C).
    split; [right; apply A; nra|].
    destruct (Rlt_dec x xc) as [Lx|Lx]; [left; apply B; lra|].
    right. apply C. rewrite Rabs_left1 in Off by lra. nra.
  - assert (Lx : xR < x) by lra. rewrite Rabs_left1 in R2 by lra.
    assert (Mp : 0 < m) by nra.
    replace ((xc - xR) / (x - xR)) with (- ((xR - xc) / (x - xR))) by (field; lra).
    destruct (div_cmp (xR - xc) (x - xR) ltac:(lra) 0) as (_ & _ & C).
    assert (0 < (xR - xc) / (x - xR)) by (apply C; lra).
    split; left; lra.
Qed.

(** 2b. [mixed_query] with [mq_inbox] replaced by what the ray lemmas use of it: every crossing abscissa is at least
    2e-7 ray lengths inside the two ray origins  left - 10  and  right + 10. *)
Record mixed_query_between (srs : xpath) (b0 : bbox R) (x y : R) : Prop := mk_mixed_query_between {
  mb_box : path_box ROps (map fst srs) = Some b0;
  mb_closed : mclosed_chain (map fst srs);
  mb_level : forall sr, In sr srs -> level_ok y sr;
  mb_gp : forall sr, In sr srs -> seg_gp_level y (fst sr);
  mb_rayL : isclose ROps (px (bl b0) - 10) x = false;
  mb_rayR : isclose ROps (px (tr b0) + 10) x = false;
  mb_eps : forall sr, In sr srs -> forall r, In r (snd sr) -> my_eps <= r;
  (* the replacement of [mq_size] + [mq_inbox] *)
  mb_between : forall sr, In sr srs -> forall r, In r (snd sr) ->
     (px (bl b0) - 10) + my_eps * ray_reach b0 x <= px (seg_point (fst sr) r) <= (px (tr b0) + 10) - my_eps * ray_reach b0 x;
  mb_off : forall sr, In sr srs -> forall r, In r (snd sr) -> my_eps * ray_reach b0 x < Rabs (px (seg_point (fst sr) r) - x);
  mb_distinct : NoDup (crossing_points srs) }.

Section Between.
Variables (srs : xpath) (b0 : bbox R) (x y : R).
Hypothesis Q : mixed_query_between srs b0 x y.
Let xL := px (bl b0) - 10.
Let xR := px (tr b0) + 10.

Lemma mb_reach : 0 <= ray_reach b0 x /\ Rabs (x - xL) <= ray_reach b0 x /\ Rabs (xR - x) <= ray_reach b0 x.
Proof.
  unfold ray_reach, xL, xR. pose proof (Rabs_pos (x - (px (bl b0) - 10))).
  pose proof (Rmax_l (Rabs (x - (px (bl b0) - 10))) (Rabs (px (tr b0) + 10 - x))).
  pose proof (Rmax_r (Rabs (x - (px (bl b0) - 10))) (Rabs (px (tr b0) + 10 - x))). lra.
Qed.

Lemma mb_NL : xL <> x.
Proof. exact (isclose_false_neq _ _ (mb_rayL _ _ _ _ Q)). Qed.
Lemma mb_NR : xR <> x.
Proof. exact (isclose_false_neq _ _ (mb_rayR _ _ _ _ Q)). Qed.

(* the margin is positive: the rays are not degenerate *)
Lemma mb_margin_pos : 0 < my_eps * ray_reach b0 x.
Proof.
  destruct mb_reach as (_ & R1 & _). pose proof my_eps_pos. pose proof mb_NL.
  assert (0 < Rabs (x - xL)) by (apply Rabs_pos_lt; lra). nra.
Qed.

Lemma mb_not_x sr r : In sr srs -> In r (snd sr) -> px (seg_point (fst sr) r) <> x.
Proof.
  intros Hsr Hr E. pose proof (mb_off _ _ _ _ Q sr Hsr r Hr) as Off. destruct mb_reach as (R0 & _). pose proof my_eps_pos.
  rewrite E, Rminus_diag_eq, Rabs_R0 in Off by reflexivity. nra.
Qed.

Lemma mb_gpL sr : In sr srs -> seg_gp xL x y (fst sr).
Proof. intros H. apply seg_gp_of_level; [exact mb_NL | exact (mb_gp _ _ _ _ Q sr H)]. Qed.
Lemma mb_gpR sr : In sr srs -> seg_gp xR x y (fst sr).
Proof. intros H. apply seg_gp_of_level; [exact mb_NR | exact (mb_gp _ _ _ _ Q sr H)]. Qed.

(* the four facts the section [Mixed] of C11curves derived from [mq_inbox] *)
Lemma mb_wL sr : In sr srs -> forall r, In r (snd sr) -> my_eps <= r /\ wclear xL x (px (seg_point (fst sr) r)).
Proof.
  intros Hsr r Hr. destruct mb_reach as (R0 & R1 & R2). split; [exact (mb_eps _ _ _ _ Q sr Hsr r Hr)|].
  destruct (mb_between _ _ _ _ Q sr Hsr r Hr) as [B1 B2].
  apply (window_L_margin xL x _ (ray_reach b0 x) (my_eps * ray_reach b0 x));
    [exact mb_NL | exact B1 | exact R1 | lra | exact (mb_off _ _ _ _ Q sr Hsr r Hr)].
Qed.
Lemma mb_wR sr : In sr srs -> forall r, In r (snd sr) -> my_eps <= r /\ wclear xR x (px (seg_point (fst sr) r)).
Proof.
  intros Hsr r Hr. destruct mb_reach as (R0 & R1 & R2). split; [exact (mb_eps _ _ _ _ Q sr Hsr r Hr)|].
  destruct (mb_between _ _ _ _ Q sr Hsr r Hr) as [B1 B2].
  apply (window_R_margin xR x _ (ray_reach b0 x) (my_eps * ray_reach b0 x));
    [exact mb_NR | exact B2 | exact R2 | lra | exact (mb_off _ _ _ _ Q sr Hsr r Hr)].
Qed.

Lemma mb_sideL sr : In sr srs -> forall r, In r (snd sr) -> on_rayb xL x (px (seg_point (fst sr) r)) = left_c x (fst sr) r.
Proof.
  intros Hsr r Hr. destruct (mb_between _ _ _ _ Q sr Hsr r Hr) as [B1 B2]. pose proof mb_margin_pos.
  unfold left_c. apply on_rayb_left; [unfold xL; lra | exact mb_NL].
Qed.
Lemma mb_sideR sr : In sr srs -> forall r, In r (snd sr) -> on_rayb xR x (px (seg_point (fst sr) r)) = right_c x (fst sr) r.
Proof.
  intros Hsr r Hr. destruct (mb_between _ _ _ _ Q sr Hsr r Hr) as [B1 B2]. pose proof mb_margin_pos.
  unfold right_c. apply on_rayb_right; [unfold xR; lra | exact mb_NR].
Qed.

Lemma between_sides_parity : Nat.odd (count_if (left_c x) srs) = Nat.odd (count_if (right_c x) srs).
Proof.
  apply (left_right_parity_x x y srs (mb_closed _ _ _ _ Q) (mb_level _ _ _ _ Q)).
  intros sr Hsr r Hr. apply mb_not_x; assumption.
Qed.
Lemma between_sides_signed : Z.abs (signed_if (left_c x) srs) = Z.abs (signed_if (right_c x) srs).
Proof.
  apply (left_right_signed x y srs (mb_closed _ _ _ _ Q) (mb_level _ _ _ _ Q)).
  intros sr Hsr r Hr. apply mb_not_x; assumption.
Qed.

Lemma between_count_L : length (collect ROps (map fst srs) (hray xL x y)) = count_if (left_c x) srs.
Proof. exact (ray_count srs xL x y (left_c x) (mb_rayL _ _ _ _ Q) (mb_level _ _ _ _ Q) mb_gpL mb_wL mb_sideL (mb_distinct _ _ _ _ Q)). Qed.
Lemma between_count_R : length (collect ROps (map fst srs) (hray xR x y)) = count_if (right_c x) srs.
Proof. exact (ray_count srs xR x y (right_c x) (mb_rayR _ _ _ _ Q) (mb_level _ _ _ _ Q) mb_gpR mb_wR mb_sideR (mb_distinct _ _ _ _ Q)). Qed.
Lemma between_sum_L : winding_sum ROps (collect ROps (map fst srs) (hray xL x y)) = signed_if (left_c x) srs.
Proof. exact (ray_sum srs xL x y (left_c x) (mb_rayL _ _ _ _ Q) (mb_level _ _ _ _ Q) mb_gpL mb_wL mb_sideL (mb_distinct _ _ _ _ Q)). Qed.
Lemma between_sum_R : winding_sum ROps (collect ROps (map fst srs) (hray xR x y)) = signed_if (right_c x) srs.
Proof. exact (ray_sum srs xR x y (right_c x) (mb_rayR _ _ _ _ Q) (mb_level _ _ _ _ Q) mb_gpR mb_wR mb_sideR (mb_distinct _ _ _ _ Q)). Qed.

Theorem between_winding_number_sec :
  windingNumberOfPoint ROps (map fst srs) (P x y) = Some (Z.abs (signed_if (left_c x) srs)) /\
  Z.abs (signed_if (left_c x) srs) = Z.abs (signed_if (right_c x) srs).
Proof.
  pose proof between_sides_signed as E. split; [|exact E].
  unfold windingNumberOfPoint. rewrite (rays_any (map fst srs) b0 x y (mb_box _ _ _ _ Q)). fold xL xR.
  rewrite between_sum_L, between_sum_R, <- E, Z.max_id. reflexivity.
Qed.

Theorem between_winding_parity_sec :
  exists w, windingNumberOfPoint ROps (map fst srs) (P x y) = Some w /\
            Z.odd w = Nat.odd (count_if (left_c x) srs) /\ (0 <= w)%Z.
Proof.
  pose proof (rays_any (map fst srs) b0 x y (mb_box _ _ _ _ Q)) as Hr. fold xL xR in Hr.
  destruct between_winding_number_sec as [Hw _]. eexists. split; [exact Hw|].
  destruct (windingNumber_parity_any R ROps _ _ _ _ _ Hr Hw) as (_ & H & Pos). cbv zeta in H.
  rewrite between_count_L, between_count_R in H. split; [apply H; exact between_sides_parity | exact Pos].
Qed.

Theorem between_even_odd_sec :
  pointIsInside ROps (map fst srs) (P x y) = Some (Nat.odd (count_if (left_c x) srs)) /\
  Nat.odd (count_if (left_c x) srs) = Nat.odd (count_if (right_c x) srs).
Proof.
  destruct between_winding_parity_sec as (w & Hw & Pw & _). split; [|exact between_sides_parity].
  rewrite (pointIsInside_parity_any R ROps _ _ w Hw), Pw. reflexivity.
Qed.

End Between.

Theorem mixed_dict_counts_between srs b0 x y : mixed_query_between srs b0 x y ->
  length (collect ROps (map fst srs) (hray (px (bl b0) - 10) x y)) = count_if (left_c x) srs /\
  length (collect ROps (map fst srs) (hray (px (tr b0) + 10) x y)) = count_if (right_c x) srs.
Proof. intros Q. split; [exact (between_count_L srs b0 x y Q) | exact (between_count_R srs b0 x y Q)]. Qed.

Theorem mixed_winding_number_between srs b0 x y : mixed_query_between srs b0 x y ->
  windingNumberOfPoint ROps (map fst srs) (P x y) = Some (Z.abs (signed_if (left_c x) srs)) /\
  Z.abs (signed_if (left_c x) srs) = Z.abs (signed_if (right_c x) srs).
Proof. exact (between_winding_number_sec srs b0 x y). Qed.

Theorem mixed_winding_parity_between srs b0 x y : mixed_query_between srs b0 x y ->
  exists w, windingNumberOfPoint ROps (map fst srs) (P x y) = Some w /\
            Z.odd w = Nat.odd (count_if (left_c x) srs) /\ (0 <= w)%Z.
Proof. exact (between_winding_parity_sec srs b0 x y). Qed.

Theorem mixed_even_odd_between srs b0 x y : mixed_query_between srs b0 x y ->
  pointIsInside ROps (map fst srs) (P x y) = Some (Nat.odd (count_if (left_c x) srs)) /\
  Nat.odd (count_if (left_c x) srs) = Nat.odd (count_if (right_c x) srs).
Proof. exact (between_even_odd_sec srs b0 x y). Qed.

(* nothing is lost: the original hypothesis bundle is an instance *)
Theorem mixed_query_is_between srs b0 x y : mixed_query srs b0 x y -> mixed_query_between srs b0 x y.
Proof.
  intros [Hbox Hclosed Hlevel Hgp HrayL HrayR Hsize Heps Hinbox Hoff Hdistinct].
  constructor; try assumption.
  intros sr Hsr r Hr. specialize (Hinbox sr Hsr r Hr). lra.
Qed.

(** 2c. The size form: [mixed_query] with [mq_inbox] replaced by [mq_small]. *)
Record mixed_query_sized (srs : xpath) (b0 : bbox R) (x y : R) : Prop := mk_mixed_query_sized {
  (* the path is a closed chain and b0 is what BezierPath.bounds() computes for it *)
  ms_box : path_box ROps (map fst srs) = Some b0;
  ms_closed : mclosed_chain (map fst srs);
  (* the level y passes through no node; each list is the list of the (transversal) crossings of its segment *)
  ms_level : forall sr, In sr srs -> level_ok y sr;
  (* general position of every segment with respect to the level, in the code's tolerances (see [seg_gp_level]) *)
  ms_gp : forall sr, In sr srs -> seg_gp_level y (fst sr);
  (* neither ray is degenerate for the code *)
  ms_rayL : isclose ROps (px (bl b0) - 10) x = false;
  ms_rayR : isclose ROps (px (tr b0) + 10) x = false;
  (* size: 2e-7 of the longer ray is at most the 10-unit margin *)
  ms_size : my_eps * ray_reach b0 x <= 10;
  (* no crossing within the first 2e-7 of its segment's parameter range *)
  ms_eps : forall sr, In sr srs -> forall r, In r (snd sr) -> my_eps <= r;
  (* size of the curved segments: 0.06 % of the x-extent of the control polygon of each quadratic / cubic (nothing for
     a line) plus 2e-7 of the longer ray is at most the 10-unit margin *)
  mq_small : forall sr, In sr srs -> seg_sliver px (fst sr) + my_eps * ray_reach b0 x <= 10;
  (* the query point is not on the path, nor within 2e-7 ray lengths of a crossing of its level *)
  ms_off : forall sr, In sr srs -> forall r, In r (snd sr) -> my_eps * ray_reach b0 x < Rabs (px (seg_point (fst sr) r) - x);
  (* no two crossing points of the level coincide (the dicts are keyed by the crossing point) *)
  ms_distinct : NoDup (crossing_points srs) }.

Theorem mixed_query_sized_is_between srs b0 x y : mixed_query_sized srs b0 x y -> mixed_query_between srs b0 x y.
Proof.
  intros [Hbox Hclosed Hlevel Hgp HrayL HrayR Hsize Heps Hsmall Hoff Hdistinct].
  constructor; try assumption.
  intros sr Hsr r Hr. destruct (Hlevel sr Hsr) as ((_ & HR & _) & _ & _). destruct (proj1 (HR r) Hr) as [I _].
  pose proof (crossing_in_sliver_box (map fst srs) b0 (fst sr) r Hbox (in_map fst _ _ Hsr) ltac:(lra)) as B.
  specialize (Hsmall sr Hsr). lra.
Qed.

Theorem mixed_dict_counts_sized srs b0 x y : mixed_query_sized srs b0 x y ->
  length (collect ROps (map fst srs) (hray (px (bl b0) - 10) x y)) = count_if (left_c x) srs /\
  length (collect ROps (map fst srs) (hray (px (tr b0) + 10) x y)) = count_if (right_c x) srs.
Proof. intros Q. apply mixed_dict_counts_between, mixed_query_sized_is_between, Q. Qed.

Theorem mixed_winding_number_sized srs b0 x y : mixed_query_sized srs b0 x y ->
  windingNumberOfPoint ROps (map fst srs) (P x y) = Some (Z.abs (signed_if (left_c x) srs)) /\
  Z.abs (signed_if (left_c x) srs) = Z.abs (signed_if (right_c x) srs).
Proof. intros Q. apply (mixed_winding_number_between srs b0), mixed_query_sized_is_between, Q. Qed.

Theorem mixed_winding_parity_sized srs b0 x y : mixed_query_sized srs b0 x y ->
  exists w, windingNumberOfPoint ROps (map fst srs) (P x y) = Some w /\
            Z.odd w = Nat.odd (count_if (left_c x) srs) /\ (0 <= w)%Z.
Proof. intros Q. apply (mixed_winding_parity_between srs b0), mixed_query_sized_is_between, Q. Qed.

Theorem mixed_even_odd_sized srs b0 x y : mixed_query_sized srs b0 x y ->
  pointIsInside ROps (map fst srs) (P x y) = Some (Nat.odd (count_if (left_c x) srs)) /\
  Nat.odd (count_if (left_c x) srs) = Nat.odd (count_if (right_c x) srs).
Proof. intros Q. apply (mixed_even_odd_between srs b0), mixed_query_sized_is_between, Q. Qed.

(* the size condition stated with C03's extent (which also charges lines) is sufficient; [ms_size] then follows *)
Theorem mixed_query_sized_of_ext srs b0 x y :
  path_box ROps (map fst srs) = Some b0 ->
  mclosed_chain (map fst srs) ->
  (forall sr, In sr srs -> level_ok y sr) ->
  (forall sr, In sr srs -> seg_gp_level y (fst sr)) ->
  isclose ROps (px (bl b0) - 10) x = false ->
  isclose ROps (px (tr b0) + 10) x = false ->
  (forall sr, In sr srs -> forall r, In r (snd sr) -> my_eps <= r) ->
  (forall sr, In sr srs -> sigma (C03.seg_ext px (fst sr)) + my_eps * ray_reach b0 x <= 10) ->
  (forall sr, In sr srs -> forall r, In r (snd sr) -> my_eps * ray_reach b0 x < Rabs (px (seg_point (fst sr) r) - x)) ->
  NoDup (crossing_points srs) ->
  mixed_query_sized srs b0 x y.
Proof.
  intros Hbox Hclosed Hlevel Hgp HrayL HrayR Heps Hsmall Hoff Hdistinct. constructor; try assumption.
  - destruct srs as [|sr srs']; [cbv in Hbox; discriminate|].
    pose proof (Hsmall sr (or_introl eq_refl)) as H. pose proof (seg_sliver_le_sigma px (fst sr)). pose proof (seg_sliver_nonneg px (fst sr)). lra.
  - intros sr Hsr. pose proof (Hsmall sr Hsr). pose proof (seg_sliver_le_sigma px (fst sr)). lra.
Qed.

(* ================================================================================================ *)
(** * 3. Paths of lines: the size condition is [mq_size]; the polygon theorem                         *)
(* ================================================================================================ *)

Lemma mq_small_lines (srs : xpath) (b0 : bbox R) (x : R) :
  (forall sr, In sr srs -> exists e, fst sr = SLine e) ->
  my_eps * ray_reach b0 x <= 10 ->
  forall sr, In sr srs -> seg_sliver px (fst sr) + my_eps * ray_reach b0 x <= 10.
Proof. intros HL Hsize sr Hsr. destruct (HL sr Hsr) as [e ->]. cbn [seg_sliver]. lra. Qed.

Theorem polygon_mixed_query_sized ls b0 x y : polygon_query ls b0 x y -> mixed_query_sized (polygon_xpath y ls) b0 x y.
Proof.
  intros H. destruct (polygon_mixed_query ls b0 x y H) as [Hbox Hclosed Hlevel Hgp HrayL HrayR Hsize Heps _ Hoff Hdistinct].
  constructor; try assumption.
  apply mq_small_lines; [|exact Hsize].
  intros sr Hsr. apply in_map_iff in Hsr. destruct Hsr as [e [<- _]]. exists e. reflexivity.
Qed.

(* the crossings of a polygon left / right of x, counted on the edges *)
Lemma polygon_count_left ls x y : count_if (left_c x) (polygon_xpath y ls) = length (filter (left_of x y) ls).
Proof.
  unfold count_if, polygon_xpath. induction ls as [|e ls IH]; [reflexivity|]. cbn [map nsum fst snd filter].
  rewrite IH. unfold left_of at 2. destruct (straddlesb e y) eqn:S; cbn [andb filter]; [|reflexivity].
  apply straddlesb_true in S. assert (Nd : py (l1 e) <> py (l0 e)) by (destruct S; lra).
  unfold left_c at 1. cbn [seg_point]. rewrite (line_at_et e y Nd). cbn [px].
  destruct (ltb ROps (cross_x e y) x); reflexivity.
Qed.
Lemma polygon_count_right ls x y : count_if (right_c x) (polygon_xpath y ls) = length (filter (right_of x y) ls).
Proof.
  unfold count_if, polygon_xpath. induction ls as [|e ls IH]; [reflexivity|]. cbn [map nsum fst snd filter].
  rewrite IH. unfold right_of at 2. destruct (straddlesb e y) eqn:S; cbn [andb filter]; [|reflexivity].
  apply straddlesb_true in S. assert (Nd : py (l1 e) <> py (l0 e)) by (destruct S; lra).
  unfold right_c at 1. cbn [seg_point]. rewrite (line_at_et e y Nd). cbn [px].
  destruct (ltb ROps x (cross_x e y)); reflexivity.
Qed.

(* [polygon_even_odd] of Proofs/C11.v, through the sized theorem *)
Theorem polygon_even_odd_via_sized ls b0 x y : polygon_query ls b0 x y ->
  pointIsInside ROps (map SLine ls) (P x y) = Some (Nat.odd (length (filter (left_of x y) ls))) /\
  Nat.odd (length (filter (left_of x y) ls)) = Nat.odd (length (filter (right_of x y) ls)).
Proof.
  intros H. pose proof (mixed_even_odd_sized _ b0 x y (polygon_mixed_query_sized ls b0 x y H)) as E.
  rewrite polygon_xpath_segs, polygon_count_left, polygon_count_right in E. exact E.
Qed.

(* ================================================================================================ *)
(** * 4. Non-vacuity: the lens of C11curves satisfies [mixed_query_sized]                             *)
(* ================================================================================================ *)

Lemma lens_slivers :
  seg_sliver px (SLine ll) = 0 /\ seg_sliver px (SQuad lq) = 12 / 10000 /\ seg_sliver px (SCubic lc) = 36 / 10000.
Proof.
  cbn [seg_sliver]. unfold sigma, quad_ext, cubic_ext, ext3, ext4, lq, lc. cbn [q0 q1 q2 c0 c1 c2 c3 px].
  unfold Rmax, Rmin.
  destruct (Rle_dec 0 (-2)); [lra|]. destruct (Rle_dec 0 6); [|lra]. destruct (Rle_dec 6 0); [lra|].
  repeat match goal with |- context [Rle_dec ?a ?b] => destruct (Rle_dec a b) end; repeat split; lra.
Qed.

Example lens_query_sized : mixed_query_sized lens_x lens_box 1 (15 / 4).
Proof.
  destruct lens_query as [Hbox Hclosed Hlevel Hgp HrayL HrayR Hsize Heps _ Hoff Hdistinct].
  constructor; try assumption.
  destruct lens_slivers as (S1 & S2 & S3). pose proof my_eps_val as Ev.
  intros sr [<-|[<-|[<-|[]]]]; cbn [fst]; rewrite ?S1, ?S2, ?S3, lens_reach, Ev; lra.
Qed.

(* the sized theorems applied: inside, with winding number 1 (as [lens_inside], [lens_winding] of C11curves) *)
Example lens_inside_sized : pointIsInside ROps lens (P 1 (15 / 4)) = Some true.
Proof.
  destruct (mixed_even_odd_sized lens_x lens_box 1 (15 / 4) lens_query_sized) as [E _].
  change (map fst lens_x) with lens in E. rewrite E. f_equal.
  assert (C : count_if (left_c 1) lens_x = 1%nat); [|rewrite C; reflexivity].
  assert (Pq : seg_point (SQuad lq) (15 / 32) = P (- 255 / 256) (15 / 4)) by (cbn [seg_point]; rewrite lq_pt; apply pt_eq; field).
  assert (Pc : seg_point (SCubic lc) (1 / 2) = P (9 / 2) (15 / 4)) by (cbn [seg_point]; rewrite lc_pt; apply pt_eq; field).
  unfold count_if, lens_x. cbn [map fst snd filter nsum]. unfold left_c. rewrite Pq, Pc. cbn [px].
  rewrite (proj2 (Rltb_true (- 255 / 256) 1)) by lra. rewrite (proj2 (Rltb_false (9 / 2) 1)) by lra. reflexivity.
Qed.

(* the hypothesis replaced is not needed for it: the cubic's crossing is ON the right side of the computed box
   (abscissa 9/2 = right), the quadratic's 1/256 inside the left side *)
Example lens_crossings_in_padded_box :
  px (bl lens_box) - sigma (C03.seg_ext px (SCubic lc)) <= px (seg_point (SCubic lc) (1 / 2)) <= px (tr lens_box) + sigma (C03.seg_ext px (SCubic lc)) /\
  px (bl lens_box) - sigma (C03.seg_ext px (SQuad lq)) <= px (seg_point (SQuad lq) (15 / 32)) <= px (tr lens_box) + sigma (C03.seg_ext px (SQuad lq)).
Proof.
  split; apply (crossing_in_padded_box lens lens_box _ _ lens_path_box); cbn [lens In]; try tauto; lra.
Qed.

Example lens_winding_sized : windingNumberOfPoint ROps lens (P 1 (15 / 4)) = Some 1%Z.
Proof.
  destruct (mixed_winding_number_sized lens_x lens_box 1 (15 / 4) lens_query_sized) as [E _].
  change (map fst lens_x) with lens in E. rewrite E. f_equal.
  assert (Pq : seg_point (SQuad lq) (15 / 32) = P (- 255 / 256) (15 / 4)) by (cbn [seg_point]; rewrite lq_pt; apply pt_eq; field).
  assert (Pc : seg_point (SCubic lc) (1 / 2) = P (9 / 2) (15 / 4)) by (cbn [seg_point]; rewrite lc_pt; apply pt_eq; field).
  assert (Dq : seg_dy (SQuad lq) (15 / 32) = 8).
  { rewrite (seg_dy_poly _ 0). unfold seg_coeffs, quad_a, quad_b, quad_c, lq. cbn [q0 q1 q2 px py pderiv peval]. lra. }
  unfold signed_if, lens_x. cbn [map fst snd filter zsum]. unfold left_c. rewrite Pq, Pc. cbn [px].
  rewrite (proj2 (Rltb_true (- 255 / 256) 1)) by lra. rewrite (proj2 (Rltb_false (9 / 2) 1)) by lra.
  unfold seg_signed. cbn [map zsum]. rewrite Dq. unfold sgz. destruct (Rlt_dec 0 8); [reflexivity | lra].
Qed.
