(* C19: bounding-box predicates and the sweep pairing match their definitions.
   Part 1 is about the generated Gen/BBox.v; Part 2 about the hand-written model Hand/Sweep.v of
   beziers/utils/linesweep.py:bbox_intersections. *)
From Coq Require Import PrimFloat.
From Coq Require Import ZArith List Bool Reals Lra Lia Psatz.
From Coq Require Import Sorting.Sorted Sorting.Permutation.
From BZ Require Import Base.Ops Proofs.Tactics Gen.BBox Hand.Sweep.
Import ListNotations.
Open Scope R_scope.

(* ================================================================================================ *)
(* Part 1: the generated predicates                                                                  *)
(* ================================================================================================ *)

Lemma includes_iff (b : bbox R) (p : pt R) :
  BBox_includes ROps b p = true <->
  (px (bl b) <= px p <= px (tr b) /\ py (bl b) <= py p <= py (tr b)).
Proof.
  unfold BBox_includes.
  rewrite !andb_true_iff, !Rleb_true. tauto.
Qed.

Lemma overlaps_iff (a b : bbox R) :
  BBox_overlaps ROps a b = true <->
  ((px (bl a) <= px (tr b) /\ px (bl b) <= px (tr a)) /\
   (py (bl a) <= py (tr b) /\ py (bl b) <= py (tr a))).
Proof.
  unfold BBox_overlaps, BBox_right, BBox_left, BBox_top, BBox_bottom.
  destruct (ltb ROps (px (tr a)) (px (bl b))) eqn:H1;
  [ apply Rltb_true in H1 | apply Rltb_false in H1 ];
  (destruct (ltb ROps (px (tr b)) (px (bl a))) eqn:H2;
   [ apply Rltb_true in H2 | apply Rltb_false in H2 ]);
  (destruct (ltb ROps (py (tr a)) (py (bl b))) eqn:H3;
   [ apply Rltb_true in H3 | apply Rltb_false in H3 ]);
  (destruct (ltb ROps (py (tr b)) (py (bl a))) eqn:H4;
   [ apply Rltb_true in H4 | apply Rltb_false in H4 ]);
  split; intros H; try discriminate H; try reflexivity; try lra; repeat split; lra.
Qed.

Lemma overlaps_false_iff (a b : bbox R) :
  BBox_overlaps ROps a b = false <->
  (px (tr a) < px (bl b) \/ px (tr b) < px (bl a) \/ py (tr a) < py (bl b) \/ py (tr b) < py (bl a)).
Proof.
  destruct (BBox_overlaps ROps a b) eqn:H.
  - apply overlaps_iff in H. split; intros G; [discriminate G | lra].
  - split; intros _; [ | reflexivity].
    destruct (Rlt_dec (px (tr a)) (px (bl b))); [lra|].
    destruct (Rlt_dec (px (tr b)) (px (bl a))); [lra|].
    destruct (Rlt_dec (py (tr a)) (py (bl b))); [lra|].
    destruct (Rlt_dec (py (tr b)) (py (bl a))); [lra|].
    assert (G : BBox_overlaps ROps a b = true) by (apply overlaps_iff; lra).
    rewrite G in H; discriminate H.
Qed.

Lemma overlaps_sym (a b : bbox R) : BBox_overlaps ROps a b = BBox_overlaps ROps b a.
Proof.
  destruct (BBox_overlaps ROps a b) eqn:H1; destruct (BBox_overlaps ROps b a) eqn:H2; try reflexivity.
  - apply overlaps_iff in H1. apply overlaps_false_iff in H2. lra.
  - apply overlaps_iff in H2. apply overlaps_false_iff in H1. lra.
Qed.

(* for well-formed boxes the explicit form says exactly that the closed ranges share a point *)
Lemma overlaps_iff_common_point (a b : bbox R) :
  px (bl a) <= px (tr a) -> py (bl a) <= py (tr a) ->
  px (bl b) <= px (tr b) -> py (bl b) <= py (tr b) ->
  (BBox_overlaps ROps a b = true <->
   exists p, BBox_includes ROps a p = true /\ BBox_includes ROps b p = true).
Proof.
  intros Hax Hay Hbx Hby. rewrite overlaps_iff. split.
  - intros [[H1 H2] [H3 H4]].
    exists (P (Rmax (px (bl a)) (px (bl b))) (Rmax (py (bl a)) (py (bl b)))).
    rewrite !includes_iff. simpl.
    pose proof (Rmax_l (px (bl a)) (px (bl b))). pose proof (Rmax_r (px (bl a)) (px (bl b))).
    pose proof (Rmax_l (py (bl a)) (py (bl b))). pose proof (Rmax_r (py (bl a)) (py (bl b))).
    assert (Rmax (px (bl a)) (px (bl b)) <= px (tr a)) by (apply Rmax_lub; lra).
    assert (Rmax (px (bl a)) (px (bl b)) <= px (tr b)) by (apply Rmax_lub; lra).
    assert (Rmax (py (bl a)) (py (bl b)) <= py (tr a)) by (apply Rmax_lub; lra).
    assert (Rmax (py (bl a)) (py (bl b)) <= py (tr b)) by (apply Rmax_lub; lra).
    lra.
  - intros [p [Ha Hb]]. apply includes_iff in Ha. apply includes_iff in Hb. lra.
Qed.

(* a zero-width box includes a point lying on it *)
Example includes_zero_width :
  BBox_includes ROps (BB (P 1 0) (P 1 2)) (P 1 1) = true.
Proof. apply includes_iff. simpl. lra. Qed.

(* a completely degenerate box includes its only point *)
Example includes_degenerate (x y : R) :
  BBox_includes ROps (BB (P x y) (P x y)) (P x y) = true.
Proof. apply includes_iff. simpl. lra. Qed.

(* two boxes sharing only a corner overlap *)
Example overlaps_shared_corner :
  BBox_overlaps ROps (BB (P 0 0) (P 1 1)) (BB (P 1 1) (P 2 2)) = true.
Proof. apply overlaps_iff. simpl. lra. Qed.

Example overlaps_disjoint :
  BBox_overlaps ROps (BB (P 0 0) (P 1 1)) (BB (P 2 0) (P 3 1)) = false.
Proof. apply overlaps_false_iff. simpl. lra. Qed.

(* ================================================================================================ *)
(* Part 2: the sweep                                                                                *)
(* ================================================================================================ *)

Notation evR := (@ev R).

(* ---------- small list facts ---------- *)
Lemma in_snoc {X} (l : list X) (e x : X) : In x (l ++ [e]) <-> In x l \/ x = e.
Proof. rewrite in_app_iff. simpl. intuition. Qed.

Lemma NoDup_app_intro {X} (l1 l2 : list X) :
  NoDup l1 -> NoDup l2 -> (forall x, In x l1 -> In x l2 -> False) -> NoDup (l1 ++ l2).
Proof.
  induction l1 as [|a l1 IH]; intros H1 H2 Hd; simpl; [exact H2|].
  inversion H1 as [|? ? Hna Hnd]; subst. constructor.
  - rewrite in_app_iff. intros [Hin|Hin]; [exact (Hna Hin)|]. apply (Hd a); simpl; auto.
  - apply IH; auto. intros x Hx1 Hx2. apply (Hd x); simpl; auto.
Qed.

Lemma NoDup_map_inj_on {X Y} (f : X -> Y) (l : list X) :
  NoDup l -> (forall x y, In x l -> In y l -> f x = f y -> x = y) -> NoDup (map f l).
Proof.
  induction l as [|a l IH]; intros Hnd Hinj; simpl; [constructor|].
  inversion Hnd as [|? ? Hna Hnd']; subst. constructor.
  - rewrite in_map_iff. intros [y [Hy Hin]].
    assert (y = a) by (apply Hinj; simpl; auto). subst. exact (Hna Hin).
  - apply IH; auto. intros x y Hx Hy. apply Hinj; simpl; auto.
Qed.

Lemma NoDup_list_prod {X Y} (l : list X) (l' : list Y) :
  NoDup l -> NoDup l' -> NoDup (list_prod l l').
Proof.
  induction l as [|a l IH]; intros H1 H2; simpl; [constructor|].
  inversion H1 as [|? ? Hna Hnd]; subst.
  apply NoDup_app_intro.
  - apply NoDup_map_inj_on; auto. intros x y _ _ E. inversion E; reflexivity.
  - apply IH; auto.
  - intros [x y] Hin1 Hin2. apply in_map_iff in Hin1. destruct Hin1 as [y' [E _]].
    inversion E; subst. apply in_prod_iff in Hin2. destruct Hin2 as [Hin2 _]. exact (Hna Hin2).
Qed.

Lemma NoDup_map_fst_filter {X Y} (f : X * Y -> bool) (l : list (X * Y)) :
  NoDup (map fst l) -> NoDup (map fst (filter f l)).
Proof.
  induction l as [|a l IH]; intros H; simpl; [constructor|].
  simpl in H. inversion H as [|? ? Hna Hnd]; subst.
  destruct (f a); simpl; [constructor|]; auto.
  intros Hin. apply Hna. apply in_map_iff in Hin. destruct Hin as [x [E Hx]].
  apply filter_In in Hx. apply in_map_iff. exists x. tauto.
Qed.

Lemma SSorted_app_iff {X} (Rel : X -> X -> Prop) (l1 l2 : list X) :
  StronglySorted Rel (l1 ++ l2) <->
  (StronglySorted Rel l1 /\ StronglySorted Rel l2 /\ forall x y, In x l1 -> In y l2 -> Rel x y).
Proof.
  induction l1 as [|a l1 IH]; simpl.
  - split; [intros H; repeat split; auto; try constructor; intros ? ? []|tauto].
  - split.
    + intros H. inversion H as [|? ? Hs Hf]; subst. apply IH in Hs. destruct Hs as [Hs1 [Hs2 Hc]].
      rewrite Forall_forall in Hf. repeat split; auto.
      * constructor; auto. apply Forall_forall. intros x Hx. apply Hf. apply in_app_iff; auto.
      * intros x y [Hx|Hx] Hy; [subst; apply Hf; apply in_app_iff; auto | auto].
    + intros [Hs1 [Hs2 Hc]]. inversion Hs1 as [|? ? Hs Hf]; subst. rewrite Forall_forall in Hf.
      constructor.
      * apply IH. repeat split; auto.
      * apply Forall_forall. intros x Hx. apply in_app_iff in Hx. destruct Hx; auto.
Qed.

Lemma SSorted_snoc {X} (Rel : X -> X -> Prop) (l : list X) (e : X) :
  StronglySorted Rel (l ++ [e]) -> StronglySorted Rel l /\ forall x, In x l -> Rel x e.
Proof.
  intros H. apply SSorted_app_iff in H. destruct H as [H1 [_ H3]]. split; auto.
  intros x Hx. apply H3; simpl; auto.
Qed.

(* ---------- (2) the processing loop on an arbitrary ordered event list ---------- *)

Definition run (l : list evR) : @state R := fold_left (step ROps) l ([], [], []).
Definition act (s : bool) (st : @state R) : @active R := if s then fst (fst st) else snd (fst st).

Lemma run_nil : run [] = ([], [], []).
Proof. reflexivity. Qed.
Lemma run_snoc l e : run (l ++ [e]) = step ROps (run l) e.
Proof. unfold run. rewrite fold_left_app. reflexivity. Qed.

Lemma act_step s st e :
  act s (step ROps st e) =
  if Bool.eqb (eisA e) s then
    (if eadd e then act s st ++ [(eid e, ebox e)]
     else filter (fun ob => negb (Nat.eqb (fst ob) (eid e))) (act s st))
  else act s st.
Proof.
  destruct st as [[aa ab] out]. destruct e as [k ia ad i b]. unfold step, act.
  destruct s, ia, ad; reflexivity.
Qed.

Lemma out_step st e :
  snd (step ROps st e) =
  snd st ++ (if eadd e then
               map (fun ob => (eisA e, eid e, fst ob))
                   (filter (fun ob => BBox_overlaps ROps (ebox e) (snd ob)) (act (negb (eisA e)) st))
             else []).
Proof.
  destruct st as [[aa ab] out]. destruct e as [k ia ad i b]. unfold step, act.
  destruct ia, ad; simpl; try reflexivity; rewrite app_nil_r; reflexivity.
Qed.

Definition is_rem (s : bool) (j : nat) (r : evR) : Prop :=
  eadd r = false /\ eisA r = s /\ eid r = j.

(* each shape has at most one add event *)
Definition uniq_adds (l : list evR) : Prop :=
  forall e1 e2, In e1 l -> In e2 l -> eadd e1 = true -> eadd e2 = true ->
                eisA e1 = eisA e2 -> eid e1 = eid e2 -> e1 = e2.

Lemma uniq_adds_snoc l e : uniq_adds (l ++ [e]) -> uniq_adds l.
Proof. intros H e1 e2 H1 H2. apply H; apply in_snoc; auto. Qed.

Section OrderedEvents.
(* the order in which the events are processed: any strict order will do *)
Variable lt : evR -> evR -> Prop.
Hypothesis lt_irrefl : forall x, ~ lt x x.
Hypothesis lt_trans : forall x y z, lt x y -> lt y z -> lt x z.

Lemma lt_asym x y : lt x y -> lt y x -> False.
Proof. intros H1 H2. exact (lt_irrefl x (lt_trans _ _ _ H1 H2)). Qed.

(* the active list of side s holds exactly the shapes added and not removed afterwards *)
Definition is_active (l : list evR) (s : bool) (j : nat) (bx : bbox R) : Prop :=
  exists e', In e' l /\ eadd e' = true /\ eisA e' = s /\ eid e' = j /\ ebox e' = bx /\
             forall r, In r l -> is_rem s j r -> lt r e'.

Lemma act_char l : StronglySorted lt l ->
  forall s j bx, In (j, bx) (act s (run l)) <-> is_active l s j bx.
Proof.
  induction l as [|e l IH] using rev_ind; intros Hs s j bx.
  - rewrite run_nil. unfold is_active. destruct s; simpl; split; try tauto; intros [e' [[] _]].
  - apply SSorted_snoc in Hs. destruct Hs as [Hs Hall]. specialize (IH Hs).
    rewrite run_snoc, act_step.
    destruct (Bool.eqb (eisA e) s) eqn:Es.
    + apply eqb_prop in Es. destruct (eadd e) eqn:Ea.
      * (* add on this side *)
        rewrite in_snoc, IH. split.
        -- intros [[e' [Hin [Ha [Hi [Hd [Hb Hr]]]]]] | Heq].
           ++ exists e'. repeat split; auto; [apply in_snoc; auto|].
              intros r Hr' Hrem. apply in_snoc in Hr'. destruct Hr' as [Hr'|Hr']; auto.
              subst r. destruct Hrem as [Hrem _]. congruence.
           ++ inversion Heq; subst j bx. exists e. repeat split; auto; [apply in_snoc; auto|].
              intros r Hr' Hrem. apply in_snoc in Hr'. destruct Hr' as [Hr'|Hr']; auto.
              subst r. destruct Hrem as [Hrem _]. congruence.
        -- intros [e' [Hin [Ha [Hi [Hd [Hb Hr]]]]]]. apply in_snoc in Hin. destruct Hin as [Hin|Hin].
           ++ left. exists e'. repeat split; auto. intros r Hr'. apply Hr. apply in_snoc; auto.
           ++ right. subst e'. congruence.
      * (* remove on this side *)
        rewrite filter_In, IH. simpl. rewrite negb_true_iff, Nat.eqb_neq. split.
        -- intros [[e' [Hin [Ha [Hi [Hd [Hb Hr]]]]]] Hne].
           exists e'. repeat split; auto; [apply in_snoc; auto|].
           intros r Hr' Hrem. apply in_snoc in Hr'. destruct Hr' as [Hr'|Hr']; auto.
           subst r. destruct Hrem as [_ [_ Hrem]]. congruence.
        -- intros [e' [Hin [Ha [Hi [Hd [Hb Hr]]]]]]. apply in_snoc in Hin. destruct Hin as [Hin|Hin].
           ++ split.
              ** exists e'. repeat split; auto. intros r Hr'. apply Hr. apply in_snoc; auto.
              ** intros Hje. exfalso. apply (lt_asym e e'); [|apply Hall; auto].
                 apply Hr; [apply in_snoc; auto|]. repeat split; auto.
           ++ subst e'. congruence.
    + (* event of the other side *)
      apply eqb_false_iff in Es. rewrite IH. split.
      * intros [e' [Hin [Ha [Hi [Hd [Hb Hr]]]]]].
        exists e'. repeat split; auto; [apply in_snoc; auto|].
        intros r Hr' Hrem. apply in_snoc in Hr'. destruct Hr' as [Hr'|Hr']; auto.
        subst r. destruct Hrem as [_ [Hrem _]]. congruence.
      * intros [e' [Hin [Ha [Hi [Hd [Hb Hr]]]]]]. apply in_snoc in Hin. destruct Hin as [Hin|Hin].
        -- exists e'. repeat split; auto. intros r Hr'. apply Hr. apply in_snoc; auto.
        -- subst e'. congruence.
Qed.

(* the output holds exactly the triples (side of the later add, its id, id of an earlier add of the other side
   that is still active, i.e. not removed in between) whose boxes overlap *)
Definition reported (l : list evR) (fa : bool) (i j : nat) : Prop :=
  exists e e', In e l /\ In e' l /\
    eadd e = true /\ eisA e = fa /\ eid e = i /\
    eadd e' = true /\ eisA e' = negb fa /\ eid e' = j /\
    lt e' e /\ BBox_overlaps ROps (ebox e) (ebox e') = true /\
    forall r, In r l -> is_rem (negb fa) j r -> lt r e -> lt r e'.

Lemma out_char l : StronglySorted lt l ->
  forall fa i j, In (fa, i, j) (snd (run l)) <-> reported l fa i j.
Proof.
  induction l as [|e l IH] using rev_ind; intros Hs fa i j.
  - rewrite run_nil. simpl. split; [tauto|]. intros [e [e' [[] _]]].
  - pose proof (SSorted_snoc _ _ _ Hs) as [Hs' Hall]. specialize (IH Hs').
    rewrite run_snoc, out_step, in_app_iff, IH. split.
    + intros [Hold | Hnew].
      * destruct Hold as [e0 [e0' [Hin [Hin' [Ha [Hi [Hd [Ha' [Hi' [Hd' [Hlt [Hov Hr]]]]]]]]]]]].
        exists e0, e0'. repeat split; auto; try (apply in_snoc; auto).
        intros r Hr' Hrem Hlt0. apply in_snoc in Hr'. destruct Hr' as [Hr'|Hr']; auto.
        subst r. exfalso. apply (lt_asym e e0); auto.
      * destruct (eadd e) eqn:Ea; [|destruct Hnew].
        apply in_map_iff in Hnew. destruct Hnew as [[j' bx] [Heq Hin]].
        apply filter_In in Hin. destruct Hin as [Hin Hov]. simpl in Heq, Hov.
        inversion Heq; subst fa i j'.
        apply (act_char l Hs') in Hin. destruct Hin as [e' [Hin [Ha [Hi [Hd [Hb Hr]]]]]].
        exists e, e'. subst bx. repeat split; auto; try (apply in_snoc; auto).
        intros r Hr' Hrem _. apply in_snoc in Hr'. destruct Hr' as [Hr'|Hr']; auto.
        subst r. destruct Hrem as [Hrem _]. congruence.
    + intros [e0 [e0' [Hin [Hin' [Ha [Hi [Hd [Ha' [Hi' [Hd' [Hlt [Hov Hr]]]]]]]]]]]].
      apply in_snoc in Hin. apply in_snoc in Hin'.
      destruct Hin as [Hin|Hin].
      * left. destruct Hin' as [Hin'|Hin'].
        -- exists e0, e0'. repeat split; auto. intros r Hr'. apply Hr. apply in_snoc; auto.
        -- subst e0'. exfalso. apply (lt_asym e e0); auto.
      * right. subst e0. destruct Hin' as [Hin'|Hin']; [|subst e0'; exfalso; exact (lt_irrefl _ Hlt)].
        rewrite Ha. apply in_map_iff. exists (j, ebox e0'). split; [simpl; congruence|].
        apply filter_In. split; [|exact Hov].
        rewrite Hi. apply (act_char l Hs'). exists e0'. repeat split; auto.
        intros r Hr' Hrem. apply Hr; auto. apply in_snoc; auto.
Qed.

(* no shape is active twice *)
Lemma act_ids_nodup l : StronglySorted lt l -> uniq_adds l ->
  forall s, NoDup (map fst (act s (run l))).
Proof.
  induction l as [|e l IH] using rev_ind; intros Hs Hu s.
  - rewrite run_nil. destruct s; constructor.
  - pose proof (SSorted_snoc _ _ _ Hs) as [Hs' Hall].
    specialize (IH Hs' (uniq_adds_snoc _ _ Hu) s).
    rewrite run_snoc, act_step.
    destruct (Bool.eqb (eisA e) s) eqn:Es; [|exact IH].
    apply eqb_prop in Es. destruct (eadd e) eqn:Ea.
    + rewrite map_app. simpl. apply NoDup_app_intro; auto.
      * constructor; [intros []|constructor].
      * intros x Hx [Hx'|[]]. subst x. apply in_map_iff in Hx. destruct Hx as [[j bx] [Hj Hin]].
        simpl in Hj. subst j. apply (act_char l Hs') in Hin.
        destruct Hin as [e' [Hin [Ha [Hi [Hd _]]]]].
        assert (e' = e) by (apply Hu; try (apply in_snoc; auto); congruence).
        subst e'. exact (lt_irrefl _ (Hall _ Hin)).
    + apply NoDup_map_fst_filter. exact IH.
Qed.

(* every (A-index, B-index) pair is reported at most once, in either orientation *)
Lemma out_nodup l : StronglySorted lt l -> uniq_adds l -> NoDup (map as_ab (snd (run l))).
Proof.
  induction l as [|e l IH] using rev_ind; intros Hs Hu.
  - rewrite run_nil. constructor.
  - pose proof (SSorted_snoc _ _ _ Hs) as [Hs' Hall].
    specialize (IH Hs' (uniq_adds_snoc _ _ Hu)).
    rewrite run_snoc, out_step, map_app. apply NoDup_app_intro; auto.
    + destruct (eadd e) eqn:Ea; [|constructor].
      rewrite map_map.
      pose proof (act_ids_nodup l Hs' (uniq_adds_snoc _ _ Hu) (negb (eisA e))) as Hnd.
      apply (NoDup_map_fst_filter (fun ob => BBox_overlaps ROps (ebox e) (snd ob))) in Hnd.
      revert Hnd. generalize (filter (fun ob => BBox_overlaps ROps (ebox e) (snd ob))
                                     (act (negb (eisA e)) (run l))).
      intros L HL. 
      assert (E : map (fun x => as_ab (eisA e, eid e, fst x)) L =
                  map (fun k => as_ab (eisA e, eid e, k)) (map fst L)) by (rewrite map_map; reflexivity).
      rewrite E. apply NoDup_map_inj_on; auto.
      intros x y _ _. unfold as_ab. destruct (eisA e); intros Exy; inversion Exy; reflexivity.
    + intros [a b] Hold Hnew.
      destruct (eadd e) eqn:Ea; [|destruct Hnew].
      apply in_map_iff in Hnew. destruct Hnew as [p [Hp Hin]].
      apply in_map_iff in Hin. destruct Hin as [[j bx] [Hp' Hin]]. subst p. simpl in Hp.
      apply in_map_iff in Hold. destruct Hold as [[[fa i0] j0] [Hq Hold]].
      apply (out_char l Hs') in Hold.
      destruct Hold as [e0 [e0' [Hin0 [Hin0' [Ha [Hi [Hd [Ha' [Hi' [Hd' _]]]]]]]]]].
      (* e is an add event with the same side and id as e0 or e0', both of which lie in l *)
      assert (Hcase : (eisA e0 = eisA e /\ eid e0 = eid e) \/ (eisA e0' = eisA e /\ eid e0' = eid e)).
      { unfold as_ab in Hp, Hq. destruct (eisA e) eqn:Ee; destruct fa; simpl in Hi';
        inversion Hp; inversion Hq; subst; auto. }
      destruct Hcase as [[H1 H2]|[H1 H2]].
      * assert (e0 = e) by (apply Hu; try (apply in_snoc; auto); congruence).
        subst e0. exact (lt_irrefl _ (Hall _ Hin0)).
      * assert (e0' = e) by (apply Hu; try (apply in_snoc; auto); congruence).
        subst e0'. exact (lt_irrefl _ (Hall _ Hin0')).
Qed.

End OrderedEvents.

(* ---------- (1) the sort: permutation, order, stability ---------- *)

Lemma insert_ev_cons (e y : evR) r :
  insert_ev ROps e (y :: r) =
  if ltb ROps (ekey e) (ekey y) then e :: y :: r else y :: insert_ev ROps e r.
Proof. reflexivity. Qed.

Lemma insert_ev_perm (e : evR) l : Permutation (insert_ev ROps e l) (e :: l).
Proof.
  induction l as [|y r IH]; [apply Permutation_refl|].
  rewrite insert_ev_cons. destruct (ltb ROps (ekey e) (ekey y)); [apply Permutation_refl|].
  eapply perm_trans; [apply perm_skip; exact IH | apply perm_swap].
Qed.

Lemma sort_fold_perm (l acc : list evR) :
  Permutation (fold_left (fun a e => insert_ev ROps e a) l acc) (acc ++ l).
Proof.
  revert acc. induction l as [|e l IH]; intros acc; simpl.
  - rewrite app_nil_r. apply Permutation_refl.
  - eapply perm_trans; [apply IH|].
    eapply perm_trans; [apply Permutation_app_tail; apply insert_ev_perm|].
    simpl. apply Permutation_middle.
Qed.

Lemma sort_ev_perm (l : list evR) : Permutation (sort_ev ROps l) l.
Proof. unfold sort_ev. apply (sort_fold_perm l []). Qed.

Lemma sort_ev_in (l : list evR) e : In e (sort_ev ROps l) <-> In e l.
Proof.
  split; apply Permutation_in; [apply sort_ev_perm | apply Permutation_sym, sort_ev_perm].
Qed.

Section Stability.
(* rk : position of an event in the unsorted list *)
Variable rk : evR -> nat.

Definition lt_ev (x y : evR) : Prop :=
  ekey x < ekey y \/ (ekey x = ekey y /\ (rk x < rk y)%nat).

Lemma lt_ev_irrefl x : ~ lt_ev x x.
Proof. unfold lt_ev. intros [H|[_ H]]; [lra|lia]. Qed.
Lemma lt_ev_trans x y z : lt_ev x y -> lt_ev y z -> lt_ev x z.
Proof.
  unfold lt_ev. intros [H1|[H1 H1']] [H2|[H2 H2']]; try (left; lra). right; split; [lra|lia].
Qed.

(* sorted w.r.t. <= on keys *)
Lemma lt_ev_key_le x y : lt_ev x y -> ekey x <= ekey y.
Proof. unfold lt_ev. intros [H|[H _]]; lra. Qed.

Lemma insert_ev_sorted e l :
  StronglySorted lt_ev l -> (forall x, In x l -> (rk x < rk e)%nat) ->
  StronglySorted lt_ev (insert_ev ROps e l).
Proof.
  induction l as [|y r IH]; intros Hs Hrk.
  - simpl. constructor; constructor.
  - rewrite insert_ev_cons. inversion Hs as [|? ? Hs' Hf]; subst. rewrite Forall_forall in Hf.
    destruct (ltb ROps (ekey e) (ekey y)) eqn:Hk.
    + apply Rltb_true in Hk. constructor; auto. apply Forall_forall. intros z [Hz|Hz].
      * subst z. left; exact Hk.
      * apply lt_ev_trans with y; [left; exact Hk | auto].
    + apply Rltb_false in Hk. constructor.
      * apply IH; auto. intros x Hx. apply Hrk. simpl; auto.
      * apply Forall_forall. intros z Hz.
        apply (Permutation_in _ (insert_ev_perm e r)) in Hz. destruct Hz as [Hz|Hz]; auto.
        subst z. assert (Hr : (rk y < rk e)%nat) by (apply Hrk; simpl; auto).
        destruct Hk as [Hk|Hk]; [left; exact Hk | right; split; [exact Hk | exact Hr]].
Qed.

Lemma sort_fold_sorted l : forall acc,
  StronglySorted lt_ev acc ->
  StronglySorted (fun x y => (rk x < rk y)%nat) l ->
  (forall x y, In x acc -> In y l -> (rk x < rk y)%nat) ->
  StronglySorted lt_ev (fold_left (fun a e => insert_ev ROps e a) l acc).
Proof.
  induction l as [|e l IH]; intros acc Hacc Hl Hcross; simpl; [exact Hacc|].
  inversion Hl as [|? ? Hl' Hf]; subst. rewrite Forall_forall in Hf.
  apply IH; auto.
  - apply insert_ev_sorted; auto. intros x Hx. apply Hcross; simpl; auto.
  - intros x y Hx Hy. apply (Permutation_in _ (insert_ev_perm e acc)) in Hx.
    destruct Hx as [Hx|Hx]; [subst x; apply Hf; exact Hy | apply Hcross; simpl; auto].
Qed.

(* the sorted list is ordered by (key, original position): sorted by key, ties keep the original order *)
Lemma sort_ev_sorted l :
  StronglySorted (fun x y => (rk x < rk y)%nat) l -> StronglySorted lt_ev (sort_ev ROps l).
Proof.
  intros Hl. unfold sort_ev. apply sort_fold_sorted; auto; [constructor | intros x y []].
Qed.
End Stability.

(* ---------- the event list of two collections ---------- *)

Definition dbox : bbox R := BB (P 0 0) (P 0 0).
Definition bleft (b : bbox R) : R := px (bl b).
Definition bright (b : bbox R) : R := px (tr b).
(* these are the generated accessors *)
Lemma bleft_gen b : bleft b = BBox_left ROps b.  Proof. reflexivity. Qed.
Lemma bright_gen b : bright b = BBox_right ROps b.  Proof. reflexivity. Qed.

Definition mkev (l : list (bbox R)) (s ad : bool) (k i : nat) : evR :=
  Ev (if ad then bleft (nth i l dbox) else bright (nth i l dbox)) s ad (k + i) (nth i l dbox).

Lemma in_events_from s l : forall k e,
  In e (events_from s k l) <-> exists ad i, (i < length l)%nat /\ e = mkev l s ad k i.
Proof.
  induction l as [|b r IH]; intros k e; simpl.
  - split; [tauto|]. intros [ad [i [Hi _]]]. lia.
  - rewrite IH. split.
    + intros [H|[H|[ad [i [Hi H]]]]].
      * exists true, 0%nat. split; [lia|]. subst e. unfold mkev. simpl. rewrite Nat.add_0_r. reflexivity.
      * exists false, 0%nat. split; [lia|]. subst e. unfold mkev. simpl. rewrite Nat.add_0_r. reflexivity.
      * exists ad, (S i). split; [lia|]. subst e. unfold mkev. simpl. rewrite Nat.add_succ_r. reflexivity.
    + intros [ad [[|i] [Hi H]]].
      * subst e. unfold mkev. simpl. rewrite Nat.add_0_r. destruct ad; auto.
      * right; right. exists ad, i. split; [lia|]. subst e. unfold mkev. simpl.
        rewrite Nat.add_succ_r. reflexivity.
Qed.

Definition all_events (A B : list (bbox R)) : list evR :=
  events_from true 0 A ++ events_from false 0 B.
Definition side (A B : list (bbox R)) (s : bool) : list (bbox R) := if s then A else B.

Lemma in_all_events A B e :
  In e (all_events A B) <->
  exists s ad i, (i < length (side A B s))%nat /\ e = mkev (side A B s) s ad 0 i.
Proof.
  unfold all_events. rewrite in_app_iff, !in_events_from. split.
  - intros [[ad [i H]]|[ad [i H]]]; [exists true, ad, i | exists false, ad, i]; exact H.
  - intros [[|] [ad [i H]]]; [left|right]; exists ad, i; exact H.
Qed.

(* position in the unsorted list *)
Definition rank (nA : nat) (e : evR) : nat :=
  ((if eisA e then 0 else 2 * nA) + 2 * eid e + (if eadd e then 0 else 1))%nat.

Lemma events_from_ranked nA s l : forall k,
  StronglySorted (fun x y => (rank nA x < rank nA y)%nat) (events_from s k l).
Proof.
  induction l as [|b r IH]; intros k; simpl; [constructor|].
  constructor; [constructor; [apply IH|]|]; apply Forall_forall; intros e He.
  - apply in_events_from in He. destruct He as [ad [i [_ He]]]. subst e.
    unfold rank, mkev; simpl. destruct s, ad; lia.
  - destruct He as [He|He].
    + subst e. unfold rank; simpl. destruct s; lia.
    + apply in_events_from in He. destruct He as [ad [i [_ He]]]. subst e.
      unfold rank, mkev; simpl. destruct s, ad; lia.
Qed.

Lemma all_events_ranked A B :
  StronglySorted (fun x y => (rank (length A) x < rank (length A) y)%nat) (all_events A B).
Proof.
  unfold all_events. apply SSorted_app_iff. split; [apply events_from_ranked|].
  split; [apply events_from_ranked|].
  intros x y Hx Hy. apply in_events_from in Hx. apply in_events_from in Hy.
  destruct Hx as [ad [i [Hi Hx]]]. destruct Hy as [ad' [i' [Hi' Hy]]]. subst x y.
  unfold rank, mkev; simpl. destruct ad, ad'; lia.
Qed.

Definition sorted_events (A B : list (bbox R)) : list evR := sort_ev ROps (all_events A B).
Definition evlt (A : list (bbox R)) : evR -> evR -> Prop := lt_ev (rank (length A)).

Lemma sorted_events_sorted A B : StronglySorted (evlt A) (sorted_events A B).
Proof. apply sort_ev_sorted. apply all_events_ranked. Qed.

Lemma in_sorted_events A B e :
  In e (sorted_events A B) <->
  exists s ad i, (i < length (side A B s))%nat /\ e = mkev (side A B s) s ad 0 i.
Proof. unfold sorted_events. rewrite sort_ev_in. apply in_all_events. Qed.

Lemma sorted_events_uniq A B : uniq_adds (sorted_events A B).
Proof.
  intros e1 e2 H1 H2 Ha1 Ha2 Hs Hi.
  apply in_sorted_events in H1. apply in_sorted_events in H2.
  destruct H1 as [s1 [ad1 [i1 [_ H1]]]]. destruct H2 as [s2 [ad2 [i2 [_ H2]]]]. subst e1 e2.
  unfold mkev in *. simpl in *. subst. reflexivity.
Qed.

Lemma bbox_intersections_run A B :
  bbox_intersections ROps A B = snd (run (sorted_events A B)).
Proof. reflexivity. Qed.

(* Specification of the event order (1), in the form asked for by the task. *)
Definition add_ev A B s i := mkev (side A B s) s true 0 i.
Definition rem_ev A B s i := mkev (side A B s) s false 0 i.

(* every shape's add precedes its remove (needs left <= right; ties are resolved by stability) *)
Lemma order_add_before_remove A B s i :
  bleft (nth i (side A B s) dbox) <= bright (nth i (side A B s) dbox) ->
  evlt A (add_ev A B s i) (rem_ev A B s i).
Proof.
  intros H. unfold evlt, lt_ev, add_ev, rem_ev, mkev, rank. simpl.
  destruct H as [H|H]; [left; exact H | right; split; [exact H | destruct s; lia]].
Qed.

(* positive-length x-overlap: both adds precede both removes *)
Lemma order_overlap A B s i s' j :
  Rmax (bleft (nth i (side A B s) dbox)) (bleft (nth j (side A B s') dbox)) <
  Rmin (bright (nth i (side A B s) dbox)) (bright (nth j (side A B s') dbox)) ->
  evlt A (add_ev A B s i) (rem_ev A B s i) /\ evlt A (add_ev A B s i) (rem_ev A B s' j) /\
  evlt A (add_ev A B s' j) (rem_ev A B s i) /\ evlt A (add_ev A B s' j) (rem_ev A B s' j).
Proof.
  set (a := nth i (side A B s) dbox). set (b := nth j (side A B s') dbox). intros H.
  pose proof (Rmax_l (bleft a) (bleft b)). pose proof (Rmax_r (bleft a) (bleft b)).
  pose proof (Rmin_l (bright a) (bright b)). pose proof (Rmin_r (bright a) (bright b)).
  unfold evlt, lt_ev, add_ev, rem_ev, mkev. simpl. fold a b.
  repeat split; left; lra.
Qed.

(* x-disjoint: the left shape's remove precedes the right shape's add *)
Lemma order_disjoint A B s i s' j :
  bright (nth i (side A B s) dbox) < bleft (nth j (side A B s') dbox) ->
  evlt A (rem_ev A B s i) (add_ev A B s' j).
Proof. intros H. left. exact H. Qed.

(* ---------- the theorem ---------- *)

Definition wf_boxes (l : list (bbox R)) : Prop := Forall (fun b => bleft b <= bright b) l.

(* the quantifier condition of the property: every A/B pair either overlaps in x in an interval of positive
   length, or is disjoint in x *)
Definition tie_free (A B : list (bbox R)) : Prop :=
  forall a b, In a A -> In b B ->
    Rmax (bleft a) (bleft b) < Rmin (bright a) (bright b) \/
    (bright a < bleft b \/ bright b < bleft a).

(* what is actually needed: no overlapping pair in which the A-shape starts first and ends exactly where the
   B-shape starts *)
Definition no_bad_tie (A B : list (bbox R)) : Prop :=
  forall a b, In a A -> In b B -> BBox_overlaps ROps a b = true ->
    bleft a <= bleft b -> bleft b < bright a.

Lemma tie_free_no_bad_tie A B : tie_free A B -> no_bad_tie A B.
Proof.
  intros Htf a b Ha Hb Hov _. apply overlaps_iff in Hov. unfold bleft, bright in *.
  destruct (Htf a b Ha Hb) as [H|H]; unfold bleft, bright in H; [|lra].
  pose proof (Rmax_r (px (bl a)) (px (bl b))). pose proof (Rmin_l (px (tr a)) (px (tr b))). lra.
Qed.

Definition all_overlapping_pairs (A B : list (bbox R)) : list (nat * nat) :=
  filter (fun ij => BBox_overlaps ROps (nth (fst ij) A dbox) (nth (snd ij) B dbox))
         (list_prod (seq 0 (length A)) (seq 0 (length B))).

Lemma in_all_overlapping_pairs A B i j :
  In (i, j) (all_overlapping_pairs A B) <->
  ((i < length A)%nat /\ (j < length B)%nat /\
   BBox_overlaps ROps (nth i A dbox) (nth j B dbox) = true).
Proof.
  unfold all_overlapping_pairs. rewrite filter_In, in_prod_iff, !in_seq. simpl. intuition lia.
Qed.

Lemma all_overlapping_pairs_nodup A B : NoDup (all_overlapping_pairs A B).
Proof. apply NoDup_filter. apply NoDup_list_prod; apply seq_NoDup. Qed.

Lemma sweep_reported A B fa i j :
  In (fa, i, j) (bbox_intersections ROps A B) <->
  reported (evlt A) (sorted_events A B) fa i j.
Proof.
  rewrite bbox_intersections_run.
  apply (out_char (evlt A) (lt_ev_irrefl _) (lt_ev_trans _) _ (sorted_events_sorted A B)).
Qed.

(* soundness needs no hypothesis at all *)
Lemma sweep_sound A B a b :
  In (a, b) (map as_ab (bbox_intersections ROps A B)) ->
  (a < length A)%nat /\ (b < length B)%nat /\
  BBox_overlaps ROps (nth a A dbox) (nth b B dbox) = true.
Proof.
  intros H. apply in_map_iff in H. destruct H as [[[fa i] j] [Hab H]].
  apply sweep_reported in H.
  destruct H as [e [e' [Hin [Hin' [Ha [Hi [Hd [Ha' [Hi' [Hd' [_ [Hov _]]]]]]]]]]]].
  apply in_sorted_events in Hin. apply in_sorted_events in Hin'.
  destruct Hin as [s [ad [k [Hk He]]]]. destruct Hin' as [s' [ad' [k' [Hk' He']]]]. subst e e'.
  unfold mkev in *. simpl in *. subst ad ad' s s' k k'.
  destruct fa; simpl in *; inversion Hab; subst a b.
  - auto.
  - rewrite overlaps_sym in Hov. auto.
Qed.

Lemma in_sorted_add A B s i : (i < length (side A B s))%nat -> In (add_ev A B s i) (sorted_events A B).
Proof. intros H. apply in_sorted_events. exists s, true, i. auto. Qed.

Lemma sweep_complete A B a b : no_bad_tie A B ->
  (a < length A)%nat -> (b < length B)%nat ->
  BBox_overlaps ROps (nth a A dbox) (nth b B dbox) = true ->
  In (a, b) (map as_ab (bbox_intersections ROps A B)).
Proof.
  intros Hnb Ha Hb Hov.
  pose proof (in_sorted_add A B true a Ha) as HinA.
  pose proof (in_sorted_add A B false b Hb) as HinB.
  pose proof (Hnb _ _ (nth_In A dbox Ha) (nth_In B dbox Hb) Hov) as Htie.
  pose proof (proj1 (overlaps_iff _ _) Hov) as [[Hx1 Hx2] _].
  apply in_map_iff.
  destruct (Rlt_le_dec (bleft (nth b B dbox)) (bleft (nth a A dbox))) as [Hlt|Hle].
  - (* B_b starts strictly first: reported when A_a is added *)
    exists (true, a, b). split; [reflexivity|]. apply sweep_reported.
    exists (add_ev A B true a), (add_ev A B false b).
    split; [exact HinA|]. split; [exact HinB|].
    do 6 (split; [reflexivity|]).
    split; [left; exact Hlt|]. split; [exact Hov|].
    intros r Hr [H1 [H2 H3]] Hlt'. exfalso.
    apply in_sorted_events in Hr. destruct Hr as [s [ad [k [Hk Hr]]]]. subst r.
    unfold mkev in H1, H2, H3. simpl in H1, H2, H3. subst ad s k.
    unfold evlt, lt_ev, add_ev, mkev, rank, bleft, bright in *. simpl in Hlt'.
    destruct Hlt' as [H|[_ H]]; [lra|lia].
  - (* A_a starts first (or they tie, and then A's events come first): reported when B_b is added *)
    exists (false, b, a). split; [reflexivity|]. apply sweep_reported.
    exists (add_ev A B false b), (add_ev A B true a).
    split; [exact HinB|]. split; [exact HinA|].
    do 6 (split; [reflexivity|]).
    split.
    { unfold evlt, lt_ev, add_ev, mkev, rank. simpl.
      destruct Hle as [Hle|Hle]; [left; exact Hle | right; split; [exact Hle | lia]]. }
    split; [rewrite overlaps_sym; exact Hov|].
    intros r Hr [H1 [H2 H3]] Hlt'. exfalso.
    apply in_sorted_events in Hr. destruct Hr as [s [ad [k [Hk Hr]]]]. subst r.
    unfold mkev in H1, H2, H3. simpl in H1, H2, H3. subst ad s k.
    specialize (Htie Hle).
    unfold evlt, lt_ev, add_ev, mkev, rank, bleft, bright in *. simpl in Hlt'.
    destruct Hlt' as [H|[H _]]; lra.
Qed.

(* NoDup also needs no hypothesis *)
Lemma sweep_nodup A B : NoDup (map as_ab (bbox_intersections ROps A B)).
Proof.
  rewrite bbox_intersections_run.
  apply (out_nodup (evlt A) (lt_ev_irrefl _) (lt_ev_trans _)).
  - apply sorted_events_sorted.
  - apply sorted_events_uniq.
Qed.

(* the theorem under the weakest condition found (no well-formedness needed) *)
Theorem sweep_eq_all_pairs_weak (A B : list (bbox R)) : no_bad_tie A B ->
  Permutation (map as_ab (bbox_intersections ROps A B)) (all_overlapping_pairs A B).
Proof.
  intros Hnb. apply NoDup_Permutation.
  - apply sweep_nodup.
  - apply all_overlapping_pairs_nodup.
  - intros [a b]. rewrite in_all_overlapping_pairs. split.
    + apply sweep_sound.
    + intros [Ha [Hb Hov]]. apply sweep_complete; auto.
Qed.

(* the theorem as stated in the property *)
Theorem sweep_eq_all_pairs (A B : list (bbox R)) : wf_boxes A -> wf_boxes B -> tie_free A B ->
  Permutation (map as_ab (bbox_intersections ROps A B)) (all_overlapping_pairs A B).
Proof. intros _ _ Htf. apply sweep_eq_all_pairs_weak. apply tie_free_no_bad_tie. exact Htf. Qed.

Corollary sweep_no_duplicates (A B : list (bbox R)) : wf_boxes A -> wf_boxes B -> tie_free A B ->
  NoDup (map as_ab (bbox_intersections ROps A B)).
Proof.
  intros HA HB Htf.
  apply (Permutation_NoDup (Permutation_sym (sweep_eq_all_pairs A B HA HB Htf))).
  apply all_overlapping_pairs_nodup.
Qed.

Corollary sweep_sound_complete (A B : list (bbox R)) : wf_boxes A -> wf_boxes B -> tie_free A B ->
  forall i j, In (i, j) (map as_ab (bbox_intersections ROps A B)) <->
              ((i < length A)%nat /\ (j < length B)%nat /\
               BBox_overlaps ROps (nth i A dbox) (nth j B dbox) = true).
Proof.
  intros HA HB Htf i j. rewrite <- in_all_overlapping_pairs.
  pose proof (sweep_eq_all_pairs A B HA HB Htf) as Hp.
  split; apply Permutation_in; [exact Hp | apply Permutation_sym; exact Hp].
Qed.

(* ---------- the condition no_bad_tie is also necessary ---------- *)

Lemma sorted_event_canon A B e : In e (sorted_events A B) ->
  e = mkev (side A B (eisA e)) (eisA e) (eadd e) 0 (eid e) /\ (eid e < length (side A B (eisA e)))%nat.
Proof.
  intros H. apply in_sorted_events in H. destruct H as [s [ad [k [Hk He]]]]. subst e. simpl. auto.
Qed.

Lemma sweep_complete_needs_no_bad_tie A B :
  (forall i j, (i < length A)%nat -> (j < length B)%nat ->
               BBox_overlaps ROps (nth i A dbox) (nth j B dbox) = true ->
               In (i, j) (map as_ab (bbox_intersections ROps A B))) ->
  no_bad_tie A B.
Proof.
  intros Hc a b Ha Hb Hov Hle.
  destruct (In_nth A a dbox Ha) as [i [Hi Ei]]. destruct (In_nth B b dbox Hb) as [j [Hj Ej]].
  subst a b. specialize (Hc i j Hi Hj Hov).
  pose proof (proj1 (overlaps_iff _ _) Hov) as [[Hx1 Hx2] _].
  apply in_map_iff in Hc. destruct Hc as [[[fa i0] j0] [Hab H]].
  apply sweep_reported in H.
  destruct H as [e [e' [Hin [Hin' [Ha1 [Hi1 [Hd1 [Ha2 [Hi2 [Hd2 [Hlt [_ Hr]]]]]]]]]]]].
  apply sorted_event_canon in Hin. apply sorted_event_canon in Hin'.
  destruct Hin as [He _]. destruct Hin' as [He' _].
  rewrite Ha1, Hi1, Hd1 in He. rewrite Ha2, Hi2, Hd2 in He'. subst e e'.
  destruct fa; simpl in Hab; inversion Hab; subst i0 j0.
  - (* reported when A_i was added: then B_j would have to come strictly first *)
    exfalso. unfold evlt, lt_ev, mkev, rank, bleft, bright in *. simpl in Hlt.
    destruct Hlt as [H|[_ H]]; [lra|lia].
  - (* reported when B_j was added: A_i must not have been removed before *)
    destruct (Rlt_le_dec (bleft (nth j B dbox)) (bright (nth i A dbox))) as [Hok|Hbad]; [exact Hok|].
    exfalso.
    assert (Hrin : In (rem_ev A B true i) (sorted_events A B)).
    { apply in_sorted_events. exists true, false, i. auto. }
    assert (Hpre : evlt A (rem_ev A B true i) (add_ev A B false j)).
    { unfold evlt, lt_ev, rem_ev, add_ev, mkev, rank, bleft, bright in *. simpl.
      right. split; [lra|lia]. }
    specialize (Hr _ Hrin (conj eq_refl (conj eq_refl eq_refl)) Hpre).
    unfold evlt, lt_ev, rem_ev, mkev, rank, bleft, bright in *. simpl in Hr.
    destruct Hr as [H|[_ H]]; [lra|lia].
Qed.

(* exact characterisation: the sweep returns all overlapping pairs iff there is no bad tie *)
Theorem sweep_eq_all_pairs_iff (A B : list (bbox R)) :
  Permutation (map as_ab (bbox_intersections ROps A B)) (all_overlapping_pairs A B) <-> no_bad_tie A B.
Proof.
  split; [|apply sweep_eq_all_pairs_weak].
  intros Hp. apply sweep_complete_needs_no_bad_tie. intros i j Hi Hj Hov.
  apply (Permutation_in _ (Permutation_sym Hp)). apply in_all_overlapping_pairs. auto.
Qed.

(* ---------- concrete instances ---------- *)

(* evaluate a closed instance: normalise, decide one real comparison, repeat *)
Ltac rdecide :=
  rcbv;
  repeat (match goal with
          | |- context [Rlt_dec ?a ?b] =>
              destruct (Rlt_dec a b); [ try (exfalso; lra) | try (exfalso; lra) ]
          end; rcbv).

Definition exA : list (bbox R) := [BB (P 0 0) (P 2 2); BB (P 5 0) (P 6 1)].
Definition exB : list (bbox R) := [BB (P 1 1) (P 3 3)].

(* B_0 is added while A_0 is active; A_1 lies to the right of everything *)
Example sweep_example : bbox_intersections ROps exA exB = [(false, 0%nat, 0%nat)].
Proof. unfold exA, exB. rdecide. reflexivity. Qed.

Example sweep_example_wf : wf_boxes exA /\ wf_boxes exB.
Proof. split; repeat constructor; unfold bleft, bright; simpl; lra. Qed.

Example sweep_example_tie_free : tie_free exA exB.
Proof.
  intros a b Ha Hb. simpl in Ha, Hb. destruct Hb as [Hb|[]]. subst b.
  destruct Ha as [Ha|[Ha|[]]]; subst a; unfold bleft, bright; simpl.
  - left. unfold Rmax, Rmin. destruct (Rle_dec 0 1); destruct (Rle_dec 2 3); lra.
  - right. right. lra.
Qed.

Example sweep_example_pairs : all_overlapping_pairs exA exB = [(0%nat, 0%nat)].
Proof. unfold all_overlapping_pairs, exA, exB. rdecide. reflexivity. Qed.

(* the general theorem instantiated: non-vacuous *)
Example sweep_example_thm :
  Permutation (map as_ab (bbox_intersections ROps exA exB)) [(0%nat, 0%nat)].
Proof.
  rewrite <- sweep_example_pairs.
  apply sweep_eq_all_pairs; [apply sweep_example_wf | apply sweep_example_wf | apply sweep_example_tie_free].
Qed.

(* Why the tie condition is there: boxes sharing an edge x = 1 overlap (closed ranges), but when the A-shape
   is the left one its remove event (key 1, earlier in the unsorted list) is processed before the B-shape's
   add event (key 1), and the pair is lost.  With the roles swapped the pair is found. *)
Definition tieL : bbox R := BB (P 0 0) (P 1 1).
Definition tieR : bbox R := BB (P 1 0) (P 2 1).

Example tie_boxes_overlap : BBox_overlaps ROps tieL tieR = true.
Proof. apply overlaps_iff. simpl. lra. Qed.

Example sweep_tie_missed : bbox_intersections ROps [tieL] [tieR] = [].
Proof. unfold tieL, tieR. rdecide. reflexivity. Qed.

Example sweep_tie_found : bbox_intersections ROps [tieR] [tieL] = [(true, 0%nat, 0%nat)].
Proof. unfold tieL, tieR. rdecide. reflexivity. Qed.

(* without the tie condition the statement is false, even for well-formed boxes *)
Theorem sweep_eq_all_pairs_without_tie_free_refuted :
  exists A B, wf_boxes A /\ wf_boxes B /\
    ~ Permutation (map as_ab (bbox_intersections ROps A B)) (all_overlapping_pairs A B).
Proof.
  exists [tieL], [tieR]. split; [|split].
  - repeat constructor. unfold bleft, bright; simpl; lra.
  - repeat constructor. unfold bleft, bright; simpl; lra.
  - rewrite sweep_tie_missed. simpl. intros Hp. apply Permutation_nil in Hp.
    assert (Hin : In (0%nat, 0%nat) (all_overlapping_pairs [tieL] [tieR])).
    { apply in_all_overlapping_pairs. simpl. split; [lia|]. split; [lia|]. exact tie_boxes_overlap. }
    rewrite Hp in Hin. exact Hin.
Qed.

(* a zero-width A-shape strictly inside a B-shape's x-range is still paired (tie_free excludes it, no_bad_tie
   does not) *)
Example sweep_zero_width :
  bbox_intersections ROps [BB (P 1 0) (P 1 1)] [BB (P 0 0) (P 2 1)] = [(true, 0%nat, 0%nat)].
Proof. rdecide. reflexivity. Qed.

(* ---------- reading the order relation as list positions ---------- *)

Lemma SSorted_impl {X} (R1 R2 : X -> X -> Prop) (l : list X) :
  (forall x y, R1 x y -> R2 x y) -> StronglySorted R1 l -> StronglySorted R2 l.
Proof.
  intros Himp. induction 1 as [|a l Hs IH Hf]; constructor; auto.
  rewrite Forall_forall in *. auto.
Qed.

(* the processed list is sorted by key *)
Lemma sorted_events_keys A B :
  StronglySorted (fun x y => ekey x <= ekey y) (sorted_events A B).
Proof. apply (SSorted_impl (evlt A)); [apply lt_ev_key_le | apply sorted_events_sorted]. Qed.

Definition precedes {X} (l : list X) (x y : X) : Prop :=
  exists l1 l2 l3, l = l1 ++ x :: l2 ++ y :: l3.

Lemma sorted_precedes_iff {X} (lt : X -> X -> Prop) (l : list X) :
  (forall x, ~ lt x x) -> (forall x y z, lt x y -> lt y z -> lt x z) ->
  StronglySorted lt l ->
  forall x y, In x l -> In y l -> (lt x y <-> precedes l x y).
Proof.
  intros Hirr Htr Hs x y Hx Hy. split.
  - intros Hlt. apply in_split in Hx. destruct Hx as [l1 [r Hl]]. subst l.
    apply SSorted_app_iff in Hs. destruct Hs as [_ [Hs2 Hc]].
    apply in_app_iff in Hy. destruct Hy as [Hy|[Hy|Hy]].
    + exfalso. apply (Hirr x). apply Htr with y; auto. apply Hc; simpl; auto.
    + subst y. exfalso. exact (Hirr _ Hlt).
    + apply in_split in Hy. destruct Hy as [l2 [l3 Hr]]. subst r. exists l1, l2, l3. reflexivity.
  - intros [l1 [l2 [l3 Hl]]]. subst l.
    apply SSorted_app_iff in Hs. destruct Hs as [_ [Hs2 _]].
    inversion Hs2 as [|? ? _ Hf]; subst. rewrite Forall_forall in Hf. apply Hf.
    apply in_app_iff. simpl. auto.
Qed.

(* in the list that is actually processed, "x is processed before y" is exactly evlt *)
Lemma sorted_events_precedes A B x y :
  In x (sorted_events A B) -> In y (sorted_events A B) ->
  (evlt A x y <-> precedes (sorted_events A B) x y).
Proof.
  apply sorted_precedes_iff;
    [apply lt_ev_irrefl | apply lt_ev_trans | apply sorted_events_sorted].
Qed.
